(* C02 - weight rules.  Shape of what SmodelsConvert::rule(Head_t, AtomSpan, Weight_t, WeightLitSpan) emits
   (a direct smodels weight rule when the head is one atom / the false atom, not a choice, bound >= 0; otherwise the split
   `aux :- sum`, `H :- aux` with aux = newAtom()), the generic run-level shape lemma over annotated calls (the annotation
   is the auxiliary atom a call consumed, if any), the extraction of the definitions D and the user rules U from a run,
   and the end-to-end equivalence for programs of plain and weight rules via ProofsDefExt. *)
Require Import V.Lib.Base V.Lib.Calls V.Gen.Consts V.Gen.Consts_C02 V.C02.Model V.C02.Sem V.C02.ProofsMap V.C02.ProofsErr
  V.C02.ProofsIso V.C02.ProofsShape V.C02.ProofsDefExt.
Require Import ZifyBool.
Local Open Scope Z_scope.

Definition rn_wl (m : Z -> Z) (lw : Z * Z) : Z * Z := (rn_lit m (fst lw), snd lw).

Lemma mapWLits_shape ls : forall s sf,
  Inv s -> good (fst (mapWLits s ls)) sf -> next sf <= SMID_MOD ->
  snd (mapWLits s ls) = map (rn_wl (img sf)) ls /\ Forall (fun lw => img sf (Z.abs (fst lw)) <> 0) ls.
Proof.
  induction ls as [|[l w] r IH]; intros s sf HI G HB; simpl in *; [split; [reflexivity | constructor]|].
  pose proof (mapLit_shape s l sf HI) as M. pose proof (good_mapLit s l) as G1.
  destruct (mapLit s l) as [s1 x]. cbn [fst snd] in *.
  pose proof (IH s1 sf) as IH1. pose proof (good_mapWLits r s1) as G2.
  destruct (mapWLits s1 r) as [s2 xs]. cbn [fst snd] in *.
  assert (B2 : next s2 <= SMID_MOD) by (destruct G as [L _]; lia).
  assert (B1 : next s1 <= SMID_MOD) by (destruct G2 as [L _]; lia).
  assert (I1 : Inv s1) by (apply (Inv_of_good _ _ G1 HI B1)).
  destruct (M (good_trans _ _ _ G2 G) HB) as [M1 M2]. destruct (IH1 I1 G HB) as [E1 E2].
  split; [rewrite M1, E1; reflexivity | constructor; assumption].
Qed.

(* ---- annotated emission: what each input call puts on out_, in terms of the FINAL atom map m and the aux atom used ---- *)
Definition hd' (m : Z -> Z) (h : list Z) : list Z := match h with [] => [false_atom] | _ => map m h end.
Definition keepc (ht : Z) (h : list Z) : bool := nonempty h || (ht =? Head_t_Disjunctive).
Definition direct (ht : Z) (h : list Z) (bd : Z) : bool :=
  negb (ht =? Head_t_Choice) && (length h <=? 1)%nat && (0 <=? bd).

Definition emitA (m : Z -> Z) (c : call) (ann : option Z) : list call :=
  match c with
  | CRule ht h b => emit_rule m c
  | CWRule ht h bd b =>
      if keepc ht h then
        if direct ht h bd then [CWRule ht (hd' m h) bd (map (rn_wl m) b)]
        else match ann with
             | Some x => [CWRule Head_t_Disjunctive [x] bd (map (rn_wl m) b); CRule ht (hd' m h) [x]]
             | None => []
             end
      else []
  | COutput n cond =>
      match ann with Some x => [CRule Head_t_Disjunctive [x] (map (rn_lit m) cond)] | None => [] end
  | _ => []
  end.

Definition ann_ok (c : call) (ann : option Z) : Prop :=
  match c with
  | CWRule ht h bd b => if keepc ht h && negb (direct ht h bd) then ann <> None else ann = None
  | COutput n cond => ann = None -> exists c0, cond = [c0] /\ 0 <= c0
  | _ => ann = None
  end.
Definition mappedA (m : Z -> Z) (c : call) : Prop :=
  match c with
  | CRule ht h b => keepc ht h = true -> Forall (fun a => m a <> 0) h /\ Forall (fun l => m (Z.abs l) <> 0) b
  | CWRule ht h bd b =>
      keepc ht h = true -> Forall (fun a => m a <> 0) h /\ Forall (fun lw => m (Z.abs (fst lw)) <> 0) b
  | COutput n cond => Forall (fun l => m (Z.abs l) <> 0) cond
  | CExternal a v => m a <> 0
  | _ => True
  end.

(* the symbol-table entries (name, output atom) a call appends to output_ *)
Definition sym_na (x : sym) : list Z * Z := (s_name x, s_atom x).
Definition symsA (m : Z -> Z) (c : call) (ann : option Z) : list (list Z * Z) :=
  match c with
  | COutput n cond => [(cut0 n, match ann with Some x => x | None => m (hd 0 cond) end)]
  | _ => []
  end.

Definition call_shape (m : Z -> Z) (s s1 sf : cv) (c : call) (out : list call) : Prop :=
  exists ann, out = emitA m c ann /\ ann_ok c ann /\ mappedA m c /\
    match ann with Some x => next s <= x < next s1 /\ In x (auxs sf) | None => True end /\
    map sym_na (outs s1) = map sym_na (outs s) ++ symsA m c ann.

Lemma outs_rw ext s c s1 out : match c with CRule _ _ _ | CWRule _ _ _ _ => True | _ => False end ->
  cv_call ext s c = Ok (s1, out) -> outs s1 = outs s.
Proof.
  destruct c; try contradiction; intros _; cbn [cv_call].
  - destruct (negb _ || _); [|intros H; inversion H; reflexivity].
    pose proof (ho_mapHead s head) as [_ H1]. destruct (mapHead s head) as [sa mh].
    pose proof (ho_mapLits body sa) as [_ H2]. destruct (mapLits sa body) as [sb mb]. simpl in *.
    intros H; inversion H; subst. congruence.
  - destruct (negb _ || _); [|intros H; inversion H; reflexivity].
    pose proof (ho_mapHead s head) as [_ H1]. destruct (mapHead s head) as [sa mh].
    pose proof (ho_mapWLits body sa) as [_ H2]. destruct (mapWLits sa body) as [sb mb]. simpl in *.
    destruct (negb (ht =? Head_t_Choice) && _ && _); intros H; inversion H; subst; simpl; congruence.
Qed.

Lemma hd'_length m h : ((length (hd' m h) =? 1) = (length h <=? 1))%nat.
Proof. destruct h as [|a [|b r]]; reflexivity. Qed.

Lemma rule_call_shape ext s c s1 out sf :
  is_rule c = true -> cv_call ext s c = Ok (s1, out) -> Inv s -> good s1 sf -> next sf <= SMID_MOD ->
  call_shape (img sf) s s1 sf c out.
Proof.
  intros Hc H HI G HB. destruct (rule_shape ext s c s1 out sf Hc H HI G HB) as [E M].
  pose proof (outs_rw ext s c s1 out) as HO.
  destruct c; try discriminate. exists None. split; [exact E|]. split; [reflexivity|]. split; [exact M|]. split; [exact I|].
  simpl. rewrite app_nil_r, (HO I H). reflexivity.
Qed.

Definition is_wrule (c : call) : bool := match c with CWRule _ _ _ _ => true | _ => false end.

Definition call_shape0 (m : Z -> Z) (s s1 sf : cv) (c : call) (out : list call) : Prop :=
  exists ann, out = emitA m c ann /\ ann_ok c ann /\ mappedA m c /\
    match ann with Some x => next s <= x < next s1 /\ In x (auxs sf) | None => True end.

Lemma wrule_call_shape0 ext s c s1 out sf :
  is_wrule c = true -> cv_call ext s c = Ok (s1, out) -> Inv s -> good s1 sf -> next sf <= SMID_MOD ->
  call_shape0 (img sf) s s1 sf c out.
Proof.
  destruct c; try discriminate. intros _. cbn [cv_call]. unfold call_shape0, emitA, ann_ok, mappedA, keepc, nonempty.
  destruct (negb match head with [] => true | _ => false end || (ht =? Head_t_Disjunctive)) eqn:K.
  - unfold mapHead. pose proof (mapHeadAtoms_shape head s sf) as MH. pose proof (good_mapHeadAtoms head s) as G1.
    destruct (mapHeadAtoms s head) as [sa mh]. cbn [fst snd] in *.
    pose proof (mapWLits_shape body sa sf) as ML. pose proof (good_mapWLits body sa) as G2.
    destruct (mapWLits sa body) as [sb mb]. cbn [fst snd] in *.
    intros H HI G HB.
    assert (EQ : forall sc, good sc sf -> good sb sc ->
       snd (mapHeadAtoms s head) = snd (mapHeadAtoms s head) -> (* dummy to keep the shape of the statement simple *)
       mh = map (img sf) head /\ Forall (fun a => img sf a <> 0) head /\
       mb = map (rn_wl (img sf)) body /\ Forall (fun lw => img sf (Z.abs (fst lw)) <> 0) body).
    { intros sc Gc Gbc _.
      assert (Gb : good sb sf) by (eapply good_trans; eassumption).
      assert (Bb : next sa <= SMID_MOD) by (destruct G2 as [L _]; destruct Gb as [L2 _]; lia).
      assert (Ia : Inv sa) by (apply (Inv_of_good _ _ G1 HI Bb)).
      destruct (MH HI (good_trans _ _ _ G2 Gb) HB) as [E1 F1]. destruct (ML Ia Gb HB) as [E2 F2]. auto. }
    set (mh' := match mh with [] => [false_atom] | _ :: _ => mh end) in *.
    assert (EH : forall sc, good sc sf -> good sb sc -> mh' = hd' (img sf) head /\
       Forall (fun a => img sf a <> 0) head /\ mb = map (rn_wl (img sf)) body /\
       Forall (fun lw => img sf (Z.abs (fst lw)) <> 0) body).
    { intros sc Gc Gbc. destruct (EQ sc Gc Gbc eq_refl) as [E1 [F1 [E2 F2]]]. repeat split; auto.
      unfold mh'. rewrite E1. unfold hd'. destruct head; reflexivity. }
    destruct (negb (ht =? Head_t_Choice) && (length mh' =? 1)%nat && (0 <=? bound)) eqn:Dr.
    + inversion H; subst. destruct (EH s1 G (good_refl s1)) as [E1 [F1 [E2 F2]]].
      assert (Dr' : direct ht head bound = true) by (unfold direct; rewrite <- (hd'_length (img sf)), <- E1; exact Dr).
      rewrite Dr'. exists None. rewrite E1, E2. simpl. repeat split; auto.
    + pose proof (good_newAtom sb) as [G3 [EA IA]]. unfold newAtom in *. simpl in H, G3, EA, IA. inversion H; subst.
      destruct (EH _ G G3) as [E1 [F1 [E2 F2]]].
      assert (Dr' : direct ht head bound = false) by (unfold direct; rewrite <- (hd'_length (img sf)), <- E1; exact Dr).
      rewrite Dr'. exists (Some (next sb)). rewrite E1, E2. simpl. split; [reflexivity|]. split; [discriminate|].
      split; [intros _; split; assumption|]. split.
      * pose proof (good_next _ _ G1). pose proof (good_next _ _ G2). lia.
      * assert (B3 : next sb + 1 <= SMID_MOD) by (pose proof (good_next _ _ G) as L; simpl in L; lia).
        assert (Ib : Inv sb).
        { apply (Inv_of_good s sb); [eapply good_trans; eassumption | exact HI | lia]. }
        destruct G3 as [_ G3]. destruct (G3 Ib B3) as [I3 _].
        destruct G as [_ G]. destruct (G I3 HB) as [_ [_ KA]]. apply KA. simpl. auto.
  - intros H _ _ _. inversion H; subst. exists None. repeat split; auto; discriminate.
Qed.

Lemma wrule_call_shape ext s c s1 out sf :
  is_wrule c = true -> cv_call ext s c = Ok (s1, out) -> Inv s -> good s1 sf -> next sf <= SMID_MOD ->
  call_shape (img sf) s s1 sf c out.
Proof.
  intros Hw H HI G HB. destruct (wrule_call_shape0 ext s c s1 out sf Hw H HI G HB) as [ann [E [A [M X]]]].
  pose proof (outs_rw ext s c s1 out) as HO.
  destruct c; try discriminate. exists ann. split; [exact E|]. split; [exact A|]. split; [exact M|]. split; [exact X|].
  simpl. rewrite app_nil_r, (HO I H). reflexivity.
Qed.

(* ---- a run: one annotation per call ---- *)
Fixpoint somes (l : list (option Z)) : list Z :=
  match l with [] => [] | Some x :: r => x :: somes r | None :: r => somes r end.
Definition emitL (m : Z -> Z) (cas : list (call * option Z)) : list call :=
  flat_map (fun ca => emitA m (fst ca) (snd ca)) cas.

Definition symsL (m : Z -> Z) (cas : list (call * option Z)) : list (list Z * Z) :=
  flat_map (fun ca => symsA m (fst ca) (snd ca)) cas.

Lemma run_shape ext sf (ok : call -> bool) :
  (forall s c s1 out, ok c = true -> cv_call ext s c = Ok (s1, out) -> Inv s -> good s1 sf -> next sf <= SMID_MOD ->
     call_shape (img sf) s s1 sf c out) ->
  forall ds s s1 out, forallb ok ds = true -> cv_run ext s ds = Ok (s1, out) -> Inv s -> good s1 sf ->
    next sf <= SMID_MOD ->
  exists cas, map fst cas = ds /\ out = emitL (img sf) cas /\
    Forall (fun ca => ann_ok (fst ca) (snd ca) /\ mappedA (img sf) (fst ca)) cas /\
    NoDup (somes (map snd cas)) /\
    Forall (fun x => next s <= x < next s1 /\ In x (auxs sf)) (somes (map snd cas)) /\
    map sym_na (outs s1) = map sym_na (outs s) ++ symsL (img sf) cas.
Proof.
  intros PC. induction ds as [|c r IH]; intros s s1 out HR Hrun HI G HB; simpl in *.
  - inversion Hrun; subst. exists []. simpl. rewrite app_nil_r. repeat split; constructor.
  - apply andb_true_iff in HR as [Hc Hr].
    destruct (cv_call ext s c) as [[sa oa]|] eqn:Ec; [|discriminate].
    destruct (cv_run ext sa r) as [[sb ob]|] eqn:Er; [|discriminate]. inversion Hrun; subst.
    assert (Ga : good sa s1) by (eapply good_cv_run; exact Er).
    assert (Gf : good sa sf) by (eapply good_trans; eassumption).
    assert (Ba : next sa <= SMID_MOD) by (destruct Gf as [L _]; lia).
    assert (Gc : good s sa) by (eapply good_cv_call; exact Ec).
    assert (Ia : Inv sa) by (apply (Inv_of_good _ _ Gc HI Ba)).
    destruct (PC s c sa oa Hc Ec HI Gf HB) as [ann [E1 [A1 [M1 [X1 O1]]]]].
    destruct (IH sa s1 ob Hr Er Ia G HB) as [cas [E2 [E3 [F2 [N2 [R2 O2]]]]]].
    exists ((c, ann) :: cas). simpl. split; [rewrite E2; reflexivity|]. split; [unfold emitL in *; simpl; rewrite E1, E3; reflexivity|].
    split; [constructor; [split; assumption | exact F2]|].
    pose proof (good_next _ _ Gc) as L1. pose proof (good_next _ _ Ga) as L2.
    assert (R2' : Forall (fun x => next s <= x < next s1 /\ In x (auxs sf)) (somes (map snd cas))).
    { eapply Forall_impl; [|exact R2]. simpl. intros x [Hx Ix]. split; [lia | exact Ix]. }
    assert (O3 : map sym_na (outs s1) = map sym_na (outs s) ++ symsL (img sf) ((c, ann) :: cas)).
    { unfold symsL in *. simpl. rewrite O2, O1, app_assoc. reflexivity. }
    destruct ann as [x|]; simpl; [|repeat split; assumption].
    destruct X1 as [Rx Ix]. split; [|split; [|exact O3]].
    + constructor; [|exact N2]. intros Hin. rewrite Forall_forall in R2. destruct (R2 x Hin) as [Hx _]. lia.
    + constructor; [split; [lia | exact Ix] | exact R2'].
Qed.

(* ---- definitions and user rules of an annotated run ---- *)
Definition defsA (m : Z -> Z) (c : call) (ann : option Z) : list (Z * body) :=
  match c, ann with
  | CWRule ht h bd b, Some x => if keepc ht h && negb (direct ht h bd) then [(x, BSum bd (map (rn_wl m) b))] else []
  | COutput n cond, Some x => [(x, BNormal (map (rn_lit m) cond))]
  | _, _ => []
  end.
Definition usersA (m : Z -> Z) (c : call) (ann : option Z) : list rule :=
  match c with
  | CRule ht h b => if keepc ht h then [mkRule (ht =? Head_t_Choice) (hd' m h) (BNormal (map (rn_lit m) b))] else []
  | CWRule ht h bd b =>
      if keepc ht h then
        if direct ht h bd then [mkRule (ht =? Head_t_Choice) (hd' m h) (BSum bd (map (rn_wl m) b))]
        else match ann with Some x => [mkRule (ht =? Head_t_Choice) (hd' m h) (BNormal [x])] | None => [] end
      else []
  | _ => []
  end.
Definition defsL (m : Z -> Z) (cas : list (call * option Z)) : list (Z * body) :=
  flat_map (fun ca => defsA m (fst ca) (snd ca)) cas.
Definition usersL (m : Z -> Z) (cas : list (call * option Z)) : list rule :=
  flat_map (fun ca => usersA m (fst ca) (snd ca)) cas.
Definition targetA (m : Z -> Z) (c : call) : list rule :=
  map (fix_empty false_atom) (map (rn_rule m) (filter keep (rules_of [c]))).

Lemma rules_of_app a b : rules_of (a ++ b) = rules_of a ++ rules_of b.
Proof. unfold rules_of. apply flat_map_app. Qed.

Lemma rules_emitA m c ann : rules_of (emitA m c ann) = def_rules (defsA m c ann) ++ usersA m c ann.
Proof.
  destruct c; try reflexivity.
  - simpl. unfold keepc. destruct (nonempty head || (ht =? Head_t_Disjunctive)); reflexivity.
  - simpl. destruct (keepc ht head); [|destruct ann; reflexivity]. simpl.
    destruct (direct ht head bound); simpl; [destruct ann; reflexivity|]. destruct ann; reflexivity.
  - simpl. destruct ann; reflexivity.
Qed.

(* well-formedness of input calls: the aspif contract *)
Definition call_wf (c : call) : Prop :=
  match c with
  | CRule ht h b => (ht = Head_t_Disjunctive \/ ht = Head_t_Choice) /\ Forall (fun a => 0 < a) h /\ Forall (fun l => l <> 0) b
  | CWRule ht h bd b => (ht = Head_t_Disjunctive \/ ht = Head_t_Choice) /\ Forall (fun a => 0 < a) h /\
                        Forall (fun lw => fst lw <> 0 /\ 0 <= snd lw) b
  | COutput n cond => Forall (fun l => l <> 0) cond /\ nul_free n
  | CExternal a v => 0 < a /\ 0 <= v <= 3
  | CMin p ls => Forall (fun lw => fst lw <> 0) ls
  | _ => True
  end.

Lemma keep_keepc ht h b : ht = Head_t_Disjunctive \/ ht = Head_t_Choice ->
  keep (mkRule (ht =? Head_t_Choice) h b) = keepc ht h.
Proof.
  intros [->| ->]; unfold keep, keepc, nonempty; simpl; destruct h; reflexivity.
Qed.

Lemma abs_rn_lit m l : 0 <= m (Z.abs l) -> Z.abs (rn_lit m l) = m (Z.abs l).
Proof.
  unfold rn_lit. intros H. destruct (Z.ltb_spec l 0).
  - replace (Z.abs l) with (- l) in * by lia. lia.
  - replace (Z.abs l) with l in * by lia. lia.
Qed.

Lemma defsA_cases m c ann : defsA m c ann = [] \/ exists x B, ann = Some x /\ defsA m c ann = [(x, B)].
Proof.
  destruct c; auto; destruct ann as [x|]; auto; simpl.
  - destruct (keepc ht head && negb (direct ht head bound)); [right; eexists; eexists; eauto | auto].
  - right. eexists; eexists; eauto.
Qed.

Lemma somes_defs m cas : forall x, In x (map fst (defsL m cas)) -> In x (somes (map snd cas)).
Proof.
  induction cas as [|[c ann] r IH]; intros x Hx; [destruct Hx|].
  unfold defsL in Hx. simpl in Hx. rewrite map_app in Hx. apply in_app_iff in Hx as [Hx|Hx].
  - simpl. destruct (defsA_cases m c ann) as [E|[y [B [-> E]]]]; rewrite E in Hx; simpl in Hx; [destruct Hx|].
    destruct Hx as [<-|[]]. left; reflexivity.
  - simpl. destruct ann; [right|]; apply IH; exact Hx.
Qed.

Lemma nodup_defs m cas : NoDup (somes (map snd cas)) -> NoDup (map fst (defsL m cas)).
Proof.
  induction cas as [|[c ann] r IH]; intros ND; [constructor|].
  unfold defsL. simpl. rewrite map_app. fold (defsL m r).
  destruct (defsA_cases m c ann) as [E|[x [B [-> E]]]]; rewrite E; simpl in *.
  - apply IH. destruct ann; [inversion ND; assumption | exact ND].
  - inversion ND as [|? ? N1 N2]; subst. constructor; [|apply IH; exact N2].
    intros Hin. apply N1. apply (somes_defs m r). exact Hin.
Qed.

Lemma isdef_In D x : isdef D x = true -> In x (map fst D).
Proof.
  unfold isdef. destruct (dlook D x) as [B|] eqn:E; [|discriminate]. intros _.
  apply dlook_In in E. apply (in_map fst) in E. exact E.
Qed.

Lemma targetL m ds : flat_map (targetA m) ds = map (fix_empty false_atom) (map (rn_rule m) (filter keep (rules_of ds))).
Proof.
  induction ds as [|c r IH]; [reflexivity|].
  change (c :: r) with ([c] ++ r) at 2. rewrite rules_of_app, filter_app, !map_app. simpl. rewrite IH. reflexivity.
Qed.

Lemma In_kept_rules ds r : In r (filter keep (rules_of ds)) <-> exists c, In c ds /\ In r (filter keep (rules_of [c])).
Proof.
  induction ds as [|c0 ds IH].
  - simpl. split; [intros [] | intros [c [[] _]]].
  - change (c0 :: ds) with ([c0] ++ ds) at 1. rewrite rules_of_app, filter_app, in_app_iff, IH. split.
    + intros [H|[c [H1 H2]]]; [exists c0; split; [left; reflexivity | exact H] | exists c; split; [right; exact H1 | exact H2]].
    + intros [c [[<-|H1] H2]]; [left; exact H2 | right; exists c; auto].
Qed.

Lemma fe_rn m ht h B : keepc ht h = true -> ht = Head_t_Disjunctive \/ ht = Head_t_Choice ->
  fix_empty false_atom (mkRule (ht =? Head_t_Choice) (map m h) B) = mkRule (ht =? Head_t_Choice) (hd' m h) B.
Proof.
  intros K V. destruct h as [|a r]; [|unfold fix_empty; simpl; rewrite andb_false_r; reflexivity].
  unfold keepc in K. simpl in K. apply Z.eqb_eq in K. subst ht. reflexivity.
Qed.

Lemma map_flat_map_in {A B C} (h : B -> C) (f : A -> list B) (g : A -> list C) l :
  (forall x, In x l -> map h (f x) = g x) -> map h (flat_map f l) = flat_map g l.
Proof.
  induction l as [|x l IH]; intros H; [reflexivity|]. simpl. rewrite map_app, (H x) by (left; reflexivity).
  rewrite IH by (intros y Hy; apply H; right; exact Hy). reflexivity.
Qed.
Lemma flat_map_fst {A B C} (g : A -> list C) (l : list (A * B)) : flat_map g (map fst l) = flat_map (fun ca => g (fst ca)) l.
Proof. induction l as [|x l IH]; [reflexivity|]. simpl. rewrite IH. reflexivity. Qed.

Section DU.
Variable sf : cv.
Hypothesis sf_inv : Inv sf.
Let m := img sf.
Variable cas : list (call * option Z).
Hypothesis cas_ok : Forall (fun ca => ann_ok (fst ca) (snd ca) /\ mappedA m (fst ca) /\ call_wf (fst ca)) cas.
Hypothesis cas_nd : NoDup (somes (map snd cas)).
Hypothesis cas_aux : Forall (fun x => In x (auxs sf)) (somes (map snd cas)).
Let D := defsL m cas.
Let U := usersL m cas.

Lemma cas_ann : Forall (fun ca => ann_ok (fst ca) (snd ca)) cas.
Proof. eapply Forall_impl; [|exact cas_ok]. simpl. tauto. Qed.

Lemma D_aux x : isdef D x = true -> In x (auxs sf).
Proof.
  intros H. apply isdef_In in H. apply (somes_defs m cas) in H.
  pose proof cas_aux as CA. rewrite Forall_forall in CA. apply CA. exact H.
Qed.

Lemma img_notdef a : m a <> 0 -> isdef D (m a) = false.
Proof.
  intros Ha. destruct (isdef D (m a)) eqn:E; [|reflexivity]. apply D_aux in E.
  destruct (inv_aux _ sf_inv _ E) as [_ N]. exfalso. apply (N a). reflexivity.
Qed.
Lemma false_notdef : isdef D false_atom = false.
Proof.
  destruct (isdef D false_atom) eqn:E; [|reflexivity]. apply D_aux in E.
  destruct (inv_aux _ sf_inv _ E) as [R _]. pose proof consts_ok. lia.
Qed.
Lemma img_pos a : m a <> 0 -> 0 < m a.
Proof. intros Ha. pose proof (inv_rng _ sf_inv a Ha). pose proof consts_ok. unfold m. lia. Qed.

Lemma clean_lits ls : Forall (fun l => m (Z.abs l) <> 0) ls -> clean D (BNormal (map (rn_lit m) ls)).
Proof.
  intros F a Ha. simpl in Ha. rewrite map_map in Ha. apply in_map_iff in Ha as [l [<- Hl]].
  rewrite Forall_forall in F. specialize (F l Hl). rewrite abs_rn_lit by (pose proof (img_pos _ F); lia).
  apply img_notdef. exact F.
Qed.
Lemma clean_wlits bd ls : Forall (fun lw => m (Z.abs (fst lw)) <> 0) ls -> clean D (BSum bd (map (rn_wl m) ls)).
Proof.
  intros F a Ha. simpl in Ha. rewrite map_map in Ha. apply in_map_iff in Ha as [lw [<- Hl]].
  rewrite Forall_forall in F. specialize (F lw Hl). unfold rn_wl. simpl.
  rewrite abs_rn_lit by (pose proof (img_pos _ F); lia). apply img_notdef. exact F.
Qed.
Lemma nonneg_wlits bd ls : Forall (fun lw : Z * Z => fst lw <> 0 /\ 0 <= snd lw) ls -> body_nonneg (BSum bd (map (rn_wl m) ls)).
Proof.
  intros F. simpl. apply Forall_forall. intros lw Hl. apply in_map_iff in Hl as [lw0 [<- Hl]].
  rewrite Forall_forall in F. destruct (F lw0 Hl) as [_ W]. exact W.
Qed.
Lemma hd'_notdef h : Forall (fun a => m a <> 0) h -> forall y, In y (hd' m h) -> isdef D y = false.
Proof.
  intros F y Hy. unfold hd' in Hy. destruct h as [|a r].
  - destruct Hy as [<-|[]]. apply false_notdef.
  - apply in_map_iff in Hy as [b [<- Hb]]. rewrite Forall_forall in F. apply img_notdef. apply F. exact Hb.
Qed.

Lemma In_defsL x B : In (x, B) D -> exists c ann, In (c, ann) cas /\ In (x, B) (defsA m c ann).
Proof. intros H. apply in_flat_map in H as [[c ann] [H1 H2]]. exists c, ann. auto. Qed.

Lemma D_ok : defs_ok D.
Proof.
  split; [apply nodup_defs; exact cas_nd|].
  intros x B HD.
  assert (Ix : isdef D x = true).
  { unfold isdef. rewrite (In_dlook D x B); [reflexivity | apply nodup_defs; exact cas_nd | exact HD]. }
  split.
  { apply D_aux in Ix. destruct (inv_aux _ sf_inv _ Ix) as [R _]. pose proof consts_ok. lia. }
  destruct (In_defsL x B HD) as [c [ann [Hc Hd]]].
  pose proof cas_ok as CO. rewrite Forall_forall in CO. destruct (CO _ Hc) as [A [M W]]. simpl in A, M, W.
  destruct c; destruct ann as [y|]; simpl in Hd; try contradiction.
  - destruct (keepc ht head && negb (direct ht head bound)) eqn:K; [|contradiction]. destruct Hd as [Hd|[]].
    inversion Hd; subst. apply andb_true_iff in K as [K _]. destruct (M K) as [_ MB]. destruct W as [_ [_ WB]].
    split; [apply clean_wlits; exact MB | apply nonneg_wlits; exact WB].
  - destruct Hd as [Hd|[]]. inversion Hd; subst. split; [apply clean_lits; exact M | exact I].
Qed.

Lemma dlook_def c ann x B : In (c, ann) cas -> In (x, B) (defsA m c ann) -> dlook D x = Some B.
Proof.
  intros Hc Hd. apply In_dlook; [apply D_ok|]. apply in_flat_map. exists (c, ann). auto.
Qed.

Lemma users_ok r : In r U -> user_ok D r.
Proof.
  intros H. apply in_flat_map in H as [[c ann] [Hc Hu]]. simpl in Hu.
  pose proof cas_ok as CO. rewrite Forall_forall in CO. destruct (CO _ Hc) as [A [M W]]. simpl in A, M, W.
  destruct c; simpl in Hu; try contradiction.
  - destruct (keepc ht head) eqn:K; [|contradiction]. destruct Hu as [<-|[]].
    destruct (M K) as [MH MB]. split; [apply hd'_notdef; exact MH | right; apply clean_lits; exact MB].
  - destruct (keepc ht head) eqn:K; [|contradiction]. destruct (M K) as [MH MB].
    destruct (direct ht head bound) eqn:Dr.
    + destruct Hu as [<-|[]]. split; [apply hd'_notdef; exact MH | right; apply clean_wlits; exact MB].
    + destruct ann as [x|]; [|contradiction]. destruct Hu as [<-|[]]. split; [apply hd'_notdef; exact MH|].
      left. exists x, (BSum bound (map (rn_wl m) body)). split; [reflexivity|].
      apply (dlook_def _ _ _ _ Hc). simpl. rewrite K, Dr. simpl. auto.
Qed.

Lemma unfold_item c ann : In (c, ann) cas -> map (unfoldD D) (usersA m c ann) = targetA m c.
Proof.
  intros Hc. pose proof cas_ok as CO. rewrite Forall_forall in CO. destruct (CO _ Hc) as [A [M W]]. cbn [ann_ok mappedA call_wf fst snd] in A, M, W.
  destruct c; try reflexivity.
  - destruct W as [V _]. unfold targetA. simpl. rewrite (keep_keepc _ _ _ V). destruct (keepc ht head) eqn:K; [|reflexivity].
    destruct (M K) as [MH MB]. simpl. rewrite (unfold_clean D D_ok) by (apply clean_lits; exact MB).
    unfold rn_rule. simpl. rewrite (fe_rn m _ _ _ K V). reflexivity.
  - destruct W as [V _]. unfold targetA. simpl. rewrite (keep_keepc _ _ _ V). destruct (keepc ht head) eqn:K; [|reflexivity].
    destruct (M K) as [MH MB]. unfold rn_rule. simpl. rewrite (fe_rn m _ _ _ K V).
    destruct (direct ht head bound) eqn:Dr; simpl.
    + rewrite (unfold_clean D D_ok) by (apply clean_wlits; exact MB). reflexivity.
    + unfold ann_ok in A. rewrite K, Dr in A. simpl in A. destruct ann as [x|]; [|contradiction]. simpl.
      unfold unfoldD. simpl. rewrite (dlook_def _ _ x (BSum bound (map (rn_wl m) body)) Hc); [reflexivity|].
      simpl. rewrite K, Dr. simpl. auto.
Qed.

Lemma unfold_users : map (unfoldD D) U = flat_map (targetA m) (map fst cas).
Proof.
  unfold U, usersL. rewrite flat_map_fst.
  apply map_flat_map_in. intros [c ann] Hc. apply unfold_item. exact Hc.
Qed.

Lemma rules_emitL : forall r, In r (rules_of (emitL m cas)) <-> In r (def_rules D ++ U).
Proof.
  unfold D, U, defsL, usersL, emitL. clear. induction cas as [|[c ann] l IH]; intros r; [simpl; tauto|].
  simpl. rewrite rules_of_app, rules_emitA. unfold def_rules in *. rewrite map_app, !in_app_iff, IH, in_app_iff. tauto.
Qed.
End DU.

(* ---- the semantic core: rename + false atom + definitional extension, for abstract D / U / Rout ---- *)
Lemma push_ext m atoms X X1 z : (forall a, In a atoms -> X a = X1 a) -> push m atoms X z = push m atoms X1 z.
Proof.
  intros E. unfold push. induction atoms as [|a r IH]; [reflexivity|]. simpl.
  rewrite (E a) by (left; reflexivity). rewrite IH by (intros b Hb; apply E; right; exact Hb). reflexivity.
Qed.
Lemma extD_ext D X X1 y : (forall a, X a = X1 a) -> extD D X y = extD D X1 y.
Proof.
  intros E. unfold extD, extD2. destruct (dlook D y); [|apply E]. apply bsat_agree. intros a _. split; apply E.
Qed.
Lemma isdef_false_dlook D a : isdef D a = false -> dlook D a = None.
Proof. unfold isdef. destruct (dlook D a); [discriminate | reflexivity]. Qed.

Section SemCore.
Variable m : Z -> Z.
Variable atoms : list Z.
Hypothesis Hinj : forall a b, In a atoms -> In b atoms -> m a = m b -> a = b.
Hypothesis Hpos : forall a, In a atoms -> 0 < a /\ 0 < m a.
Variable K : list rule.
Hypothesis K_in : Forall (rule_in atoms) K.
Hypothesis K_nn : forall r, In r K -> body_nonneg (r_body r).
Variable D : list (Z * body).
Hypothesis Dok : defs_ok D.
Variable U Rout : list rule.
Hypothesis UO : forall r, In r U -> user_ok D r.
Hypothesis U_nn : forall r, In r U -> body_nonneg (r_body r).
Hypothesis U_hd : forall r h, In r U -> In h (r_head r) -> h = false_atom \/ exists a, In a atoms /\ m a = h.
Hypothesis EU : forall X', X' false_atom = false ->
  (stable (map (unfoldD D) U) X' <-> stable (map (fix_empty false_atom) (map (rn_rule m) K)) X').
Hypothesis ER : forall X', stable Rout X' <-> stable (def_rules D ++ U) X'.
Hypothesis img_nd : forall a, In a atoms -> isdef D (m a) = false.
Hypothesis f_nd : isdef D false_atom = false.
Hypothesis f_ni : forall a, In a atoms -> m a <> false_atom.

Definition fwd (X : interp) : interp := extD D (push m atoms X).

Lemma push_f X : push m atoms X false_atom = false.
Proof.
  destruct (push m atoms X false_atom) eqn:E; [|reflexivity]. apply push_true in E as [a [Ha [E _]]].
  exfalso. apply (f_ni a Ha). exact E.
Qed.
Lemma fwd_nd X y : isdef D y = false -> fwd X y = push m atoms X y.
Proof. intros H. unfold fwd, extD, extD2. rewrite (isdef_false_dlook D y H). reflexivity. Qed.

Lemma core_sound X : stable K X ->
  stable Rout (fwd X) /\ fwd X false_atom = false /\ (forall a, In a atoms -> fwd X (m a) = X a) /\
  (forall x B, dlook D x = Some B -> fwd X x = bsat (fwd X) (fwd X) B).
Proof.
  intros HS.
  assert (S1 : stable (def_rules D ++ U) (fwd X)).
  { apply (defext_sound D Dok U UO). apply EU; [apply push_f|]. apply constraint_false; [apply push_f|].
    apply rename_sound; assumption. }
  split; [apply ER; exact S1|]. split; [rewrite fwd_nd by exact f_nd; apply push_f|]. split.
  - intros a Ha. rewrite fwd_nd by (apply img_nd; exact Ha). apply agree_push; assumption.
  - intros x B E. apply (defext_values D Dok U UO (fwd X) x B S1 E).
Qed.

Lemma pull_drop X' a : pull m atoms (dropD D X') a = pull m atoms X' a.
Proof.
  unfold pull. destruct (inb atoms a) eqn:Ia; [|reflexivity]. simpl. apply inb_In in Ia.
  unfold dropD. rewrite (img_nd a Ia). reflexivity.
Qed.

Lemma core_complete X' : stable Rout X' -> X' false_atom = false ->
  stable K (pull m atoms X') /\ (forall y, fwd (pull m atoms X') y = X' y).
Proof.
  intros HS Xf. apply ER in HS.
  assert (Df : dropD D X' false_atom = false) by (unfold dropD; rewrite f_nd; exact Xf).
  split.
  - apply (stable_ext K (pull m atoms (dropD D X'))); [apply pull_drop|].
    apply rename_complete; try assumption. apply (constraint_false false_atom _ _ Df). apply EU; [exact Df|].
    apply (defext_complete D Dok U UO). exact HS.
  - intros y. unfold fwd.
    assert (PP : forall z, push m atoms (pull m atoms X') z = dropD D X' z).
    { intros z. rewrite (push_ext m atoms _ (pull m atoms (dropD D X'))) by (intros; symmetry; apply pull_drop).
      apply push_pull. intros w Hw. unfold dropD in Hw. destruct (isdef D w) eqn:Iw; [discriminate|].
      destruct (stable_supported (def_rules D ++ U) X' w) as [r [Hr Hh]]; [|exact HS | exact Hw|].
      - intros r Hr. apply in_app_iff in Hr as [Hr|Hr]; [|apply U_nn; exact Hr].
        apply (In_def_rules D Dok) in Hr as [x [B [-> E]]]. simpl. apply (def_clean D Dok x B E).
      - apply in_app_iff in Hr as [Hr|Hr].
        + apply (In_def_rules D Dok) in Hr as [x [B [-> E]]]. simpl in Hh. destruct Hh as [<-|[]].
          unfold isdef in Iw. rewrite E in Iw. discriminate.
        + destruct (U_hd r w Hr Hh) as [->|H]; [congruence | exact H]. }
    rewrite (extD_ext D _ (dropD D X') y PP). apply (ext_drop D Dok U UO X' y HS).
Qed.

Lemma core_roundtrip X a : stable K X -> pull m atoms (fwd X) a = X a.
Proof.
  intros HS. unfold pull. destruct (inb atoms a) eqn:Ia; simpl.
  - apply inb_In in Ia. rewrite fwd_nd by (apply img_nd; exact Ia). apply agree_push; assumption.
  - destruct (X a) eqn:Xa; [|reflexivity]. exfalso.
    destruct (stable_supported K X a K_nn HS Xa) as [r [Hr Hh]].
    rewrite Forall_forall in K_in. destruct (K_in r Hr) as [HH _]. rewrite Forall_forall in HH.
    apply HH, inb_In in Hh. congruence.
Qed.
End SemCore.

(* ---- end to end for programs of plain and weight rules ---- *)
Definition is_rw (c : call) : bool := is_rule c || is_wrule c.

Lemma rw_call_shape ext sf s c s1 out :
  is_rw c = true -> cv_call ext s c = Ok (s1, out) -> Inv s -> good s1 sf -> next sf <= SMID_MOD ->
  call_shape (img sf) s s1 sf c out.
Proof.
  intros H. apply orb_true_iff in H as [H|H]; [apply rule_call_shape | apply wrule_call_shape]; exact H.
Qed.

Lemma kept_atoms m c : call_wf c -> mappedA m c ->
  forall r a, In r (filter keep (rules_of [c])) -> In a (rule_atoms r) -> 0 < a /\ m a <> 0.
Proof.
  intros W M r a Hr Ha. destruct c; simpl in Hr; try contradiction.
  - simpl in Hr. destruct W as [V [P1 P2]]. rewrite (keep_keepc _ _ _ V) in Hr.
    destruct (keepc ht head) eqn:K; [|destruct Hr]. destruct Hr as [<-|[]]. destruct (M K) as [M1 M2].
    unfold rule_atoms in Ha. simpl in Ha. apply in_app_iff in Ha as [Ha|Ha].
    + rewrite Forall_forall in M1, P1. split; [apply P1 | apply M1]; exact Ha.
    + apply in_map_iff in Ha as [l [<- Hl]]. rewrite Forall_forall in M2, P2.
      split; [specialize (P2 l Hl); lia | apply M2; exact Hl].
  - simpl in Hr. destruct W as [V [P1 P2]]. rewrite (keep_keepc _ _ _ V) in Hr.
    destruct (keepc ht head) eqn:K; [|destruct Hr]. destruct Hr as [<-|[]]. destruct (M K) as [M1 M2].
    unfold rule_atoms in Ha. simpl in Ha. apply in_app_iff in Ha as [Ha|Ha].
    + rewrite Forall_forall in M1, P1. split; [apply P1 | apply M1]; exact Ha.
    + apply in_map_iff in Ha as [l [<- Hl]]. rewrite Forall_forall in M2, P2.
      split; [destruct (P2 l Hl); lia | apply M2; exact Hl].
Qed.

Lemma kept_nonneg c : call_wf c -> forall r, In r (filter keep (rules_of [c])) -> body_nonneg (r_body r).
Proof.
  intros W r Hr. apply filter_In in Hr as [Hr _]. destruct c; simpl in Hr; try contradiction.
  - simpl in Hr. destruct Hr as [<-|[]]. exact I.
  - simpl in Hr. destruct Hr as [<-|[]]. simpl. destruct W as [_ [_ P2]].
    eapply Forall_impl; [|exact P2]. simpl. tauto.
Qed.

Lemma rule_in_atoms (P : list rule) r : In r P -> rule_in (flat_map rule_atoms P) r.
Proof.
  intros Hr.
  assert (A : forall a, In a (rule_atoms r) -> In a (flat_map rule_atoms P)) by (intros a Ha; apply in_flat_map; exists r; auto).
  split.
  - apply Forall_forall. intros a Ha. apply A. unfold rule_atoms. apply in_app_iff. left. exact Ha.
  - destruct (r_body r) as [ls|bd wls] eqn:Eb; simpl; apply Forall_forall; intros x Hx; apply A; unfold rule_atoms;
      apply in_app_iff; right; rewrite Eb; simpl.
    + apply in_map. exact Hx.
    + apply (in_map (fun lw => Z.abs (fst lw))). exact Hx.
Qed.

Lemma users_nonneg m cas : Forall (fun ca => call_wf (fst ca)) cas -> forall r, In r (usersL m cas) -> body_nonneg (r_body r).
Proof.
  intros F r Hr. apply in_flat_map in Hr as [[c ann] [Hc Hu]]. rewrite Forall_forall in F. pose proof (F _ Hc) as W.
  simpl in W, Hu. destruct c; simpl in Hu; try contradiction.
  - destruct (keepc ht head); [|contradiction]. destruct Hu as [<-|[]]. exact I.
  - destruct (keepc ht head); [|contradiction]. destruct (direct ht head bound).
    + destruct Hu as [<-|[]]. simpl. destruct W as [_ [_ P2]]. apply Forall_forall. intros lw Hl.
      apply in_map_iff in Hl as [lw0 [<- Hl]]. rewrite Forall_forall in P2. destruct (P2 lw0 Hl) as [_ Q]. exact Q.
    + destruct ann; [|contradiction]. destruct Hu as [<-|[]]. exact I.
Qed.

Lemma users_heads m cas atoms :
  (forall c ann r a, In (c, ann) cas -> In r (filter keep (rules_of [c])) -> In a (rule_atoms r) -> In a atoms) ->
  Forall (fun ca => call_wf (fst ca)) cas ->
  forall r h, In r (usersL m cas) -> In h (r_head r) -> h = false_atom \/ exists a, In a atoms /\ m a = h.
Proof.
  intros HA F r h Hr Hh. apply in_flat_map in Hr as [[c ann] [Hc Hu]]. rewrite Forall_forall in F. pose proof (F _ Hc) as W.
  simpl in W, Hu.
  assert (G : forall ht head b, (ht = Head_t_Disjunctive \/ ht = Head_t_Choice) -> keepc ht head = true ->
            In (mkRule (ht =? Head_t_Choice) head b) (filter keep (rules_of [c])) ->
            In h (hd' m head) -> h = false_atom \/ exists a, In a atoms /\ m a = h).
  { intros ht head b V K Hin Hh'. unfold hd' in Hh'. destruct head as [|a0 r0]; [destruct Hh' as [<-|[]]; left; reflexivity|].
    right. apply in_map_iff in Hh' as [a [<- Ha]]. exists a. split; [|reflexivity].
    apply (HA c ann _ a Hc Hin). unfold rule_atoms. cbn [r_head]. apply in_or_app. left. exact Ha. }
  destruct c; simpl in Hu; try contradiction.
  - destruct W as [V _]. destruct (keepc ht head) eqn:K; [|contradiction]. destruct Hu as [<-|[]]. simpl in Hh.
    apply (G ht head (BNormal body) V K); [|exact Hh]. simpl. rewrite (keep_keepc _ _ _ V), K. left; reflexivity.
  - destruct W as [V _]. destruct (keepc ht head) eqn:K; [|contradiction].
    assert (Hin : In (mkRule (ht =? Head_t_Choice) head (BSum bound body)) (filter keep (rules_of [CWRule ht head bound body]))).
    { simpl. rewrite (keep_keepc _ _ _ V), K. left; reflexivity. }
    destruct (direct ht head bound).
    + destruct Hu as [<-|[]]. simpl in Hh. apply (G ht head _ V K Hin Hh).
    + destruct ann; [|contradiction]. destruct Hu as [<-|[]]. simpl in Hh. apply (G ht head _ V K Hin Hh).
Qed.

Theorem equiv_wrules ext ds s s1 out :
  forallb is_rw ds = true -> Forall call_wf ds -> cv_run ext s ds = Ok (s1, out) -> Inv s -> next s1 <= SMID_MOD ->
  let m := img s1 in let R := rules_of ds in let atoms := flat_map rule_atoms (filter keep R) in
  exists D, defs_ok D /\ (forall x, isdef D x = true -> In x (auxs s1)) /\
    (forall a b, In a atoms -> In b atoms -> m a = m b -> a = b) /\
    (forall X, stable R X ->
       let X' := extD D (push m atoms X) in
       stable (rules_of out) X' /\ X' false_atom = false /\ (forall a, In a atoms -> X' (m a) = X a) /\
       (forall x B, dlook D x = Some B -> X' x = bsat X' X' B)) /\
    (forall X', stable (rules_of out) X' -> X' false_atom = false ->
       stable R (pull m atoms X') /\ forall y, extD D (push m atoms (pull m atoms X')) y = X' y) /\
    (forall X a, stable R X -> pull m atoms (extD D (push m atoms X)) a = X a).
Proof.
  intros HR HW Hrun HI HB m R atoms.
  assert (G : good s s1) by (eapply good_cv_run; exact Hrun).
  assert (I1 : Inv s1) by (apply (Inv_of_good _ _ G HI HB)).
  destruct (run_shape ext s1 is_rw (rw_call_shape ext s1) ds s s1 out HR Hrun HI (good_refl s1) HB)
    as [cas [E1 [E2 [F [ND [RA _]]]]]]. fold m in E2, F.
  assert (CO : Forall (fun ca => ann_ok (fst ca) (snd ca) /\ mappedA m (fst ca) /\ call_wf (fst ca)) cas).
  { apply Forall_forall. intros ca Hca. rewrite Forall_forall in F. destruct (F ca Hca) as [A M]. repeat split; auto.
    rewrite Forall_forall in HW. apply HW. rewrite <- E1. apply in_map. exact Hca. }
  assert (CA : Forall (fun x => In x (auxs s1)) (somes (map snd cas))).
  { eapply Forall_impl; [|exact RA]. simpl. tauto. }
  assert (CW : Forall (fun ca => call_wf (fst ca)) cas) by (eapply Forall_impl; [|exact CO]; simpl; tauto).
  set (D := defsL m cas). set (U := usersL m cas).
  assert (AO : forall a, In a atoms -> 0 < a /\ m a <> 0).
  { intros a Ha. apply in_flat_map in Ha as [r [Hr Ha]]. apply In_kept_rules in Hr as [c [Hc Hr]].
    rewrite <- E1 in Hc. apply in_map_iff in Hc as [[c' ann] [<- Hca]]. rewrite Forall_forall in CO.
    destruct (CO _ Hca) as [_ [M W]]. apply (kept_atoms m c' W M r a Hr Ha). }
  assert (Hinj : forall a b, In a atoms -> In b atoms -> m a = m b -> a = b).
  { intros a b Ha Hb E. destruct (AO a Ha) as [_ Na]. apply (inv_inj _ I1 a b Na E). }
  assert (Hpos : forall a, In a atoms -> 0 < a /\ 0 < m a).
  { intros a Ha. destruct (AO a Ha) as [Pa Na]. split; [exact Pa|]. apply (img_pos s1 I1). exact Na. }
  assert (Kin : Forall (rule_in atoms) (filter keep R)) by (apply Forall_forall; intros r Hr; apply rule_in_atoms; exact Hr).
  assert (Knn : forall r, In r (filter keep R) -> body_nonneg (r_body r)).
  { intros r Hr. apply In_kept_rules in Hr as [c [Hc Hr]]. rewrite Forall_forall in HW. apply (kept_nonneg c (HW c Hc) r Hr). }
  pose proof (D_ok s1 I1 cas CO ND CA) as Dok. fold m in Dok. fold D in Dok.
  assert (EU : forall X', X' false_atom = false ->
     (stable (map (unfoldD D) U) X' <-> stable (map (fix_empty false_atom) (map (rn_rule m) (filter keep R))) X')).
  { intros X' _. unfold D, U, m. rewrite (unfold_users s1 I1 cas CO ND CA), E1, targetL. tauto. }
  assert (ER : forall X', stable (rules_of out) X' <-> stable (def_rules D ++ U) X').
  { intros X'. apply stable_same_rules. intros r. rewrite E2. apply (rules_emitL s1 cas). }
  assert (Uhd : forall r h, In r U -> In h (r_head r) -> h = false_atom \/ exists a, In a atoms /\ m a = h).
  { apply users_heads; [|exact CW]. intros c ann r a Hc Hr Ha. apply in_flat_map. exists r. split; [|exact Ha].
    apply In_kept_rules. exists c. split; [|exact Hr]. rewrite <- E1. apply (in_map fst) in Hc. exact Hc. }
  assert (Ind : forall a, In a atoms -> isdef D (m a) = false).
  { intros a Ha. apply (img_notdef s1 I1 cas CA). apply AO. exact Ha. }
  assert (Fnd : isdef D false_atom = false) by (apply (false_notdef s1 I1 cas CA)).
  assert (Fni : forall a, In a atoms -> m a <> false_atom).
  { intros a Ha. destruct (AO a Ha) as [_ Na]. pose proof (inv_rng _ I1 a Na). pose proof consts_ok. unfold m. lia. }
  exists D. split; [exact Dok|]. split; [apply (D_aux s1 cas CA)|]. split; [exact Hinj|].
  pose proof (core_sound m atoms Hinj Hpos (filter keep R) Kin D Dok U (rules_of out)
                (users_ok s1 I1 cas CO ND CA) EU ER Ind Fnd Fni) as CS.
  pose proof (core_complete m atoms Hinj Hpos (filter keep R) Kin D Dok U (rules_of out)
                (users_ok s1 I1 cas CO ND CA) (users_nonneg m cas CW) Uhd EU ER Ind Fnd) as CC.
  pose proof (core_roundtrip m atoms Hinj (filter keep R) Kin Knn D Ind) as CR.
  split; [|split].
  - intros X HS. apply CS. apply stable_filter_keep. exact HS.
  - intros X' HS Xf. destruct (CC X' HS Xf) as [C1 C2]. split; [apply stable_filter_keep; exact C1 | exact C2].
  - intros X a HS. apply CR. apply stable_filter_keep. exact HS.
Qed.
