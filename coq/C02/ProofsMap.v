(* C02 - the atom-map invariant of SmodelsConvert, by induction over all call sequences. *)
Require Import V.Lib.Base V.Lib.Calls V.Gen.Consts V.Gen.Consts_C02 V.C02.Model.
Require Import ZifyBool.
Local Open Scope Z_scope.

Definition img (s : cv) (a : Z) : Z := smId (find a (amap s)).

Lemma find_upd_same a v m : find a (upd a v m) = v.
Proof.
  induction m as [|[k w] m IH]; simpl.
  - now rewrite Z.eqb_refl.
  - destruct (k =? a) eqn:E; simpl; rewrite E; [reflexivity | exact IH].
Qed.
Lemma find_upd_other a b v m : a <> b -> find b (upd a v m) = find b m.
Proof.
  intros Hab. induction m as [|[k w] m IH]; simpl.
  - destruct (Z.eqb_spec a b); [contradiction | reflexivity].
  - destruct (Z.eqb_spec k a) as [->|Hk]; simpl.
    + destruct (Z.eqb_spec a b); [contradiction | reflexivity].
    + destruct (k =? b); [reflexivity | exact IH].
Qed.

Lemma consts_ok : false_atom < next_start /\ 0 < next_start /\ 0 < SMID_MOD.
Proof. vm_compute. repeat split; reflexivity. Qed.

Record Inv (s : cv) : Prop := mkInv {
  inv_lo : next_start <= next s;
  inv_rng : forall a, img s a <> 0 -> next_start <= img s a < next s;
  inv_inj : forall a b, img s a <> 0 -> img s a = img s b -> a = b;
  inv_aux : forall x, In x (auxs s) -> next_start <= x < next s /\ forall a, img s a <> x;
  inv_nd : NoDup (auxs s) }.

Definition keeps (s s' : cv) : Prop :=
  (forall a, img s a <> 0 -> img s' a = img s a) /\ (forall x, In x (auxs s) -> In x (auxs s')).

Definition good (s s' : cv) : Prop :=
  next s <= next s' /\ (Inv s -> next s' <= SMID_MOD -> Inv s' /\ keeps s s').

Lemma good_refl s : good s s.
Proof. split; [lia|]. intros H _. split; [exact H|]. split; auto. Qed.

Lemma good_trans s1 s2 s3 : good s1 s2 -> good s2 s3 -> good s1 s3.
Proof.
  intros [L1 G1] [L2 G2]. split; [lia|]. intros HI HB.
  destruct (G1 HI ltac:(lia)) as [I2 [K1 A1]].
  destruct (G2 I2 HB) as [I3 [K2 A2]].
  split; [exact I3|]. split.
  - intros a Ha. rewrite K2; [apply K1; exact Ha|]. rewrite K1; assumption.
  - intros x Hx. apply A2, A1, Hx.
Qed.

Lemma good_core_eq s s' : amap s' = amap s -> next s' = next s -> auxs s' = auxs s -> good s s'.
Proof.
  intros Ha Hn Hx. split; [lia|]. intros [I1 I2 I3 I4 I5] _.
  assert (Himg : forall a, img s' a = img s a) by (intros; unfold img; now rewrite Ha).
  split; [constructor | split].
  - lia.
  - intros a. rewrite Himg, Hn. apply I2.
  - intros a b. rewrite !Himg. apply I3.
  - intros x. rewrite Hx, Hn. intros H. destruct (I4 x H). split; auto. intros a; rewrite Himg; auto.
  - rewrite Hx; auto.
  - intros a _. apply Himg.
  - intros x. rewrite Hx. auto.
Qed.

Lemma Inv_cv0 : Inv cv0.
Proof.
  constructor; unfold img; simpl; try lia; try tauto; try constructor;
    try (intros; exfalso; congruence).
Qed.

(* ---- primitives ---- *)
Lemma mapAtom_spec s a : let '(s1, r) := mapAtom s a in
  good s s1 /\ smId r = img s1 a /\ find a (amap s1) = r /\
  (Inv s -> next s1 <= SMID_MOD -> img s1 a <> 0).
Proof.
  unfold mapAtom. destruct (negb (smId (find a (amap s)) =? 0)) eqn:E.
  - split; [apply good_refl|]. unfold img. repeat split; auto. intros _ _. lia.
  - assert (E0 : smId (find a (amap s)) = 0) by lia.
    pose proof consts_ok as [C1 [C2 C3]].
    assert (Himg : forall b, img (set_core s (upd a (mkA (next s mod SMID_MOD) (ahead (find a (amap s))) (ashow (find a (amap s))) (aextn (find a (amap s)))) (amap s)) (next s + 1) (auxs s)) b
                   = if a =? b then next s mod SMID_MOD else img s b).
    { intros b. unfold img; simpl. destruct (Z.eqb_spec a b) as [->|Hn].
      - now rewrite find_upd_same.
      - now rewrite find_upd_other. }
    split; [|split; [|split]].
    + split; [simpl; lia|]. intros [I1 I2 I3 I4 I5] HB. simpl in HB.
      assert (Hm : next s mod SMID_MOD = next s) by (apply Z.mod_small; lia).
      split; [constructor|split].
      * simpl; lia.
      * intros b Hb. rewrite Himg in *. simpl. destruct (a =? b); [lia|]. specialize (I2 b Hb). lia.
      * intros b c Hb Hbc. rewrite !Himg in *.
        destruct (Z.eqb_spec a b) as [Eab|Hab]; destruct (Z.eqb_spec a c) as [Eac|Hac].
        -- congruence.
        -- assert (img s c <> 0) by lia. specialize (I2 c H). lia.
        -- specialize (I2 b Hb). lia.
        -- apply I3; assumption.
      * intros x Hx. simpl in Hx. destruct (I4 x Hx) as [R N]. split; [simpl; lia|].
        intros b. rewrite Himg. destruct (a =? b); [lia | apply N].
      * exact I5.
      * intros b Hb. rewrite Himg. destruct (Z.eqb_spec a b) as [->|_]; [unfold img in Hb; lia | reflexivity].
      * simpl; auto.
    + rewrite Himg, Z.eqb_refl. reflexivity.
    + simpl. apply find_upd_same.
    + intros [I1 _ _ _ _] HB. simpl in HB. rewrite Himg, Z.eqb_refl. rewrite Z.mod_small; lia.
Qed.

Lemma good_mapAtom s a : good s (fst (mapAtom s a)).
Proof. pose proof (mapAtom_spec s a) as H. destruct (mapAtom s a). apply H. Qed.

Lemma good_newAtom s : good s (fst (newAtom s)) /\ snd (newAtom s) = next s /\ In (next s) (auxs (fst (newAtom s))).
Proof.
  unfold newAtom; simpl. split; [|split; [reflexivity | now left]].
  split; [simpl; lia|]. intros [I1 I2 I3 I4 I5] HB. simpl in HB.
  split; [constructor|split]; unfold img in *; simpl.
  - lia.
  - intros a Ha. specialize (I2 a Ha). lia.
  - exact I3.
  - intros x [<-|Hx].
    + split; [lia|]. intros a Ha. destruct (Z.eq_dec (smId (find a (amap s))) 0) as [E|E].
      * pose proof consts_ok. lia.
      * specialize (I2 a E). lia.
    + destruct (I4 x Hx). split; [lia | assumption].
  - constructor; [|exact I5]. intros Hin. destruct (I4 _ Hin). lia.
  - auto.
  - auto.
Qed.

(* changing the flags of an entry, keeping its smId *)
Lemma good_setflags s a r : smId r = img s a -> good s (set_amap s (upd a r (amap s))).
Proof.
  intros Hr.
  assert (Himg : forall b, img (set_amap s (upd a r (amap s))) b = img s b).
  { intros b. unfold img; simpl. destruct (Z.eq_dec a b) as [->|Hn].
    - rewrite find_upd_same. exact Hr.
    - now rewrite find_upd_other. }
  split; [simpl; lia|]. intros [I1 I2 I3 I4 I5] _.
  split; [constructor|split].
  - exact I1.
  - intros b. rewrite Himg. apply I2.
  - intros b c. rewrite !Himg. apply I3.
  - intros x Hx. destruct (I4 x Hx) as [R N]. split; [exact R|]. intros b. rewrite Himg. apply N.
  - exact I5.
  - intros b _. apply Himg.
  - auto.
Qed.

(* ---- composite operations ---- *)
Lemma good_mapLit s l : good s (fst (mapLit s l)).
Proof.
  unfold mapLit. pose proof (good_mapAtom s (Z.abs l)). destruct (mapAtom s (Z.abs l)). exact H.
Qed.

Lemma good_mapLits ls : forall s, good s (fst (mapLits s ls)).
Proof.
  induction ls as [|l r IH]; intros s; simpl; [apply good_refl|].
  pose proof (good_mapLit s l) as H1. destruct (mapLit s l) as [s1 x]. simpl in H1.
  pose proof (IH s1) as H2. destruct (mapLits s1 r) as [s2 xs]. simpl in *.
  eapply good_trans; eassumption.
Qed.

Lemma good_mapWLits ls : forall s, good s (fst (mapWLits s ls)).
Proof.
  induction ls as [|[l w] r IH]; intros s; simpl; [apply good_refl|].
  pose proof (good_mapLit s l) as H1. destruct (mapLit s l) as [s1 x]. simpl in H1.
  pose proof (IH s1) as H2. destruct (mapWLits s1 r) as [s2 xs]. simpl in *.
  eapply good_trans; eassumption.
Qed.

Lemma good_mapHeadAtom s a : good s (fst (mapHeadAtom s a)).
Proof.
  unfold mapHeadAtom. pose proof (mapAtom_spec s a) as H. destruct (mapAtom s a) as [s1 r].
  destruct H as [G [E _]]. simpl. eapply good_trans; [exact G|]. apply good_setflags. exact E.
Qed.

Lemma good_mapHeadAtoms h : forall s, good s (fst (mapHeadAtoms s h)).
Proof.
  induction h as [|a r IH]; intros s; simpl; [apply good_refl|].
  pose proof (good_mapHeadAtom s a) as H1. destruct (mapHeadAtom s a) as [s1 x]. simpl in H1.
  pose proof (IH s1) as H2. destruct (mapHeadAtoms s1 r) as [s2 xs]. simpl in *.
  eapply good_trans; eassumption.
Qed.

Lemma good_mapHead s h : good s (fst (mapHead s h)).
Proof.
  unfold mapHead. pose proof (good_mapHeadAtoms h s) as H. destruct (mapHeadAtoms s h). exact H.
Qed.

Lemma good_makeAux s cond : good s (fst (fst (makeAux s cond))).
Proof.
  unfold makeAux. pose proof (good_newAtom s) as [H1 _]. destruct (newAtom s) as [s1 aux]. simpl in H1.
  pose proof (good_mapLits cond s1) as H2. destruct (mapLits s1 cond) as [s2 ls]. simpl in *.
  eapply good_trans; eassumption.
Qed.

Lemma good_makeAtom s cond named : good s (fst (fst (makeAtom s cond named))).
Proof.
  unfold makeAtom. destruct cond as [|c [|c2 r]]; try apply good_makeAux.
  destruct (c <? 0); [apply good_makeAux|].
  pose proof (mapAtom_spec s (Z.abs c)) as H. destruct (mapAtom s (Z.abs c)) as [s1 r].
  destruct H as [G [E _]].
  destruct (ashow r && named).
  - eapply good_trans; [exact G | apply good_makeAux].
  - simpl. eapply good_trans; [exact G|]. apply good_setflags. exact E.
Qed.

Lemma good_addOutput s a str h : good s (fst (addOutput s a str h)).
Proof. unfold addOutput; simpl. apply good_core_eq; reflexivity. Qed.

Lemma good_flushMinimize m : forall s, good s (fst (flushMinimize s m)).
Proof.
  induction m as [|[p ls] r IH]; intros s; simpl; [apply good_refl|].
  pose proof (good_mapWLits ls s) as H1. destruct (mapWLits s ls) as [s1 ml]. simpl in H1.
  pose proof (IH s1) as H2. destruct (flushMinimize s1 r) as [s2 cs]. simpl in *.
  eapply good_trans; eassumption.
Qed.

Lemma good_flushExternal_f ext es : forall s hd, good s (fst (fst (flushExternal_f ext s es hd))).
Proof.
  induction es as [|a r IH]; intros s hd; simpl; [apply good_refl|].
  pose proof (good_mapAtom s a) as H1. destruct (mapAtom s a) as [s1 ar]. simpl in H1.
  destruct ext.
  - pose proof (IH s1 hd) as H2. destruct (flushExternal_f true s1 r hd) as [[s2 cs] hd2]. simpl in *.
    eapply good_trans; eassumption.
  - destruct (ahead ar); [eapply good_trans; [exact H1 | apply IH]|].
    destruct (aextn ar =? Value_t_Free); [eapply good_trans; [exact H1 | apply IH]|].
    destruct (aextn ar =? Value_t_True); [|eapply good_trans; [exact H1 | apply IH]].
    pose proof (IH s1 hd) as H2. destruct (flushExternal_f false s1 r hd) as [[s2 cs] hd2]. simpl in *.
    eapply good_trans; eassumption.
Qed.

Lemma good_flushExternal ext s : good s (fst (flushExternal ext s)).
Proof.
  unfold flushExternal. pose proof (good_flushExternal_f ext (exts s) s []) as H.
  destruct (flushExternal_f ext s (exts s) []) as [[s1 cs] hd]. exact H.
Qed.

Lemma good_flushHeuristic_f hs : forall s, good s (fst (flushHeuristic_f s hs)).
Proof.
  induction hs as [|h r IH]; intros s; simpl; [apply good_refl|].
  destruct (negb (mapped s (h_atom h))); [apply IH|].
  pose proof (mapAtom_spec s (h_atom h)) as H. destruct (mapAtom s (h_atom h)) as [s1 ma].
  destruct H as [G [E _]].
  set (nm := if ashow ma then sym_find (smId ma) (symtab s1) else None).
  destruct nm as [n|].
  - pose proof (IH s1) as H2. destruct (flushHeuristic_f s1 r) as [s3 cs]. simpl in *.
    eapply good_trans; eassumption.
  - match goal with |- context [addOutput ?s0 ?a ?str ?b] =>
      pose proof (good_addOutput s0 a str b) as H3; destruct (addOutput s0 a str b) as [s2 name] end.
    simpl in H3.
    pose proof (IH s2) as H2. destruct (flushHeuristic_f s2 r) as [s3 cs]. simpl in H2. simpl.
    eapply good_trans; [exact G|].
    eapply good_trans; [apply (good_setflags s1 (h_atom h) (mkA (smId ma) (ahead ma) true (aextn ma))); exact E|].
    eapply good_trans; eassumption.
Qed.

Lemma good_flush ext s : good s (fst (flush ext s)).
Proof.
  unfold flush.
  pose proof (good_flushMinimize (mins s) s) as H1. destruct (flushMinimize s (mins s)) as [s1 c1]. simpl in H1.
  pose proof (good_flushExternal ext s1) as H2. destruct (flushExternal ext s1) as [s2 c2]. simpl in H2.
  pose proof (good_flushHeuristic_f (heus s2) s2) as H3. destruct (flushHeuristic_f s2 (heus s2)) as [s3 c3]. simpl in H3.
  simpl. eapply good_trans; [exact H1|]. eapply good_trans; [exact H2|]. eapply good_trans; [exact H3|].
  apply good_core_eq; reflexivity.
Qed.

Lemma good_cv_call ext s c s' out : cv_call ext s c = Ok (s', out) -> good s s'.
Proof.
  destruct c; cbn [cv_call]; intros H; try discriminate.
  - inversion H; subst. apply good_refl.
  - inversion H; subst. apply good_refl.
  - pose proof (good_flush ext s) as G. destruct (flush ext s) as [s1 cs]. inversion H; subst. exact G.
  - destruct (negb match head with [] => true | _ => false end || (ht =? Head_t_Disjunctive)).
    + pose proof (good_mapHead s head) as G1. destruct (mapHead s head) as [s1 mh]. simpl in G1.
      pose proof (good_mapLits body s1) as G2. destruct (mapLits s1 body) as [s2 mb]. simpl in G2.
      inversion H; subst. eapply good_trans; eassumption.
    + inversion H; subst. apply good_refl.
  - destruct (negb match head with [] => true | _ => false end || (ht =? Head_t_Disjunctive)).
    + pose proof (good_mapHead s head) as G1. destruct (mapHead s head) as [s1 mh]. simpl in G1.
      pose proof (good_mapWLits body s1) as G2. destruct (mapWLits s1 body) as [s2 mb]. simpl in G2.
      destruct (negb (ht =? Head_t_Choice) && (length mh =? 1)%nat && (0 <=? bound)).
      * inversion H; subst. eapply good_trans; eassumption.
      * pose proof (good_newAtom s2) as [G3 _]. destruct (newAtom s2) as [s3 aux]. simpl in G3.
        inversion H; subst. eapply good_trans; [exact G1|]. eapply good_trans; [exact G2 | exact G3].
    + inversion H; subst. apply good_refl.
  - destruct (norm_min lits); [|discriminate]. inversion H; subst. apply good_core_eq; reflexivity.
  - pose proof (good_makeAtom s cond true) as G1. destruct (makeAtom s cond true) as [[s1 a] cs]. simpl in G1.
    pose proof (good_addOutput s1 a name true) as G2. destruct (addOutput s1 a name true) as [s2 n]. simpl in G2.
    inversion H; subst. eapply good_trans; eassumption.
  - pose proof (mapAtom_spec s a) as G. destruct (mapAtom s a) as [s1 r]. destruct G as [G [E _]].
    destruct (ahead r); inversion H; subst; [exact G|].
    eapply good_trans; [exact G|].
    eapply good_trans; [apply (good_setflags s1 a (mkA (smId r) false (ashow r) (v mod 2 ^ extn_bits))); exact E|].
    apply good_core_eq; reflexivity.
  - pose proof (good_makeAtom s cond true) as G1. destruct (makeAtom s cond true) as [[s1 hp] cs]. simpl in G1.
    inversion H; subst. eapply good_trans; [exact G1|]. apply good_core_eq; reflexivity.
  - pose proof (good_makeAtom s cond true) as G1. destruct (makeAtom s cond true) as [[s1 a] cs]. simpl in G1.
    match type of H with context [addOutput ?s0 ?x ?str ?b] =>
      pose proof (good_addOutput s0 x str b) as G2; destruct (addOutput s0 x str b) as [s2 n] end.
    simpl in G2. inversion H; subst. eapply good_trans; eassumption.
Qed.

Lemma good_cv_run ext p : forall s s' out, cv_run ext s p = Ok (s', out) -> good s s'.
Proof.
  induction p as [|c r IH]; intros s s' out H; simpl in H.
  - inversion H; subst. apply good_refl.
  - destruct (cv_call ext s c) as [[s1 o1]|] eqn:E1; [|discriminate].
    destruct (cv_run ext s1 r) as [[s2 o2]|] eqn:E2; [|discriminate].
    inversion H; subst. eapply good_trans; [eapply good_cv_call; exact E1 | eapply IH; exact E2].
Qed.

Lemma cv_run_app ext p1 : forall p2 s s' out, cv_run ext s (p1 ++ p2) = Ok (s', out) ->
  exists s1 o1 o2, cv_run ext s p1 = Ok (s1, o1) /\ cv_run ext s1 p2 = Ok (s', o2) /\ out = o1 ++ o2.
Proof.
  induction p1 as [|c r IH]; intros p2 s s' out H; simpl in *.
  - exists s, [], out. auto.
  - destruct (cv_call ext s c) as [[sa oa]|]; [|discriminate].
    destruct (cv_run ext sa (r ++ p2)) as [[sb ob]|] eqn:E; [|discriminate].
    inversion H; subst. destruct (IH _ _ _ _ E) as (s1 & o1 & o2 & E1 & E2 & ->).
    rewrite E1. exists s1, (oa ++ o1), o2. rewrite app_assoc. auto.
Qed.

(* the statement of c02_map *)
Lemma map_invariant ext p s out :
  cv_run ext cv0 p = Ok (s, out) -> next s <= SMID_MOD ->
  (forall a, img s a <> 0 -> next_start <= img s a < next s /\ img s a <> false_atom) /\
  (forall a b, img s a <> 0 -> img s a = img s b -> a = b) /\
  (forall x, In x (auxs s) -> next_start <= x < next s /\ forall a, img s a <> x) /\
  NoDup (auxs s) /\
  (forall p1 p2 s1 o1, p = p1 ++ p2 -> cv_run ext cv0 p1 = Ok (s1, o1) ->
     (forall a, img s1 a <> 0 -> img s a = img s1 a) /\ (forall x, In x (auxs s1) -> In x (auxs s))).
Proof.
  intros Hrun HB.
  destruct (good_cv_run _ _ _ _ _ Hrun) as [_ G]. destruct (G Inv_cv0 HB) as [[I1 I2 I3 I4 I5] _].
  pose proof consts_ok as [C1 _].
  repeat split; auto.
  - apply I2; assumption.
  - apply I2; assumption.
  - specialize (I2 a H). lia.
  - apply I4; assumption.
  - apply I4; assumption.
  - apply I4; assumption.
  - subst p. destruct (cv_run_app _ _ _ _ _ _ Hrun) as (s1' & o1' & o2 & E1 & E2 & _).
    rewrite E1 in H0. inversion H0; subst s1' o1'.
    destruct (good_cv_run _ _ _ _ _ E1) as [L1 G1]. destruct (good_cv_run _ _ _ _ _ E2) as [L2 G2].
    destruct (G1 Inv_cv0 ltac:(lia)) as [IS1 _]. destruct (G2 IS1 HB) as [_ [K _]]. apply K.
  - subst p. destruct (cv_run_app _ _ _ _ _ _ Hrun) as (s1' & o1' & o2 & E1 & E2 & _).
    rewrite E1 in H0. inversion H0; subst s1' o1'.
    destruct (good_cv_run _ _ _ _ _ E1) as [L1 G1]. destruct (good_cv_run _ _ _ _ _ E2) as [L2 G2].
    destruct (G1 Inv_cv0 ltac:(lia)) as [IS1 _]. destruct (G2 IS1 HB) as [_ [_ K]]. apply K.
Qed.
