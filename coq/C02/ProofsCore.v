(* C02 - the semantic core of the composition, freed from the single converter run: for ANY list `cas` of annotated calls
   (what run_shape extracts from a run; lists of several steps can be appended) and any program Pout whose rules are the
   emitted rules `emitL m cas` plus rules EO standing for the externals, whose symbol table is `symsL m cas` up to names in
   a set `hn` (the generated helper names), and whose minimize statements cost the same as the input up to the constant:
   answer sets, shown names (outside hn) and cost correspond.  ProofsCompose.step_gen is the instance for one run. *)
Require Import V.Lib.Base V.Lib.Calls V.Gen.Consts V.Gen.Consts_C02 V.C02.Model V.C02.Sem V.C02.ProofsMap V.C02.ProofsErr
  V.C02.ProofsSem V.C02.ProofsIso V.C02.ProofsShape V.C02.ProofsDefExt V.C02.ProofsWeight V.C02.ProofsOutput V.C02.ProofsExt
  V.C02.ProofsCompose.
Require Import ZifyBool.
Local Open Scope Z_scope.

Section Core.
Variable sf : cv.
Hypothesis Isf : Inv sf.
Let m := img sf.
Variable cas : list (call * option Z).
Let ds := map fst cas.
Hypothesis HO : forallb okc ds = true.
Hypothesis CO : Forall (fun ca => ann_ok (fst ca) (snd ca) /\ mappedA m (fst ca) /\ call_wf (fst ca)) cas.
Hypothesis ND : NoDup (somes (map snd cas)).
Hypothesis CA : Forall (fun x => In x (auxs sf)) (somes (map snd cas)).
Let Pin := of_calls ds.
Let atoms := step_atoms m ds.
Variable Pout : program.
Variable EO : list rule.
Variable hn : list Z -> Prop.
Hypothesis HANS : forall X', answer Pout X' <-> stable (rules_of (emitL m cas) ++ EO) X' /\ X' false_atom = false.
Hypothesis HEO1 : forall r, In r EO ->
  r_body r = BNormal [] /\ forall h, In h (r_head r) -> exists a, In a (map fst (decls ds)) /\ h = m a.
Hypothesis HEO2 : forall X' Y', red_model EO X' Y' <->
  ext_sem (fun a => In a (map fst (decls ds))) (in_head (rules_of ds)) (fun a => ext_value a (decls ds) None) m X' Y'.
Hypothesis HPO : forall n c, ~ hn n -> (In (n, c) (p_out Pout) <-> exists y, c = [y] /\ In (n, y) (symsL m cas)).
Hypothesis HCOST : forall X X', lifts sf X X' ->
  forall prio, cost (p_min Pout) prio X' = cost (p_min Pin) prio X - negs ds prio.

Lemma core_gen :
  exists fw : interp -> interp,
    (forall a b, In a atoms -> In b atoms -> m a = m b -> a = b) /\
    (forall X, answer Pin X ->
       answer Pout (fw X) /\ (forall a, In a atoms -> fw X (m a) = X a) /\
       (forall n, ~ hn n -> (shown Pin X n <-> shown Pout (fw X) n)) /\
       (forall prio, cost (p_min Pout) prio (fw X) = cost (p_min Pin) prio X - negs ds prio)) /\
    (forall X', answer Pout X' -> answer Pin (pull m atoms X') /\ forall y, fw (pull m atoms X') y = X' y) /\
    (forall X a, answer Pin X -> pull m atoms (fw X) a = X a).
Proof.
  assert (E1 : map fst cas = ds) by reflexivity.
  assert (HW : Forall call_wf ds).
  { apply Forall_forall. intros c Hc. unfold ds in Hc. apply in_map_iff in Hc as [ca [<- Hca]].
    rewrite Forall_forall in CO. apply (CO ca Hca). }
  assert (CW : Forall (fun ca => call_wf (fst ca)) cas) by (eapply Forall_impl; [|exact CO]; simpl; tauto).
  assert (INC : forall c, In c ds -> exists ann, In (c, ann) cas).
  { intros c Hc. rewrite <- E1 in Hc. apply in_map_iff in Hc as [[c' ann] [<- Hca]]. exists ann. exact Hca. }
  assert (CIN : forall c ann, In (c, ann) cas -> In c ds).
  { intros c ann Hca. rewrite <- E1. apply (in_map fst) in Hca. exact Hca. }
  pose proof CO as COf. rewrite Forall_forall in COf.
  set (D := defsL m cas). set (UL := usersL m cas).
  pose proof (D_ok sf Isf cas CO ND CA) as Dok. fold m in Dok. fold D in Dok.
  (* atoms *)
  assert (INA : forall c a, In c ds -> In a (call_atoms c) -> m a <> 0 -> In a atoms).
  { intros c a Hc Ha Hm. apply filter_In. split; [apply in_flat_map; exists c; auto|]. apply negb_true_iff. lia. }
  assert (AO : forall a, In a atoms -> 0 < a /\ m a <> 0).
  { intros a Ha. apply filter_In in Ha as [Ha Hm]. apply in_flat_map in Ha as [c [Hc Ha]]. rewrite Forall_forall in HW.
    split; [apply (wf_atoms_pos c a (HW c Hc) Ha) | lia]. }
  assert (Hinj : forall a b, In a atoms -> In b atoms -> m a = m b -> a = b).
  { intros a b Ha Hb E. destruct (AO a Ha) as [_ Na]. apply (inv_inj _ Isf a b Na E). }
  assert (Hpos : forall a, In a atoms -> 0 < a /\ 0 < m a).
  { intros a Ha. destruct (AO a Ha) as [Pa Na]. split; [exact Pa|]. apply (img_pos sf Isf). exact Na. }
  assert (DECL : forall a, In a (map fst (decls ds)) -> In a atoms /\ exists v, In (CExternal a v) ds).
  { intros a Ha. apply in_map_iff in Ha as [[a' v] [<- Hd]]. apply In_decls in Hd. simpl. split; [|exists v; exact Hd].
    destruct (INC _ Hd) as [ann Hca]. destruct (COf _ Hca) as [_ [M _]]. simpl in M.
    apply (INA _ a' Hd); [left; reflexivity | exact M]. }
  set (R := rules_of ds).
  assert (EPin : Pin = mkP R (decls ds) [] (mins_of ds) (outs_of ds)).
  { unfold Pin. rewrite of_calls_fields. f_equal. apply (proj_nil _ okc); [|exact HO].
    intros c Hc. destruct c; try discriminate; reflexivity. }
  set (K := filter keep R ++ ext_rules Pin).
  assert (KATOM : forall r a, In r (filter keep R) -> In a (rule_atoms r) -> In a atoms).
  { intros r a Hr Ha. apply In_kept_rules in Hr as [c [Hc Hr]]. destruct (INC _ Hc) as [ann Hca].
    destruct (COf _ Hca) as [_ [M W]]. simpl in M, W. destruct (kept_atoms m c W M r a Hr Ha) as [_ Na].
    apply (INA c a Hc); [apply (kept_call_atoms c r a Hr Ha) | exact Na]. }
  assert (Kin : Forall (rule_in atoms) K).
  { apply Forall_forall. intros r Hr. apply in_app_iff in Hr as [Hr|Hr].
    - apply rule_in_of. intros a Ha. apply (KATOM r a Hr Ha).
    - apply In_ext_rules in Hr as [a [Ha Hr]]. apply ext_rule_form in Hr as [ch ->]. apply rule_in_of.
      intros b [<-|[]]. rewrite EPin in Ha. simpl in Ha. apply (DECL a Ha). }
  assert (Knn : forall r, In r K -> body_nonneg (r_body r)).
  { intros r Hr. apply in_app_iff in Hr as [Hr|Hr].
    - apply In_kept_rules in Hr as [c [Hc Hr]]. rewrite Forall_forall in HW. apply (kept_nonneg c (HW c Hc) r Hr).
    - apply In_ext_rules in Hr as [a [Ha Hr]]. apply ext_rule_form in Hr as [ch ->]. exact I. }
  set (U := UL ++ EO).
  assert (Ind : forall a, In a atoms -> isdef D (m a) = false).
  { intros a Ha. apply (img_notdef sf Isf cas CA). apply AO. exact Ha. }
  assert (Fnd : isdef D false_atom = false) by (apply (false_notdef sf Isf cas CA)).
  assert (Fni : forall a, In a atoms -> m a <> false_atom).
  { intros a Ha. destruct (AO a Ha) as [_ Na]. pose proof (inv_rng _ Isf a Na). pose proof consts_ok. unfold m. lia. }
  assert (EOclean : forall r, In r EO -> clean D (r_body r)).
  { intros r Hr. destruct (HEO1 r Hr) as [-> _]. intros a []. }
  assert (UO : forall r, In r U -> user_ok D r).
  { intros r Hr. apply in_app_iff in Hr as [Hr|Hr]; [apply (users_ok sf Isf cas CO ND CA); exact Hr|].
    split; [|right; apply EOclean; exact Hr]. destruct (HEO1 r Hr) as [_ Hh']. intros h Hh0.
    destruct (Hh' h Hh0) as [a [Ha ->]]. apply Ind. apply (DECL a Ha). }
  assert (Unn : forall r, In r U -> body_nonneg (r_body r)).
  { intros r Hr. apply in_app_iff in Hr as [Hr|Hr]; [apply (users_nonneg m cas CW); exact Hr|].
    destruct (HEO1 r Hr) as [-> _]. exact I. }
  assert (Uhd : forall r h, In r U -> In h (r_head r) -> h = false_atom \/ exists a, In a atoms /\ m a = h).
  { intros r h Hr Hh0. apply in_app_iff in Hr as [Hr|Hr].
    - revert r h Hr Hh0. apply users_heads; [|exact CW]. intros c ann r a Hc Hr Ha.
      apply (KATOM r a); [|exact Ha]. apply In_kept_rules. exists c. split; [apply (CIN c ann Hc) | exact Hr].
    - destruct (HEO1 r Hr) as [_ Hh']. destruct (Hh' h Hh0) as [a [Ha ->]]. right. exists a. split; [apply (DECL a Ha) | reflexivity]. }
  assert (EU : forall X', X' false_atom = false ->
     (stable (map (unfoldD D) U) X' <-> stable (map (fix_empty false_atom) (map (rn_rule m) K)) X')).
  { intros X' _. unfold U, K. rewrite !map_app.
    assert (E3 : map (unfoldD D) UL = map (fix_empty false_atom) (map (rn_rule m) (filter keep R))).
    { unfold D, UL, m. rewrite (unfold_users sf Isf cas CO ND CA), E1, targetL. reflexivity. }
    assert (E4 : map (unfoldD D) EO = EO).
    { rewrite <- (map_id EO) at 2. apply map_ext_in. intros r Hr. apply (unfold_clean D Dok). apply EOclean. exact Hr. }
    rewrite E3, E4. apply stable_red_equiv. intros Y _. rewrite !red_model_app.
    assert (E5 : map (fix_empty false_atom) (map (rn_rule m) (ext_rules Pin)) =
                 map (fun r => fix_empty false_atom (rn_rule m r)) (ext_rules Pin)) by apply map_map.
    rewrite E5, (HEO2 X' Y).
    rewrite (ext_rules_sem_g (fun r => fix_empty false_atom (rn_rule m r)) m Pin X' Y)
      by (intros ch a; destruct ch; reflexivity).
    rewrite EPin. simpl. tauto. }
  assert (ER : forall X', stable (rules_of (emitL m cas) ++ EO) X' <-> stable (def_rules D ++ U) X').
  { intros X'. apply stable_same_rules. intros r. unfold U. rewrite !in_app_iff. unfold m at 1.
    rewrite (rules_emitL sf cas r), in_app_iff. fold m. fold D. fold UL. tauto. }
  pose proof (core_sound m atoms Hinj Hpos K Kin D Dok U (rules_of (emitL m cas) ++ EO) UO EU ER Ind Fnd Fni) as CS.
  pose proof (core_complete m atoms Hinj Hpos K Kin D Dok U (rules_of (emitL m cas) ++ EO) UO Unn Uhd EU ER Ind Fnd) as CC.
  pose proof (core_roundtrip m atoms Hinj K Kin Knn D Ind) as CR.
  assert (ANSIN : forall X, answer Pin X <-> stable K X).
  { intros X. unfold answer. rewrite EPin at 1 3. simpl. unfold K. rewrite stable_keep_app. rewrite EPin. tauto. }
  assert (SUPP : forall X a, stable K X -> X a = true -> In a atoms).
  { intros X a HS Xa. destruct (stable_supported K X a Knn HS Xa) as [r [Hr Hh0]].
    rewrite Forall_forall in Kin. destruct (Kin r Hr) as [HH _]. rewrite Forall_forall in HH. apply HH. exact Hh0. }
  exists (fwd m atoms D). split; [exact Hinj|]. split; [|split].
  - intros X HA. apply ANSIN in HA. destruct (CS X HA) as [S1 [S2 [S3 S4]]].
    set (X' := fwd m atoms D X) in *.
    split; [apply HANS; split; assumption|]. split; [exact S3|]. split.
    + (* shown names *)
      assert (VAL : forall c ann nm y, In (c, ann) cas -> In (nm, y) (symsA m c ann) ->
                exists n cond, c = COutput n cond /\ nm = n /\ X' y = forallb (holds X) cond /\ 0 < y).
      { intros c ann nm y Hca Hs. destruct (COf _ Hca) as [A [M W]]. simpl in A, M, W.
        destruct c; simpl in Hs; try contradiction. exists name, cond. split; [reflexivity|].
        assert (AG : forall l, In l cond -> X' (m (Z.abs l)) = X (Z.abs l)).
        { intros l Hl. apply S3. apply (INA (COutput name cond) _ (CIN _ _ Hca)); [simpl; apply in_map; exact Hl|].
          simpl in M. rewrite Forall_forall in M. apply M. exact Hl. }
        assert (AX : forall x, ann = Some x -> X' x = bsat X' X' (BNormal (map (rn_lit m) cond))).
        { intros x ->. apply S4. unfold D, m. apply (dlook_def sf Isf cas CO ND CA (COutput name cond) (Some x)); [exact Hca|].
          left; reflexivity. }
        destruct (output_value m name cond ann X X' W M A (img_pos sf Isf) AG AX nm y Hs) as [En Ev].
        split; [exact En|]. split; [exact Ev|]. destruct Hs as [Hs|[]]. injection Hs as Hn Hy. rewrite <- Hy.
        destruct ann as [x|].
        - assert (DL : dlook D x = Some (BNormal (map (rn_lit m) cond))).
          { unfold D, m. apply (dlook_def sf Isf cas CO ND CA (COutput name cond) (Some x)); [exact Hca | left; reflexivity]. }
          apply (def_clean D Dok x _ DL).
        - destruct (A eq_refl) as [c0 [-> P0]]. simpl. apply (img_pos sf Isf). simpl in M. inversion M as [|? ? M0 _]; subst.
          destruct W as [W _]. inversion W as [|? ? W0 _]; subst. replace (Z.abs c0) with c0 in M0 by lia. exact M0. }
      intros n Hn. unfold shown. rewrite EPin. simpl. split.
      * intros [cond [Hin Hc]]. apply In_outs_of in Hin. destruct (INC _ Hin) as [ann Hca].
        set (y := match ann with Some x => x | None => m (hd 0 cond) end).
        assert (Hs : In (cut0 n, y) (symsA m (COutput n cond) ann)) by (left; reflexivity).
        destruct (VAL _ _ _ _ Hca Hs) as [n' [cond' [E [En [Ev Py]]]]]. injection E as <- <-.
        exists [y]. split.
        -- apply (HPO n [y] Hn). exists y. split; [reflexivity|]. rewrite <- En. unfold symsL. apply in_flat_map.
           exists (COutput n cond, ann). auto.
        -- simpl. unfold holds. replace (y <? 0) with false by lia. rewrite Ev, Hc. reflexivity.
      * intros [c [Hin Hc]]. apply (HPO n c Hn) in Hin as [y [-> Hy]]. unfold symsL in Hy.
        apply in_flat_map in Hy as [[c0 ann] [Hca Hs]].
        destruct (VAL _ _ _ _ Hca Hs) as [n' [cond [-> [En [Ev Py]]]]]. subst n'.
        exists cond. split; [apply In_outs_of; apply (CIN _ _ Hca)|].
        simpl in Hc. unfold holds in Hc. replace (y <? 0) with false in Hc by lia. rewrite andb_true_r in Hc. congruence.
    + (* cost *)
      intros prio. apply HCOST.
      intros a Ha. fold m in Ha. fold m.
      destruct (existsb (Z.eqb a) atoms) eqn:Ia.
      * apply existsb_exists in Ia as [a' [Ia Ea]]. apply Z.eqb_eq in Ea. subst a'. apply S3. exact Ia.
      * assert (Na : ~ In a atoms).
        { intros Hin. assert (existsb (Z.eqb a) atoms = true); [|congruence]. apply existsb_exists. exists a.
          split; [exact Hin | apply Z.eqb_refl]. }
        assert (Xa : X a = false) by (destruct (X a) eqn:Xa; [exfalso; apply Na; apply (SUPP X a HA Xa) | reflexivity]).
        rewrite Xa. unfold X'. rewrite (fwd_nd m atoms D X (m a)) by (apply (img_notdef sf Isf cas CA); exact Ha).
        destruct (push m atoms X (m a)) eqn:Pa; [|reflexivity]. exfalso. apply push_true in Pa as [b [Hb [Eb _]]].
        apply Na. destruct (AO b Hb) as [_ Nb]. rewrite <- (inv_inj _ Isf b a Nb Eb). exact Hb.
  - intros X' HA. apply HANS in HA as [HS Xf]. destruct (CC X' HS Xf) as [C1 C2]. split; [apply ANSIN; exact C1 | exact C2].
  - intros X a HA. apply CR. apply ANSIN. exact HA.
Qed.
End Core.
