(* C02 - shape of what the converter emits for plain rules: the input rule renamed by the FINAL atom map,
   an empty disjunctive head replaced by the false atom, an empty choice head dropped. *)
Require Import V.Lib.Base V.Lib.Calls V.Gen.Consts V.Gen.Consts_C02 V.C02.Model V.C02.Sem V.C02.ProofsMap V.C02.ProofsErr V.C02.ProofsIso.
Require Import ZifyBool.
Local Open Scope Z_scope.

Lemma mapLit_shape s l sf :
  Inv s -> good (fst (mapLit s l)) sf -> next sf <= SMID_MOD ->
  snd (mapLit s l) = rn_lit (img sf) l /\ img sf (Z.abs l) <> 0.
Proof.
  intros HI G HB. unfold mapLit in *.
  pose proof (mapAtom_spec s (Z.abs l)) as H. destruct (mapAtom s (Z.abs l)) as [s1 r]. cbn [fst snd] in *.
  destruct H as [G1 [E [_ N]]].
  assert (B1 : next s1 <= SMID_MOD) by (destruct G as [L _]; lia).
  assert (I1 : Inv s1) by (apply (Inv_of_good _ _ G1 HI B1)).
  pose proof (N HI B1) as NZ. destruct G as [_ G]. destruct (G I1 HB) as [_ [K _]].
  rewrite E, <- (K _ NZ). split; [|rewrite K; assumption].
  unfold rn_lit. destruct (Z.ltb_spec l 0).
  - replace (Z.abs l) with (- l) by lia. reflexivity.
  - replace (Z.abs l) with l by lia. reflexivity.
Qed.

Lemma mapLits_shape ls : forall s sf,
  Inv s -> good (fst (mapLits s ls)) sf -> next sf <= SMID_MOD ->
  snd (mapLits s ls) = map (rn_lit (img sf)) ls /\ Forall (fun l => img sf (Z.abs l) <> 0) ls.
Proof.
  induction ls as [|l r IH]; intros s sf HI G HB; simpl in *; [split; [reflexivity | constructor]|].
  pose proof (mapLit_shape s l sf HI) as M. pose proof (good_mapLit s l) as G1.
  destruct (mapLit s l) as [s1 x]. cbn [fst snd] in *.
  pose proof (IH s1 sf) as IH1. pose proof (good_mapLits r s1) as G2.
  destruct (mapLits s1 r) as [s2 xs]. cbn [fst snd] in *.
  assert (B2 : next s2 <= SMID_MOD) by (destruct G as [L _]; lia).
  assert (B1 : next s1 <= SMID_MOD) by (destruct G2 as [L _]; lia).
  assert (I1 : Inv s1) by (apply (Inv_of_good _ _ G1 HI B1)).
  destruct (M (good_trans _ _ _ G2 G) HB) as [M1 M2]. destruct (IH1 I1 G HB) as [E1 E2].
  split; [rewrite M1, E1; reflexivity | constructor; assumption].
Qed.

Lemma mapHeadAtoms_shape h : forall s sf,
  Inv s -> good (fst (mapHeadAtoms s h)) sf -> next sf <= SMID_MOD ->
  snd (mapHeadAtoms s h) = map (img sf) h /\ Forall (fun a => img sf a <> 0) h.
Proof.
  induction h as [|a r IH]; intros s sf HI G HB; simpl in *; [split; [reflexivity | constructor]|].
  pose proof (good_mapHeadAtom s a) as G1. unfold mapHeadAtom in *.
  pose proof (mapAtom_spec s a) as H. destruct (mapAtom s a) as [s1 ar]. cbn [fst snd] in *.
  destruct H as [Ga [E [_ N]]].
  set (s1' := set_amap s1 (upd a (mkA (smId ar) true (ashow ar) (aextn ar)) (amap s1))) in *.
  pose proof (IH s1' sf) as IH1. pose proof (good_mapHeadAtoms r s1') as G2.
  destruct (mapHeadAtoms s1' r) as [s2 xs]. cbn [fst snd] in *.
  assert (B2 : next s2 <= SMID_MOD) by (destruct G as [L _]; lia).
  assert (B1' : next s1' <= SMID_MOD) by (destruct G2 as [L _]; lia).
  assert (B1 : next s1 <= SMID_MOD) by (subst s1'; simpl in B1'; exact B1').
  assert (I1 : Inv s1) by (apply (Inv_of_good _ _ Ga HI B1)).
  assert (GS : good s1 s1') by (apply (good_setflags s1 a (mkA (smId ar) true (ashow ar) (aextn ar))); exact E).
  assert (I1' : Inv s1') by (apply (Inv_of_good _ _ GS I1 B1')).
  destruct (IH1 I1' G HB) as [E1 E2].
  pose proof (N HI B1) as NZ.
  assert (G1f : good s1 sf) by (eapply good_trans; [exact GS|]; eapply good_trans; eassumption).
  destruct G1f as [_ G1f]. destruct (G1f I1 HB) as [_ [K _]].
  split; [rewrite E1, E, <- (K _ NZ); reflexivity | constructor; [rewrite K; assumption | exact E2]].
Qed.

(* what rule() emits, in terms of the final map *)
Definition emit_rule (m : Z -> Z) (c : call) : list call :=
  match c with
  | CRule ht h b =>
      if nonempty h || (ht =? Head_t_Disjunctive)
      then [CRule ht (match h with [] => [false_atom] | _ => map m h end) (map (rn_lit m) b)]
      else []
  | _ => []
  end.
Definition is_rule (c : call) : bool := match c with CRule _ _ _ => true | _ => false end.
Definition mapped_rule (m : Z -> Z) (c : call) : Prop :=
  match c with
  | CRule ht h b => nonempty h || (ht =? Head_t_Disjunctive) = true ->
                    Forall (fun a => m a <> 0) h /\ Forall (fun l => m (Z.abs l) <> 0) b
  | _ => True
  end.

Lemma rule_shape ext s c s1 out sf :
  is_rule c = true -> cv_call ext s c = Ok (s1, out) -> Inv s -> good s1 sf -> next sf <= SMID_MOD ->
  out = emit_rule (img sf) c /\ mapped_rule (img sf) c.
Proof.
  destruct c; try discriminate. intros _. cbn [cv_call emit_rule mapped_rule]. unfold nonempty.
  destruct (negb match head with [] => true | _ => false end || (ht =? Head_t_Disjunctive)).
  - unfold mapHead. pose proof (mapHeadAtoms_shape head s sf) as MH. pose proof (good_mapHeadAtoms head s) as G1.
    destruct (mapHeadAtoms s head) as [sa mh]. cbn [fst snd] in *.
    pose proof (mapLits_shape body sa sf) as ML. pose proof (good_mapLits body sa) as G2.
    destruct (mapLits sa body) as [sb mb]. cbn [fst snd] in *.
    intros H HI G HB. inversion H; subst.
    assert (Bb : next sa <= SMID_MOD) by (destruct G2 as [L _]; destruct G as [L2 _]; lia).
    assert (Ia : Inv sa) by (apply (Inv_of_good _ _ G1 HI Bb)).
    destruct (MH HI (good_trans _ _ _ G2 G) HB) as [E1 F1]. destruct (ML Ia G HB) as [E2 F2].
    split; [|intros _; split; assumption]. rewrite E1, E2. destruct head; reflexivity.
  - intros H. inversion H; subst. intros. split; [reflexivity | intros; discriminate].
Qed.

Lemma rules_shape ext ds : forall s s1 out sf,
  forallb is_rule ds = true -> cv_run ext s ds = Ok (s1, out) -> Inv s -> good s1 sf -> next sf <= SMID_MOD ->
  out = flat_map (emit_rule (img sf)) ds /\ Forall (mapped_rule (img sf)) ds.
Proof.
  induction ds as [|c r IH]; intros s s1 out sf HR Hrun HI G HB; simpl in *.
  - inversion Hrun; subst. split; [reflexivity | constructor].
  - apply andb_true_iff in HR as [Hc Hr].
    destruct (cv_call ext s c) as [[sa oa]|] eqn:Ec; [|discriminate].
    destruct (cv_run ext sa r) as [[sb ob]|] eqn:Er; [|discriminate]. inversion Hrun; subst.
    assert (Ga : good sa s1) by (eapply good_cv_run; exact Er).
    assert (Gf : good sa sf) by (eapply good_trans; eassumption).
    assert (Ba : next sa <= SMID_MOD) by (destruct Gf as [L _]; lia).
    assert (Ia : Inv sa) by (apply (Inv_of_good _ _ (good_cv_call _ _ _ _ _ Ec) HI Ba)).
    destruct (rule_shape ext s c sa oa sf Hc Ec HI Gf HB) as [E1 M1].
    destruct (IH sa s1 ob sf Hr Er Ia G HB) as [E2 M2].
    split; [rewrite E1, E2; reflexivity | constructor; assumption].
Qed.

(* ---- semantic corollary for the fragment of plain rules ---- *)
Definition rules_of (cs : list call) : list rule :=
  flat_map (fun c => match c with
                     | CRule ht h b => [mkRule (ht =? Head_t_Choice) h (BNormal b)]
                     | CWRule ht h bd b => [mkRule (ht =? Head_t_Choice) h (BSum bd b)]
                     | _ => []
                     end) cs.
Definition keep (r : rule) : bool := negb (r_choice r && is_nil (r_head r)).
Definition valid_ht (c : call) : Prop :=
  match c with CRule ht _ _ => ht = Head_t_Disjunctive \/ ht = Head_t_Choice | _ => True end.

Lemma rules_of_emit m ds : forallb is_rule ds = true -> Forall valid_ht ds ->
  rules_of (flat_map (emit_rule m) ds) = map (fix_empty false_atom) (map (rn_rule m) (filter keep (rules_of ds))).
Proof.
  induction ds as [|c r IH]; intros HR HV; [reflexivity|].
  simpl in HR. apply andb_true_iff in HR as [Hc Hr]. inversion HV as [|? ? Vc Vr]; subst.
  destruct c; try discriminate. simpl in Vc.
  change (flat_map (emit_rule m) (CRule ht head body :: r)) with (emit_rule m (CRule ht head body) ++ flat_map (emit_rule m) r).
  unfold rules_of at 1. rewrite flat_map_app. fold (rules_of (flat_map (emit_rule m) r)). rewrite (IH Hr Vr).
  change (rules_of (CRule ht head body :: r)) with (mkRule (ht =? Head_t_Choice) head (BNormal body) :: rules_of r).
  destruct heads_differ as [HD HDb].
  unfold nonempty.
  destruct head as [|h0 ht0]; [destruct Vc as [->| ->]|]; unfold keep; simpl; rewrite ?andb_false_r; simpl;
    unfold fix_empty, rn_rule; simpl; rewrite ?andb_false_r; reflexivity.
Qed.

Lemma stable_filter_keep P X : stable (filter keep P) X <-> stable P X.
Proof.
  assert (E : forall Y, red_model (filter keep P) X Y <-> red_model P X Y).
  { intros Y. unfold red_model. split; intros H r Hr.
    - destruct (keep r) eqn:K; [apply H; apply filter_In; auto|].
      unfold keep in K. apply negb_false_iff, andb_true_iff in K as [K1 K2].
      destruct r as [ch hd bd]; simpl in *. subst ch. destruct hd; [|discriminate]. apply empty_choice_vacuous.
    - apply filter_In in Hr as [Hr _]. apply H. exact Hr. }
  unfold stable. split; intros [M Min]; (split; [apply E; exact M|]); intros Y HY HM; apply Min; try exact HY; apply E; exact HM.
Qed.

Definition call_atoms_pos (c : call) : Prop :=
  match c with CRule _ h b => Forall (fun a => 0 < a) h /\ Forall (fun l => l <> 0) b | _ => True end.

Lemma atoms_ok m ds : forallb is_rule ds = true -> Forall valid_ht ds -> Forall call_atoms_pos ds ->
  Forall (mapped_rule m) ds ->
  forall a, In a (flat_map rule_atoms (filter keep (rules_of ds))) -> 0 < a /\ m a <> 0.
Proof.
  induction ds as [|c r IH]; intros HR HV HP HM a Ha; [destruct Ha|].
  simpl in HR. apply andb_true_iff in HR as [Hc Hr].
  inversion HV as [|? ? Vc Vr]; subst. inversion HP as [|? ? Pc Pr]; subst. inversion HM as [|? ? Mc Mr]; subst.
  destruct c; try discriminate. simpl in Vc, Pc, Mc.
  change (rules_of (CRule ht head body :: r)) with (mkRule (ht =? Head_t_Choice) head (BNormal body) :: rules_of r) in Ha.
  cbn [filter] in Ha.
  destruct (keep (mkRule (ht =? Head_t_Choice) head (BNormal body))) eqn:K; [|apply (IH Hr Vr Pr Mr a Ha)].
  cbn [flat_map] in Ha. apply in_app_iff in Ha as [Ha|Ha]; [|apply (IH Hr Vr Pr Mr a Ha)].
  assert (C : nonempty head || (ht =? Head_t_Disjunctive) = true).
  { unfold keep in K. simpl in K. unfold nonempty. destruct head; [|reflexivity]. simpl in *.
    destruct heads_differ as [HD HDb]. destruct Vc as [->| ->]; [apply Z.eqb_refl|]. rewrite Z.eqb_refl in K. discriminate. }
  destruct (Mc C) as [M1 M2]. destruct Pc as [P1 P2].
  unfold rule_atoms in Ha. simpl in Ha. apply in_app_iff in Ha as [Ha|Ha].
  - rewrite Forall_forall in M1, P1. split; [apply P1 | apply M1]; exact Ha.
  - apply in_map_iff in Ha as [l [<- Hl]]. rewrite Forall_forall in M2, P2.
    split; [specialize (P2 l Hl); lia | apply M2; exact Hl].
Qed.

Lemma equiv_rules ext ds s s1 out :
  forallb is_rule ds = true -> Forall valid_ht ds -> Forall call_atoms_pos ds ->
  cv_run ext s ds = Ok (s1, out) -> Inv s -> next s1 <= SMID_MOD ->
  let m := img s1 in let R := rules_of ds in let atoms := flat_map rule_atoms (filter keep R) in
  (forall a b, In a atoms -> In b atoms -> m a = m b -> a = b) /\
  (forall X, stable R X -> stable (rules_of out) (push m atoms X) /\ push m atoms X false_atom = false) /\
  (forall X', stable (rules_of out) X' -> X' false_atom = false -> stable R (pull m atoms X')).
Proof.
  intros HR HV HP Hrun HI HB m R atoms.
  assert (G : good s s1) by (eapply good_cv_run; exact Hrun).
  assert (I1 : Inv s1) by (apply (Inv_of_good _ _ G HI HB)).
  destruct (rules_shape ext ds s s1 out s1 HR Hrun HI (good_refl s1) HB) as [Eo HM]. fold m in Eo, HM.
  pose proof (atoms_ok m ds HR HV HP HM) as AO. fold R in AO. fold atoms in AO.
  pose proof consts_ok as [C1 [C2 _]].
  assert (Hinj : forall a b, In a atoms -> In b atoms -> m a = m b -> a = b).
  { intros a b Ha Hb E. destruct (AO a Ha) as [_ Na]. apply (inv_inj _ I1 a b Na E). }
  assert (Hpos : forall a, In a atoms -> 0 < a /\ 0 < m a).
  { intros a Ha. destruct (AO a Ha) as [Pa Na]. split; [exact Pa|]. destruct (inv_rng _ I1 a Na). unfold m. lia. }
  assert (Hin : Forall (rule_in atoms) (filter keep R)).
  { apply Forall_forall. intros r Hr. unfold rule_in.
    assert (A : forall a, In a (rule_atoms r) -> In a atoms) by (intros a Ha; unfold atoms; apply in_flat_map; exists r; auto).
    split.
    - apply Forall_forall. intros a Ha. apply A. unfold rule_atoms. apply in_app_iff. left. exact Ha.
    - destruct (r_body r) as [ls|bd wls] eqn:Eb; simpl; apply Forall_forall; intros x Hx; apply A; unfold rule_atoms;
        apply in_app_iff; right; rewrite Eb; simpl.
      + apply in_map. exact Hx.
      + apply (in_map (fun lw => Z.abs (fst lw))). exact Hx. }
  assert (Eout : rules_of out = map (fix_empty false_atom) (map (rn_rule m) (filter keep R))).
  { rewrite Eo. apply rules_of_emit; assumption. }
  assert (Pf : forall X, push m atoms X false_atom = false).
  { intros X. destruct (push m atoms X false_atom) eqn:E; [|reflexivity].
    apply push_true in E as [a [Ha [E _]]]. destruct (AO a Ha) as [_ Na]. destruct (inv_rng _ I1 a Na). unfold m in E. lia. }
  split; [exact Hinj|]. split.
  - intros X HS. split; [|apply Pf]. rewrite Eout. apply constraint_false; [apply Pf|].
    apply rename_sound; try assumption. apply stable_filter_keep. exact HS.
  - intros X' HS Xf. apply stable_filter_keep. apply rename_complete; try assumption.
    rewrite Eout in HS. apply (constraint_false false_atom _ X' Xf). exact HS.
Qed.
