(* C02 - lemmas relating the converter's output to the reference semantics (V.C02.Sem):
   sign normalisation of minimize weights, merging/ordering of priorities, literal renaming. *)
Require Import V.Lib.Base V.Lib.Calls V.Gen.Consts V.Gen.Consts_C02 V.C02.Model V.C02.Sem V.C02.ProofsMap.
Require Import ZifyBool.
Local Open Scope Z_scope.

(* ---- w*[l] = w + (-w)*[not l] ---- *)
Lemma holds_opp X l : l <> 0 -> holds X (- l) = negb (holds X l).
Proof.
  intros Hl. unfold holds. destruct (Z.ltb_spec l 0); destruct (Z.ltb_spec (- l) 0); try lia;
    rewrite ?negb_involutive, ?Z.opp_involutive; reflexivity.
Qed.

Fixpoint negsum (ls : list (Z * Z)) : Z :=
  match ls with [] => 0 | (l, w) :: r => (if w <? 0 then w else 0) + negsum r end.

Lemma cost_norm ls : forall ls', norm_min ls = Some ls' -> Forall (fun lw => fst lw <> 0) ls ->
  Forall (fun lw => 0 <= snd lw) ls' /\
  forall X, wsum (holds X) ls = wsum (holds X) ls' + negsum ls.
Proof.
  induction ls as [|[l w] r IH]; intros ls' H HF; simpl in H.
  - inversion H; subst. split; [constructor | intros; reflexivity].
  - destruct (w =? INT_MIN); [discriminate|]. destruct (norm_min r) as [r'|]; [|discriminate].
    inversion H; subst. inversion HF as [|? ? Hl Hr]; subst. simpl in Hl.
    destruct (IH r' eq_refl Hr) as [W E]. split.
    + constructor; [|exact W]. destruct (Z.ltb_spec w 0); simpl; lia.
    + intros X. simpl. rewrite (E X). destruct (Z.ltb_spec w 0); simpl; [|lia].
      rewrite holds_opp by exact Hl. destruct (holds X l); simpl; lia.
Qed.

(* ---- priorities: one entry per priority, ascending; costs add up ---- *)
Fixpoint keys_asc (m : list (Z * list (Z * Z))) : Prop :=
  match m with
  | [] => True
  | (p, _) :: r => (match r with [] => True | (q, _) :: _ => p < q end) /\ keys_asc r
  end.

Lemma min_add_asc p ls m : keys_asc m -> keys_asc (min_add p ls m).
Proof.
  induction m as [|[q b] r IH]; simpl; intros H; [auto|].
  destruct H as [H1 H2].
  destruct (Z.ltb_spec p q); [simpl; auto|].
  destruct (Z.eqb_spec p q); [simpl; auto|].
  simpl. split; [|apply IH; exact H2].
  destruct r as [|[q2 b2] r2]; simpl; [lia|].
  destruct (Z.ltb_spec p q2); [lia|]. destruct (Z.eqb_spec p q2); lia.
Qed.

Lemma wsum_app f a b : wsum f (a ++ b) = wsum f a + wsum f b.
Proof. induction a as [|[l w] a IH]; simpl; [reflexivity | rewrite IH; lia]. Qed.

Lemma cost_min_add p ls m prio X :
  cost (min_add p ls m) prio X = cost m prio X + (if p =? prio then wsum (holds X) ls else 0).
Proof.
  induction m as [|[q b] r IH]; simpl.
  - lia.
  - destruct (Z.ltb_spec p q); simpl; [lia|].
    destruct (Z.eqb_spec p q); simpl.
    + subst q. rewrite wsum_app. destruct (p =? prio); lia.
    + rewrite IH. lia.
Qed.

(* ---- renaming of literals under the atom map ---- *)
Definition lifts (s : cv) (X X' : interp) : Prop := forall a, img s a <> 0 -> X' (img s a) = X a.

Lemma mapLit_sem s l sf X X' :
  Inv s -> good (fst (mapLit s l)) sf -> next sf <= SMID_MOD -> lifts sf X X' -> l <> 0 ->
  holds X' (snd (mapLit s l)) = holds X l.
Proof.
  intros HI G HB HL Hl. unfold mapLit in *.
  pose proof (mapAtom_spec s (Z.abs l)) as H. destruct (mapAtom s (Z.abs l)) as [s1 r]. cbn [fst snd] in *.
  destruct H as [G1 [E [_ N]]].
  assert (B1 : next s1 <= SMID_MOD) by (destruct G as [L _]; lia).
  assert (I1 : Inv s1) by (destruct G1 as [_ G1]; apply G1; assumption).
  pose proof (N HI B1) as NZ. destruct (inv_rng _ I1 _ NZ) as [R1 R2].
  destruct G as [_ G]. destruct (G I1 HB) as [_ [K _]].
  pose proof consts_ok as [_ [C _]].
  rewrite E. unfold holds. destruct (Z.ltb_spec l 0).
  - replace (- img s1 (Z.abs l) <? 0) with true by lia. rewrite Z.opp_involutive.
    rewrite <- (K _ NZ). rewrite HL by (rewrite K; assumption). replace (Z.abs l) with (- l) by lia. reflexivity.
  - replace (img s1 (Z.abs l) <? 0) with false by lia.
    rewrite <- (K _ NZ). rewrite HL by (rewrite K; assumption). replace (Z.abs l) with l by lia. reflexivity.
Qed.

Lemma mapWLits_sem ls : forall s sf X X',
  Inv s -> good (fst (mapWLits s ls)) sf -> next sf <= SMID_MOD -> lifts sf X X' ->
  Forall (fun lw => fst lw <> 0) ls ->
  wsum (holds X') (snd (mapWLits s ls)) = wsum (holds X) ls.
Proof.
  induction ls as [|[l w] r IH]; intros s sf X X' HI G HB HL HF; simpl in *; [reflexivity|].
  inversion HF as [|? ? Hl Hr]; subst. simpl in Hl.
  pose proof (mapLit_sem s l sf X X' HI) as M. pose proof (good_mapLit s l) as G1.
  destruct (mapLit s l) as [s1 x]. cbn [fst snd] in *.
  pose proof (IH s1 sf X X') as IH1. pose proof (good_mapWLits r s1) as G2.
  destruct (mapWLits s1 r) as [s2 xs]. cbn [fst snd] in *.
  assert (B2 : next s2 <= SMID_MOD) by (destruct G as [L _]; lia).
  assert (B1 : next s1 <= SMID_MOD) by (destruct G2 as [L _]; lia).
  assert (I1 : Inv s1) by (destruct G1 as [_ G1]; apply G1; assumption).
  cbn [wsum].
  rewrite M; [|eapply good_trans; eassumption | assumption | assumption | assumption].
  rewrite IH1; [reflexivity | assumption | assumption | assumption | assumption | assumption].
Qed.

(* flushMinimize: what is emitted costs, under the final map, what was stored *)
Fixpoint cost_calls (cs : list call) (prio : Z) (X : interp) : Z :=
  match cs with
  | [] => 0
  | CMin p ls :: r => (if p =? prio then wsum (holds X) ls else 0) + cost_calls r prio X
  | _ :: r => cost_calls r prio X
  end.
Fixpoint min_prios (cs : list call) : list Z :=
  match cs with [] => [] | CMin p _ :: r => p :: min_prios r | _ :: r => min_prios r end.

Lemma flushMinimize_sem m : forall s sf X X' prio,
  Inv s -> good (fst (flushMinimize s m)) sf -> next sf <= SMID_MOD -> lifts sf X X' ->
  Forall (fun e => Forall (fun lw => fst lw <> 0) (snd e)) m ->
  cost_calls (snd (flushMinimize s m)) prio X' = cost m prio X /\
  min_prios (snd (flushMinimize s m)) = map fst m.
Proof.
  induction m as [|[p ls] r IH]; intros s sf X X' prio HI G HB HL HF; simpl in *; [auto|].
  inversion HF as [|? ? Hl Hr]; subst. simpl in Hl.
  pose proof (mapWLits_sem ls s sf X X' HI) as M. pose proof (good_mapWLits ls s) as G1.
  destruct (mapWLits s ls) as [s1 ml]. cbn [fst snd] in *.
  pose proof (IH s1 sf X X' prio) as IH1. pose proof (good_flushMinimize r s1) as G2.
  destruct (flushMinimize s1 r) as [s2 cs]. cbn [fst snd] in *.
  assert (B2 : next s2 <= SMID_MOD) by (destruct G as [L _]; lia).
  assert (B1 : next s1 <= SMID_MOD) by (destruct G2 as [L _]; lia).
  assert (I1 : Inv s1) by (destruct G1 as [_ G1]; apply G1; assumption).
  destruct IH1 as [E1 E2]; try assumption.
  cbn [cost_calls min_prios map fst].
  rewrite M; [|eapply good_trans; eassumption | assumption | assumption | assumption].
  rewrite E1, E2. split; reflexivity.
Qed.

(* ---- frame: only minimize() and the flush touch minimize_ ---- *)
Lemma mins_mapAtom s a : mins (fst (mapAtom s a)) = mins s.
Proof. unfold mapAtom. destruct (negb _); reflexivity. Qed.
Lemma mins_mapLit s l : mins (fst (mapLit s l)) = mins s.
Proof. unfold mapLit. pose proof (mins_mapAtom s (Z.abs l)). destruct (mapAtom s (Z.abs l)). exact H. Qed.
Lemma mins_mapLits ls : forall s, mins (fst (mapLits s ls)) = mins s.
Proof.
  induction ls as [|l r IH]; intros s; simpl; [reflexivity|].
  pose proof (mins_mapLit s l) as H1. destruct (mapLit s l) as [s1 x]. pose proof (IH s1) as H2.
  destruct (mapLits s1 r). simpl in *. congruence.
Qed.
Lemma mins_mapWLits ls : forall s, mins (fst (mapWLits s ls)) = mins s.
Proof.
  induction ls as [|[l w] r IH]; intros s; simpl; [reflexivity|].
  pose proof (mins_mapLit s l) as H1. destruct (mapLit s l) as [s1 x]. pose proof (IH s1) as H2.
  destruct (mapWLits s1 r). simpl in *. congruence.
Qed.
Lemma mins_mapHeadAtoms h : forall s, mins (fst (mapHeadAtoms s h)) = mins s.
Proof.
  induction h as [|a r IH]; intros s; simpl; [reflexivity|].
  unfold mapHeadAtom. pose proof (mins_mapAtom s a) as H1. destruct (mapAtom s a) as [s1 x].
  match goal with |- context [mapHeadAtoms ?s0 r] => pose proof (IH s0) as H2; destruct (mapHeadAtoms s0 r) end.
  simpl in *. congruence.
Qed.
Lemma mins_mapHead s h : mins (fst (mapHead s h)) = mins s.
Proof. unfold mapHead. pose proof (mins_mapHeadAtoms h s). destruct (mapHeadAtoms s h). exact H. Qed.
Lemma mins_makeAux s cond : mins (fst (fst (makeAux s cond))) = mins s.
Proof.
  unfold makeAux, newAtom.
  match goal with |- context [mapLits ?s0 cond] => pose proof (mins_mapLits cond s0) as H; destruct (mapLits s0 cond) end.
  simpl in *. exact H.
Qed.
Lemma mins_makeAtom s cond named : mins (fst (fst (makeAtom s cond named))) = mins s.
Proof.
  unfold makeAtom. destruct cond as [|c [|c2 r]]; try apply mins_makeAux.
  destruct (c <? 0); [apply mins_makeAux|].
  pose proof (mins_mapAtom s (Z.abs c)) as H. destruct (mapAtom s (Z.abs c)) as [s1 r]. simpl in H.
  destruct (ashow r && named); [rewrite mins_makeAux; exact H | simpl; exact H].
Qed.

Lemma mins_frame ext s c s' out :
  cv_call ext s c = Ok (s', out) -> match c with CMin _ _ | CEnd => False | _ => True end -> mins s' = mins s.
Proof.
  destruct c; cbn [cv_call]; intros H NM; try contradiction; try discriminate; try (inversion H; subst; reflexivity).
  - destruct (negb _ || _); [|inversion H; subst; reflexivity].
    pose proof (mins_mapHead s head) as H1. destruct (mapHead s head) as [s1 mh].
    pose proof (mins_mapLits body s1) as H2. destruct (mapLits s1 body) as [s2 mb]. inversion H; subst. simpl in *. congruence.
  - destruct (negb _ || _); [|inversion H; subst; reflexivity].
    pose proof (mins_mapHead s head) as H1. destruct (mapHead s head) as [s1 mh].
    pose proof (mins_mapWLits body s1) as H2. destruct (mapWLits s1 body) as [s2 mb]. simpl in *.
    destruct (negb (ht =? Head_t_Choice) && _ && _); [inversion H; subst; congruence|].
    unfold newAtom in H. inversion H; subst. simpl. congruence.
  - pose proof (mins_makeAtom s cond true) as H1. destruct (makeAtom s cond true) as [[s1 a] cs].
    unfold addOutput in H. inversion H; subst. simpl in *. exact H1.
  - pose proof (mins_mapAtom s a) as H1. destruct (mapAtom s a) as [s1 r].
    destruct (ahead r); inversion H; subst; simpl in *; exact H1.
  - pose proof (mins_makeAtom s cond true) as H1. destruct (makeAtom s cond true) as [[s1 hp] cs].
    inversion H; subst. simpl in *. exact H1.
  - pose proof (mins_makeAtom s cond true) as H1. destruct (makeAtom s cond true) as [[s1 hp] cs].
    unfold addOutput in H. inversion H; subst. simpl in *. exact H1.
Qed.

(* ---- no minimize statement among what the rest of the flush emits ---- *)
Definition nomin (c : call) : bool := match c with CMin _ _ => false | _ => true end.
Lemma cost_calls_app a b prio X : cost_calls (a ++ b) prio X = cost_calls a prio X + cost_calls b prio X.
Proof. induction a as [|c a IH]; simpl; [reflexivity|]. destruct c; rewrite ?IH; lia. Qed.
Lemma min_prios_app a b : min_prios (a ++ b) = min_prios a ++ min_prios b.
Proof. induction a as [|c a IH]; simpl; [reflexivity|]. destruct c; rewrite ?IH; reflexivity. Qed.
Lemma nomin_cost cs prio X : forallb nomin cs = true -> cost_calls cs prio X = 0 /\ min_prios cs = [].
Proof.
  induction cs as [|c r IH]; simpl; [auto|]. intros H. apply andb_true_iff in H as [H1 H2].
  destruct c; try discriminate; apply IH; exact H2.
Qed.

Lemma nomin_flushExternal_f ext es : forall s hd, forallb nomin (snd (fst (flushExternal_f ext s es hd))) = true.
Proof.
  induction es as [|a r IH]; intros s hd; simpl; [reflexivity|].
  destruct (mapAtom s a) as [s1 ar]. destruct ext.
  - pose proof (IH s1 hd) as H. destruct (flushExternal_f true s1 r hd) as [[s2 cs] hd2]. simpl in *. exact H.
  - destruct (ahead ar); [apply IH|]. destruct (aextn ar =? Value_t_Free); [apply IH|].
    destruct (aextn ar =? Value_t_True); [|apply IH].
    pose proof (IH s1 hd) as H. destruct (flushExternal_f false s1 r hd) as [[s2 cs] hd2]. simpl in *. exact H.
Qed.
Lemma nomin_flushExternal ext s : forallb nomin (snd (flushExternal ext s)) = true.
Proof.
  unfold flushExternal. pose proof (nomin_flushExternal_f ext (exts s) s []) as H.
  destruct (flushExternal_f ext s (exts s) []) as [[s1 cs] hd]. simpl in *.
  rewrite forallb_app, H. destruct hd; reflexivity.
Qed.
Lemma nomin_flushHeuristic_f hs : forall s, forallb nomin (snd (flushHeuristic_f s hs)) = true.
Proof.
  induction hs as [|h r IH]; intros s; cbn [flushHeuristic_f]; [reflexivity|].
  destruct (negb (mapped s (h_atom h))); [apply IH|].
  destruct (mapAtom s (h_atom h)) as [s1 ma].
  destruct (if ashow ma then sym_find (smId ma) (symtab s1) else None).
  - pose proof (IH s1) as H. destruct (flushHeuristic_f s1 r). simpl in *. exact H.
  - match goal with |- context [addOutput ?s0 ?a ?str ?b] => destruct (addOutput s0 a str b) as [s2 name] end.
    pose proof (IH s2) as H. destruct (flushHeuristic_f s2 r). simpl in *. exact H.
Qed.
Lemma nomin_flushSymbols s : forallb nomin (flushSymbols s) = true.
Proof. unfold flushSymbols. induction (sym_sort (outs s)); simpl; auto. Qed.

(* ---- the cost statement for one step ---- *)
Definition lits_nonzero (m : list (Z * list (Z * Z))) : Prop :=
  Forall (fun e => Forall (fun lw => fst lw <> 0) (snd e)) m.

Lemma cost_minimize_call ext s p ls s' out :
  cv_call ext s (CMin p ls) = Ok (s', out) -> Forall (fun lw => fst lw <> 0) ls ->
  out = [] /\ (keys_asc (mins s) -> keys_asc (mins s')) /\ (lits_nonzero (mins s) -> lits_nonzero (mins s')) /\
  forall prio X, cost (mins s') prio X = cost (mins s) prio X + (if p =? prio then wsum (holds X) ls - negsum ls else 0).
Proof.
  cbn [cv_call]. destruct (norm_min ls) as [ls'|] eqn:E; [|discriminate]. intros H HF. inversion H; subst. clear H. simpl.
  destruct (cost_norm ls ls' E HF) as [W C]. repeat split.
  - apply min_add_asc.
  - unfold lits_nonzero. intros HM.
    assert (HN : Forall (fun lw : Z * Z => fst lw <> 0) ls').
    { clear C W. revert ls' E. induction HF as [|[l w] r Hl Hr IH]; intros ls' E; simpl in E.
      - inversion E; constructor.
      - destruct (w =? INT_MIN); [discriminate|]. destruct (norm_min r) as [r'|]; [|discriminate]. inversion E; subst.
        constructor; [|apply IH; reflexivity]. simpl in *. destruct (w <? 0); simpl; lia. }
    induction (mins s) as [|[q b] m IH]; simpl.
    + constructor; [exact HN | constructor].
    + inversion HM as [|? ? Hb Hm]; subst. destruct (p <? q); [constructor; [exact HN | exact HM]|].
      destruct (p =? q).
      * constructor; [simpl; apply Forall_app; split; assumption | exact Hm].
      * constructor; [exact Hb | apply IH; exact Hm].
  - intros prio X. rewrite cost_min_add. rewrite (C X). destruct (p =? prio); lia.
Qed.

Lemma cost_flush ext s s' out X X' prio :
  cv_call ext s CEnd = Ok (s', out) -> Inv s -> next s' <= SMID_MOD -> lits_nonzero (mins s) -> lifts s' X X' ->
  cost_calls out prio X' = cost (mins s) prio X /\ min_prios out = map fst (mins s).
Proof.
  cbn [cv_call]. unfold flush. intros H HI HB HN HL.
  pose proof (good_flushMinimize (mins s) s) as G1. pose proof (flushMinimize_sem (mins s) s) as M.
  destruct (flushMinimize s (mins s)) as [s1 c1]. cbn [fst snd] in *.
  pose proof (good_flushExternal ext s1) as G2. pose proof (nomin_flushExternal ext s1) as N2.
  destruct (flushExternal ext s1) as [s2 c2]. cbn [fst snd] in *.
  pose proof (good_flushHeuristic_f (heus s2) s2) as G3. pose proof (nomin_flushHeuristic_f (heus s2) s2) as N3.
  destruct (flushHeuristic_f s2 (heus s2)) as [s3 c3]. cbn [fst snd] in *.
  inversion H; subst. simpl in HB.
  assert (G13 : good s1 (flushStep s3)).
  { eapply good_trans; [exact G2|]. eapply good_trans; [exact G3|]. apply good_core_eq; reflexivity. }
  destruct (M (flushStep s3) X X' prio HI G13 HB HL HN) as [E1 E2].
  rewrite !cost_calls_app, !min_prios_app.
  destruct (nomin_cost c2 prio X' N2) as [-> ->]. destruct (nomin_cost c3 prio X' N3) as [-> ->].
  destruct (nomin_cost (flushSymbols s3) prio X' (nomin_flushSymbols s3)) as [-> ->].
  simpl. rewrite E1, E2. rewrite ?app_nil_r. split; [lia | reflexivity].
Qed.

(* ---- one whole step: directives ds, then endStep ---- *)
Fixpoint negs (cs : list call) (prio : Z) : Z :=
  match cs with
  | [] => 0
  | CMin p ls :: r => (if p =? prio then negsum ls else 0) + negs r prio
  | _ :: r => negs r prio
  end.
Definition notend (c : call) : bool := match c with CEnd => false | _ => true end.
Definition min_ok (c : call) : Prop := match c with CMin _ ls => Forall (fun lw => fst lw <> 0) ls | _ => True end.

Lemma cost_directives ext ds : forall s s1 o1,
  forallb notend ds = true -> Forall min_ok ds -> cv_run ext s ds = Ok (s1, o1) ->
  (keys_asc (mins s) -> keys_asc (mins s1)) /\ (lits_nonzero (mins s) -> lits_nonzero (mins s1)) /\
  forall prio X, cost (mins s1) prio X = cost (mins s) prio X + cost_calls ds prio X - negs ds prio.
Proof.
  induction ds as [|c r IH]; intros s s1 o1 HE HM Hrun; simpl in Hrun.
  - inversion Hrun; subst. repeat split; auto. intros; simpl; lia.
  - simpl in HE. apply andb_true_iff in HE as [HEc HEr]. inversion HM as [|? ? Mc Mr]; subst.
    destruct (cv_call ext s c) as [[sa oa]|] eqn:Ec; [|discriminate].
    destruct (cv_run ext sa r) as [[sb ob]|] eqn:Er; [|discriminate]. inversion Hrun; subst.
    destruct (IH sa s1 ob HEr Mr Er) as [A1 [A2 A3]].
    destruct c; try discriminate;
      try (pose proof (mins_frame _ _ _ _ _ Ec I) as F; rewrite F in *; repeat split; auto; fail).
    destruct (cost_minimize_call _ _ _ _ _ _ Ec Mc) as [_ [B1 [B2 B3]]].
    repeat split; auto. intros prio' X. rewrite A3, B3. simpl. destruct (prio =? prio'); lia.
Qed.

Lemma cost_step ext ds s0 s1 o1 s' out :
  forallb notend ds = true -> Forall min_ok ds -> mins s0 = [] -> Inv s0 ->
  cv_run ext s0 ds = Ok (s1, o1) -> cv_call ext s1 CEnd = Ok (s', out) -> next s' <= SMID_MOD ->
  keys_asc (mins s1) /\ min_prios out = map fst (mins s1) /\
  forall X X', lifts s' X X' -> forall prio, cost_calls out prio X' = cost_calls ds prio X - negs ds prio.
Proof.
  intros HE HM H0 HI Hrun Hend HB.
  destruct (cost_directives ext ds s0 s1 o1 HE HM Hrun) as [A1 [A2 A3]]. rewrite H0 in *.
  assert (G1 : good s0 s1) by (eapply good_cv_run; exact Hrun).
  assert (G2 : good s1 s') by (eapply good_cv_call; exact Hend).
  assert (I1 : Inv s1) by (destruct G1 as [_ G1]; apply G1; [exact HI | destruct G2; lia]).
  assert (K : keys_asc (mins s1)) by (apply A1; exact I).
  assert (N : lits_nonzero (mins s1)) by (apply A2; constructor).
  split; [exact K|]. split.
  - assert (Hl : lifts s' (fun _ => false) (fun _ => false)) by (intros a _; reflexivity).
    destruct (cost_flush ext s1 s' out _ _ 0 Hend I1 HB N Hl) as [_ E]. exact E.
  - intros X X' HL prio. destruct (cost_flush ext s1 s' out X X' prio Hend I1 HB N HL) as [E _].
    rewrite E, A3. simpl. lia.
Qed.
