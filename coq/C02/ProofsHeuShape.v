(* C02 - exact shape of the heuristic queue and of what flushHeuristic emits (extensions on). *)
Require Import V.Lib.Base V.Lib.Calls V.Gen.Consts V.Gen.Consts_C02 V.C02.Model V.C02.Sem V.C02.ProofsMap V.C02.ProofsErr
  V.C02.ProofsSem V.C02.ProofsIso V.C02.ProofsShape V.C02.ProofsDefExt V.C02.ProofsWeight V.C02.ProofsOutput V.C02.ProofsExt
  V.C02.ProofsCompose V.C02.ProofsHeu.
Require Import ZifyBool.
Local Open Scope Z_scope.

(* heuristic(a, t, bias, prio, cond): the entry queued is (a, t, bias, prio, hp) where hp is the image of the single positive,
   not yet named condition atom (nothing emitted), or the head of the emitted rule `hp :- renamed cond` (hp = newAtom()) *)
Lemma heu_call_queue s a t b p cond s1 out sf :
  cv_call true s (CHeuristic a t b p cond) = Ok (s1, out) -> Inv s -> good s1 sf -> next sf <= SMID_MOD ->
  exists hp, heus s1 = heus s ++ [mkH a t b p hp] /\
    ((exists c0, cond = [c0] /\ 0 <= c0 /\ out = [] /\ hp = img sf c0) \/
     (out = [CRule Head_t_Disjunctive [hp] (map (rn_lit (img sf)) cond)] /\ next s <= hp < next s1 /\ In hp (auxs sf))).
Proof.
  cbn [cv_call]. pose proof (makeAtom_shape s cond sf) as MS. pose proof (ho_makeAtom s cond true) as [HH _].
  destruct (makeAtom s cond true) as [[sa hp] cs]. cbn [fst snd] in *.
  intros H HI G HB. inversion H; subst. clear H. simpl.
  assert (Ga : good sa sf).
  { eapply good_trans; [|exact G]. apply good_core_eq; reflexivity. }
  destruct (MS HI Ga HB) as [_ [_ C]]. exists hp. split; [rewrite HH; reflexivity|].
  destruct C as [[c0 [-> [P0 [-> Ea]]]]|[-> [Ra IA]]]; [left; exists c0; auto | right; auto].
Qed.

Lemma sym_find_app a t x n : sym_find a t = Some n -> sym_find a (t ++ x) = Some n.
Proof. induction t as [|[k v] r IH]; simpl; [discriminate|]. destruct (k =? a); auto. Qed.
Lemma sym_find_last a t n : sym_find a t = None -> sym_find a (t ++ [(a, n)]) = Some n.
Proof.
  induction t as [|[k v] r IH]; simpl; [rewrite Z.eqb_refl; reflexivity|]. destruct (k =? a); [discriminate | exact IH].
Qed.

(* the symbol table only grows during the flush, and what it says about an atom stays *)
Lemma flushHeuristic_symtab hs : forall s a n,
  sym_find a (symtab s) = Some n -> sym_find a (symtab (fst (flushHeuristic_f s hs))) = Some n.
Proof.
  induction hs as [|h r IH]; intros s a n H; cbn [flushHeuristic_f]; [exact H|].
  destruct (negb (mapped s (h_atom h))); [apply IH; exact H|].
  assert (ST : symtab (fst (mapAtom s (h_atom h))) = symtab s) by (unfold mapAtom; destruct (negb _); reflexivity).
  destruct (mapAtom s (h_atom h)) as [s1 ma]. cbn [fst] in ST.
  destruct (if ashow ma then sym_find (smId ma) (symtab s1) else None) as [nm|].
  - pose proof (IH s1 a n) as Q. destruct (flushHeuristic_f s1 r) as [s3 cs]. cbn [fst] in *. apply Q. rewrite ST. exact H.
  - unfold addOutput. cbn [fst snd symtab].
    match goal with |- context [flushHeuristic_f ?s2 r] => pose proof (IH s2 a n) as Q; destruct (flushHeuristic_f s2 r) as [s3 cs] end.
    cbn [fst] in *. apply Q. simpl. rewrite ST.
    destruct (sym_find (smId ma) (symtab s)); cbn [andb]; [exact H | apply sym_find_app; exact H].
Qed.

Lemma Forall2_imp {A B} (P Q : A -> B -> Prop) l l' : (forall a b, P a b -> Q a b) -> Forall2 P l l' -> Forall2 Q l l'.
Proof. intros H. induction 1; constructor; auto. Qed.

Definition heu_out (s sf : cv) (h : heu) (c : call) : Prop :=
  exists nm, c = COutput (heu_text nm (heu_name (h_type h) heu_names) (h_bias h) (h_prio h)) [h_cond h] /\
    (nm = atom_name (img s (h_atom h)) \/ sym_find (img s (h_atom h)) (symtab sf) = Some nm).

(* one `_heuristic(name,type,bias,prio)` output per queued entry whose atom is mapped, in queue order, on the queued condition
   atom; name = the atom's name in symTab_ (as it is after the flush) or `_atom(image)`; images do not change *)
Lemma flushHeuristic_exact hs : forall s,
  (forall b, img (fst (flushHeuristic_f s hs)) b = img s b) /\
  Forall2 (heu_out s (fst (flushHeuristic_f s hs))) (filter (fun h => mapped s (h_atom h)) hs) (snd (flushHeuristic_f s hs)).
Proof.
  induction hs as [|h r IH]; intros s; cbn [flushHeuristic_f filter]; [split; [reflexivity | constructor]|].
  destruct (mapped s (h_atom h)) eqn:Mp; cbn [negb]; [|apply IH].
  assert (EM : mapAtom s (h_atom h) = (s, find (h_atom h) (amap s))).
  { unfold mapAtom. unfold mapped in Mp. rewrite Mp. reflexivity. }
  rewrite EM. set (ma := find (h_atom h) (amap s)).
  destruct (if ashow ma then sym_find (smId ma) (symtab s) else None) as [nm|] eqn:En.
  - destruct (IH s) as [A B]. pose proof (flushHeuristic_symtab r s (smId ma) nm) as ST.
    destruct (flushHeuristic_f s r) as [s3 cs]. cbn [fst snd] in *.
    split; [exact A|]. constructor; [|exact B].
    exists nm. split; [reflexivity|]. right. apply ST. destruct (ashow ma); [exact En | discriminate].
  - set (s1' := set_amap s (upd (h_atom h) (mkA (smId ma) (ahead ma) true (aextn ma)) (amap s))).
    assert (I1 : forall b, img s1' b = img s b).
    { intros b. unfold img, s1'. simpl. destruct (Z.eq_dec (h_atom h) b) as [<-|Hn].
      - rewrite find_upd_same. reflexivity.
      - rewrite find_upd_other by exact Hn. reflexivity. }
    unfold addOutput. cbn [fst snd].
    match goal with |- context [flushHeuristic_f ?sx r] => set (s2 := sx) end.
    assert (I2 : forall b, img s2 b = img s b) by (intros b; unfold s2, img; simpl; apply I1).
    assert (M2 : forall x, mapped s2 x = mapped s x).
    { intros x. unfold mapped. fold (img s2 x). fold (img s x). rewrite I2. reflexivity. }
    destruct (IH s2) as [A B]. destruct (flushHeuristic_f s2 r) as [s3 cs]. cbn [fst snd] in *.
    split; [intros b; rewrite A; apply I2|].
    rewrite (filter_ext (fun h0 => mapped s2 (h_atom h0)) (fun h0 => mapped s (h_atom h0)) (fun h0 => M2 (h_atom h0))) in B. constructor.
    + exists (atom_name (smId ma)). split; [reflexivity|]. left. reflexivity.
    + eapply Forall2_imp; [|exact B]. intros h0 c0 [nm [E D]]. exists nm. split; [exact E|].
      rewrite !I2 in D. exact D.
Qed.
