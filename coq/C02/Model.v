(* C02 - executable model of Potassco::SmodelsConvert / SmData (src/convert.cpp), plus the acceptance
   automaton of SmodelsOutput (src/smodels.cpp: the POTASSCO_REQUIREs only, not the text).

   SmData::atoms_ (a vector indexed by input atom, default Atom() = all zero) is an association list
   atom -> (smId, head, show, extn); an absent key is the default record, exactly like a vector slot
   that was created by resize() but never assigned.  The 28-bit bit-field smId is modelled as
   `next mod 2^smid_bits` explicitly; next_ itself (uint32) is an unbounded Z here: every theorem
   carries the hypothesis next < 2^28, below which the two coincide.
   minimize_ (std::map) is an association list kept sorted by priority; symTab_ (unordered_map keyed by
   OUTPUT atom, insert keeps the first entry) an association list; names are C strings: cut0.
   `auxs` is a ghost field (not in the C++): the atoms handed out by newAtom(), used only to state
   that they never collide with the image of the atom map.
   StringBuilder::appendFormat is modelled as an ideal sprintf over the format strings taken from the
   sources (V.Gen.Consts); std::sort on <= 16 symbols is libstdc++'s insertion sort (stable).         *)
Require Import V.Lib.Base V.Lib.Calls V.Lib.Dec V.Gen.Consts V.Gen.Consts_C02.
Local Open Scope Z_scope.

Inductive result (A : Type) := Ok (a : A) | Err (code : Z).
Arguments Ok {A} a. Arguments Err {A} code.

Record arec := mkA { smId : Z; ahead : bool; ashow : bool; aextn : Z }.
Definition a0 : arec := mkA 0 false false 0.
Record heu := mkH { h_atom : Z; h_type : Z; h_bias : Z; h_prio : Z; h_cond : Z }.
Record sym := mkS { s_atom : Z; s_hash : bool; s_name : list Z }.

Record cv := mkCv {
  amap : list (Z * arec);           (* atoms_ *)
  next : Z;                         (* next_ *)
  auxs : list Z;                    (* ghost: results of newAtom() *)
  mins : list (Z * list (Z * Z));   (* minimize_, ascending priority *)
  exts : list Z;                    (* extern_ (input atoms) *)
  heus : list heu;                  (* heuristic_ *)
  outs : list sym;                  (* output_ *)
  symtab : list (Z * list Z) }.     (* symTab_ : output atom -> name *)

Definition cv0 : cv := mkCv [] next_start [] [] [] [] [] [].

Definition SMID_MOD : Z := 2 ^ smid_bits.
Definition INT_MIN : Z := - 2147483648.

(* ---- the atom map ---- *)
Fixpoint find (a : Z) (m : list (Z * arec)) : arec :=
  match m with [] => a0 | (k, v) :: r => if k =? a then v else find a r end.
Fixpoint upd (a : Z) (v : arec) (m : list (Z * arec)) : list (Z * arec) :=
  match m with
  | [] => [(a, v)]
  | (k, w) :: r => if k =? a then (k, v) :: r else (k, w) :: upd a v r
  end.

Definition set_core (s : cv) (m : list (Z * arec)) (n : Z) (x : list Z) : cv :=
  mkCv m n x (mins s) (exts s) (heus s) (outs s) (symtab s).
Definition set_amap (s : cv) (m : list (Z * arec)) : cv := set_core s m (next s) (auxs s).

Definition mapped (s : cv) (a : Z) : bool := negb (smId (find a (amap s)) =? 0).

(* Atom& mapAtom(Atom_t a) *)
Definition mapAtom (s : cv) (a : Z) : cv * arec :=
  let r := find a (amap s) in
  if negb (smId r =? 0) then (s, r)
  else let r' := mkA (next s mod SMID_MOD) (ahead r) (ashow r) (aextn r) in
       (set_core s (upd a r' (amap s)) (next s + 1) (auxs s), r').

(* Atom_t newAtom() { return next_++; } *)
Definition newAtom (s : cv) : cv * Z := (set_core s (amap s) (next s + 1) (next s :: auxs s), next s).

Definition mapLit (s : cv) (l : Z) : cv * Z :=
  let '(s1, r) := mapAtom s (Z.abs l) in (s1, if l <? 0 then - smId r else smId r).

Fixpoint mapLits (s : cv) (ls : list Z) : cv * list Z :=
  match ls with
  | [] => (s, [])
  | l :: r => let '(s1, x) := mapLit s l in let '(s2, xs) := mapLits s1 r in (s2, x :: xs)
  end.
Fixpoint mapWLits (s : cv) (ls : list (Z * Z)) : cv * list (Z * Z) :=
  match ls with
  | [] => (s, [])
  | (l, w) :: r => let '(s1, x) := mapLit s l in let '(s2, xs) := mapWLits s1 r in (s2, (x, w) :: xs)
  end.

Definition mapHeadAtom (s : cv) (a : Z) : cv * Z :=
  let '(s1, r) := mapAtom s a in
  (set_amap s1 (upd a (mkA (smId r) true (ashow r) (aextn r)) (amap s1)), smId r).
Fixpoint mapHeadAtoms (s : cv) (h : list Z) : cv * list Z :=
  match h with
  | [] => (s, [])
  | a :: r => let '(s1, x) := mapHeadAtom s a in let '(s2, xs) := mapHeadAtoms s1 r in (s2, x :: xs)
  end.
Definition mapHead (s : cv) (h : list Z) : cv * list Z :=
  let '(s1, mh) := mapHeadAtoms s h in
  (s1, match mh with [] => [false_atom] | _ => mh end).

(* ---- ideal sprintf over the format strings of convert.cpp ---- *)
Inductive farg := FS (s : list Z) | FD (z : Z) | FU (z : Z).
Fixpoint format (fmt : list Z) (args : list farg) : list Z :=
  match fmt with
  | 37 :: 115 :: r => match args with FS s :: a => s ++ format r a | _ => format r args end
  | 37 :: 100 :: r => match args with FD z :: a => print_Z z ++ format r a | _ => format r args end
  | 37 :: 117 :: r => match args with FU z :: a => print_nat z ++ format r a | _ => format r args end
  | c :: r => c :: format r args
  | [] => []
  end.
Fixpoint heu_name (t : Z) (tab : list (Z * list Z)) : list Z :=
  match tab with [] => heu_default | (k, n) :: r => if k =? t then n else heu_name t r end.

(* ---- symbols ---- *)
Fixpoint sym_find (a : Z) (t : list (Z * list Z)) : option (list Z) :=
  match t with [] => None | (k, n) :: r => if k =? a then Some n else sym_find a r end.

(* const char* addOutput(Atom_t atom, const StringSpan& str, bool addHash) *)
Definition addOutput (s : cv) (atom : Z) (str : list Z) (addHash : bool) : cv * list Z :=
  let n := cut0 str in
  let ins := addHash && match sym_find atom (symtab s) with None => true | Some _ => false end in
  (mkCv (amap s) (next s) (auxs s) (mins s) (exts s) (heus s)
        (outs s ++ [mkS (atom mod 2 ^ sym_atom_bits) ins n])
        (if ins then symtab s ++ [(atom, n)] else symtab s), n).

(* Atom_t makeAtom(const LitSpan& cond, bool named): returns the atom and the rule it emitted (if any) *)
Definition makeAux (s : cv) (cond : list Z) : cv * Z * list call :=
  let '(s1, aux) := newAtom s in
  let '(s2, ls) := mapLits s1 cond in
  (s2, aux, [CRule Head_t_Disjunctive [aux] ls]).
Definition makeAtom (s : cv) (cond : list Z) (named : bool) : cv * Z * list call :=
  match cond with
  | [c] =>
      if c <? 0 then makeAux s cond else
      let '(s1, r) := mapAtom s (Z.abs c) in
      if ashow r && named then makeAux s1 cond
      else (set_amap s1 (upd (Z.abs c) (mkA (smId r) (ahead r) named (aextn r)) (amap s1)), smId r, [])
  | _ => makeAux s cond
  end.

(* void addMinimize(Weight_t prio, const WeightLitSpan& lits): None = the range check fails *)
Fixpoint norm_min (ls : list (Z * Z)) : option (list (Z * Z)) :=
  match ls with
  | [] => Some []
  | (l, w) :: r =>
      if w =? INT_MIN then None else
      match norm_min r with
      | None => None
      | Some r' => Some ((if w <? 0 then (- l, - w) else (l, w)) :: r')
      end
  end.
Fixpoint min_add (p : Z) (ls : list (Z * Z)) (m : list (Z * list (Z * Z))) : list (Z * list (Z * Z)) :=
  match m with
  | [] => [(p, ls)]
  | (q, b) :: r => if p <? q then (p, ls) :: m else if p =? q then (q, b ++ ls) :: r else (q, b) :: min_add p ls r
  end.

Definition set_mins (s : cv) (m : list (Z * list (Z * Z))) : cv :=
  mkCv (amap s) (next s) (auxs s) m (exts s) (heus s) (outs s) (symtab s).
Definition set_exts (s : cv) (e : list Z) : cv :=
  mkCv (amap s) (next s) (auxs s) (mins s) e (heus s) (outs s) (symtab s).
Definition set_heus (s : cv) (h : list heu) : cv :=
  mkCv (amap s) (next s) (auxs s) (mins s) (exts s) h (outs s) (symtab s).

(* ---- the flush at endStep ---- *)
Fixpoint flushMinimize (s : cv) (m : list (Z * list (Z * Z))) : cv * list call :=
  match m with
  | [] => (s, [])
  | (p, ls) :: r => let '(s1, ml) := mapWLits s ls in let '(s2, cs) := flushMinimize s1 r in (s2, CMin p ml :: cs)
  end.

Fixpoint flushExternal_f (ext : bool) (s : cv) (es : list Z) (hd : list Z) : cv * list call * list Z :=
  match es with
  | [] => (s, [], hd)
  | a :: r =>
      let '(s1, ar) := mapAtom s a in
      let vt := aextn ar in
      if ext then
        let '(s2, cs, hd2) := flushExternal_f ext s1 r hd in (s2, CExternal (smId ar) vt :: cs, hd2)
      else if ahead ar then flushExternal_f ext s1 r hd
      else if vt =? Value_t_Free then flushExternal_f ext s1 r (hd ++ [smId ar])
      else if vt =? Value_t_True then
        let '(s2, cs, hd2) := flushExternal_f ext s1 r hd in (s2, CRule Head_t_Disjunctive [smId ar] [] :: cs, hd2)
      else flushExternal_f ext s1 r hd
  end.
Definition flushExternal (ext : bool) (s : cv) : cv * list call :=
  let '(s1, cs, hd) := flushExternal_f ext s (exts s) [] in
  (s1, cs ++ match hd with [] => [] | _ => [CRule Head_t_Choice hd []] end).

Fixpoint flushHeuristic_f (s : cv) (hs : list heu) : cv * list call :=
  match hs with
  | [] => (s, [])
  | h :: r =>
      if negb (mapped s (h_atom h)) then flushHeuristic_f s r else
      let '(s1, ma) := mapAtom s (h_atom h) in
      let nm := if ashow ma then sym_find (smId ma) (symtab s1) else None in
      let '(s2, name) :=
        match nm with
        | Some n => (s1, n)
        | None =>
            let s1' := set_amap s1 (upd (h_atom h) (mkA (smId ma) (ahead ma) true (aextn ma)) (amap s1)) in
            addOutput s1' (smId ma) (format fmt_atom [FU (smId ma)]) true
        end in
      let str := format fmt_heuristic [FS name; FS (heu_name (h_type h) heu_names); FD (h_bias h); FU (h_prio h)] in
      let '(s3, cs) := flushHeuristic_f s2 r in
      (s3, COutput str [h_cond h] :: cs)
  end.

Fixpoint sym_ins (x : sym) (l : list sym) : list sym :=
  match l with
  | [] => [x]
  | y :: r => if s_atom x <? s_atom y then x :: l else y :: sym_ins x r
  end.
Definition sym_sort (l : list sym) : list sym := fold_left (fun acc x => sym_ins x acc) l [].
Definition flushSymbols (s : cv) : list call :=
  map (fun x => COutput (s_name x) [s_atom x]) (sym_sort (outs s)).

Definition flushStep (s : cv) : cv := mkCv (amap s) (next s) (auxs s) [] [] [] [] (symtab s).

Definition flush (ext : bool) (s : cv) : cv * list call :=
  let '(s1, c1) := flushMinimize s (mins s) in
  let '(s2, c2) := flushExternal ext s1 in
  let '(s3, c3) := flushHeuristic_f s2 (heus s2) in
  let c4 := flushSymbols s3 in
  (flushStep s3, c1 ++ c2 ++ c3 ++ c4 ++ [CAssume [- false_atom]]).

(* ---- one AbstractProgram call on the converter: new state and the calls made on out_, in order ---- *)
Definition E_LOGIC : Z := 1.
Definition cv_call (ext : bool) (s : cv) (c : call) : result (cv * list call) :=
  match c with
  | CInit i => Ok (s, [CInit i])
  | CBegin => Ok (s, [CBegin])
  | CEnd => let '(s1, cs) := flush ext s in Ok (s1, cs ++ [CEnd])
  | CRule ht h b =>
      if negb (match h with [] => true | _ => false end) || (ht =? Head_t_Disjunctive) then
        let '(s1, mh) := mapHead s h in
        let '(s2, mb) := mapLits s1 b in
        Ok (s2, [CRule ht mh mb])
      else Ok (s, [])
  | CWRule ht h bd b =>
      if negb (match h with [] => true | _ => false end) || (ht =? Head_t_Disjunctive) then
        let '(s1, mh) := mapHead s h in
        let '(s2, mb) := mapWLits s1 b in
        if negb (ht =? Head_t_Choice) && (length mh =? 1)%nat && (0 <=? bd) then Ok (s2, [CWRule ht mh bd mb])
        else
          let '(s3, aux) := newAtom s2 in
          Ok (s3, [CWRule Head_t_Disjunctive [aux] bd mb; CRule ht mh [aux]])
      else Ok (s, [])
  | CMin p ls =>
      match norm_min ls with
      | None => Err E_LOGIC
      | Some ls' => Ok (set_mins s (min_add p ls' (mins s)), [])
      end
  | COutput n cond =>
      let '(s1, a, cs) := makeAtom s cond true in
      let '(s2, _) := addOutput s1 a n true in
      Ok (s2, cs)
  | CExternal a v =>
      let '(s1, r) := mapAtom s a in
      if ahead r then Ok (s1, [])
      else Ok (set_exts (set_amap s1 (upd a (mkA (smId r) (ahead r) (ashow r) (v mod 2 ^ extn_bits)) (amap s1))) (exts s1 ++ [a]), [])
  | CHeuristic a t b p cond =>
      let pre := if ext then [] else [CHeuristic a t b p cond] in
      let '(s1, hp, cs) := makeAtom s cond true in
      Ok (set_heus s1 (heus s1 ++ [mkH a t b p hp]), pre ++ cs)
  | CEdge x y cond =>
      let pre := if ext then [] else [CEdge x y cond] in
      let '(s1, a, cs) := makeAtom s cond true in
      let '(s2, _) := addOutput s1 a (format fmt_edge [FD x; FD y]) false in
      Ok (s2, pre ++ cs)
  | CProject _ | CAssume _ | CTNum _ _ | CTSym _ _ | CTComp _ _ _ | CTElem _ _ _ | CTAtom _ _ _ | CTAtomG _ _ _ _ _ =>
      Err E_LOGIC   (* AbstractProgram's default implementation throws std::logic_error *)
  end.

(* a whole call sequence: final state and everything emitted; the first failing call ends the run *)
Fixpoint cv_run (ext : bool) (s : cv) (p : list call) : result (cv * list call) :=
  match p with
  | [] => Ok (s, [])
  | c :: r =>
      match cv_call ext s c with
      | Err e => Err e
      | Ok (s1, o1) =>
          match cv_run ext s1 r with
          | Err e => Err e
          | Ok (s2, o2) => Ok (s2, o1 ++ o2)
          end
      end
  end.

(* ---- SmodelsOutput(os, ext, false_ = 0) as an acceptance automaton: None = POTASSCO_REQUIRE fails ---- *)
Record sw := mkSw { sec : Z; fhead : bool }.
Definition sw0 : sw := mkSw 0 false.
Definition sm_rule_ok (ht : Z) (h : list Z) (bd : Z) : bool :=
  negb (ht =? Head_t_Choice) && (length h =? 1)%nat && (0 <=? bd).
Definition sw_call (ext : bool) (fatom : Z) (w : sw) (c : call) : option sw :=
  match c with
  | CInit i => if i && negb ext then None else Some w
  | CBegin => Some (mkSw 0 false)
  | CRule ht h b =>
      if negb (sec w =? 0) then None else
      match h with
      | [] => if ht =? Head_t_Choice then Some w else if fatom =? 0 then None else Some (mkSw (sec w) true)
      | _ => Some w
      end
  | CWRule ht h bd b =>
      if negb (sec w =? 0) then None else
      match h with
      | [] => if fatom =? 0 then None else if sm_rule_ok ht [fatom] bd then Some (mkSw (sec w) true) else None
      | _ => if sm_rule_ok ht h bd then Some w else None
      end
  | CMin _ _ => Some w
  | COutput n cond =>
      match cond with
      | [x] => if (sec w <=? 1) && (0 <? x) then Some (mkSw 1 (fhead w)) else None
      | _ => None
      end
  | CExternal _ _ => if ext then Some w else None
  | CAssume _ => if sec w <? 2 then Some (mkSw 2 (fhead w)) else None
  | CEnd => Some (mkSw 2 (fhead w))
  | _ => None
  end.
(* feed emitted calls to the writer: accepted prefix (including a rejected call) and whether all passed *)
Fixpoint sw_calls (ext : bool) (w : sw) (cs : list call) : sw * list call * bool :=
  match cs with
  | [] => (w, [], true)
  | c :: r =>
      match sw_call ext 0 w c with
      | None => (w, [c], false)
      | Some w1 => let '(w2, acc, ok) := sw_calls ext w1 r in (w2, c :: acc, ok)
      end
  end.

(* ---- cases: [mode; ext; items...]  item = encoded call | 30 lit (get) | 31 atom (getName) ---- *)
Inductive item := ICall (c : call) | IGet (l : Z) | IName (a : Z).
Fixpoint dec_items (fuel : nat) (l : list Z) : list item :=
  match fuel with
  | O => []
  | S f =>
      match l with
      | 30 :: x :: r => IGet x :: dec_items f r
      | 31 :: x :: r => IName x :: dec_items f r
      | _ => match dec_call l with
             | Some (c, r) => ICall c :: dec_items f r
             | None => []
             end
      end
  end.

Fixpoint run_items (tee ext : bool) (s : cv) (w : sw) (is : list item) : list Z :=
  match is with
  | [] => []
  | IGet l :: r => let '(s1, x) := mapLit s l in 30 :: x :: run_items tee ext s1 w r
  | IName a :: r =>
      match sym_find a (symtab s) with
      | Some n => 31 :: Z.of_nat (length n) :: n ++ run_items tee ext s w r
      | None => 31 :: -1 :: run_items tee ext s w r
      end
  | ICall c :: r =>
      match cv_call ext s c with
      | Err e => [21; e]
      | Ok (s1, cs) =>
          if tee then
            let '(w1, acc, ok) := sw_calls ext w cs in
            if ok then enc_calls acc ++ 20 :: (next s1 - 1) :: run_items tee ext s1 w1 r
            else enc_calls acc ++ [21; E_LOGIC]
          else enc_calls cs ++ 20 :: (next s1 - 1) :: run_items tee ext s1 w r
      end
  end.

Definition run_case (c : list Z) : list Z :=
  match c with
  | mode :: ext :: r => run_items (negb (mode =? 0)) (negb (ext =? 0)) cv0 sw0 (dec_items (length r) r)
  | _ => []
  end.
