(* C02 - reference semantics of ground programs (TRUSTED DEFINITION: short on purpose, read it).

   Interpretations are total maps atom -> bool.  A rule has a disjunctive or a choice head (possibly empty) and a normal
   or a weight body (weights >= 0 is a side condition of the theorems, as in the aspif contract).  Stable models follow the
   reduct of Simons/Niemela/Soininen extended to choice and disjunctive heads as in the aspif paper:
     reduct evaluation  rholds X Y l : negative literals are evaluated in X (the candidate), positive ones in Y;
     Y satisfies the reduct of r w.r.t. X (rsat X Y r): if the body holds, a disjunctive head has an atom in Y, and of a
     choice head every atom that is in X is in Y;
     X is stable iff X satisfies its own reduct and no Y strictly below X does.
   Externals: an atom that no rule defines and that is declared external is free (a choice) / true (a fact) / false or
   released (nothing), the last declaration counting.  Compute/assume statements filter.  Minimize: cost per priority.
   Shown names: the names whose condition holds.                                                                       *)
Require Import V.Lib.Base V.Lib.Calls.
Local Open Scope Z_scope.

Definition interp := Z -> bool.
Definition holds (X : interp) (l : Z) : bool := if l <? 0 then negb (X (- l)) else X l.
Definition rholds (X Y : interp) (l : Z) : bool := if l <? 0 then negb (X (- l)) else Y l.

Inductive body := BNormal (ls : list Z) | BSum (bound : Z) (wls : list (Z * Z)).
Record rule := mkRule { r_choice : bool; r_head : list Z; r_body : body }.

Fixpoint wsum (f : Z -> bool) (wls : list (Z * Z)) : Z :=
  match wls with [] => 0 | (l, w) :: r => (if f l then w else 0) + wsum f r end.

Definition bsat (X Y : interp) (b : body) : bool :=
  match b with
  | BNormal ls => forallb (rholds X Y) ls
  | BSum bd wls => bd <=? wsum (rholds X Y) wls
  end.

Definition rsat (X Y : interp) (r : rule) : Prop :=
  bsat X Y (r_body r) = true ->
  if r_choice r then forall h, In h (r_head r) -> X h = true -> Y h = true
  else exists h, In h (r_head r) /\ Y h = true.

Definition sub (Y X : interp) : Prop := forall a, Y a = true -> X a = true.
Definition red_model (P : list rule) (X Y : interp) : Prop := forall r, In r P -> rsat X Y r.
Definition stable (P : list rule) (X : interp) : Prop :=
  red_model P X X /\ forall Y, sub Y X -> red_model P X Y -> sub X Y.

(* ---- programs as delivered through the AbstractProgram interface (one step) ---- *)
Record program := mkP {
  p_rules : list rule;
  p_ext : list (Z * Z);                (* external declarations in order: (atom, value) *)
  p_assume : list Z;
  p_min : list (Z * list (Z * Z));     (* minimize statements in order: (priority, weighted literals) *)
  p_out : list (list Z * list Z) }.    (* (name, condition) *)

Definition add_call (P : program) (c : call) : program :=
  match c with
  | CRule ht h b => mkP (p_rules P ++ [mkRule (ht =? 1) h (BNormal b)]) (p_ext P) (p_assume P) (p_min P) (p_out P)
  | CWRule ht h bd b => mkP (p_rules P ++ [mkRule (ht =? 1) h (BSum bd b)]) (p_ext P) (p_assume P) (p_min P) (p_out P)
  | CExternal a v => mkP (p_rules P) (p_ext P ++ [(a, v)]) (p_assume P) (p_min P) (p_out P)
  | CAssume ls => mkP (p_rules P) (p_ext P) (p_assume P ++ ls) (p_min P) (p_out P)
  | CMin p ls => mkP (p_rules P) (p_ext P) (p_assume P) (p_min P ++ [(p, ls)]) (p_out P)
  | COutput n c => mkP (p_rules P) (p_ext P) (p_assume P) (p_min P) (p_out P ++ [(n, c)])
  | _ => P
  end.
Definition of_calls (cs : list call) : program := fold_left add_call cs (mkP [] [] [] [] []).

Definition in_head (P : list rule) (a : Z) : bool := existsb (fun r => existsb (Z.eqb a) (r_head r)) P.
Fixpoint ext_value (a : Z) (es : list (Z * Z)) (cur : option Z) : option Z :=
  match es with [] => cur | (b, v) :: r => ext_value a r (if b =? a then Some v else cur) end.
(* the rules that stand for the external declarations: value 0 = free, 1 = true, 2 = false, 3 = release *)
Definition ext_rule (P : program) (a : Z) : list rule :=
  if in_head (p_rules P) a then [] else
  match ext_value a (p_ext P) None with
  | Some 0 => [mkRule true [a] (BNormal [])]
  | Some 1 => [mkRule false [a] (BNormal [])]
  | _ => []
  end.
Definition ext_rules (P : program) : list rule := flat_map (ext_rule P) (nodup Z.eq_dec (map fst (p_ext P))).

Definition answer (P : program) (X : interp) : Prop :=
  stable (p_rules P ++ ext_rules P) X /\ forallb (holds X) (p_assume P) = true.

Fixpoint cost (ms : list (Z * list (Z * Z))) (prio : Z) (X : interp) : Z :=
  match ms with
  | [] => 0
  | (p, ls) :: r => (if p =? prio then wsum (holds X) ls else 0) + cost r prio X
  end.

Definition shown (P : program) (X : interp) (n : list Z) : Prop :=
  exists c, In (n, c) (p_out P) /\ forallb (holds X) c = true.

(* ---- brute force over a finite atom list (SEARCH ONLY: used to look for counterexamples, never as a proof) ---- *)
Definition of_list (l : list Z) : interp := fun a => existsb (Z.eqb a) l.
Fixpoint sublists (l : list Z) : list (list Z) :=
  match l with [] => [[]] | a :: r => let s := sublists r in s ++ map (cons a) s end.
Definition rsatb (X Y : interp) (r : rule) : bool :=
  negb (bsat X Y (r_body r)) ||
  (if r_choice r then forallb (fun h => negb (X h) || Y h) (r_head r) else existsb Y (r_head r)).
Definition red_modelb (P : list rule) (X Y : interp) : bool := forallb (rsatb X Y) P.
Definition stableb (P : list rule) (xs : list Z) : bool :=
  red_modelb P (of_list xs) (of_list xs) &&
  forallb (fun ys => negb (red_modelb P (of_list xs) (of_list ys)) || (length xs <=? length ys)%nat) (sublists xs).
Definition enum_stable (atoms : list Z) (P : list rule) : list (list Z) := filter (stableb P) (sublists atoms).
