(* C02 - specification-side definitions (no proofs): the converter composed with the smodels writer's
   acceptance automaton, the AbstractProgram protocol, and the independent statement of which input
   calls smodels format cannot carry in a given mode. *)
Require Import V.Lib.Base V.Lib.Calls V.Gen.Consts V.Gen.Consts_C02 V.C02.Model.
Local Open Scope Z_scope.

(* SmodelsConvert(out = SmodelsOutput(os, ext, 0), ext): Err as soon as the converter or the writer throws *)
Fixpoint conv_write (ext : bool) (s : cv) (w : sw) (p : list call) : result (cv * sw * list call) :=
  match p with
  | [] => Ok (s, w, [])
  | c :: r =>
      match cv_call ext s c with
      | Err e => Err e
      | Ok (s1, cs) =>
          let '(w1, acc, ok) := sw_calls ext w cs in
          if ok then
            match conv_write ext s1 w1 r with
            | Err e => Err e
            | Ok (s2, w2, o) => Ok (s2, w2, cs ++ o)
            end
          else Err E_LOGIC
      end
  end.

(* what smodels format (with / without the clasp extensions) cannot carry *)
Definition unsupported (ext : bool) (c : call) : bool :=
  match c with
  | CProject _ | CAssume _ | CTNum _ _ | CTSym _ _ | CTComp _ _ _ | CTElem _ _ _ | CTAtom _ _ _ | CTAtomG _ _ _ _ _ => true
  | CHeuristic _ _ _ _ _ | CEdge _ _ _ => negb ext
  | CInit i => i && negb ext
  | CWRule ht h bd _ => (bd <? 0) && (negb (match h with [] => true | _ => false end) || (ht =? Head_t_Disjunctive))
  | CMin _ ls => existsb (fun lw => snd lw =? INT_MIN) ls
  | _ => false
  end.

(* the AbstractProgram protocol: initProgram, then per step beginStep, directives, endStep.
   phase 0 = before init, 1 = between steps, 2 = inside a step; every prefix of a valid trace is valid *)
Definition phase_step (ph : Z) (c : call) : option Z :=
  match c with
  | CInit _ => if ph =? 0 then Some 1 else None
  | CBegin => if ph =? 1 then Some 2 else None
  | CEnd => if ph =? 2 then Some 1 else None
  | _ => if ph =? 2 then Some 2 else None
  end.
Fixpoint wf_from (ph : Z) (p : list call) : bool :=
  match p with
  | [] => true
  | c :: r => match phase_step ph c with Some ph' => wf_from ph' r | None => false end
  end.
