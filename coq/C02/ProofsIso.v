(* C02 - semantic building blocks over the reference semantics (independent of the converter model):
   rename_iso: renaming the atoms of a program by a map that is injective on them is a bijection on stable models. *)
Require Import V.Lib.Base V.C02.Sem.
Require Import ZifyBool.
Local Open Scope Z_scope.

Section Rename.
Variable m : Z -> Z.
Variable atoms : list Z.
Hypothesis m_inj : forall a b, In a atoms -> In b atoms -> m a = m b -> a = b.
Hypothesis m_pos : forall a, In a atoms -> 0 < a /\ 0 < m a.

Definition rn_lit (l : Z) : Z := if l <? 0 then - m (- l) else m l.
Definition rn_body (b : body) : body :=
  match b with
  | BNormal ls => BNormal (map rn_lit ls)
  | BSum bd wls => BSum bd (map (fun lw => (rn_lit (fst lw), snd lw)) wls)
  end.
Definition rn_rule (r : rule) : rule := mkRule (r_choice r) (map m (r_head r)) (rn_body (r_body r)).

Definition inb (a : Z) : bool := existsb (Z.eqb a) atoms.
Definition push (X : interp) : interp := fun x => existsb (fun a => (m a =? x) && X a) atoms.
Definition pull (X' : interp) : interp := fun a => inb a && X' (m a).

Definition lit_in (l : Z) : Prop := In (Z.abs l) atoms.
Definition body_in (b : body) : Prop :=
  match b with BNormal ls => Forall lit_in ls | BSum _ wls => Forall (fun lw => lit_in (fst lw)) wls end.
Definition rule_in (r : rule) : Prop := Forall (fun a => In a atoms) (r_head r) /\ body_in (r_body r).

Definition agree (X X' : interp) : Prop := forall a, In a atoms -> X' (m a) = X a.

Lemma inb_In a : inb a = true <-> In a atoms.
Proof.
  unfold inb. rewrite existsb_exists. split.
  - intros [x [H1 H2]]. apply Z.eqb_eq in H2. subst. exact H1.
  - intros H. exists a. split; [exact H | apply Z.eqb_refl].
Qed.

Lemma push_true X x : push X x = true <-> exists a, In a atoms /\ m a = x /\ X a = true.
Proof.
  unfold push. rewrite existsb_exists. split.
  - intros [a [H1 H2]]. apply andb_true_iff in H2 as [H2 H3]. apply Z.eqb_eq in H2. exists a. auto.
  - intros [a [H1 [H2 H3]]]. exists a. split; [exact H1|]. rewrite H3, andb_true_r. apply Z.eqb_eq. exact H2.
Qed.

Lemma agree_push X : agree X (push X).
Proof.
  intros a Ha. apply eq_iff_eq_true. rewrite push_true. split.
  - intros [b [Hb [E Xb]]]. rewrite <- (m_inj b a Hb Ha E). exact Xb.
  - intros Xa. exists a. auto.
Qed.

Lemma agree_pull X' : agree (pull X') X'.
Proof. intros a Ha. unfold pull. apply inb_In in Ha. rewrite Ha. reflexivity. Qed.

Lemma rholds_rn X X' Y Y' l : lit_in l -> agree X X' -> agree Y Y' -> rholds X' Y' (rn_lit l) = rholds X Y l.
Proof.
  unfold lit_in, rholds, rn_lit. intros Hl AX AY. destruct (Z.ltb_spec l 0).
  - replace (Z.abs l) with (- l) in Hl by lia. destruct (m_pos _ Hl) as [_ P].
    replace (- m (- l) <? 0) with true by lia. rewrite Z.opp_involutive. rewrite (AX _ Hl). reflexivity.
  - replace (Z.abs l) with l in Hl by lia. destruct (m_pos _ Hl) as [_ P].
    replace (m l <? 0) with false by lia. apply AY. exact Hl.
Qed.

Lemma bsat_rn X X' Y Y' b : body_in b -> agree X X' -> agree Y Y' -> bsat X' Y' (rn_body b) = bsat X Y b.
Proof.
  intros Hb AX AY. destruct b as [ls|bd wls]; simpl in *.
  - induction Hb as [|l r Hl Hr IH]; simpl; [reflexivity|]. rewrite IH, (rholds_rn X X' Y Y' l Hl AX AY). reflexivity.
  - f_equal. induction Hb as [|[l w] r Hl Hr IH]; simpl; [reflexivity|]. simpl in Hl.
    rewrite IH, (rholds_rn X X' Y Y' l Hl AX AY). reflexivity.
Qed.

Lemma rsat_rn X X' Y Y' r : rule_in r -> agree X X' -> agree Y Y' -> (rsat X' Y' (rn_rule r) <-> rsat X Y r).
Proof.
  intros [Hh Hb] AX AY. unfold rsat. simpl. rewrite (bsat_rn X X' Y Y' _ Hb AX AY).
  rewrite Forall_forall in Hh.
  destruct (r_choice r).
  - split; intros H B.
    + intros h Hin Xh. rewrite <- (AY h (Hh h Hin)). apply (H B).
      * apply in_map. exact Hin.
      * rewrite (AX h (Hh h Hin)). exact Xh.
    + intros h' Hin Xh. apply in_map_iff in Hin as [h [<- Hin]].
      rewrite (AY h (Hh h Hin)). apply (H B h Hin). rewrite <- (AX h (Hh h Hin)). exact Xh.
  - split; intros H B.
    + destruct (H B) as [h' [Hin Yh]]. apply in_map_iff in Hin as [h [<- Hin]].
      exists h. split; [exact Hin|]. rewrite <- (AY h (Hh h Hin)). exact Yh.
    + destruct (H B) as [h [Hin Yh]]. exists (m h). split; [apply in_map; exact Hin|].
      rewrite (AY h (Hh h Hin)). exact Yh.
Qed.

Lemma red_model_rn P X X' Y Y' : Forall rule_in P -> agree X X' -> agree Y Y' ->
  (red_model (map rn_rule P) X' Y' <-> red_model P X Y).
Proof.
  intros HP AX AY. rewrite Forall_forall in HP. unfold red_model. split; intros H r Hr.
  - apply (rsat_rn X X' Y Y' r (HP r Hr) AX AY). apply H. apply in_map. exact Hr.
  - apply in_map_iff in Hr as [r0 [<- Hr]]. apply (rsat_rn X X' Y Y' r0 (HP r0 Hr) AX AY). apply H. exact Hr.
Qed.

Lemma rename_sound P X : Forall rule_in P -> stable P X -> stable (map rn_rule P) (push X).
Proof.
  intros HP [M Min]. split.
  - apply (red_model_rn P X (push X) X (push X) HP (agree_push X) (agree_push X)). exact M.
  - intros Y' Hsub HM.
    assert (HMY : red_model P X (pull Y')).
    { apply (red_model_rn P X (push X) (pull Y') Y' HP (agree_push X) (agree_pull Y')). exact HM. }
    assert (Hs : sub (pull Y') X).
    { intros a Ha. unfold pull in Ha. apply andb_true_iff in Ha as [Ia Ya]. apply inb_In in Ia.
      rewrite <- (agree_push X a Ia). apply Hsub. exact Ya. }
    pose proof (Min _ Hs HMY) as HX.
    intros x Hx. apply push_true in Hx as [a [Ia [<- Xa]]].
    specialize (HX a Xa). unfold pull in HX. apply andb_true_iff in HX as [_ HX]. exact HX.
Qed.

Lemma rename_complete P X' : Forall rule_in P -> stable (map rn_rule P) X' -> stable P (pull X').
Proof.
  intros HP [M Min]. split.
  - apply (red_model_rn P (pull X') X' (pull X') X' HP (agree_pull X') (agree_pull X')). exact M.
  - intros Y Hsub HM.
    assert (HMY : red_model (map rn_rule P) X' (push Y)).
    { apply (red_model_rn P (pull X') X' Y (push Y) HP (agree_pull X') (agree_push Y)). exact HM. }
    assert (Hs : sub (push Y) X').
    { intros x Hx. apply push_true in Hx as [a [Ia [<- Ya]]].
      specialize (Hsub a Ya). unfold pull in Hsub. apply andb_true_iff in Hsub as [_ H]. exact H. }
    pose proof (Min _ Hs HMY) as HX.
    intros a Ha. unfold pull in Ha. apply andb_true_iff in Ha as [Ia Xa]. apply inb_In in Ia.
    rewrite <- (agree_push Y a Ia). apply HX. exact Xa.
Qed.

Lemma pull_push X a : (forall b, X b = true -> In b atoms) -> pull (push X) a = X a.
Proof.
  intros HX. unfold pull. destruct (inb a) eqn:Ia.
  - apply inb_In in Ia. simpl. apply agree_push. exact Ia.
  - simpl. destruct (X a) eqn:Xa; [|reflexivity]. apply HX, inb_In in Xa. congruence.
Qed.

Lemma push_pull X' x : (forall y, X' y = true -> exists a, In a atoms /\ m a = y) -> push (pull X') x = X' x.
Proof.
  intros HX. apply eq_iff_eq_true. rewrite push_true. split.
  - intros [a [Ia [<- Pa]]]. unfold pull in Pa. apply andb_true_iff in Pa as [_ H]. exact H.
  - intros Hx. destruct (HX x Hx) as [a [Ia <-]]. exists a. split; [exact Ia|]. split; [reflexivity|].
    unfold pull. apply inb_In in Ia. rewrite Ia. exact Hx.
Qed.
End Rename.

(* ---- an integrity constraint `:- B` is `f :- B` plus the compute statement `not f` (f fresh) ---- *)
Definition body_atoms (b : body) : list Z :=
  match b with BNormal ls => map Z.abs ls | BSum _ wls => map (fun lw => Z.abs (fst lw)) wls end.
Definition rule_atoms (r : rule) : list Z := r_head r ++ body_atoms (r_body r).
Definition fresh (f : Z) (P : list rule) : Prop := forall r, In r P -> ~ In f (rule_atoms r).

(* SmData::mapHead replaces an empty (disjunctive) head by the false atom f; the compute statement says `not f` *)
Definition is_nil {A} (l : list A) : bool := match l with [] => true | _ => false end.
Definition fix_empty (f : Z) (r : rule) : rule :=
  if negb (r_choice r) && is_nil (r_head r) then mkRule false [f] (r_body r) else r.

Lemma rsat_fix_empty f X Y r : Y f = false -> (rsat X Y (fix_empty f r) <-> rsat X Y r).
Proof.
  intros Yf. unfold fix_empty. destruct (r_choice r) eqn:Ec; simpl; [tauto|].
  destruct (r_head r) as [|h t] eqn:Eh; simpl; [|tauto].
  unfold rsat; simpl. rewrite Ec, Eh. split; intros H B; destruct (H B) as [h [Hin Yh]].
  - destruct Hin as [<-|[]]. congruence.
  - destruct Hin.
Qed.

Lemma constraint_false f P X : X f = false -> (stable (map (fix_empty f) P) X <-> stable P X).
Proof.
  intros Xf.
  assert (E : forall Y, sub Y X -> (red_model (map (fix_empty f) P) X Y <-> red_model P X Y)).
  { intros Y HY. assert (Yf : Y f = false) by (destruct (Y f) eqn:E; [apply HY in E; congruence | reflexivity]).
    unfold red_model. split; intros H r Hr.
    - apply (rsat_fix_empty f X Y r Yf). apply H. apply in_map. exact Hr.
    - apply in_map_iff in Hr as [r0 [<- Hr]]. apply (rsat_fix_empty f X Y r0 Yf). apply H. exact Hr. }
  unfold stable. split; intros [M Min]; (split; [apply (E X); [intros a Ha; exact Ha | exact M]|]);
    intros Y HY HM; apply Min; try exact HY; apply (E Y HY); exact HM.
Qed.

(* a choice rule with an empty head says nothing (SmodelsConvert::rule drops it) *)
Lemma empty_choice_vacuous X Y b : rsat X Y (mkRule true [] b).
Proof. unfold rsat; simpl. intros _ h []. Qed.
