(* C02 - the end-to-end statements over whole programs  initProgram; (beginStep; directives; endStep)+  run through the
   converter from its initial state: one step with heuristic / edge directives, several steps (every prefix of steps), the
   status of externals, both modes together, and the witness that the remaining accepted shape (extensions off, several
   steps after initProgram(false): outside the AbstractProgram contract) does not preserve answer sets. *)
Require Import V.Lib.Base V.Lib.Calls V.Gen.Consts V.Gen.Consts_C02 V.C02.Model V.C02.Spec V.C02.Sem V.C02.ProofsMap V.C02.ProofsErr
  V.C02.ProofsSem V.C02.ProofsIso V.C02.ProofsShape V.C02.ProofsDefExt V.C02.ProofsWeight V.C02.ProofsOutput V.C02.ProofsExt
  V.C02.ProofsCompose V.C02.ProofsCore V.C02.ProofsHeu V.C02.ProofsSteps.
Require Import ZifyBool.
Local Open Scope Z_scope.

Lemma of_calls_init i l : of_calls (CInit i :: l) = of_calls l.
Proof. reflexivity. Qed.
Lemma of_calls_begin l : of_calls (CBegin :: l) = of_calls l.
Proof. reflexivity. Qed.

Lemma cv_run_app_intro ext p1 : forall p2 s s1 o1 s2 o2,
  cv_run ext s p1 = Ok (s1, o1) -> cv_run ext s1 p2 = Ok (s2, o2) -> cv_run ext s (p1 ++ p2) = Ok (s2, o1 ++ o2).
Proof.
  induction p1 as [|c r IH]; intros p2 s s1 o1 s2 o2 H1 H2; simpl in *.
  - inversion H1; subst. exact H2.
  - destruct (cv_call ext s c) as [[sa oa]|]; [|discriminate].
    destruct (cv_run ext sa r) as [[sb ob]|] eqn:E; [|discriminate]. inversion H1; subst.
    rewrite (IH p2 sa s1 ob s2 o2 E H2). rewrite app_assoc. reflexivity.
Qed.

Lemma body_app a b : body (a ++ b) = body a ++ body b.
Proof. unfold body. apply flat_map_app. Qed.

Lemma fresh_cv0 : fresh_step cv0.
Proof. repeat split. Qed.

(* the conclusion shared by the positive theorems: acc = accumulated input, out = what was emitted for it, m = atom map *)
Definition equiv_mod (hn : list Z -> Prop) (m : Z -> Z) (atoms : list Z) (acc out : list call) : Prop :=
  let Pin := of_calls acc in let Pout := of_calls out in
  exists fw : interp -> interp,
    (forall a b, In a atoms -> In b atoms -> m a = m b -> a = b) /\
    (forall X, answer Pin X ->
       answer Pout (fw X) /\ (forall a, In a atoms -> fw X (m a) = X a) /\
       (forall n, ~ hn n -> (shown Pin X n <-> shown Pout (fw X) n)) /\
       (forall prio, cost (p_min Pout) prio (fw X) = cost (p_min Pin) prio X - negs acc prio)) /\
    (forall X', answer Pout X' -> answer Pin (pull m atoms X') /\ forall y, fw (pull m atoms X') y = X' y) /\
    (forall X a, answer Pin X -> pull m atoms (fw X) a = X a).
Definition status_same (m : Z -> Z) (atoms : list Z) (acc out : list call) : Prop :=
  let Pin := of_calls acc in let Pout := of_calls out in
  (forall a, m a <> 0 -> ext_status Pout (m a) = ext_status Pin a) /\
  (forall y w, ext_status Pout y = Some w -> exists a, y = m a /\ In a atoms /\ ext_status Pin a = Some w) /\
  (forall a w, ext_status Pin a = Some w -> In a atoms /\ m a <> 0).

(* ---- (1) one step with heuristic / edge directives, extensions on, from any fresh state ---- *)
Theorem equiv_heu_step ds s0 s1 o1 s2 o2 :
  forallb okx ds = true -> Forall call_wfX ds -> Inv s0 -> fresh_step s0 ->
  cv_run true s0 ds = Ok (s1, o1) -> cv_call true s1 CEnd = Ok (s2, o2) -> next s2 <= SMID_MOD ->
  equiv_mod helper_name (img s2) (xatoms (img s2) ds) ds (o1 ++ o2) /\
  status_same (img s2) (xatoms (img s2) ds) ds (o1 ++ o2).
Proof.
  intros HO HW HI HF Hrun Hend HB.
  assert (R : cv_run true s0 (body [ds]) = Ok (s2, CBegin :: o1 ++ o2)).
  { unfold body. cbn [flat_map]. rewrite app_nil_r. cbn [cv_run cv_call].
    rewrite (cv_run_app_intro true ds [CEnd] s0 s1 o1 s2 o2 Hrun); [reflexivity|].
    cbn [cv_run]. rewrite Hend. rewrite app_nil_r. reflexivity. }
  pose proof (steps_equiv_status [ds] s0 s2 (CBegin :: o1 ++ o2) s2 ltac:(discriminate)
                (Forall_cons _ HO (Forall_nil _)) (Forall_cons _ HW (Forall_nil _)) HI HF R (good_refl s2) HB) as Q.
  cbn [concat] in Q. rewrite app_nil_r in Q. rewrite of_calls_begin in Q. exact Q.
Qed.

(* ---- (2) several steps: the whole program from the converter's initial state, every prefix of steps ---- *)
Theorem equiv_steps inc pre post s out :
  pre <> [] -> Forall (fun ds => forallb okx ds = true) (pre ++ post) -> Forall (Forall call_wfX) (pre ++ post) ->
  cv_run true cv0 (CInit inc :: body (pre ++ post)) = Ok (s, out) -> next s <= SMID_MOD ->
  exists sk outk rest, cv_run true cv0 (CInit inc :: body pre) = Ok (sk, outk) /\ out = outk ++ rest /\
    (forall a, img sk a <> 0 -> img s a = img sk a) /\
    equiv_mod helper_name (img s) (xatoms (img s) (concat pre)) (concat pre) outk /\
    status_same (img s) (xatoms (img s) (concat pre)) (concat pre) outk.
Proof.
  intros HNE HO HW Hrun HB. rewrite body_app in Hrun. cbn [cv_run cv_call] in Hrun.
  destruct (cv_run true cv0 (body pre ++ body post)) as [[sx ox]|] eqn:E; [|discriminate]. inversion Hrun; subst. clear Hrun.
  destruct (cv_run_app true (body pre) (body post) cv0 s ox E) as [sk [ok [orest [E1 [E2 ->]]]]].
  assert (Gk : good sk s) by (eapply good_cv_run; exact E2).
  assert (G0 : good cv0 sk) by (eapply good_cv_run; exact E1).
  assert (Bk : next sk <= SMID_MOD) by (pose proof (good_next _ _ Gk); lia).
  assert (Ik : Inv sk) by (apply (Inv_of_good _ _ G0 Inv_cv0 Bk)).
  apply Forall_app in HO as [HO1 _]. apply Forall_app in HW as [HW1 _].
  exists sk, (CInit inc :: ok), orest. split; [cbn [cv_run cv_call]; rewrite E1; reflexivity|]. split; [reflexivity|].
  split; [destruct Gk as [_ Gk]; destruct (Gk Ik HB) as [_ [K _]]; exact K|].
  pose proof (steps_equiv_status pre cv0 sk ok s HNE HO1 HW1 Inv_cv0 fresh_cv0 E1 Gk HB) as Q.
  unfold equiv_mod, status_same. rewrite of_calls_init. exact Q.
Qed.

(* ---- both modes: extensions on (any number of steps, all seven directive kinds), extensions off (the single step) ---- *)
Theorem equiv_noext_program ds s out :
  forallb okc ds = true -> Forall call_wf ds ->
  cv_run false cv0 (CInit false :: body [ds]) = Ok (s, out) -> next s <= SMID_MOD ->
  equiv_mod (fun _ => False) (img s) (step_atoms (img s) ds) ds out.
Proof.
  intros HO HW Hrun HB. unfold body in Hrun. cbn [flat_map] in Hrun. rewrite app_nil_r in Hrun. cbn [cv_run cv_call] in Hrun.
  destruct (cv_run false cv0 (ds ++ [CEnd])) as [[sx ox]|] eqn:E; [|discriminate]. inversion Hrun; subst. clear Hrun.
  destruct (cv_run_app false ds [CEnd] cv0 s ox E) as [s1 [o1 [o2' [E1 [E2 ->]]]]].
  cbn [cv_run] in E2. destruct (cv_call false s1 CEnd) as [[s2 o2]|] eqn:Ec; [|discriminate]. inversion E2; subst. clear E2.
  rewrite app_nil_r.
  destruct (equiv_step false ds cv0 s1 o1 s o2 HO HW Inv_cv0 fresh_cv0 E1 Ec HB) as [fw [C1 [C2 [C3 C4]]]].
  unfold equiv_mod. rewrite of_calls_init, of_calls_begin. exists fw. split; [exact C1|]. split; [|split; [exact C3 | exact C4]].
  intros X HA. destruct (C2 X HA) as [D1 [D2 [D3 D4]]]. split; [exact D1|]. split; [exact D2|]. split; [|exact D4].
  intros n _. apply D3.
Qed.

(* ---- the accepted shape that is NOT covered: extensions off, initProgram(false), two steps.  The writer does not reject it
   (c02_errors: no unsupported call), but it is outside the AbstractProgram contract (a non-incremental program has one
   step) and the conversion is not equivalence-preserving there: the choice rule that step 1 emitted for the free external
   stays although step 2 defines the atom. ---- *)
Definition refute_prog : list call := [CInit false; CBegin; CExternal 1 0; CEnd; CBegin; CRule 0 [1] [2]; CEnd].
Definition refute_in : list call := [CExternal 1 0; CRule 0 [1] [2]].

Theorem noext_steps_refuted :
  wf_from 0 refute_prog = true /\ existsb (unsupported false) refute_prog = false /\
  exists s w out, conv_write false cv0 sw0 refute_prog = Ok (s, w, out) /\ next s <= SMID_MOD /\ img s 1 = 2 /\
    (exists X', answer (of_calls out) X' /\ X' (img s 1) = true) /\
    (forall X, answer (of_calls refute_in) X -> X 1 = false).
Proof.
  split; [reflexivity|]. split; [reflexivity|].
  do 3 eexists. split; [vm_compute; reflexivity|]. split; [vm_compute; discriminate|]. split; [reflexivity|]. split.
  - exists (fun a => a =? 2). split; [|reflexivity].
    assert (EP : of_calls
      [CInit false; CBegin; CRule Head_t_Choice [2] []; CAssume [-1]; CEnd; CBegin; CRule 0 [2] [3]; CAssume [-1]; CEnd] =
      mkP [mkRule true [2] (BNormal []); mkRule false [2] (BNormal [3])] [] [-1; -1] [] []) by reflexivity.
    match goal with |- answer (of_calls ?o) _ => change o with
      [CInit false; CBegin; CRule Head_t_Choice [2] []; CAssume [-1]; CEnd; CBegin; CRule 0 [2] [3]; CAssume [-1]; CEnd] end.
    rewrite EP. unfold answer. split; [|reflexivity]. cbn [p_rules]. unfold ext_rules. cbn [p_ext map nodup flat_map app].
    split.
    + intros r [<-|[<-|[]]]; unfold rsat; simpl.
      * intros _ h [<-|[]] H. exact H.
      * discriminate.
    + intros Y _ RM a Ha. apply Z.eqb_eq in Ha. subst a.
      pose proof (RM (mkRule true [2] (BNormal [])) (or_introl eq_refl)) as R. unfold rsat in R. simpl in R.
      apply (R eq_refl 2); [left; reflexivity | reflexivity].
  - intros X [[M Min] _].
    assert (EP : of_calls refute_in = mkP [mkRule false [1] (BNormal [2])] [(1, 0)] [] [] []) by reflexivity.
    rewrite EP in Min. cbn [p_rules] in Min.
    assert (EE : ext_rules (mkP [mkRule false [1] (BNormal [2])] [(1, 0)] [] [] []) = []) by reflexivity.
    rewrite EE, app_nil_r in Min.
    destruct (X 1) eqn:X1; [|reflexivity]. exfalso.
    assert (S : sub (fun _ => false) X) by (intros a Ha; discriminate).
    assert (RM : red_model [mkRule false [1] (BNormal [2])] X (fun _ => false)).
    { intros r [<-|[]]. unfold rsat. simpl. discriminate. }
    pose proof (Min _ S RM 1 X1). discriminate.
Qed.

(* ---- shape of a heuristic / edge call, and what the helper names look like ---- *)
Lemma heu_edge_shape sf s c s1 out :
  is_heu c || is_edge c = true -> cv_call true s c = Ok (s1, out) -> Inv s -> good s1 sf -> next sf <= SMID_MOD ->
  shapeX (img sf) s s1 sf c out.
Proof. destruct c; try discriminate; intros _; [apply heu_call_shape | apply edge_call_shape]. Qed.

Lemma helper_underscore n : helper_name n -> hd 0 n = 95.
Proof. intros [[k ->]|[[x [y ->]]|[nm [t [b [p ->]]]]]]; reflexivity. Qed.

(* ---- (3) externals: same status and value, in corresponding models the same truth value ---- *)
Theorem steps_external_status inc pre post s out :
  pre <> [] -> Forall (fun ds => forallb okx ds = true) (pre ++ post) -> Forall (Forall call_wfX) (pre ++ post) ->
  cv_run true cv0 (CInit inc :: body (pre ++ post)) = Ok (s, out) -> next s <= SMID_MOD ->
  exists sk outk rest, cv_run true cv0 (CInit inc :: body pre) = Ok (sk, outk) /\ out = outk ++ rest /\
    let m := img s in let acc := concat pre in let Pin := of_calls acc in let Pout := of_calls outk in
    let atoms := xatoms m acc in
    (forall a w, ext_status Pin a = Some w -> In a atoms /\ m a <> 0 /\ ext_status Pout (m a) = Some w) /\
    (forall y w, ext_status Pout y = Some w -> exists a, y = m a /\ In a atoms /\ ext_status Pin a = Some w) /\
    (forall a, m a <> 0 -> ext_status Pin a = None -> ext_status Pout (m a) = None) /\
    (forall X X' : interp, (forall a, In a atoms -> X' (m a) = X a) -> forall a w, ext_status Pin a = Some w -> X' (m a) = X a).
Proof.
  intros HNE HO HW Hrun HB.
  destruct (equiv_steps inc pre post s out HNE HO HW Hrun HB) as [sk [outk [rest [E1 [E2 [_ [_ [S1 [S2 S3]]]]]]]]].
  exists sk, outk, rest. split; [exact E1|]. split; [exact E2|]. cbv zeta. split; [|split; [exact S2|split]].
  - intros a w H. destruct (S3 a w H) as [Ia Na]. split; [exact Ia|]. split; [exact Na|]. rewrite (S1 a Na). exact H.
  - intros a Na H. rewrite (S1 a Na). exact H.
  - intros X X' AG a w H. apply AG. apply (S3 a w H).
Qed.

(* ---- (4) everything together ---- *)
Theorem equiv_all :
  (forall inc pre post s out,
     pre <> [] -> Forall (fun ds => forallb okx ds = true) (pre ++ post) -> Forall (Forall call_wfX) (pre ++ post) ->
     cv_run true cv0 (CInit inc :: body (pre ++ post)) = Ok (s, out) -> next s <= SMID_MOD ->
     exists sk outk rest, cv_run true cv0 (CInit inc :: body pre) = Ok (sk, outk) /\ out = outk ++ rest /\
       (forall a, img sk a <> 0 -> img s a = img sk a) /\
       equiv_mod helper_name (img s) (xatoms (img s) (concat pre)) (concat pre) outk /\
       status_same (img s) (xatoms (img s) (concat pre)) (concat pre) outk) /\
  (forall ds s out,
     forallb okc ds = true -> Forall call_wf ds ->
     cv_run false cv0 (CInit false :: body [ds]) = Ok (s, out) -> next s <= SMID_MOD ->
     equiv_mod (fun _ => False) (img s) (step_atoms (img s) ds) ds out).
Proof. split; [exact equiv_steps | exact equiv_noext_program]. Qed.

(* (B) with the shown-name clause for ALL names spelled out *)
Theorem equiv_noext_clean ds s out :
  forallb okc ds = true -> Forall call_wf ds ->
  cv_run false cv0 (CInit false :: body [ds]) = Ok (s, out) -> next s <= SMID_MOD ->
  let m := img s in let Pin := of_calls ds in let Pout := of_calls out in let atoms := step_atoms m ds in
  exists fw : interp -> interp,
    (forall a b, In a atoms -> In b atoms -> m a = m b -> a = b) /\
    (forall X, answer Pin X ->
       answer Pout (fw X) /\ (forall a, In a atoms -> fw X (m a) = X a) /\
       (forall n, shown Pin X n <-> shown Pout (fw X) n) /\
       (forall prio, cost (p_min Pout) prio (fw X) = cost (p_min Pin) prio X - negs ds prio)) /\
    (forall X', answer Pout X' -> answer Pin (pull m atoms X') /\ forall y, fw (pull m atoms X') y = X' y) /\
    (forall X a, answer Pin X -> pull m atoms (fw X) a = X a).
Proof.
  intros HO HW Hrun HB. destruct (equiv_noext_program ds s out HO HW Hrun HB) as [fw [C1 [C2 [C3 C4]]]].
  exists fw. split; [exact C1|]. split; [|split; [exact C3 | exact C4]].
  intros X HA. destruct (C2 X HA) as [D1 [D2 [D3 D4]]]. split; [exact D1|]. split; [exact D2|]. split; [|exact D4].
  intros n. apply D3. tauto.
Qed.
