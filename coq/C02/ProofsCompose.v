(* C02 - composition: one whole step (directives, then endStep) through the converter model against the reference
   semantics: answer sets, shown names, cost. *)
Require Import V.Lib.Base V.Lib.Calls V.Gen.Consts V.Gen.Consts_C02 V.C02.Model V.C02.Sem V.C02.ProofsMap V.C02.ProofsErr
  V.C02.ProofsSem V.C02.ProofsIso V.C02.ProofsShape V.C02.ProofsDefExt V.C02.ProofsWeight V.C02.ProofsOutput V.C02.ProofsExt.
Require Import ZifyBool.
Local Open Scope Z_scope.

(* ---- the program a call sequence denotes, field by field ---- *)
Definition asm_of (cs : list call) : list Z := flat_map (fun c => match c with CAssume l => l | _ => [] end) cs.
Definition mins_of (cs : list call) : list (Z * list (Z * Z)) :=
  flat_map (fun c => match c with CMin p l => [(p, l)] | _ => [] end) cs.
Definition outs_of (cs : list call) : list (list Z * list Z) :=
  flat_map (fun c => match c with COutput n c => [(n, c)] | _ => [] end) cs.

Lemma of_calls_gen cs : forall P, fold_left add_call cs P =
  mkP (p_rules P ++ rules_of cs) (p_ext P ++ decls cs) (p_assume P ++ asm_of cs) (p_min P ++ mins_of cs) (p_out P ++ outs_of cs).
Proof.
  induction cs as [|c r IH]; intros P.
  - simpl. rewrite !app_nil_r. destruct P; reflexivity.
  - cbn [fold_left]. rewrite IH.
    change (c :: r) with ([c] ++ r). rewrite rules_of_app. unfold decls, asm_of, mins_of, outs_of. rewrite !flat_map_app.
    destruct P; destruct c; simpl; rewrite ?app_nil_r, <- ?app_assoc; reflexivity.
Qed.
Lemma of_calls_fields cs : of_calls cs = mkP (rules_of cs) (decls cs) (asm_of cs) (mins_of cs) (outs_of cs).
Proof. unfold of_calls. rewrite of_calls_gen. reflexivity. Qed.

Lemma cost_mins_of cs prio X : cost (mins_of cs) prio X = cost_calls cs prio X.
Proof.
  induction cs as [|c r IH]; [reflexivity|]. change (c :: r) with ([c] ++ r). unfold mins_of in *. rewrite flat_map_app.
  destruct c; simpl; rewrite IH; reflexivity.
Qed.

Lemma proj_nil {A} (f : call -> list A) (p : call -> bool) cs :
  (forall c, p c = true -> f c = []) -> forallb p cs = true -> flat_map f cs = [].
Proof.
  intros H. induction cs as [|c r IH]; [reflexivity|]. simpl. intros F. apply andb_true_iff in F as [F1 F2].
  rewrite (H c F1), (IH F2). reflexivity.
Qed.

Definition is_min (c : call) : bool := match c with CMin _ _ => true | _ => false end.
Definition is_rulecall (c : call) : bool := match c with CRule _ _ _ | CWRule _ _ _ _ => true | _ => false end.

Lemma only_min_flushMinimize m : forall s, forallb is_min (snd (flushMinimize s m)) = true.
Proof.
  induction m as [|[p ls] r IH]; intros s; simpl; [reflexivity|].
  destruct (mapWLits s ls) as [s1 ml]. pose proof (IH s1) as H. destruct (flushMinimize s1 r). simpl in *. exact H.
Qed.
Lemma only_rule_flushExternal_f es : forall s hd, forallb is_rulecall (snd (fst (flushExternal_f false s es hd))) = true.
Proof.
  induction es as [|a r IH]; intros s hd; simpl; [reflexivity|].
  destruct (mapAtom s a) as [s1 ar].
  destruct (ahead ar); [apply IH|]. destruct (aextn ar =? Value_t_Free); [apply IH|].
  destruct (aextn ar =? Value_t_True); [|apply IH].
  pose proof (IH s1 hd) as H. destruct (flushExternal_f false s1 r hd) as [[s2 cs] hd2]. simpl in *. exact H.
Qed.
Lemma only_rule_flushExternal s : forallb is_rulecall (snd (flushExternal false s)) = true.
Proof.
  unfold flushExternal. pose proof (only_rule_flushExternal_f (exts s) s []) as H.
  destruct (flushExternal_f false s (exts s) []) as [[s1 cs] hd]. simpl in *.
  rewrite forallb_app, H. destruct hd; reflexivity.
Qed.
Lemma only_out_flushSymbols s : forallb is_output (flushSymbols s) = true.
Proof. unfold flushSymbols. induction (sym_sort (outs s)); simpl; auto. Qed.
Lemma only_rule_emitL m cas : forallb is_rulecall (emitL m cas) = true.
Proof.
  unfold emitL. induction cas as [|[c ann] r IH]; [reflexivity|]. simpl. rewrite forallb_app, IH, andb_true_r.
  destruct c; try reflexivity; simpl.
  - destruct (nonempty head || (ht =? Head_t_Disjunctive)); reflexivity.
  - destruct (keepc ht head); [|reflexivity]. destruct (direct ht head bound); [reflexivity|]. destruct ann; reflexivity.
  - destruct ann; reflexivity.
Qed.

(* ---- the remaining call shapes ---- *)
Lemma ext_call_shape ext s c s1 out sf :
  is_ext c = true -> cv_call ext s c = Ok (s1, out) -> Inv s -> good s1 sf -> next sf <= SMID_MOD ->
  call_shape (img sf) s s1 sf c out.
Proof.
  destruct c; try discriminate. intros _. cbn [cv_call].
  pose proof (mapAtom_spec s a) as SP. pose proof (ho_mapAtom s a) as [_ HO]. destruct (mapAtom s a) as [sa r].
  destruct SP as [G1 [E [Fd N]]]. cbn [fst] in HO. intros H HI G HB.
  assert (O : outs s1 = outs s /\ good sa s1).
  { destruct (ahead r); inversion H as [[Hs Ho]]; try rewrite <- Hs; (split; [exact HO | ]); [apply good_refl|].
    eapply good_trans; [apply (good_setflags sa a (mkA (smId r) false (ashow r) (v mod 2 ^ extn_bits))); exact E|].
    apply good_core_eq; reflexivity. }
  destruct O as [O Ga].
  assert (Out : out = []) by (destruct (ahead r); inversion H; reflexivity).
  assert (Gf : good sa sf) by (eapply good_trans; eassumption).
  assert (B1 : next sa <= SMID_MOD) by (pose proof (good_next _ _ Gf); lia).
  assert (I1 : Inv sa) by (apply (Inv_of_good _ _ G1 HI B1)).
  destruct Gf as [_ K]. destruct (K I1 HB) as [_ [KI _]]. pose proof (N HI B1) as NZ.
  exists None. split; [exact Out|]. split; [reflexivity|]. split; [simpl; rewrite KI; assumption|]. split; [exact I|].
  simpl. rewrite app_nil_r, O. reflexivity.
Qed.
Lemma min_call_shape ext s c s1 out sf :
  is_min c = true -> cv_call ext s c = Ok (s1, out) -> call_shape (img sf) s s1 sf c out.
Proof.
  destruct c; try discriminate. intros _. cbn [cv_call]. destruct (norm_min lits); [|discriminate].
  intros H. inversion H; subst. exists None. repeat split. simpl. rewrite app_nil_r. reflexivity.
Qed.
Lemma okc_call_shape ext sf s c s1 out :
  okc c = true -> cv_call ext s c = Ok (s1, out) -> Inv s -> good s1 sf -> next sf <= SMID_MOD ->
  call_shape (img sf) s s1 sf c out.
Proof.
  intros Hc. destruct c; try discriminate.
  - apply rule_call_shape. reflexivity.
  - apply wrule_call_shape. reflexivity.
  - intros H _ _ _. apply (min_call_shape ext s (CMin prio lits) s1 out sf eq_refl H).
  - apply output_call_shape. reflexivity.
  - apply ext_call_shape. reflexivity.
Qed.

(* heuristic_ stays empty *)
Lemma heus_okc ext s c s1 out : okc c = true -> cv_call ext s c = Ok (s1, out) -> heus s1 = heus s.
Proof.
  destruct c; try discriminate; intros _; cbn [cv_call].
  - destruct (negb _ || _); [|intros H; inversion H; reflexivity].
    pose proof (ho_mapHead s head) as [H1 _]. destruct (mapHead s head) as [sa mh].
    pose proof (ho_mapLits body sa) as [H2 _]. destruct (mapLits sa body) as [sb mb]. simpl in *.
    intros H; inversion H; subst. congruence.
  - destruct (negb _ || _); [|intros H; inversion H; reflexivity].
    pose proof (ho_mapHead s head) as [H1 _]. destruct (mapHead s head) as [sa mh].
    pose proof (ho_mapWLits body sa) as [H2 _]. destruct (mapWLits sa body) as [sb mb]. simpl in *.
    destruct (negb (ht =? Head_t_Choice) && _ && _); intros H; inversion H; subst; simpl; congruence.
  - destruct (norm_min lits); [|discriminate]. intros H; inversion H; reflexivity.
  - pose proof (ho_makeAtom s cond true) as [H1 _]. destruct (makeAtom s cond true) as [[sa a] cs]. simpl in H1.
    unfold addOutput. intros H; inversion H; subst. simpl. exact H1.
  - pose proof (ho_mapAtom s a) as [H1 _]. destruct (mapAtom s a) as [sa r]. simpl in H1.
    destruct (ahead r); intros H; inversion H; subst; simpl; exact H1.
Qed.
Lemma heus_run ext ds : forall s s1 out, forallb okc ds = true -> cv_run ext s ds = Ok (s1, out) -> heus s1 = heus s.
Proof.
  induction ds as [|c r IH]; intros s s1 out HO Hrun; simpl in *.
  - inversion Hrun; reflexivity.
  - apply andb_true_iff in HO as [Hc Hr].
    destruct (cv_call ext s c) as [[sa oa]|] eqn:Ec; [|discriminate].
    destruct (cv_run ext sa r) as [[sb ob]|] eqn:Er; [|discriminate]. inversion Hrun; subst.
    rewrite (IH _ _ _ Hr Er). apply (heus_okc ext s c sa oa Hc Ec).
Qed.

(* ---- the flush, taken apart ---- *)
Lemma flush_parts ext s s2 o2 : cv_call ext s CEnd = Ok (s2, o2) -> heus s = [] ->
  exists sa sb c1 c2, flushMinimize s (mins s) = (sa, c1) /\ flushExternal ext sa = (sb, c2) /\
    o2 = c1 ++ c2 ++ flushSymbols sb ++ [CAssume [- false_atom]; CEnd] /\ s2 = flushStep sb.
Proof.
  cbn [cv_call]. unfold flush. intros H Hh.
  pose proof (ho_flushMinimize (mins s) s) as [H1 _]. destruct (flushMinimize s (mins s)) as [sa c1] eqn:E1. cbn [fst] in H1.
  pose proof (ho_flushExternal ext sa) as [H2 _]. destruct (flushExternal ext sa) as [sb c2] eqn:E2. cbn [fst] in H2.
  assert (Hb : heus sb = []) by congruence. rewrite Hb in H. cbn [flushHeuristic_f] in H. inversion H; subst.
  exists sa, sb, c1, c2. split; [reflexivity|]. split; [exact E2|]. split; [|reflexivity].
  simpl. rewrite <- !app_assoc. reflexivity.
Qed.

(* ---- small semantic tools ---- *)
Lemma ext_rules_sem_g (g : rule -> rule) m P X' Y' :
  (forall ch a, g (mkRule ch [a] (BNormal [])) = mkRule ch [m a] (BNormal [])) ->
  (red_model (map g (ext_rules P)) X' Y' <->
   ext_sem (fun a => In a (map fst (p_ext P))) (in_head (p_rules P)) (fun a => ext_value a (p_ext P) None) m X' Y').
Proof.
  intros Hg. unfold red_model, ext_sem. split.
  - intros H a Ha Hh.
    assert (K : forall r, In r (ext_rule P a) -> rsat X' Y' (g r)).
    { intros r Hr. apply H. apply in_map. apply In_ext_rules. exists a. auto. }
    unfold ext_rule in K. rewrite Hh in K. split; intros V; rewrite V in K.
    + apply (proj1 (rsat_choice1 X' Y' (m a))). rewrite <- Hg. apply K. left; reflexivity.
    + apply (proj1 (rsat_fact1 X' Y' (m a))). rewrite <- Hg. apply K. left; reflexivity.
  - intros H r0 Hr0. apply in_map_iff in Hr0 as [r [<- Hr]]. apply In_ext_rules in Hr as [a [Ha Hr]].
    unfold ext_rule in Hr. destruct (in_head (p_rules P) a) eqn:Hh; [destruct Hr|]. destruct (H a Ha Hh) as [H0 H1].
    destruct (ext_value a (p_ext P) None) as [z|]; [|destruct Hr].
    destruct z as [|p|p]; [|destruct p|]; simpl in Hr; try contradiction; destruct Hr as [<-|[]]; rewrite Hg.
    + apply (proj2 (rsat_choice1 X' Y' (m a))). apply H0. reflexivity.
    + apply (proj2 (rsat_fact1 X' Y' (m a))). apply H1. reflexivity.
Qed.

Lemma ext_sem_congr (d1 d2 : Z -> Prop) h1 h2 v1 v2 m X' Y' :
  (forall a, h1 a = h2 a) -> (forall a, h1 a = false -> (d1 a <-> d2 a) /\ (d1 a -> v1 a = v2 a)) ->
  (ext_sem d1 h1 v1 m X' Y' <-> ext_sem d2 h2 v2 m X' Y').
Proof.
  intros Hh Hd. unfold ext_sem. split; intros H a Da Ha.
  - rewrite <- Hh in Ha. destruct (Hd a Ha) as [D V]. rewrite <- (V (proj2 D Da)). apply H; [apply D; exact Da | exact Ha].
  - destruct (Hd a Ha) as [D V]. rewrite (V Da). apply H; [apply D; exact Da | rewrite <- Hh; exact Ha].
Qed.

Lemma ext_value_In a es : In a (map fst es) -> exists v, ext_value a es None = Some v /\ In (a, v) es.
Proof.
  induction es as [|[b v] r IH] using rev_ind; [intros []|]. rewrite map_app, in_app_iff. intros H.
  assert (E : forall cur, ext_value a (r ++ [(b, v)]) cur = if b =? a then Some v else ext_value a r cur).
  { clear. induction r as [|[c w] r IH]; intros cur; simpl; [reflexivity|]. apply IH. }
  rewrite E. destruct (Z.eqb_spec b a) as [->|Hn].
  - exists v. split; [reflexivity | apply in_app_iff; right; left; reflexivity].
  - destruct H as [H|[H|[]]]; [|simpl in H; congruence]. destruct (IH H) as [w [E1 E2]]. exists w. split; [exact E1|].
    apply in_app_iff. left. exact E2.
Qed.

Lemma red_keep P X Y : red_model (filter keep P) X Y <-> red_model P X Y.
Proof.
  unfold red_model. split; intros H r Hr.
  - destruct (keep r) eqn:K; [apply H; apply filter_In; auto|].
    unfold keep in K. apply negb_false_iff, andb_true_iff in K as [K1 K2].
    destruct r as [ch hd bd]; simpl in *. subst ch. destruct hd; [|discriminate]. apply empty_choice_vacuous.
  - apply filter_In in Hr as [Hr _]. apply H. exact Hr.
Qed.
Lemma stable_keep_app P E X : stable (filter keep P ++ E) X <-> stable (P ++ E) X.
Proof. apply stable_red_equiv. intros Y _. rewrite !red_model_app, red_keep. tauto. Qed.

(* ---- the atoms of a step ---- *)
Definition call_atoms (c : call) : list Z :=
  match c with
  | CRule _ h b => h ++ map Z.abs b
  | CWRule _ h _ b => h ++ map (fun lw => Z.abs (fst lw)) b
  | COutput _ cond => map Z.abs cond
  | CExternal a _ => [a]
  | CMin _ ls => map (fun lw => Z.abs (fst lw)) ls
  | _ => []
  end.
Definition step_atoms (m : Z -> Z) (ds : list call) : list Z :=
  filter (fun a => negb (m a =? 0)) (flat_map call_atoms ds).

Lemma wf_atoms_pos c a : call_wf c -> In a (call_atoms c) -> 0 < a.
Proof.
  destruct c; simpl; try contradiction.
  - intros [_ [P1 P2]] H. apply in_app_iff in H as [H|H]; [rewrite Forall_forall in P1; apply P1; exact H|].
    apply in_map_iff in H as [l [<- Hl]]. rewrite Forall_forall in P2. specialize (P2 l Hl). lia.
  - intros [_ [P1 P2]] H. apply in_app_iff in H as [H|H]; [rewrite Forall_forall in P1; apply P1; exact H|].
    apply in_map_iff in H as [l [<- Hl]]. rewrite Forall_forall in P2. destruct (P2 l Hl). lia.
  - intros P H. apply in_map_iff in H as [l [<- Hl]]. rewrite Forall_forall in P. specialize (P l Hl). simpl in P. lia.
  - intros [P _] H. apply in_map_iff in H as [l [<- Hl]]. rewrite Forall_forall in P. specialize (P l Hl). lia.
  - intros [P _] [<-|[]]. exact P.
Qed.
Lemma kept_call_atoms c r a : In r (filter keep (rules_of [c])) -> In a (rule_atoms r) -> In a (call_atoms c).
Proof.
  intros Hr Ha. apply filter_In in Hr as [Hr _]. destruct c; simpl in Hr; try contradiction; destruct Hr as [<-|[]]; exact Ha.
Qed.
Lemma In_decls a v ds : In (a, v) (decls ds) <-> In (CExternal a v) ds.
Proof.
  unfold decls. rewrite in_flat_map. split.
  - intros [c [Hc H]]. destruct c; simpl in H; try contradiction. destruct H as [H|[]]. inversion H; subst. exact Hc.
  - intros H. exists (CExternal a v). split; [exact H | left; reflexivity].
Qed.
Lemma In_outs_of n cd ds : In (n, cd) (outs_of ds) <-> In (COutput n cd) ds.
Proof.
  unfold outs_of. rewrite in_flat_map. split.
  - intros [c [Hc H]]. destruct c; simpl in H; try contradiction. destruct H as [H|[]]. inversion H; subst. exact Hc.
  - intros H. exists (COutput n cd). split; [exact H | left; reflexivity].
Qed.

Definition fresh_step (s : cv) : Prop :=
  mins s = [] /\ exts s = [] /\ outs s = [] /\ heus s = [] /\ forall b, ahead1 s b = false.

Lemma okc_notend ds : forallb okc ds = true -> forallb notend ds = true.
Proof.
  induction ds as [|c r IH]; [reflexivity|]. simpl. intros H. apply andb_true_iff in H as [H1 H2].
  rewrite (IH H2), andb_true_r. destruct c; try discriminate; reflexivity.
Qed.
Lemma wf_min_ok ds : Forall call_wf ds -> Forall min_ok ds.
Proof. intros F. eapply Forall_impl; [|exact F]. intros c W. destruct c; simpl in *; auto. Qed.
Lemma rulecall_nomin cs : forallb is_rulecall cs = true -> forallb nomin cs = true.
Proof.
  induction cs as [|c r IH]; [reflexivity|]. simpl. intros H. apply andb_true_iff in H as [H1 H2].
  rewrite (IH H2), andb_true_r. destruct c; try discriminate; reflexivity.
Qed.

Lemma rule_in_of atoms r : (forall a, In a (rule_atoms r) -> In a atoms) -> rule_in atoms r.
Proof.
  intros A. split.
  - apply Forall_forall. intros a Ha. apply A. unfold rule_atoms. apply in_app_iff. left. exact Ha.
  - destruct (r_body r) as [ls|bd wls] eqn:Eb; simpl; apply Forall_forall; intros x Hx; apply A; unfold rule_atoms;
      apply in_app_iff; right; rewrite Eb; simpl.
    + apply in_map. exact Hx.
    + apply (in_map (fun lw => Z.abs (fst lw))). exact Hx.
Qed.
Lemma ext_rule_form P a r : In r (ext_rule P a) -> exists ch, r = mkRule ch [a] (BNormal []).
Proof.
  unfold ext_rule. destruct (in_head (p_rules P) a); [intros []|].
  destruct (ext_value a (p_ext P) None) as [z|]; [|intros []].
  destruct z as [|p|p]; [|destruct p|]; simpl; try contradiction; intros [<-|[]]; eexists; reflexivity.
Qed.
Lemma outs_of_app a b : outs_of (a ++ b) = outs_of a ++ outs_of b.
Proof. unfold outs_of. apply flat_map_app. Qed.
Lemma decls_app a b : decls (a ++ b) = decls a ++ decls b.
Proof. unfold decls. apply flat_map_app. Qed.
Lemma asm_of_app a b : asm_of (a ++ b) = asm_of a ++ asm_of b.
Proof. unfold asm_of. apply flat_map_app. Qed.

Lemma only_ext_flushExternal_f es : forall s hd, forallb is_ext (snd (fst (flushExternal_f true s es hd))) = true.
Proof.
  induction es as [|a r IH]; intros s hd; simpl; [reflexivity|].
  destruct (mapAtom s a) as [s1 ar]. pose proof (IH s1 hd) as H.
  destruct (flushExternal_f true s1 r hd) as [[s2 cs] hd2]. simpl in *. exact H.
Qed.
Lemma hd_flushExternal_f_true es : forall s hd, snd (flushExternal_f true s es hd) = hd.
Proof.
  induction es as [|a r IH]; intros s hd; simpl; [reflexivity|].
  destruct (mapAtom s a) as [s1 ar]. pose proof (IH s1 hd) as H.
  destruct (flushExternal_f true s1 r hd) as [[s2 cs] hd2]. simpl in *. exact H.
Qed.
Lemma only_ext_flushExternal s : forallb is_ext (snd (flushExternal true s)) = true.
Proof.
  unfold flushExternal. pose proof (only_ext_flushExternal_f (exts s) s []) as H.
  pose proof (hd_flushExternal_f_true (exts s) s []) as Hh.
  destruct (flushExternal_f true s (exts s) []) as [[s1 cs] hd]. simpl in *. subst hd. rewrite app_nil_r. exact H.
Qed.
Lemma flushExternal_noout ext s : outs_of (snd (flushExternal ext s)) = [] /\ asm_of (snd (flushExternal ext s)) = [].
Proof.
  destruct ext.
  - split; apply (proj_nil _ is_ext); try apply only_ext_flushExternal; intros c Hc; destruct c; try discriminate; reflexivity.
  - split; apply (proj_nil _ is_rulecall); try apply only_rule_flushExternal; intros c Hc; destruct c; try discriminate; reflexivity.
Qed.

(* ---- one step, for an abstract reading EO of what the flush says about the externals ---- *)
Section Step.
Variable ext : bool.
Variables (ds : list call) (s0 s1 s2 : cv) (o1 o2 : list call).
Hypothesis HO : forallb okc ds = true.
Hypothesis HW : Forall call_wf ds.
Hypothesis HI : Inv s0.
Hypothesis HF : fresh_step s0.
Hypothesis Hrun : cv_run ext s0 ds = Ok (s1, o1).
Hypothesis Hend : cv_call ext s1 CEnd = Ok (s2, o2).
Hypothesis HB : next s2 <= SMID_MOD.
Let m := img s2.
Let Pin := of_calls ds.
Let Pout := of_calls (o1 ++ o2).
Let atoms := step_atoms m ds.
Variable EO : list rule.
Hypothesis HANS : forall X', answer Pout X' <-> stable (rules_of o1 ++ EO) X' /\ X' false_atom = false.
Hypothesis HEO1 : forall r, In r EO ->
  r_body r = BNormal [] /\ forall h, In h (r_head r) -> exists a, In a (map fst (decls ds)) /\ h = m a.
Hypothesis HEO2 : forall X' Y', red_model EO X' Y' <->
  ext_sem (fun a => In a (map fst (decls ds))) (in_head (rules_of ds)) (fun a => ext_value a (decls ds) None) m X' Y'.

Lemma step_gen :
  exists fw : interp -> interp,
    (forall a b, In a atoms -> In b atoms -> m a = m b -> a = b) /\
    (forall X, answer Pin X ->
       answer Pout (fw X) /\ (forall a, In a atoms -> fw X (m a) = X a) /\
       (forall n, shown Pin X n <-> shown Pout (fw X) n) /\
       (forall prio, cost (p_min Pout) prio (fw X) = cost (p_min Pin) prio X - negs ds prio)) /\
    (forall X', answer Pout X' -> answer Pin (pull m atoms X') /\ forall y, fw (pull m atoms X') y = X' y) /\
    (forall X a, answer Pin X -> pull m atoms (fw X) a = X a).
Proof.
  destruct HF as [F1 [F2 [F3 [F4 F5]]]].
  assert (G1 : good s0 s1) by (eapply good_cv_run; exact Hrun).
  assert (G2 : good s1 s2) by (eapply good_cv_call; exact Hend).
  assert (I2 : Inv s2) by (apply (Inv_of_good s0 s2); [eapply good_trans; eassumption | exact HI | exact HB]).
  destruct (run_shape ext s2 okc (okc_call_shape ext s2) ds s0 s1 o1 HO Hrun HI G2 HB) as [cas [E1 [E2 [F [ND [RA OS]]]]]].
  fold m in E2, F, OS. rewrite F3 in OS. simpl in OS.
  assert (CO : Forall (fun ca => ann_ok (fst ca) (snd ca) /\ mappedA m (fst ca) /\ call_wf (fst ca)) cas).
  { apply Forall_forall. intros ca Hca. rewrite Forall_forall in F. destruct (F ca Hca) as [A M]. repeat split; auto.
    rewrite Forall_forall in HW. apply HW. rewrite <- E1. apply in_map. exact Hca. }
  assert (CA : Forall (fun x => In x (auxs s2)) (somes (map snd cas))).
  { eapply Forall_impl; [|exact RA]. simpl. tauto. }
  assert (CW : Forall (fun ca => call_wf (fst ca)) cas) by (eapply Forall_impl; [|exact CO]; simpl; tauto).
  assert (INC : forall c, In c ds -> exists ann, In (c, ann) cas).
  { intros c Hc. rewrite <- E1 in Hc. apply in_map_iff in Hc as [[c' ann] [<- Hca]]. exists ann. exact Hca. }
  assert (CIN : forall c ann, In (c, ann) cas -> In c ds).
  { intros c ann Hca. rewrite <- E1. apply (in_map fst) in Hca. exact Hca. }
  pose proof CO as COf. rewrite Forall_forall in COf.
  set (D := defsL m cas). set (UL := usersL m cas).
  pose proof (D_ok s2 I2 cas CO ND CA) as Dok. fold m in Dok. fold D in Dok.
  (* the flush *)
  assert (Hh : heus s1 = []) by (rewrite (heus_run ext ds s0 s1 o1 HO Hrun); exact F4).
  destruct (flush_parts ext s1 s2 o2 Hend Hh) as [sa [sb [c1 [c2 [EM [EX [Eo2 Es2]]]]]]].
  assert (Osb : outs sb = outs s1).
  { pose proof (ho_flushMinimize (mins s1) s1) as [_ H1]. rewrite EM in H1.
    pose proof (ho_flushExternal ext sa) as [_ H2]. rewrite EX in H2. simpl in *. congruence. }
  (* atoms *)
  assert (INA : forall c a, In c ds -> In a (call_atoms c) -> m a <> 0 -> In a atoms).
  { intros c a Hc Ha Hm. apply filter_In. split; [apply in_flat_map; exists c; auto|]. apply negb_true_iff. lia. }
  assert (AO : forall a, In a atoms -> 0 < a /\ m a <> 0).
  { intros a Ha. apply filter_In in Ha as [Ha Hm]. apply in_flat_map in Ha as [c [Hc Ha]]. rewrite Forall_forall in HW.
    split; [apply (wf_atoms_pos c a (HW c Hc) Ha) | lia]. }
  assert (Hinj : forall a b, In a atoms -> In b atoms -> m a = m b -> a = b).
  { intros a b Ha Hb E. destruct (AO a Ha) as [_ Na]. apply (inv_inj _ I2 a b Na E). }
  assert (Hpos : forall a, In a atoms -> 0 < a /\ 0 < m a).
  { intros a Ha. destruct (AO a Ha) as [Pa Na]. split; [exact Pa|]. apply (img_pos s2 I2). exact Na. }
  assert (DECL : forall a, In a (map fst (decls ds)) -> In a atoms /\ exists v, In (CExternal a v) ds).
  { intros a Ha. apply in_map_iff in Ha as [[a' v] [<- Hd]]. apply In_decls in Hd. simpl. split; [|exists v; exact Hd].
    destruct (INC _ Hd) as [ann Hca]. destruct (COf _ Hca) as [_ [M _]]. simpl in M.
    apply (INA _ a' Hd); [left; reflexivity | exact M]. }
  set (R := rules_of ds).
  assert (EPin : Pin = mkP R (decls ds) [] (mins_of ds) (outs_of ds)).
  { unfold Pin. rewrite of_calls_fields. f_equal. apply (proj_nil _ okc); [|exact HO].
    intros c Hc. destruct c; try discriminate; reflexivity. }
  set (K := filter keep R ++ ext_rules Pin).
  assert (KATOM : forall r a, In r (filter keep R) -> In a (rule_atoms r) -> In a atoms).
  { intros r a Hr Ha. apply In_kept_rules in Hr as [c [Hc Hr]]. destruct (INC _ Hc) as [ann Hca].
    destruct (COf _ Hca) as [_ [M W]]. simpl in M, W. destruct (kept_atoms m c W M r a Hr Ha) as [_ Na].
    apply (INA c a Hc); [apply (kept_call_atoms c r a Hr Ha) | exact Na]. }
  assert (Kin : Forall (rule_in atoms) K).
  { apply Forall_forall. intros r Hr. apply in_app_iff in Hr as [Hr|Hr].
    - apply rule_in_of. intros a Ha. apply (KATOM r a Hr Ha).
    - apply In_ext_rules in Hr as [a [Ha Hr]]. apply ext_rule_form in Hr as [ch ->]. apply rule_in_of.
      intros b [<-|[]]. rewrite EPin in Ha. simpl in Ha. apply (DECL a Ha). }
  assert (Knn : forall r, In r K -> body_nonneg (r_body r)).
  { intros r Hr. apply in_app_iff in Hr as [Hr|Hr].
    - apply In_kept_rules in Hr as [c [Hc Hr]]. rewrite Forall_forall in HW. apply (kept_nonneg c (HW c Hc) r Hr).
    - apply In_ext_rules in Hr as [a [Ha Hr]]. apply ext_rule_form in Hr as [ch ->]. exact I. }
  set (U := UL ++ EO).
  assert (Ind : forall a, In a atoms -> isdef D (m a) = false).
  { intros a Ha. apply (img_notdef s2 I2 cas CA). apply AO. exact Ha. }
  assert (Fnd : isdef D false_atom = false) by (apply (false_notdef s2 I2 cas CA)).
  assert (Fni : forall a, In a atoms -> m a <> false_atom).
  { intros a Ha. destruct (AO a Ha) as [_ Na]. pose proof (inv_rng _ I2 a Na). pose proof consts_ok. unfold m. lia. }
  assert (EOclean : forall r, In r EO -> clean D (r_body r)).
  { intros r Hr. destruct (HEO1 r Hr) as [-> _]. intros a []. }
  assert (UO : forall r, In r U -> user_ok D r).
  { intros r Hr. apply in_app_iff in Hr as [Hr|Hr]; [apply (users_ok s2 I2 cas CO ND CA); exact Hr|].
    split; [|right; apply EOclean; exact Hr]. destruct (HEO1 r Hr) as [_ Hh']. intros h Hh0.
    destruct (Hh' h Hh0) as [a [Ha ->]]. apply Ind. apply (DECL a Ha). }
  assert (Unn : forall r, In r U -> body_nonneg (r_body r)).
  { intros r Hr. apply in_app_iff in Hr as [Hr|Hr]; [apply (users_nonneg m cas CW); exact Hr|].
    destruct (HEO1 r Hr) as [-> _]. exact I. }
  assert (Uhd : forall r h, In r U -> In h (r_head r) -> h = false_atom \/ exists a, In a atoms /\ m a = h).
  { intros r h Hr Hh0. apply in_app_iff in Hr as [Hr|Hr].
    - revert r h Hr Hh0. apply users_heads; [|exact CW]. intros c ann r a Hc Hr Ha.
      apply (KATOM r a); [|exact Ha]. apply In_kept_rules. exists c. split; [apply (CIN c ann Hc) | exact Hr].
    - destruct (HEO1 r Hr) as [_ Hh']. destruct (Hh' h Hh0) as [a [Ha ->]]. right. exists a. split; [apply (DECL a Ha) | reflexivity]. }
  assert (EU : forall X', X' false_atom = false ->
     (stable (map (unfoldD D) U) X' <-> stable (map (fix_empty false_atom) (map (rn_rule m) K)) X')).
  { intros X' _. unfold U, K. rewrite !map_app.
    assert (E3 : map (unfoldD D) UL = map (fix_empty false_atom) (map (rn_rule m) (filter keep R))).
    { unfold D, UL, m. rewrite (unfold_users s2 I2 cas CO ND CA), E1, targetL. reflexivity. }
    assert (E4 : map (unfoldD D) EO = EO).
    { rewrite <- (map_id EO) at 2. apply map_ext_in. intros r Hr. apply (unfold_clean D Dok). apply EOclean. exact Hr. }
    rewrite E3, E4. apply stable_red_equiv. intros Y _. rewrite !red_model_app.
    assert (E5 : map (fix_empty false_atom) (map (rn_rule m) (ext_rules Pin)) =
                 map (fun r => fix_empty false_atom (rn_rule m r)) (ext_rules Pin)) by apply map_map.
    rewrite E5, (HEO2 X' Y).
    rewrite (ext_rules_sem_g (fun r => fix_empty false_atom (rn_rule m r)) m Pin X' Y)
      by (intros ch a; destruct ch; reflexivity).
    rewrite EPin. simpl. tauto. }
  assert (ER : forall X', stable (rules_of o1 ++ EO) X' <-> stable (def_rules D ++ U) X').
  { intros X'. apply stable_same_rules. intros r. unfold U. rewrite E2, !in_app_iff. unfold m at 1.
    rewrite (rules_emitL s2 cas r), in_app_iff. fold m. fold D. fold UL. tauto. }
  pose proof (core_sound m atoms Hinj Hpos K Kin D Dok U (rules_of o1 ++ EO) UO EU ER Ind Fnd Fni) as CS.
  pose proof (core_complete m atoms Hinj Hpos K Kin D Dok U (rules_of o1 ++ EO) UO Unn Uhd EU ER Ind Fnd) as CC.
  pose proof (core_roundtrip m atoms Hinj K Kin Knn D Ind) as CR.
  assert (ANSIN : forall X, answer Pin X <-> stable K X).
  { intros X. unfold answer. rewrite EPin at 1 3. simpl. unfold K. rewrite stable_keep_app. rewrite EPin. tauto. }
  assert (SUPP : forall X a, stable K X -> X a = true -> In a atoms).
  { intros X a HS Xa. destruct (stable_supported K X a Knn HS Xa) as [r [Hr Hh0]].
    rewrite Forall_forall in Kin. destruct (Kin r Hr) as [HH _]. rewrite Forall_forall in HH. apply HH. exact Hh0. }
  exists (fwd m atoms D). split; [exact Hinj|]. split; [|split].
  - intros X HA. apply ANSIN in HA. destruct (CS X HA) as [S1 [S2 [S3 S4]]].
    set (X' := fwd m atoms D X) in *.
    split; [apply HANS; split; assumption|]. split; [exact S3|]. split.
    + (* shown names *)
      assert (VAL : forall c ann nm y, In (c, ann) cas -> In (nm, y) (symsA m c ann) ->
                exists n cond, c = COutput n cond /\ nm = n /\ X' y = forallb (holds X) cond /\ 0 < y).
      { intros c ann nm y Hca Hs. destruct (COf _ Hca) as [A [M W]]. simpl in A, M, W.
        destruct c; simpl in Hs; try contradiction. exists name, cond. split; [reflexivity|].
        assert (AG : forall l, In l cond -> X' (m (Z.abs l)) = X (Z.abs l)).
        { intros l Hl. apply S3. apply (INA (COutput name cond) _ (CIN _ _ Hca)); [simpl; apply in_map; exact Hl|].
          simpl in M. rewrite Forall_forall in M. apply M. exact Hl. }
        assert (AX : forall x, ann = Some x -> X' x = bsat X' X' (BNormal (map (rn_lit m) cond))).
        { intros x ->. apply S4. unfold D, m. apply (dlook_def s2 I2 cas CO ND CA (COutput name cond) (Some x)); [exact Hca|].
          left; reflexivity. }
        destruct (output_value m name cond ann X X' W M A (img_pos s2 I2) AG AX nm y Hs) as [En Ev].
        split; [exact En|]. split; [exact Ev|]. destruct Hs as [Hs|[]]. injection Hs as Hn Hy. rewrite <- Hy.
        destruct ann as [x|].
        - assert (DL : dlook D x = Some (BNormal (map (rn_lit m) cond))).
          { unfold D, m. apply (dlook_def s2 I2 cas CO ND CA (COutput name cond) (Some x)); [exact Hca | left; reflexivity]. }
          apply (def_clean D Dok x _ DL).
        - destruct (A eq_refl) as [c0 [-> P0]]. simpl. apply (img_pos s2 I2). simpl in M. inversion M as [|? ? M0 _]; subst.
          destruct W as [W _]. inversion W as [|? ? W0 _]; subst. replace (Z.abs c0) with c0 in M0 by lia. exact M0. }
      assert (POUT : forall n c, In (n, c) (p_out Pout) <-> exists y, c = [y] /\ In (n, y) (symsL m cas)).
      { intros n c. unfold Pout. rewrite of_calls_fields. simpl. rewrite Eo2, !outs_of_app.
        assert (Q1 : outs_of o1 = []).
        { apply (proj_nil _ is_rulecall); [intros c0 Hc0; destruct c0; try discriminate; reflexivity | rewrite E2; apply only_rule_emitL]. }
        assert (Q3 : outs_of c1 = []).
        { apply (proj_nil _ is_min); [intros c0 Hc0; destruct c0; try discriminate; reflexivity|].
          pose proof (only_min_flushMinimize (mins s1) s1) as Q; rewrite EM in Q; exact Q. }
        rewrite Q1, Q3.
        assert (Q2 : outs_of c2 = []) by (pose proof (flushExternal_noout ext sa) as [Q _]; rewrite EX in Q; exact Q).
        rewrite Q2. simpl. rewrite app_nil_r, In_outs_of, In_flushSymbols, Osb, OS. split.
        - intros [nm [y [E Hy]]]. inversion E; subst. exists y. auto.
        - intros [y [-> Hy]]. exists n, y. auto. }
      intros n. unfold shown. rewrite EPin. simpl. split.
      * intros [cond [Hin Hc]]. apply In_outs_of in Hin. destruct (INC _ Hin) as [ann Hca].
        set (y := match ann with Some x => x | None => m (hd 0 cond) end).
        assert (Hs : In (cut0 n, y) (symsA m (COutput n cond) ann)) by (left; reflexivity).
        destruct (VAL _ _ _ _ Hca Hs) as [n' [cond' [E [En [Ev Py]]]]]. injection E as <- <-.
        exists [y]. split.
        -- apply POUT. exists y. split; [reflexivity|]. rewrite <- En. unfold symsL. apply in_flat_map. exists (COutput n cond, ann). auto.
        -- simpl. unfold holds. replace (y <? 0) with false by lia. rewrite Ev, Hc. reflexivity.
      * intros [c [Hin Hc]]. apply POUT in Hin as [y [-> Hy]]. unfold symsL in Hy. apply in_flat_map in Hy as [[c0 ann] [Hca Hs]].
        destruct (VAL _ _ _ _ Hca Hs) as [n' [cond [-> [En [Ev Py]]]]]. subst n'.
        exists cond. split; [apply In_outs_of; apply (CIN _ _ Hca)|].
        simpl in Hc. unfold holds in Hc. replace (y <? 0) with false in Hc by lia. rewrite andb_true_r in Hc. congruence.
    + (* cost *)
      intros prio.
      assert (LF : lifts s2 X X').
      { intros a Ha. fold m in Ha. fold m.
        destruct (existsb (Z.eqb a) atoms) eqn:Ia.
        - apply existsb_exists in Ia as [a' [Ia Ea]]. apply Z.eqb_eq in Ea. subst a'. apply S3. exact Ia.
        - assert (Na : ~ In a atoms).
          { intros Hin. assert (existsb (Z.eqb a) atoms = true); [|congruence]. apply existsb_exists. exists a. split; [exact Hin | apply Z.eqb_refl]. }
          assert (Xa : X a = false) by (destruct (X a) eqn:Xa; [exfalso; apply Na; apply (SUPP X a HA Xa) | reflexivity]).
          rewrite Xa. unfold X'. rewrite (fwd_nd m atoms D X (m a)) by (apply (img_notdef s2 I2 cas CA); exact Ha).
          destruct (push m atoms X (m a)) eqn:Pa; [|reflexivity]. exfalso. apply push_true in Pa as [b [Hb [Eb _]]].
          apply Na. destruct (AO b Hb) as [_ Nb]. rewrite <- (inv_inj _ I2 b a Nb Eb). exact Hb. }
      destruct (cost_step ext ds s0 s1 o1 s2 o2 (okc_notend ds HO) (wf_min_ok ds HW) F1 HI Hrun Hend HB) as [_ [_ CST]].
      unfold Pout, Pin. rewrite !of_calls_fields. simpl. rewrite !cost_mins_of, cost_calls_app.
      assert (N1 : forallb nomin o1 = true) by (apply rulecall_nomin; rewrite E2; apply only_rule_emitL).
      destruct (nomin_cost o1 prio X' N1) as [-> _]. rewrite (CST X X' LF prio). lia.
  - intros X' HA. apply HANS in HA as [HS Xf]. destruct (CC X' HS Xf) as [C1 C2]. split; [apply ANSIN; exact C1 | exact C2].
  - intros X a HA. apply CR. apply ANSIN. exact HA.
Qed.
End Step.

(* ---- without the extensions: externals have become a choice rule and facts ---- *)
Theorem equiv_step_noext ds s0 s1 o1 s2 o2 :
  forallb okc ds = true -> Forall call_wf ds -> Inv s0 -> fresh_step s0 ->
  cv_run false s0 ds = Ok (s1, o1) -> cv_call false s1 CEnd = Ok (s2, o2) -> next s2 <= SMID_MOD ->
  let m := img s2 in let Pin := of_calls ds in let Pout := of_calls (o1 ++ o2) in let atoms := step_atoms m ds in
  exists fw : interp -> interp,
    (forall a b, In a atoms -> In b atoms -> m a = m b -> a = b) /\
    (forall X, answer Pin X ->
       answer Pout (fw X) /\ (forall a, In a atoms -> fw X (m a) = X a) /\
       (forall n, shown Pin X n <-> shown Pout (fw X) n) /\
       (forall prio, cost (p_min Pout) prio (fw X) = cost (p_min Pin) prio X - negs ds prio)) /\
    (forall X', answer Pout X' -> answer Pin (pull m atoms X') /\ forall y, fw (pull m atoms X') y = X' y) /\
    (forall X a, answer Pin X -> pull m atoms (fw X) a = X a).
Proof.
  intros HO HW HI HF Hrun Hend HB.
  pose proof HF as [F1 [F2 [F3 [F4 F5]]]].
  assert (G1 : good s0 s1) by (eapply good_cv_run; exact Hrun).
  assert (G2 : good s1 s2) by (eapply good_cv_call; exact Hend).
  assert (B1 : next s1 <= SMID_MOD) by (pose proof (good_next _ _ G2); lia).
  assert (I1 : Inv s1) by (apply (Inv_of_good _ _ G1 HI B1)).
  assert (Hh : heus s1 = []) by (rewrite (heus_run false ds s0 s1 o1 HO Hrun); exact F4).
  destruct (flush_parts false s1 s2 o2 Hend Hh) as [sa [sb [c1 [c2 [EM [EX [Eo2 Es2]]]]]]].
  assert (Gm : good s1 sa) by (pose proof (good_flushMinimize (mins s1) s1) as Gx; rewrite EM in Gx; exact Gx).
  assert (Gx : good sa sb) by (pose proof (good_flushExternal false sa) as Gy; rewrite EX in Gy; exact Gy).
  assert (Gs : good sb s2) by (rewrite Es2; apply good_core_eq; reflexivity).
  assert (Ba : next sa <= SMID_MOD) by (pose proof (good_next _ _ Gx); pose proof (good_next _ _ Gs); lia).
  assert (Ia : Inv sa) by (apply (Inv_of_good _ _ Gm I1 Ba)).
  assert (FXm : hfx nof s1 sa) by (pose proof (fx_flushMinimize (mins s1) s1) as Fy; rewrite EM in Fy; exact Fy).
  destruct FXm as [Exa FXa].
  assert (FA : forall b, ahead1 sa b = ahead1 s1 b /\ aextn1 sa b = aextn1 s1 b).
  { intros b. destruct (FXa b) as [A B]. unfold nof in A. rewrite orb_false_r in A. auto. }
  destruct (run_fx false ds s0 s1 o1 HO Hrun) as [AH BX].
  assert (AH' : forall b, ahead1 sa b = in_head (rules_of ds) b).
  { intros b. destruct (FA b) as [-> _]. rewrite AH, F5. reflexivity. }
  assert (SEMX : forall X' Y',
     (red_model (rules_of c2) X' Y' <-> ext_sem (fun a => In a (exts sa)) (ahead1 sa) (fun a => Some (aextn1 sa a)) (img s2) X' Y') /\
     Forall (fun a => img s2 a <> 0) (exts sa) /\
     (forall r, In r (rules_of c2) -> r_body r = BNormal [] /\
        forall h, In h (r_head r) -> exists a, In a (exts sa) /\ ahead1 sa a = false /\ h = img s2 a)).
  { intros X' Y'. pose proof (flushExternal_false_sem sa s2 X' Y') as Q. rewrite EX in Q. apply Q; assumption. }
  assert (DEC : forall a, ahead1 sa a = false -> (In a (exts sa) <-> In a (map fst (decls ds)))).
  { intros a Ha. destruct (FA a) as [E _]. rewrite E in Ha. destruct (BX a Ha) as [_ Q]. rewrite Exa, Q, F2. simpl. tauto. }
  apply (step_gen false ds s0 s1 s2 o1 o2 HO HW HI HF Hrun Hend HB (rules_of c2)).
  - (* what the emitted program is *)
    intros X'. unfold answer. rewrite of_calls_fields. cbn [p_rules p_assume].
    assert (QR : rules_of (o1 ++ o2) = rules_of o1 ++ rules_of c2).
    { rewrite Eo2, !rules_of_app.
      assert (Q1 : rules_of c1 = []).
      { apply (proj_nil _ is_min); [intros c0 Hc0; destruct c0; try discriminate; reflexivity|].
        pose proof (only_min_flushMinimize (mins s1) s1) as Q; rewrite EM in Q; exact Q. }
      assert (Q2 : rules_of (flushSymbols sb) = []).
      { apply (proj_nil _ is_output); [intros c0 Hc0; destruct c0; try discriminate; reflexivity | apply only_out_flushSymbols]. }
      rewrite Q1, Q2. simpl. rewrite app_nil_r. reflexivity. }
    assert (QD : decls (o1 ++ o2) = []).
    { assert (RD : forall cs, forallb is_rulecall cs = true -> decls cs = []).
      { intros cs Hcs. apply (proj_nil _ is_rulecall); [intros c0 Hc0; destruct c0; try discriminate; reflexivity | exact Hcs]. }
      rewrite Eo2, !decls_app. rewrite (RD o1).
      - rewrite (RD c2) by (pose proof (only_rule_flushExternal sa) as Q; rewrite EX in Q; exact Q).
        assert (Q1 : decls c1 = []).
        { apply (proj_nil _ is_min); [intros c0 Hc0; destruct c0; try discriminate; reflexivity|].
          pose proof (only_min_flushMinimize (mins s1) s1) as Q; rewrite EM in Q; exact Q. }
        assert (Q2 : decls (flushSymbols sb) = []).
        { apply (proj_nil _ is_output); [intros c0 Hc0; destruct c0; try discriminate; reflexivity | apply only_out_flushSymbols]. }
        rewrite Q1, Q2. reflexivity.
      - destruct (run_shape false s2 okc (okc_call_shape false s2) ds s0 s1 o1 HO Hrun HI G2 HB) as [cas [_ [E2 _]]].
        rewrite E2. apply only_rule_emitL. }
    assert (QA : asm_of (o1 ++ o2) = [- false_atom]).
    { assert (RD : forall cs, forallb is_rulecall cs = true -> asm_of cs = []).
      { intros cs Hcs. apply (proj_nil _ is_rulecall); [intros c0 Hc0; destruct c0; try discriminate; reflexivity | exact Hcs]. }
      rewrite Eo2, !asm_of_app. rewrite (RD o1).
      - rewrite (RD c2) by (pose proof (only_rule_flushExternal sa) as Q; rewrite EX in Q; exact Q).
        assert (Q1 : asm_of c1 = []).
        { apply (proj_nil _ is_min); [intros c0 Hc0; destruct c0; try discriminate; reflexivity|].
          pose proof (only_min_flushMinimize (mins s1) s1) as Q; rewrite EM in Q; exact Q. }
        assert (Q2 : asm_of (flushSymbols sb) = []).
        { apply (proj_nil _ is_output); [intros c0 Hc0; destruct c0; try discriminate; reflexivity | apply only_out_flushSymbols]. }
        rewrite Q1, Q2. reflexivity.
      - destruct (run_shape false s2 okc (okc_call_shape false s2) ds s0 s1 o1 HO Hrun HI G2 HB) as [cas [_ [E2 _]]].
        rewrite E2. apply only_rule_emitL. }
    unfold ext_rules. cbn [p_ext p_rules]. rewrite QR, QD, QA. simpl. rewrite app_nil_r.
    unfold holds. simpl. change (X' 1) with (X' false_atom). destruct (X' false_atom); simpl; intuition congruence.
  - intros r Hr. destruct (SEMX (fun _ => false) (fun _ => false)) as [_ [_ Q]]. destruct (Q r Hr) as [Eb Hh'].
    split; [exact Eb|]. intros h Hh0. destruct (Hh' h Hh0) as [a [Ha [Hd ->]]]. exists a. split; [apply (DEC a Hd); exact Ha | reflexivity].
  - intros X' Y'. destruct (SEMX X' Y') as [Q _]. rewrite Q. apply ext_sem_congr; [exact AH'|].
    intros a Ha. split; [apply DEC; exact Ha|]. intros Da.
    assert (Dd : In a (map fst (decls ds))) by (apply (DEC a Ha); exact Da).
    destruct (ext_value_In a (decls ds) Dd) as [v [Ev Iv]]. rewrite Ev. f_equal.
    destruct (FA a) as [E1 E2]. rewrite E2. rewrite E1 in Ha. destruct (BX a Ha) as [Q1 _]. rewrite Q1, Ev.
    apply In_decls in Iv. rewrite Forall_forall in HW. pose proof (HW _ Iv) as [_ Wv]. apply Z.mod_small.
    change (2 ^ extn_bits) with 4. lia.
Qed.

(* ---- with the extensions: externals are passed through ---- *)
Lemma run_exts ext ds : forall s s1 out, forallb okc ds = true -> cv_run ext s ds = Ok (s1, out) ->
  forall b, In b (exts s1) -> In b (exts s) \/ In b (map fst (decls ds)).
Proof.
  induction ds as [|c r IH]; intros s s1 out HO Hrun b Hb; cbn [forallb] in HO; cbn [cv_run] in Hrun.
  - inversion Hrun; subst. left; exact Hb.
  - apply andb_true_iff in HO as [Hc Hr].
    destruct (cv_call ext s c) as [[sa oa]|] eqn:Ec; [|discriminate].
    destruct (cv_run ext sa r) as [[sb ob]|] eqn:Er; [|discriminate]. inversion Hrun; subst.
    change (c :: r) with ([c] ++ r). rewrite decls_app, map_app, in_app_iff.
    destruct (IH sa s1 ob Hr Er b Hb) as [H|H]; [|right; right; exact H].
    destruct (is_ext c) eqn:Ie.
    + destruct c; try discriminate. destruct (ext_call_fx ext s a v sa oa Ec) as [_ [_ C1]].
      destruct (ahead1 s a); destruct C1 as [C1 _]; rewrite C1 in H; [left; exact H|].
      apply in_app_iff in H as [H|[<-|[]]]; [left; exact H | right; left; simpl; left; reflexivity].
    + destruct (call_fx ext s c sa oa Hc Ie Ec) as [E1 _]. rewrite E1 in H. left; exact H.
Qed.

Lemma in_head_true P y : in_head P y = true <-> exists r, In r P /\ In y (r_head r).
Proof.
  unfold in_head. rewrite existsb_exists. split.
  - intros [r [Hr H]]. apply existsb_exists in H as [h [Hh E]]. apply Z.eqb_eq in E. subst h. exists r. auto.
  - intros [r [Hr H]]. exists r. split; [exact Hr|]. apply existsb_exists. exists y. split; [exact H | apply Z.eqb_refl].
Qed.

Lemma In_rules_of r cs : In r (rules_of cs) <-> exists c, In c cs /\ In r (rules_of [c]).
Proof.
  unfold rules_of at 1. rewrite in_flat_map. split; intros [c [Hc H]]; exists c; split; auto.
  - unfold rules_of. simpl. rewrite app_nil_r. exact H.
  - unfold rules_of in H. simpl in H. rewrite app_nil_r in H. exact H.
Qed.

Lemma heads_emitted sf cas ds : Inv sf -> let m := img sf in
  Forall (fun ca => ann_ok (fst ca) (snd ca) /\ mappedA m (fst ca) /\ call_wf (fst ca)) cas ->
  NoDup (somes (map snd cas)) -> Forall (fun x => In x (auxs sf)) (somes (map snd cas)) -> map fst cas = ds ->
  forall a, m a <> 0 -> in_head (rules_of (emitL m cas)) (m a) = in_head (rules_of ds) a.
Proof.
  intros Isf m CO ND CA E1 a Na. pose proof CO as COf. rewrite Forall_forall in COf.
  pose proof (D_ok sf Isf cas CO ND CA) as Dok. fold m in Dok.
  assert (HD : forall h, Forall (fun b => m b <> 0) h -> (In (m a) (hd' m h) <-> In a h)).
  { intros h Fh. unfold hd'. destruct h as [|b0 h0].
    - split; [intros [H|[]] | intros []]. pose proof (inv_rng _ Isf a Na). pose proof consts_ok. unfold m in H. lia.
    - rewrite in_map_iff. split; [|intros H; exists a; auto]. intros [b [Eb Hb]].
      rewrite Forall_forall in Fh. rewrite (inv_inj _ Isf a b Na (eq_sym Eb)). exact Hb. }
  apply eq_iff_eq_true. rewrite !in_head_true. split.
  - intros [r [Hr Hh]]. unfold m in Hr. apply (rules_emitL sf cas) in Hr. fold m in Hr. apply in_app_iff in Hr as [Hr|Hr].
    + apply (In_def_rules _ Dok) in Hr as [x [B [-> E]]]. simpl in Hh. destruct Hh as [->|[]].
      pose proof (img_notdef sf Isf cas CA a Na) as Q. fold m in Q. unfold isdef in Q. rewrite E in Q. discriminate.
    + apply in_flat_map in Hr as [[c ann] [Hca Hu]]. destruct (COf _ Hca) as [A [M W]]. cbn [fst snd] in *.
      assert (Hc : In c ds) by (rewrite <- E1; apply (in_map fst) in Hca; exact Hca).
      destruct c; simpl in Hu; try contradiction.
      * destruct (keepc ht head) eqn:K; [|contradiction]. destruct Hu as [<-|[]]. simpl in Hh. destruct (M K) as [MH _].
        exists (mkRule (ht =? Head_t_Choice) head (BNormal body)). split; [|apply (HD head MH); exact Hh].
        apply In_rules_of. exists (CRule ht head body). split; [exact Hc | left; reflexivity].
      * destruct (keepc ht head) eqn:K; [|contradiction]. destruct (M K) as [MH _].
        exists (mkRule (ht =? Head_t_Choice) head (BSum bound body)).
        split; [apply In_rules_of; exists (CWRule ht head bound body); split; [exact Hc | left; reflexivity]|].
        apply (HD head MH). destruct (direct ht head bound); [destruct Hu as [<-|[]]; exact Hh|].
        destruct ann; [|contradiction]. destruct Hu as [<-|[]]. exact Hh.
  - intros [r [Hr Hh]]. apply In_rules_of in Hr as [c [Hc Hr]].
    assert (Hca : exists ann, In (c, ann) cas).
    { rewrite <- E1 in Hc. apply in_map_iff in Hc as [[c' ann] [<- Hca]]. exists ann. exact Hca. }
    destruct Hca as [ann Hca]. destruct (COf _ Hca) as [A [M W]]. cbn [fst snd] in *.
    assert (UIN : forall u, In u (usersA m c ann) -> In u (rules_of (emitL m cas))).
    { intros u Hu. unfold m. apply (rules_emitL sf cas). apply in_app_iff. right. apply in_flat_map. exists (c, ann). auto. }
    destruct c; simpl in Hr; try contradiction; destruct Hr as [<-|[]]; simpl in Hh.
    + assert (K : keepc ht head = true) by (unfold keepc, nonempty; destruct head; [destruct Hh | reflexivity]).
      destruct (M K) as [MH _]. eexists. split; [apply UIN; simpl; rewrite K; left; reflexivity|]. simpl. apply (HD head MH). exact Hh.
    + assert (K : keepc ht head = true) by (unfold keepc, nonempty; destruct head; [destruct Hh | reflexivity]).
      destruct (M K) as [MH _]. simpl in A. rewrite K in A. simpl in A.
      destruct (direct ht head bound) eqn:Dr.
      * eexists. split; [apply UIN; simpl; rewrite K, Dr; left; reflexivity|]. simpl. apply (HD head MH). exact Hh.
      * simpl in A. destruct ann as [x|]; [|contradiction].
        eexists. split; [apply UIN; simpl; rewrite K, Dr; left; reflexivity|]. simpl. apply (HD head MH). exact Hh.
Qed.

Lemma decls_map_ext (f g : Z -> Z) es : decls (map (fun a => CExternal (f a) (g a)) es) = map (fun a => (f a, g a)) es.
Proof. induction es as [|a r IH]; [reflexivity|]. unfold decls in *. simpl. rewrite IH. reflexivity. Qed.

Lemma ext_value_map (f g : Z -> Z) es a : In a es -> (forall b, In b es -> f b = f a -> b = a) ->
  ext_value (f a) (map (fun b => (f b, g b)) es) None = Some (g a).
Proof.
  intros Ha Hinj. destruct (ext_value_In (f a) (map (fun b => (f b, g b)) es)) as [v [Ev Iv]].
  { rewrite map_map. simpl. apply in_map_iff. exists a. auto. }
  apply in_map_iff in Iv as [b [Eb Hb]]. injection Eb as E1 E2. rewrite Ev. f_equal. rewrite <- E2, (Hinj b Hb E1). reflexivity.
Qed.

Lemma flushExternal_true_out s sf : Inv s -> good (fst (flushExternal true s)) sf -> next sf <= SMID_MOD ->
  snd (flushExternal true s) = map (fun a => CExternal (img sf a) (aextn1 s a)) (exts s) /\ Forall (fun a => img sf a <> 0) (exts s).
Proof.
  unfold flushExternal. pose proof (flushExternal_true_shape (exts s) s sf []) as SH.
  destruct (flushExternal_f true s (exts s) []) as [[s1 cs] hd]. cbn [fst snd] in *. intros HI G HB.
  destruct (SH HI G HB) as [E1 [E2 F]]. subst hd. rewrite app_nil_r. auto.
Qed.

Theorem equiv_step_ext ds s0 s1 o1 s2 o2 :
  forallb okc ds = true -> Forall call_wf ds -> Inv s0 -> fresh_step s0 ->
  cv_run true s0 ds = Ok (s1, o1) -> cv_call true s1 CEnd = Ok (s2, o2) -> next s2 <= SMID_MOD ->
  let m := img s2 in let Pin := of_calls ds in let Pout := of_calls (o1 ++ o2) in let atoms := step_atoms m ds in
  exists fw : interp -> interp,
    (forall a b, In a atoms -> In b atoms -> m a = m b -> a = b) /\
    (forall X, answer Pin X ->
       answer Pout (fw X) /\ (forall a, In a atoms -> fw X (m a) = X a) /\
       (forall n, shown Pin X n <-> shown Pout (fw X) n) /\
       (forall prio, cost (p_min Pout) prio (fw X) = cost (p_min Pin) prio X - negs ds prio)) /\
    (forall X', answer Pout X' -> answer Pin (pull m atoms X') /\ forall y, fw (pull m atoms X') y = X' y) /\
    (forall X a, answer Pin X -> pull m atoms (fw X) a = X a).
Proof.
  intros HO HW HI HF Hrun Hend HB.
  pose proof HF as [F1 [F2 [F3 [F4 F5]]]].
  assert (G1 : good s0 s1) by (eapply good_cv_run; exact Hrun).
  assert (G2 : good s1 s2) by (eapply good_cv_call; exact Hend).
  assert (I2 : Inv s2) by (apply (Inv_of_good s0 s2); [eapply good_trans; eassumption | exact HI | exact HB]).
  assert (B1 : next s1 <= SMID_MOD) by (pose proof (good_next _ _ G2); lia).
  assert (I1 : Inv s1) by (apply (Inv_of_good _ _ G1 HI B1)).
  assert (Hh : heus s1 = []) by (rewrite (heus_run true ds s0 s1 o1 HO Hrun); exact F4).
  destruct (flush_parts true s1 s2 o2 Hend Hh) as [sa [sb [c1 [c2 [EM [EX [Eo2 Es2]]]]]]].
  assert (Gm : good s1 sa) by (pose proof (good_flushMinimize (mins s1) s1) as Gx; rewrite EM in Gx; exact Gx).
  assert (Gx : good sa sb) by (pose proof (good_flushExternal true sa) as Gy; rewrite EX in Gy; exact Gy).
  assert (Gs : good sb s2) by (rewrite Es2; apply good_core_eq; reflexivity).
  assert (Ba : next sa <= SMID_MOD) by (pose proof (good_next _ _ Gx); pose proof (good_next _ _ Gs); lia).
  assert (Ia : Inv sa) by (apply (Inv_of_good _ _ Gm I1 Ba)).
  assert (FXm : hfx nof s1 sa) by (pose proof (fx_flushMinimize (mins s1) s1) as Fy; rewrite EM in Fy; exact Fy).
  destruct FXm as [Exa FXa].
  assert (FA : forall b, ahead1 sa b = ahead1 s1 b /\ aextn1 sa b = aextn1 s1 b).
  { intros b. destruct (FXa b) as [A B]. unfold nof in A. rewrite orb_false_r in A. auto. }
  destruct (run_fx true ds s0 s1 o1 HO Hrun) as [AH BX].
  destruct (run_shape true s2 okc (okc_call_shape true s2) ds s0 s1 o1 HO Hrun HI G2 HB) as [cas [E1 [E2 [F [ND [RA _]]]]]].
  assert (CO : Forall (fun ca => ann_ok (fst ca) (snd ca) /\ mappedA (img s2) (fst ca) /\ call_wf (fst ca)) cas).
  { apply Forall_forall. intros ca Hca. rewrite Forall_forall in F. destruct (F ca Hca) as [A M]. repeat split; auto.
    rewrite Forall_forall in HW. apply HW. rewrite <- E1. apply in_map. exact Hca. }
  assert (CA : Forall (fun x => In x (auxs s2)) (somes (map snd cas))).
  { eapply Forall_impl; [|exact RA]. simpl. tauto. }
  pose proof (flushExternal_true_out sa s2 Ia) as XO. rewrite EX in XO. cbn [fst snd] in XO.
  destruct (XO Gs HB) as [Ec2 Fmap]. clear XO.
  set (m := img s2) in *. set (PE := map (fun a => (m a, aextn1 sa a)) (exts sa)).
  assert (RD : forall cs, forallb is_rulecall cs = true -> decls cs = [] /\ asm_of cs = []).
  { intros cs Hcs. split; apply (proj_nil _ is_rulecall); try exact Hcs; intros c0 Hc0; destruct c0; try discriminate; reflexivity. }
  assert (MD : forall cs, forallb is_min cs = true -> decls cs = [] /\ asm_of cs = [] /\ rules_of cs = []).
  { intros cs Hcs. repeat split; apply (proj_nil _ is_min); try exact Hcs; intros c0 Hc0; destruct c0; try discriminate; reflexivity. }
  assert (OD : forall cs, forallb is_output cs = true -> decls cs = [] /\ asm_of cs = [] /\ rules_of cs = []).
  { intros cs Hcs. repeat split; apply (proj_nil _ is_output); try exact Hcs; intros c0 Hc0; destruct c0; try discriminate; reflexivity. }
  assert (XD : forall cs, forallb is_ext cs = true -> asm_of cs = [] /\ rules_of cs = []).
  { intros cs Hcs. repeat split; apply (proj_nil _ is_ext); try exact Hcs; intros c0 Hc0; destruct c0; try discriminate; reflexivity. }
  assert (O1r : forallb is_rulecall o1 = true) by (rewrite E2; apply only_rule_emitL).
  assert (C1m : forallb is_min c1 = true) by (pose proof (only_min_flushMinimize (mins s1) s1) as Q; rewrite EM in Q; exact Q).
  assert (C2x : forallb is_ext c2 = true) by (pose proof (only_ext_flushExternal sa) as Q; rewrite EX in Q; exact Q).
  destruct (RD o1 O1r) as [Q1 Q2]. destruct (MD c1 C1m) as [Q3 [Q4 Q5]]. destruct (OD _ (only_out_flushSymbols sb)) as [Q6 [Q7 Q8]].
  destruct (XD c2 C2x) as [Q9 Q10].
  assert (PR : p_rules (of_calls (o1 ++ o2)) = rules_of o1).
  { rewrite of_calls_fields. cbn [p_rules]. rewrite Eo2, !rules_of_app, Q5, Q8, Q10. simpl. rewrite app_nil_r. reflexivity. }
  assert (PX : p_ext (of_calls (o1 ++ o2)) = PE).
  { rewrite of_calls_fields. cbn [p_ext]. rewrite Eo2, !decls_app, Q1, Q3, Q6. simpl. rewrite app_nil_r, Ec2.
    apply (decls_map_ext m (aextn1 sa)). }
  assert (PA : p_assume (of_calls (o1 ++ o2)) = [- false_atom]).
  { rewrite of_calls_fields. cbn [p_assume]. rewrite Eo2, !asm_of_app, Q2, Q4, Q7, Q9. reflexivity. }
  assert (XIN : forall a, In a (exts sa) -> In a (map fst (decls ds)) /\ m a <> 0).
  { intros a Ha. rewrite Forall_forall in Fmap. split; [|apply Fmap; exact Ha]. rewrite Exa in Ha.
    destruct (run_exts true ds s0 s1 o1 HO Hrun a Ha) as [H|H]; [rewrite F2 in H; destruct H | exact H]. }
  assert (HEADS : forall a, m a <> 0 -> in_head (rules_of o1) (m a) = in_head (rules_of ds) a).
  { intros a Na. rewrite E2. apply (heads_emitted s2 cas ds I2 CO ND CA E1 a Na). }
  assert (VEQ : forall a, In a (exts sa) -> in_head (rules_of ds) a = false ->
            ext_value (m a) PE None = ext_value a (decls ds) None).
  { intros a Ha Hd. destruct (XIN a Ha) as [Da Na].
    unfold PE. rewrite (ext_value_map m (aextn1 sa) (exts sa) a Ha).
    - destruct (ext_value_In a (decls ds) Da) as [v [Ev Iv]]. rewrite Ev. f_equal.
      destruct (FA a) as [_ E3]. rewrite E3.
      assert (Hs1 : ahead1 s1 a = false) by (rewrite AH, F5, Hd; reflexivity).
      destruct (BX a Hs1) as [Q _]. rewrite Q, Ev.
      apply In_decls in Iv. rewrite Forall_forall in HW. pose proof (HW _ Iv) as [_ Wv]. apply Z.mod_small.
      change (2 ^ extn_bits) with 4. lia.
    - intros b Hb Eb. destruct (XIN b Hb) as [_ Nb]. apply (inv_inj _ I2 b a Nb Eb). }
  apply (step_gen true ds s0 s1 s2 o1 o2 HO HW HI HF Hrun Hend HB (ext_rules (of_calls (o1 ++ o2)))).
  - intros X'. unfold answer. rewrite PR, PA. unfold holds. simpl. change (X' 1) with (X' false_atom).
    destruct (X' false_atom); simpl; intuition congruence.
  - intros r Hr. apply In_ext_rules in Hr as [y [Hy Hr]]. apply ext_rule_form in Hr as [ch ->]. split; [reflexivity|].
    intros h [<-|[]]. rewrite PX in Hy. unfold PE in Hy. rewrite map_map in Hy. simpl in Hy. apply in_map_iff in Hy as [a [<- Ha]].
    exists a. split; [apply (XIN a Ha) | reflexivity].
  - intros X' Y'.
    rewrite <- (map_id (ext_rules (of_calls (o1 ++ o2)))).
    rewrite (ext_rules_sem_g (fun r => r) (fun y => y) (of_calls (o1 ++ o2)) X' Y') by reflexivity.
    rewrite PR, PX. unfold ext_sem. split.
    + intros H a Da Hd.
      assert (Hs1 : ahead1 s1 a = false) by (rewrite AH, F5, Hd; reflexivity).
      assert (Ha : In a (exts sa)) by (rewrite Exa; apply (BX a Hs1); right; exact Da).
      destruct (XIN a Ha) as [_ Na].
      assert (Dy : In (m a) (map fst PE)) by (unfold PE; rewrite map_map; simpl; apply in_map_iff; exists a; auto).
      assert (Hy : in_head (rules_of o1) (m a) = false) by (rewrite (HEADS a Na); exact Hd).
      pose proof (H (m a) Dy Hy) as Q. rewrite (VEQ a Ha Hd) in Q. exact Q.
    + intros H y Dy Hy. unfold PE in Dy. rewrite map_map in Dy. simpl in Dy. apply in_map_iff in Dy as [a [<- Ha]].
      destruct (XIN a Ha) as [Da Na]. rewrite (HEADS a Na) in Hy. rewrite (VEQ a Ha Hy). apply (H a Da Hy).
Qed.

(* ---- both modes ---- *)
Theorem equiv_step ext ds s0 s1 o1 s2 o2 :
  forallb okc ds = true -> Forall call_wf ds -> Inv s0 -> fresh_step s0 ->
  cv_run ext s0 ds = Ok (s1, o1) -> cv_call ext s1 CEnd = Ok (s2, o2) -> next s2 <= SMID_MOD ->
  let m := img s2 in let Pin := of_calls ds in let Pout := of_calls (o1 ++ o2) in let atoms := step_atoms m ds in
  exists fw : interp -> interp,
    (forall a b, In a atoms -> In b atoms -> m a = m b -> a = b) /\
    (forall X, answer Pin X ->
       answer Pout (fw X) /\ (forall a, In a atoms -> fw X (m a) = X a) /\
       (forall n, shown Pin X n <-> shown Pout (fw X) n) /\
       (forall prio, cost (p_min Pout) prio (fw X) = cost (p_min Pin) prio X - negs ds prio)) /\
    (forall X', answer Pout X' -> answer Pin (pull m atoms X') /\ forall y, fw (pull m atoms X') y = X' y) /\
    (forall X a, answer Pin X -> pull m atoms (fw X) a = X a).
Proof. destruct ext; [apply equiv_step_ext | apply equiv_step_noext]. Qed.
