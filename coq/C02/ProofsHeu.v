(* C02 - heuristic and edge directives (extensions enabled).  SmodelsConvert::heuristic / acycEdge call makeAtom(cond, true)
   exactly like output (the condition atom itself, or `aux :- cond`), acycEdge names that atom `_edge(s,t)`, heuristic
   queues (atom, type, bias, prio, condition atom); flushHeuristic at endStep emits, for every queued entry whose atom is mapped,
   `output(_heuristic(<name>,<type>,<bias>,<prio>), [condition atom])` directly, where <name> is the atom's name in symTab_ or a
   fresh symbol `_atom(<smId>)` appended to output_.  The generated names are the HELPER NAMES (defined from the format strings
   of V.Gen.Consts); everything else is as for output directives, so a heuristic / edge call is treated as the output call
   `tr c` with a helper name. *)
Require Import V.Lib.Base V.Lib.Calls V.Lib.Dec V.Gen.Consts V.Gen.Consts_C02 V.C02.Model V.C02.Sem V.C02.ProofsMap V.C02.ProofsErr
  V.C02.ProofsSem V.C02.ProofsIso V.C02.ProofsShape V.C02.ProofsDefExt V.C02.ProofsWeight V.C02.ProofsOutput V.C02.ProofsExt
  V.C02.ProofsCompose.
Require Import ZifyBool.
Local Open Scope Z_scope.

Definition is_heu (c : call) : bool := match c with CHeuristic _ _ _ _ _ => true | _ => false end.
Definition is_edge (c : call) : bool := match c with CEdge _ _ _ => true | _ => false end.
Definition okx (c : call) : bool := okc c || is_heu c || is_edge c.

(* ---- the generated names ---- *)
Definition atom_name (k : Z) : list Z := cut0 (format fmt_atom [FU k]).
Definition edge_name (x y : Z) : list Z := cut0 (format fmt_edge [FD x; FD y]).
Definition heu_text (nm t : list Z) (b p : Z) : list Z := format fmt_heuristic [FS nm; FS t; FD b; FU p].
Definition helper_name (n : list Z) : Prop :=
  (exists k, n = atom_name k) \/ (exists x y, n = edge_name x y) \/ (exists nm t b p, n = heu_text nm t b p).

Lemma cut0_idem l : cut0 (cut0 l) = cut0 l.
Proof. induction l as [|c r IH]; simpl; [reflexivity|]. destruct (c =? 0) eqn:E; simpl; [reflexivity|]. rewrite E, IH. reflexivity. Qed.
Lemma nul_free_cut0 l : nul_free (cut0 l).
Proof.
  induction l as [|c r IH]; simpl; [constructor|]. destruct (Z.eqb_spec c 0); [constructor|]. constructor; assumption.
Qed.
Lemma nul_free_app a b : nul_free a -> nul_free b -> nul_free (a ++ b).
Proof. intros A B. apply Forall_app. split; assumption. Qed.
Lemma print_Z_nul_free z : nul_free (print_Z z).
Proof.
  unfold print_Z. destruct (Z.ltb_spec z 0).
  - constructor; [discriminate|]. apply all_digits_nul_free. apply print_nat_digits. lia.
  - apply all_digits_nul_free. apply print_nat_digits. lia.
Qed.
(* the names are plain C strings: the cut at the first NUL is the identity on them *)
Lemma edge_name_plain x y : edge_name x y = format fmt_edge [FD x; FD y].
Proof.
  unfold edge_name. apply cut0_nul_free. cbn [format fmt_edge].
  repeat (first [ apply Forall_nil | apply Forall_cons; [discriminate|] | apply nul_free_app; [apply print_Z_nul_free|] ]).
Qed.
Lemma atom_name_plain k : 0 <= k -> atom_name k = format fmt_atom [FU k].
Proof.
  intros Hk. unfold atom_name. apply cut0_nul_free. cbn [format fmt_atom].
  repeat (first [ apply Forall_nil | apply Forall_cons; [discriminate|]
                | apply nul_free_app; [apply all_digits_nul_free; apply print_nat_digits; exact Hk|] ]).
Qed.

Definition heu_pseudo : list Z := heu_text [] [] 0 0.
Lemma heu_pseudo_nf : nul_free heu_pseudo.
Proof.
  assert (H : forallb (fun c => negb (c =? 0)) heu_pseudo = true) by (vm_compute; reflexivity).
  rewrite forallb_forall in H. apply Forall_forall. intros c Hc. specialize (H c Hc). lia.
Qed.
Lemma heu_pseudo_helper : helper_name heu_pseudo.
Proof. right; right. exists [], [], 0, 0. reflexivity. Qed.

(* a heuristic / edge call read as the output call it behaves like *)
Definition tr (c : call) : call :=
  match c with
  | CEdge x y cond => COutput (edge_name x y) cond
  | CHeuristic a t b p cond => COutput heu_pseudo cond
  | _ => c
  end.
Definition call_wfX (c : call) : Prop :=
  match c with
  | CHeuristic _ _ _ _ cond | CEdge _ _ cond => Forall (fun l => l <> 0) cond
  | _ => call_wf c
  end.
Lemma call_wf_tr c : call_wfX c -> call_wf (tr c).
Proof.
  destruct c; simpl; auto; intros H; (split; [exact H|]); [apply heu_pseudo_nf | apply nul_free_cut0].
Qed.
Lemma okc_tr c : okx c = true -> okc (tr c) = true.
Proof. destruct c; try discriminate; reflexivity. Qed.
Lemma okc_trL ds : forallb okx ds = true -> forallb okc (map tr ds) = true.
Proof.
  induction ds as [|c r IH]; [reflexivity|]. simpl. intros H. apply andb_true_iff in H as [H1 H2].
  rewrite (okc_tr c H1), (IH H2). reflexivity.
Qed.
Lemma rules_of_tr ds : rules_of (map tr ds) = rules_of ds.
Proof. induction ds as [|c r IH]; [reflexivity|]. unfold rules_of in *. simpl. rewrite IH. destruct c; reflexivity. Qed.
Lemma decls_tr ds : decls (map tr ds) = decls ds.
Proof. induction ds as [|c r IH]; [reflexivity|]. unfold decls in *. simpl. rewrite IH. destruct c; reflexivity. Qed.
Lemma mins_of_tr ds : mins_of (map tr ds) = mins_of ds.
Proof. induction ds as [|c r IH]; [reflexivity|]. unfold mins_of in *. simpl. rewrite IH. destruct c; reflexivity. Qed.
Lemma asm_of_tr ds : asm_of (map tr ds) = asm_of ds.
Proof. induction ds as [|c r IH]; [reflexivity|]. unfold asm_of in *. simpl. rewrite IH. destruct c; reflexivity. Qed.
Lemma negs_tr ds prio : negs (map tr ds) prio = negs ds prio.
Proof. induction ds as [|c r IH]; [reflexivity|]. destruct c; simpl; rewrite ?IH; reflexivity. Qed.
Lemma outs_of_tr ds n c : ~ helper_name n -> (In (n, c) (outs_of (map tr ds)) <-> In (n, c) (outs_of ds)).
Proof.
  intros Hn. rewrite !In_outs_of. rewrite in_map_iff. split.
  - intros [c0 [E Hc]]. destruct c0; simpl in E; try discriminate; inversion E; subst.
    + exact Hc.
    + exfalso. apply Hn. apply heu_pseudo_helper.
    + exfalso. apply Hn. right; left. eexists; eexists; reflexivity.
  - intros H. exists (COutput n c). split; [reflexivity | exact H].
Qed.

(* ---- the two calls ---- *)
Definition symsT (m : Z -> Z) (c : call) (ann : option Z) : list (list Z * Z) :=
  match c with CHeuristic _ _ _ _ _ => [] | _ => symsA m (tr c) ann end.

Definition shapeX (m : Z -> Z) (s s1 sf : cv) (c : call) (out : list call) : Prop :=
  exists ann, out = emitA m (tr c) ann /\ ann_ok (tr c) ann /\ mappedA m (tr c) /\
    match ann with Some x => next s <= x < next s1 /\ In x (auxs sf) | None => True end /\
    map sym_na (outs s1) = map sym_na (outs s) ++ symsT m c ann.

(* makeAtom(cond, true) followed by anything that keeps the core and appends `syms` to output_ *)
Lemma makeAtom_call_shape s cond sa a cs s1 sf name (syms : Z -> list (list Z * Z)) :
  makeAtom s cond true = (sa, a, cs) -> good sa s1 -> Inv s -> good s1 sf -> next sf <= SMID_MOD ->
  (forall y, next_start <= y < SMID_MOD -> y = a -> map sym_na (outs s1) = map sym_na (outs sa) ++ syms y) ->
  exists ann, cs = emitA (img sf) (COutput name cond) ann /\ ann_ok (COutput name cond) ann /\
    mappedA (img sf) (COutput name cond) /\
    match ann with Some x => next s <= x < next s1 /\ In x (auxs sf) | None => True end /\
    map sym_na (outs s1) = map sym_na (outs s) ++ syms (match ann with Some x => x | None => img sf (hd 0 cond) end).
Proof.
  intros EM GA HI G HB AO.
  pose proof (makeAtom_shape s cond sf) as MS. pose proof (good_makeAtom s cond true) as GM.
  rewrite EM in MS, GM. cbn [fst snd] in *.
  assert (Ga : good sa sf) by (eapply good_trans; eassumption).
  destruct (MS HI Ga HB) as [HO [F C]].
  assert (Isf : Inv sf).
  { apply (Inv_of_good s sf); [eapply good_trans; [exact GM | exact Ga] | exact HI | exact HB]. }
  pose proof bits_ok as [BO _]. pose proof consts_ok as [_ [C2 _]].
  destruct C as [[c0 [-> [P0 [-> Ea]]]]|[-> [Ra IA]]].
  - exists None. split; [reflexivity|]. split; [intros _; exists c0; auto|]. split; [exact F|]. split; [exact I|].
    simpl. rewrite <- HO. rewrite <- Ea. apply AO; [|reflexivity]. rewrite Ea.
    inversion F as [|? ? F0 _]; subst. replace (Z.abs c0) with c0 in F0 by lia.
    pose proof (inv_rng _ Isf c0 F0). pose proof (inv_lo _ Isf). lia.
  - exists (Some a). split; [reflexivity|]. split; [intros; discriminate|]. split; [exact F|].
    pose proof (good_next _ _ GA) as LA.
    split; [split; [lia | exact IA]|].
    rewrite <- HO. apply AO; [|reflexivity]. pose proof (inv_lo _ HI). pose proof (good_next _ _ Ga). lia.
Qed.

Lemma edge_call_shape s x y cond s1 out sf :
  cv_call true s (CEdge x y cond) = Ok (s1, out) -> Inv s -> good s1 sf -> next sf <= SMID_MOD ->
  shapeX (img sf) s s1 sf (CEdge x y cond) out.
Proof.
  cbn [cv_call]. destruct (makeAtom s cond true) as [[sa a] cs] eqn:EM.
  pose proof (addOutput_outs sa a (format fmt_edge [FD x; FD y]) false) as AO.
  pose proof (good_addOutput sa a (format fmt_edge [FD x; FD y]) false) as GA.
  destruct (addOutput sa a (format fmt_edge [FD x; FD y]) false) as [s2 nm]. cbn [fst snd] in *.
  intros H HI G HB. inversion H; subst. clear H. simpl. pose proof bits_ok as [BO _]. pose proof consts_ok as [_ [C2 _]].
  destruct (makeAtom_call_shape s cond sa a out s1 sf (edge_name x y) (fun y0 => [(edge_name x y, y0)]) EM GA HI G HB)
    as [ann [E1 [E2 [E3 [E4 E5]]]]].
  { intros y0 Ry ->. rewrite AO. rewrite Z.mod_small by lia. reflexivity. }
  exists ann. split; [exact E1|]. split; [exact E2|]. split; [exact E3|]. split; [exact E4|].
  rewrite E5. unfold symsT, tr, symsA, edge_name. rewrite cut0_idem. reflexivity.
Qed.

Lemma heu_call_shape s a t b p cond s1 out sf :
  cv_call true s (CHeuristic a t b p cond) = Ok (s1, out) -> Inv s -> good s1 sf -> next sf <= SMID_MOD ->
  shapeX (img sf) s s1 sf (CHeuristic a t b p cond) out.
Proof.
  cbn [cv_call]. destruct (makeAtom s cond true) as [[sa hp] cs] eqn:EM.
  intros H HI G HB. inversion H; subst. clear H. simpl.
  assert (GA : good sa (set_heus sa (heus sa ++ [mkH a t b p hp]))) by (apply good_core_eq; reflexivity).
  destruct (makeAtom_call_shape s cond sa hp out _ sf heu_pseudo (fun _ => []) EM GA HI G HB)
    as [ann [E1 [E2 [E3 [E4 E5]]]]].
  { intros y0 _ _. simpl. rewrite app_nil_r. reflexivity. }
  exists ann. split; [exact E1|]. split; [exact E2|]. split; [exact E3|]. split; [exact E4|]. exact E5.
Qed.

Lemma okx_call_shape sf s c s1 out :
  okx c = true -> cv_call true s c = Ok (s1, out) -> Inv s -> good s1 sf -> next sf <= SMID_MOD ->
  shapeX (img sf) s s1 sf c out.
Proof.
  intros Hc. destruct (okc c) eqn:Ho.
  - intros H HI G HB. destruct (okc_call_shape true sf s c s1 out Ho H HI G HB) as [ann Q].
    exists ann. destruct c; try discriminate; exact Q.
  - destruct c; try discriminate; [apply heu_call_shape | apply edge_call_shape].
Qed.

(* ---- a run of such calls ---- *)
Definition trL (cas0 : list (call * option Z)) : list (call * option Z) := map (fun ca => (tr (fst ca), snd ca)) cas0.
Definition symsTL (m : Z -> Z) (cas0 : list (call * option Z)) : list (list Z * Z) :=
  flat_map (fun ca => symsT m (fst ca) (snd ca)) cas0.

Lemma trL_snd cas0 : map snd (trL cas0) = map snd cas0.
Proof. unfold trL. rewrite map_map. reflexivity. Qed.
Lemma trL_fst cas0 : map fst (trL cas0) = map tr (map fst cas0).
Proof. unfold trL. rewrite !map_map. reflexivity. Qed.

Lemma run_shapeX sf : forall ds s s1 out, forallb okx ds = true -> cv_run true s ds = Ok (s1, out) -> Inv s -> good s1 sf ->
    next sf <= SMID_MOD ->
  exists cas0, map fst cas0 = ds /\ out = emitL (img sf) (trL cas0) /\
    Forall (fun ca => ann_ok (tr (fst ca)) (snd ca) /\ mappedA (img sf) (tr (fst ca))) cas0 /\
    NoDup (somes (map snd cas0)) /\
    Forall (fun x => next s <= x < next s1 /\ In x (auxs sf)) (somes (map snd cas0)) /\
    map sym_na (outs s1) = map sym_na (outs s) ++ symsTL (img sf) cas0.
Proof.
  induction ds as [|c r IH]; intros s s1 out HR Hrun HI G HB; simpl in *.
  - inversion Hrun; subst. exists []. simpl. rewrite app_nil_r. repeat split; constructor.
  - apply andb_true_iff in HR as [Hc Hr].
    destruct (cv_call true s c) as [[sa oa]|] eqn:Ec; [|discriminate].
    destruct (cv_run true sa r) as [[sb ob]|] eqn:Er; [|discriminate]. inversion Hrun; subst.
    assert (Ga : good sa s1) by (eapply good_cv_run; exact Er).
    assert (Gf : good sa sf) by (eapply good_trans; eassumption).
    assert (Ba : next sa <= SMID_MOD) by (destruct Gf as [L _]; lia).
    assert (Gc : good s sa) by (eapply good_cv_call; exact Ec).
    assert (Ia : Inv sa) by (apply (Inv_of_good _ _ Gc HI Ba)).
    destruct (okx_call_shape sf s c sa oa Hc Ec HI Gf HB) as [ann [E1 [A1 [M1 [X1 O1]]]]].
    destruct (IH sa s1 ob Hr Er Ia G HB) as [cas [E2 [E3 [F2 [N2 [R2 O2]]]]]].
    exists ((c, ann) :: cas). simpl. split; [rewrite E2; reflexivity|].
    split; [unfold emitL in *; simpl; rewrite E1, E3; reflexivity|].
    split; [constructor; [split; assumption | exact F2]|].
    pose proof (good_next _ _ Gc) as L1. pose proof (good_next _ _ Ga) as L2.
    assert (R2' : Forall (fun x => next s <= x < next s1 /\ In x (auxs sf)) (somes (map snd cas))).
    { eapply Forall_impl; [|exact R2]. simpl. intros x [Hx Ix]. split; [lia | exact Ix]. }
    assert (O3 : map sym_na (outs s1) = map sym_na (outs s) ++ symsTL (img sf) ((c, ann) :: cas)).
    { unfold symsTL in *. simpl. rewrite O2, O1, app_assoc. reflexivity. }
    destruct ann as [x|]; simpl; [|repeat split; assumption].
    destruct X1 as [Rx Ix]. split; [|split; [|exact O3]].
    + constructor; [|exact N2]. intros Hin. rewrite Forall_forall in R2. destruct (R2 x Hin) as [Hx _]. lia.
    + constructor; [split; [lia | exact Ix] | exact R2'].
Qed.

(* the symbols of output_ against the symbols of the translated calls: they differ in helper names only *)
Lemma symsTL_symsL m cas0 n y : ~ helper_name n -> (In (n, y) (symsTL m cas0) <-> In (n, y) (symsL m (trL cas0))).
Proof.
  intros Hn. unfold symsTL, symsL, trL. rewrite !in_flat_map. split.
  - intros [[c ann] [Hc H]]. exists (tr c, ann). split; [apply (in_map (fun ca => (tr (fst ca), snd ca))) in Hc; exact Hc|].
    simpl in *. destruct c; try exact H. destruct H.
  - intros [ca [Hc H]]. apply in_map_iff in Hc as [[c ann] [<- Hc]]. exists (c, ann). split; [exact Hc|]. simpl in *.
    destruct c; try exact H. simpl in H. destruct H as [H|[]]. inversion H; subst. exfalso. apply Hn.
    exact heu_pseudo_helper.
Qed.

(* ---- head / external flags through such calls ---- *)
Lemma call_fxX s c s1 out : okx c = true -> is_ext c = false -> cv_call true s c = Ok (s1, out) ->
  hfx (in_head (rules_of [c])) s s1.
Proof.
  intros Hc Ie. destruct (okc c) eqn:Ho; [apply (call_fx true s c s1 out Ho Ie)|].
  destruct c; try discriminate; cbn [cv_call].
  - pose proof (fx_makeAtom s cond true) as H1. destruct (makeAtom s cond true) as [[sa hp] cs]. cbn [fst] in *.
    intros H; inversion H; subst. eapply hfx_ext; [|eapply hfx_nn; [exact H1 | apply fx_core; reflexivity]]. reflexivity.
  - pose proof (fx_makeAtom s cond true) as H1. destruct (makeAtom s cond true) as [[sa hp] cs]. cbn [fst] in *.
    unfold addOutput. intros H; inversion H; subst.
    eapply hfx_ext; [|eapply hfx_nn; [exact H1 | apply fx_core; reflexivity]]. reflexivity.
Qed.

Lemma run_fxX ds : forall s s1 out, forallb okx ds = true -> cv_run true s ds = Ok (s1, out) ->
  (forall b, ahead1 s1 b = (ahead1 s b || in_head (rules_of ds) b)) /\
  (forall b, ahead1 s1 b = false ->
     aextn1 s1 b = match ext_value b (decls ds) None with Some v => v mod 2 ^ extn_bits | None => aextn1 s b end /\
     (In b (exts s1) <-> In b (exts s) \/ In b (map fst (decls ds)))).
Proof.
  induction ds as [|c r IH]; intros s s1 out HO Hrun; cbn [forallb] in HO; cbn [cv_run] in Hrun.
  - inversion Hrun; subst. simpl. split; [intros b; rewrite orb_false_r; reflexivity|]. intros b _. split; [reflexivity | tauto].
  - apply andb_true_iff in HO as [Hc Hr].
    destruct (cv_call true s c) as [[sa oa]|] eqn:Ec; [|discriminate].
    destruct (cv_run true sa r) as [[sb ob]|] eqn:Er; [|discriminate]. inversion Hrun; subst.
    destruct (IH sa s1 ob Hr Er) as [A2 B2].
    change (c :: r) with ([c] ++ r). rewrite rules_of_app.
    destruct (is_ext c) eqn:Ie.
    + destruct c; try discriminate. destruct (ext_call_fx true s a v sa oa Ec) as [_ [A1 C1]].
      split.
      * intros b. rewrite A2, A1. simpl. reflexivity.
      * intros b Hb. destruct (B2 b Hb) as [V2 Q2].
        assert (Hsa : ahead1 sa b = false) by (rewrite A2 in Hb; apply orb_false_iff in Hb; tauto).
        cbn [decls flat_map app map fst]. fold (decls r). cbn [ext_value].
        rewrite (ext_value_cur b (decls r)). rewrite V2, Q2.
        destruct (ahead1 s a) eqn:Has.
        -- destruct C1 as [C1 C2]. assert (Hab : a <> b) by (intros ->; rewrite A1 in Hsa; congruence).
           replace (a =? b) with false by lia. rewrite C1, C2. split; [destruct (ext_value b (decls r) None); reflexivity|]. simpl. intuition.
        -- destruct C1 as [C1 C2]. rewrite C1, C2, in_app_iff. destruct (Z.eqb_spec a b) as [->|Hn].
           ++ split; [destruct (ext_value b (decls r) None); reflexivity|]. simpl. intuition.
           ++ split; [destruct (ext_value b (decls r) None); reflexivity|]. simpl. intuition.
    + destruct (call_fxX s c sa oa Hc Ie Ec) as [E1 H1].
      assert (Dc : decls ([c] ++ r) = decls r) by (destruct c; try discriminate; reflexivity).
      split.
      * intros b. rewrite A2. destruct (H1 b) as [A1 _]. rewrite A1, in_head_app, orb_assoc. reflexivity.
      * intros b Hb. destruct (B2 b Hb) as [V2 Q2]. destruct (H1 b) as [_ X1]. rewrite Dc, V2, Q2, X1, E1. tauto.
Qed.

Lemma run_extsX ds : forall s s1 out, forallb okx ds = true -> cv_run true s ds = Ok (s1, out) ->
  forall b, In b (exts s1) -> In b (exts s) \/ In b (map fst (decls ds)).
Proof.
  induction ds as [|c r IH]; intros s s1 out HO Hrun b Hb; cbn [forallb] in HO; cbn [cv_run] in Hrun.
  - inversion Hrun; subst. left; exact Hb.
  - apply andb_true_iff in HO as [Hc Hr].
    destruct (cv_call true s c) as [[sa oa]|] eqn:Ec; [|discriminate].
    destruct (cv_run true sa r) as [[sb ob]|] eqn:Er; [|discriminate]. inversion Hrun; subst.
    change (c :: r) with ([c] ++ r). rewrite decls_app, map_app, in_app_iff.
    destruct (IH sa s1 ob Hr Er b Hb) as [H|H]; [|right; right; exact H].
    destruct (is_ext c) eqn:Ie.
    + destruct c; try discriminate. destruct (ext_call_fx true s a v sa oa Ec) as [_ [_ C1]].
      destruct (ahead1 s a); destruct C1 as [C1 _]; rewrite C1 in H; [left; exact H|].
      apply in_app_iff in H as [H|[<-|[]]]; [left; exact H | right; left; simpl; left; reflexivity].
    + destruct (call_fxX s c sa oa Hc Ie Ec) as [E1 _]. rewrite E1 in H. left; exact H.
Qed.

(* ---- flushExternal (extensions on) and flushHeuristic: flags untouched ---- *)
Lemma fx_flushExternal_f_true es : forall s hd, hfx nof s (fst (fst (flushExternal_f true s es hd))).
Proof.
  induction es as [|a r IH]; intros s hd; simpl; [apply hfx_refl|].
  pose proof (fx_mapAtom s a) as H1. destruct (mapAtom s a) as [s1 ar]. cbn [fst] in H1.
  pose proof (IH s1 hd) as H2. destruct (flushExternal_f true s1 r hd) as [[s2 cs] hd2]. cbn [fst] in *.
  eapply hfx_nn; eassumption.
Qed.
Lemma fx_flushExternal_true s : hfx nof s (fst (flushExternal true s)).
Proof.
  unfold flushExternal. pose proof (fx_flushExternal_f_true (exts s) s []) as H.
  destruct (flushExternal_f true s (exts s) []) as [[s1 cs] hd]. exact H.
Qed.

Definition helper_out (c : call) : Prop := exists n y, c = COutput n [y] /\ helper_name n.

Lemma flushHeuristic_props hs : forall s,
  hfx nof s (fst (flushHeuristic_f s hs)) /\
  Forall helper_out (snd (flushHeuristic_f s hs)) /\
  exists L, map sym_na (outs (fst (flushHeuristic_f s hs))) = map sym_na (outs s) ++ L /\
            Forall (fun e => helper_name (fst e)) L.
Proof.
  induction hs as [|h r IH]; intros s; cbn [flushHeuristic_f].
  - split; [apply hfx_refl|]. split; [constructor|]. exists []. rewrite app_nil_r. split; [reflexivity | constructor].
  - destruct (negb (mapped s (h_atom h))); [apply IH|].
    pose proof (fx_mapAtom s (h_atom h)) as F1. pose proof (mapAtom_spec s (h_atom h)) as SP.
    pose proof (ho_mapAtom s (h_atom h)) as [_ HO1].
    destruct (mapAtom s (h_atom h)) as [s1 ma]. destruct SP as [_ [_ [Fd _]]]. cbn [fst] in *.
    destruct (if ashow ma then sym_find (smId ma) (symtab s1) else None) as [n|].
    + destruct (IH s1) as [A [B [L [C D]]]]. destruct (flushHeuristic_f s1 r) as [s3 cs]. cbn [fst snd] in *.
      split; [eapply hfx_nn; eassumption|]. split.
      * constructor; [|exact B]. eexists; eexists. split; [reflexivity|]. right; right. do 4 eexists. reflexivity.
      * exists L. rewrite C, HO1. split; [reflexivity | exact D].
    + set (s1' := set_amap s1 (upd (h_atom h) (mkA (smId ma) (ahead ma) true (aextn ma)) (amap s1))).
      assert (F2 : hfx nof s1 s1').
      { eapply hfx_ext; [|eapply (hfx_upd s1 s1' (h_atom h) _ false); try reflexivity].
        - intros b. unfold nof. apply andb_false_r.
        - simpl. unfold ahead1. rewrite Fd, orb_false_r. reflexivity.
        - simpl. unfold aextn1. rewrite Fd. reflexivity. }
      pose proof (addOutput_outs s1' (smId ma) (format fmt_atom [FU (smId ma)]) true) as AO.
      assert (F3 : hfx nof s1' (fst (addOutput s1' (smId ma) (format fmt_atom [FU (smId ma)]) true)))
        by (apply fx_core; reflexivity).
      assert (EN : snd (addOutput s1' (smId ma) (format fmt_atom [FU (smId ma)]) true) = atom_name (smId ma)) by reflexivity.
      destruct (addOutput s1' (smId ma) (format fmt_atom [FU (smId ma)]) true) as [s2 name]. cbn [fst snd] in *.
      destruct (IH s2) as [A [B [L [C D]]]]. destruct (flushHeuristic_f s2 r) as [s3 cs]. cbn [fst snd] in *.
      split; [eapply hfx_nn; [exact F1|]; eapply hfx_nn; [exact F2|]; eapply hfx_nn; eassumption|]. split.
      * constructor; [|exact B]. eexists; eexists. split; [reflexivity|]. right; right. do 4 eexists. reflexivity.
      * exists ((atom_name (smId ma), smId ma mod 2 ^ sym_atom_bits) :: L). rewrite C, AO.
        assert (O1 : outs s1' = outs s) by (subst s1'; simpl; exact HO1). rewrite O1, <- app_assoc. split; [reflexivity|].
        constructor; [left; eexists; reflexivity | exact D].
Qed.

Lemma helper_out_fields cs : Forall helper_out cs ->
  rules_of cs = [] /\ decls cs = [] /\ asm_of cs = [] /\ mins_of cs = [] /\ forallb nomin cs = true /\
  forall n c, In (n, c) (outs_of cs) -> helper_name n.
Proof.
  induction 1 as [|c r [n [y [-> Hn]]] Hr IH]; [repeat split; try reflexivity; intros n c []|].
  destruct IH as [A [B [C [D [E F]]]]].
  change (COutput n [y] :: r) with ([COutput n [y]] ++ r).
  rewrite rules_of_app, decls_app, asm_of_app. unfold mins_of, outs_of in *. rewrite !flat_map_app. simpl.
  rewrite A, B, C, D. repeat split; try reflexivity; try exact E.
  intros n0 c0 [H0|H0]; [inversion H0; subst; exact Hn | apply (F n0 c0 H0)].
Qed.

(* ---- the flush of a step that may hold heuristic entries ---- *)
Lemma flush_partsX s s2 o2 : cv_call true s CEnd = Ok (s2, o2) ->
  exists sa sb sc c1 c2 c3, flushMinimize s (mins s) = (sa, c1) /\ flushExternal true sa = (sb, c2) /\
    flushHeuristic_f sb (heus sb) = (sc, c3) /\
    o2 = c1 ++ c2 ++ c3 ++ flushSymbols sc ++ [CAssume [- false_atom]; CEnd] /\ s2 = flushStep sc.
Proof.
  cbn [cv_call]. unfold flush. intros H.
  destruct (flushMinimize s (mins s)) as [sa c1] eqn:E1. destruct (flushExternal true sa) as [sb c2] eqn:E2.
  destruct (flushHeuristic_f sb (heus sb)) as [sc c3] eqn:E3. inversion H; subst.
  exists sa, sb, sc, c1, c2, c3. split; [reflexivity|]. split; [exact E2|]. split; [exact E3|]. split; [|reflexivity].
  rewrite <- !app_assoc. reflexivity.
Qed.
