(* C02 - external directives.  SmData::addExternal stores the value in the atom record (unless the atom is already a
   head) and queues the atom; SmodelsConvert::flushExternal at endStep passes `external(m a, value)` on when the extensions
   are enabled, and otherwise emits a fact for True, one choice rule over all Free atoms, nothing for False / Release,
   skipping atoms that have become heads.  Tracking of the head / extn flags through a run, the exact output of the
   flush, and the reduct-level meaning of both forms against Sem.ext_rules. *)
Require Import V.Lib.Base V.Lib.Calls V.Gen.Consts V.Gen.Consts_C02 V.C02.Model V.C02.Sem V.C02.ProofsMap V.C02.ProofsErr
  V.C02.ProofsIso V.C02.ProofsShape V.C02.ProofsDefExt V.C02.ProofsWeight.
Require Import ZifyBool.
Local Open Scope Z_scope.

Definition ahead1 (s : cv) (b : Z) : bool := ahead (find b (amap s)).
Definition aextn1 (s : cv) (b : Z) : Z := aextn (find b (amap s)).
(* effect on extern_ and on the head / extn flags: heads gain f, the rest is unchanged *)
Definition hfx (f : Z -> bool) (s s' : cv) : Prop :=
  exts s' = exts s /\ forall b, ahead1 s' b = (ahead1 s b || f b) /\ aextn1 s' b = aextn1 s b.
Definition nof : Z -> bool := fun _ => false.

Lemma hfx_refl s : hfx nof s s.
Proof. split; [reflexivity|]. intros b. unfold nof. rewrite orb_false_r. auto. Qed.
Lemma hfx_trans f g s1 s2 s3 : hfx f s1 s2 -> hfx g s2 s3 -> hfx (fun b => f b || g b) s1 s3.
Proof.
  intros [E1 H1] [E2 H2]. split; [congruence|]. intros b. destruct (H1 b) as [A1 B1]. destruct (H2 b) as [A2 B2].
  split; [rewrite A2, A1, orb_assoc; reflexivity | congruence].
Qed.
Lemma hfx_ext f g s s' : (forall b, f b = g b) -> hfx f s s' -> hfx g s s'.
Proof. intros E [H1 H2]. split; [exact H1|]. intros b. rewrite <- E. apply H2. Qed.
Lemma hfx_nn s1 s2 s3 : hfx nof s1 s2 -> hfx nof s2 s3 -> hfx nof s1 s3.
Proof. intros A B. eapply hfx_ext; [|eapply hfx_trans; eassumption]. reflexivity. Qed.
Lemma hfx_nf f s1 s2 s3 : hfx nof s1 s2 -> hfx f s2 s3 -> hfx f s1 s3.
Proof. intros A B. eapply hfx_ext; [|eapply hfx_trans; eassumption]. reflexivity. Qed.
Lemma hfx_fn f s1 s2 s3 : hfx f s1 s2 -> hfx nof s2 s3 -> hfx f s1 s3.
Proof. intros A B. eapply hfx_ext; [|eapply hfx_trans; eassumption]. intros b. unfold nof. apply orb_false_r. Qed.

(* replacing one record *)
Lemma hfx_upd s s' a r' hd :
  amap s' = upd a r' (amap s) -> exts s' = exts s -> ahead r' = (ahead1 s a || hd) -> aextn r' = aextn1 s a ->
  hfx (fun b => (a =? b) && hd) s s'.
Proof.
  intros Ea Ee Eh Ex. split; [exact Ee|]. intros b. unfold ahead1, aextn1 in *. rewrite Ea.
  destruct (Z.eqb_spec a b) as [->|Hn].
  - rewrite find_upd_same. simpl. auto.
  - rewrite find_upd_other by exact Hn. simpl. rewrite orb_false_r. auto.
Qed.

Lemma fx_mapAtom s a : hfx nof s (fst (mapAtom s a)).
Proof.
  unfold mapAtom. destruct (negb (smId (find a (amap s)) =? 0)); [apply hfx_refl|]. cbn [fst].
  eapply hfx_ext; [|eapply (hfx_upd s _ a _ false); try reflexivity].
  - intros b. unfold nof. apply andb_false_r.
  - simpl. unfold ahead1. rewrite orb_false_r. reflexivity.
Qed.
Lemma fx_mapLit s l : hfx nof s (fst (mapLit s l)).
Proof. unfold mapLit. pose proof (fx_mapAtom s (Z.abs l)). destruct (mapAtom s (Z.abs l)). exact H. Qed.
Lemma fx_mapLits ls : forall s, hfx nof s (fst (mapLits s ls)).
Proof.
  induction ls as [|l r IH]; intros s; simpl; [apply hfx_refl|].
  pose proof (fx_mapLit s l) as H1. destruct (mapLit s l) as [s1 x]. pose proof (IH s1) as H2.
  destruct (mapLits s1 r). simpl in *. eapply hfx_nn; eassumption.
Qed.
Lemma fx_mapWLits ls : forall s, hfx nof s (fst (mapWLits s ls)).
Proof.
  induction ls as [|[l w] r IH]; intros s; simpl; [apply hfx_refl|].
  pose proof (fx_mapLit s l) as H1. destruct (mapLit s l) as [s1 x]. pose proof (IH s1) as H2.
  destruct (mapWLits s1 r). simpl in *. eapply hfx_nn; eassumption.
Qed.
Lemma fx_core s s' : amap s' = amap s -> exts s' = exts s -> hfx nof s s'.
Proof.
  intros Ea Ee. split; [exact Ee|]. intros b. unfold ahead1, aextn1, nof. rewrite Ea, orb_false_r. auto.
Qed.
Lemma fx_makeAux s cond : hfx nof s (fst (fst (makeAux s cond))).
Proof.
  unfold makeAux, newAtom.
  match goal with |- context [mapLits ?s0 cond] => pose proof (fx_mapLits cond s0) as H; destruct (mapLits s0 cond) end.
  simpl in *. eapply hfx_nn; [|exact H]. apply fx_core; reflexivity.
Qed.
Lemma fx_makeAtom s cond named : hfx nof s (fst (fst (makeAtom s cond named))).
Proof.
  unfold makeAtom. destruct cond as [|c [|c2 r]]; try apply fx_makeAux.
  destruct (c <? 0); [apply fx_makeAux|].
  pose proof (fx_mapAtom s (Z.abs c)) as H. pose proof (mapAtom_spec s (Z.abs c)) as SP.
  destruct (mapAtom s (Z.abs c)) as [s1 r]. destruct SP as [_ [_ [Fd _]]]. simpl in H.
  destruct (ashow r && named).
  - eapply hfx_nn; [exact H | apply fx_makeAux].
  - cbn [fst]. eapply hfx_nn; [exact H|].
    eapply hfx_ext; [|eapply (hfx_upd s1 _ (Z.abs c) _ false); try reflexivity].
    + intros b. unfold nof. apply andb_false_r.
    + simpl. unfold ahead1. rewrite Fd, orb_false_r. reflexivity.
    + simpl. unfold aextn1. rewrite Fd. reflexivity.
Qed.
Lemma fx_flushMinimize m : forall s, hfx nof s (fst (flushMinimize s m)).
Proof.
  induction m as [|[p ls] r IH]; intros s; simpl; [apply hfx_refl|].
  pose proof (fx_mapWLits ls s) as H1. destruct (mapWLits s ls) as [s1 ml]. pose proof (IH s1) as H2.
  destruct (flushMinimize s1 r). simpl in *. eapply hfx_nn; eassumption.
Qed.

Definition inl (h : list Z) (b : Z) : bool := existsb (Z.eqb b) h.
Lemma fx_mapHeadAtoms h : forall s, hfx (inl h) s (fst (mapHeadAtoms s h)).
Proof.
  induction h as [|a r IH]; intros s; simpl; [apply hfx_refl|].
  assert (H1 : hfx (fun b => a =? b) s (fst (mapHeadAtom s a))).
  { unfold mapHeadAtom. pose proof (fx_mapAtom s a) as H. pose proof (mapAtom_spec s a) as SP.
    destruct (mapAtom s a) as [s1 ar]. destruct SP as [_ [_ [Fd _]]]. cbn [fst] in *.
    eapply hfx_nf; [exact H|].
    eapply hfx_ext; [|eapply (hfx_upd s1 _ a _ true); try reflexivity].
    - intros b. apply andb_true_r.
    - simpl. rewrite orb_true_r. reflexivity.
    - simpl. unfold aextn1. rewrite Fd. reflexivity. }
  destruct (mapHeadAtom s a) as [s1 x]. pose proof (IH s1) as H2. destruct (mapHeadAtoms s1 r). cbn [fst] in *.
  eapply hfx_ext; [|eapply hfx_trans; eassumption]. intros b. unfold inl. simpl. rewrite (Z.eqb_sym b a). reflexivity.
Qed.
Lemma fx_mapHead s h : hfx (inl h) s (fst (mapHead s h)).
Proof. unfold mapHead. pose proof (fx_mapHeadAtoms h s). destruct (mapHeadAtoms s h). exact H. Qed.

Lemma in_head_single ch h bd b : in_head [mkRule ch h bd] b = inl h b.
Proof. unfold in_head, inl. simpl. apply orb_false_r. Qed.

(* the calls of one step other than external *)
Definition okc (c : call) : bool :=
  match c with CRule _ _ _ | CWRule _ _ _ _ | COutput _ _ | CExternal _ _ | CMin _ _ => true | _ => false end.
Definition is_ext (c : call) : bool := match c with CExternal _ _ => true | _ => false end.

Lemma call_fx ext s c s1 out : okc c = true -> is_ext c = false -> cv_call ext s c = Ok (s1, out) ->
  hfx (in_head (rules_of [c])) s s1.
Proof.
  destruct c; try discriminate; intros _ _; cbn [cv_call].
  - intros H0. unfold rules_of. simpl. eapply hfx_ext; [intros b; symmetry; apply in_head_single|]. revert H0.
    destruct (negb _ || _) eqn:K.
    + pose proof (fx_mapHead s head) as H1. destruct (mapHead s head) as [sa mh].
      pose proof (fx_mapLits body sa) as H2. destruct (mapLits sa body) as [sb mb]. cbn [fst] in *.
      intros H; inversion H; subst. eapply hfx_fn; eassumption.
    + intros H; inversion H; subst. destruct head; [|discriminate]. apply hfx_refl.
  - intros H0. unfold rules_of. simpl. eapply hfx_ext; [intros b; symmetry; apply in_head_single|]. revert H0.
    destruct (negb _ || _) eqn:K.
    + pose proof (fx_mapHead s head) as H1. destruct (mapHead s head) as [sa mh].
      pose proof (fx_mapWLits body sa) as H2. destruct (mapWLits sa body) as [sb mb]. cbn [fst] in *.
      destruct (negb (ht =? Head_t_Choice) && _ && _); intros H; inversion H; subst.
      * eapply hfx_fn; eassumption.
      * eapply hfx_fn; [eassumption|]. eapply hfx_nn; [eassumption|]. apply fx_core; reflexivity.
    + intros H; inversion H; subst. destruct head; [|discriminate]. apply hfx_refl.
  - destruct (norm_min lits); [|discriminate]. intros H; inversion H; subst. apply fx_core; reflexivity.
  - pose proof (fx_makeAtom s cond true) as H1. destruct (makeAtom s cond true) as [[sa a] cs]. cbn [fst] in *.
    unfold addOutput. intros H; inversion H; subst. eapply hfx_nn; [exact H1|]. apply fx_core; reflexivity.
Qed.

Lemma ext_call_fx ext s a v s1 out : cv_call ext s (CExternal a v) = Ok (s1, out) ->
  out = [] /\ (forall b, ahead1 s1 b = ahead1 s b) /\
  if ahead1 s a then exts s1 = exts s /\ forall b, aextn1 s1 b = aextn1 s b
  else exts s1 = exts s ++ [a] /\ forall b, aextn1 s1 b = if a =? b then v mod 2 ^ extn_bits else aextn1 s b.
Proof.
  cbn [cv_call]. pose proof (fx_mapAtom s a) as [E1 H1]. pose proof (mapAtom_spec s a) as SP.
  destruct (mapAtom s a) as [sa r]. destruct SP as [_ [_ [Fd _]]]. cbn [fst] in *.
  assert (Ha : ahead r = ahead1 s a).
  { destruct (H1 a) as [A _]. unfold ahead1 in A at 1. rewrite Fd in A. unfold nof in A. rewrite orb_false_r in A. exact A. }
  rewrite <- Ha. destruct (ahead r) eqn:Hr; intros H; inversion H as [[Hs Ho]]; (split; [reflexivity|]).
  - try rewrite <- Hs.
    split; [|split; [exact E1|]]; intros b; destruct (H1 b) as [A B]; unfold nof in A; rewrite orb_false_r in A; assumption.
  - clear H. try rewrite <- Hs.
    set (s2 := set_exts (set_amap sa (upd a (mkA (smId r) false (ashow r) (v mod 2 ^ extn_bits)) (amap sa))) (exts sa ++ [a])).
    assert (F : forall b, find b (amap s2) = if a =? b then mkA (smId r) false (ashow r) (v mod 2 ^ extn_bits) else find b (amap sa)).
    { intros b. subst s2. simpl. destruct (Z.eqb_spec a b) as [->|Hn]; [apply find_upd_same | apply find_upd_other; exact Hn]. }
    split; [|split].
    + intros b. destruct (H1 b) as [A _]. unfold nof in A. rewrite orb_false_r in A. rewrite <- A. unfold ahead1. rewrite F.
      destruct (Z.eqb_spec a b) as [<-|_]; [rewrite Fd; simpl; auto | reflexivity].
    + subst s2. simpl. rewrite E1. reflexivity.
    + intros b. destruct (H1 b) as [_ B]. rewrite <- B. unfold aextn1. rewrite F. destruct (a =? b); reflexivity.
Qed.

(* ---- a run of directives: head flags, stored values, queue ---- *)
Definition decls (ds : list call) : list (Z * Z) :=
  flat_map (fun c => match c with CExternal a v => [(a, v)] | _ => [] end) ds.

Lemma ext_value_cur a es : forall cur,
  ext_value a es cur = match ext_value a es None with Some v => Some v | None => cur end.
Proof.
  induction es as [|[b v] r IH]; intros cur; simpl; [reflexivity|].
  destruct (b =? a); [rewrite (IH (Some v)); destruct (ext_value a r None); reflexivity | apply IH].
Qed.

Lemma in_head_app P Q b : in_head (P ++ Q) b = in_head P b || in_head Q b.
Proof. unfold in_head. apply existsb_app. Qed.

Lemma run_fx ext ds : forall s s1 out, forallb okc ds = true -> cv_run ext s ds = Ok (s1, out) ->
  (forall b, ahead1 s1 b = (ahead1 s b || in_head (rules_of ds) b)) /\
  (forall b, ahead1 s1 b = false ->
     aextn1 s1 b = match ext_value b (decls ds) None with Some v => v mod 2 ^ extn_bits | None => aextn1 s b end /\
     (In b (exts s1) <-> In b (exts s) \/ In b (map fst (decls ds)))).
Proof.
  induction ds as [|c r IH]; intros s s1 out HO Hrun; cbn [forallb] in HO; cbn [cv_run] in Hrun.
  - inversion Hrun; subst. simpl. split; [intros b; rewrite orb_false_r; reflexivity|]. intros b _. split; [reflexivity | tauto].
  - apply andb_true_iff in HO as [Hc Hr].
    destruct (cv_call ext s c) as [[sa oa]|] eqn:Ec; [|discriminate].
    destruct (cv_run ext sa r) as [[sb ob]|] eqn:Er; [|discriminate]. inversion Hrun; subst.
    destruct (IH sa s1 ob Hr Er) as [A2 B2].
    change (c :: r) with ([c] ++ r). rewrite rules_of_app.
    destruct (is_ext c) eqn:Ie.
    + destruct c; try discriminate. destruct (ext_call_fx ext s a v sa oa Ec) as [_ [A1 C1]].
      split.
      * intros b. rewrite A2, A1. simpl. reflexivity.
      * intros b Hb. destruct (B2 b Hb) as [V2 Q2].
        assert (Hsa : ahead1 sa b = false) by (rewrite A2 in Hb; apply orb_false_iff in Hb; tauto).
        cbn [decls flat_map app map fst]. fold (decls r). cbn [ext_value].
        rewrite (ext_value_cur b (decls r)). rewrite V2, Q2.
        destruct (ahead1 s a) eqn:Has.
        -- destruct C1 as [C1 C2]. assert (Hab : a <> b) by (intros ->; rewrite A1 in Hsa; congruence).
           replace (a =? b) with false by lia. rewrite C1, C2. split; [destruct (ext_value b (decls r) None); reflexivity|]. simpl. intuition.
        -- destruct C1 as [C1 C2]. rewrite C1, C2, in_app_iff. destruct (Z.eqb_spec a b) as [->|Hn].
           ++ split; [destruct (ext_value b (decls r) None); reflexivity|]. simpl. intuition.
           ++ split; [destruct (ext_value b (decls r) None); reflexivity|]. simpl. intuition.
    + destruct (call_fx ext s c sa oa Hc Ie Ec) as [E1 H1].
      assert (Dc : decls ([c] ++ r) = decls r) by (destruct c; try discriminate; reflexivity).
      split.
      * intros b. rewrite A2. destruct (H1 b) as [A1 _]. rewrite A1, in_head_app, orb_assoc. reflexivity.
      * intros b Hb. destruct (B2 b Hb) as [V2 Q2]. destruct (H1 b) as [_ X1]. rewrite Dc, V2, Q2, X1, E1. tauto.
Qed.

(* ---- flushExternal ---- *)
Lemma flushExternal_true_shape es : forall s sf hd,
  Inv s -> good (fst (fst (flushExternal_f true s es hd))) sf -> next sf <= SMID_MOD ->
  snd (fst (flushExternal_f true s es hd)) = map (fun a => CExternal (img sf a) (aextn1 s a)) es /\
  snd (flushExternal_f true s es hd) = hd /\ Forall (fun a => img sf a <> 0) es.
Proof.
  induction es as [|a r IH]; intros s sf hd HI G HB; simpl in *; [repeat split; constructor|].
  pose proof (fx_mapAtom s a) as FX. pose proof (mapAtom_spec s a) as SP. destruct (mapAtom s a) as [s1 ar].
  destruct SP as [G1 [E [Fd N]]]. cbn [fst] in FX.
  pose proof (IH s1 sf hd) as IH1. pose proof (good_flushExternal_f true r s1 hd) as G2.
  destruct (flushExternal_f true s1 r hd) as [[s2 cs] hd2]. cbn [fst snd] in *.
  assert (B1 : next s1 <= SMID_MOD) by (pose proof (good_next _ _ G2); pose proof (good_next _ _ G); lia).
  assert (I1 : Inv s1) by (apply (Inv_of_good _ _ G1 HI B1)).
  destruct (IH1 I1 G HB) as [E1 [E2 F]].
  assert (G1f : good s1 sf) by (eapply good_trans; eassumption). destruct G1f as [_ K]. destruct (K I1 HB) as [_ [KI _]].
  pose proof (N HI B1) as NZ.
  split; [|split; [exact E2 | constructor; [rewrite KI; assumption | exact F]]].
  rewrite E1. f_equal.
  - f_equal; [rewrite E; symmetry; apply KI; exact NZ|]. destruct FX as [_ FX]. destruct (FX a) as [_ X]. unfold aextn1 in X at 1.
    rewrite Fd in X. exact X.
  - apply map_ext. intros b. destruct FX as [_ FX]. destruct (FX b) as [_ X]. rewrite X. reflexivity.
Qed.

Lemma flushExternal_false_shape es : forall s sf hd,
  Inv s -> good (fst (fst (flushExternal_f false s es hd))) sf -> next sf <= SMID_MOD ->
  (forall c, In c (snd (fst (flushExternal_f false s es hd))) <->
     exists a, In a es /\ ahead1 s a = false /\ aextn1 s a = Value_t_True /\ c = CRule Head_t_Disjunctive [img sf a] []) /\
  (forall y, In y (snd (flushExternal_f false s es hd)) <->
     In y hd \/ exists a, In a es /\ ahead1 s a = false /\ aextn1 s a = Value_t_Free /\ y = img sf a) /\
  Forall (fun a => img sf a <> 0) es.
Proof.
  induction es as [|a r IH]; intros s sf hd HI G HB; simpl in *.
  { split; [|split; [|constructor]].
    - intros c. split; [intros [] | intros [a [[] _]]].
    - intros y. split; [intros H; left; exact H | intros [H|[a [[] _]]]; exact H]. }
  pose proof (fx_mapAtom s a) as FX. pose proof (mapAtom_spec s a) as SP. destruct (mapAtom s a) as [s1 ar].
  destruct SP as [G1 [E [Fd N]]]. cbn [fst] in FX. destruct FX as [_ FX].
  assert (FA : ahead ar = ahead1 s a /\ aextn ar = aextn1 s a).
  { destruct (FX a) as [A X]. unfold ahead1 in A at 1. unfold aextn1 in X at 1. rewrite Fd in A, X. unfold nof in A.
    rewrite orb_false_r in A. auto. }
  destruct FA as [FA1 FA2].
  assert (FR : forall b, ahead1 s1 b = ahead1 s b /\ aextn1 s1 b = aextn1 s b).
  { intros b. destruct (FX b) as [A X]. unfold nof in A. rewrite orb_false_r in A. auto. }
  assert (GEN : forall hd0 cs0,
     good (fst (fst (flushExternal_f false s1 r hd0))) sf ->
     (forall c, In c (cs0 ++ snd (fst (flushExternal_f false s1 r hd0))) <->
        In c cs0 \/ exists b, In b r /\ ahead1 s b = false /\ aextn1 s b = Value_t_True /\ c = CRule Head_t_Disjunctive [img sf b] []) /\
     (forall y, In y (snd (flushExternal_f false s1 r hd0)) <->
        In y hd0 \/ exists b, In b r /\ ahead1 s b = false /\ aextn1 s b = Value_t_Free /\ y = img sf b) /\
     Forall (fun b => img sf b <> 0) r /\ img sf a <> 0 /\ smId ar = img sf a).
  { intros hd0 cs0 G0.
    pose proof (good_flushExternal_f false r s1 hd0) as G2.
    assert (B1 : next s1 <= SMID_MOD) by (pose proof (good_next _ _ G2); pose proof (good_next _ _ G0); lia).
    assert (I1 : Inv s1) by (apply (Inv_of_good _ _ G1 HI B1)).
    destruct (IH s1 sf hd0 I1 G0 HB) as [C1 [C2 F]].
    assert (G1f : good s1 sf) by (eapply good_trans; eassumption). destruct G1f as [_ K]. destruct (K I1 HB) as [_ [KI _]].
    pose proof (N HI B1) as NZ.
    split; [|split; [|split; [exact F | split; [rewrite KI; assumption | rewrite E; symmetry; apply KI; exact NZ]]]].
    - intros c. rewrite in_app_iff, C1. split; (intros [H|[b [Hb [H1 [H2 H3]]]]]; [left; exact H | right; exists b]);
        destruct (FR b) as [R1 R2]; repeat split; auto; congruence.
    - intros y. rewrite C2. split; (intros [H|[b [Hb [H1 [H2 H3]]]]]; [left; exact H | right; exists b]);
        destruct (FR b) as [R1 R2]; repeat split; auto; congruence. }
  rewrite FA1, FA2 in G |- *.
  destruct (ahead1 s a) eqn:Ha.
  - destruct (GEN hd [] G) as [C1 [C2 [F [NZ _]]]]. simpl in C1. split; [|split; [|constructor; assumption]].
    + intros c. rewrite C1. split; [intros [[]|[b [Hb H]]]; exists b; split; [right; exact Hb | exact H]|].
      intros [b [[<-|Hb] [H1 H]]]; [congruence | right; exists b; auto].
    + intros y. rewrite C2. split; [intros [H|[b [Hb H]]]; [left; exact H | right; exists b; split; [right; exact Hb | exact H]]|].
      intros [H|[b [[<-|Hb] [H1 H]]]]; [left; exact H | congruence | right; exists b; auto].
  - destruct (Z.eqb_spec (aextn1 s a) Value_t_Free) as [Ef|Ef].
    + destruct (GEN (hd ++ [smId ar]) [] G) as [C1 [C2 [F [NZ EA]]]]. simpl in C1. split; [|split; [|constructor; assumption]].
      * intros c. rewrite C1. split; [intros [[]|[b [Hb H]]]; exists b; split; [right; exact Hb | exact H]|].
        intros [b [[<-|Hb] [H1 [H2 H3]]]]; [|right; exists b; auto].
        exfalso. rewrite Ef in H2. vm_compute in H2. discriminate.
      * intros y. rewrite C2, in_app_iff. simpl. rewrite EA. split.
        -- intros [[H|[<-|[]]]|[b [Hb H]]]; [left; exact H | right; exists a; auto | right; exists b; split; [right; exact Hb | exact H]].
        -- intros [H|[b [[<-|Hb] [H1 [H2 H3]]]]]; [left; left; exact H | left; right; left; symmetry; exact H3 | right; exists b; auto].
    + destruct (Z.eqb_spec (aextn1 s a) Value_t_True) as [Et|Et].
      * pose proof (GEN hd [CRule Head_t_Disjunctive [smId ar] []]) as GE.
        destruct (flushExternal_f false s1 r hd) as [[s2 cs] hd2]. cbn [fst snd] in *.
        destruct (GE G) as [C1 [C2 [F [NZ EA]]]]. split; [|split; [|constructor; assumption]].
        -- intros c. change (CRule Head_t_Disjunctive [smId ar] [] :: cs) with ([CRule Head_t_Disjunctive [smId ar] []] ++ cs).
           rewrite C1. simpl. rewrite EA. split.
           ++ intros [[<-|[]]|[b [Hb H]]]; [exists a; auto | exists b; split; [right; exact Hb | exact H]].
           ++ intros [b [[<-|Hb] [H1 [H2 H3]]]]; [left; left; symmetry; exact H3 | right; exists b; auto].
        -- intros y. rewrite C2. split; [intros [H|[b [Hb H]]]; [left; exact H | right; exists b; split; [right; exact Hb | exact H]]|].
           intros [H|[b [[<-|Hb] [H1 [H2 H3]]]]]; [left; exact H | congruence | right; exists b; auto].
      * destruct (GEN hd [] G) as [C1 [C2 [F [NZ _]]]]. simpl in C1. split; [|split; [|constructor; assumption]].
        -- intros c. rewrite C1. split; [intros [[]|[b [Hb H]]]; exists b; split; [right; exact Hb | exact H]|].
           intros [b [[<-|Hb] [H1 [H2 H3]]]]; [congruence | right; exists b; auto].
        -- intros y. rewrite C2. split; [intros [H|[b [Hb H]]]; [left; exact H | right; exists b; split; [right; exact Hb | exact H]]|].
           intros [H|[b [[<-|Hb] [H1 [H2 H3]]]]]; [left; exact H | congruence | right; exists b; auto].
Qed.

(* ---- reduct-level meaning ---- *)
Definition ext_sem (decl : Z -> Prop) (hdb : Z -> bool) (val : Z -> option Z) (m : Z -> Z) (X' Y' : interp) : Prop :=
  forall a, decl a -> hdb a = false ->
    (val a = Some Value_t_Free -> X' (m a) = true -> Y' (m a) = true) /\ (val a = Some Value_t_True -> Y' (m a) = true).

Lemma In_ext_rules P r : In r (ext_rules P) <-> exists a, In a (map fst (p_ext P)) /\ In r (ext_rule P a).
Proof.
  unfold ext_rules. rewrite in_flat_map. split; intros [a [H1 H2]]; exists a; split; auto; [apply nodup_In in H1 | apply nodup_In]; exact H1.
Qed.

Lemma rsat_choice1 X Y y : rsat X Y (mkRule true [y] (BNormal [])) <-> (X y = true -> Y y = true).
Proof.
  unfold rsat. simpl. split; [intros H Xy; apply (H eq_refl y); auto | intros H _ h [<-|[]]; exact H].
Qed.
Lemma rsat_fact1 X Y y : rsat X Y (mkRule false [y] (BNormal [])) <-> Y y = true.
Proof.
  unfold rsat. simpl. split; [intros H; destruct (H eq_refl) as [h [[<-|[]] Yh]]; exact Yh | intros H _; exists y; auto].
Qed.

(* Sem.ext_rules of a program, renamed by m *)
Lemma ext_rules_sem m P X' Y' :
  red_model (map (rn_rule m) (ext_rules P)) X' Y' <->
  ext_sem (fun a => In a (map fst (p_ext P))) (in_head (p_rules P)) (fun a => ext_value a (p_ext P) None) m X' Y'.
Proof.
  unfold red_model, ext_sem. split.
  - intros H a Ha Hh.
    assert (K : forall r, In r (ext_rule P a) -> rsat X' Y' (rn_rule m r)).
    { intros r Hr. apply H. apply in_map. apply In_ext_rules. exists a. auto. }
    unfold ext_rule in K. rewrite Hh in K. split; intros V; rewrite V in K.
    + apply (proj1 (rsat_choice1 X' Y' (m a))). apply (K (mkRule true [a] (BNormal []))). left; reflexivity.
    + apply (proj1 (rsat_fact1 X' Y' (m a))). apply (K (mkRule false [a] (BNormal []))). left; reflexivity.
  - intros H r0 Hr0. apply in_map_iff in Hr0 as [r [<- Hr]]. apply In_ext_rules in Hr as [a [Ha Hr]].
    unfold ext_rule in Hr. destruct (in_head (p_rules P) a) eqn:Hh; [destruct Hr|]. destruct (H a Ha Hh) as [H0 H1].
    destruct (ext_value a (p_ext P) None) as [z|]; [|destruct Hr].
    destruct z as [|p|p]; [|destruct p|]; simpl in Hr; try contradiction; destruct Hr as [<-|[]].
    + apply (proj2 (rsat_choice1 X' Y' (m a))). apply H0. reflexivity.
    + apply (proj2 (rsat_fact1 X' Y' (m a))). apply H1. reflexivity.
Qed.

(* the rules flushExternal emits without the extensions *)
Lemma flushExternal_false_sem s sf X' Y' :
  Inv s -> good (fst (flushExternal false s)) sf -> next sf <= SMID_MOD ->
  (red_model (rules_of (snd (flushExternal false s))) X' Y' <->
   ext_sem (fun a => In a (exts s)) (ahead1 s) (fun a => Some (aextn1 s a)) (img sf) X' Y') /\
  Forall (fun a => img sf a <> 0) (exts s) /\
  (forall r, In r (rules_of (snd (flushExternal false s))) ->
     r_body r = BNormal [] /\ forall h, In h (r_head r) -> exists a, In a (exts s) /\ ahead1 s a = false /\ h = img sf a).
Proof.
  unfold flushExternal. pose proof (flushExternal_false_shape (exts s) s sf []) as SH.
  destruct (flushExternal_f false s (exts s) []) as [[s1 cs] hd]. cbn [fst snd] in *. intros HI G HB.
  destruct (SH HI G HB) as [C1 [C2 F]]. split; [|split; [exact F|]].
  - unfold red_model, ext_sem. rewrite rules_of_app. split.
    + intros H a Ha Hh. split; intros V; inversion V as [V1].
      * intros Xa. assert (Hy : In (img sf a) hd) by (apply C2; right; exists a; auto).
        destruct hd as [|y0 hd0]; [destruct Hy|].
        assert (R : rsat X' Y' (mkRule true (y0 :: hd0) (BNormal []))) by (apply H; apply in_app_iff; right; left; reflexivity).
        unfold rsat in R. simpl in R. apply (R eq_refl); assumption.
      * apply (proj1 (rsat_fact1 X' Y' _)). apply H. apply in_app_iff. left.
        assert (Hc : In (CRule Head_t_Disjunctive [img sf a] []) cs) by (apply C1; exists a; auto).
        unfold rules_of. apply in_flat_map. eexists. split; [exact Hc|]. left; reflexivity.
    + intros H r Hr. apply in_app_iff in Hr as [Hr|Hr].
      * unfold rules_of in Hr. apply in_flat_map in Hr as [c [Hc Hr]]. apply C1 in Hc as [a [Ha [H1 [H2 ->]]]].
        destruct Hr as [<-|[]]. apply (proj2 (rsat_fact1 X' Y' _)). destruct (H a Ha H1) as [_ HT]. apply HT. rewrite H2. reflexivity.
      * destruct hd as [|y0 hd0]; [destruct Hr|]. destruct Hr as [<-|[]]. unfold rsat. simpl. intros _ h Hh Xh.
        apply C2 in Hh as [[]|[a [Ha [H1 [H2 ->]]]]]. destruct (H a Ha H1) as [HF _]. apply HF; [rewrite H2; reflexivity | exact Xh].
  - intros r Hr. rewrite rules_of_app in Hr. apply in_app_iff in Hr as [Hr|Hr].
    + unfold rules_of in Hr. apply in_flat_map in Hr as [c [Hc Hr]]. apply C1 in Hc as [a [Ha [H1 [H2 ->]]]].
      destruct Hr as [<-|[]]. simpl. split; [reflexivity|]. intros h [<-|[]]. exists a. auto.
    + destruct hd as [|y0 hd0]; [destruct Hr|]. destruct Hr as [<-|[]]. simpl. split; [reflexivity|].
      intros h Hh. apply C2 in Hh as [[]|[a [Ha [H1 [H2 ->]]]]]. exists a. auto.
Qed.
