(* C02 - several steps (extensions enabled), with heuristic and edge directives.
   An incremental program is  initProgram; (beginStep; directives; endStep)+ .  Its reference semantics after step k is the
   semantics of the program ACCUMULATED up to step k (Sem.of_calls of the concatenated directives): rules, minimize statements
   and output directives add up; an atom declared external is free / true / false by its LAST declaration as long as no rule of
   any step so far defines it (Sem.ext_rule) - so an external of step i that step j > i defines stops being external at step j.
   The converter's state between steps keeps the atom map, the head flags (= heads of the earlier steps), the show flags and
   symTab_; minimize_/extern_/heuristic_/output_ are empty again (pending0).  Per step the facts of ProofsCompose are
   re-established relative to the FINAL atom map (step_facts), appended over the steps (steps_facts) and handed to
   ProofsCore.core_gen. *)
Require Import V.Lib.Base V.Lib.Calls V.Gen.Consts V.Gen.Consts_C02 V.C02.Model V.C02.Sem V.C02.ProofsMap V.C02.ProofsErr
  V.C02.ProofsSem V.C02.ProofsIso V.C02.ProofsShape V.C02.ProofsDefExt V.C02.ProofsWeight V.C02.ProofsOutput V.C02.ProofsExt
  V.C02.ProofsCompose V.C02.ProofsCore V.C02.ProofsHeu.
Require Import ZifyBool.
Local Open Scope Z_scope.

Definition pending0 (s : cv) : Prop := mins s = [] /\ exts s = [] /\ outs s = [] /\ heus s = [].

(* ---- small tools ---- *)
Lemma ext_value_app a l1 : forall l2 cur, ext_value a (l1 ++ l2) cur = ext_value a l2 (ext_value a l1 cur).
Proof. induction l1 as [|[b v] r IH]; intros l2 cur; simpl; [reflexivity | apply IH]. Qed.
Lemma ext_value_notin k l : forall cur, ~ In k (map fst l) -> ext_value k l cur = cur.
Proof.
  induction l as [|[b v] r IH]; intros cur H; simpl; [reflexivity|]. simpl in H.
  destruct (Z.eqb_spec b k) as [->|Hn]; [exfalso; apply H; left; reflexivity|]. apply IH. intros Hin. apply H. right. exact Hin.
Qed.
Lemma ext_value_some a es : forall cur w, ext_value a es cur = Some w -> In (a, w) es \/ cur = Some w.
Proof.
  induction es as [|[b v] r IH]; intros cur w H; simpl in H; [right; exact H|].
  destruct (IH _ _ H) as [Hin|E]; [left; right; exact Hin|].
  destruct (Z.eqb_spec b a) as [->|Hn]; [inversion E; subst; left; left; reflexivity | right; exact E].
Qed.
Lemma ext_value_none a es : ext_value a es None = None -> ~ In a (map fst es).
Proof. intros H Hin. destruct (ext_value_In a es Hin) as [v [E _]]. congruence. Qed.

Lemma somes_app l1 l2 : somes (l1 ++ l2) = somes l1 ++ somes l2.
Proof. induction l1 as [|[x|] r IH]; simpl; [reflexivity | rewrite IH; reflexivity | exact IH]. Qed.
Lemma NoDup_app_disj {A} (l1 l2 : list A) : NoDup l1 -> NoDup l2 -> (forall x, In x l1 -> ~ In x l2) -> NoDup (l1 ++ l2).
Proof.
  induction 1 as [|x r Hx Hr IH]; intros N2 D; simpl; [exact N2|]. constructor.
  - intros Hin. apply in_app_iff in Hin as [Hin|Hin]; [exact (Hx Hin) | exact (D x (or_introl eq_refl) Hin)].
  - apply IH; [exact N2|]. intros y Hy. apply D. right. exact Hy.
Qed.
Lemma emitL_app m a b : emitL m (a ++ b) = emitL m a ++ emitL m b.
Proof. unfold emitL. apply flat_map_app. Qed.
Lemma symsL_app m a b : symsL m (a ++ b) = symsL m a ++ symsL m b.
Proof. unfold symsL. apply flat_map_app. Qed.
Lemma mins_of_app a b : mins_of (a ++ b) = mins_of a ++ mins_of b.
Proof. unfold mins_of. apply flat_map_app. Qed.
Lemma negs_app a b prio : negs (a ++ b) prio = negs a prio + negs b prio.
Proof. induction a as [|c r IH]; simpl; [reflexivity|]. destruct c; rewrite ?IH; lia. Qed.
Lemma cost_app a b prio X : cost (a ++ b) prio X = cost a prio X + cost b prio X.
Proof. induction a as [|[p ls] r IH]; simpl; [reflexivity|]. rewrite IH. lia. Qed.

Lemma lifts_good s sf X X' : good s sf -> Inv s -> next sf <= SMID_MOD -> lifts sf X X' -> lifts s X X'.
Proof.
  intros [_ G] HI HB HL a Ha. destruct (G HI HB) as [_ [K _]]. rewrite <- (K a Ha). apply HL. rewrite (K a Ha). exact Ha.
Qed.
Lemma okx_notend ds : forallb okx ds = true -> forallb notend ds = true.
Proof.
  induction ds as [|c r IH]; [reflexivity|]. simpl. intros H. apply andb_true_iff in H as [H1 H2].
  rewrite (IH H2), andb_true_r. destruct c; try discriminate; reflexivity.
Qed.
Lemma wfX_min_ok ds : Forall call_wfX ds -> Forall min_ok ds.
Proof. intros F. eapply Forall_impl; [|exact F]. intros c W. destruct c; simpl in *; auto. Qed.

Lemma fields_rulecalls cs : forallb is_rulecall cs = true ->
  decls cs = [] /\ asm_of cs = [] /\ outs_of cs = [] /\ forallb nomin cs = true.
Proof.
  intros H. repeat split; try (apply (proj_nil _ is_rulecall); [|exact H]; intros c0 Hc0; destruct c0; try discriminate; reflexivity).
  apply rulecall_nomin. exact H.
Qed.
Lemma fields_mins cs : forallb is_min cs = true -> decls cs = [] /\ asm_of cs = [] /\ outs_of cs = [] /\ rules_of cs = [].
Proof.
  intros H. repeat split; apply (proj_nil _ is_min); try exact H; intros c0 Hc0; destruct c0; try discriminate; reflexivity.
Qed.
Lemma fields_exts cs : forallb is_ext cs = true -> asm_of cs = [] /\ outs_of cs = [] /\ rules_of cs = [].
Proof.
  intros H. repeat split; apply (proj_nil _ is_ext); try exact H; intros c0 Hc0; destruct c0; try discriminate; reflexivity.
Qed.
Lemma fields_outs cs : forallb is_output cs = true -> decls cs = [] /\ asm_of cs = [] /\ rules_of cs = [].
Proof.
  intros H. repeat split; apply (proj_nil _ is_output); try exact H; intros c0 Hc0; destruct c0; try discriminate; reflexivity.
Qed.

(* ---- one step, relative to the atom map of any later state sf ---- *)
Lemma step_facts ds s0 s1 o1 s2 o2 sf :
  forallb okx ds = true -> Forall call_wfX ds -> Inv s0 -> pending0 s0 ->
  cv_run true s0 ds = Ok (s1, o1) -> cv_call true s1 CEnd = Ok (s2, o2) -> good s2 sf -> next sf <= SMID_MOD ->
  let m := img sf in
  exists cas E v,
    map fst cas = map tr ds /\
    Forall (fun ca => ann_ok (fst ca) (snd ca) /\ mappedA m (fst ca) /\ call_wf (fst ca)) cas /\
    NoDup (somes (map snd cas)) /\
    Forall (fun x => next s0 <= x < next s2 /\ In x (auxs sf)) (somes (map snd cas)) /\
    rules_of (o1 ++ o2) = rules_of (emitL m cas) /\
    decls (o1 ++ o2) = map (fun a => (m a, v a)) E /\
    asm_of (o1 ++ o2) = [- false_atom] /\
    (forall n c, ~ helper_name n -> (In (n, c) (outs_of (o1 ++ o2)) <-> exists y, c = [y] /\ In (n, y) (symsL m cas))) /\
    (forall X X', lifts sf X X' ->
       forall prio, cost (mins_of (o1 ++ o2)) prio X' = cost (mins_of ds) prio X - negs ds prio) /\
    (forall a, In a E -> In a (map fst (decls ds)) /\ m a <> 0) /\
    (forall a, ahead1 s0 a = false -> in_head (rules_of ds) a = false ->
       (In a E <-> In a (map fst (decls ds))) /\ forall w, ext_value a (decls ds) None = Some w -> v a = w) /\
    (forall b, ahead1 s2 b = (ahead1 s0 b || in_head (rules_of ds) b)) /\ pending0 s2.
Proof.
  intros HO HW HI [P1 [P2 [P3 P4]]] Hrun Hend G2f HB m.
  assert (G1 : good s0 s1) by (eapply good_cv_run; exact Hrun).
  assert (G2 : good s1 s2) by (eapply good_cv_call; exact Hend).
  assert (G1f : good s1 sf) by (eapply good_trans; eassumption).
  assert (B2 : next s2 <= SMID_MOD) by (pose proof (good_next _ _ G2f); lia).
  assert (B1 : next s1 <= SMID_MOD) by (pose proof (good_next _ _ G2); lia).
  assert (I1 : Inv s1) by (apply (Inv_of_good _ _ G1 HI B1)).
  assert (I2 : Inv s2) by (apply (Inv_of_good _ _ G2 I1 B2)).
  destruct (run_shapeX sf ds s0 s1 o1 HO Hrun HI G1f HB) as [cas0 [E1 [E2 [F [ND [RA OS]]]]]].
  fold m in E2, F, OS. rewrite P3 in OS. simpl in OS.
  destruct (flush_partsX s1 s2 o2 Hend) as [sa [sb [sc [c1 [c2 [c3 [EM [EX [EH [Eo2 Es2]]]]]]]]]].
  assert (Gm : good s1 sa) by (pose proof (good_flushMinimize (mins s1) s1) as Gx; rewrite EM in Gx; exact Gx).
  assert (Gx : good sa sb) by (pose proof (good_flushExternal true sa) as Gy; rewrite EX in Gy; exact Gy).
  assert (Gh : good sb sc) by (pose proof (good_flushHeuristic_f (heus sb) sb) as Gy; rewrite EH in Gy; exact Gy).
  assert (Gs : good sc s2) by (rewrite Es2; apply good_core_eq; reflexivity).
  assert (Gbf : good sb sf) by (eapply good_trans; [exact Gh|]; eapply good_trans; eassumption).
  assert (Ba : next sa <= SMID_MOD) by (pose proof (good_next _ _ Gx); pose proof (good_next _ _ Gbf); lia).
  assert (Ia : Inv sa) by (apply (Inv_of_good _ _ Gm I1 Ba)).
  assert (FXm : hfx nof s1 sa) by (pose proof (fx_flushMinimize (mins s1) s1) as Fy; rewrite EM in Fy; exact Fy).
  assert (FXx : hfx nof sa sb) by (pose proof (fx_flushExternal_true sa) as Fy; rewrite EX in Fy; exact Fy).
  pose proof (flushHeuristic_props (heus sb) sb) as FH. rewrite EH in FH. cbn [fst snd] in FH.
  destruct FH as [FXh [HC3 [LH [OH LHh]]]].
  destruct FXm as [Exa FXa].
  assert (FA : forall b, ahead1 sa b = ahead1 s1 b /\ aextn1 sa b = aextn1 s1 b).
  { intros b. destruct (FXa b) as [A B]. unfold nof in A. rewrite orb_false_r in A. auto. }
  destruct (run_fxX ds s0 s1 o1 HO Hrun) as [AH BX].
  pose proof (flushExternal_true_out sa sf Ia) as XO. rewrite EX in XO. cbn [fst snd] in XO.
  destruct (XO Gbf HB) as [Ec2 Fmap]. clear XO.
  (* the emitted calls, by kind *)
  assert (O1r : forallb is_rulecall o1 = true) by (rewrite E2; apply only_rule_emitL).
  assert (C1m : forallb is_min c1 = true) by (pose proof (only_min_flushMinimize (mins s1) s1) as Q; rewrite EM in Q; exact Q).
  assert (C2x : forallb is_ext c2 = true) by (pose proof (only_ext_flushExternal sa) as Q; rewrite EX in Q; exact Q).
  destruct (fields_rulecalls o1 O1r) as [Q1 [Q2 [Q3 Q4]]]. destruct (fields_mins c1 C1m) as [R1 [R2 [R3 R4]]].
  destruct (fields_exts c2 C2x) as [S1 [S2 S3]]. destruct (fields_outs _ (only_out_flushSymbols sc)) as [T1 [T2 T3]].
  destruct (helper_out_fields c3 HC3) as [U1 [U2 [U3 [U4 [U5 U6]]]]].
  (* output_ at the flush *)
  assert (Osb : outs sb = outs s1).
  { pose proof (ho_flushMinimize (mins s1) s1) as [_ H1]. rewrite EM in H1.
    pose proof (ho_flushExternal true sa) as [_ H2]. rewrite EX in H2. simpl in *. congruence. }
  set (cas := trL cas0).
  assert (HWl : forall c, In c ds -> call_wfX c) by (rewrite Forall_forall in HW; exact HW).
  assert (CO : Forall (fun ca => ann_ok (fst ca) (snd ca) /\ mappedA m (fst ca) /\ call_wf (fst ca)) cas).
  { apply Forall_forall. intros ca Hca. unfold cas, trL in Hca. apply in_map_iff in Hca as [[c ann] [<- Hca]].
    rewrite Forall_forall in F. destruct (F _ Hca) as [A M]. cbn [fst snd] in *. repeat split; auto.
    apply call_wf_tr. apply HWl. rewrite <- E1. apply (in_map fst) in Hca. exact Hca. }
  exists cas, (exts sa), (aextn1 sa).
  split; [unfold cas; rewrite trL_fst, E1; reflexivity|]. split; [exact CO|].
  split; [unfold cas; rewrite trL_snd; exact ND|].
  split.
  { unfold cas. rewrite trL_snd. eapply Forall_impl; [|exact RA]. simpl. intros x [Hx Ix]. split; [|exact Ix].
    pose proof (good_next _ _ G2). lia. }
  split.
  { rewrite Eo2, !rules_of_app, R4, S3, U1, T3, E2. simpl. rewrite app_nil_r. reflexivity. }
  split.
  { rewrite Eo2, !decls_app, Q1, R1, U2, T1. simpl. rewrite app_nil_r, Ec2. apply (decls_map_ext m (aextn1 sa)). }
  split.
  { rewrite Eo2, !asm_of_app, Q2, R2, S1, U3, T2. reflexivity. }
  split.
  { intros n c Hn. rewrite Eo2, !outs_of_app, Q3, R3, S2. simpl. rewrite app_nil_r, in_app_iff. split.
    - intros [H|H]; [exfalso; apply Hn; apply (U6 n c H)|].
      apply In_outs_of, In_flushSymbols in H as [nm [y [E Hy]]]. inversion E; subst. exists y. split; [reflexivity|].
      rewrite OH, Osb, OS in Hy. apply in_app_iff in Hy as [Hy|Hy].
      + apply (symsTL_symsL m cas0 nm y Hn). exact Hy.
      + exfalso. apply Hn. rewrite Forall_forall in LHh. apply (LHh _ Hy).
    - intros [y [-> Hy]]. right. apply In_outs_of, In_flushSymbols. exists n, y. split; [reflexivity|].
      rewrite OH, Osb, OS. apply in_app_iff. left. apply (symsTL_symsL m cas0 n y Hn). exact Hy. }
  split.
  { intros X X' HL prio.
    destruct (cost_step true ds s0 s1 o1 s2 o2 (okx_notend ds HO) (wfX_min_ok ds HW) P1 HI Hrun Hend B2) as [_ [_ CST]].
    rewrite !cost_mins_of, cost_calls_app. destruct (nomin_cost o1 prio X' Q4) as [-> _].
    rewrite (CST X X' (lifts_good s2 sf X X' G2f I2 HB HL) prio). lia. }
  assert (XIN : forall a, In a (exts sa) -> In a (map fst (decls ds)) /\ m a <> 0).
  { intros a Ha. rewrite Forall_forall in Fmap. split; [|apply Fmap; exact Ha]. rewrite Exa in Ha.
    destruct (run_extsX ds s0 s1 o1 HO Hrun a Ha) as [H|H]; [rewrite P2 in H; destruct H | exact H]. }
  split; [exact XIN|].
  split.
  { intros a H0 Hd.
    assert (Hs1 : ahead1 s1 a = false) by (rewrite AH, H0, Hd; reflexivity).
    destruct (BX a Hs1) as [V Q]. split.
    - rewrite Exa, Q, P2. simpl. tauto.
    - intros w Ew. destruct (FA a) as [_ E3]. rewrite E3, V, Ew.
      destruct (ext_value_some a (decls ds) None w Ew) as [Iv|Iv]; [|discriminate].
      apply In_decls in Iv. pose proof (HWl _ Iv) as [_ Wv]. apply Z.mod_small. change (2 ^ extn_bits) with 4. lia. }
  split.
  { intros b. rewrite <- AH. destruct (FA b) as [A1 _]. destruct FXx as [_ FXx]. destruct (FXx b) as [A2 _].
    destruct FXh as [_ FXh]. destruct (FXh b) as [A3 _]. unfold nof in *. rewrite orb_false_r in *.
    rewrite <- A1, <- A2, <- A3. rewrite Es2. reflexivity. }
  rewrite Es2. repeat split; reflexivity.
Qed.

(* ---- the steps of a program ---- *)
Definition body (steps : list (list call)) : list call := flat_map (fun ds => CBegin :: ds ++ [CEnd]) steps.

Lemma run_step_split ds rest s0 s out :
  cv_run true s0 (CBegin :: ds ++ [CEnd] ++ rest) = Ok (s, out) ->
  exists s1 o1 s2 o2 o3, cv_run true s0 ds = Ok (s1, o1) /\ cv_call true s1 CEnd = Ok (s2, o2) /\
    cv_run true s2 rest = Ok (s, o3) /\ out = [CBegin] ++ (o1 ++ o2) ++ o3.
Proof.
  cbn [cv_run cv_call]. destruct (cv_run true s0 (ds ++ [CEnd] ++ rest)) as [[sx ox]|] eqn:E; [|discriminate].
  intros H. inversion H; subst. clear H.
  destruct (cv_run_app true ds ([CEnd] ++ rest) s0 s ox E) as [s1 [o1 [ox2 [E1 [E2 ->]]]]].
  cbn [app cv_run] in E2. destruct (cv_call true s1 CEnd) as [[s2 o2]|] eqn:Ec; [|discriminate].
  destruct (cv_run true s2 rest) as [[s3 o3]|] eqn:Er; [|discriminate]. inversion E2; subst.
  exists s1, o1, s2, o2, o3. split; [exact E1|]. split; [exact Ec|]. split; [exact Er|].
  simpl. rewrite <- app_assoc. reflexivity.
Qed.

Definition CO_ok (m : Z -> Z) (cas : list (call * option Z)) : Prop :=
  Forall (fun ca => ann_ok (fst ca) (snd ca) /\ mappedA m (fst ca) /\ call_wf (fst ca)) cas.

Lemma steps_facts : forall steps s0 s out sf,
  Forall (fun ds => forallb okx ds = true) steps -> Forall (Forall call_wfX) steps -> Inv s0 -> pending0 s0 ->
  cv_run true s0 (body steps) = Ok (s, out) -> good s sf -> next sf <= SMID_MOD ->
  let m := img sf in let acc := concat steps in
  exists cas PE,
    map fst cas = map tr acc /\ CO_ok m cas /\ NoDup (somes (map snd cas)) /\
    Forall (fun x => next s0 <= x < next s /\ In x (auxs sf)) (somes (map snd cas)) /\
    rules_of out = rules_of (emitL m cas) /\ decls out = PE /\
    asm_of out = repeat (- false_atom) (length steps) /\
    (forall n c, ~ helper_name n -> (In (n, c) (outs_of out) <-> exists y, c = [y] /\ In (n, y) (symsL m cas))) /\
    (forall X X', lifts sf X X' -> forall prio, cost (mins_of out) prio X' = cost (mins_of acc) prio X - negs acc prio) /\
    (forall y w, In (y, w) PE -> exists a, y = m a /\ m a <> 0 /\ In a (map fst (decls acc))) /\
    (forall a cur, ahead1 s0 a = false -> in_head (rules_of acc) a = false -> m a <> 0 ->
       ext_value (m a) PE cur = ext_value a (decls acc) cur) /\
    (forall b, ahead1 s b = (ahead1 s0 b || in_head (rules_of acc) b)) /\ pending0 s /\ good s0 s.
Proof.
  induction steps as [|ds r IH]; intros s0 s out sf HO HW HI HP Hrun G HB m acc.
  - simpl in Hrun. inversion Hrun; subst. exists [], []. unfold acc. simpl.
    split; [reflexivity|]. split; [constructor|]. split; [constructor|]. split; [constructor|].
    split; [reflexivity|]. split; [reflexivity|]. split; [reflexivity|].
    split; [intros n c _; split; [intros [] | intros [y [_ []]]]|].
    split; [intros; simpl; lia|]. split; [intros y w []|]. split; [intros; reflexivity|].
    split; [intros b; rewrite orb_false_r; reflexivity|]. split; [exact HP | apply good_refl].
  - inversion HO as [|? ? HOd HOr]; subst. inversion HW as [|? ? HWd HWr]; subst.
    assert (EB : body (ds :: r) = CBegin :: ds ++ [CEnd] ++ body r) by (unfold body; simpl; rewrite <- app_assoc; reflexivity).
    rewrite EB in Hrun.
    destruct (run_step_split ds (body r) s0 s out Hrun) as [s1 [o1 [s2 [o2 [o3 [R1 [R2 [R3 ->]]]]]]]].
    assert (G23 : good s2 s) by (eapply good_cv_run; exact R3).
    assert (G2f : good s2 sf) by (eapply good_trans; eassumption).
    assert (G01 : good s0 s1) by (eapply good_cv_run; exact R1).
    assert (G12 : good s1 s2) by (eapply good_cv_call; exact R2).
    assert (G02 : good s0 s2) by (eapply good_trans; eassumption).
    assert (B2 : next s2 <= SMID_MOD) by (pose proof (good_next _ _ G2f); lia).
    assert (I2 : Inv s2) by (apply (Inv_of_good _ _ G02 HI B2)).
    assert (Isf : Inv sf) by (apply (Inv_of_good _ _ G2f I2 HB)).
    destruct (step_facts ds s0 s1 o1 s2 o2 sf HOd HWd HI HP R1 R2 G2f HB)
      as [cas1 [E [v [A1 [A2 [A3 [A4 [A5 [A6 [A7 [A8 [A9 [A10 [A11 [A12 A13]]]]]]]]]]]]]]].
    fold m in A2, A5, A6, A8, A10.
    destruct (IH s2 s o3 sf HOr HWr I2 A13 R3 G HB)
      as [cas2 [PE2 [B1 [B2' [B3 [B4 [B5 [B6 [B7 [B8 [B9 [B10 [B11 [B12 [B13 B14]]]]]]]]]]]]]]].
    fold m in B2', B5, B8, B10, B11.
    exists (cas1 ++ cas2), (map (fun a => (m a, v a)) E ++ PE2). unfold acc. cbn [concat].
    split; [rewrite !map_app, A1, B1; reflexivity|].
    split; [apply Forall_app; split; assumption|].
    split.
    { rewrite map_app, somes_app. apply NoDup_app_disj; [exact A3 | exact B3|]. intros x H1 H2.
      rewrite Forall_forall in A4, B4. destruct (A4 x H1) as [L1 _]. destruct (B4 x H2) as [L2 _]. lia. }
    split.
    { rewrite map_app, somes_app. apply Forall_app. split; (eapply Forall_impl; [|eassumption]); simpl; intros x [Hx Ix];
        (split; [|exact Ix]); pose proof (good_next _ _ G02); pose proof (good_next _ _ G23); lia. }
    split; [rewrite (rules_of_app [CBegin]), (rules_of_app (o1 ++ o2) o3), A5, B5, emitL_app, rules_of_app; reflexivity|].
    split; [rewrite (decls_app [CBegin]), (decls_app (o1 ++ o2) o3), A6, B6; reflexivity|].
    split; [rewrite (asm_of_app [CBegin]), (asm_of_app (o1 ++ o2) o3), A7, B7; reflexivity|].
    split.
    { intros n c Hn. rewrite (outs_of_app [CBegin]), (outs_of_app (o1 ++ o2) o3). simpl.
      rewrite in_app_iff, (A8 n c Hn), (B8 n c Hn), symsL_app. split.
      - intros [[y [-> H]]|[y [-> H]]]; exists y; (split; [reflexivity|]); apply in_app_iff; [left | right]; exact H.
      - intros [y [-> H]]. apply in_app_iff in H as [H|H]; [left | right]; exists y; auto. }
    split.
    { intros X X' HL prio. rewrite (mins_of_app [CBegin]), (mins_of_app (o1 ++ o2) o3), (mins_of_app ds). simpl.
      rewrite !cost_app, (A9 X X' HL prio), (B9 X X' HL prio), negs_app. lia. }
    split.
    { intros y w H. apply in_app_iff in H as [H|H].
      - apply in_map_iff in H as [a [Ea Ha]]. inversion Ea; subst. destruct (A10 a Ha) as [D N].
        exists a. split; [reflexivity|]. split; [exact N|]. rewrite decls_app, map_app. apply in_app_iff. left. exact D.
      - destruct (B10 y w H) as [a [-> [N D]]]. exists a. split; [reflexivity|]. split; [exact N|].
        rewrite decls_app, map_app. apply in_app_iff. right. exact D. }
    split.
    { intros a cur H0 Hd Na. rewrite rules_of_app, in_head_app in Hd. apply orb_false_iff in Hd as [Hd1 Hd2].
      rewrite decls_app, !ext_value_app.
      assert (H2 : ahead1 s2 a = false) by (rewrite A12, H0, Hd1; reflexivity).
      rewrite (B11 a _ H2 Hd2 Na). f_equal.
      destruct (A11 a H0 Hd1) as [QE QV].
      destruct (ext_value a (decls ds) None) as [w|] eqn:Ew.
      - assert (Da : In a (map fst (decls ds))).
        { destruct (ext_value_some a (decls ds) None w Ew) as [Iv|Iv]; [|discriminate]. apply (in_map fst) in Iv. exact Iv. }
        assert (Ha : In a E) by (apply QE; exact Da).
        rewrite (ext_value_cur (m a)), (ext_value_cur a (decls ds)), Ew.
        rewrite (ext_value_map m v E a Ha); [rewrite (QV w eq_refl); reflexivity|].
        intros b Hb Eb. symmetry. apply (inv_inj _ Isf a b Na). symmetry. exact Eb.
      - rewrite (ext_value_cur a (decls ds)), Ew. apply ext_value_notin.
        rewrite map_map. simpl. intros Hin. apply in_map_iff in Hin as [b [Eb Hb]].
        assert (b = a) by (symmetry; apply (inv_inj _ Isf a b Na); symmetry; exact Eb). subst b.
        apply (ext_value_none a (decls ds) Ew). apply QE. exact Hb. }
    split.
    { intros b. rewrite B12, A12, rules_of_app, in_head_app, orb_assoc. reflexivity. }
    split; [exact B13 | eapply good_trans; eassumption].
Qed.

(* ---- the accumulated program against what was emitted ---- *)
Lemma of_calls_tr ds : of_calls (map tr ds) = mkP (rules_of ds) (decls ds) (asm_of ds) (mins_of ds) (outs_of (map tr ds)).
Proof. rewrite of_calls_fields, rules_of_tr, decls_tr, asm_of_tr, mins_of_tr. reflexivity. Qed.
Lemma answer_tr ds X : answer (of_calls (map tr ds)) X <-> answer (of_calls ds) X.
Proof. rewrite of_calls_tr, of_calls_fields. unfold answer, ext_rules, ext_rule. simpl. tauto. Qed.
Lemma shown_tr ds X n : ~ helper_name n -> (shown (of_calls (map tr ds)) X n <-> shown (of_calls ds) X n).
Proof.
  intros Hn. unfold shown. rewrite of_calls_tr, of_calls_fields. simpl.
  split; intros [c [H1 H2]]; exists c; (split; [|exact H2]); apply (outs_of_tr ds n c Hn); exact H1.
Qed.
Lemma holds_repeat_false X k : forallb (holds X) (repeat (- false_atom) (S k)) = negb (X false_atom).
Proof.
  assert (H : holds X (- false_atom) = negb (X false_atom)) by reflexivity.
  induction k as [|k IH].
  - cbn [repeat forallb]. rewrite H. apply andb_true_r.
  - change (repeat (- false_atom) (S (S k))) with ((- false_atom) :: repeat (- false_atom) (S k)). cbn [forallb].
    rewrite IH, H. destruct (X false_atom); reflexivity.
Qed.
Lemma ext_value_in_keys k l w : ext_value k l None = Some w -> In k (map fst l).
Proof. intros H. destruct (ext_value_some k l None w H) as [Hin|E]; [apply (in_map fst) in Hin; exact Hin | discriminate]. Qed.

(* the status of an atom as an external of a program: None = not (or no longer) external, Some v = external with value v *)
Definition ext_status (P : program) (a : Z) : option Z :=
  if in_head (p_rules P) a then None else ext_value a (p_ext P) None.
Definition xatoms (m : Z -> Z) (acc : list call) : list Z := step_atoms m (map tr acc).

Lemma okx_concat steps : Forall (fun ds => forallb okx ds = true) steps -> forallb okx (concat steps) = true.
Proof. induction 1 as [|ds r H Hr IH]; [reflexivity|]. simpl. rewrite forallb_app, H, IH. reflexivity. Qed.

Section Steps.
Variables (steps : list (list call)) (s0 s : cv) (out : list call) (sf : cv).
Hypothesis HNE : steps <> [].
Hypothesis HO : Forall (fun ds => forallb okx ds = true) steps.
Hypothesis HW : Forall (Forall call_wfX) steps.
Hypothesis HI : Inv s0.
Hypothesis HF : fresh_step s0.
Hypothesis Hrun : cv_run true s0 (body steps) = Ok (s, out).
Hypothesis G : good s sf.
Hypothesis HB : next sf <= SMID_MOD.
Let m := img sf.
Let acc := concat steps.
Let Pin := of_calls acc.
Let Pout := of_calls out.
Let atoms := xatoms m acc.

Lemma steps_equiv_status :
  (exists fw : interp -> interp,
    (forall a b, In a atoms -> In b atoms -> m a = m b -> a = b) /\
    (forall X, answer Pin X ->
       answer Pout (fw X) /\ (forall a, In a atoms -> fw X (m a) = X a) /\
       (forall n, ~ helper_name n -> (shown Pin X n <-> shown Pout (fw X) n)) /\
       (forall prio, cost (p_min Pout) prio (fw X) = cost (p_min Pin) prio X - negs acc prio)) /\
    (forall X', answer Pout X' -> answer Pin (pull m atoms X') /\ forall y, fw (pull m atoms X') y = X' y) /\
    (forall X a, answer Pin X -> pull m atoms (fw X) a = X a)) /\
  (forall a, m a <> 0 -> ext_status Pout (m a) = ext_status Pin a) /\
  (forall y w, ext_status Pout y = Some w -> exists a, y = m a /\ In a atoms /\ ext_status Pin a = Some w) /\
  (forall a w, ext_status Pin a = Some w -> In a atoms /\ m a <> 0).
Proof.
  destruct HF as [F1 [F2 [F3 [F4 F5]]]].
  assert (HP : pending0 s0) by (repeat split; assumption).
  destruct (steps_facts steps s0 s out sf HO HW HI HP Hrun G HB)
    as [cas [PE [E1 [CO [ND [RA [ER [ED [EA [HPO [HCO [PE1 [PE2 [_ [_ G0]]]]]]]]]]]]]]].
  fold m in E1, CO, RA, ER, HPO, HCO, PE1, PE2. fold acc in E1, HCO, PE1, PE2.
  assert (Isf : Inv sf).
  { apply (Inv_of_good s0 sf); [eapply good_trans; eassumption | exact HI | exact HB]. }
  assert (CA : Forall (fun x => In x (auxs sf)) (somes (map snd cas))) by (eapply Forall_impl; [|exact RA]; simpl; tauto).
  assert (HOc : forallb okc (map fst cas) = true).
  { rewrite E1. apply okc_trL. apply okx_concat. exact HO. }
  assert (HEADS : forall a, m a <> 0 -> in_head (rules_of out) (m a) = in_head (rules_of acc) a).
  { intros a Na. rewrite ER, <- (rules_of_tr acc). apply (heads_emitted sf cas (map tr acc) Isf CO ND CA E1 a Na). }
  assert (PR : p_rules Pout = rules_of out) by (unfold Pout; rewrite of_calls_fields; reflexivity).
  assert (PX : p_ext Pout = PE) by (unfold Pout; rewrite of_calls_fields; exact ED).
  assert (PA : p_assume Pout = repeat (- false_atom) (length steps)) by (unfold Pout; rewrite of_calls_fields; exact EA).
  assert (PM : p_min Pout = mins_of out) by (unfold Pout; rewrite of_calls_fields; reflexivity).
  assert (PO : p_out Pout = outs_of out) by (unfold Pout; rewrite of_calls_fields; reflexivity).
  assert (DM : forall a, In a (map fst (decls acc)) -> m a <> 0 /\ In a atoms).
  { intros a Ha. apply in_map_iff in Ha as [[a' v] [<- Hd]]. apply In_decls in Hd. simpl.
    assert (Hd' : In (CExternal a' v) (map fst cas)) by (rewrite E1; apply in_map_iff; exists (CExternal a' v); auto).
    apply in_map_iff in Hd' as [[c ann] [Ec Hca]]. simpl in Ec. subst c.
    unfold CO_ok in CO. rewrite Forall_forall in CO. destruct (CO _ Hca) as [_ [M _]]. simpl in M. split; [exact M|].
    unfold atoms, xatoms, step_atoms. apply filter_In. split; [|apply negb_true_iff; fold m; lia].
    apply in_flat_map. exists (CExternal a' v). split; [apply in_map_iff; exists (CExternal a' v); auto | left; reflexivity]. }
  assert (VEQ : forall a, in_head (rules_of acc) a = false -> m a <> 0 -> ext_value (m a) PE None = ext_value a (decls acc) None).
  { intros a Hd Na. apply (PE2 a None (F5 a) Hd Na). }
  split; [|split; [|split]].
  - (* the bijection *)
    pose proof (core_gen sf Isf cas HOc CO ND CA Pout (ext_rules Pout) helper_name) as CG. rewrite E1 in CG.
    assert (CG' : exists fw : interp -> interp,
      (forall a b, In a atoms -> In b atoms -> m a = m b -> a = b) /\
      (forall X, answer (of_calls (map tr acc)) X ->
         answer Pout (fw X) /\ (forall a, In a atoms -> fw X (m a) = X a) /\
         (forall n, ~ helper_name n -> (shown (of_calls (map tr acc)) X n <-> shown Pout (fw X) n)) /\
         (forall prio, cost (p_min Pout) prio (fw X) = cost (p_min (of_calls (map tr acc))) prio X - negs (map tr acc) prio)) /\
      (forall X', answer Pout X' -> answer (of_calls (map tr acc)) (pull m atoms X') /\ forall y, fw (pull m atoms X') y = X' y) /\
      (forall X a, answer (of_calls (map tr acc)) X -> pull m atoms (fw X) a = X a)).
    { apply CG.
      - intros X'. unfold answer. rewrite PR, PA, ER.
        destruct steps as [|d0 r0]; [contradiction|]. cbn [length]. rewrite holds_repeat_false.
        destruct (X' false_atom); simpl; intuition congruence.
      - intros r Hr. apply In_ext_rules in Hr as [y [Hy Hr]]. apply ext_rule_form in Hr as [ch ->]. split; [reflexivity|].
        intros h [<-|[]]. rewrite PX in Hy. apply in_map_iff in Hy as [[y' w] [<- Hy]]. simpl.
        destruct (PE1 y' w Hy) as [a [-> [Na Da]]]. exists a. rewrite decls_tr. auto.
      - intros X' Y'. rewrite <- (map_id (ext_rules Pout)).
        rewrite (ext_rules_sem_g (fun r => r) (fun y => y) Pout X' Y') by reflexivity.
        rewrite PR, PX, decls_tr, rules_of_tr. unfold ext_sem. split.
        + intros H a Da Hd. destruct (DM a Da) as [Na _].
          pose proof (VEQ a Hd Na) as V.
          destruct (ext_value_In a (decls acc) Da) as [w [Ew _]].
          assert (Dy : In (m a) (map fst PE)) by (apply (ext_value_in_keys (m a) PE w); rewrite V; exact Ew).
          assert (Hy : in_head (rules_of out) (m a) = false) by (rewrite (HEADS a Na); exact Hd).
          pose proof (H (m a) Dy Hy) as Q. rewrite V in Q. exact Q.
        + intros H y Dy Hy. apply in_map_iff in Dy as [[y' w] [<- Dy]]. simpl in *.
          destruct (PE1 y' w Dy) as [a [-> [Na Da]]]. rewrite (HEADS a Na) in Hy. rewrite (VEQ a Hy Na). apply (H a Da Hy).
      - intros n c Hn. rewrite PO. apply (HPO n c Hn).
      - intros X X' HL prio. rewrite PM, of_calls_tr. cbn [p_min]. rewrite negs_tr. apply (HCO X X' HL prio). }
    destruct CG' as [fw [C1 [C2 [C3 C4]]]]. exists fw. split; [exact C1|]. split; [|split].
    + intros X HA. apply (answer_tr acc X) in HA. destruct (C2 X HA) as [D1 [D2 [D3 D4]]].
      split; [exact D1|]. split; [exact D2|]. split.
      * intros n Hn. rewrite <- (D3 n Hn). symmetry. apply (shown_tr acc X n Hn).
      * intros prio. rewrite (D4 prio), of_calls_tr, negs_tr. unfold Pin. rewrite of_calls_fields. reflexivity.
    + intros X' HA. destruct (C3 X' HA) as [D1 D2]. split; [apply (answer_tr acc); exact D1 | exact D2].
    + intros X a HA. apply C4. apply (answer_tr acc X). exact HA.
  - (* status: forward *)
    intros a Na. unfold ext_status. rewrite PR, PX, (HEADS a Na). unfold Pin. rewrite of_calls_fields. cbn [p_rules p_ext].
    destruct (in_head (rules_of acc) a) eqn:Hd; [reflexivity|]. apply (VEQ a Hd Na).
  - (* status: every external of the output is the image of one of the input *)
    intros y w H. unfold ext_status in H. rewrite PR, PX in H.
    destruct (in_head (rules_of out) y) eqn:Hy; [discriminate|].
    pose proof (ext_value_in_keys y PE w H) as Dy. apply in_map_iff in Dy as [[y' w'] [<- Dy]]. simpl in *.
    destruct (PE1 y' w' Dy) as [a [-> [Na Da]]]. exists a. split; [reflexivity|]. split; [apply (DM a Da)|].
    unfold ext_status, Pin. rewrite of_calls_fields. cbn [p_rules p_ext]. rewrite (HEADS a Na) in Hy. rewrite Hy.
    rewrite <- (VEQ a Hy Na). exact H.
  - (* status: every external of the input is a mapped atom *)
    intros a w H. unfold ext_status, Pin in H. rewrite of_calls_fields in H. cbn [p_rules p_ext] in H.
    destruct (in_head (rules_of acc) a); [discriminate|].
    pose proof (ext_value_in_keys a (decls acc) w H) as Da. destruct (DM a Da). auto.
Qed.
End Steps.
