(* C20 - the property theorems, assembled from Once / Typed / Client / Refcount. *)
Require Import V.Lib.Base V.Gen.Consts_C20 V.C20.Model V.C20.Lists V.C20.Inv V.C20.Frame V.C20.Once V.C20.Spec V.C20.Typed V.C20.Client V.C20.Refcount.
Require Import Permutation.
Local Open Scope Z_scope.

Definition final (H M : nat) (tys : list Z) (ops : list op) : st := snd (run_ops H M tys (init H M) ops).

Lemma final_good H M tys ops : Good H M (final H M tys ops).
Proof. apply Good_run, Good_init. Qed.

Lemma run_ops_app H M tys s ops1 ops2 :
  snd (run_ops H M tys s (ops1 ++ ops2)) = snd (run_ops H M tys (snd (run_ops H M tys s ops1)) ops2).
Proof.
  revert s; induction ops1 as [|o ops1 IH]; intros s; simpl; auto.
  destruct (step H M tys s o) as [o1 s1]. specialize (IH s1).
  destruct (run_ops H M tys s1 (ops1 ++ ops2)) as [oa sa]. destruct (run_ops H M tys s1 ops1) as [ob sb]. simpl in *. exact IH.
Qed.

Lemma final_abs H M tys ops :
  abs (final H M tys ops) = srun H M tys (ainit H M) ops /\ AWf H M (abs (final H M tys ops)).
Proof.
  unfold final. rewrite (run_refines H M tys) by apply Good_init. rewrite abs_init.
  destruct (arun_srun H M tys (ainit H M) ops (AWf_init H M)) as (A & B). rewrite A. auto.
Qed.

(* ---- c20_typed ---- *)
Theorem typed_main H M tys ops :
  let s := final H M tys ops in
  err s = false /\
  abs s = srun H M tys (ainit H M) ops /\
  (forall i ty, fst (cast s i ty) = a_cast (srun H M tys (ainit H M) ops) i ty /\ snd (cast s i ty) = s).
Proof.
  intros s. pose proof (final_good H M tys ops) as HG. fold s in HG. destruct (final_abs H M tys ops) as (A & _). fold s in A.
  split; [apply HG|split]; [exact A|]. intros i ty. split; [rewrite <- A; apply R_cast|apply cast_state; apply HG].
Qed.

Lemma a_cast_spec a i ty v : a_cast a i ty = Some v <-> exists r, aslot a i = Some (r, ty, v).
Proof.
  unfold a_cast. destruct (aslot a i) as [[[r ty'] w]|]; split.
  - destruct (Z.eqb_spec ty' ty) as [->|]; [|discriminate]. intros [= ->]. now exists r.
  - intros (r' & [= -> -> ->]). now rewrite Z.eqb_refl.
  - discriminate.
  - intros (r' & E). discriminate.
Qed.

(* ---- c20_independent ---- *)
Theorem independent_main H M tys ops1 i j rest (copy : op) :
  okh H i = true -> okh H j = true -> i <> j -> copy = OAssign i j \/ copy = OConsCopy i j ->
  let s1 := final H M tys (ops1 ++ [copy]) in
  let s2 := final H M tys ((ops1 ++ [copy]) ++ rest) in
  (* the copy holds an equal value ... *)
  aslot (abs s1) (hslot i) = aslot (abs s1) (hslot j) /\
  (* ... in a different object *)
  (forall a b, hptr (slot s1 (hslot i)) = Some a -> hptr (slot s1 (hslot j)) = Some b -> a <> b) /\
  (* later operations that do not name i leave i alone, whatever they do to j - and vice versa *)
  ((forall o, In o rest -> ~ In i (targets o)) -> aslot (abs s2) (hslot i) = aslot (abs s1) (hslot i)) /\
  ((forall o, In o rest -> ~ In j (targets o)) -> aslot (abs s2) (hslot j) = aslot (abs s1) (hslot j)).
Proof.
  intros Hi Hj Hne Hc s1 s2.
  destruct (final_abs H M tys (ops1 ++ [copy])) as (A1 & W1). fold s1 in A1, W1.
  pose proof (final_good H M tys (ops1 ++ [copy])) as G1. fold s1 in G1.
  assert (Hij : hslot i <> hslot j).
  { unfold hslot, okh in *. apply andb_true_iff in Hi. apply andb_true_iff in Hj. destruct Hi as [I1 _]. destruct Hj as [J1 _].
    apply Z.leb_le in I1. apply Z.leb_le in J1. lia. }
  split; [|split; [|split]].
  - (* equal value *)
    destruct (final_abs H M tys ops1) as (A0 & W0).
    assert (E : abs s1 = sstep H M tys (abs (final H M tys ops1)) copy).
    { unfold s1, final. rewrite run_ops_app. fold (final H M tys ops1).
      pose proof (final_good H M tys ops1) as G0.
      destruct (step_refines H M tys (final H M tys ops1) copy G0) as (R & _).
      simpl. destruct (step H M tys (final H M tys ops1) copy) as [o1 sx] eqn:Es. simpl in *. rewrite R.
      now apply astep_sstep. }
    rewrite E. set (a0 := abs (final H M tys ops1)) in *.
    assert (Vi : avalid a0 (hslot i) = true).
    { destruct W0 as (L & _). apply okh_range' in Hi. unfold avalid. apply Nat.ltb_lt. rewrite L. lia. }
    assert (S : sstep H M tys a0 copy = aset (hslot i) (aslot a0 (hslot j)) a0).
    { destruct Hc as [-> | ->]; cbn [sstep]; unfold a_src; now rewrite Hi, Hj. }
    rewrite S. rewrite aslot_aset_eq by auto. now rewrite aslot_aset_neq by auto.
  - (* different objects *)
    intros a b Ha Hb ->. apply Hij.
    destruct G1 as (((Hnd & _) & _) & _). unfold owned in Hnd. apply NoDup_app_l in Hnd.
    eapply holders_unique; eauto.
  - intros HT. unfold s2, final. rewrite run_ops_app. fold (final H M tys (ops1 ++ [copy])). fold s1.
    rewrite (run_refines H M tys) by exact G1.
    destruct (arun_srun H M tys (abs s1) rest W1) as (B & _). rewrite B. now apply srun_frame.
  - intros HT. unfold s2, final. rewrite run_ops_app. fold (final H M tys (ops1 ++ [copy])). fold s1.
    rewrite (run_refines H M tys) by exact G1.
    destruct (arun_srun H M tys (abs s1) rest W1) as (B & _). rewrite B. now apply srun_frame.
Qed.

(* ---- c20_valuemap ---- *)
Lemma upd_flag_id n (l : list bool) : nth n l false = true -> upd n true l = l.
Proof. intros E. rewrite <- E. apply upd_nth_id. Qed.

Theorem valuemap_main H M tys ops n ty id :
  let s := final H M tys ops in
  okm M n = true -> mpres s n = true -> slot s (mslot H n) = HHeap ty id ->
  (* ValueMap::add(name, the pointer the entry holds): nothing is destroyed, nothing is adopted - the state is the same *)
  step H M tys s (OMapAddSame n) = ([], s).
Proof.
  intros s Hn Hp Hs. cbn [step]. rewrite Hn, Hp, Hs. simpl andb. cbv iota.
  rewrite (vm_add_same _ _ _ _ _ Hs). unfold set_flag. rewrite upd_flag_id by exact Hp. destruct s; reflexivity.
Qed.

(* without the guard in ValueMap::add the object would be destroyed and then held: the next destruction is an error *)
Lemma assimilate_own_pointer_errs :
  let s := final 0 1 [4] [ONew 4 7; OMapAdd 0 0] in
  slot s (mslot 0 0) = HHeap 4 0 /\ err s = false /\ err (p_clear (mslot 0 0) (vs_assimilate (mslot 0 0) 0 s)) = true.
Proof. vm_compute. repeat split; reflexivity. Qed.

(* ---- non-vacuity of the hypotheses used above ---- *)
Example valuemap_hyps :
  let s := final 1 1 [4] [OParse 0 5 1] in
  okm 1 0 = true /\ mpres s 0 = true /\ slot s (mslot 1 0) = HHeap 4 0.
Proof. vm_compute. repeat split; reflexivity. Qed.

Example independent_instance :
  let s1 := final 2 0 [] ([OConsVal 1 4 7] ++ [OAssign 0 1]) in
  let s2 := final 2 0 [] (([OConsVal 1 4 7] ++ [OAssign 0 1]) ++ [OSetVal 1 9; OClear 1]) in
  aslot (abs s1) (hslot 0) = Some (false, 4, 7) /\ aslot (abs s2) (hslot 0) = Some (false, 4, 7) /\ aslot (abs s2) (hslot 1) = None.
Proof. vm_compute. repeat split; reflexivity. Qed.

(* ---- an observation outside the property's preconditions (see notes/C20.md) ----
   ValueMap::clear() does not know about a NotifiedValue that has handed its object to the map (value_.address keeps pointing
   to it): parsing that option again writes through the stale address.  In the model: the map is cleared but the binding
   flag stays; the next OParse finds no heap object in the entry and raises the error flag.  (The histories of the theorems
   above reset the binding together with the entry, which is what a client has to do: replace the NotifiedValue.) *)
Definition stale_clear (H M : nat) (s : st) : st :=
  set_pres (repeat false M) (fold_left (fun a n => p_clear (S (H + n)) a) (seq 0 M) s).
Lemma notified_value_after_map_clear_errs :
  let s := final 0 1 [7] [OParse 0 5 1] in
  err s = false /\ err (stale_clear 0 1 s) = false /\ err (snd (step 0 1 [7] (stale_clear 0 1 s) (OParse 0 6 1))) = true.
Proof. vm_compute. repeat split; reflexivity. Qed.
