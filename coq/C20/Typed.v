(* C20 - the ownership model refines the value-semantics specification: abs (p s) = a_p (abs s) for every
   primitive p of the model, on states that satisfy the ownership invariant. *)
Require Import V.Lib.Base V.Gen.Consts_C20 V.C20.Model V.C20.Lists V.C20.Inv V.C20.Frame V.C20.Once V.C20.Spec.
Require Import Permutation.
Local Open Scope Z_scope.

Definition habs (l : ledger) (h : holder) : aval :=
  match h with
  | HEmpty => None
  | HIn ty id => Some (true, ty, val_of l id)
  | HHeap ty id => Some (false, ty, val_of l id)
  end.
Definition oabs (l : ledger) (id : nat) : Z * Z := (ty_of l id, val_of l id).
Definition abs (s : st) : ast := mkA (map (habs (led s)) (hs s)) (pres s) (nvb s) (map (oabs (led s)) (cl s)).

Ltac sa := unfold abs, aset, aset_cl, aset_pres, aset_nvb in *; sf; cbn [a_hs a_pres a_nvb a_cl led hs cl err pres nvb] in *.

(* ---------- ledgers that agree on the objects that matter ---------- *)
Definition same_vt (l l' : ledger) (own : list nat) : Prop :=
  forall id, In id own -> val_of l' id = val_of l id /\ ty_of l' id = ty_of l id.

Lemma habs_ext l l' h own : same_vt l l' own -> (forall id, hptr h = Some id -> In id own) -> habs l' h = habs l h.
Proof.
  intros Hs Hh. destruct h as [|ty id|ty id]; simpl; auto; destruct (Hs id (Hh id eq_refl)) as [-> _]; auto.
Qed.

Lemma abs_hs_ext s l' : same_vt (led s) l' (owned s) -> map (habs l') (hs s) = map (habs (led s)) (hs s).
Proof.
  intros Hs. apply map_ext_in. intros h Hin. eapply habs_ext; eauto. intros id Hp. eapply holder_in_owned; eauto.
Qed.

Lemma abs_cl_ext s l' : same_vt (led s) l' (owned s) -> map (oabs l') (cl s) = map (oabs (led s)) (cl s).
Proof.
  intros Hs. apply map_ext_in. intros id Hin. unfold oabs.
  destruct (Hs id) as [-> ->]; auto. unfold owned. apply in_or_app; now right.
Qed.

Lemma same_vt_app s e : Inv s -> same_vt (led s) (led s ++ [e]) (owned s).
Proof.
  intros ((_ & Hi & _) & _) id Hin. apply Hi in Hin. apply live_range in Hin.
  rewrite val_of_app, ty_of_app. destruct (Nat.eqb_spec id (length (led s))); [lia|auto].
Qed.

Lemma same_vt_destroy l id e own : nth_error l id = Some e -> same_vt l (upd id (mkE (e_ty e) (e_val e) 1) l) own.
Proof.
  intros Hn x _. assert (Hr : (id < length l)%nat) by (apply nth_error_Some; congruence).
  rewrite val_of_upd, ty_of_upd by auto. destruct (Nat.eqb_spec x id) as [->|]; auto.
  unfold val_of, ty_of. rewrite Hn. auto.
Qed.

Lemma same_vt_set l id e ty v own :
  nth_error l id = Some e -> ~ In id own -> same_vt l (upd id (mkE ty v 0) l) own.
Proof.
  intros Hn Hni x Hin. assert (Hr : (id < length l)%nat) by (apply nth_error_Some; congruence).
  rewrite val_of_upd, ty_of_upd by auto. destruct (Nat.eqb_spec x id) as [->|]; auto. contradiction.
Qed.

(* ---------- single ownership, positionally ---------- *)
Lemma NoDup_app_disj {A} (l1 l2 : list A) x : NoDup (l1 ++ l2) -> In x l1 -> In x l2 -> False.
Proof.
  induction l1 as [|y l1 IH]; simpl; intros Hn H1 H2; [contradiction|].
  inversion Hn as [|? ? Hy Hn']; subst. destruct H1 as [->|H1].
  - apply Hy. apply in_or_app. now right.
  - eauto.
Qed.

Lemma NoDup_app_l {A} (l1 l2 : list A) : NoDup (l1 ++ l2) -> NoDup l1.
Proof. induction l1 as [|y l1 IH]; simpl; intros Hn; [constructor|]. inversion Hn; subst. constructor; auto. intros Hin. apply H1. apply in_or_app; now left. Qed.
Lemma NoDup_app_r {A} (l1 l2 : list A) : NoDup (l1 ++ l2) -> NoDup l2.
Proof. induction l1 as [|y l1 IH]; simpl; intros Hn; auto. inversion Hn; subst. auto. Qed.

Lemma hids_in_flat hs k id : hptr (nth k hs HEmpty) = Some id -> In id (flat_map hids hs).
Proof.
  intros Hp. apply in_flat_map. exists (nth k hs HEmpty). split.
  - apply nth_In. destruct (Nat.lt_ge_cases k (length hs)); auto. rewrite nth_overflow in Hp by auto. discriminate.
  - unfold hids. rewrite Hp. now left.
Qed.

Lemma holders_unique hs i k id :
  NoDup (flat_map hids hs) -> hptr (nth i hs HEmpty) = Some id -> hptr (nth k hs HEmpty) = Some id -> i = k.
Proof.
  revert i k; induction hs as [|h r IH]; intros i k Hn Hi Hk.
  - destruct i; discriminate.
  - simpl in Hn. destruct i as [|i], k as [|k]; simpl in *; auto.
    + exfalso. eapply (NoDup_app_disj _ _ id Hn); [unfold hids; rewrite Hi; now left|eapply hids_in_flat; eauto].
    + exfalso. eapply (NoDup_app_disj _ _ id Hn); [unfold hids; rewrite Hk; now left|eapply hids_in_flat; eauto].
    + f_equal. apply IH; auto. eapply NoDup_app_r; eauto.
Qed.

(* a write to the object in slot i is seen in slot i only *)
Lemma abs_set_slot s i id e ty v :
  Inv s -> hptr (slot s i) = Some id -> nth_error (led s) id = Some e ->
  map (habs (upd id (mkE ty v 0) (led s))) (hs s) =
    upd i (habs (upd id (mkE ty v 0) (led s)) (slot s i)) (map (habs (led s)) (hs s)) /\
  map (oabs (upd id (mkE ty v 0) (led s))) (cl s) = map (oabs (led s)) (cl s).
Proof.
  intros HI Hp Hn. set (l' := upd id (mkE ty v 0) (led s)).
  pose proof HI as ((Hnd & _) & _). unfold owned in Hnd.
  pose proof (slot_range _ _ _ Hp) as Hi.
  assert (Hr : (id < length (led s))%nat) by (apply nth_error_Some; congruence).
  split.
  - apply nth_ext with (d := None) (d' := None); [now rewrite upd_length, !map_length|].
    intros k Hk. rewrite map_length in Hk. rewrite nth_upd, map_length.
    change None with (habs l' HEmpty) at 1. rewrite map_nth.
    destruct (Nat.eqb_spec i k) as [<-|Hne]; simpl.
    + destruct (Nat.ltb_spec i (length (hs s))); [reflexivity|lia].
    + change None with (habs (led s) HEmpty). rewrite map_nth.
      destruct (nth k (hs s) HEmpty) as [|ty' id'|ty' id'] eqn:Ek; simpl; auto;
        unfold l'; rewrite val_of_upd by auto; destruct (Nat.eqb_spec id' id) as [->|]; auto;
        exfalso; apply Hne; eapply (holders_unique (hs s) i k id); eauto using NoDup_app_l; rewrite Ek; reflexivity.
  - apply map_ext_in. intros id' Hin. unfold oabs, l'. rewrite val_of_upd, ty_of_upd by auto.
    destruct (Nat.eqb_spec id' id) as [->|]; auto.
    exfalso. eapply (NoDup_app_disj _ _ id Hnd); eauto. eapply hids_in_flat; eauto.
Qed.

(* a write to the client's k-th object is seen there only *)
Lemma abs_set_cl s k id e ty v :
  Inv s -> nth_error (cl s) k = Some id -> nth_error (led s) id = Some e ->
  map (habs (upd id (mkE ty v 0) (led s))) (hs s) = map (habs (led s)) (hs s) /\
  map (oabs (upd id (mkE ty v 0) (led s))) (cl s) = upd k (ty, v) (map (oabs (led s)) (cl s)).
Proof.
  intros HI Hk Hn. set (l' := upd id (mkE ty v 0) (led s)).
  pose proof HI as ((Hnd & _) & _). unfold owned in Hnd.
  assert (Hr : (id < length (led s))%nat) by (apply nth_error_Some; congruence).
  assert (Hkl : (k < length (cl s))%nat) by (apply nth_error_Some; congruence).
  split.
  - apply map_ext_in. intros h Hin.
    destruct h as [|ty' id'|ty' id']; simpl; auto; unfold l'; rewrite val_of_upd by auto;
      destruct (Nat.eqb_spec id' id) as [->|]; auto; exfalso;
      (eapply (NoDup_app_disj _ _ id Hnd); [|eapply nth_error_In; eauto]);
      apply in_flat_map; eexists; (split; [exact Hin|]); simpl; now left.
  - apply nth_ext with (d := (0, 0)) (d' := (0, 0)); [now rewrite upd_length, !map_length|].
    intros j Hj. rewrite map_length in Hj. rewrite nth_upd, map_length.
    destruct (Nat.eqb_spec k j) as [<-|Hne]; simpl.
    + destruct (Nat.ltb_spec k (length (cl s))); [|lia].
      rewrite (nth_error_nth_some (map (oabs l') (cl s)) k (0, 0) (oabs l' id)) by (rewrite nth_error_map', Hk; reflexivity).
      unfold oabs, l'. rewrite val_of_upd, ty_of_upd, Nat.eqb_refl by auto. reflexivity.
    + destruct (nth_error (cl s) j) as [id'|] eqn:Ej; [|apply nth_error_None in Ej; lia].
      rewrite (nth_error_nth_some (map (oabs l') (cl s)) j (0, 0) (oabs l' id')) by (rewrite nth_error_map', Ej; reflexivity).
      rewrite (nth_error_nth_some (map (oabs (led s)) (cl s)) j (0, 0) (oabs (led s) id')) by (rewrite nth_error_map', Ej; reflexivity).
      unfold oabs, l'. rewrite val_of_upd, ty_of_upd by auto.
      destruct (Nat.eqb_spec id' id) as [->|]; auto.
      exfalso. apply Hne. eapply (NoDup_nth_error (cl s)); eauto using NoDup_app_r. congruence.
Qed.

(* ---------- reading the abstract state ---------- *)
Lemma aslot_abs s i : aslot (abs s) i = habs (led s) (slot s i).
Proof. unfold aslot, slot; sa. change None with (habs (led s) HEmpty). apply map_nth. Qed.
Lemma avalid_abs s i : avalid (abs s) i = valid s i.
Proof. unfold avalid, valid; sa. now rewrite map_length. Qed.
Lemma habs_none l h : habs l h = None <-> h = HEmpty.
Proof. destruct h; simpl; split; intros; auto; discriminate. Qed.
Lemma acl_abs s k : nth_error (a_cl (abs s)) k = option_map (oabs (led s)) (nth_error (cl s) k).
Proof. sa. apply nth_error_map'. Qed.
Lemma a_last_abs s : a_last (abs s) = last_cl s.
Proof. unfold a_last, last_cl; sa. now rewrite map_length. Qed.

Lemma abs_same_led s s' :
  led s' = led s -> abs s' = mkA (map (habs (led s)) (hs s')) (pres s') (nvb s') (map (oabs (led s)) (cl s')).
Proof. intros E. unfold abs. now rewrite E. Qed.

(* running a destructor changes no value and no type *)
Lemma abs_destroy s id e : nth_error (led s) id = Some e -> e_dc e = 0 -> abs (obj_destroy id s) = abs s.
Proof.
  intros Hn H0. rewrite (destroy_live id s e Hn H0). unfold abs; sf.
  assert (E : same_vt (led s) (upd id (mkE (e_ty e) (e_val e) 1) (led s)) (seq 0 (S (length (led s) + id + length (hs s))))) by (now apply same_vt_destroy).
  f_equal.
  - apply map_ext. intros h. destruct h as [|ty i|ty i]; simpl; auto;
      destruct (same_vt_destroy (led s) id e [i] Hn i (or_introl eq_refl)) as [-> _]; auto.
  - apply map_ext. intros i. unfold oabs. destruct (same_vt_destroy (led s) id e [i] Hn i (or_introl eq_refl)) as [-> ->]; auto.
Qed.

Lemma R_new ty v s : Inv s -> abs (p_new ty v s) = a_new ty v (abs s).
Proof.
  intros HI. unfold p_new, obj_new, a_new. sf. sa. f_equal.
  - apply (abs_hs_ext s). now apply same_vt_app.
  - rewrite map_app. f_equal; [apply (abs_cl_ext s); now apply same_vt_app|].
    simpl. unfold oabs. now rewrite ty_of_app, val_of_app, Nat.eqb_refl.
Qed.

Lemma R_cdel k s : Inv s -> abs (p_cdel k s) = a_cdel k (abs s).
Proof.
  intros HI. unfold p_cdel, a_cdel. rewrite acl_abs. destruct (nth_error (cl s) k) as [id|] eqn:Hk; simpl; auto.
  destruct (Inv_live s id HI (client_in_owned _ _ _ Hk)) as (e & Hn & H0).
  rewrite (abs_destroy _ id e) by (sf; auto). sa; sf. f_equal. apply map_remove_nth.
Qed.

Lemma R_clear i s :
  (forall id, hptr (slot s i) = Some id -> live (led s) id = true) -> abs (p_clear i s) = a_clear i (abs s).
Proof.
  intros Hl. unfold p_clear, a_clear. destruct (hptr (slot s i)) as [id|] eqn:Hp.
  - destruct (live_entry _ _ (Hl id eq_refl)) as (e & Hn & H0).
    rewrite (abs_destroy _ id e) by (sf; auto). sa; sf. f_equal. rewrite map_upd. reflexivity.
  - sa. f_equal. assert (E : slot s i = HEmpty) by (destruct (slot s i); try discriminate; auto).
    pose proof (aslot_abs s i) as A. unfold aslot in A; sa. rewrite E in A. simpl in A. rewrite <- A at 1. now rewrite upd_nth_id.
Qed.

Lemma R_clear_inv i s : Inv s -> abs (p_clear i s) = a_clear i (abs s).
Proof. intros ((_ & Hi & _) & _). apply R_clear. intros id Hp. apply Hi. eapply slot_in_owned; eauto. Qed.

Lemma abs_copy_into i s ty src h (rep : bool) :
  Inv s -> (i < length (hs s))%nat -> In src (owned s) -> ty_of (led s) src = ty ->
  (forall id, h id = (if rep then HIn ty id else HHeap ty id)) ->
  abs (let '(s1, id) := obj_copy ty src s in set_slot i (h id) s1) = aset i (Some (rep, ty, val_of (led s) src)) (abs s).
Proof.
  intros HI Hi Hin Hty Hh. rewrite copy_usable by auto. unfold obj_new. sa; sf. f_equal.
  - rewrite map_upd. f_equal.
    + rewrite Hh. destruct rep; simpl; now rewrite val_of_app, Nat.eqb_refl.
    + apply (abs_hs_ext s). now apply same_vt_app.
  - apply (abs_cl_ext s). now apply same_vt_app.
Qed.

Lemma R_store i k s : Inv s -> abs (p_store i k s) = a_store i k (abs s).
Proof.
  intros HI. unfold p_store, a_store. rewrite avalid_abs. unfold valid.
  destruct (Nat.ltb_spec i (length (hs s))) as [Hi|]; auto.
  rewrite aslot_abs, acl_abs. destruct (slot s i) eqn:Hs; simpl; auto.
  destruct (nth_error (cl s) k) as [src|] eqn:Hk; simpl; auto.
  apply (abs_copy_into i s _ src (fun id => mk_stored (ty_of (led s) src) id) (stored_inplace (ty_of (led s) src))); auto.
  all: try (eapply client_in_owned; eauto).
  all: try (intros id; unfold mk_stored; now destruct (stored_inplace _)).
Qed.

Lemma R_clone i j s : Inv s -> abs (p_clone i j s) = a_clone i j (abs s).
Proof.
  intros HI. unfold p_clone, a_clone. rewrite avalid_abs. unfold valid.
  destruct (Nat.ltb_spec i (length (hs s))) as [Hi|]; auto.
  rewrite !aslot_abs. destruct (slot s i) eqn:Hs; simpl; auto.
  pose proof (hok_slot s j (proj2 (proj2 HI))) as Hk. unfold hok in Hk.
  destruct (slot s j) as [|ty src|ty src] eqn:Hj; simpl in *; auto.
  - apply (abs_copy_into i s ty src (fun id => HIn ty id) true); auto. eapply slot_in_owned; rewrite Hj; reflexivity.
  - apply (abs_copy_into i s ty src (fun id => HHeap ty id) false); auto. eapply slot_in_owned; rewrite Hj; reflexivity.
Qed.

Lemma R_swap i j s : abs (p_swap i j s) = a_swap i j (abs s).
Proof.
  unfold p_swap, a_swap. rewrite !avalid_abs. destruct (valid s i && valid s j)%bool; auto.
  rewrite !aslot_abs. sa; sf. f_equal. now rewrite !map_upd.
Qed.

Lemma R_adopt i k s : Inv s -> abs (p_adopt i k s) = a_adopt i k (abs s).
Proof.
  intros HI. unfold p_adopt, a_adopt. rewrite avalid_abs. destruct (valid s i); auto.
  rewrite acl_abs. destruct (nth_error (cl s) k) as [id|] eqn:Hk; simpl; auto.
  unfold vs_assimilate. set (s1 := set_cl (remove_nth k (cl s)) s).
  assert (Hc : abs (p_clear i s1) = a_clear i (abs s1)).
  { apply R_clear. intros id' Hp. apply (proj1 (proj2 (proj1 HI))). eapply (slot_in_owned s); eauto. }
  (* the ledger after clear has the same types and values *)
  assert (Hvt : forall x, ty_of (led (p_clear i s1)) x = ty_of (led s) x /\ val_of (led (p_clear i s1)) x = val_of (led s) x).
  { intros x. unfold p_clear. destruct (hptr (slot s1 i)) as [id'|] eqn:Hp; [|unfold s1; sf; auto].
    assert (Hl : live (led s) id' = true) by (apply (proj1 (proj2 (proj1 HI))); eapply (slot_in_owned s); eauto).
    destruct (live_entry _ _ Hl) as (e & Hn & H0). rewrite (destroy_live id' _ e) by (unfold s1; sf; auto). unfold s1; sf.
    destruct (same_vt_destroy (led s) id' e [x] Hn x (or_introl eq_refl)) as [E1 E2]. rewrite E1, E2. auto. }
  unfold abs in *; sf. unfold a_clear in Hc; sa. inversion Hc as [[E1 E2 E3 E4]]. clear Hc.
  destruct (p_clear_fields i s1) as (F1 & F2 & F3 & F4). rewrite F2, F3, F4 in *. unfold s1 in *; sf.
  f_equal.
  - rewrite map_upd, E1, upd_upd_same. f_equal. unfold mk_adopted, oabs.
    destruct (Hvt id) as [-> Hv]. destruct base_inplace; simpl; now rewrite Hv.
  - rewrite E4. apply map_remove_nth.
Qed.

Lemma R_surrender i s : Inv s -> abs (p_surrender i s) = a_surrender i (abs s).
Proof.
  intros HI. unfold p_surrender, a_surrender. rewrite aslot_abs.
  pose proof (hok_slot s i (proj2 (proj2 HI))) as Hk. unfold hok in Hk.
  destruct (slot s i) as [|ty id|ty id] eqn:Hs; simpl in *; auto.
  - assert (Hp : hptr (slot s i) = Some id) by now rewrite Hs.
    destruct (Inv_live s id HI (slot_in_owned _ _ _ Hp)) as (e & Hn & H0).
    rewrite (abs_destroy _ id e) by (sf; auto). sa; sf. f_equal. rewrite map_upd. reflexivity.
  - sa; sf. f_equal; [rewrite map_upd; reflexivity|]. rewrite map_app. simpl. unfold oabs. now rewrite Hk.
Qed.

Lemma usable_owned s id ty : Inv s -> In id (owned s) -> ty_of (led s) id = ty -> usable ty id s = true.
Proof.
  intros HI Hin Hty. destruct (Inv_live s id HI Hin) as (e & Hn & H0). unfold usable. rewrite Hn, H0.
  unfold ty_of in Hty; rewrite Hn in Hty. now rewrite Hty, !Z.eqb_refl.
Qed.

Lemma R_setval i v s : Inv s -> abs (p_setval i v s) = a_setval i v (abs s).
Proof.
  intros HI. unfold p_setval, a_setval. rewrite aslot_abs.
  pose proof (hok_slot s i (proj2 (proj2 HI))) as Hk. unfold hok in Hk.
  destruct (hptr (slot s i)) as [id|] eqn:Hp.
  - pose proof (slot_in_owned _ _ _ Hp) as Hin. destruct (Inv_live s id HI Hin) as (e & Hn & H0).
    unfold obj_set. rewrite (usable_owned s id (hty (slot s i)) HI Hin Hk).
    destruct (abs_set_slot s i id e (hty (slot s i)) (norm (hty (slot s i)) v) HI Hp Hn) as (A & B).
    assert (Hr : (id < length (led s))%nat) by (apply nth_error_Some; congruence).
    unfold abs; sf. rewrite A, B.
    destruct (slot s i) as [|ty id'|ty id'] eqn:Hs; try discriminate; simpl in *; inversion Hp; subst;
      sa; f_equal; f_equal; now rewrite val_of_upd, Nat.eqb_refl by auto.
  - destruct (slot s i); try discriminate. reflexivity.
Qed.

Lemma R_cset k v s : Inv s -> abs (p_cset k v s) = a_cset k v (abs s).
Proof.
  intros HI. unfold p_cset, a_cset. rewrite acl_abs. destruct (nth_error (cl s) k) as [id|] eqn:Hk; simpl; auto.
  pose proof (client_in_owned _ _ _ Hk) as Hin. destruct (Inv_live s id HI Hin) as (e & Hn & H0).
  unfold obj_set. rewrite (usable_owned s id _ HI Hin eq_refl).
  destruct (abs_set_cl s k id e (ty_of (led s) id) (norm (ty_of (led s) id) v) HI Hk Hn) as (A & B).
  unfold abs; sf. rewrite A, B. reflexivity.
Qed.

Lemma R_cast s i ty : fst (cast s i ty) = a_cast (abs s) i ty.
Proof.
  unfold cast, a_cast. rewrite aslot_abs. destruct (slot s i) as [|ty' id|ty' id]; simpl; auto;
    destruct (ty' =? ty); auto; destruct (usable ty id s); auto.
Qed.

(* ValueMap::add with a pointer that the map does not hold (the caller owned it) *)
Lemma R_vm_add n i id s0 s :
  Inv s0 -> Permutation (owned s0) (id :: owned s) -> led s = led s0 -> hs s = hs s0 ->
  abs (vm_add n i id s) = a_vm_add n i (oabs (led s) id) (abs s).
Proof.
  intros HI HP Hl Hh. unfold vm_add. set (s1 := set_pres (set_flag n true (pres s)) s).
  assert (Hne : forall ty id', slot s1 i = HHeap ty id' -> id' <> id).
  { intros ty id' Hs ->. pose proof HI as ((Hnd & _) & _).
    eapply Permutation_NoDup in Hnd; [|exact HP]. inversion Hnd as [|? ? Hnin _]; subst. apply Hnin.
    apply (slot_in_owned s i id). unfold slot, s1 in *; sf. now rewrite Hs. }
  assert (A : abs (vs_assimilate i id s1) = a_vm_add n i (oabs (led s) id) (abs s)).
  { unfold vs_assimilate.
    assert (Hlv : forall id', hptr (slot s1 i) = Some id' -> live (led s1) id' = true).
    { intros id' Hp. unfold s1; sf. rewrite Hl. apply (proj1 (proj2 (proj1 HI))). apply (slot_in_owned s0 i). unfold slot in *; unfold s1 in Hp; sf. now rewrite <- Hh. }
    pose proof (R_clear i s1 Hlv) as Hc.
    assert (Hvt : forall x, ty_of (led (p_clear i s1)) x = ty_of (led s) x /\ val_of (led (p_clear i s1)) x = val_of (led s) x).
    { intros x. unfold p_clear. destruct (hptr (slot s1 i)) as [id'|] eqn:Hp; [|unfold s1; sf; auto].
      destruct (live_entry _ _ (Hlv id' eq_refl)) as (e & Hn & H0). rewrite (destroy_live id' _ e) by (unfold s1; sf; auto). unfold s1 in *; sf.
      destruct (same_vt_destroy (led s) id' e [x] Hn x (or_introl eq_refl)) as [E1 E2]. rewrite E1, E2. auto. }
    unfold abs in *; sf. unfold a_clear, a_vm_add in *; sa. inversion Hc as [[E1 E2 E3 E4]]. clear Hc.
    destruct (p_clear_fields i s1) as (F1 & F2 & F3 & F4). rewrite F2, F3, F4 in *. unfold s1 in *; sf.
    f_equal; auto.
    rewrite map_upd, E1, upd_upd_same. f_equal. unfold mk_adopted, oabs. simpl.
    destruct (Hvt id) as [-> Hv]. rewrite Hv. reflexivity. }
  destruct (slot s1 i) as [|ty id'|ty id'] eqn:Hs; auto.
  destruct (Nat.eqb_spec id' id) as [->|]; auto. exfalso. eapply Hne; eauto.
Qed.

(* ---------- every client operation ---------- *)
Lemma abs_set_nvb p s : abs (set_nvb p s) = aset_nvb p (abs s).
Proof. reflexivity. Qed.
Lemma abs_set_pres p s : abs (set_pres p s) = aset_pres p (abs s).
Proof. reflexivity. Qed.
Lemma abs_set_cl_remove k s : abs (set_cl (remove_nth k (cl s)) s) = aset_cl (remove_nth k (a_cl (abs s))) (abs s).
Proof. unfold abs; sa. f_equal. apply map_remove_nth. Qed.

Ltac rf :=
  repeat first
    [ rewrite R_swap | rewrite R_clear_inv by inv_chain | rewrite R_cdel by inv_chain | rewrite R_store by inv_chain
    | rewrite R_clone by inv_chain | rewrite R_adopt by inv_chain | rewrite R_surrender by inv_chain
    | rewrite R_setval by inv_chain | rewrite R_cset by inv_chain ].

Lemma abs_fold_clear (g : nat -> nat) l s :
  Inv s -> abs (fold_left (fun a n => p_clear (g n) a) l s) = fold_left (fun x n => a_clear (g n) x) l (abs s).
Proof.
  revert s; induction l as [|n l IH]; intros s HI; simpl; auto.
  rewrite IH by (now apply Inv_p_clear). now rewrite R_clear_inv.
Qed.

Section Refine.
Variables (H M : nat) (tys : list Z).

Lemma src_slot_abs s j : src_slot H M s j = a_src H M (abs s) j.
Proof. reflexivity. Qed.

Lemma step_refines s o :
  Good H M s ->
  abs (snd (step H M tys s o)) = snd (astep H M tys (abs s) o) /\ fst (step H M tys s o) = fst (astep H M tys (abs s) o).
Proof.
  intros HG. pose proof HG as (HI & HS & HN).
  destruct o; cbn [step astep].
  - (* OConsVal *)
    destruct (okh H i && okty ty)%bool; [|auto]. cbn [fst snd]. split; auto.
    rewrite <- !(R_new ty v s HI), a_last_abs.
    assert (I1 : Inv (p_new ty v s)) by inv_chain. set (s1 := p_new ty v s) in *. rf. reflexivity.
  - (* OConsCopy *)
    rewrite <- src_slot_abs. destruct (if okh H i then src_slot H M s j else None); [|auto]. cbn [fst snd]. split; auto.
    rf. reflexivity.
  - (* OAssignVal *)
    destruct (okh H i && okty ty)%bool; [|auto]. cbn [fst snd]. split; auto.
    rewrite <- !(R_new ty v s HI), a_last_abs.
    assert (I1 : Inv (p_new ty v s)) by inv_chain. set (s1 := p_new ty v s) in *. rf. reflexivity.
  - (* OAssign *)
    rewrite <- src_slot_abs. destruct (if okh H i then src_slot H M s j else None); [|auto]. cbn [fst snd]. split; auto.
    rf. reflexivity.
  - destruct (okh H i && okh H j)%bool; [|auto]. cbn [fst snd]. split; auto. rf. reflexivity.
  - destruct (okh H i); [|auto]. cbn [fst snd]. split; auto. rf. reflexivity.
  - destruct (okty ty); [|auto]. cbn [fst snd]. split; auto. now rewrite R_new.
  - destruct (0 <=? k); [|auto]. cbn [fst snd]. split; auto. rf. reflexivity.
  - destruct (okh H i && (0 <=? k))%bool; [|auto]. cbn [fst snd]. split; auto. rf. reflexivity.
  - destruct (okh H i); [|auto]. cbn [fst snd]. split; auto. rf. reflexivity.
  - destruct (okh H i); [|auto]. cbn [fst snd]. split; auto. rf. reflexivity.
  - (* OCast *)
    destruct (okh H i); [|auto].
    pose proof (cast_state s (hslot i) ty HI) as Hc. pose proof (R_cast s (hslot i) ty) as Hv.
    destruct (cast s (hslot i) ty) as [[v|] s']; simpl in *; subst; rewrite <- Hv; auto.
  - (* OMapAdd *)
    destruct (okm M n && (0 <=? k))%bool eqn:E; [|auto].
    rewrite acl_abs. destruct (nth_error (cl s) (Z.to_nat k)) as [id|] eqn:Hk; simpl option_map; cbn [fst snd]; [|auto]. split; auto.
    rewrite abs_set_nvb.
    rewrite (R_vm_add (Z.to_nat n) (mslot H n) id s (set_cl (remove_nth (Z.to_nat k) (cl s)) s)); auto.
    + rewrite abs_set_cl_remove. reflexivity.
    + unfold owned; sf. rewrite (remove_nth_perm _ id (cl s) Hk) at 1. apply Permutation_sym, Permutation_middle.
  - (* OMapAddSame *)
    change (mpres s n) with (nth (Z.to_nat n) (a_pres (abs s)) false).
    destruct (okm M n && nth (Z.to_nat n) (a_pres (abs s)) false)%bool; [|auto].
    rewrite aslot_abs. destruct (slot s (mslot H n)) as [|ty id|ty id] eqn:Hs; simpl habs; cbn [fst snd]; auto.
    split; auto. rewrite (vm_add_same _ _ _ _ _ Hs). reflexivity.
  - (* OMapClear *)
    cbn [fst snd]. split; auto. unfold map_clear, a_map_clear. rewrite abs_set_nvb, abs_set_pres.
    now rewrite (abs_fold_clear (fun n => S (H + n))).
  - (* OMapGet *)
    destruct (okm M n); [|auto]. change (mpres s n) with (nth (Z.to_nat n) (a_pres (abs s)) false).
    destruct (nth (Z.to_nat n) (a_pres (abs s)) false); [|auto].
    pose proof (cast_state s (mslot H n) ty HI) as Hc. pose proof (R_cast s (mslot H n) ty) as Hv.
    destruct (cast s (mslot H n) ty) as [[v|] s']; simpl in *; subst; rewrite <- Hv; auto.
  - (* OParse *)
    destruct (okm M n) eqn:E; [|auto]. apply okm_range in E.
    change (a_nvb (abs s)) with (nvb s).
    destruct (nth (Z.to_nat n) (nvb s) false) eqn:Hb.
    + destruct (ok =? 0); [auto|]. destruct (HN _ Hb) as (ty & id & Hs). fold (mslot H n) in Hs. rewrite Hs. cbn [fst snd]. split; auto.
      destruct (fr_p_setval [] (mslot H n) v s) as (_ & B & C & _).
      assert (Hs' : slot (p_setval (mslot H n) v s) (mslot H n) = HHeap ty id) by (rewrite B; auto).
      rewrite (vm_add_same _ _ _ _ _ Hs'), abs_set_pres, C. rf. reflexivity.
    + rewrite <- !(R_new (name_ty tys n) 0 s HI), a_last_abs.
      assert (I1 : Inv (p_new (name_ty tys n) 0 s)) by inv_chain.
      pose proof (last_cl_new (name_ty tys n) 0 s) as Hl.
      set (s1 := p_new (name_ty tys n) 0 s) in *.
      destruct (ok =? 0); cbn [fst snd]; [split; auto; rf; reflexivity|].
      assert (Hc : cl (p_cset (last_cl s1) v s1) = cl s1).
      { unfold p_cset. rewrite Hl. match goal with |- cl (obj_set ?a ?b ?c ?d) = _ => destruct (obj_set_fields a b c d) as (_ & B & _) end. exact B. }
      rewrite <- (R_cset (last_cl s1) v s1 I1), acl_abs, Hc, Hl. simpl option_map. cbn [fst snd]. split; auto.
      assert (I2 : Inv (p_cset (last_cl s1) v s1)) by inv_chain.
      set (s2 := p_cset (last_cl s1) v s1) in *.
      rewrite abs_set_nvb.
      rewrite (R_vm_add (Z.to_nat n) (mslot H n) (length (led s)) s2 (set_cl (remove_nth (last_cl s1) (cl s1)) s2)); auto.
      * rewrite <- Hc. rewrite abs_set_cl_remove. reflexivity.
      * unfold owned; sf. rewrite Hc. rewrite (remove_nth_perm _ _ (cl s1) Hl) at 1. apply Permutation_sym, Permutation_middle.
  - (* OAdoptNull *)
    destruct (okh H i && okty ty)%bool; [|auto]. cbn [fst snd]. split; auto. rf. reflexivity.
Qed.

Lemma run_refines s ops :
  Good H M s ->
  abs (snd (run_ops H M tys s ops)) = snd (arun H M tys (abs s) ops).
Proof.
  revert s; induction ops as [|o ops IH]; intros s HG; simpl; auto.
  destruct (step_refines s o HG) as (A & _). pose proof (Good_step H M tys s o HG) as HG1.
  destruct (step H M tys s o) as [o1 s1]. destruct (astep H M tys (abs s) o) as [o1' a1]. simpl in *. subst a1.
  specialize (IH s1 HG1). destruct (run_ops H M tys s1 ops) as [o2 s2]. destruct (arun H M tys (abs s1) ops) as [o2' a2]. exact IH.
Qed.

Lemma abs_init : abs (init H M) = ainit H M.
Proof.
  unfold abs, init, ainit; sf. f_equal. generalize (S (H + M)). intros k. induction k; simpl; auto. now rewrite IHk.
Qed.
End Refine.
