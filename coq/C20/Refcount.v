(* C20 part B - RefCountable / IntrusiveSharedPtr: refCount_ = number of holders, the option is destroyed exactly
   when the last holder lets go - as long as the number of simultaneous holders of one option stays inside the range of
   the counter's declared type (refcount_bound, generated from refcountable.h).  The invariant is stated over
   (opts, rerr, all) where `all` lists every pointer that currently accounts for one reference: the client's variables,
   the containers' elements, the handle pool and - inside one operation - the temporaries / the references that addRef()
   has already counted. *)
Require Import V.Lib.Base V.Gen.Consts_C20 V.C20.Model V.C20.Lists.
Require Import Permutation NArith Nnat.
Local Open Scope Z_scope.

Definition cnt (o : nat) (l : list nat) : Z := Z.of_nat (count_occ Nat.eq_dec l o).
Definition optl (p : option nat) : list nat := match p with Some o => [o] | None => [] end.
Definition refs (s : rst) : list nat := flat_map optl (psl s) ++ flat_map (fun c => c) (conts s).

Lemma refs_eq s s' : psl s' = psl s -> conts s' = conts s -> refs s' = refs s.
Proof. intros A B. unfold refs. now rewrite A, B. Qed.

(* ---------- the range of the counter (facts about the generated constants; each breaks when a type is too narrow to
   count even two holders or has no room for 0) ---------- *)
Lemma bound_ge_2 : 2 <= refcount_bound. Proof. vm_compute. discriminate. Qed.
Lemma bound_le_max : refcount_bound <= refcount_max. Proof. vm_compute. discriminate. Qed.
Lemma bound_le_rel : refcount_bound <= refcount_rel_max. Proof. vm_compute. discriminate. Qed.
Lemma bound_le_rc : refcount_bound <= refcount_rc_max. Proof. vm_compute. discriminate. Qed.
Lemma bound_le_cnt : refcount_bound <= refcount_cnt_max. Proof. vm_compute. discriminate. Qed.
Lemma min_le_0 : refcount_min <= 0. Proof. vm_compute. discriminate. Qed.
Lemma rel_min_le_0 : refcount_rel_min <= 0. Proof. vm_compute. discriminate. Qed.
Lemma rc_min_le_0 : refcount_rc_min <= 0. Proof. vm_compute. discriminate. Qed.
Lemma cnt_min_le_0 : refcount_cnt_min <= 0. Proof. vm_compute. discriminate. Qed.

Lemma conv_id lo hi v : lo <= v <= hi -> conv lo hi v = v.
Proof.
  intros Hv. unfold conv, in_range.
  destruct (Z.leb_spec lo v); [|lia]. destruct (Z.leb_spec v hi); [|lia]. reflexivity.
Qed.

(* every count from 0 to refcount_bound is stored, tested and reported exactly: nothing wraps, nothing is undefined *)
Lemma rc_exact v : 0 <= v <= refcount_bound ->
  rc_store v = (v, false) /\ rc_rel v = v /\ rc_obs v = v /\ rc_cnt v = v.
Proof.
  intros Hv.
  pose proof bound_le_max. pose proof bound_le_rel. pose proof bound_le_rc. pose proof bound_le_cnt.
  pose proof min_le_0. pose proof rel_min_le_0. pose proof rc_min_le_0. pose proof cnt_min_le_0.
  assert (E : in_range refcount_min refcount_max v = true).
  { unfold in_range. apply andb_true_iff. split; apply Z.leb_le; lia. }
  unfold rc_store, rc_rel, rc_cnt, rc_obs. rewrite E, !conv_id by lia.
  split; [destruct refcount_overflow_undefined; reflexivity|repeat split].
Qed.

Definition RI (os : list opt) (e : bool) (all : list nat) : Prop :=
  e = false /\
  (forall o, In o all -> (o < length os)%nat) /\
  (forall o x, nth_error os o = Some x ->
     (o_dc x = 0 /\ o_rc x = cnt o all /\ 1 <= o_rc x <= refcount_bound) \/ (o_dc x = 1 /\ o_rc x = 0 /\ cnt o all = 0)).

Lemma cnt_perm o l l' : Permutation l l' -> cnt o l = cnt o l'.
Proof. intros HP. unfold cnt. f_equal. now apply Permutation_count_occ. Qed.

Lemma cnt_cons o x l : cnt o (x :: l) = (if Nat.eqb x o then 1 else 0) + cnt o l.
Proof.
  unfold cnt. simpl. destruct (Nat.eq_dec x o) as [->|Hn].
  - rewrite Nat.eqb_refl. lia.
  - destruct (Nat.eqb_spec x o); [contradiction|]. lia.
Qed.

Lemma cnt_pos o l : In o l -> 1 <= cnt o l.
Proof. intros Hin. unfold cnt. apply (count_occ_In Nat.eq_dec) in Hin. lia. Qed.

Lemma cnt_nonneg o l : 0 <= cnt o l.
Proof. unfold cnt. lia. Qed.

Lemma RI_perm os e l l' : Permutation l l' -> RI os e l -> RI os e l'.
Proof.
  intros HP (A & B & C). repeat split; auto.
  - intros o Hin. apply B. eapply Permutation_in; [apply Permutation_sym|]; eauto.
  - intros o x Hn. rewrite <- (cnt_perm o _ _ HP). now apply C.
Qed.

Lemma nth_error_upd_cases' {A} (l : list A) i x j :
  (i < length l)%nat -> nth_error (upd i x l) j = if (j =? i)%nat then Some x else nth_error l j.
Proof.
  intros Hi. destruct (Nat.eqb_spec j i) as [->|Hn]; [now apply nth_error_upd_eq|]. apply nth_error_upd_neq; congruence.
Qed.

(* addRef on an option that somebody already holds and whose count has room for one more *)
Lemma RI_add_ref s all o :
  RI (opts s) (rerr s) all -> In o all -> cnt o all < refcount_bound ->
  RI (opts (add_ref o s)) (rerr (add_ref o s)) (o :: all) /\ psl (add_ref o s) = psl s /\ conts (add_ref o s) = conts s.
Proof.
  intros (A & B & C) Hin Hb. unfold add_ref.
  pose proof (B o Hin) as Hr. destruct (nth_error (opts s) o) as [x|] eqn:Hn; [|apply nth_error_None in Hn; lia].
  destruct (C o x Hn) as [(D0 & Drc & D1)|(D1 & D2 & D3)].
  - destruct (rc_exact (o_rc x + 1) ltac:(lia)) as (E & _). rewrite E, D0. simpl. repeat split; auto.
    + simpl. rewrite upd_length. intros o' [<-|Ho]; auto.
    + intros o' x' Hn'. cbn [opts r_set_opts] in Hn'. rewrite nth_error_upd_cases' in Hn' by auto. rewrite cnt_cons.
      destruct (Nat.eqb_spec o' o) as [->|Hne].
      * inversion Hn'; subst; simpl. rewrite Nat.eqb_refl. left. repeat split; auto; lia.
      * destruct (Nat.eqb_spec o o'); [congruence|]. simpl. now apply C.
  - pose proof (cnt_pos o all Hin). lia.
Qed.

(* release of one counted reference *)
Lemma RI_release s all o :
  RI (opts s) (rerr s) (o :: all) ->
  RI (opts (release o s)) (rerr (release o s)) all /\ psl (release o s) = psl s /\ conts (release o s) = conts s.
Proof.
  intros (A & B & C). unfold release.
  pose proof (B o (or_introl eq_refl)) as Hr. destruct (nth_error (opts s) o) as [x|] eqn:Hn; [|apply nth_error_None in Hn; lia].
  destruct (C o x Hn) as [(D0 & Drc & D1)|(D1 & D2 & D3)].
  - destruct (rc_exact (o_rc x - 1) ltac:(lia)) as (E & E' & _). rewrite E, E', D0. simpl.
    rewrite cnt_cons, Nat.eqb_refl in Drc.
    assert (G : forall y, (o_dc y = 0 /\ o_rc y = cnt o all /\ 1 <= o_rc y <= refcount_bound) \/ (o_dc y = 1 /\ o_rc y = 0 /\ cnt o all = 0) ->
                RI (upd o y (opts s)) (rerr s) all).
    { intros y Hy. repeat split; auto.
      - rewrite upd_length. intros o' Ho. apply B. now right.
      - intros o' x' Hn'. rewrite nth_error_upd_cases' in Hn' by auto.
        destruct (Nat.eqb_spec o' o) as [->|Hne].
        + inversion Hn'; subst. exact Hy.
        + specialize (C o' x' Hn'). rewrite cnt_cons in C. destruct (Nat.eqb_spec o o'); [congruence|]. exact C. }
    destruct (Z.eqb_spec (o_rc x - 1) 0) as [Hz|Hz]; (split; [|split; reflexivity]); apply G; simpl.
    + right. repeat split; auto. lia.
    + left. pose proof (cnt_nonneg o all). repeat split; auto; lia.
  - rewrite cnt_cons, Nat.eqb_refl in D3. pose proof (cnt_nonneg o all). lia.
Qed.

Lemma RI_release_o s all p :
  RI (opts s) (rerr s) (optl p ++ all) ->
  RI (opts (release_o p s)) (rerr (release_o p s)) all /\ psl (release_o p s) = psl s /\ conts (release_o p s) = conts s.
Proof. destruct p as [o|]; simpl; [apply RI_release|auto]. Qed.

Lemma RI_add_ref_o s all p :
  RI (opts s) (rerr s) all -> (forall o, p = Some o -> In o all /\ cnt o all < refcount_bound) ->
  RI (opts (add_ref_o p s)) (rerr (add_ref_o p s)) (optl p ++ all) /\ psl (add_ref_o p s) = psl s /\ conts (add_ref_o p s) = conts s.
Proof. destruct p as [o|]; simpl; [intros HR Hp; destruct (Hp o eq_refl); apply RI_add_ref; auto|auto]. Qed.

Lemma RI_release_list s all l :
  RI (opts s) (rerr s) (l ++ all) ->
  RI (opts (fold_left (fun a o => release o a) l s)) (rerr (fold_left (fun a o => release o a) l s)) all /\
  psl (fold_left (fun a o => release o a) l s) = psl s /\ conts (fold_left (fun a o => release o a) l s) = conts s.
Proof.
  revert s; induction l as [|o l IH]; intros s HR; simpl; auto.
  destruct (RI_release s (l ++ all) o HR) as (R1 & P1 & C1).
  destruct (IH (release o s) R1) as (R2 & P2 & C2). rewrite P2, C2. auto.
Qed.

Lemma RI_release_olist s all l :
  RI (opts s) (rerr s) (flat_map optl l ++ all) ->
  RI (opts (fold_left (fun a p => release_o p a) l s)) (rerr (fold_left (fun a p => release_o p a) l s)) all /\
  psl (fold_left (fun a p => release_o p a) l s) = psl s /\ conts (fold_left (fun a p => release_o p a) l s) = conts s.
Proof.
  revert s; induction l as [|p l IH]; intros s HR; simpl; auto.
  simpl in HR. rewrite <- app_assoc in HR.
  destruct (RI_release_o s _ p HR) as (R1 & P1 & C1).
  destruct (IH (release_o p s) R1) as (R2 & P2 & C2). rewrite P2, C2. auto.
Qed.

Lemma rc_init_1 : rc_init = 1.
Proof. reflexivity. Qed.

Lemma RI_new os e all : RI os e all -> RI (os ++ [mkO rc_init 0]) e (length os :: all).
Proof.
  intros (A & B & C). rewrite rc_init_1. repeat split; auto.
  - intros o [<-|Ho]; rewrite app_length; simpl; [lia|]. specialize (B o Ho). lia.
  - intros o x Hn. rewrite cnt_cons.
    destruct (Nat.lt_ge_cases o (length os)) as [Hl|Hl].
    + rewrite nth_error_app1 in Hn by auto. destruct (Nat.eqb_spec (length os) o); [lia|]. simpl. now apply C.
    + assert (o = length os) as ->.
      { assert (o < length (os ++ [mkO 1 0]))%nat by (apply nth_error_Some; congruence). rewrite app_length in H; simpl in H. lia. }
      rewrite nth_error_last_app in Hn. inversion Hn; subst; simpl. rewrite Nat.eqb_refl.
      assert (cnt (length os) all = 0).
      { unfold cnt. destruct (count_occ Nat.eq_dec all (length os)) eqn:E; auto.
        assert (In (length os) all) by (apply (count_occ_In Nat.eq_dec); lia). specialize (B _ H). lia. }
      pose proof bound_ge_2. left. repeat split; auto; lia.
Qed.

(* ---------- counting ---------- *)
Lemma cnt_app o l l' : cnt o (l ++ l') = cnt o l + cnt o l'.
Proof. unfold cnt. rewrite count_occ_app. lia. Qed.

Lemma cnt_fresh n all : (forall o, In o all -> (o < n)%nat) -> cnt n all = 0.
Proof.
  intros B. unfold cnt. destruct (count_occ Nat.eq_dec all n) eqn:E; auto.
  assert (In n all) by (apply (count_occ_In Nat.eq_dec); lia). specialize (B _ H). lia.
Qed.

Lemma repeatN_succ o k : repeatN o (N.succ k) = o :: repeatN o k.
Proof. unfold repeatN. now rewrite N.iter_succ. Qed.

Lemma repeatN_repeat o k : repeatN o k = repeat o (N.to_nat k).
Proof.
  induction k using N.peano_ind; [reflexivity|]. rewrite repeatN_succ, N2Nat.inj_succ. simpl. now rewrite IHk.
Qed.

Lemma cnt_repeatN o k : cnt o (repeatN o k) = Z.of_N k.
Proof.
  induction k using N.peano_ind; [reflexivity|]. rewrite repeatN_succ, cnt_cons, Nat.eqb_refl, IHk. lia.
Qed.

Lemma cnt_repeatN_other o o' k : o' <> o -> cnt o (repeatN o' k) = 0.
Proof.
  intros Hn. induction k using N.peano_ind; [reflexivity|]. rewrite repeatN_succ, cnt_cons, IHk.
  destruct (Nat.eqb_spec o' o); [contradiction|]. reflexivity.
Qed.

Lemma lenZ_length {A} (l : list A) : lenZ l = Z.of_nat (length l).
Proof.
  unfold lenZ. assert (G : forall a, fold_left (fun (a : Z) (_ : A) => a + 1) l a = a + Z.of_nat (length l)).
  { induction l as [|x l IH]; intros a; simpl length; [simpl; lia|]. cbn [fold_left]. rewrite IH. lia. }
  now rewrite G.
Qed.

(* k times addRef, as long as the count has room for k more *)
Lemma RI_add_refN s all o k :
  RI (opts s) (rerr s) all -> In o all -> cnt o all + Z.of_N k <= refcount_bound ->
  RI (opts (N.iter k (add_ref o) s)) (rerr (N.iter k (add_ref o) s)) (repeatN o k ++ all) /\
  psl (N.iter k (add_ref o) s) = psl s /\ conts (N.iter k (add_ref o) s) = conts s.
Proof.
  intros HR Hin. induction k using N.peano_ind; intros Hb; [simpl; auto|].
  rewrite N.iter_succ, repeatN_succ. destruct IHk as (R1 & P1 & C1); [lia|].
  destruct (RI_add_ref (N.iter k (add_ref o) s) (repeatN o k ++ all) o R1) as (R2 & P2 & C2).
  - apply in_or_app. now right.
  - rewrite cnt_app, cnt_repeatN. lia.
  - simpl. split; [exact R2|]. split; congruence.
Qed.

(* ---------- the state invariant ---------- *)
Definition holders (s : rst) (o : nat) : Z := cnt o (refs s).
(* every option has room for one more reference: operator= counts the new reference before it releases the old one,
   a `new Option` is held by a temporary handle and the variable it is assigned to *)
Definition within (s : rst) : Prop := forall o, holders s o < refcount_bound.

Section B.
Variables S_ C_ : nat.

Definition RGood (s : rst) : Prop :=
  RI (opts s) (rerr s) (refs s) /\ length (psl s) = S_ /\ length (conts s) = S C_.

Lemma okp_range i : okp S_ i = true -> (Z.to_nat i < S_)%nat.
Proof. unfold okp. intros Hk. apply andb_true_iff in Hk. destruct Hk as [A B]. apply Z.leb_le in A. apply Z.ltb_lt in B. lia. Qed.
Lemma okc_range c : okc C_ c = true -> (Z.to_nat c < C_)%nat.
Proof. unfold okc. intros Hk. apply andb_true_iff in Hk. destruct Hk as [A B]. apply Z.leb_le in A. apply Z.ltb_lt in B. lia. Qed.

Lemma refs_psl_upd s i p :
  (i < length (psl s))%nat ->
  Permutation (optl (pslot s i) ++ refs (r_set_psl (upd i p (psl s)) s)) (optl p ++ refs s).
Proof.
  intros Hi. unfold refs, pslot. cbn [psl conts r_set_psl]. rewrite !app_assoc. apply Permutation_app_tail.
  now apply flat_map_upd_perm.
Qed.

Lemma refs_conts_upd s c l :
  (c < length (conts s))%nat ->
  Permutation (nth c (conts s) [] ++ refs (r_set_conts (upd c l (conts s)) s)) (l ++ refs s).
Proof.
  intros Hc. unfold refs. cbn [psl conts r_set_conts].
  pose proof (flat_map_upd_perm (fun x : list nat => x) c l [] (conts s) Hc) as P.
  rewrite (Permutation_app_comm (flat_map optl (psl s))), app_assoc.
  rewrite (Permutation_app_comm (flat_map optl (psl s)) (flat_map (fun x => x) (conts s))), app_assoc.
  apply Permutation_app_tail. exact P.
Qed.

Lemma pslot_in_refs s i o : pslot s i = Some o -> In o (refs s).
Proof.
  unfold pslot, refs. intros Hp. apply in_or_app; left. apply in_flat_map. exists (Some o). split; [|now left].
  rewrite <- Hp. apply nth_In. destruct (Nat.lt_ge_cases i (length (psl s))); auto. rewrite nth_overflow in Hp by auto. discriminate.
Qed.

Ltac rs := cbn [opts psl conts rerr r_set_opts r_set_psl r_set_conts] in *.

(* a container (or the pool) takes the handles l ++ / ++ l that addRef has already counted *)
Lemma RGood_conts_add s s' c l new :
  RGood s -> (c < S C_)%nat ->
  RI (opts s') (rerr s') (l ++ refs s) -> psl s' = psl s -> conts s' = conts s ->
  Permutation new (l ++ nth c (conts s) []) ->
  RGood (r_set_conts (upd c new (conts s)) s').
Proof.
  intros (HR & HP & HC) Hc R1 P1 C1 Pn.
  split; [|split]; rs; [|congruence|rewrite upd_length; congruence].
  eapply RI_perm; [|exact R1].
  assert (Hc' : (c < length (conts s))%nat) by lia.
  pose proof (refs_conts_upd s c new Hc') as P.
  assert (E : refs (r_set_conts (upd c new (conts s)) s') = refs (r_set_conts (upd c new (conts s)) s)).
  { unfold refs; rs. now rewrite P1. }
  rewrite E. eapply Permutation_app_inv_l with (l := nth c (conts s) []).
  symmetry. etransitivity; [exact P|]. rewrite Pn.
  rewrite app_assoc. apply Permutation_app_tail. apply Permutation_app_comm.
Qed.

Lemma holders_conts_add s s' c new o :
  (c < length (conts s))%nat -> psl s' = psl s -> conts s' = conts s ->
  holders (r_set_conts (upd c new (conts s)) s') o = holders s o - cnt o (nth c (conts s) []) + cnt o new.
Proof.
  intros Hc P1 C1. unfold holders.
  pose proof (refs_conts_upd s c new Hc) as P. apply (cnt_perm o) in P. rewrite !cnt_app in P.
  assert (E : refs (r_set_conts (upd c new (conts s)) s') = refs (r_set_conts (upd c new (conts s)) s)).
  { unfold refs; rs. now rewrite P1. }
  rewrite E. lia.
Qed.

Lemma RGood_push_ctx s c o :
  RGood s -> (c < C_)%nat -> In o (refs s) -> within s -> within (push_ctx c o s) -> RGood (push_ctx c o s).
Proof.
  intros HG Hc Hin W W'. pose proof HG as (HR & HP & HC). unfold push_ctx in *.
  set (cur := nth c (conts s) []) in *.
  destruct (existsb (Nat.eqb o) cur); [exact HG|].
  assert (Hc' : (c < length (conts s))%nat) by lia.
  destruct (RI_add_ref s _ o HR Hin (W o)) as (R1 & P1 & C1).
  assert (Hb : cnt o (o :: refs s) < refcount_bound).
  { specialize (W' o). rewrite (holders_conts_add s (add_ref o (add_ref o s)) c (cur ++ [o; o]) o Hc') in W'.
    - fold cur in W'. rewrite cnt_app, !cnt_cons, Nat.eqb_refl in W'. unfold holders in W'.
      rewrite cnt_cons, Nat.eqb_refl. change (cnt o []) with 0 in W'. lia.
    - unfold add_ref at 1. destruct (nth_error (opts (add_ref o s)) o) as [x|]; [destruct (rc_store (o_rc x + 1)); destruct (_ && _)|]; rs; exact P1.
    - unfold add_ref at 1. destruct (nth_error (opts (add_ref o s)) o) as [x|]; [destruct (rc_store (o_rc x + 1)); destruct (_ && _)|]; rs; exact C1. }
  destruct (RI_add_ref (add_ref o s) _ o R1 (or_introl eq_refl) Hb) as (R2 & P2 & C2).
  apply (RGood_conts_add s (add_ref o (add_ref o s)) c [o; o]); auto; try congruence; try lia.
  fold cur. apply Permutation_app_comm.
Qed.

Lemma RGood_pop1 s : RGood s -> RGood (pop1 C_ s).
Proof.
  intros HG. pose proof HG as (HR & HP & HC). unfold pop1.
  destruct (nth C_ (conts s) []) as [|o r] eqn:Hcur; [exact HG|].
  assert (Hc : (C_ < length (conts s))%nat) by lia.
  set (s0 := r_set_conts (upd C_ r (conts s)) s).
  assert (R0 : RI (opts s0) (rerr s0) (o :: refs s0)).
  { eapply RI_perm; [|exact HR]. pose proof (refs_conts_upd s C_ r Hc) as P. rewrite Hcur in P.
    apply Permutation_sym. eapply Permutation_app_inv_l with (l := r).
    rewrite <- P. simpl. rewrite Permutation_middle. reflexivity. }
  destruct (RI_release s0 _ o R0) as (R1 & P1 & C1).
  split; [rewrite (refs_eq _ _ P1 C1); exact R1|split].
  - rewrite P1. unfold s0; rs. exact HP.
  - rewrite C1. unfold s0; rs. rewrite upd_length. exact HC.
Qed.

Lemma RGood_popN s k : RGood s -> RGood (N.iter k (pop1 C_) s).
Proof.
  intros HG. induction k using N.peano_ind; [exact HG|]. rewrite N.iter_succ. now apply RGood_pop1.
Qed.

Lemma RGood_step s o : RGood s -> within s -> within (rstep S_ C_ s o) -> RGood (rstep S_ C_ s o).
Proof.
  intros HG W W'. pose proof HG as (HR & HP & HC). destruct o; cbn [rstep] in *.
  - (* RNew *)
    destruct (okp S_ i) eqn:E; [|exact HG]. apply okp_range in E.
    set (n := length (opts s)). set (s1 := r_set_opts (opts s ++ [mkO rc_init 0]) s).
    assert (R1 : RI (opts s1) (rerr s1) (n :: refs s)) by (apply RI_new; exact HR).
    assert (Hn1 : cnt n (n :: refs s) < refcount_bound).
    { rewrite cnt_cons, Nat.eqb_refl. destruct HR as (_ & B & _). rewrite (cnt_fresh n (refs s) B). pose proof bound_ge_2. lia. }
    destruct (RI_add_ref s1 _ n R1 (or_introl eq_refl) Hn1) as (R2 & P2 & C2).
    set (s2 := add_ref n s1) in *.
    assert (Hi : (Z.to_nat i < length (psl s))%nat) by lia.
    assert (R2' : RI (opts s2) (rerr s2) (optl (pslot s2 (Z.to_nat i)) ++ (n :: n :: refs (r_set_psl (upd (Z.to_nat i) None (psl s)) s)))).
    { eapply RI_perm; [|exact R2]. unfold pslot. rewrite P2. unfold s1; rs. fold (pslot s (Z.to_nat i)).
      pose proof (refs_psl_upd s (Z.to_nat i) None Hi) as P. simpl in P.
      rewrite (Permutation_app_comm _ (n :: n :: _)). simpl. do 2 apply perm_skip. rewrite Permutation_app_comm. now apply Permutation_sym. }
    destruct (RI_release_o s2 _ _ R2') as (R3 & P3 & C3).
    set (s3 := release_o (pslot s2 (Z.to_nat i)) s2) in *.
    set (s4 := r_set_psl (upd (Z.to_nat i) (Some n) (psl s3)) s3).
    assert (R4 : RI (opts s4) (rerr s4) (n :: refs s4)).
    { eapply RI_perm; [|exact R3]. unfold s4; rs. apply perm_skip.
      unfold refs; rs. rewrite P3, P2, C3, C2. unfold s1; rs. rewrite app_comm_cons. apply Permutation_app_tail.
      pose proof (flat_map_upd_perm optl (Z.to_nat i) (Some n) None (upd (Z.to_nat i) None (psl s)) ltac:(now rewrite upd_length)) as P.
      rewrite nth_upd_eq in P by auto. simpl in P. rewrite upd_upd_same in P. now apply Permutation_sym. }
    destruct (RI_release s4 _ n R4) as (R5 & P5 & C5).
    split; [rewrite (refs_eq _ _ P5 C5); exact R5|split].
    + rewrite P5. unfold s4; rs. rewrite upd_length, P3, P2. unfold s1; rs. exact HP.
    + rewrite C5. unfold s4; rs. rewrite C3, C2. exact HC.
  - (* RAssign *)
    destruct (okp S_ i && okp S_ j)%bool eqn:E; [|exact HG]. apply andb_true_iff in E. destruct E as [E1 E2].
    apply okp_range in E1. apply okp_range in E2.
    set (pj := pslot s (Z.to_nat j)) in *.
    destruct (RI_add_ref_o s _ pj HR) as (R1 & P1 & C1). { intros o Ho. split; [eapply pslot_in_refs; eauto|apply W]. }
    set (s1 := add_ref_o pj s) in *.
    assert (Hi : (Z.to_nat i < length (psl s))%nat) by lia.
    assert (R1' : RI (opts s1) (rerr s1) (optl (pslot s1 (Z.to_nat i)) ++ (optl pj ++ refs (r_set_psl (upd (Z.to_nat i) None (psl s)) s)))).
    { eapply RI_perm; [|exact R1]. unfold pslot at 1. rewrite P1. fold (pslot s (Z.to_nat i)).
      pose proof (refs_psl_upd s (Z.to_nat i) None Hi) as P. simpl in P.
      rewrite app_assoc, (Permutation_app_comm (optl (pslot s (Z.to_nat i)))), <- app_assoc. apply Permutation_app_head. now apply Permutation_sym. }
    destruct (RI_release_o s1 _ _ R1') as (R2 & P2 & C2).
    set (s2 := release_o (pslot s1 (Z.to_nat i)) s1) in *.
    split; [|split]; rs.
    + eapply RI_perm; [|exact R2]. unfold refs; rs. rewrite P2, P1, C2, C1. rewrite app_assoc. apply Permutation_app_tail.
      pose proof (flat_map_upd_perm optl (Z.to_nat i) pj None (upd (Z.to_nat i) None (psl s)) ltac:(now rewrite upd_length)) as P.
      rewrite nth_upd_eq in P by auto. simpl in P. rewrite upd_upd_same in P. now apply Permutation_sym.
    + rewrite upd_length, P2, P1. exact HP.
    + rewrite C2, C1. exact HC.
  - (* RCopyCons : same sequence of addRef / release *)
    destruct (okp S_ i && okp S_ j)%bool eqn:E; [|exact HG]. apply andb_true_iff in E. destruct E as [E1 E2].
    apply okp_range in E1. apply okp_range in E2.
    set (pj := pslot s (Z.to_nat j)) in *.
    destruct (RI_add_ref_o s _ pj HR) as (R1 & P1 & C1). { intros o Ho. split; [eapply pslot_in_refs; eauto|apply W]. }
    set (s1 := add_ref_o pj s) in *.
    assert (Hi : (Z.to_nat i < length (psl s))%nat) by lia.
    assert (R1' : RI (opts s1) (rerr s1) (optl (pslot s1 (Z.to_nat i)) ++ (optl pj ++ refs (r_set_psl (upd (Z.to_nat i) None (psl s)) s)))).
    { eapply RI_perm; [|exact R1]. unfold pslot at 1. rewrite P1. fold (pslot s (Z.to_nat i)).
      pose proof (refs_psl_upd s (Z.to_nat i) None Hi) as P. simpl in P.
      rewrite app_assoc, (Permutation_app_comm (optl (pslot s (Z.to_nat i)))), <- app_assoc. apply Permutation_app_head. now apply Permutation_sym. }
    destruct (RI_release_o s1 _ _ R1') as (R2 & P2 & C2).
    set (s2 := release_o (pslot s1 (Z.to_nat i)) s1) in *.
    split; [|split]; rs.
    + eapply RI_perm; [|exact R2]. unfold refs; rs. rewrite P2, P1, C2, C1. rewrite app_assoc. apply Permutation_app_tail.
      pose proof (flat_map_upd_perm optl (Z.to_nat i) pj None (upd (Z.to_nat i) None (psl s)) ltac:(now rewrite upd_length)) as P.
      rewrite nth_upd_eq in P by auto. simpl in P. rewrite upd_upd_same in P. now apply Permutation_sym.
    + rewrite upd_length, P2, P1. exact HP.
    + rewrite C2, C1. exact HC.
  - (* RReset *)
    destruct (okp S_ i) eqn:E; [|exact HG]. apply okp_range in E.
    assert (Hi : (Z.to_nat i < length (psl s))%nat) by lia.
    assert (R0 : RI (opts s) (rerr s) (optl (pslot s (Z.to_nat i)) ++ refs (r_set_psl (upd (Z.to_nat i) None (psl s)) s))).
    { eapply RI_perm; [|exact HR]. pose proof (refs_psl_upd s (Z.to_nat i) None Hi) as P. simpl in P. now apply Permutation_sym. }
    destruct (RI_release_o s _ _ R0) as (R1 & P1 & C1).
    split; [|split]; rs.
    + unfold refs in *; rs. now rewrite P1, C1.
    + rewrite upd_length, P1. exact HP.
    + rewrite C1. exact HC.
  - (* RSwap *)
    destruct (okp S_ i && okp S_ j)%bool eqn:E; [|exact HG]. apply andb_true_iff in E. destruct E as [E1 E2].
    apply okp_range in E1. apply okp_range in E2.
    split; [|split]; rs; [|now rewrite !upd_length|exact HC].
    eapply RI_perm; [|exact HR]. unfold refs; rs. apply Permutation_app_tail.
    assert (Hi : (Z.to_nat i < length (psl s))%nat) by lia. assert (Hj : (Z.to_nat j < length (psl s))%nat) by lia.
    set (a := Z.to_nat i) in *. set (b := Z.to_nat j) in *.
    destruct (Nat.eq_dec a b) as [->|Hne]; [rewrite upd_upd_same; unfold pslot; now rewrite upd_nth_id|].
    pose proof (flat_map_upd_perm optl a (pslot s b) None (psl s) Hi) as P1.
    pose proof (flat_map_upd_perm optl b (pslot s a) None (upd a (pslot s b) (psl s)) ltac:(now rewrite upd_length)) as P2.
    rewrite nth_upd_neq in P2 by auto. fold (pslot s b) in P2. fold (pslot s a) in P1.
    apply Permutation_sym. eapply Permutation_app_inv_l with (l := optl (pslot s b) ++ optl (pslot s a)).
    transitivity (optl (pslot s a) ++ (optl (pslot s b) ++ flat_map optl (upd b (pslot s a) (upd a (pslot s b) (psl s))))).
    { rewrite !app_assoc. apply Permutation_app_tail. apply Permutation_app_comm. }
    transitivity (optl (pslot s a) ++ (optl (pslot s a) ++ flat_map optl (upd a (pslot s b) (psl s)))).
    { apply Permutation_app_head. exact P2. }
    transitivity (optl (pslot s a) ++ (optl (pslot s b) ++ flat_map optl (psl s))).
    { apply Permutation_app_head. exact P1. }
    rewrite !app_assoc. apply Permutation_app_tail. apply Permutation_app_comm.
  - (* RPush *)
    destruct (okc C_ c && okp S_ i)%bool eqn:E; [|exact HG]. apply andb_true_iff in E. destruct E as [E1 E2].
    apply okc_range in E1. apply okp_range in E2.
    destruct (pslot s (Z.to_nat i)) as [o|] eqn:Hp; [|exact HG].
    pose proof (pslot_in_refs s _ _ Hp) as Hin.
    destruct (ckind c =? 2).
    + now apply RGood_push_ctx.
    + destruct (RI_add_ref s _ o HR Hin (W o)) as (R1 & P1 & C1).
      apply (RGood_conts_add s (add_ref o s) (Z.to_nat c) [o]); auto; try lia.
      apply Permutation_app_comm.
  - (* RDrop *)
    destruct (okc C_ c) eqn:E; [|exact HG]. apply okc_range in E.
    assert (Hc : (Z.to_nat c < length (conts s))%nat) by lia.
    set (cur := nth (Z.to_nat c) (conts s) []).
    assert (R0 : RI (opts s) (rerr s) (cur ++ refs (r_set_conts (upd (Z.to_nat c) [] (conts s)) s))).
    { eapply RI_perm; [|exact HR]. pose proof (refs_conts_upd s (Z.to_nat c) [] Hc) as P. simpl in P. now apply Permutation_sym. }
    destruct (RI_release_list s _ cur R0) as (R1 & P1 & C1).
    split; [|split]; rs.
    + unfold refs in *; rs. now rewrite P1.
    + rewrite P1. exact HP.
    + rewrite upd_length. exact HC.
  - (* RPushN *)
    destruct ((okc C_ c || (c =? Z.of_nat C_)) && okp S_ i && (0 <=? k) && (k <=? BULK_MAX))%bool eqn:E; [|exact HG].
    apply andb_true_iff in E. destruct E as [E E4]. apply andb_true_iff in E. destruct E as [E E3].
    apply andb_true_iff in E. destruct E as [E1 E2]. apply okp_range in E2. apply Z.leb_le in E3.
    assert (Hc : (Z.to_nat c < S C_)%nat).
    { apply orb_true_iff in E1. destruct E1 as [E1|E1]; [apply okc_range in E1; lia|apply Z.eqb_eq in E1; lia]. }
    destruct (pslot s (Z.to_nat i)) as [o|] eqn:Hp; [|exact HG].
    pose proof (pslot_in_refs s _ _ Hp) as Hin.
    assert (Hc' : (Z.to_nat c < length (conts s))%nat) by lia.
    set (cur := nth (Z.to_nat c) (conts s) []) in *.
    assert (HN : forall new, cnt o new = cnt o cur + Z.of_N (Z.to_N k) ->
                 within (r_set_conts (upd (Z.to_nat c) new (conts s)) (N.iter (Z.to_N k) (add_ref o) s)) ->
                 cnt o (refs s) + Z.of_N (Z.to_N k) <= refcount_bound).
    { intros new Hnew Wn. specialize (Wn o).
      assert (Hpc : psl (N.iter (Z.to_N k) (add_ref o) s) = psl s /\ conts (N.iter (Z.to_N k) (add_ref o) s) = conts s).
      { generalize (Z.to_N k) as m. induction m using N.peano_ind; [auto|]. rewrite N.iter_succ. destruct IHm as [Pm Cm].
        unfold add_ref. destruct (nth_error _ o) as [x|]; [destruct (rc_store (o_rc x + 1)); destruct (_ && _)|]; rs; auto. }
      destruct Hpc as [Pm Cm].
      rewrite (holders_conts_add s (N.iter (Z.to_N k) (add_ref o) s) (Z.to_nat c) new o Hc' Pm Cm) in Wn.
      fold cur in Wn. unfold holders in Wn. lia. }
    destruct (c =? Z.of_nat C_) eqn:Ec.
    + (* the pool *)
      pose proof (HN (repeatN o (Z.to_N k) ++ cur) ltac:(rewrite cnt_app, cnt_repeatN; lia) W') as Hb.
      destruct (RI_add_refN s _ o (Z.to_N k) HR Hin Hb) as (R1 & P1 & C1).
      apply (RGood_conts_add s _ (Z.to_nat c) (repeatN o (Z.to_N k))); auto.
    + destruct (ckind c =? 2).
      * destruct (k =? 0); [exact HG|]. apply orb_true_iff in E1. destruct E1 as [E1|E1]; [|congruence].
        apply okc_range in E1. now apply RGood_push_ctx.
      * pose proof (HN (cur ++ repeatN o (Z.to_N k)) ltac:(rewrite cnt_app, cnt_repeatN; lia) W') as Hb.
        destruct (RI_add_refN s _ o (Z.to_N k) HR Hin Hb) as (R1 & P1 & C1).
          apply (RGood_conts_add s _ (Z.to_nat c) (repeatN o (Z.to_N k))); auto.
        fold cur. apply Permutation_app_comm.
  - (* RPopN *)
    destruct ((0 <=? k) && (k <=? BULK_MAX))%bool; [|exact HG]. now apply RGood_popN.
Qed.

Lemma RGood_init : RGood (rinit S_ C_).
Proof.
  unfold rinit. split; [|split]; rs; try apply repeat_length.
  assert (E : refs (mkR [] (repeat None S_) (repeat [] (S C_)) false) = []).
  { unfold refs; rs. assert (A : forall k, flat_map optl (repeat None k) = []) by (induction k; simpl; auto).
    assert (B : forall k, flat_map (fun c : list nat => c) (repeat [] k) = []) by (induction k; simpl; auto).
    now rewrite A, B. }
  rewrite E. repeat split; auto.
  all: try (intros o []).
  all: try (intros Hn; destruct o; discriminate).
Qed.

(* the bound holds in every state of the history (between two operations) *)
Fixpoint hist_within (s : rst) (ops : list rop) : Prop :=
  within s /\ match ops with [] => True | o :: r => hist_within (rstep S_ C_ s o) r end.

Lemma RGood_run s ops : RGood s -> hist_within s ops -> RGood (snd (rrun_ops S_ C_ s ops)).
Proof.
  revert s; induction ops as [|o ops IH]; intros s HG HW; simpl; auto.
  destruct HW as [W HW].
  assert (W' : within (rstep S_ C_ s o)) by (destruct ops; apply HW).
  specialize (IH (rstep S_ C_ s o) (RGood_step s o HG W W') HW). destruct (rrun_ops S_ C_ (rstep S_ C_ s o) ops). exact IH.
Qed.

Lemma concat_flat (l : list (list nat)) : concat l = flat_map (fun c => c) l.
Proof. induction l as [|x l IH]; simpl; auto; now rewrite IH. Qed.

Lemma rfinish_spec s : RGood s -> RI (opts (rfinish S_ C_ s)) (rerr (rfinish S_ C_ s)) [].
Proof.
  intros (HR & HP & HC). unfold rfinish.
  destruct (RI_release_olist s (flat_map (fun c => c) (conts s)) (psl s) HR) as (R1 & P1 & C1).
  set (s1 := fold_left (fun a p => release_o p a) (psl s) s) in *.
  assert (R1' : RI (opts s1) (rerr s1) (concat (conts s1) ++ [])).
  { rewrite app_nil_r, concat_flat, C1. exact R1. }
  destruct (RI_release_list s1 [] _ R1') as (R2 & _). rs. exact R2.
Qed.
End B.

(* ---------- the whole-history statement ---------- *)
Theorem refcount_main (S_ C_ : nat) (ops : list rop) :
  hist_within S_ C_ (rinit S_ C_) ops ->
  let s := snd (rrun_ops S_ C_ (rinit S_ C_) ops) in
  let f := rfinish S_ C_ s in
  rerr s = false /\
  (forall o x, nth_error (opts s) o = Some x ->
     (o_dc x = 0 /\ o_rc x = holders s o /\ 1 <= holders s o <= refcount_bound) \/ (o_dc x = 1 /\ holders s o = 0)) /\
  rerr f = false /\
  (forall o x, nth_error (opts f) o = Some x -> o_dc x = 1).
Proof.
  intros HW s f.
  assert (HG : RGood S_ C_ s) by (apply RGood_run; [apply RGood_init|exact HW]).
  pose proof (rfinish_spec S_ C_ s HG) as (FA & _ & FC). fold f in FA, FC.
  destruct HG as ((A & B & C) & _). repeat split; auto.
  - intros o x Hn. unfold holders. destruct (C o x Hn) as [(D0 & D1 & D2)|(D0 & D1 & D2)]; [left|right]; repeat split; auto; lia.
  - intros o x Hn. destruct (FC o x Hn) as [(D0 & D1 & D2)|(D0 & _)]; auto.
    unfold cnt in D1; simpl in D1. lia.
Qed.

(* ---------- the range is the real one (that it is large enough: C20/Range.v) ---------- *)
(* beyond the declared type's range the counter is NOT exact (so the bound in the theorems is the real one) *)
Lemma refcount_range_tight : rc_store (refcount_max + 1) <> (refcount_max + 1, false).
Proof. vm_compute. discriminate. Qed.

(* ---------- a decision procedure for the hypothesis (used for the non-vacuity examples) ---------- *)
Definition withinb (s : rst) : bool :=
  forallb (fun o => holders s o <? refcount_bound) (seq 0 (S (list_max (refs s)))).

Lemma withinb_ok s : withinb s = true -> within s.
Proof.
  unfold withinb, within. intros Hb o. rewrite forallb_forall in Hb.
  destruct (le_lt_dec o (list_max (refs s))) as [Hl|Hl].
  - apply Z.ltb_lt. apply Hb. apply in_seq. lia.
  - unfold holders, cnt. rewrite (proj1 (count_occ_not_In Nat.eq_dec (refs s) o)).
    + pose proof bound_ge_2. simpl. lia.
    + intros Hin. assert (F : Forall (fun k => (k <= list_max (refs s))%nat) (refs s)) by (apply list_max_le; lia).
      rewrite Forall_forall in F. specialize (F o Hin). lia.
Qed.

Fixpoint hist_withinb (S_ C_ : nat) (s : rst) (ops : list rop) : bool :=
  withinb s && match ops with [] => true | o :: r => hist_withinb S_ C_ (rstep S_ C_ s o) r end.

Lemma hist_withinb_ok S_ C_ s ops : hist_withinb S_ C_ s ops = true -> hist_within S_ C_ s ops.
Proof.
  revert s; induction ops as [|o ops IH]; intros s Hb; cbn [hist_withinb hist_within] in *;
    apply andb_true_iff in Hb; destruct Hb as [A B]; (split; [now apply withinb_ok|auto]).
Qed.
