(* C20 - the ownership invariant and its preservation by every primitive of the model.

   owned s   = the object ids reachable from the holders (incl. the map's entries and the temporary slot) and
               from the client's raw pointers
   Inv s     = owned has no duplicates (single ownership), an object is owned iff it is live (no leak, no
               dangling owner), every destructor ran at most once, the error flag is clear, and every holder's
               vtable type is the dynamic type of the object it holds.                                  *)
Require Import V.Lib.Base V.Gen.Consts_C20 V.C20.Model V.C20.Lists.
Require Import Permutation.
Local Open Scope Z_scope.

Definition hids (h : holder) : list nat := match hptr h with Some id => [id] | None => [] end.
Definition owned (s : st) : list nat := flat_map hids (hs s) ++ cl s.
Definition dc_ok (l : ledger) : Prop := Forall (fun e => e_dc e = 0 \/ e_dc e = 1) l.
Definition LInv (l : ledger) (own : list nat) : Prop :=
  NoDup own /\ (forall id, In id own <-> live l id = true) /\ dc_ok l.
Definition hok (l : ledger) (h : holder) : Prop :=
  match hptr h with Some id => ty_of l id = hty h | None => True end.
Definition Inv (s : st) : Prop := LInv (led s) (owned s) /\ err s = false /\ Forall (hok (led s)) (hs s).

Lemma Inv_intro s : LInv (led s) (owned s) -> err s = false -> Forall (hok (led s)) (hs s) -> Inv s.
Proof. intros; repeat split; auto; apply H. Qed.

Ltac sf := unfold set_slot, set_hs, set_led, set_cl, set_err, set_pres, set_nvb in *; cbn [led hs cl err pres nvb] in *.

(* ---------- ledger ---------- *)
Lemma live_range l id : live l id = true -> (id < length l)%nat.
Proof.
  unfold live. destruct (nth_error l id) eqn:E; [|discriminate]. intros _.
  apply nth_error_Some. congruence.
Qed.

Lemma live_entry l id : live l id = true -> exists e, nth_error l id = Some e /\ e_dc e = 0.
Proof.
  unfold live. destruct (nth_error l id) as [e|]; [|discriminate]. intros Hd. exists e; split; auto. now apply Z.eqb_eq.
Qed.

Lemma nth_error_app_last_cases {A} (l : list A) e id :
  nth_error (l ++ [e]) id = if (id =? length l)%nat then Some e else nth_error l id.
Proof.
  destruct (Nat.eqb_spec id (length l)) as [->|Hn]; [apply nth_error_last_app|].
  destruct (Nat.lt_ge_cases id (length l)) as [Hl|Hl].
  - now rewrite nth_error_app1.
  - rewrite nth_error_app2 by lia. destruct (id - length l)%nat as [|n] eqn:E; [lia|]. simpl.
    rewrite (proj2 (nth_error_None l id)) by lia. now destruct n.
Qed.

Lemma nth_error_upd_cases {A} (l : list A) i x j :
  (i < length l)%nat -> nth_error (upd i x l) j = if (j =? i)%nat then Some x else nth_error l j.
Proof.
  intros Hi. destruct (Nat.eqb_spec j i) as [->|Hn]; [now apply nth_error_upd_eq|]. apply nth_error_upd_neq; congruence.
Qed.

Lemma live_app l e id : live (l ++ [e]) id = if (id =? length l)%nat then (e_dc e =? 0) else live l id.
Proof. unfold live. rewrite nth_error_app_last_cases. now destruct (id =? length l)%nat. Qed.
Lemma ty_of_app l e id : ty_of (l ++ [e]) id = if (id =? length l)%nat then e_ty e else ty_of l id.
Proof. unfold ty_of. rewrite nth_error_app_last_cases. now destruct (id =? length l)%nat. Qed.
Lemma val_of_app l e id : val_of (l ++ [e]) id = if (id =? length l)%nat then e_val e else val_of l id.
Proof. unfold val_of. rewrite nth_error_app_last_cases. now destruct (id =? length l)%nat. Qed.

Lemma live_upd l i x id : (i < length l)%nat -> live (upd i x l) id = if (id =? i)%nat then (e_dc x =? 0) else live l id.
Proof. intros Hi. unfold live. rewrite nth_error_upd_cases by auto. now destruct (id =? i)%nat. Qed.
Lemma ty_of_upd l i x id : (i < length l)%nat -> ty_of (upd i x l) id = if (id =? i)%nat then e_ty x else ty_of l id.
Proof. intros Hi. unfold ty_of. rewrite nth_error_upd_cases by auto. now destruct (id =? i)%nat. Qed.
Lemma val_of_upd l i x id : (i < length l)%nat -> val_of (upd i x l) id = if (id =? i)%nat then e_val x else val_of l id.
Proof. intros Hi. unfold val_of. rewrite nth_error_upd_cases by auto. now destruct (id =? i)%nat. Qed.

Lemma ty_of_upd_same l i x e id : nth_error l i = Some e -> e_ty x = e_ty e -> ty_of (upd i x l) id = ty_of l id.
Proof.
  intros Hn Ht. rewrite ty_of_upd by (apply nth_error_Some; congruence).
  destruct (Nat.eqb_spec id i) as [->|]; auto. unfold ty_of. now rewrite Hn.
Qed.

Lemma dc_ok_upd l i x : dc_ok l -> (e_dc x = 0 \/ e_dc x = 1) -> dc_ok (upd i x l).
Proof. intros; now apply Forall_upd. Qed.

(* ---------- LInv under the three ledger operations ---------- *)
Lemma LInv_perm l o1 o2 : Permutation o1 o2 -> LInv l o1 -> LInv l o2.
Proof.
  intros HP (Hn & Hi & Hd). repeat split; auto.
  - eapply Permutation_NoDup; eauto.
  - intros H. apply Hi. eapply Permutation_in; [apply Permutation_sym|]; eauto.
  - intros H. eapply Permutation_in; eauto. now apply Hi.
Qed.

Lemma LInv_alloc l own ty v : LInv l own -> LInv (l ++ [mkE ty v 0]) (length l :: own).
Proof.
  intros (Hn & Hi & Hd). repeat split.
  - constructor; auto. intros Hin. apply Hi in Hin. apply live_range in Hin. lia.
  - intros [<-|Hin].
    + rewrite live_app, Nat.eqb_refl. reflexivity.
    + rewrite live_app. pose proof (live_range _ _ (proj1 (Hi id) Hin)).
      destruct (Nat.eqb_spec id (length l)); [lia|]. now apply Hi.
  - rewrite live_app. destruct (Nat.eqb_spec id (length l)) as [->|]; [now left|]. intros H; right; now apply Hi.
  - apply Forall_app; split; [auto | constructor; auto].
Qed.

Lemma LInv_destroy l own0 own id e :
  LInv l own0 -> Permutation own0 (id :: own) -> nth_error l id = Some e ->
  e_dc e = 0 /\ LInv (upd id (mkE (e_ty e) (e_val e) 1) l) own.
Proof.
  intros HL HP Hn. apply (LInv_perm _ _ _ HP) in HL. destruct HL as (Hnd & Hi & Hd).
  assert (Hlv : live l id = true) by (apply Hi; now left).
  assert (Hr : (id < length l)%nat) by now apply live_range.
  assert (H0 : e_dc e = 0) by (unfold live in Hlv; rewrite Hn in Hlv; now apply Z.eqb_eq).
  split; auto. inversion Hnd as [|? ? Hnin Hnd']; subst. repeat split; auto.
  - intros Hin. rewrite live_upd by auto. destruct (Nat.eqb_spec id0 id) as [->|]; [contradiction|]. apply Hi; now right.
  - rewrite live_upd by auto. destruct (Nat.eqb_spec id0 id) as [->|Hne]; [discriminate|].
    intros Hl. apply Hi in Hl. destruct Hl; [congruence|auto].
  - apply dc_ok_upd; auto.
Qed.

Lemma LInv_set l own id e ty v :
  LInv l own -> nth_error l id = Some e -> e_dc e = 0 -> LInv (upd id (mkE ty v 0) l) own.
Proof.
  intros (Hnd & Hi & Hd) Hn H0.
  assert (Hr : (id < length l)%nat) by (apply nth_error_Some; congruence).
  assert (Hlv : forall x, live (upd id (mkE ty v 0) l) x = live l x).
  { intros x. rewrite live_upd by auto. destruct (Nat.eqb_spec x id) as [->|]; auto. unfold live. rewrite Hn. simpl. symmetry. now apply Z.eqb_eq. }
  repeat split; auto.
  - intros Hin. rewrite Hlv. now apply Hi.
  - rewrite Hlv. apply Hi.
  - apply dc_ok_upd; auto.
Qed.

(* ---------- slots ---------- *)
Lemma slot_range s i id : hptr (slot s i) = Some id -> (i < length (hs s))%nat.
Proof.
  unfold slot. intros Hp. destruct (Nat.lt_ge_cases i (length (hs s))); auto.
  rewrite nth_overflow in Hp; [discriminate|auto].
Qed.

Lemma owned_set_slot i h s :
  (i < length (hs s))%nat -> Permutation (hids (slot s i) ++ owned (set_slot i h s)) (hids h ++ owned s).
Proof.
  intros Hi. unfold owned, slot. sf. rewrite !app_assoc. apply Permutation_app_tail. now apply flat_map_upd_perm.
Qed.

Lemma slot_in_owned s i id : hptr (slot s i) = Some id -> In id (owned s).
Proof.
  intros Hp. pose proof (slot_range _ _ _ Hp) as Hi. unfold owned. apply in_or_app; left.
  apply in_flat_map. exists (slot s i). split; [apply nth_In; auto|]. unfold hids. rewrite Hp. now left.
Qed.

Lemma hok_slot s i : Forall (hok (led s)) (hs s) -> hok (led s) (slot s i).
Proof. intros H. unfold slot. apply Forall_nth'; auto. exact I. Qed.

Lemma hok_mono l l' h :
  (forall id, hptr h = Some id -> ty_of l' id = ty_of l id) -> hok l h -> hok l' h.
Proof. unfold hok. destruct (hptr h); auto. intros H1 H2. now rewrite H1. Qed.

Lemma hoks_mono l l' hs own :
  (forall id, In id own -> ty_of l' id = ty_of l id) -> (forall h id, In h hs -> hptr h = Some id -> In id own) ->
  Forall (hok l) hs -> Forall (hok l') hs.
Proof.
  intros H1 H2 H. apply Forall_forall. intros h Hin. rewrite Forall_forall in H.
  eapply hok_mono; [|now apply H]. intros id Hp. apply H1. eauto.
Qed.

Lemma holder_in_owned s h id : In h (hs s) -> hptr h = Some id -> In id (owned s).
Proof.
  intros Hin Hp. unfold owned. apply in_or_app; left. apply in_flat_map. exists h; split; auto. unfold hids; rewrite Hp; now left.
Qed.

Lemma client_in_owned s k id : nth_error (cl s) k = Some id -> In id (owned s).
Proof. intros H. unfold owned. apply in_or_app; right. eapply nth_error_In; eauto. Qed.

Lemma Inv_live s id : Inv s -> In id (owned s) -> exists e, nth_error (led s) id = Some e /\ e_dc e = 0.
Proof. intros ((_ & Hi & _) & _) Hin. apply live_entry. now apply Hi. Qed.

(* the ledger grows by one live object that `who` now owns: everything else is untouched *)
Lemma Inv_hoks_app s ty v : Inv s -> Forall (hok (led s ++ [mkE ty v 0])) (hs s).
Proof.
  intros HI. pose proof HI as ((_ & Hi & _) & _ & Hk).
  eapply hoks_mono; [| |exact Hk].
  - intros id Hin. instantiate (1 := owned s) in Hin. rewrite ty_of_app.
    apply Hi in Hin. apply live_range in Hin. destruct (Nat.eqb_spec id (length (led s))); [lia|auto].
  - intros h id. apply holder_in_owned.
Qed.

(* ---------- the primitives ---------- *)
Lemma Inv_p_new ty v s : Inv s -> Inv (p_new ty v s).
Proof.
  intros HI. pose proof HI as (HL & He & Hk). unfold p_new, obj_new. apply Inv_intro; sf; auto.
  - eapply LInv_perm; [|apply LInv_alloc; exact HL]. unfold owned; sf.
    rewrite app_assoc. apply Permutation_cons_append.
  - now apply Inv_hoks_app.
Qed.

Lemma destroy_live id s e :
  nth_error (led s) id = Some e -> e_dc e = 0 ->
  obj_destroy id s = set_led (upd id (mkE (e_ty e) (e_val e) 1) (led s)) s.
Proof. intros Hn H0. unfold obj_destroy. rewrite Hn, H0. reflexivity. Qed.

(* destroying an owned object whose owner has just let go of it *)
Lemma Inv_destroy s s' id :
  Inv s -> Permutation (owned s) (id :: owned s') -> led s' = led s -> err s' = err s ->
  Forall (hok (led s)) (hs s') ->
  Inv (obj_destroy id s').
Proof.
  intros HI HP Hl He' Hk'. pose proof HI as (HL & He & Hk).
  destruct (Inv_live s id HI) as (e & Hn & H0). { eapply Permutation_in; [apply Permutation_sym; exact HP|now left]. }
  rewrite (destroy_live id s' e) by (rewrite ?Hl; auto). rewrite Hl.
  destruct (LInv_destroy _ _ _ _ _ HL HP Hn) as (_ & HL').
  apply Inv_intro; sf; auto; try congruence.
  eapply Forall_impl; [|exact Hk']. intros h. apply hok_mono. intros x _. eapply ty_of_upd_same; eauto.
Qed.

Lemma Inv_p_cdel k s : Inv s -> Inv (p_cdel k s).
Proof.
  intros HI. unfold p_cdel. destruct (nth_error (cl s) k) as [id|] eqn:Hk; auto.
  eapply Inv_destroy; eauto; sf; auto; [|apply HI].
  unfold owned; sf. rewrite (remove_nth_perm k id (cl s) Hk) at 1. apply Permutation_sym, Permutation_middle.
Qed.

Lemma Inv_p_clear i s : Inv s -> Inv (p_clear i s).
Proof.
  intros HI. unfold p_clear. destruct (hptr (slot s i)) as [id|] eqn:Hp; auto.
  pose proof (slot_range _ _ _ Hp) as Hi.
  eapply Inv_destroy; eauto; sf; auto.
  - pose proof (owned_set_slot i HEmpty s Hi) as HP. unfold hids in HP at 1 2. rewrite Hp in HP. simpl in HP.
    now apply Permutation_sym.
  - apply Forall_upd; [apply HI|exact I].
Qed.

(* a write through a typed reference to an owned object of that type *)
Lemma Inv_obj_set s ty id v : Inv s -> In id (owned s) -> ty_of (led s) id = ty -> Inv (obj_set ty id v s).
Proof.
  intros HI Hin Hty. pose proof HI as (HL & He & Hk).
  destruct (Inv_live s id HI Hin) as (e & Hn & H0).
  unfold obj_set, usable. rewrite Hn, H0. unfold ty_of in Hty. rewrite Hn in Hty. rewrite Hty, !Z.eqb_refl. simpl.
  apply Inv_intro; sf; auto; try apply (LInv_set _ _ _ _ ty v HL Hn H0).
  eapply Forall_impl; [|exact Hk]. intros h. apply hok_mono. intros x _. eapply ty_of_upd_same; eauto.
Qed.

Lemma Inv_p_cset k v s : Inv s -> Inv (p_cset k v s).
Proof.
  intros HI. unfold p_cset. destruct (nth_error (cl s) k) as [id|] eqn:Hk; auto.
  apply Inv_obj_set; auto. eapply client_in_owned; eauto.
Qed.

Lemma Inv_p_setval i v s : Inv s -> Inv (p_setval i v s).
Proof.
  intros HI. unfold p_setval. destruct (hptr (slot s i)) as [id|] eqn:Hp; auto.
  apply Inv_obj_set; auto. { eapply slot_in_owned; eauto. }
  pose proof (hok_slot s i (proj2 (proj2 HI))) as H. unfold hok in H. now rewrite Hp in H.
Qed.

(* a copy of an owned object of the right type lands in the empty slot i *)
Lemma copy_usable s ty src :
  Inv s -> In src (owned s) -> ty_of (led s) src = ty ->
  obj_copy ty src s = obj_new ty (val_of (led s) src) s.
Proof.
  intros HI Hin Hty. destruct (Inv_live s src HI Hin) as (e & Hn & H0).
  unfold obj_copy, usable. rewrite Hn, H0. unfold ty_of in Hty; rewrite Hn in Hty. now rewrite Hty, !Z.eqb_refl.
Qed.

Lemma Inv_copy_into i s ty src h :
  Inv s -> (i < length (hs s))%nat -> slot s i = HEmpty -> In src (owned s) -> ty_of (led s) src = ty ->
  (forall id, hptr (h id) = Some id /\ hty (h id) = ty) ->
  Inv (let '(s1, id) := obj_copy ty src s in set_slot i (h id) s1).
Proof.
  intros HI Hi Hs Hin Hty Hh. rewrite copy_usable by auto. unfold obj_new.
  pose proof HI as (HL & He & Hk). destruct (Hh (length (led s))) as (Hp & Ht).
  apply Inv_intro; sf; auto.
  { eapply LInv_perm; [|apply LInv_alloc; exact HL].
    pose proof (owned_set_slot i (h (length (led s))) s Hi) as HP; rewrite Hs in HP; unfold hids in HP at 1 2; rewrite Hp in HP; simpl in HP; unfold owned in *; sf; now apply Permutation_sym. }
  apply Forall_upd; [now apply Inv_hoks_app|].
  unfold hok. rewrite Hp, Ht, ty_of_app, Nat.eqb_refl. reflexivity.
Qed.

Lemma Inv_p_store i k s : Inv s -> Inv (p_store i k s).
Proof.
  intros HI. unfold p_store, valid. destruct (Nat.ltb_spec i (length (hs s))) as [Hi|]; auto.
  destruct (slot s i) eqn:Hs; auto. destruct (nth_error (cl s) k) as [src|] eqn:Hk; auto.
  apply Inv_copy_into; auto. { eapply client_in_owned; eauto. }
  intros id. unfold mk_stored. destruct (stored_inplace _); auto.
Qed.

Lemma Inv_p_clone i j s : Inv s -> Inv (p_clone i j s).
Proof.
  intros HI. unfold p_clone, valid. destruct (Nat.ltb_spec i (length (hs s))) as [Hi|]; auto.
  destruct (slot s i) eqn:Hs; auto. destruct (hptr (slot s j)) as [src|] eqn:Hp; auto.
  apply Inv_copy_into; auto.
  - eapply slot_in_owned; eauto.
  - pose proof (hok_slot s j (proj2 (proj2 HI))) as H. unfold hok in H. now rewrite Hp in H.
  - intros id. destruct (slot s j); try discriminate; auto.
Qed.

Lemma Inv_p_swap i j s : Inv s -> Inv (p_swap i j s).
Proof.
  intros HI. unfold p_swap, valid.
  destruct (Nat.ltb_spec i (length (hs s))) as [Hi|]; auto. destruct (Nat.ltb_spec j (length (hs s))) as [Hj|]; auto. simpl.
  pose proof HI as (HL & He & Hk). apply Inv_intro; sf; auto.
  { eapply LInv_perm; [|exact HL].
    unfold owned; sf; apply Permutation_app_tail.
    destruct (Nat.eq_dec i j) as [->|Hne];
      [ rewrite upd_upd_same; unfold slot; rewrite upd_nth_id; reflexivity |].
    pose proof (flat_map_upd_perm hids i (slot s j) HEmpty (hs s) Hi) as P1;
       pose proof (flat_map_upd_perm hids j (slot s i) HEmpty (upd i (slot s j) (hs s)) ltac:(now rewrite upd_length)) as P2;
       rewrite nth_upd_neq in P2 by auto; fold (slot s j) in P2; fold (slot s i) in P1.
    apply Permutation_sym. eapply Permutation_app_inv_l with (l := hids (slot s j) ++ hids (slot s i)).
    transitivity (hids (slot s i) ++ (hids (slot s j) ++ flat_map hids (upd j (slot s i) (upd i (slot s j) (hs s))))).
    { rewrite !app_assoc. apply Permutation_app_tail. apply Permutation_app_comm. }
    transitivity (hids (slot s i) ++ (hids (slot s i) ++ flat_map hids (upd i (slot s j) (hs s)))).
    { apply Permutation_app_head. exact P2. }
    transitivity (hids (slot s i) ++ (hids (slot s j) ++ flat_map hids (hs s))).
    { apply Permutation_app_head. exact P1. }
    rewrite !app_assoc. apply Permutation_app_tail. apply Permutation_app_comm. }
  apply Forall_upd; [apply Forall_upd; auto|]; apply hok_slot; auto.
Qed.

(* slot i takes over an object that some other owner (the client) has just let go of *)
Lemma Inv_take i s s' id h :
  Inv s -> Permutation (owned s) (id :: owned s') -> led s' = led s -> err s' = err s -> hs s' = hs s ->
  hptr h = Some id -> hty h = ty_of (led s) id ->
  (i < length (hs s))%nat -> slot s i = HEmpty ->
  Inv (set_slot i h s').
Proof.
  intros HI HP Hl He' Hh Hp Ht Hi Hs. pose proof HI as (HL & He & Hk).
  apply Inv_intro; sf; rewrite ?Hl, ?He', ?Hh; auto.
  { eapply LInv_perm; [|exact HL].
    rewrite HP; pose proof (owned_set_slot i h s' ltac:(now rewrite Hh)) as P; unfold slot in P; rewrite Hh in P;
       fold (slot s i) in P; rewrite Hs in P; unfold hids in P at 1 2; rewrite Hp in P; simpl in P;
       unfold owned in *; sf; rewrite Hh in P; rewrite Hh; now apply Permutation_sym. }
  apply Forall_upd; auto. unfold hok. now rewrite Hp.
Qed.

Lemma p_clear_slot_empty i s : slot (p_clear i s) i = HEmpty.
Proof.
  unfold p_clear. destruct (hptr (slot s i)) as [id|] eqn:Hp.
  - pose proof (slot_range _ _ _ Hp). unfold obj_destroy. sf.
    assert (slot (set_hs (upd i HEmpty (hs s)) s) i = HEmpty) as E by (unfold slot; sf; now apply nth_upd_eq).
    unfold slot in *. sf. destruct (nth_error (led s) id); [destruct (e_dc e =? 0)|]; sf; exact E.
  - destruct (slot s i); try discriminate; auto.
Qed.

Lemma p_clear_fields i s : hs (p_clear i s) = upd i HEmpty (hs s) /\ cl (p_clear i s) = cl s /\ pres (p_clear i s) = pres s /\ nvb (p_clear i s) = nvb s.
Proof.
  unfold p_clear. destruct (hptr (slot s i)) as [id|] eqn:Hp.
  - unfold obj_destroy. sf. destruct (nth_error (led s) id); [destruct (e_dc e =? 0)|]; sf; auto.
  - assert (slot s i = HEmpty) as E by (destruct (slot s i); try discriminate; auto).
    unfold slot in E. rewrite <- E at 1. rewrite upd_nth_id. auto.
Qed.

(* assimilate of an object that is owned by nobody else but is live: the state before is Inv "plus id" *)
Lemma Inv_assimilate i id s0 s :
  Inv s0 -> Permutation (owned s0) (id :: owned s) -> led s = led s0 -> err s = err s0 -> hs s = hs s0 ->
  (i < length (hs s0))%nat ->
  Inv (vs_assimilate i id s).
Proof.
  intros HI HP Hl He' Hh Hi. unfold vs_assimilate.
  (* view s as a state in which the client still holds id: s+ := set_cl (id :: cl s) s *)
  set (sp := set_cl (id :: cl s) s).
  assert (HIp : Inv sp).
  { pose proof HI as (HL & He & Hk). apply Inv_intro; unfold sp; sf; rewrite ?Hl, ?He', ?Hh; auto.
    eapply LInv_perm; [|exact HL].
    rewrite HP; unfold owned; sf; rewrite Hh; apply Permutation_middle. }
  pose proof (Inv_p_clear i sp HIp) as HIc.
  assert (Hc : p_clear i sp = set_cl (id :: cl (p_clear i s)) (p_clear i s)).
  { unfold p_clear, sp, slot; sf. destruct (hptr (nth i (hs s) HEmpty)); auto.
    unfold obj_destroy; sf. destruct (nth_error (led s) n); [destruct (e_dc e =? 0)|]; sf; reflexivity. }
  destruct (p_clear_fields i s) as (Fh & Fc & _).
  pose proof (p_clear_slot_empty i s) as Hse.
  set (s1 := p_clear i s) in *.
  assert (Hlen : (i < length (hs (p_clear i sp)))%nat). { rewrite Hc; sf. rewrite Fh, upd_length. now rewrite Hh. }
  eapply (Inv_take i (p_clear i sp) s1 id); eauto.
  - rewrite Hc. unfold owned; sf. apply Permutation_sym, Permutation_middle.
  - now rewrite Hc.
  - now rewrite Hc.
  - now rewrite Hc.
  - rewrite Hc; sf. unfold mk_adopted. destruct base_inplace; auto.
  - rewrite Hc. unfold slot in *; sf. exact Hse.
Qed.

Lemma Inv_p_adopt i k s : Inv s -> Inv (p_adopt i k s).
Proof.
  intros HI. unfold p_adopt, valid. destruct (Nat.ltb_spec i (length (hs s))) as [Hi|]; auto.
  destruct (nth_error (cl s) k) as [id|] eqn:Hk; auto.
  eapply Inv_assimilate; eauto; sf; auto.
  unfold owned; sf. rewrite (remove_nth_perm k id (cl s) Hk) at 1. apply Permutation_sym, Permutation_middle.
Qed.

Lemma Inv_p_surrender i s : Inv s -> Inv (p_surrender i s).
Proof.
  intros HI. unfold p_surrender. destruct (slot s i) as [|ty id|ty id] eqn:Hs; auto.
  - assert (Hp : hptr (slot s i) = Some id) by now rewrite Hs.
    pose proof (slot_range _ _ _ Hp) as Hi.
    eapply Inv_destroy; eauto; sf; auto.
    + pose proof (owned_set_slot i HEmpty s Hi) as HP. unfold hids in HP at 1 2. rewrite Hp in HP. simpl in HP. now apply Permutation_sym.
    + apply Forall_upd; [apply HI|exact I].
  - assert (Hp : hptr (slot s i) = Some id) by now rewrite Hs.
    pose proof (slot_range _ _ _ Hp) as Hi. pose proof HI as (HL & He & Hk).
    apply Inv_intro; sf; auto.
    { eapply LInv_perm; [|exact HL].
      pose proof (owned_set_slot i HEmpty s Hi) as HP; unfold hids in HP at 1 2; rewrite Hp in HP; simpl in HP;
         unfold owned in *; sf; rewrite app_assoc; rewrite <- Permutation_cons_append; now apply Permutation_sym. }
    apply Forall_upd; auto. exact I.
Qed.

Lemma Inv_set_flags s p q : Inv s -> Inv (set_nvb q (set_pres p s)).
Proof. intros H. exact H. Qed.

Lemma Inv_vm_add n i id s0 s :
  Inv s0 -> Permutation (owned s0) (id :: owned s) -> led s = led s0 -> err s = err s0 -> hs s = hs s0 ->
  (i < length (hs s0))%nat ->
  Inv (vm_add n i id s).
Proof.
  intros HI HP Hl He' Hh Hi. unfold vm_add.
  set (s1 := set_pres (set_flag n true (pres s)) s).
  assert (A : Inv (vs_assimilate i id s1)) by (eapply Inv_assimilate; eauto).
  destruct (slot s1 i) as [|ty id'|ty id'] eqn:Hs; auto.
  destruct (Nat.eqb_spec id' id) as [->|]; auto.
  (* impossible under the premise: id would be owned twice *)
  exfalso. pose proof HI as ((Hnd & _) & _).
  eapply Permutation_NoDup in Hnd; [|exact HP]. inversion Hnd as [|? ? Hnin _]; subst. apply Hnin.
  apply (slot_in_owned s i id). unfold slot, s1 in *; sf. now rewrite Hs.
Qed.

(* ValueMap::add with the pointer the entry holds: nothing is destroyed, nothing is adopted *)
Lemma vm_add_same n i id ty s :
  slot s i = HHeap ty id -> vm_add n i id s = set_pres (set_flag n true (pres s)) s.
Proof. intros Hs. unfold vm_add. unfold slot in *; sf. rewrite Hs, Nat.eqb_refl. reflexivity. Qed.
