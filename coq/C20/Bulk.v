(* C20 part B - the bulk operations of the model ("k further holders at once", "the pool drops k handles") are the k-fold
   iteration of the single operation: what is proved about one more holder holds for k of them. *)
Require Import V.Lib.Base V.Gen.Consts_C20 V.C20.Model V.C20.Lists V.C20.Refcount.
Require Import Permutation NArith Nnat.
Local Open Scope Z_scope.

(* ---------- "k holders at once" is the k-fold iteration of "one more holder" ---------- *)
Lemma add_ref_frame o s : psl (add_ref o s) = psl s /\ conts (add_ref o s) = conts s.
Proof.
  unfold add_ref. destruct (nth_error _ o) as [x|]; [destruct (rc_store (o_rc x + 1)); destruct (_ && _)|]; simpl; auto.
Qed.

Lemma add_refN_frame o n s : psl (N.iter n (add_ref o) s) = psl s /\ conts (N.iter n (add_ref o) s) = conts s.
Proof.
  induction n using N.peano_ind; [auto|]. rewrite N.iter_succ. destruct IHn as [A B].
  destruct (add_ref_frame o (N.iter n (add_ref o) s)) as [A' B']. split; congruence.
Qed.

Lemma add_ref_set_conts o y s : add_ref o (r_set_conts y s) = r_set_conts y (add_ref o s).
Proof.
  unfold add_ref. cbn [opts r_set_conts].
  destruct (nth_error (opts s) o) as [x|]; [destruct (rc_store (o_rc x + 1)); destruct (_ && _)|]; reflexivity.
Qed.

Lemma repeatN_snoc o n : repeatN o n ++ [o] = repeatN o (N.succ n).
Proof. rewrite repeatN_succ, !repeatN_repeat. symmetry. apply repeat_cons. Qed.

Lemma iter_fix {A} (f : A -> A) x n : f x = x -> N.iter n f x = x.
Proof. intros Hf. induction n using N.peano_ind; [reflexivity|]. rewrite N.iter_succ. congruence. Qed.

Section Bulk.
Variables S_ C_ : nat.

(* one more copy after n copies = n + 1 copies: containers that simply collect handles (OptionGroup, ParsedValues, the pool) *)
Lemma pushN_succ s c i n :
  length (conts s) = S C_ -> Z.of_N (N.succ n) <= BULK_MAX ->
  (c =? Z.of_nat C_) || negb (ckind c =? 2) = true ->
  rstep S_ C_ (rstep S_ C_ s (RPushN c i (Z.of_N n))) (RPushN c i 1) = rstep S_ C_ s (RPushN c i (Z.of_N (N.succ n))).
Proof.
  intros HC Hk Hkind. cbn [rstep].
  assert (G1 : (0 <=? Z.of_N n) && (Z.of_N n <=? BULK_MAX) = true) by (apply andb_true_iff; split; apply Z.leb_le; lia).
  assert (G2 : (0 <=? Z.of_N (N.succ n)) && (Z.of_N (N.succ n) <=? BULK_MAX) = true) by (apply andb_true_iff; split; apply Z.leb_le; lia).
  assert (G3 : (0 <=? 1) && (1 <=? BULK_MAX) = true) by reflexivity.
  rewrite <- !andb_assoc, G1, G2, G3, !andb_true_r.
  destruct ((okc C_ c || (c =? Z.of_nat C_)) && okp S_ i)%bool eqn:E.
  2:{ reflexivity. }
  assert (Hc : (Z.to_nat c < length (conts s))%nat).
  { apply andb_true_iff in E. destruct E as [E _]. apply orb_true_iff in E.
    destruct E as [E|E]; [apply okc_range in E; lia|apply Z.eqb_eq in E; lia]. }
  rewrite !N2Z.id. change (Z.to_N 1) with (N.succ 0).
  destruct (pslot s (Z.to_nat i)) as [o|] eqn:Hp.
  2:{ rewrite Hp. reflexivity. }
  set (cur := nth (Z.to_nat c) (conts s) []).
  destruct (add_refN_frame o n s) as [Pn Cn].
  destruct (c =? Z.of_nat C_) eqn:Ec.
  - unfold pslot at 1. cbn [psl conts r_set_conts]. rewrite Pn. fold (pslot s (Z.to_nat i)). rewrite Hp.
    rewrite nth_upd_eq by auto. rewrite upd_upd_same. rewrite N.iter_succ. cbn [N.iter].
    rewrite add_ref_set_conts. unfold r_set_conts; cbn [opts psl conts rerr].
    rewrite N.iter_succ. rewrite app_assoc. rewrite repeatN_succ. change (repeatN o 0) with (@nil nat). simpl app.
    rewrite repeatN_succ. reflexivity.
  - simpl in Hkind. destruct (ckind c =? 2) eqn:Ek; [discriminate|].
    unfold pslot at 1. cbn [psl conts r_set_conts]. rewrite Pn. fold (pslot s (Z.to_nat i)). rewrite Hp.
    rewrite nth_upd_eq by auto. rewrite upd_upd_same. rewrite N.iter_succ. cbn [N.iter].
    rewrite add_ref_set_conts. unfold r_set_conts; cbn [opts psl conts rerr].
    rewrite N.iter_succ. rewrite <- app_assoc. rewrite repeatN_succ. change (repeatN o 0) with (@nil nat).
    change ([o] ++ []) with [o]. rewrite repeatN_snoc. reflexivity.
Qed.

Lemma pushN_zero s c i :
  length (conts s) = S C_ -> rstep S_ C_ s (RPushN c i 0) = s.
Proof.
  intros HC. cbn [rstep].
  destruct ((okc C_ c || (c =? Z.of_nat C_)) && okp S_ i && (0 <=? 0) && (0 <=? BULK_MAX))%bool; [|reflexivity].
  destruct (pslot s (Z.to_nat i)) as [o|]; [|reflexivity].
  change (Z.to_N 0) with 0%N. cbn [N.iter]. change (repeatN o 0) with (@nil nat). rewrite app_nil_r. simpl app.
  rewrite upd_nth_id. destruct (c =? Z.of_nat C_); [destruct s; reflexivity|].
  destruct (ckind c =? 2); [reflexivity|destruct s; reflexivity].
Qed.

(* push_n(c, i, n) = n times push_n(c, i, 1), for a container that collects handles and for the pool *)
Theorem pushN_iter s c i n :
  length (conts s) = S C_ -> Z.of_N n <= BULK_MAX ->
  (c =? Z.of_nat C_) || negb (ckind c =? 2) = true ->
  rstep S_ C_ s (RPushN c i (Z.of_N n)) = N.iter n (fun t => rstep S_ C_ t (RPushN c i 1)) s.
Proof.
  intros HC Hk Hkind. induction n using N.peano_ind.
  - now apply pushN_zero.
  - rewrite N.iter_succ. rewrite <- IHn by lia. symmetry. now apply pushN_succ.
Qed.

(* ... and for a container that collects handles push_n(c, i, 1) is push(c, i) *)
Lemma pushN_one s c i :
  okc C_ c = true -> (ckind c =? 2) = false -> length (conts s) = S C_ ->
  rstep S_ C_ s (RPushN c i 1) = rstep S_ C_ s (RPush c i).
Proof.
  intros Hc Hk HC. cbn [rstep]. rewrite Hc, Hk. cbn [orb]. change ((0 <=? 1) && (1 <=? BULK_MAX)) with true.
  rewrite <- !andb_assoc. change ((0 <=? 1) && (1 <=? BULK_MAX)) with true. rewrite andb_true_r.
  destruct (okp S_ i); [|reflexivity]. cbn [andb].
  destruct (pslot s (Z.to_nat i)) as [o|]; [|reflexivity].
  assert (Ec : (c =? Z.of_nat C_) = false) by (apply okc_range in Hc; apply Z.eqb_neq; lia).
  rewrite Ec. reflexivity.
Qed.
End Bulk.

(* the pool drops k handles = k times "the pool drops its newest handle" (by definition of the model op) *)
Lemma popN_iter S_ C_ s n :
  Z.of_N n <= BULK_MAX -> rstep S_ C_ s (RPopN (Z.of_N n)) = N.iter n (fun t => rstep S_ C_ t (RPopN 1)) s.
Proof.
  intros Hk. cbn [rstep].
  assert (G : (0 <=? Z.of_N n) && (Z.of_N n <=? BULK_MAX) = true) by (apply andb_true_iff; split; apply Z.leb_le; lia).
  rewrite G, N2Z.id. change ((0 <=? 1) && (1 <=? BULK_MAX)) with true. cbv iota. reflexivity.
Qed.

(* an OptionContext registers an option once, however often the group is added: k >= 1 adds = one add = k iterated adds *)
Section Ctx.
Variables S_ C_ : nat.

Lemma push_ctx_frame c o s : psl (push_ctx c o s) = psl s /\ length (conts (push_ctx c o s)) = length (conts s).
Proof.
  unfold push_ctx. destruct (existsb _ _); [auto|]. cbn [psl conts r_set_conts]. rewrite upd_length.
  destruct (add_ref_frame o (add_ref o s)) as [A _]. destruct (add_ref_frame o s) as [A' _]. split; congruence.
Qed.

Lemma push_ctx_idem c o s : (c < length (conts s))%nat -> push_ctx c o (push_ctx c o s) = push_ctx c o s.
Proof.
  intros Hc. unfold push_ctx at 2. destruct (existsb (Nat.eqb o) (nth c (conts s) [])) eqn:E.
  - unfold push_ctx. now rewrite E.
  - unfold push_ctx. cbn [conts r_set_conts]. rewrite nth_upd_eq by auto.
    rewrite existsb_app. cbn [existsb]. rewrite Nat.eqb_refl. cbn [orb]. rewrite orb_true_r. now rewrite E.
Qed.

Lemma push_idem s c i :
  length (conts s) = S C_ -> (ckind c =? 2) = true ->
  rstep S_ C_ (rstep S_ C_ s (RPush c i)) (RPush c i) = rstep S_ C_ s (RPush c i).
Proof.
  intros HC Hk. cbn [rstep]. destruct (okc C_ c && okp S_ i)%bool eqn:E; [|reflexivity].
  apply andb_true_iff in E. destruct E as [E1 E2]. apply okc_range in E1.
  destruct (pslot s (Z.to_nat i)) as [o|] eqn:Hp; [|now rewrite Hp].
  rewrite Hk. destruct (push_ctx_frame (Z.to_nat c) o s) as [A B].
  unfold pslot at 1. rewrite A. fold (pslot s (Z.to_nat i)). rewrite Hp. apply push_ctx_idem. lia.
Qed.

Lemma iter_idem {A} (f : A -> A) x n : f (f x) = f x -> N.iter (N.succ n) f x = f x.
Proof.
  intros Hf. induction n using N.peano_ind; [reflexivity|]. rewrite N.iter_succ, IHn. exact Hf.
Qed.

Theorem pushN_ctx_iter s c i n :
  length (conts s) = S C_ -> okc C_ c = true -> (ckind c =? 2) = true -> Z.of_N n <= BULK_MAX ->
  rstep S_ C_ s (RPushN c i (Z.of_N n)) = N.iter n (fun t => rstep S_ C_ t (RPush c i)) s.
Proof.
  intros HC Hc Hk Hn. destruct n as [|p] using N.peano_ind; [now apply pushN_zero|clear IHp].
  rewrite (iter_idem (fun t => rstep S_ C_ t (RPush c i))) by now apply push_idem.
  cbn [rstep]. rewrite Hc, Hk. cbn [orb].
  assert (G : (0 <=? Z.of_N (N.succ p)) && (Z.of_N (N.succ p) <=? BULK_MAX) = true) by (apply andb_true_iff; split; apply Z.leb_le; lia).
  rewrite <- !andb_assoc, G, andb_true_r.
  destruct (okp S_ i); [|reflexivity]. cbn [andb].
  destruct (pslot s (Z.to_nat i)) as [o|]; [|reflexivity].
  assert (Ec : (c =? Z.of_nat C_) = false) by (apply okc_range in Hc; apply Z.eqb_neq; lia).
  assert (E0 : (Z.of_N (N.succ p) =? 0) = false) by (apply Z.eqb_neq; lia).
  now rewrite Ec, E0.
Qed.
End Ctx.

(* all four in one statement (Properties_C20.v: c20_refcount_bulk_is_iteration) *)
Theorem bulk_is_iteration : forall (S_ C_ : nat) (s : rst) (c i : Z) (n : N),
  length (conts s) = S C_ -> Z.of_N n <= BULK_MAX ->
  ((c =? Z.of_nat C_) || negb (ckind c =? 2) = true ->
     rstep S_ C_ s (RPushN c i (Z.of_N n)) = N.iter n (fun t => rstep S_ C_ t (RPushN c i 1)) s) /\
  (okc C_ c = true -> (ckind c =? 2) = false -> rstep S_ C_ s (RPushN c i 1) = rstep S_ C_ s (RPush c i)) /\
  (okc C_ c = true -> (ckind c =? 2) = true ->
     rstep S_ C_ s (RPushN c i (Z.of_N n)) = N.iter n (fun t => rstep S_ C_ t (RPush c i)) s) /\
  rstep S_ C_ s (RPopN (Z.of_N n)) = N.iter n (fun t => rstep S_ C_ t (RPopN 1)) s.
Proof.
  intros S_ C_ s c i n HC Hn. split; [|split; [|split]].
  - intros Hk. now apply pushN_iter.
  - intros Hc Hk. now apply pushN_one.
  - intros Hc Hk. now apply pushN_ctx_iter.
  - now apply popN_iter.
Qed.
