(* C20 - every client operation preserves the ownership invariant; consequences for whole histories. *)
Require Import V.Lib.Base V.Gen.Consts_C20 V.C20.Model V.C20.Lists V.C20.Inv V.C20.Frame.
Require Import Permutation.
Local Open Scope Z_scope.

Lemma slot_set_nvb p s k : slot (set_nvb p s) k = slot s k.
Proof. reflexivity. Qed.
Lemma slot_set_cl p s k : slot (set_cl p s) k = slot s k.
Proof. reflexivity. Qed.

Lemma base_inplace_false : base_inplace = false.
Proof. reflexivity. Qed.

Lemma Inv_set_pres p s : Inv (set_pres p s) <-> Inv s.
Proof. unfold Inv, owned; sf. tauto. Qed.
Lemma Inv_set_nvb p s : Inv (set_nvb p s) <-> Inv s.
Proof. unfold Inv, owned; sf. tauto. Qed.

(* typed access never raises the error flag and never changes the state *)
Lemma cast_state s i ty : Inv s -> snd (cast s i ty) = s.
Proof.
  intros HI. unfold cast. destruct (hptr (slot s i)) as [id|] eqn:Hp; auto.
  destruct (Z.eqb_spec (hty (slot s i)) ty) as [Ht|]; auto.
  destruct (Inv_live s id HI (slot_in_owned _ _ _ Hp)) as (e & Hn & H0).
  pose proof (hok_slot s i (proj2 (proj2 HI))) as Hk. unfold hok in Hk. rewrite Hp in Hk.
  unfold usable. rewrite Hn, H0. unfold ty_of in Hk. rewrite Hn in Hk. rewrite Hk, Ht, !Z.eqb_refl. reflexivity.
Qed.

Ltac inv_chain :=
  repeat first [ assumption | apply Inv_p_swap | apply Inv_p_clear | apply Inv_p_cdel | apply Inv_p_store | apply Inv_p_new
               | apply Inv_p_clone | apply Inv_p_adopt | apply Inv_p_surrender | apply Inv_p_setval | apply Inv_p_cset ].

Ltac fr :=
  lazymatch goal with
  | |- same_but _ ?s ?s => apply same_but_refl
  | |- same_but ?T ?s (p_swap _ _ ?x) => apply (same_but_trans T s x); [fr | apply fr_p_swap; simpl; tauto]
  | |- same_but ?T ?s (p_clear _ ?x) => apply (same_but_trans T s x); [fr | apply fr_p_clear; simpl; tauto]
  | |- same_but ?T ?s (p_cdel _ ?x) => apply (same_but_trans T s x); [fr | apply fr_p_cdel]
  | |- same_but ?T ?s (p_cset _ _ ?x) => apply (same_but_trans T s x); [fr | apply fr_p_cset]
  | |- same_but ?T ?s (p_setval _ _ ?x) => apply (same_but_trans T s x); [fr | apply fr_p_setval]
  | |- same_but ?T ?s (p_store _ _ ?x) => apply (same_but_trans T s x); [fr | apply fr_p_store; simpl; tauto]
  | |- same_but ?T ?s (p_clone _ _ ?x) => apply (same_but_trans T s x); [fr | apply fr_p_clone; simpl; tauto]
  | |- same_but ?T ?s (p_new _ _ ?x) => apply (same_but_trans T s x); [fr | apply fr_p_new]
  | |- same_but ?T ?s (p_adopt _ _ ?x) => apply (same_but_trans T s x); [fr | apply fr_p_adopt; simpl; tauto]
  | |- same_but ?T ?s (p_surrender _ ?x) => apply (same_but_trans T s x); [fr | apply fr_p_surrender; simpl; tauto]
  end.

Lemma flat_hids_repeat k : flat_map hids (repeat HEmpty k) = [].
Proof. induction k; simpl; auto. Qed.

Lemma all_empty_flat h : (forall k, nth k h HEmpty = HEmpty) -> flat_map hids h = [].
Proof.
  induction h as [|x h IH]; intros Hk; simpl; auto.
  pose proof (Hk 0%nat) as H0. simpl in H0. subst x. simpl. apply IH. intros k. apply (Hk (S k)).
Qed.

Lemma fold_clear_fields (g : nat -> nat) l s :
  hs (fold_left (fun a n => p_clear (g n) a) l s) = fold_left (fun h n => upd (g n) HEmpty h) l (hs s) /\
  cl (fold_left (fun a n => p_clear (g n) a) l s) = cl s /\
  pres (fold_left (fun a n => p_clear (g n) a) l s) = pres s /\ nvb (fold_left (fun a n => p_clear (g n) a) l s) = nvb s.
Proof.
  revert s; induction l as [|i l IH]; intros s; simpl; auto.
  destruct (IH (p_clear (g i) s)) as (A & B & C & D). destruct (p_clear_fields (g i) s) as (A' & B' & C' & D').
  rewrite A, B, C, D, A', B', C', D'. auto.
Qed.

Lemma fold_upd_nth (g : nat -> nat) l h k :
  nth k (fold_left (fun h n => upd (g n) HEmpty h) l h) HEmpty = if existsb (fun n => Nat.eqb k (g n)) l then HEmpty else nth k h HEmpty.
Proof.
  revert h; induction l as [|i l IH]; intros h; simpl; auto.
  rewrite IH. destruct (existsb (fun n => Nat.eqb k (g n)) l); [now rewrite orb_true_r|]. rewrite orb_false_r.
  rewrite nth_upd. rewrite (Nat.eqb_sym k (g i)). destruct (Nat.eqb_spec (g i) k) as [<-|]; simpl; auto.
  destruct (Nat.ltb_spec (g i) (length h)); auto. now rewrite nth_overflow.
Qed.

Lemma fold_upd_length (g : nat -> nat) l (h : list holder) : length (fold_left (fun h n => upd (g n) HEmpty h) l h) = length h.
Proof. revert h; induction l as [|i l IH]; intros h; simpl; auto. now rewrite IH, upd_length. Qed.

Lemma Inv_fold_clear (g : nat -> nat) l s : Inv s -> Inv (fold_left (fun a n => p_clear (g n) a) l s).
Proof. revert s; induction l as [|i l IH]; intros s HI; simpl; auto. apply IH. now apply Inv_p_clear. Qed.

Lemma nth_repeat_false n k : nth n (repeat false k) false = false.
Proof. revert n; induction k; intros [|n]; simpl; auto. Qed.

Section Once.
Variables (H M : nat) (tys : list Z).

Definition Shape (s : st) : Prop := length (hs s) = S (H + M).
Definition NvOk (s : st) : Prop :=
  forall n, nth n (nvb s) false = true -> exists ty id, slot s (S (H + n)) = HHeap ty id.
Definition Good (s : st) : Prop := Inv s /\ Shape s /\ NvOk s.

Lemma okh_range i : okh H i = true -> (hslot i <= H)%nat /\ (0 < hslot i)%nat.
Proof. unfold okh, hslot. intros Hk. apply andb_true_iff in Hk. destruct Hk as [A B]. apply Z.leb_le in A. apply Z.ltb_lt in B. lia. Qed.

Lemma okm_range n : okm M n = true -> (Z.to_nat n < M)%nat.
Proof. unfold okm. intros Hk. apply andb_true_iff in Hk. destruct Hk as [A B]. apply Z.leb_le in A. apply Z.ltb_lt in B. lia. Qed.

Lemma src_slot_valid s j sj : src_slot H M s j = Some sj -> (sj <= H + M)%nat.
Proof.
  unfold src_slot. destruct (okh H j) eqn:E.
  - intros [= <-]. apply okh_range in E. lia.
  - destruct (okm M (j - Z.of_nat H)) eqn:E2; simpl; [|discriminate]. destruct (mpres s _); [|discriminate].
    intros [= <-]. apply okm_range in E2. unfold mslot. lia.
Qed.

(* operations that can only touch the temporary slot and client holders keep the map's part *)
Lemma Good_frame T s s' :
  Good s -> Inv s' -> same_but T s s' -> (forall k, In k T -> (k <= H)%nat) -> Good s'.
Proof.
  intros (HI & HS & HN) HI' (A & B & C & D) HT. split; [auto|split].
  - unfold Shape in *. congruence.
  - intros n Hn. rewrite D in Hn. destruct (HN n Hn) as (ty & id & E). exists ty, id. rewrite B; auto.
    intros Hin. apply HT in Hin. lia.
Qed.

Lemma Good_set_pres p s : Good s -> Good (set_pres p s).
Proof. intros (A & B & C). split; [now apply Inv_set_pres|split]; [exact B|exact C]. Qed.

Lemma vm_add_frame n i id s :
  length (hs (vm_add n i id s)) = length (hs s) /\ (forall k, k <> i -> slot (vm_add n i id s) k = slot s k) /\
  nvb (vm_add n i id s) = nvb s.
Proof.
  unfold vm_add. set (s1 := set_pres (set_flag n true (pres s)) s).
  assert (E : same_but [i] s1 (vs_assimilate i id s1)) by (apply fr_vs_assimilate; now left).
  destruct E as (A & B & C & D).
  assert (G : length (hs (vs_assimilate i id s1)) = length (hs s) /\
              (forall k, k <> i -> slot (vs_assimilate i id s1) k = slot s k) /\ nvb (vs_assimilate i id s1) = nvb s).
  { repeat split; auto. intros k Hk. rewrite B; auto. simpl. intros [->|[]]. congruence. }
  destruct (slot s1 i); auto. destruct (id0 =? id)%nat; auto.
Qed.

Lemma vm_add_slot n i id s :
  (i < length (hs s))%nat -> exists ty, slot (vm_add n i id s) i = HHeap ty id.
Proof.
  intros Hi. unfold vm_add. set (s1 := set_pres (set_flag n true (pres s)) s).
  assert (A : exists ty, slot (vs_assimilate i id s1) i = HHeap ty id).
  { unfold vs_assimilate, mk_adopted. rewrite base_inplace_false. eexists. unfold slot; sf.
    apply nth_upd_eq. destruct (p_clear_fields i s1) as (F & _). rewrite F, upd_length. exact Hi. }
  destruct (slot s1 i) eqn:E; auto. destruct (Nat.eqb_spec id0 id) as [->|]; auto.
  exists ty. exact E.
Qed.

Lemma nth_upd_flag_true n n' b l :
  nth n' (upd n b l) false = true -> (n' = n /\ b = true) \/ (n' <> n /\ nth n' l false = true).
Proof.
  rewrite nth_upd. destruct (Nat.eqb_spec n n') as [->|Hne]; simpl.
  - destruct (Nat.ltb_spec n' (length l)).
    + intros ->. now left.
    + rewrite nth_overflow by auto. discriminate.
  - intros Hn. right. split; auto.
Qed.

Lemma last_cl_new ty v s : nth_error (cl (p_new ty v s)) (last_cl (p_new ty v s)) = Some (length (led s)).
Proof. unfold p_new, obj_new, last_cl; sf. rewrite pred_length_app. apply nth_error_last_app. Qed.

Lemma Good_step s o : Good s -> Good (snd (step H M tys s o)).
Proof.
  intros HG. pose proof HG as (HI & HS & HN).
  destruct o; cbn [step].
  - (* OConsVal *)
    destruct (okh H i && okty ty)%bool eqn:E; [|exact HG]. apply andb_true_iff in E. destruct E as [E _]. apply okh_range in E.
    cbn [snd]. eapply (Good_frame [TMP; hslot i]); eauto; [inv_chain | fr | simpl; intros k [<-|[<-|[]]]; unfold TMP; lia].
  - (* OConsCopy *)
    destruct (okh H i) eqn:E; [|exact HG]. destruct (src_slot H M s j) as [sj|]; [|exact HG]. apply okh_range in E.
    cbn [snd]. eapply (Good_frame [TMP; hslot i]); eauto; [inv_chain | fr | simpl; intros k [<-|[<-|[]]]; unfold TMP; lia].
  - (* OAssignVal *)
    destruct (okh H i && okty ty)%bool eqn:E; [|exact HG]. apply andb_true_iff in E. destruct E as [E _]. apply okh_range in E.
    cbn [snd]. eapply (Good_frame [TMP; hslot i]); eauto; [inv_chain | fr | simpl; intros k [<-|[<-|[]]]; unfold TMP; lia].
  - (* OAssign *)
    destruct (okh H i) eqn:E; [|exact HG]. destruct (src_slot H M s j) as [sj|]; [|exact HG]. apply okh_range in E.
    cbn [snd]. eapply (Good_frame [TMP; hslot i]); eauto; [inv_chain | fr | simpl; intros k [<-|[<-|[]]]; unfold TMP; lia].
  - (* OSwap *)
    destruct (okh H i && okh H j)%bool eqn:E; [|exact HG]. apply andb_true_iff in E. destruct E as [E1 E2].
    apply okh_range in E1. apply okh_range in E2.
    cbn [snd]. eapply (Good_frame [hslot i; hslot j]); eauto; [inv_chain | fr | simpl; intros k [<-|[<-|[]]]; lia].
  - (* OClear *)
    destruct (okh H i) eqn:E; [|exact HG]. apply okh_range in E.
    cbn [snd]. eapply (Good_frame [hslot i]); eauto; [inv_chain | fr | simpl; intros k [<-|[]]; lia].
  - (* ONew *)
    destruct (okty ty); [|exact HG]. cbn [snd]. eapply (Good_frame []); eauto; [inv_chain | fr | simpl; tauto].
  - (* OCDel *)
    destruct (0 <=? k); [|exact HG]. cbn [snd]. eapply (Good_frame []); eauto; [inv_chain | fr | simpl; tauto].
  - (* OAdopt *)
    destruct (okh H i && (0 <=? k))%bool eqn:E; [|exact HG]. apply andb_true_iff in E. destruct E as [E _]. apply okh_range in E.
    cbn [snd]. eapply (Good_frame [hslot i]); eauto; [inv_chain | fr | simpl; intros k0 [<-|[]]; lia].
  - (* OSurrender *)
    destruct (okh H i) eqn:E; [|exact HG]. apply okh_range in E.
    cbn [snd]. eapply (Good_frame [hslot i]); eauto; [inv_chain | fr | simpl; intros k [<-|[]]; lia].
  - (* OSetVal *)
    destruct (okh H i) eqn:E; [|exact HG].
    cbn [snd]. eapply (Good_frame []); eauto; [inv_chain | fr | simpl; tauto].
  - (* OCast *)
    destruct (okh H i); [|exact HG].
    pose proof (cast_state s (hslot i) ty HI) as Hc. destruct (cast s (hslot i) ty) as [[v|] s']; simpl in *; now subst.
  - (* OMapAdd *)
    destruct (okm M n && (0 <=? k))%bool eqn:E; [|exact HG]. apply andb_true_iff in E. destruct E as [E _]. apply okm_range in E.
    destruct (nth_error (cl s) (Z.to_nat k)) as [id|] eqn:Hk; [|exact HG]. cbn [snd].
    set (s1 := set_cl (remove_nth (Z.to_nat k) (cl s)) s).
    assert (Hr : (mslot H n < length (hs s))%nat) by (rewrite HS; unfold mslot; lia).
    destruct (vm_add_frame (Z.to_nat n) (mslot H n) id s1) as (FA & FB & FC).
    split; [|split].
    + apply Inv_set_nvb. eapply Inv_vm_add with (s0 := s); eauto.
      unfold owned, s1; sf. rewrite (remove_nth_perm _ id (cl s) Hk) at 1. apply Permutation_sym, Permutation_middle.
    + unfold Shape in *; sf. rewrite FA. exact HS.
    + intros n' Hn'. unfold set_nvb in Hn'; cbn [nvb] in Hn'. unfold s1, set_cl in Hn'; cbn [nvb] in Hn'.
      apply nth_upd_flag_true in Hn'. destruct Hn' as [[_ ?]|[Hne Hn']]; [discriminate|].
      destruct (HN n' Hn') as (ty & id' & E'). exists ty, id'.
      rewrite slot_set_nvb, FB; [exact E'|]. unfold mslot. lia.
  - (* OMapAddSame *)
    destruct (okm M n && mpres s n)%bool; [|exact HG].
    destruct (slot s (mslot H n)) as [| |ty id] eqn:Hs; try exact HG. cbn [snd].
    rewrite (vm_add_same _ _ _ _ _ Hs). now apply Good_set_pres.
  - (* OMapClear *)
    cbn [snd]. unfold map_clear.
    destruct (fold_clear_fields (fun n => S (H + n)) (seq 0 M) s) as (FA & FB & FC & FD).
    pose proof (Inv_fold_clear (fun n => S (H + n)) (seq 0 M) s HI) as FI.
    split; [|split].
    + apply Inv_set_nvb, Inv_set_pres. exact FI.
    + unfold Shape in *; sf. rewrite FA, fold_upd_length. exact HS.
    + intros n Hn; sf. rewrite nth_repeat_false in Hn. discriminate.
  - (* OMapGet *)
    destruct (okm M n); [|exact HG]. destruct (mpres s n); [|exact HG].
    pose proof (cast_state s (mslot H n) ty HI) as Hc. destruct (cast s (mslot H n) ty) as [[v|] s']; simpl in *; now subst.
  - (* OParse *)
    destruct (okm M n) eqn:E; [|exact HG]. apply okm_range in E.
    assert (Hr : (mslot H n < length (hs s))%nat) by (rewrite HS; unfold mslot; lia).
    destruct (nth (Z.to_nat n) (nvb s) false) eqn:Hb.
    + (* bound *)
      destruct (ok =? 0); [exact HG|]. destruct (HN _ Hb) as (ty & id & Hs). fold (mslot H n) in Hs. rewrite Hs. cbn [snd].
      assert (Hs' : slot (p_setval (mslot H n) v s) (mslot H n) = HHeap ty id).
      { destruct (fr_p_setval [] (mslot H n) v s) as (_ & B & _). rewrite B; auto. }
      rewrite (vm_add_same _ _ _ _ _ Hs').
      apply Good_set_pres.
      eapply (Good_frame [] s); eauto; [inv_chain | fr | simpl; tauto].
    + (* not bound: create, parse, hand over *)
      set (s1 := p_new (name_ty tys n) 0 s).
      destruct (ok =? 0).
      * cbn [snd]. eapply (Good_frame []); eauto; [unfold s1; inv_chain | unfold s1; fr | simpl; tauto].
      * pose proof (last_cl_new (name_ty tys n) 0 s) as Hl. fold s1 in Hl.
        assert (Hc : cl (p_cset (last_cl s1) v s1) = cl s1).
        { unfold p_cset. rewrite Hl. match goal with |- cl (obj_set ?a ?b ?c ?d) = _ => destruct (obj_set_fields a b c d) as (_ & B & _) end. exact B. }
        rewrite Hc, Hl. cbn [snd].
        set (s2 := p_cset (last_cl s1) v s1) in *.
        set (s3 := set_cl (remove_nth (last_cl s1) (cl s1)) s2).
        assert (I2 : Inv s2) by (unfold s2, s1; inv_chain).
        assert (F2 : same_but [] s s2) by (unfold s2, s1; fr).
        destruct F2 as (LA & LB & LC & LD).
        assert (Hr3 : (mslot H n < length (hs s2))%nat) by (rewrite LA; exact Hr).
        destruct (vm_add_frame (Z.to_nat n) (mslot H n) (length (led s)) s3) as (FA & FB & FC).
        split; [|split].
        -- apply Inv_set_nvb. eapply Inv_vm_add with (s0 := s2); eauto.
           unfold owned, s3; sf. fold s2. rewrite Hc. rewrite (remove_nth_perm _ _ (cl s1) Hl) at 1. apply Permutation_sym, Permutation_middle.
        -- unfold Shape in *. unfold set_nvb; cbn [hs]. rewrite FA. unfold s3, set_cl; cbn [hs]. rewrite LA. exact HS.
        -- intros n' Hn'. unfold set_nvb in Hn'; cbn [nvb] in Hn'. unfold s3, set_cl in Hn'; cbn [nvb] in Hn'. rewrite LD in Hn'.
           apply nth_upd_flag_true in Hn'. destruct Hn' as [[-> _]|[Hne Hn']].
           ++ destruct (vm_add_slot (Z.to_nat n) (mslot H n) (length (led s)) s3 Hr3) as (ty & Hty). exists ty, (length (led s)).
              rewrite slot_set_nvb. exact Hty.
           ++ destruct (HN n' Hn') as (ty & id' & E'). exists ty, id'.
              rewrite slot_set_nvb, FB; [|unfold mslot; lia].
              unfold s3. rewrite slot_set_cl, LB; auto.
  - (* OAdoptNull: the holder is cleared (assimilate), nothing is adopted, the way out leaves it empty *)
    destruct (okh H i && okty ty)%bool eqn:E; [|exact HG]. apply andb_true_iff in E. destruct E as [E _]. apply okh_range in E.
    cbn [snd]. eapply (Good_frame [hslot i]); eauto; [inv_chain | fr | simpl; intros k [<-|[]]; lia].
Qed.

Lemma Good_init : Good (init H M).
Proof.
  unfold init. split; [|split].
  - apply Inv_intro; sf; auto.
    + unfold owned; sf. rewrite flat_hids_repeat. simpl. repeat split; auto; try constructor.
      unfold live. destruct id; discriminate.
    + apply Forall_forall. intros h Hin. apply repeat_spec in Hin. subst. exact I.
  - unfold Shape; sf. apply repeat_length.
  - intros n Hn; sf. rewrite nth_repeat_false in Hn. discriminate.
Qed.

Lemma Good_run s ops : Good s -> Good (snd (run_ops H M tys s ops)).
Proof.
  revert s; induction ops as [|o ops IH]; intros s HG; simpl; auto.
  pose proof (Good_step s o HG) as HG1. destruct (step H M tys s o) as [o1 s1]. simpl in HG1.
  specialize (IH s1 HG1). destruct (run_ops H M tys s1 ops) as [o2 s2]. exact IH.
Qed.

(* ---------- when every holder (and the map) is gone ---------- *)
Lemma finish_spec s :
  Good s ->
  let f := finish H M s in
  Inv f /\ cl f = cl s /\ owned f = cl s.
Proof.
  intros (HI & HS & _) f. unfold f, finish.
  destruct (fold_clear_fields (fun i => i) (seq 0 (S (H + M))) s) as (FA & FB & _).
  pose proof (Inv_fold_clear (fun i => i) (seq 0 (S (H + M))) s HI) as FI.
  split; [exact FI|split]; [exact FB|].
  unfold owned. rewrite FA, FB. rewrite all_empty_flat; auto.
  intros k. rewrite fold_upd_nth.
  destruct (existsb (fun n => Nat.eqb k n) (seq 0 (S (H + M)))) eqn:E; auto.
  destruct (Nat.lt_ge_cases k (S (H + M))) as [Hk|Hk].
  - assert (existsb (fun n => Nat.eqb k n) (seq 0 (S (H + M))) = true); [|congruence].
    apply existsb_exists. exists k. split; [apply in_seq; lia|apply Nat.eqb_refl].
  - apply nth_overflow. rewrite HS. lia.
Qed.
End Once.

(* ---------- the whole-history statement ---------- *)
Theorem once_main (H M : nat) (tys : list Z) (ops : list op) :
  let s := snd (run_ops H M tys (init H M) ops) in
  let f := finish H M s in
  err s = false /\ err f = false /\
  NoDup (owned s) /\ (forall id, In id (owned s) <-> live (led s) id = true) /\
  (forall e, In e (led s) -> e_dc e = 0 \/ e_dc e = 1) /\
  cl f = cl s /\
  (forall id e, nth_error (led f) id = Some e ->
     (In id (cl s) /\ e_dc e = 0) \/ (~ In id (cl s) /\ e_dc e = 1)) /\
  leaked f = false.
Proof.
  intros s f.
  assert (HG : Good H M s) by (apply Good_run, Good_init).
  destruct (finish_spec H M s HG) as (FI & FC & FO). fold f in FI, FC, FO.
  pose proof HG as (((Hnd & Hlv & Hdc) & He & _) & _).
  pose proof FI as ((Fnd & Flv & Fdc) & Fe & _). rewrite FO in Flv.
  repeat split; auto; try (now apply Hlv).
  - intros e Hin. unfold dc_ok in Hdc. rewrite Forall_forall in Hdc. now apply Hdc.
  - intros id e Hn. unfold dc_ok in Fdc. rewrite Forall_forall in Fdc.
    destruct (Fdc e (nth_error_In _ _ Hn)) as [H0|H1].
    + left. split; auto. apply Flv. unfold live. rewrite Hn. now apply Z.eqb_eq.
    + right. split; auto. intros Hin. apply Flv in Hin. unfold live in Hin. rewrite Hn in Hin. apply Z.eqb_eq in Hin. lia.
  - unfold leaked. destruct (existsb _ _) eqn:E; auto. exfalso.
    apply existsb_exists in E. destruct E as (id & _ & E). apply andb_true_iff in E. destruct E as [E1 E2].
    apply Flv in E1. rewrite FC in E2. apply negb_true_iff in E2.
    assert (existsb (Nat.eqb id) (cl s) = true); [|congruence].
    apply existsb_exists. exists id. split; auto. apply Nat.eqb_refl.
Qed.
