(* C20 - executable model of Potassco::ProgramOptions::ValueStore / ValueMap::add / NotifiedValue::doParse
   (part A) and of RefCountable / IntrusiveSharedPtr as used for options (part B).

   Part A.  Payload objects (the T's that a ValueStore holds) live in a LEDGER: a list of entries, the
   object's id is its position.  An entry records the object's dynamic type, its value, and how many
   times its destructor ran (0 = live).  Running a destructor on a non-live object, or copying from /
   writing to / reading a non-live object or one of another type, sets the ERR flag.
   A holder (one ValueStore) is
       HEmpty            vptr_ == 0
       HIn   ty id       vptr_ == &OptVTable<T>::vtable_s, the object lives in the bytes of value_
       HHeap ty id       vptr_ == &VTable<T>::vtable_s,    value_ points to the object
   (ty is the type the vtable answers for typeid; id says which object is there).  swap() exchanges
   the two words, so in-place objects are relocated bitwise: the id travels with them.
   All holders sit in one slot list:  slot 0 = the ValueStore temporaries the members create
   (operator='s by-value parameter, ValueStore(obj) in operator=(const T&)), slots 1..H = the client's
   holders, slots H+1..H+M = the entries of one ValueMap (name n -> slot H+1+n, `pres` says whether the
   map has the key).  `cl` = the objects the client owns through a raw pointer (created by the client,
   surrendered to it; adopting removes one).  `nvb n` = the NotifiedValue for name n has handed its
   object over (property_location set, value_.address = the object in the map).               *)
Require Import V.Lib.Base V.Gen.Consts_C20.
Local Open Scope Z_scope.

(* ---------- types of the harness ---------- *)
(* 0..5 instrumented payloads (sizeof 1,4,8,16, string-like 40, vector-like 32), 6 bool, 7 int,
   8 const void*, 9 std::string, 10 std::vector<int>;
   11..13 instrumented payloads of sizeof 9, 12, 15 (bigger than the holder's word, not a multiple of it),
   14 a plain struct of three ints (12), 15 a plain struct of nine chars (9), 16 a plain struct of four ints (16),
   17 a plain struct of two ints (8);
   18..20 Setting (8, in place), Triple (12), Record (40, non-trivial) of the harness's unnamed namespace;
   21..23 the types of the SAME SPELLING (Setting, Triple, Record; 8, 12, 40 bytes) that the harness's second translation
   unit declares in ITS unnamed namespace: distinct C++ types (one per unit, internal linkage) although their
   std::type_info::name() strings are equal.  In the model they are simply further tags: the type test of typed access
   (`cast`: hty (slot s i) =? ty, C++: `v.type() == typeid(T)`) is equality of TYPES, i.e. of tags - never of names;
   the harness static_asserts all these sizes.
   24 PBase (a class with a virtual destructor, 16 bytes), 25 PDerived : PBase (24 bytes): a polymorphic pair, instrumented.
   A holder's type is the type the value was STORED or ADOPTED AS - the T of ValueStore(const T&), operator=(const T&),
   assimilate(T* ), ValueMap::add<T> - i.e. the type of the vtable chosen at compile time (VTable<T>::typeinfo answers &typeid(T),
   ValueStore::type() passes no object), never the dynamic type of the object behind the pointer.  The case alphabet's pseudo-tag
   ADOPT_DERIVED = 26 (op `new`, and a map name's type) is "PBase* p = new PDerived(v)": the client owns the object through a PBase*,
   so in the model it IS a PBase object (`static_ty 26 = 24`, applied where the case is decoded): adopting it gives a holder of type 24,
   value_cast<PBase> yields it, value_cast<PDerived> is a type error, a copy of the holder copy-constructs a PBase from it (clone of
   VTable<PBase>: the copy is a PBase), and clear / the destructor run `delete static_cast<PBase* >(p)`, which destroys the whole object once
   (virtual destructor; the harness counts one destruction per object and checks that the derived part went first).
   Value semantics do not depend on the type: the tag only selects the representation (stored_inplace) and
   whether the harness can report an object id (instr). *)
Definition NTY : Z := 26.
Definition P_BASE : Z := 24.
Definition P_DERIVED : Z := 25.
Definition ADOPT_DERIVED : Z := 26.
(* the type an object created under (pseudo-)tag ty is owned, adopted and stored AS *)
Definition static_ty (ty : Z) : Z := if ty =? ADOPT_DERIVED then P_BASE else ty.
Definition PTR_SIZE : Z := 8.
Definition size_of (ty : Z) : Z :=
  if ty =? 0 then 1 else if ty =? 1 then 4 else if ty =? 2 then 8 else if ty =? 3 then 16 else
  if ty =? 4 then 40 else if ty =? 5 then 32 else if ty =? 6 then 1 else if ty =? 7 then 4 else
  if ty =? 8 then 8 else if ty =? 9 then 32 else if ty =? 10 then 24 else
  if ty =? 11 then 9 else if ty =? 12 then 12 else if ty =? 13 then 15 else
  if ty =? 14 then 12 else if ty =? 15 then 9 else if ty =? 16 then 16 else if ty =? 17 then 8 else
  if ty =? 18 then 8 else if ty =? 19 then 12 else if ty =? 20 then 40 else
  if ty =? 21 then 8 else if ty =? 22 then 12 else if ty =? 23 then 40 else
  if ty =? 24 then 16 else 24.
(* the type of the same spelling in the other translation unit (-1 = none; never the type itself) *)
Definition twin (ty : Z) : Z :=
  if (18 <=? ty) && (ty <=? 20) then ty + 3 else if (21 <=? ty) && (ty <=? 23) then ty - 3 else -1.
(* vtable<T>(): in_place (sizeof T) (sizeof void-pointer), generated from detail/value_store.h *)
Definition stored_inplace (ty : Z) : bool := in_place (size_of ty) PTR_SIZE.
Definition instr (ty : Z) : bool := ((0 <=? ty) && (ty <? 6)) || ((11 <=? ty) && (ty <? 14)) || ((24 <=? ty) && (ty <? 26)).
Definition norm (ty v : Z) : Z := if ty =? 6 then v mod 2 else v mod 1000.

(* ---------- ledger ---------- *)
Record entry := mkE { e_ty : Z; e_val : Z; e_dc : Z }.
Definition ledger := list entry.

Inductive holder := HEmpty | HIn (ty : Z) (id : nat) | HHeap (ty : Z) (id : nat).

Record st := mk { led : ledger; hs : list holder; pres : list bool; nvb : list bool; cl : list nat; err : bool }.

Fixpoint upd {A : Type} (n : nat) (x : A) (l : list A) : list A :=
  match l with
  | [] => []
  | y :: r => match n with O => x :: r | S n' => y :: upd n' x r end
  end.
Definition remove_nth {A : Type} (k : nat) (l : list A) : list A := firstn k l ++ skipn (S k) l.

Definition set_led (l : ledger) (s : st) := mk l (hs s) (pres s) (nvb s) (cl s) (err s).
Definition set_hs (h : list holder) (s : st) := mk (led s) h (pres s) (nvb s) (cl s) (err s).
Definition set_pres (p : list bool) (s : st) := mk (led s) (hs s) p (nvb s) (cl s) (err s).
Definition set_nvb (p : list bool) (s : st) := mk (led s) (hs s) (pres s) p (cl s) (err s).
Definition set_cl (c : list nat) (s : st) := mk (led s) (hs s) (pres s) (nvb s) c (err s).
Definition set_err (s : st) := mk (led s) (hs s) (pres s) (nvb s) (cl s) true.

Definition ty_of (l : ledger) (id : nat) : Z := match nth_error l id with Some e => e_ty e | None => -1 end.
Definition val_of (l : ledger) (id : nat) : Z := match nth_error l id with Some e => e_val e | None => 0 end.
Definition live (l : ledger) (id : nat) : bool := match nth_error l id with Some e => e_dc e =? 0 | None => false end.

(* T::T(v) : a new object *)
Definition obj_new (ty v : Z) (s : st) : st * nat := (set_led (led s ++ [mkE ty v 0]) s, length (led s)).
(* T::~T() on object id *)
Definition obj_destroy (id : nat) (s : st) : st :=
  match nth_error (led s) id with
  | Some e => let s' := set_led (upd id (mkE (e_ty e) (e_val e) (e_dc e + 1)) (led s)) s in
              if e_dc e =? 0 then s' else set_err s'
  | None => set_err s
  end.
(* is object id a live T (T = ty)?  every access through a T* / T& checks this *)
Definition usable (ty : Z) (id : nat) (s : st) : bool :=
  match nth_error (led s) id with Some e => (e_dc e =? 0) && (e_ty e =? ty) | None => false end.
(* T::T(const T& src) *)
Definition obj_copy (ty : Z) (src : nat) (s : st) : st * nat :=
  if usable ty src s then obj_new ty (val_of (led s) src) s else obj_new ty 0 (set_err s).
(* write through a T& *)
Definition obj_set (ty : Z) (id : nat) (v : Z) (s : st) : st :=
  if usable ty id s then set_led (upd id (mkE ty v 0) (led s)) s else set_err s.

(* ---------- holders ---------- *)
Definition hptr (h : holder) : option nat := match h with HEmpty => None | HIn _ id | HHeap _ id => Some id end.
Definition hty (h : holder) : Z := match h with HEmpty => -1 | HIn ty _ | HHeap ty _ => ty end.
Definition rebind (h : holder) (id : nat) : holder :=
  match h with HEmpty => HEmpty | HIn ty _ => HIn ty id | HHeap ty _ => HHeap ty id end.
Definition mk_stored (ty : Z) (id : nat) : holder := if stored_inplace ty then HIn ty id else HHeap ty id.
Definition mk_adopted (ty : Z) (id : nat) : holder := if base_inplace then HIn ty id else HHeap ty id.

Definition slot (s : st) (i : nat) : holder := nth i (hs s) HEmpty.
Definition set_slot (i : nat) (h : holder) (s : st) : st := set_hs (upd i h (hs s)) s.
Definition valid (s : st) (i : nat) : bool := (i <? length (hs s))%nat.

(* ---------- primitives (one C++ member / client action each) ---------- *)
(* client: T* p = new T(v)   (or a T temporary) *)
Definition p_new (ty v : Z) (s : st) : st :=
  let '(s1, id) := obj_new ty (norm ty v) s in set_cl (cl s1 ++ [id]) s1.
(* client: delete p *)
Definition p_cdel (k : nat) (s : st) : st :=
  match nth_error (cl s) k with
  | Some id => obj_destroy id (set_cl (remove_nth k (cl s)) s)
  | None => s
  end.
(* client: *p = v *)
Definition p_cset (k : nat) (v : Z) (s : st) : st :=
  match nth_error (cl s) k with
  | Some id => let ty := ty_of (led s) id in obj_set ty id (norm ty v) s
  | None => s
  end.
(* template <class T> ValueStore::ValueStore(const T& obj) into the raw slot i, obj = client object k *)
Definition p_store (i k : nat) (s : st) : st :=
  if valid s i then
    match slot s i, nth_error (cl s) k with
    | HEmpty, Some src =>
        let ty := ty_of (led s) src in
        let '(s1, id) := obj_copy ty src s in set_slot i (mk_stored ty id) s1
    | _, _ => s
    end
  else s.
(* ValueStore::ValueStore(const ValueStore& other) into the raw slot i, other = slot j *)
Definition p_clone (i j : nat) (s : st) : st :=
  if valid s i then
    match slot s i with
    | HEmpty =>
        match hptr (slot s j) with
        | None => s
        | Some src => let '(s1, id) := obj_copy (hty (slot s j)) src s in set_slot i (rebind (slot s j) id) s1
        end
    | _ => s
    end
  else s.
(* void ValueStore::swap(ValueStore&) *)
Definition p_swap (i j : nat) (s : st) : st :=
  if valid s i && valid s j then
    let a := slot s i in let b := slot s j in set_slot j a (set_slot i b s)
  else s.
(* void ValueStore::clear()  (also ~ValueStore) *)
Definition p_clear (i : nat) (s : st) : st :=
  match hptr (slot s i) with
  | None => s
  | Some id => obj_destroy id (set_slot i HEmpty s)
  end.
(* template <class T> ValueStore& assimilate(T* obj): clear(); vptr_ = base_vtable; value_ = obj *)
Definition vs_assimilate (i : nat) (id : nat) (s : st) : st :=
  let s1 := p_clear i s in set_slot i (mk_adopted (ty_of (led s1) id) id) s1.
(* client: h.assimilate(p) with a pointer the client owns (client object k) *)
Definition p_adopt (i k : nat) (s : st) : st :=
  if valid s i then
    match nth_error (cl s) k with
    | Some id => vs_assimilate i id (set_cl (remove_nth k (cl s)) s)
    | None => s
    end
  else s.
(* client: p = h.extract_raw(); h.surrender();  an in-place object cannot outlive the holder's bytes:
   the client runs its destructor where it is; a heap object becomes a client pointer *)
Definition p_surrender (i : nat) (s : st) : st :=
  match slot s i with
  | HEmpty => s
  | HIn _ id => obj_destroy id (set_slot i HEmpty s)
  | HHeap _ id => let s1 := set_slot i HEmpty s in set_cl (cl s1 ++ [id]) s1
  end.
(* client: value_cast<T>(h) = v  with T = h.type() *)
Definition p_setval (i : nat) (v : Z) (s : st) : st :=
  match hptr (slot s i) with
  | None => s
  | Some id => let ty := hty (slot s i) in obj_set ty id (norm ty v) s
  end.
(* template <class T> bool ValueMap::add(ValueMap* , name, const T* value); name n lives in slot i *)
Definition set_flag (n : nat) (b : bool) (l : list bool) : list bool := upd n b l.
Definition vm_add (n i : nat) (id : nat) (s : st) : st :=
  let s1 := set_pres (set_flag n true (pres s)) s in
  match slot s1 i with
  | HHeap _ id' => if (id' =? id)%nat then s1 else vs_assimilate i id s1
  | _ => vs_assimilate i id s1          (* empty: extract_raw() == 0; in place: the slot's own address *)
  end.

(* typed access: value_cast<T>(const ValueStore* ) : Some value / None = null (bad_value_cast) *)
Definition cast (s : st) (i : nat) (ty : Z) : option Z * st :=
  match hptr (slot s i) with
  | None => (None, s)
  | Some id => if hty (slot s i) =? ty then
                 (if usable ty id s then (Some (val_of (led s) id), s) else (Some (val_of (led s) id), set_err s))
               else (None, s)
  end.

(* ---------- client operations ---------- *)
Inductive op :=
| OConsVal (i ty v : Z)     (* n = new ValueStore(T(v)); delete h[i]; h[i] = n *)
| OConsCopy (i j : Z)       (* n = new ValueStore(src(j)); delete h[i]; h[i] = n *)
| OAssignVal (i ty v : Z)   (* *h[i] = T(v) *)
| OAssign (i j : Z)         (* *h[i] = src(j)   (j = i: self assignment) *)
| OSwap (i j : Z)           (* h[i]->swap( *h[j]) *)
| OClear (i : Z)
| ONew (ty v : Z)           (* client: new T(v) *)
| OCDel (k : Z)             (* client: delete its k-th object *)
| OAdopt (i k : Z)          (* h[i]->assimilate(client object k) *)
| OSurrender (i : Z)
| OSetVal (i v : Z)         (* write through value_cast<T>( *h[i]) *)
| OCast (i ty : Z)
| OMapAdd (n k : Z)         (* ValueMap::add<T>(&map, name n, client object k) *)
| OMapAddSame (n : Z)       (* ValueMap::add<T>(&map, name n, the pointer the entry already holds) *)
| OMapClear
| OMapGet (n ty : Z)
| OParse (n v ok : Z)       (* NotifiedValue<T_n>::parse(name n, text of v) ; ok = 0: the parser rejects *)
| OAdoptNull (i ty how : Z). (* h[i]->assimilate((T* )0); observe (non-empty, type() == typeid(T), extract_raw() == 0); then leave the
                               'adopted null' state by  how mod 4 = 0: clear()  1: surrender()  2: delete h[i] (a fresh holder takes its place)
                               3: *h[i] = ValueStore().  The state 'adopted null' (vptr_ = &VTable<T>::vtable_s, value_ = 0: non-empty, typed,
                               NO object) exists only inside this step: assimilate clears the old content first, no object is constructed or
                               destroyed for the null pointer, and each of the four ways out leaves vptr_ == 0.  (Copying such a holder would
                               run T's copy constructor on *(T* )0 - undefined, not part of the alphabet.) *)

Section Run.
Variable H M : nat.          (* number of client holders / of map names *)
Variable tys : list Z.       (* type of the NotifiedValue registered for name n *)

Definition TMP : nat := 0.
Definition hslot (i : Z) : nat := S (Z.to_nat i).
Definition mslot (n : Z) : nat := S (H + Z.to_nat n).
Definition okh (i : Z) : bool := (0 <=? i) && (i <? Z.of_nat H).
Definition okm (n : Z) : bool := (0 <=? n) && (n <? Z.of_nat M).
Definition okty (ty : Z) : bool := (0 <=? ty) && (ty <? NTY).
Definition mpres (s : st) (n : Z) : bool := nth (Z.to_nat n) (pres s) false.
(* a copy source: a client holder, or (index H + n) the map's entry for name n via operator[] *)
Definition src_slot (s : st) (j : Z) : option nat :=
  if okh j then Some (hslot j)
  else let n := j - Z.of_nat H in if okm n && mpres s n then Some (mslot n) else None.
Definition name_ty (n : Z) : Z := nth (Z.to_nat n) tys 0.

Definition last_cl (s : st) : nat := pred (length (cl s)).

Definition map_clear (s : st) : st :=
  let s1 := fold_left (fun a n => p_clear (S (H + n)) a) (seq 0 M) s in
  set_nvb (repeat false M) (set_pres (repeat false M) s1).

Definition step (s : st) (o : op) : list Z * st :=
  match o with
  | OConsVal i ty v =>
      if okh i && okty ty then
        let s1 := p_new ty v s in let k := last_cl s1 in
        ([], p_swap (hslot i) TMP (p_clear (hslot i) (p_cdel k (p_store TMP k s1))))
      else ([], s)
  | OConsCopy i j =>
      match (if okh i then src_slot s j else None) with
      | Some sj => ([], p_swap (hslot i) TMP (p_clear (hslot i) (p_clone TMP sj s)))
      | None => ([], s)
      end
  | OAssignVal i ty v =>
      if okh i && okty ty then
        let s1 := p_new ty v s in let k := last_cl s1 in
        ([], p_cdel k (p_clear TMP (p_swap TMP (hslot i) (p_store TMP k s1))))
      else ([], s)
  | OAssign i j =>
      match (if okh i then src_slot s j else None) with
      | Some sj => ([], p_clear TMP (p_swap TMP (hslot i) (p_clone TMP sj s)))
      | None => ([], s)
      end
  | OSwap i j => if okh i && okh j then ([], p_swap (hslot i) (hslot j) s) else ([], s)
  | OClear i => if okh i then ([], p_clear (hslot i) s) else ([], s)
  | ONew ty v => if okty ty then ([], p_new ty v s) else ([], s)
  | OCDel k => if 0 <=? k then ([], p_cdel (Z.to_nat k) s) else ([], s)
  | OAdopt i k => if okh i && (0 <=? k) then ([], p_adopt (hslot i) (Z.to_nat k) s) else ([], s)
  | OSurrender i => if okh i then ([], p_surrender (hslot i) s) else ([], s)
  | OSetVal i v => if okh i then ([], p_setval (hslot i) v s) else ([], s)
  | OCast i ty =>
      if okh i then
        match cast s (hslot i) ty with
        | (Some v, s') => ([1; v], s')
        | (None, s') => ([0; 0], s')
        end
      else ([], s)
  | OMapAdd n k =>
      if okm n && (0 <=? k) then
        match nth_error (cl s) (Z.to_nat k) with
        | Some id =>
            let s1 := set_cl (remove_nth (Z.to_nat k) (cl s)) s in
            (* the client registers another value for the name: a NotifiedValue bound to the old one is replaced *)
            ([], set_nvb (set_flag (Z.to_nat n) false (nvb s1)) (vm_add (Z.to_nat n) (mslot n) id s1))
        | None => ([], s)
        end
      else ([], s)
  | OMapAddSame n =>
      if okm n && mpres s n then
        match slot s (mslot n) with
        | HHeap _ id => ([], vm_add (Z.to_nat n) (mslot n) id s)
        | _ => ([], s)
        end
      else ([], s)
  | OMapClear => ([], map_clear s)
  | OMapGet n ty =>
      if okm n then
        if mpres s n then
          match cast s (mslot n) ty with
          | (Some v, s') => ([1; 1; v], s')
          | (None, s') => ([1; 0; 0], s')
          end
        else ([0; 0; 0], s)                       (* operator[] throws UnknownOption *)
      else ([], s)
  | OParse n v ok =>
      if okm n then
        if nth (Z.to_nat n) (nvb s) false then
          (* pv = value_.address (the object in the map); parser writes it; notify -> add(same pointer) *)
          if ok =? 0 then ([0], s) else
          match slot s (mslot n) with
          | HHeap _ id =>
              let s1 := p_setval (mslot n) v s in
              ([1], vm_add (Z.to_nat n) (mslot n) id s1)
          | _ => ([1], set_err s)                  (* the NotifiedValue's address would dangle *)
          end
        else
          (* pv = create() = new T(); Owned guard *)
          let s1 := p_new (name_ty n) 0 s in let k := last_cl s1 in
          if ok =? 0 then ([0], p_cdel k s1) else
          let s2 := p_cset k v s1 in
          match nth_error (cl s2) k with
          | Some id =>
              let s3 := set_cl (remove_nth k (cl s2)) s2 in
              ([1], set_nvb (set_flag (Z.to_nat n) true (nvb s3)) (vm_add (Z.to_nat n) (mslot n) id s3))
          | None => ([1], set_err s2)
          end
      else ([], s)
  | OAdoptNull i ty _ =>
      if okh i && okty ty then ([1; ty; 1], p_clear (hslot i) s) else ([], s)
  end.

(* ---------- observation ---------- *)
Definition oid (l : ledger) (id : nat) : Z :=
  if instr (ty_of l id) then Z.of_nat (length (filter (fun e => instr (e_ty e)) (firstn id l))) else -1.
Definition hdump (l : ledger) (h : holder) : list Z :=
  match h with
  | HEmpty => [-1; 0; 0; -1]
  | HIn ty id => [ty; val_of l id; 1; oid l id]
  | HHeap ty id => [ty; val_of l id; 0; oid l id]
  end.
Fixpoint live_dump (l : ledger) (k : Z) : list Z :=
  match l with
  | [] => []
  | e :: r => if instr (e_ty e) then (if e_dc e =? 0 then [k] else []) ++ live_dump r (k + 1) else live_dump r k
  end.
Definition dtor_count (l : ledger) : Z := fold_left (fun a e => if instr (e_ty e) then a + e_dc e else a) l 0.
Definition ctor_count (l : ledger) : Z := Z.of_nat (length (filter (fun e => instr (e_ty e)) l)).
Definition dump (s : st) : list Z :=
  flat_map (fun i => hdump (led s) (slot s (S i))) (seq 0 H)
  ++ flat_map (fun n => [b2z (nth n (pres s) false); b2z (nth n (nvb s) false)] ++ hdump (led s) (slot s (S (H + n)))) (seq 0 M)
  ++ [Z.of_nat (length (cl s))] ++ flat_map (fun id => [ty_of (led s) id; val_of (led s) id; oid (led s) id]) (cl s)
  ++ (let lv := live_dump (led s) 0 in [Z.of_nat (length lv)] ++ lv)
  ++ [dtor_count (led s); ctor_count (led s); b2z (err s)].

Fixpoint run_ops (s : st) (ops : list op) : list Z * st :=
  match ops with
  | [] => ([], s)
  | o :: r => let '(o1, s1) := step s o in let '(o2, s2) := run_ops s1 r in (o1 ++ dump s1 ++ o2, s2)
  end.

Definition init : st := mk [] (repeat HEmpty (S (H + M))) (repeat false M) (repeat false M) [] false.

(* all holders and the map go away *)
Definition finish (s : st) : st := fold_left (fun a i => p_clear i a) (seq 0 (S (H + M))) s.
(* an object is leaked if it is live and nobody (the client) can still delete it *)
Definition leaked (s : st) : bool :=
  existsb (fun id => live (led s) id && negb (existsb (Nat.eqb id) (cl s))) (seq 0 (length (led s))).

Definition run (ops : list op) : list Z :=
  let '(outs, s) := run_ops init ops in
  let f := finish s in
  outs ++ (let lv := live_dump (led f) 0 in [Z.of_nat (length lv)] ++ lv) ++ [dtor_count (led f); ctor_count (led f); b2z (err f); b2z (leaked f)].
End Run.

(* ---------- case decoding (part A):  [0; H; M; t_0 .. t_{M-1}; ops...] ---------- *)
Fixpoint decode_ops (fuel : nat) (l : list Z) : list op :=
  match fuel with
  | O => []
  | S f =>
      match l with
      | 1 :: i :: ty :: v :: r => OConsVal i ty v :: decode_ops f r
      | 2 :: i :: j :: r => OConsCopy i j :: decode_ops f r
      | 3 :: i :: ty :: v :: r => OAssignVal i ty v :: decode_ops f r
      | 4 :: i :: j :: r => OAssign i j :: decode_ops f r
      | 5 :: i :: j :: r => OSwap i j :: decode_ops f r
      | 6 :: i :: r => OClear i :: decode_ops f r
      | 7 :: ty :: v :: r => ONew (static_ty ty) v :: decode_ops f r     (* 26: new PDerived(v) owned through a PBase* = a PBase *)
      | 8 :: k :: r => OCDel k :: decode_ops f r
      | 9 :: i :: k :: r => OAdopt i k :: decode_ops f r
      | 10 :: i :: r => OSurrender i :: decode_ops f r
      | 11 :: i :: v :: r => OSetVal i v :: decode_ops f r
      | 12 :: i :: ty :: r => OCast i ty :: decode_ops f r
      | 13 :: n :: k :: r => OMapAdd n k :: decode_ops f r
      | 14 :: n :: r => OMapAddSame n :: decode_ops f r
      | 15 :: r => OMapClear :: decode_ops f r
      | 16 :: n :: ty :: r => OMapGet n ty :: decode_ops f r
      | 17 :: n :: v :: ok :: r => OParse n v ok :: decode_ops f r
      | 18 :: i :: ty :: how :: r => OAdoptNull i (static_ty ty) how :: decode_ops f r   (* 26: (PBase* )0 *)
      | _ => []
      end
  end.

Definition MAX_OPS : nat := 120.   (* the 1-byte payload keeps its object id in 8 bits: at most 2 objects per op *)
Definition MAX_H : Z := 8.
Definition MAX_M : Z := 8.

Definition run_case_a (c : list Z) : list Z :=
  match c with
  | h :: m :: r =>
      if (0 <=? h) && (h <=? MAX_H) && (0 <=? m) && (m <=? MAX_M) then
        (* a name of pseudo-type 26: NotifiedValue<PBase> whose creator returns a new PDerived (as PBase* ) *)
        let tys := map (fun t => static_ty (t mod (NTY + 1))) (firstn (Z.to_nat m) r) in
        let ops := decode_ops MAX_OPS (skipn (Z.to_nat m) r) in
        run (Z.to_nat h) (Z.to_nat m) tys ops
      else [-999]
  | _ => [-999]
  end.

(* ======================================================================================== *)
(* Part B.  Option : RefCountable, shared through IntrusiveSharedPtr<Option>.
   opts: per option (refCount_, number of times ~Option ran); psl: the client's SharedOptPtr
   variables (None = null); conts: containers of SharedOptPtr (OptionGroup::options_,
   ParsedValues::parsed_, OptionContext::options_ + groups_[k].options_), as lists of option ids,
   followed by ONE extra entry (index C_): the client's own pool of handle copies
   (std::vector<SharedOptPtr>, newest handle first).

   The counter has the range of its declared C++ type (Consts_C20: refcount_min / refcount_max, read from
   refcountable.h): every value written to refCount_ goes through rc_store, the value release() returns
   through the range of release()'s return type, what refCount() / count() report through theirs. *)
Record opt := mkO { o_rc : Z; o_dc : Z }.
Record rst := mkR { opts : list opt; psl : list (option nat); conts : list (list nat); rerr : bool }.

Definition r_set_opts (o : list opt) (s : rst) := mkR o (psl s) (conts s) (rerr s).
Definition r_set_psl (p : list (option nat)) (s : rst) := mkR (opts s) p (conts s) (rerr s).
Definition r_set_conts (c : list (list nat)) (s : rst) := mkR (opts s) (psl s) c (rerr s).
Definition r_err (s : rst) := mkR (opts s) (psl s) (conts s) true.

(* conversion of v to an integer type with range lo..hi (two's complement / modular) *)
Definition in_range (lo hi v : Z) : bool := (lo <=? v) && (v <=? hi).
Definition conv (lo hi v : Z) : Z := if in_range lo hi v then v else lo + (v - lo) mod (hi - lo + 1).
(* ++refCount_ / --refCount_ : the value that ends up in the member, and whether computing it was undefined
   (signed type of rank >= int leaving its range; narrower and unsigned types wrap) *)
Definition rc_store (v : Z) : Z * bool :=
  (conv refcount_min refcount_max v, refcount_overflow_undefined && negb (in_range refcount_min refcount_max v)).
Definition rc_rel (v : Z) : Z := conv refcount_rel_min refcount_rel_max v.          (* what release() returns *)
Definition rc_obs (v : Z) : Z := conv refcount_rc_min refcount_rc_max v.            (* what refCount() returns *)
Definition rc_cnt (v : Z) : Z := conv refcount_cnt_min refcount_cnt_max (rc_obs v). (* what count() returns *)

(* ptr_->addRef() *)
Definition add_ref (o : nat) (s : rst) : rst :=
  match nth_error (opts s) o with
  | Some x => let '(v, ub) := rc_store (o_rc x + 1) in
              let s' := r_set_opts (upd o (mkO v (o_dc x)) (opts s)) s in
              if (o_dc x =? 0) && negb ub then s' else r_err s'
  | None => r_err s
  end.
(* if (ptr_ && ptr_->release() == 0) delete ptr_ *)
Definition release (o : nat) (s : rst) : rst :=
  match nth_error (opts s) o with
  | Some x =>
      let '(v, ub) := rc_store (o_rc x - 1) in
      if o_dc x =? 0 then
        let s' := if rc_rel v =? 0 then r_set_opts (upd o (mkO 0 1) (opts s)) s
                  else r_set_opts (upd o (mkO v 0) (opts s)) s in
        if ub then r_err s' else s'
      else r_err (r_set_opts (upd o (mkO v (o_dc x + 1)) (opts s)) s)
  | None => r_err s
  end.
Definition add_ref_o (p : option nat) (s : rst) := match p with Some o => add_ref o s | None => s end.
Definition release_o (p : option nat) (s : rst) := match p with Some o => release o s | None => s end.
Definition pslot (s : rst) (i : nat) : option nat := nth i (psl s) None.

Inductive rop :=
| RNew (i : Z)          (* p[i] = SharedOptPtr(new Option(..)) *)
| RAssign (i j : Z)     (* p[i] = p[j] *)
| RCopyCons (i j : Z)   (* n = new SharedOptPtr(p[j]); delete &p[i]; *)
| RReset (i : Z)
| RSwap (i j : Z)
| RPush (c i : Z)       (* container c takes a copy of p[i] *)
| RDrop (c : Z)         (* container c is destroyed (and a fresh one takes its place) *)
| RPushN (c i k : Z)    (* k times: container c (or, c = C_, the client's handle pool) takes a copy of p[i] *)
| RPopN (k : Z).        (* k times: the pool's newest handle is destroyed (pop_back) *)

(* container kinds by index: 0 OptionGroup::addOption, 1 ParsedValues::add, 2 OptionContext::add(group) *)
Definition ckind (c : Z) : Z := c mod 3.
(* largest k of the bulk operations (a case is a line of text; the harness creates k real handles) *)
Definition BULK_MAX : Z := 100000.
(* k copies of o, without unary numbers *)
Definition repeatN (o : nat) (k : N) : list nat := N.iter k (cons o) [].
(* length as a binary number *)
Definition lenZ {A : Type} (l : list A) : Z := fold_left (fun a _ => a + 1) l 0.

Section RunB.
Variable S_ C_ : nat.
Definition okp (i : Z) : bool := (0 <=? i) && (i <? Z.of_nat S_).
Definition okc (c : Z) : bool := (0 <=? c) && (c <? Z.of_nat C_).

(* OptionContext::add(group): insertOption throws DuplicateOption when the name is known;
   otherwise the option is pushed to options_ and to groups_[k].options_ *)
Definition push_ctx (c : nat) (o : nat) (s : rst) : rst :=
  let cur := nth c (conts s) [] in
  if existsb (Nat.eqb o) cur then s
  else r_set_conts (upd c (cur ++ [o; o]) (conts s)) (add_ref o (add_ref o s)).
(* pool.pop_back() *)
Definition pop1 (s : rst) : rst :=
  match nth C_ (conts s) [] with
  | [] => s
  | o :: r => release o (r_set_conts (upd C_ r (conts s)) s)
  end.

Definition rstep (s : rst) (o : rop) : rst :=
  match o with
  | RNew i =>
      if okp i then
        let n := length (opts s) in
        let s1 := r_set_opts (opts s ++ [mkO rc_init 0]) s in           (* temporary SharedOptPtr(new Option) *)
        let s2 := add_ref n s1 in                                       (* operator=: other.addRef() *)
        let s3 := release_o (pslot s2 (Z.to_nat i)) s2 in               (*            this->release() *)
        let s4 := r_set_psl (upd (Z.to_nat i) (Some n) (psl s3)) s3 in
        release n s4                                                    (* ~temporary *)
      else s
  | RAssign i j | RCopyCons i j =>
      if okp i && okp j then
        let pj := pslot s (Z.to_nat j) in
        let s1 := add_ref_o pj s in
        let s2 := release_o (pslot s1 (Z.to_nat i)) s1 in
        r_set_psl (upd (Z.to_nat i) pj (psl s2)) s2
      else s
  | RReset i =>
      if okp i then
        let s1 := release_o (pslot s (Z.to_nat i)) s in
        r_set_psl (upd (Z.to_nat i) None (psl s1)) s1
      else s
  | RSwap i j =>
      if okp i && okp j then
        let a := pslot s (Z.to_nat i) in let b := pslot s (Z.to_nat j) in
        r_set_psl (upd (Z.to_nat j) a (upd (Z.to_nat i) b (psl s))) s
      else s
  | RPush c i =>
      if okc c && okp i then
        match pslot s (Z.to_nat i) with
        | Some o =>
            let cur := nth (Z.to_nat c) (conts s) [] in
            if ckind c =? 2 then push_ctx (Z.to_nat c) o s
            else r_set_conts (upd (Z.to_nat c) (cur ++ [o]) (conts s)) (add_ref o s)
        | None => s
        end
      else s
  | RDrop c =>
      if okc c then
        let cur := nth (Z.to_nat c) (conts s) [] in
        r_set_conts (upd (Z.to_nat c) [] (conts s)) (fold_left (fun a o => release o a) cur s)
      else s
  | RPushN c i k =>
      if (okc c || (c =? Z.of_nat C_)) && okp i && (0 <=? k) && (k <=? BULK_MAX) then
        match pslot s (Z.to_nat i) with
        | Some o =>
            let cur := nth (Z.to_nat c) (conts s) [] in
            if c =? Z.of_nat C_ then
              r_set_conts (upd (Z.to_nat c) (repeatN o (Z.to_N k) ++ cur) (conts s)) (N.iter (Z.to_N k) (add_ref o) s)
            else if ckind c =? 2 then
              (* the first add registers the option (if it is not known yet), every further one is refused *)
              if k =? 0 then s else push_ctx (Z.to_nat c) o s
            else r_set_conts (upd (Z.to_nat c) (cur ++ repeatN o (Z.to_N k)) (conts s)) (N.iter (Z.to_N k) (add_ref o) s)
        | None => s
        end
      else s
  | RPopN k =>
      if (0 <=? k) && (k <=? BULK_MAX) then N.iter (Z.to_N k) pop1 s else s
  end.

(* per option: alive, refCount(), destructor runs; per client pointer: the option it points to and what count() reports
   (-1: null / the option is gone); container sizes (pool last); error flag *)
Definition rdump (s : rst) : list Z :=
  flat_map (fun x => [b2z (o_dc x =? 0); if o_dc x =? 0 then rc_obs (o_rc x) else -1; o_dc x]) (opts s)
  ++ flat_map (fun p => match p with
                        | Some o => [Z.of_nat o; match nth_error (opts s) o with
                                                 | Some x => if o_dc x =? 0 then rc_cnt (o_rc x) else -1
                                                 | None => -1 end]
                        | None => [-1; 0] end) (psl s)
  ++ map (fun c => lenZ c) (conts s)
  ++ [b2z (rerr s)].

Fixpoint rrun_ops (s : rst) (ops : list rop) : list Z * rst :=
  match ops with
  | [] => ([], s)
  | o :: r => let s1 := rstep s o in let '(o2, s2) := rrun_ops s1 r in (rdump s1 ++ o2, s2)
  end.
Definition rinit : rst := mkR [] (repeat None S_) (repeat [] (S C_)) false.
(* everything goes away: the client's pointers, then the containers and the pool *)
Definition rfinish (s : rst) : rst :=
  let s1 := fold_left (fun a p => release_o p a) (psl s) s in
  let s2 := fold_left (fun a o => release o a) (concat (conts s1)) s1 in
  mkR (opts s2) (repeat None S_) (repeat [] (S C_)) (rerr s2).
Definition rrun (ops : list rop) : list Z :=
  let '(outs, s) := rrun_ops rinit ops in
  let f := rfinish s in outs ++ rdump f ++ [b2z (existsb (fun x => o_dc x =? 0) (opts f))].   (* last: an option outlived every holder *)
End RunB.

Fixpoint decode_rops (fuel : nat) (l : list Z) : list rop :=
  match fuel with
  | O => []
  | S f =>
      match l with
      | 1 :: i :: r => RNew i :: decode_rops f r
      | 2 :: i :: j :: r => RAssign i j :: decode_rops f r
      | 3 :: i :: j :: r => RCopyCons i j :: decode_rops f r
      | 4 :: i :: r => RReset i :: decode_rops f r
      | 5 :: i :: j :: r => RSwap i j :: decode_rops f r
      | 6 :: c :: i :: r => RPush c i :: decode_rops f r
      | 7 :: c :: r => RDrop c :: decode_rops f r
      | 8 :: c :: i :: k :: r => RPushN c i k :: decode_rops f r
      | 9 :: k :: r => RPopN k :: decode_rops f r
      | _ => []
      end
  end.

Definition run_case_b (c : list Z) : list Z :=
  match c with
  | s :: k :: r =>
      if (0 <=? s) && (s <=? 8) && (0 <=? k) && (k <=? 9) then rrun (Z.to_nat s) (Z.to_nat k) (decode_rops MAX_OPS r) else [-999]
  | _ => [-999]
  end.

Definition run_case (c : list Z) : list Z :=
  match c with
  | 0 :: r => run_case_a r
  | 1 :: r => run_case_b r
  | _ => [-999]
  end.
