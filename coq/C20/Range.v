(* C20 part B - the obligation that ties the range of the modelled reference counter to what the property needs.
   Kept in a file of its own: when refcountable.h narrows a type, exactly this lemma (and Properties_C20.v, which states it as
   c20_refcount_range_sufficient) stops compiling, while the conditional ownership theorems of C20/Refcount.v - generic in the range -
   still check. *)
Require Import V.Lib.Base V.Gen.Consts_C20 V.C20.Model V.C20.Refcount.
Local Open Scope Z_scope.

(* The property quantifies over every sharing pattern a program can build.  A holder is a live SharedOptPtr object: at least
   one pointer (8 bytes on the LP64 target the harness is built for; an entry of ParsedValues is 40).  2^31 simultaneous holders of one
   option therefore occupy >= 16 GiB in handle words alone (and a growing std::vector that copies its 2^30 handles needs the same
   again): that is "exhaustion of memory" scale, which the property does not cover.  Every smaller number of holders is inside
   the counter's range iff the declared types are at least as wide as int - a narrower counter type breaks this lemma. *)
Lemma refcount_range_sufficient : 2 ^ 31 - 1 <= refcount_bound.
Proof. vm_compute. discriminate. Qed.

(* non-vacuity of the hypothesis of refcount_main at the magnitude in question (needs a range beyond 2^16, hence in this file) *)
(* one option shared by a variable, a group, a ParsedValues object with 70000 entries for it and 300 further handle copies,
   200 of which are dropped one by one, then the parse result goes away, then the variable: the hypothesis holds in every state *)
Definition many_holders : list rop :=
  [RNew 0; RPush 0 0; RPushN 1 0 70000; RPushN 2 0 300; RPopN 200; RDrop 1; RReset 0].

Lemma many_holders_within :
  hist_within 1 2 (rinit 1 2) many_holders /\
  holders (snd (rrun_ops 1 2 (rinit 1 2) (firstn 4 many_holders))) 0 = 70302 /\
  holders (snd (rrun_ops 1 2 (rinit 1 2) many_holders)) 0 = 101.
Proof. split; [apply hist_withinb_ok; vm_compute; reflexivity|split; vm_compute; reflexivity]. Qed.
