(* C20 - the abstract step (composition of member calls, with the temporary holder of operator=) equals the
   client-level specification `sstep`; frame property of `sstep` (independence of copies). *)
Require Import V.Lib.Base V.Gen.Consts_C20 V.C20.Model V.C20.Lists V.C20.Spec.
Local Open Scope Z_scope.

Ltac ua := unfold a_new, a_cdel, a_cset, a_store, a_clone, a_swap, a_clear, a_adopt, a_surrender, a_setval, a_vm_add,
                  aset, aset_cl, aset_pres, aset_nvb, avalid, aslot, a_last in *; cbn [a_hs a_pres a_nvb a_cl] in *.

Section Client.
Variables (H M : nat) (tys : list Z).

Definition AWf (a : ast) : Prop := length (a_hs a) = S (H + M) /\ aslot a TMP = None.

Lemma okh_range' i : okh H i = true -> (hslot i <= H)%nat /\ (0 < hslot i)%nat.
Proof. unfold okh, hslot. intros Hk. apply andb_true_iff in Hk. destruct Hk as [A B]. apply Z.leb_le in A. apply Z.ltb_lt in B. lia. Qed.
Lemma okm_range' n : okm M n = true -> (Z.to_nat n < M)%nat.
Proof. unfold okm. intros Hk. apply andb_true_iff in Hk. destruct Hk as [A B]. apply Z.leb_le in A. apply Z.ltb_lt in B. lia. Qed.

Lemma a_src_range a j sj : a_src H M a j = Some sj -> (0 < sj <= H + M)%nat.
Proof.
  unfold a_src. destruct (okh H j) eqn:E.
  - intros [= <-]. apply okh_range' in E. lia.
  - destruct (okm M (j - Z.of_nat H)) eqn:E2; simpl; [|discriminate]. destruct (nth _ _ _); [|discriminate].
    intros [= <-]. apply okm_range' in E2. unfold mslot. lia.
Qed.

Lemma ltb_true a b : (a < b)%nat -> (a <? b)%nat = true.
Proof. intros. now apply Nat.ltb_lt. Qed.

Lemma upd0_none (hs : list aval) : nth 0 hs None = None -> upd 0 None hs = hs.
Proof. intros H0. transitivity (upd 0 (nth 0 hs None) hs); [now rewrite H0|apply upd_nth_id]. Qed.

(* ---------- algebra of aset ---------- *)
Lemma aset_same i x y a : aset i x (aset i y a) = aset i x a.
Proof. destruct a; ua. f_equal. apply upd_upd_same. Qed.
Lemma aset_comm i j x y a : i <> j -> aset i x (aset j y a) = aset j y (aset i x a).
Proof. intros Hn. destruct a; ua. f_equal. now apply upd_comm. Qed.
Lemma aset_tmp_none a : aslot a 0 = None -> aset 0 None a = a.
Proof. destruct a; ua. intros H0. f_equal. now apply upd0_none. Qed.
Lemma aslot_aset_eq i x a : avalid a i = true -> aslot (aset i x a) i = x.
Proof. destruct a; ua. intros Hv. apply nth_upd_eq. now apply Nat.ltb_lt. Qed.
Lemma aslot_aset_neq i k x a : i <> k -> aslot (aset i x a) k = aslot a k.
Proof. destruct a; ua. intros Hn. now apply nth_upd_neq. Qed.
Lemma avalid_aset i x a k : avalid (aset i x a) k = avalid a k.
Proof. destruct a; ua. now rewrite upd_length. Qed.
Lemma a_cl_aset i x a : a_cl (aset i x a) = a_cl a.
Proof. reflexivity. Qed.

Lemma a_store_tmp k ty v a :
  aslot a 0 = None -> avalid a 0 = true -> nth_error (a_cl a) k = Some (ty, v) ->
  a_store 0 k a = aset 0 (Some (stored_inplace ty, ty, v)) a.
Proof. intros H0 Hv Hk. unfold a_store. now rewrite Hv, H0, Hk. Qed.
Lemma a_clone_tmp j a : aslot a 0 = None -> avalid a 0 = true -> a_clone 0 j a = aset 0 (aslot a j) a.
Proof. intros H0 Hv. unfold a_clone. rewrite Hv, H0. destruct (aslot a j); auto. now rewrite aset_tmp_none. Qed.
Lemma a_swap_valid i j a : avalid a i = true -> avalid a j = true -> a_swap i j a = aset j (aslot a i) (aset i (aslot a j) a).
Proof. intros Hi Hj. unfold a_swap. now rewrite Hi, Hj. Qed.
Lemma a_cdel_aset k i x a : a_cdel k (aset i x a) = aset i x (a_cdel k a).
Proof. unfold a_cdel. rewrite a_cl_aset. destruct (nth_error (a_cl a) k); reflexivity. Qed.
Lemma a_cdel_new ty v a : a_cdel (a_last (a_new ty v a)) (a_new ty v a) = a.
Proof.
  destruct a as [hs pr nv cl]. unfold a_cdel, a_last, a_new, aset_cl; cbn [a_hs a_pres a_nvb a_cl].
  rewrite pred_length_app, nth_error_last_app. cbn [a_hs a_pres a_nvb a_cl]. now rewrite remove_last.
Qed.
Lemma a_new_last ty v a : nth_error (a_cl (a_new ty v a)) (a_last (a_new ty v a)) = Some (ty, norm ty v).
Proof. destruct a as [hs pr nv cl]. unfold a_last, a_new, aset_cl; cbn [a_cl]. rewrite pred_length_app. apply nth_error_last_app. Qed.
Lemma aslot_new ty v a k : aslot (a_new ty v a) k = aslot a k.
Proof. reflexivity. Qed.
Lemma avalid_new ty v a k : avalid (a_new ty v a) k = avalid a k.
Proof. reflexivity. Qed.
Lemma aset_new i x ty v a : aset i x (a_new ty v a) = a_new ty v (aset i x a).
Proof. reflexivity. Qed.

(* the temporary holder is invisible: copy into slot 0, swap with slot i, drop slot 0 *)
Lemma via_tmp_assign i x a :
  aslot a 0 = None -> avalid a 0 = true -> avalid a i = true -> (0 < i)%nat ->
  a_clear 0 (a_swap 0 i (aset 0 x a)) = aset i x a.
Proof.
  intros H0 V0 Vi Hi. rewrite a_swap_valid by (now rewrite avalid_aset).
  rewrite aslot_aset_eq by auto. rewrite aslot_aset_neq by lia. unfold a_clear.
  rewrite aset_same. rewrite (aset_comm 0 i) by lia. rewrite aset_same. now rewrite aset_tmp_none.
Qed.
Lemma via_tmp_cons i x a :
  aslot a 0 = None -> avalid a 0 = true -> avalid a i = true -> (0 < i)%nat ->
  a_swap i 0 (a_clear i (aset 0 x a)) = aset i x a.
Proof.
  intros H0 V0 Vi Hi. unfold a_clear. rewrite a_swap_valid by (now rewrite !avalid_aset).
  rewrite aslot_aset_eq by (now rewrite avalid_aset). rewrite aslot_aset_neq by lia. rewrite aslot_aset_eq by auto.
  rewrite aset_same. rewrite (aset_comm 0 i) by lia. rewrite aset_same. now rewrite aset_tmp_none.
Qed.

Lemma astep_sstep a o : AWf a -> snd (astep H M tys a o) = sstep H M tys a o.
Proof.
  intros (HL & HT). destruct a as [hs pr nv cl]. unfold aslot, TMP in HT; cbn [a_hs] in HL, HT.
  assert (V0 : (0 <? length hs)%nat = true) by (apply ltb_true; lia).
  destruct o; cbn [astep sstep]; try reflexivity.
  - (* OConsVal *)
    destruct (okh H i && okty ty)%bool eqn:E; [|reflexivity]. apply andb_true_iff in E. destruct E as [E _]. apply okh_range' in E.
    cbn [snd]. unfold TMP. set (a := mkA hs pr nv cl) in *.
    assert (H0 : aslot a 0 = None) by exact HT.
    assert (A0 : avalid a 0 = true) by exact V0.
    assert (Ai : avalid a (hslot i) = true) by (apply ltb_true; unfold a; cbn [a_hs]; lia).
    rewrite (a_store_tmp _ ty (norm ty v)); auto using a_new_last.
    rewrite a_cdel_aset, a_cdel_new. unfold stored. apply via_tmp_cons; auto. lia.
  - (* OConsCopy *)
    destruct (if okh H i then a_src H M _ j else None) as [sj|] eqn:E; [|reflexivity].
    destruct (okh H i) eqn:Ei; [|discriminate]. apply okh_range' in Ei. apply a_src_range in E.
    cbn [snd]. unfold TMP. set (a := mkA hs pr nv cl) in *.
    assert (H0 : aslot a 0 = None) by exact HT.
    assert (A0 : avalid a 0 = true) by exact V0.
    assert (Ai : avalid a (hslot i) = true) by (apply ltb_true; unfold a; cbn [a_hs]; lia).
    rewrite a_clone_tmp by auto. apply via_tmp_cons; auto. lia.
  - (* OAssignVal *)
    destruct (okh H i && okty ty)%bool eqn:E; [|reflexivity]. apply andb_true_iff in E. destruct E as [E _]. apply okh_range' in E.
    cbn [snd]. unfold TMP. set (a := mkA hs pr nv cl) in *.
    assert (H0 : aslot a 0 = None) by exact HT.
    assert (A0 : avalid a 0 = true) by exact V0.
    assert (Ai : avalid a (hslot i) = true) by (apply ltb_true; unfold a; cbn [a_hs]; lia).
    rewrite (a_store_tmp _ ty (norm ty v)); auto using a_new_last.
    rewrite via_tmp_assign; [|exact H0|exact A0|exact Ai|lia].
    rewrite a_cdel_aset, a_cdel_new. reflexivity.
  - (* OAssign *)
    destruct (if okh H i then a_src H M _ j else None) as [sj|] eqn:E; [|reflexivity].
    destruct (okh H i) eqn:Ei; [|discriminate]. apply okh_range' in Ei. apply a_src_range in E.
    cbn [snd]. unfold TMP. set (a := mkA hs pr nv cl) in *.
    assert (H0 : aslot a 0 = None) by exact HT.
    assert (A0 : avalid a 0 = true) by exact V0.
    assert (Ai : avalid a (hslot i) = true) by (apply ltb_true; unfold a; cbn [a_hs]; lia).
    rewrite a_clone_tmp by auto. apply via_tmp_assign; auto. lia.
  - (* OSwap *)
    destruct (okh H i && okh H j)%bool eqn:E; [|reflexivity]. apply andb_true_iff in E. destruct E as [E1 E2].
    apply okh_range' in E1. apply okh_range' in E2. cbn [snd]. ua.
    rewrite !ltb_true by lia. reflexivity.
  - destruct (okh H i); reflexivity.
  - destruct (okty ty); reflexivity.
  - destruct (0 <=? k); reflexivity.
  - destruct (okh H i && (0 <=? k))%bool; reflexivity.
  - destruct (okh H i); reflexivity.
  - destruct (okh H i); reflexivity.
  - destruct (okh H i); [|reflexivity]. destruct (a_cast _ _ _); reflexivity.
  - destruct (okm M n); [|reflexivity]. destruct (nth (Z.to_nat n) _ false); [|reflexivity]. destruct (a_cast _ _ _); reflexivity.
  - destruct (okh H i && okty ty)%bool; reflexivity.
Qed.

(* ---------- frame: an operation changes only the holders it names ---------- *)
Definition targets (o : op) : list Z :=
  match o with
  | OConsVal i _ _ | OConsCopy i _ | OAssignVal i _ _ | OAssign i _ | OClear i | OAdopt i _ | OSurrender i | OSetVal i _ | OAdoptNull i _ _ => [i]
  | OSwap i j => [i; j]
  | _ => []
  end.

Definition hsame (p : nat) (a a' : ast) : Prop := aslot a' p = aslot a p /\ length (a_hs a') = length (a_hs a).

Lemma hsame_refl p a : hsame p a a.
Proof. split; auto. Qed.
Lemma hsame_trans p a b c : hsame p a b -> hsame p b c -> hsame p a c.
Proof. intros (A & B) (C & D). split; congruence. Qed.
Lemma hsame_hs p a a' : a_hs a' = a_hs a -> hsame p a a'.
Proof. intros E. unfold hsame, aslot. now rewrite E. Qed.
Lemma hsame_aset p i x a : i <> p -> hsame p a (aset i x a).
Proof. intros Hn. split; [now apply aslot_aset_neq|]. destruct a; ua. apply upd_length. Qed.
Lemma hsame_cdel p k a : hsame p a (a_cdel k a).
Proof. unfold a_cdel. destruct (nth_error (a_cl a) k); [apply hsame_hs|apply hsame_refl]; reflexivity. Qed.
Lemma hsame_cset p k v a : hsame p a (a_cset k v a).
Proof. unfold a_cset. destruct (nth_error (a_cl a) k) as [[ty w]|]; [apply hsame_hs|apply hsame_refl]; reflexivity. Qed.
Lemma hsame_adopt p i k a : i <> p -> hsame p a (a_adopt i k a).
Proof.
  intros Hn. unfold a_adopt. destruct (avalid a i); [|apply hsame_refl].
  destruct (nth_error (a_cl a) k) as [[ty w]|]; [|apply hsame_refl].
  eapply hsame_trans; [|apply hsame_aset; auto]. apply hsame_hs. reflexivity.
Qed.
Lemma hsame_surrender p i a : i <> p -> hsame p a (a_surrender i a).
Proof.
  intros Hn. unfold a_surrender. destruct (aslot a i) as [[[r ty] w]|]; [|apply hsame_refl].
  destruct r; [now apply hsame_aset|]. eapply hsame_trans; [apply hsame_aset; eauto|]. apply hsame_hs. reflexivity.
Qed.
Lemma hsame_setval p i v a : i <> p -> hsame p a (a_setval i v a).
Proof. intros Hn. unfold a_setval. destruct (aslot a i) as [[[r ty] w]|]; [now apply hsame_aset|apply hsame_refl]. Qed.
Lemma hsame_vm_add p n i x a : i <> p -> hsame p a (a_vm_add n i x a).
Proof. intros Hn. unfold a_vm_add. eapply hsame_trans; [|apply hsame_aset; auto]. apply hsame_hs. reflexivity. Qed.
Lemma hsame_fold_clear p (g : nat -> nat) l a :
  (forall n, g n <> p) -> hsame p a (fold_left (fun x n => a_clear (g n) x) l a).
Proof.
  intros Hg. revert a; induction l as [|n l IH]; intros a; simpl; [apply hsame_refl|].
  eapply hsame_trans; [|apply IH]. unfold a_clear. now apply hsame_aset.
Qed.

Lemma sstep_frame a o p :
  AWf a -> (p <= H)%nat -> (forall i, In i (targets o) -> okh H i = true -> hslot i <> p) -> hsame p a (sstep H M tys a o).
Proof.
  intros HW Hp HT.
  assert (Hm : forall n, mslot H n <> p) by (intros n; unfold mslot; lia).
  destruct o; cbn [sstep astep targets] in *.
  - destruct (okh H i && okty ty)%bool eqn:E; [|apply hsame_refl]. apply andb_true_iff in E. apply hsame_aset. apply HT; [simpl; auto|tauto].
  - destruct (okh H i) eqn:E; [|apply hsame_refl]. destruct (a_src H M a j); [|apply hsame_refl]. apply hsame_aset. apply HT; [simpl; auto|tauto].
  - destruct (okh H i && okty ty)%bool eqn:E; [|apply hsame_refl]. apply andb_true_iff in E. apply hsame_aset. apply HT; [simpl; auto|tauto].
  - destruct (okh H i) eqn:E; [|apply hsame_refl]. destruct (a_src H M a j); [|apply hsame_refl]. apply hsame_aset. apply HT; [simpl; auto|tauto].
  - destruct (okh H i && okh H j)%bool eqn:E; [|apply hsame_refl]. apply andb_true_iff in E.
    eapply hsame_trans; apply hsame_aset; apply HT; simpl; auto; tauto.
  - destruct (okh H i) eqn:E; [|apply hsame_refl]. apply hsame_aset. apply HT; [simpl; auto|tauto].
  - destruct (okty ty); [apply hsame_hs; reflexivity|apply hsame_refl].
  - destruct (0 <=? k); [apply hsame_cdel|apply hsame_refl].
  - destruct (okh H i && (0 <=? k))%bool eqn:E; [|apply hsame_refl]. apply andb_true_iff in E. apply hsame_adopt. apply HT; [simpl; auto|tauto].
  - destruct (okh H i) eqn:E; [|apply hsame_refl]. apply hsame_surrender. apply HT; [simpl; auto|tauto].
  - destruct (okh H i) eqn:E; [|apply hsame_refl]. apply hsame_setval. apply HT; [simpl; auto|tauto].
  - apply hsame_refl.
  - destruct (okm M n && (0 <=? k))%bool; [|apply hsame_refl]. destruct (nth_error (a_cl a) (Z.to_nat k)); [|apply hsame_refl].
    cbn [snd]. eapply hsame_trans; [|apply hsame_hs; reflexivity].
    eapply hsame_trans; [|apply hsame_vm_add; auto]. apply hsame_hs. reflexivity.
  - destruct (okm M n && nth (Z.to_nat n) (a_pres a) false)%bool; [|apply hsame_refl].
    destruct (aslot a (mslot H n)) as [[[r ty] w]|]; [|apply hsame_refl]. destruct r; [apply hsame_refl|apply hsame_hs; reflexivity].
  - cbn [snd]. unfold a_map_clear. eapply hsame_trans; [|apply hsame_hs; reflexivity].
    apply (hsame_fold_clear p (fun n => S (H + n))). intros n. lia.
  - apply hsame_refl.
  - destruct (okm M n); [|apply hsame_refl]. destruct (nth (Z.to_nat n) (a_nvb a) false).
    + destruct (ok =? 0); [apply hsame_refl|]. cbn [snd]. eapply hsame_trans; [|apply hsame_hs; reflexivity]. now apply hsame_setval.
    + destruct (ok =? 0); cbn [snd].
      * eapply hsame_trans; [|apply hsame_cdel]. apply hsame_hs. reflexivity.
      * match goal with |- context [nth_error ?l ?k] => destruct (nth_error l k) end; cbn [snd].
        -- eapply hsame_trans; [|apply hsame_hs; reflexivity].
           eapply hsame_trans; [|apply hsame_vm_add; auto].
           eapply hsame_trans; [|apply hsame_hs; reflexivity].
           eapply hsame_trans; [|apply hsame_cset]. apply hsame_hs. reflexivity.
        -- eapply hsame_trans; [|apply hsame_cset]. apply hsame_hs. reflexivity.
  - destruct (okh H i && okty ty)%bool eqn:E; [|apply hsame_refl]. apply andb_true_iff in E. apply hsame_aset. apply HT; [simpl; auto|tauto].
Qed.

Lemma AWf_sstep a o : AWf a -> AWf (sstep H M tys a o).
Proof.
  intros HW. destruct (sstep_frame a o 0 HW ltac:(lia)) as (A & B).
  { intros i _ Hk. apply okh_range' in Hk. lia. }
  destruct HW as (L & T). split; [congruence|]. unfold TMP in *. congruence.
Qed.

Lemma AWf_init : AWf (ainit H M).
Proof. unfold AWf, ainit, aslot; cbn [a_hs]. split; [apply repeat_length|reflexivity]. Qed.

(* whole histories: the abstract run is the client-level run *)
Fixpoint srun (a : ast) (ops : list op) : ast :=
  match ops with [] => a | o :: r => srun (sstep H M tys a o) r end.

Lemma arun_srun a ops : AWf a -> snd (arun H M tys a ops) = srun a ops /\ AWf (srun a ops).
Proof.
  revert a; induction ops as [|o ops IH]; intros a HW; simpl; auto.
  pose proof (astep_sstep a o HW) as E. destruct (astep H M tys a o) as [o1 a1]. simpl in E. subst a1.
  destruct (IH _ (AWf_sstep a o HW)) as (A & B). destruct (arun H M tys (sstep H M tys a o) ops). simpl in *. auto.
Qed.

(* a history that never names holder k leaves holder k alone *)
Lemma srun_frame a ops k :
  AWf a -> okh H k = true -> (forall o, In o ops -> ~ In k (targets o)) -> aslot (srun a ops) (hslot k) = aslot a (hslot k).
Proof.
  revert a; induction ops as [|o ops IH]; intros a HW Hk HT; simpl; auto.
  rewrite IH; auto using AWf_sstep; [|intros o' Ho'; apply HT; now right].
  apply sstep_frame; auto.
  - apply okh_range' in Hk. lia.
  - intros i Hi Hok Heq. apply (HT o (or_introl eq_refl)).
    assert (i = k); [|now subst].
    unfold hslot, okh in *. apply andb_true_iff in Hk. apply andb_true_iff in Hok. destruct Hk as [K1 _]. destruct Hok as [I1 _].
    apply Z.leb_le in K1. apply Z.leb_le in I1. lia.
Qed.
End Client.
