(* C20 part A - the obligation on the in-place rule of detail::vtable<T>().
   `in_place size word` is GENERATED (tools/consts/C20.py -> Gen/Consts_C20.v) from the predicate inside
   `vtable_select(bool2type< ... >(), x)`:  shipped `sizeof(T)<=sizeof(void-ptr)`  ->  (size <=? word).
   A value the in-place table placement-constructs lives in the holder's single word `value_` (8 bytes on the LP64 target the
   harness is built for), so the rule may select that table only for objects that fit into the word; for a bigger object
   construction / copy write beyond the holder, swap / assignment move only the first word.
   Kept in a file of its own: when value_store.h changes the rule into one that admits a bigger size (e.g. the number of
   words computed by truncating division, `sizeof(T)/sizeof(void-ptr) <= 1`, true also for 9..15), exactly this file
   (and Properties_C20.v, which states the lemma as c20_in_place_only_if_fits) stops compiling, while the ownership / value
   theorems - generic in the rule - still check.  A stricter rule (`<`) passes. *)
Require Import V.Lib.Base V.Gen.Consts_C20 V.C20.Model.
Require Import ZifyBool.
Local Open Scope Z_scope.
Ltac Zify.zify_post_hook ::= Z.div_mod_to_equations.

(* over ALL sizes, not only those of the harness's type table *)
Lemma in_place_only_if_fits : forall s : Z, 0 < s -> in_place s 8 = true -> s <= 8.
Proof. intros s Hs Hp. unfold in_place in Hp. lia. Qed.

Lemma size_of_pos ty : 0 < size_of ty.
Proof. unfold size_of. repeat match goal with |- context [if ?c then _ else _] => destruct c end; lia. Qed.

(* the model's type table: what the model stores in place fits into the word *)
Lemma stored_inplace_fits ty : stored_inplace ty = true -> size_of ty <= PTR_SIZE.
Proof. unfold stored_inplace, PTR_SIZE. apply in_place_only_if_fits, size_of_pos. Qed.

(* non-vacuity: the rule does select the in-place table (for every size up to the word: only checked at the sizes in use) *)
Example in_place_nonvacuous : in_place 1 8 = true /\ in_place 4 8 = true /\ stored_inplace 7 = true /\ stored_inplace 6 = true.
Proof. vm_compute. repeat split; reflexivity. Qed.
(* sizes between one and two words are not stored in place *)
Example odd_sizes_on_heap : map stored_inplace [11; 12; 13; 14; 15] = [false; false; false; false; false] /\ map size_of [11; 12; 13; 14; 15; 16; 17] = [9; 12; 15; 12; 9; 16; 8].
Proof. vm_compute. split; reflexivity. Qed.
