(* C20 - list lemmas: point update, removal of the k-th element, permutations of flat_map. *)
Require Import V.Lib.Base V.C20.Model.
Require Import Permutation.

Lemma upd_length {A} i (x : A) l : length (upd i x l) = length l.
Proof. revert i; induction l as [|y l IH]; intros [|i]; simpl; auto. Qed.

Lemma nth_upd_eq {A} i (x d : A) l : (i < length l)%nat -> nth i (upd i x l) d = x.
Proof. revert i; induction l as [|y l IH]; intros [|i] Hi; simpl in *; try lia; auto. apply IH; lia. Qed.

Lemma nth_upd_neq {A} i j (x d : A) l : i <> j -> nth j (upd i x l) d = nth j l d.
Proof.
  revert i j; induction l as [|y l IH]; intros [|i] [|j] Hn; simpl; auto; try congruence.
Qed.

Lemma nth_upd {A} i j (x d : A) l :
  nth j (upd i x l) d = if (Nat.eqb i j && Nat.ltb i (length l))%bool then x else nth j l d.
Proof.
  destruct (Nat.eqb_spec i j) as [->|Hn]; simpl.
  - destruct (Nat.ltb_spec j (length l)) as [Hl|Hl].
    + now apply nth_upd_eq.
    + rewrite !nth_overflow; auto. now rewrite upd_length.
  - now apply nth_upd_neq.
Qed.

Lemma nth_error_upd_eq {A} i (x : A) l : (i < length l)%nat -> nth_error (upd i x l) i = Some x.
Proof. revert i; induction l as [|y l IH]; intros [|i] Hi; simpl in *; try lia; auto. apply IH; lia. Qed.

Lemma nth_error_upd_neq {A} i j (x : A) l : i <> j -> nth_error (upd i x l) j = nth_error l j.
Proof.
  revert i j; induction l as [|y l IH]; intros [|i] [|j] Hn; simpl; auto; try congruence.
Qed.

Lemma upd_overflow {A} i (x : A) l : (length l <= i)%nat -> upd i x l = l.
Proof. revert i; induction l as [|y l IH]; intros [|i] Hi; simpl in *; try lia; auto. f_equal; apply IH; lia. Qed.

Lemma upd_nth_id {A} i (d : A) l : upd i (nth i l d) l = l.
Proof. revert i; induction l as [|y l IH]; intros [|i]; simpl; auto. f_equal; apply IH. Qed.

Lemma upd_upd_same {A} i (x y : A) l : upd i x (upd i y l) = upd i x l.
Proof. revert i; induction l as [|z l IH]; intros [|i]; simpl; auto. f_equal; apply IH. Qed.

Lemma upd_comm {A} i j (x y : A) l : i <> j -> upd i x (upd j y l) = upd j y (upd i x l).
Proof.
  revert i j; induction l as [|z l IH]; intros [|i] [|j] Hn; simpl; auto; try congruence.
  f_equal; apply IH; congruence.
Qed.

Lemma map_upd {A B} (f : A -> B) i x l : map f (upd i x l) = upd i (f x) (map f l).
Proof. revert i; induction l as [|y l IH]; intros [|i]; simpl; auto. f_equal; apply IH. Qed.

Lemma Forall_upd {A} (P : A -> Prop) i x l : Forall P l -> P x -> Forall P (upd i x l).
Proof.
  intros Hl Hx; revert i; induction Hl as [|y l Hy Hl IH]; intros [|i]; simpl; auto.
Qed.

Lemma Forall_nth' {A} (P : A -> Prop) l i d : Forall P l -> P d -> P (nth i l d).
Proof.
  intros Hl Hd; revert i; induction Hl as [|y l Hy Hl IH]; intros [|i]; simpl; auto.
Qed.

Lemma flat_map_upd_perm {A B} (f : A -> list B) i x d l :
  (i < length l)%nat -> Permutation (f (nth i l d) ++ flat_map f (upd i x l)) (f x ++ flat_map f l).
Proof.
  revert i; induction l as [|y l IH]; intros [|i] Hi; simpl in *; try lia.
  - rewrite !app_assoc. apply Permutation_app_tail. apply Permutation_app_comm.
  - specialize (IH i ltac:(lia)).
    rewrite !app_assoc.
    rewrite (Permutation_app_comm (f (nth i l d)) (f y)), (Permutation_app_comm (f x) (f y)).
    rewrite <- !app_assoc. now apply Permutation_app_head.
Qed.

Lemma remove_nth_perm {A} k (x : A) l : nth_error l k = Some x -> Permutation l (x :: remove_nth k l).
Proof.
  revert k; induction l as [|y l IH]; intros [|k] Hk; simpl in *; try discriminate.
  - inversion Hk; subst. unfold remove_nth; simpl. reflexivity.
  - specialize (IH k Hk). unfold remove_nth in *; simpl.
    rewrite perm_swap. now apply perm_skip.
Qed.

Lemma remove_nth_length {A} k (x : A) l : nth_error l k = Some x -> length l = S (length (remove_nth k l)).
Proof. intros Hk. apply (Permutation_length (remove_nth_perm k x l Hk)). Qed.

Lemma map_remove_nth {A B} (f : A -> B) k l : map f (remove_nth k l) = remove_nth k (map f l).
Proof. unfold remove_nth. now rewrite map_app, firstn_map, skipn_map. Qed.

Lemma nth_error_map' {A B} (f : A -> B) l k : nth_error (map f l) k = option_map f (nth_error l k).
Proof. revert k; induction l as [|y l IH]; intros [|k]; simpl; auto. Qed.

Lemma nth_error_nth_some {A} (l : list A) i d x : nth_error l i = Some x -> nth i l d = x.
Proof. revert i; induction l as [|y l IH]; intros [|i] Hx; simpl in *; try discriminate; auto. now inversion Hx. Qed.

Lemma nth_error_last_app {A} (l : list A) x : nth_error (l ++ [x]) (length l) = Some x.
Proof. rewrite nth_error_app2 by lia. now rewrite Nat.sub_diag. Qed.

Lemma remove_last {A} (l : list A) x : remove_nth (length l) (l ++ [x]) = l.
Proof.
  unfold remove_nth.
  rewrite (skipn_all2 (n := S (length l))) by (rewrite app_length; simpl; lia).
  rewrite firstn_app, Nat.sub_diag, firstn_all. simpl. now rewrite !app_nil_r.
Qed.

Lemma pred_length_app {A} (l : list A) x : pred (length (l ++ [x])) = length l.
Proof. rewrite app_length; simpl. lia. Qed.
