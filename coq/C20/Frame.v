(* C20 - frame lemmas: which slots a primitive can change (everything else, the number of slots, and the
   map's flags stay as they are). *)
Require Import V.Lib.Base V.Gen.Consts_C20 V.C20.Model V.C20.Lists V.C20.Inv.
Local Open Scope Z_scope.

Definition same_but (T : list nat) (s s' : st) : Prop :=
  length (hs s') = length (hs s) /\ (forall k, ~ In k T -> slot s' k = slot s k) /\ pres s' = pres s /\ nvb s' = nvb s.

Lemma same_but_refl T s : same_but T s s.
Proof. repeat split; auto. Qed.

Lemma same_but_weaken T T' s s' : (forall k, In k T -> In k T') -> same_but T s s' -> same_but T' s s'.
Proof. intros Hs (A & B & C & D). repeat split; auto. Qed.

Lemma same_but_trans T s1 s2 s3 : same_but T s1 s2 -> same_but T s2 s3 -> same_but T s1 s3.
Proof.
  intros (A & B & C & D) (A' & B' & C' & D'). repeat split; try congruence.
  intros k Hk. rewrite B', B; auto.
Qed.

Lemma obj_destroy_fields id s :
  hs (obj_destroy id s) = hs s /\ cl (obj_destroy id s) = cl s /\ pres (obj_destroy id s) = pres s /\ nvb (obj_destroy id s) = nvb s.
Proof. unfold obj_destroy. destruct (nth_error (led s) id); [destruct (e_dc e =? 0)|]; sf; auto. Qed.

Lemma obj_set_fields ty id v s :
  hs (obj_set ty id v s) = hs s /\ cl (obj_set ty id v s) = cl s /\ pres (obj_set ty id v s) = pres s /\ nvb (obj_set ty id v s) = nvb s.
Proof. unfold obj_set. destruct (usable ty id s); sf; auto. Qed.

Lemma obj_copy_fields ty src s :
  hs (fst (obj_copy ty src s)) = hs s /\ cl (fst (obj_copy ty src s)) = cl s /\
  pres (fst (obj_copy ty src s)) = pres s /\ nvb (fst (obj_copy ty src s)) = nvb s.
Proof. unfold obj_copy, obj_new. destruct (usable ty src s); sf; auto. Qed.

Lemma same_but_hs T s s' h i :
  hs s' = upd i h (hs s) -> pres s' = pres s -> nvb s' = nvb s -> In i T -> same_but T s s'.
Proof.
  intros Hh Hp Hn Hi. repeat split; auto.
  - now rewrite Hh, upd_length.
  - intros k Hk. unfold slot. rewrite Hh. apply nth_upd_neq. intros ->. contradiction.
Qed.

Lemma same_but_hs_eq T s s' : hs s' = hs s -> pres s' = pres s -> nvb s' = nvb s -> same_but T s s'.
Proof. intros Hh Hp Hn. repeat split; auto; try congruence. intros k _. unfold slot. now rewrite Hh. Qed.

Lemma fr_p_new T ty v s : same_but T s (p_new ty v s).
Proof. apply same_but_hs_eq; reflexivity. Qed.

Lemma fr_p_cdel T k s : same_but T s (p_cdel k s).
Proof.
  unfold p_cdel. destruct (nth_error (cl s) k); [|apply same_but_refl].
  destruct (obj_destroy_fields n (set_cl (remove_nth k (cl s)) s)) as (A & _ & C & D). apply same_but_hs_eq; auto.
Qed.

Lemma fr_p_cset T k v s : same_but T s (p_cset k v s).
Proof.
  unfold p_cset. destruct (nth_error (cl s) k); [|apply same_but_refl].
  destruct (obj_set_fields (ty_of (led s) n) n (norm (ty_of (led s) n) v) s) as (A & _ & C & D). apply same_but_hs_eq; auto.
Qed.

Lemma fr_p_setval T i v s : same_but T s (p_setval i v s).
Proof.
  unfold p_setval. destruct (hptr (slot s i)); [|apply same_but_refl].
  match goal with |- same_but _ _ (obj_set ?a ?b ?c s) => destruct (obj_set_fields a b c s) as (A & _ & C & D) end.
  apply same_but_hs_eq; auto.
Qed.

Lemma fr_p_store T i k s : In i T -> same_but T s (p_store i k s).
Proof.
  intros Hi. unfold p_store. destruct (valid s i); [|apply same_but_refl].
  destruct (slot s i); try apply same_but_refl. destruct (nth_error (cl s) k) as [src|]; [|apply same_but_refl].
  destruct (obj_copy_fields (ty_of (led s) src) src s) as (A & _ & C & D).
  destruct (obj_copy (ty_of (led s) src) src s) as [s1 id]. simpl in *.
  eapply same_but_hs with (i := i); sf; eauto. now rewrite A.
Qed.

Lemma fr_p_clone T i j s : In i T -> same_but T s (p_clone i j s).
Proof.
  intros Hi. unfold p_clone. destruct (valid s i); [|apply same_but_refl].
  destruct (slot s i); try apply same_but_refl. destruct (hptr (slot s j)) as [src|]; [|apply same_but_refl].
  destruct (obj_copy_fields (hty (slot s j)) src s) as (A & _ & C & D).
  destruct (obj_copy (hty (slot s j)) src s) as [s1 id]. simpl in *.
  eapply same_but_hs with (i := i); sf; eauto. now rewrite A.
Qed.

Lemma fr_p_swap T i j s : In i T -> In j T -> same_but T s (p_swap i j s).
Proof.
  intros Hi Hj. unfold p_swap. destruct (valid s i && valid s j)%bool; [|apply same_but_refl].
  repeat split; sf; auto.
  - now rewrite !upd_length.
  - intros k Hk. unfold slot; sf. rewrite !nth_upd_neq; auto; intros ->; contradiction.
Qed.

Lemma fr_p_clear T i s : In i T -> same_but T s (p_clear i s).
Proof.
  intros Hi. destruct (p_clear_fields i s) as (A & _ & C & D). eapply same_but_hs; eauto.
Qed.

Lemma fr_vs_assimilate T i id s : In i T -> same_but T s (vs_assimilate i id s).
Proof.
  intros Hi. unfold vs_assimilate. eapply same_but_trans; [apply fr_p_clear; eauto|].
  eapply same_but_hs with (i := i); sf; eauto.
Qed.

Lemma fr_p_adopt T i k s : In i T -> same_but T s (p_adopt i k s).
Proof.
  intros Hi. unfold p_adopt. destruct (valid s i); [|apply same_but_refl].
  destruct (nth_error (cl s) k); [|apply same_but_refl].
  eapply same_but_trans; [|apply fr_vs_assimilate; eauto]. apply same_but_hs_eq; reflexivity.
Qed.

Lemma fr_p_surrender T i s : In i T -> same_but T s (p_surrender i s).
Proof.
  intros Hi. unfold p_surrender. destruct (slot s i); [apply same_but_refl| |].
  - destruct (obj_destroy_fields id (set_slot i HEmpty s)) as (A & _ & C & D).
    eapply same_but_hs with (i := i) (h := HEmpty); auto; rewrite ?A, ?C, ?D; sf; reflexivity.
  - eapply same_but_hs with (i := i) (h := HEmpty); auto; sf; reflexivity.
Qed.

(* hs-length is all that some proofs need *)
Lemma same_but_len T s s' : same_but T s s' -> length (hs s') = length (hs s).
Proof. now intros (A & _). Qed.
