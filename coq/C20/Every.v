(* C20 part A - "typed access returns the value last stored", spelled out for EVERY type tag of the table (sizes 1 .. 40,
   in place or heap, incl. the ones between one and two words): after any history, storing T(v) in holder i (typed constructor or
   typed operator=) makes value_cast<T>(h[i]) yield v and every other type a type error; a copy of that holder (operator=, copy
   construction) and the other side of a swap yield v as well.  Consequences of typed_main / the client-level spec `sstep`,
   which never look at the tag: value semantics are type-independent. *)
Require Import V.Lib.Base V.Gen.Consts_C20 V.C20.Model V.C20.Lists V.C20.Inv V.C20.Spec V.C20.Typed V.C20.Client V.C20.Final.
Local Open Scope Z_scope.

Section Every.
Variables (H M : nat) (tys : list Z).

Lemma abs_snoc ops o : abs (final H M tys (ops ++ [o])) = sstep H M tys (abs (final H M tys ops)) o.
Proof.
  unfold final. rewrite run_ops_app. fold (final H M tys ops).
  pose proof (final_good H M tys ops) as G0. destruct (final_abs H M tys ops) as (_ & W0).
  destruct (step_refines H M tys (final H M tys ops) o G0) as (R & _).
  simpl. destruct (step H M tys (final H M tys ops) o) as [o1 sx] eqn:Es. simpl in *. rewrite R.
  now apply astep_sstep.
Qed.

Lemma avalid_final ops i : okh H i = true -> avalid (abs (final H M tys ops)) (hslot i) = true.
Proof.
  intros Hi. destruct (final_abs H M tys ops) as (_ & (L & _)). apply okh_range' in Hi.
  unfold avalid. apply Nat.ltb_lt. rewrite L. lia.
Qed.

Lemma hslot_inj i j : okh H i = true -> okh H j = true -> i <> j -> hslot i <> hslot j.
Proof.
  unfold hslot, okh. intros Hi Hj Hne. apply andb_true_iff in Hi. apply andb_true_iff in Hj.
  destruct Hi as [I1 _]. destruct Hj as [J1 _]. apply Z.leb_le in I1. apply Z.leb_le in J1. lia.
Qed.

Lemma a_cast_stored a i r ty v : aslot a i = Some (r, ty, v) ->
  a_cast a i ty = Some v /\ (forall ty', ty' <> ty -> a_cast a i ty' = None).
Proof.
  intros E. unfold a_cast. rewrite E. rewrite Z.eqb_refl. split; auto.
  intros ty' Hne. destruct (Z.eqb_spec ty ty'); congruence.
Qed.

(* the holder's abstract value right after the store *)
Lemma stored_slot ops i ty v o :
  okh H i = true -> okty ty = true -> o = OAssignVal i ty v \/ o = OConsVal i ty v ->
  aslot (abs (final H M tys (ops ++ [o]))) (hslot i) = Some (stored_inplace ty, ty, norm ty v).
Proof.
  intros Hi Hty Ho. rewrite abs_snoc.
  assert (S : sstep H M tys (abs (final H M tys ops)) o = aset (hslot i) (stored ty v) (abs (final H M tys ops))).
  { destruct Ho as [-> | ->]; cbn [sstep]; now rewrite Hi, Hty. }
  rewrite S. rewrite aslot_aset_eq by now apply avalid_final. reflexivity.
Qed.

Theorem last_stored_every_type ops i ty v (o : op) :
  okh H i = true -> okty ty = true -> o = OAssignVal i ty v \/ o = OConsVal i ty v ->
  let s := final H M tys (ops ++ [o]) in
  err s = false /\
  fst (cast s (hslot i) ty) = Some (norm ty v) /\
  (forall ty', ty' <> ty -> fst (cast s (hslot i) ty') = None) /\
  (forall j c, okh H j = true -> j <> i ->
     c = OAssign j i \/ c = OConsCopy j i \/ c = OSwap i j \/ c = OSwap j i ->
     let s' := final H M tys ((ops ++ [o]) ++ [c]) in
     err s' = false /\ fst (cast s' (hslot j) ty) = Some (norm ty v) /\
     (forall ty', ty' <> ty -> fst (cast s' (hslot j) ty') = None)).
Proof.
  intros Hi Hty Ho s.
  pose proof (stored_slot ops i ty v o Hi Hty Ho) as E. fold s in E.
  split; [apply (final_good H M tys (ops ++ [o]))|].
  destruct (a_cast_stored _ _ _ _ _ E) as (C1 & C2).
  split; [rewrite R_cast; exact C1|]. split; [intros ty' Hne; rewrite R_cast; now apply C2|].
  intros j c Hj Hne Hc s'.
  split; [apply (final_good H M tys ((ops ++ [o]) ++ [c]))|].
  assert (E' : aslot (abs s') (hslot j) = Some (stored_inplace ty, ty, norm ty v)).
  { unfold s'. rewrite abs_snoc. fold s. set (a := abs s) in *.
    assert (Vi : avalid a (hslot i) = true) by (apply avalid_final; exact Hi).
    assert (Vj : avalid a (hslot j) = true) by (apply avalid_final; exact Hj).
    pose proof (hslot_inj j i Hj Hi Hne) as Hs.
    destruct Hc as [-> | [-> | [-> | ->]]]; cbn [sstep]; unfold a_src; rewrite ?Hi, ?Hj; cbn [andb].
    - rewrite aslot_aset_eq by exact Vj. exact E.
    - rewrite aslot_aset_eq by exact Vj. exact E.
    - rewrite aslot_aset_eq by (now rewrite avalid_aset). exact E.
    - rewrite aslot_aset_neq by (intros X; apply Hs; now symmetry).
      rewrite aslot_aset_eq by exact Vj. exact E. }
  destruct (a_cast_stored _ _ _ _ _ E') as (D1 & D2).
  split; [rewrite R_cast; exact D1|]. intros ty' Hne'. rewrite R_cast. now apply D2.
Qed.
(* ---- adoption: the holder's type is the type the object was adopted AS ----
   The client creates an object under tag ty (ONew ty v: `T* p = new ...`; for the case alphabet's pseudo-tag 26 = "new PDerived owned
   through a PBase*" the decoder says ty = static_ty 26 = 24, PBase) and hands it to holder i (assimilate).  After ANY earlier
   history the holder then has exactly that type: value_cast<T> yields the value, every other type - in particular the class
   derived from T that the object "really" is - a type error; copies of the holder and the other side of a swap agree. *)
Lemma adopted_slot ops i ty v k :
  okh H i = true -> okty ty = true -> k = Z.of_nat (length (cl (final H M tys ops))) ->
  aslot (abs (final H M tys ((ops ++ [ONew ty v]) ++ [OAdopt i k]))) (hslot i) = Some (base_inplace, ty, norm ty v).
Proof.
  intros Hi Hty Hk. rewrite abs_snoc, abs_snoc.
  set (a := abs (final H M tys ops)).
  assert (Va : avalid a (hslot i) = true) by (apply avalid_final; exact Hi).
  assert (Lk : Z.to_nat k = length (a_cl a)).
  { subst k. rewrite Nat2Z.id. unfold a, abs. cbn [a_cl]. now rewrite map_length. }
  assert (Kp : (0 <=? k) = true) by (apply Z.leb_le; subst k; lia).
  cbn [sstep]. rewrite Hty. unfold a_new.
  set (a1 := aset_cl (a_cl a ++ [(ty, norm ty v)]) a).
  rewrite Hi, Kp. cbn [andb]. unfold a_adopt.
  assert (V1 : avalid a1 (hslot i) = true) by exact Va.
  rewrite V1.
  assert (N : nth_error (a_cl a1) (Z.to_nat k) = Some (ty, norm ty v)).
  { unfold a1, aset_cl. cbn [a_cl]. rewrite Lk. rewrite nth_error_app2 by lia. rewrite Nat.sub_diag. reflexivity. }
  rewrite N. rewrite aslot_aset_eq by exact V1. reflexivity.
Qed.

Theorem adopted_as_static_type ops i ty v k :
  okh H i = true -> okty ty = true -> k = Z.of_nat (length (cl (final H M tys ops))) ->
  let hist := (ops ++ [ONew ty v]) ++ [OAdopt i k] in
  let s := final H M tys hist in
  err s = false /\
  fst (cast s (hslot i) ty) = Some (norm ty v) /\
  (forall ty', ty' <> ty -> fst (cast s (hslot i) ty') = None) /\
  (forall j c, okh H j = true -> j <> i ->
     c = OAssign j i \/ c = OConsCopy j i \/ c = OSwap i j \/ c = OSwap j i ->
     let s' := final H M tys (hist ++ [c]) in
     err s' = false /\ fst (cast s' (hslot j) ty) = Some (norm ty v) /\
     (forall ty', ty' <> ty -> fst (cast s' (hslot j) ty') = None)).
Proof.
  intros Hi Hty Hk hist s.
  pose proof (adopted_slot ops i ty v k Hi Hty Hk) as E. fold hist in E. fold s in E.
  split; [apply (final_good H M tys hist)|].
  destruct (a_cast_stored _ _ _ _ _ E) as (C1 & C2).
  split; [rewrite R_cast; exact C1|]. split; [intros ty' Hne; rewrite R_cast; now apply C2|].
  intros j c Hj Hne Hc s'.
  split; [apply (final_good H M tys (hist ++ [c]))|].
  assert (E' : aslot (abs s') (hslot j) = Some (base_inplace, ty, norm ty v)).
  { unfold s'. rewrite abs_snoc. fold s. set (a := abs s) in *.
    assert (Vi : avalid a (hslot i) = true) by (apply avalid_final; exact Hi).
    assert (Vj : avalid a (hslot j) = true) by (apply avalid_final; exact Hj).
    pose proof (hslot_inj j i Hj Hi Hne) as Hs.
    destruct Hc as [-> | [-> | [-> | ->]]]; cbn [sstep]; unfold a_src; rewrite ?Hi, ?Hj; cbn [andb].
    - rewrite aslot_aset_eq by exact Vj. exact E.
    - rewrite aslot_aset_eq by exact Vj. exact E.
    - rewrite aslot_aset_eq by (now rewrite avalid_aset). exact E.
    - rewrite aslot_aset_neq by (intros X; apply Hs; now symmetry).
      rewrite aslot_aset_eq by exact Vj. exact E. }
  destruct (a_cast_stored _ _ _ _ _ E') as (D1 & D2).
  split; [rewrite R_cast; exact D1|]. intros ty' Hne'. rewrite R_cast. now apply D2.
Qed.
End Every.

(* every tag of the harness's table satisfies the hypothesis `okty` - in particular the sizes between one and two words and the
   two translation units' types of the same spelling (18..20 / 21..23) *)
Example every_tag_ok : forallb okty [0; 1; 2; 3; 4; 5; 6; 7; 8; 9; 10; 11; 12; 13; 14; 15; 16; 17; 18; 19; 20; 21; 22; 23; 24; 25] = true /\ okty 26 = false /\ okty (-1) = false.
Proof. vm_compute. repeat split; reflexivity. Qed.

(* ---- types of the same spelling in two translation units (tags 18..20 and 21..23) ----
   `twin ty` is the other unit's type of the same name: another type (another tag), of the same size here. *)
Lemma twin_differs ty : 0 <= ty -> twin ty <> ty.
Proof.
  intros Hp. unfold twin.
  destruct (18 <=? ty) eqn:A1, (ty <=? 20) eqn:A2, (21 <=? ty) eqn:B1, (ty <=? 23) eqn:B2; cbn [andb]; lia.
Qed.
Lemma twin_table : map twin [18; 19; 20; 21; 22; 23] = [21; 22; 23; 18; 19; 20] /\ map twin [0; 7; 9; 12; 17; 24; -1] = [-1; -1; -1; -1; -1; -1; -1]
  /\ forallb (fun t => (size_of (twin t) =? size_of t) && Bool.eqb (stored_inplace (twin t)) (stored_inplace t)) [18; 19; 20; 21; 22; 23] = true.
Proof. vm_compute. repeat split; reflexivity. Qed.

(* After ANY history: a value of type T stored in holder i (typed constructor / typed operator=) is NOT accessible through the other
   unit's type of the same name - value_cast yields null / bad_value_cast - and neither are its copies nor the other side of a swap.
   (Instance of last_stored_every_type at ty' := twin ty; stated for every tag: where there is no twin, `twin ty` = -1 is no type at all.) *)
Theorem same_name_other_unit_refused (H M : nat) (tys : list Z) ops i ty v (o : op) :
  okh H i = true -> okty ty = true -> o = OAssignVal i ty v \/ o = OConsVal i ty v ->
  let s := final H M tys (ops ++ [o]) in
  fst (cast s (hslot i) (twin ty)) = None /\ snd (cast s (hslot i) (twin ty)) = s /\
  fst (cast s (hslot i) ty) = Some (norm ty v) /\
  (forall j c, okh H j = true -> j <> i ->
     c = OAssign j i \/ c = OConsCopy j i \/ c = OSwap i j \/ c = OSwap j i ->
     let s' := final H M tys ((ops ++ [o]) ++ [c]) in
     fst (cast s' (hslot j) (twin ty)) = None /\ fst (cast s' (hslot j) ty) = Some (norm ty v)).
Proof.
  intros Hi Hty Ho s.
  destruct (last_stored_every_type H M tys ops i ty v o Hi Hty Ho) as (_ & C1 & C2 & C3). fold s in C1, C2.
  assert (Hp : 0 <= ty) by (unfold okty in Hty; apply andb_true_iff in Hty; destruct Hty as [T1 _]; apply Z.leb_le in T1; exact T1).
  split; [apply C2, twin_differs, Hp|]. split; [exact (proj2 (proj2 (proj2 (typed_main H M tys (ops ++ [o]))) (hslot i) (twin ty)))|]. split; [exact C1|].
  intros j c Hj Hne Hc s'. destruct (C3 j c Hj Hne Hc) as (_ & D1 & D2). fold s' in D1, D2.
  split; [apply D2, twin_differs, Hp|exact D1].
Qed.

(* both directions on concrete histories: unit A's Setting (18) / Record (20) stored, copied, swapped, adopted, kept in the map - unit B's
   type of the same name (21 / 23) is refused everywhere; and the other way round *)
Example same_name_other_unit_instance :
  let s := final 3 1 [23] [OAssignVal 0 18 42; OConsCopy 1 0; ONew 20 7; OAdopt 2 0; OSwap 0 2; OParse 0 9 1] in
  err s = false /\
  map (fun i => fst (cast s (hslot i) 18)) [0; 1; 2] = [None; Some 42; Some 42] /\
  map (fun i => fst (cast s (hslot i) 21)) [0; 1; 2] = [None; None; None] /\
  fst (cast s (hslot 0) 20) = Some 7 /\ fst (cast s (hslot 0) 23) = None /\
  fst (cast s (mslot 3 0) 23) = Some 9 /\ fst (cast s (mslot 3 0) 20) = None /\
  run_case [0; 1; 0; 1; 0; 21; 5; 12; 0; 18; 12; 0; 21] = [21; 5; 1; -1; 0; 0; 0; 0; 0;  0; 0;  21; 5; 1; -1; 0; 0; 0; 0; 0;  1; 5;  21; 5; 1; -1; 0; 0; 0; 0; 0;  0; 0; 0; 0; 0].
Proof. vm_compute. repeat split; reflexivity. Qed.

(* a 12-byte instrumented payload (tag 12): stored, copied, swapped with an in-place int, re-assigned from its copy; read back *)
Example twelve_bytes_instance :
  let s := final 3 0 [] [OAssignVal 0 12 345; OConsCopy 1 0; OAssignVal 2 7 5; OSwap 0 2; OSetVal 2 346; OAssign 0 1] in
  err s = false /\ size_of 12 = 12 /\
  fst (cast s (hslot 0) 12) = Some 345 /\ fst (cast s (hslot 1) 12) = Some 345 /\ fst (cast s (hslot 2) 12) = Some 346 /\
  fst (cast s (hslot 2) 7) = None /\ fst (cast s (hslot 0) 14) = None.
Proof. vm_compute. repeat split; reflexivity. Qed.

(* ---- a derived object adopted through a pointer to its polymorphic base (tags 24 PBase, 25 PDerived : PBase; pseudo-tag 26) ----
   `new(26, v)` of the case alphabet is `PBase* p = new PDerived(v)`; the decoder turns it into ONew (static_ty 26) v = ONew 24 v.
   Holder 0 adopts it, holder 1 is copy-constructed from holder 0, holder 2 is assigned from it, the map's name 0 (pseudo-type 26:
   a NotifiedValue<PBase> whose creator returns a new PDerived) parses 9, a second such object is added to the map under name 1 and
   re-added: everywhere the type is PBase (24) - PDerived (25) is refused - and the values are the adopted ones; every object is
   destroyed exactly once (no error, nothing leaked).  Last conjuncts: the case as the harness sees it - decoded ops, and the two typed
   reads of `new(26,5), assimilate(0,0), cast(0,24), cast(0,25)`. *)
Example adopted_derived_instance :
  static_ty 26 = 24 /\ static_ty 24 = 24 /\ static_ty 25 = 25 /\ okty (static_ty 26) = true /\ size_of 24 = 16 /\ size_of 25 = 24 /\
  stored_inplace 24 = false /\ stored_inplace 25 = false /\ instr 24 = true /\ instr 25 = true /\
  decode_ops 10 [7; 26; 5; 9; 0; 0; 12; 0; 24; 12; 0; 25] = [ONew 24 5; OAdopt 0 0; OCast 0 24; OCast 0 25] /\
  (let s := final 3 2 [24; 24] [ONew 24 5; OAdopt 0 0; OConsCopy 1 0; OAssign 2 0; OSetVal 0 6; OParse 0 9 1; ONew 24 7; OMapAdd 1 0; OMapAddSame 1] in
   err s = false /\
   map (fun i => fst (cast s (hslot i) 24)) [0; 1; 2] = [Some 6; Some 5; Some 5] /\
   map (fun i => fst (cast s (hslot i) 25)) [0; 1; 2] = [None; None; None] /\
   map (fun n => fst (cast s (mslot 3 n) 24)) [0; 1] = [Some 9; Some 7] /\
   map (fun n => fst (cast s (mslot 3 n) 25)) [0; 1] = [None; None] /\
   err (finish 3 2 s) = false /\ leaked (finish 3 2 s) = false /\ map e_dc (led (finish 3 2 s)) = [1; 1; 1; 1; 1]) /\
  (* a PDerived stored BY VALUE (typed constructor with T = PDerived) is a PDerived: read through PBase is refused *)
  (let s := final 1 0 [] [OConsVal 0 25 8] in fst (cast s (hslot 0) 25) = Some 8 /\ fst (cast s (hslot 0) 24) = None) /\
  run_case [0; 1; 0; 7; 26; 5; 9; 0; 0; 12; 0; 24; 12; 0; 25] =
    [-1; 0; 0; -1;  1; 24; 5; 0;  1; 0; 0; 1; 0;     24; 5; 0; 0;  0;  1; 0; 0; 1; 0;    1; 5;  24; 5; 0; 0;  0;  1; 0; 0; 1; 0;    0; 0;  24; 5; 0; 0;  0;  1; 0; 0; 1; 0;
     0; 1; 1; 0; 0].
Proof. vm_compute. repeat split; reflexivity. Qed.
