(* C20 - the value-semantics specification (definitions only).

   An abstract holder is empty or (representation, type, value); there are no object identities, no ledger,
   no destructors.  The representation bit (true = stored in the holder's own bytes) is carried along only
   because surrender() hands a heap object to the client while an in-place object ends with the holder's
   bytes; it never influences types, values or typed access.

   Two layers:
     a_* / astep : the same composition of member calls as the model's `step` (so slot 0, the temporary
                   ValueStore of operator=, is visible);
     sstep       : what a client may rely on - one line per operation, no temporaries.                *)
Require Import V.Lib.Base V.Gen.Consts_C20 V.C20.Model.
Local Open Scope Z_scope.

Definition aval : Type := option (bool * Z * Z).
Record ast := mkA { a_hs : list aval; a_pres : list bool; a_nvb : list bool; a_cl : list (Z * Z) }.

Definition aslot (a : ast) (i : nat) : aval := nth i (a_hs a) None.
Definition aset (i : nat) (x : aval) (a : ast) : ast := mkA (upd i x (a_hs a)) (a_pres a) (a_nvb a) (a_cl a).
Definition aset_cl (c : list (Z * Z)) (a : ast) : ast := mkA (a_hs a) (a_pres a) (a_nvb a) c.
Definition aset_pres (p : list bool) (a : ast) : ast := mkA (a_hs a) p (a_nvb a) (a_cl a).
Definition aset_nvb (p : list bool) (a : ast) : ast := mkA (a_hs a) (a_pres a) p (a_cl a).
Definition avalid (a : ast) (i : nat) : bool := (i <? length (a_hs a))%nat.

Definition a_new (ty v : Z) (a : ast) : ast := aset_cl (a_cl a ++ [(ty, norm ty v)]) a.
Definition a_cdel (k : nat) (a : ast) : ast :=
  match nth_error (a_cl a) k with Some _ => aset_cl (remove_nth k (a_cl a)) a | None => a end.
Definition a_cset (k : nat) (v : Z) (a : ast) : ast :=
  match nth_error (a_cl a) k with Some (ty, _) => aset_cl (upd k (ty, norm ty v) (a_cl a)) a | None => a end.
Definition a_store (i k : nat) (a : ast) : ast :=
  if avalid a i then
    match aslot a i, nth_error (a_cl a) k with
    | None, Some (ty, v) => aset i (Some (stored_inplace ty, ty, v)) a
    | _, _ => a
    end
  else a.
Definition a_clone (i j : nat) (a : ast) : ast :=
  if avalid a i then
    match aslot a i with
    | None => match aslot a j with None => a | Some x => aset i (Some x) a end
    | _ => a
    end
  else a.
Definition a_swap (i j : nat) (a : ast) : ast :=
  if avalid a i && avalid a j then aset j (aslot a i) (aset i (aslot a j) a) else a.
Definition a_clear (i : nat) (a : ast) : ast := aset i None a.
Definition a_adopt (i k : nat) (a : ast) : ast :=
  if avalid a i then
    match nth_error (a_cl a) k with
    | Some (ty, v) => aset i (Some (base_inplace, ty, v)) (aset_cl (remove_nth k (a_cl a)) a)
    | None => a
    end
  else a.
Definition a_surrender (i : nat) (a : ast) : ast :=
  match aslot a i with
  | None => a
  | Some (true, _, _) => aset i None a
  | Some (false, ty, v) => aset_cl (a_cl a ++ [(ty, v)]) (aset i None a)
  end.
Definition a_setval (i : nat) (v : Z) (a : ast) : ast :=
  match aslot a i with
  | None => a
  | Some (r, ty, _) => aset i (Some (r, ty, norm ty v)) a
  end.
(* ValueMap::add with a pointer the map does not hold yet *)
Definition a_vm_add (n i : nat) (x : Z * Z) (a : ast) : ast :=
  aset i (Some (base_inplace, fst x, snd x)) (aset_pres (set_flag n true (a_pres a)) a).
Definition a_cast (a : ast) (i : nat) (ty : Z) : option Z :=
  match aslot a i with
  | Some (_, ty', v) => if ty' =? ty then Some v else None
  | None => None
  end.

Section Spec.
Variable H M : nat.
Variable tys : list Z.

Definition a_src (a : ast) (j : Z) : option nat :=
  if okh H j then Some (hslot j)
  else let n := j - Z.of_nat H in if okm M n && nth (Z.to_nat n) (a_pres a) false then Some (mslot H n) else None.
Definition a_last (a : ast) : nat := pred (length (a_cl a)).
Definition a_map_clear (a : ast) : ast :=
  aset_nvb (repeat false M) (aset_pres (repeat false M) (fold_left (fun x n => a_clear (S (H + n)) x) (seq 0 M) a)).

Definition astep (a : ast) (o : op) : list Z * ast :=
  match o with
  | OConsVal i ty v =>
      if okh H i && okty ty then
        let a1 := a_new ty v a in let k := a_last a1 in
        ([], a_swap (hslot i) TMP (a_clear (hslot i) (a_cdel k (a_store TMP k a1))))
      else ([], a)
  | OConsCopy i j =>
      match (if okh H i then a_src a j else None) with
      | Some sj => ([], a_swap (hslot i) TMP (a_clear (hslot i) (a_clone TMP sj a)))
      | None => ([], a)
      end
  | OAssignVal i ty v =>
      if okh H i && okty ty then
        let a1 := a_new ty v a in let k := a_last a1 in
        ([], a_cdel k (a_clear TMP (a_swap TMP (hslot i) (a_store TMP k a1))))
      else ([], a)
  | OAssign i j =>
      match (if okh H i then a_src a j else None) with
      | Some sj => ([], a_clear TMP (a_swap TMP (hslot i) (a_clone TMP sj a)))
      | None => ([], a)
      end
  | OSwap i j => if okh H i && okh H j then ([], a_swap (hslot i) (hslot j) a) else ([], a)
  | OClear i => if okh H i then ([], a_clear (hslot i) a) else ([], a)
  | ONew ty v => if okty ty then ([], a_new ty v a) else ([], a)
  | OCDel k => if 0 <=? k then ([], a_cdel (Z.to_nat k) a) else ([], a)
  | OAdopt i k => if okh H i && (0 <=? k) then ([], a_adopt (hslot i) (Z.to_nat k) a) else ([], a)
  | OSurrender i => if okh H i then ([], a_surrender (hslot i) a) else ([], a)
  | OSetVal i v => if okh H i then ([], a_setval (hslot i) v a) else ([], a)
  | OCast i ty =>
      if okh H i then
        match a_cast a (hslot i) ty with Some v => ([1; v], a) | None => ([0; 0], a) end
      else ([], a)
  | OMapAdd n k =>
      if okm M n && (0 <=? k) then
        match nth_error (a_cl a) (Z.to_nat k) with
        | Some x =>
            let a1 := aset_cl (remove_nth (Z.to_nat k) (a_cl a)) a in
            ([], aset_nvb (set_flag (Z.to_nat n) false (a_nvb a1)) (a_vm_add (Z.to_nat n) (mslot H n) x a1))
        | None => ([], a)
        end
      else ([], a)
  | OMapAddSame n =>
      if okm M n && nth (Z.to_nat n) (a_pres a) false then
        match aslot a (mslot H n) with
        | Some (false, _, _) => ([], aset_pres (set_flag (Z.to_nat n) true (a_pres a)) a)   (* nothing else changes *)
        | _ => ([], a)
        end
      else ([], a)
  | OMapClear => ([], a_map_clear a)
  | OMapGet n ty =>
      if okm M n then
        if nth (Z.to_nat n) (a_pres a) false then
          match a_cast a (mslot H n) ty with Some v => ([1; 1; v], a) | None => ([1; 0; 0], a) end
        else ([0; 0; 0], a)
      else ([], a)
  | OParse n v ok =>
      if okm M n then
        if nth (Z.to_nat n) (a_nvb a) false then
          if ok =? 0 then ([0], a) else
          ([1], aset_pres (set_flag (Z.to_nat n) true (a_pres a)) (a_setval (mslot H n) v a))
        else
          let a1 := a_new (name_ty tys n) 0 a in let k := a_last a1 in
          if ok =? 0 then ([0], a_cdel k a1) else
          let a2 := a_cset k v a1 in
          match nth_error (a_cl a2) k with
          | Some x =>
              let a3 := aset_cl (remove_nth k (a_cl a2)) a2 in
              ([1], aset_nvb (set_flag (Z.to_nat n) true (a_nvb a3)) (a_vm_add (Z.to_nat n) (mslot H n) x a3))
          | None => ([1], a2)
          end
      else ([], a)
  | OAdoptNull i ty _ => if okh H i && okty ty then ([1; ty; 1], a_clear (hslot i) a) else ([], a)
  end.

Fixpoint arun (a : ast) (ops : list op) : list (list Z) * ast :=
  match ops with
  | [] => ([], a)
  | o :: r => let '(o1, a1) := astep a o in let '(o2, a2) := arun a1 r in (o1 :: o2, a2)
  end.

Definition ainit : ast := mkA (repeat None (S (H + M))) (repeat false M) (repeat false M) [].

(* ---------- the client-level specification: one line per ValueStore operation ---------- *)
(* the value a freshly stored T(v) has / a copy has (a copy keeps the representation of its source) *)
Definition stored (ty v : Z) : aval := Some (stored_inplace ty, ty, norm ty v).

Definition sstep (a : ast) (o : op) : ast :=
  match o with
  | OConsVal i ty v | OAssignVal i ty v => if okh H i && okty ty then aset (hslot i) (stored ty v) a else a
  | OConsCopy i j | OAssign i j =>
      match (if okh H i then a_src a j else None) with
      | Some sj => aset (hslot i) (aslot a sj) a
      | None => a
      end
  | OSwap i j => if okh H i && okh H j then aset (hslot j) (aslot a (hslot i)) (aset (hslot i) (aslot a (hslot j)) a) else a
  | OClear i => if okh H i then aset (hslot i) None a else a
  | OAdoptNull i ty _ => if okh H i && okty ty then aset (hslot i) None a else a
  | ONew ty v => if okty ty then a_new ty v a else a
  | OCDel k => if 0 <=? k then a_cdel (Z.to_nat k) a else a
  | OAdopt i k => if okh H i && (0 <=? k) then a_adopt (hslot i) (Z.to_nat k) a else a
  | OSurrender i => if okh H i then a_surrender (hslot i) a else a
  | OSetVal i v => if okh H i then a_setval (hslot i) v a else a
  | OCast _ _ | OMapGet _ _ => a
  | o => snd (astep a o)
  end.
End Spec.
