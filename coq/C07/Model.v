(* C07 - executable model of Potassco::SmodelsInput (src/smodels.cpp) driven through readSmodels /
   readProgram (src/match_basic_types.cpp), written against the abstract stream of C09/Spec.v.

   One Gallina function per C++ member; every limit / check is a constant regenerated from the
   sources (V.Gen.Consts_C07).  Where the C++ converts an unsigned value to Lit_t / Weight_t the
   model applies wrap32s, so it stays faithful when a limit is removed in /repo (and the theorems
   about "no cast" stop being provable instead).
   Restriction: Options.cEdge = Options.cHeuristic = false (conversion of _edge/_acyc_/_heuristic
   names belongs to C08); claspExt and filter are arbitrary (filter has no effect then).
   RuleBuilder is modelled abstractly: start/addHead/addGoal/end deliver exactly the collected lists. *)
Require Import V.Lib.Base V.Lib.Calls V.C09.Spec V.Gen.Consts V.Gen.Consts_C07.
Local Open Scope Z_scope.

Inductive out (A : Type) := Ok (a : A) | Err (ln : Z) | Fuel.
Arguments Ok {A} a. Arguments Err {A} ln. Arguments Fuel {A}.

Definition bind {A B} (m : out A) (f : A -> out B) : out B :=
  match m with Ok a => f a | Err l => Err l | Fuel => Fuel end.
Notation "x <- m ;; f" := (bind m (fun x => f)) (at level 61, m at next level, right associativity).
Notation "' p <- m ;; f" := (bind m (fun p => f)) (at level 61, p pattern, m at next level, right associativity).

(* static_cast<int32_t>(uint32_t) *)
Definition wrap32s (z : Z) : Z := (z + 2147483648) mod 4294967296 - 2147483648.

Record opts := mkopts { claspExt : bool; o_filter : bool }.

(* unsigned matchPos(max, err): require(match(x) && x >= 0 && (uint64_t)x <= max) *)
Definition m_pos (max : Z) (s : ast) : out (Z * ast) :=
  match a_match_int false s with
  | (Some x, s') => if (0 <=? x) && (x <=? max) then Ok (x, s') else Err (aline s')
  | (None, s') => Err (aline s')
  end.

(* Atom_t matchAtom(err): require(match(x) && x >= atomMin && x <= varMax_) *)
Definition m_atom (s : ast) : out (Z * ast) :=
  match a_match_int false s with
  | (Some x, s') => if (atomMin <=? x) && (x <=? sm_varMax) then Ok (x, s') else Err (aline s')
  | (None, s') => Err (aline s')
  end.

(* bool require(cnd, msg) at the current position *)
Definition m_require (c : bool) (s : ast) : out unit := if c then Ok tt else Err (aline s).

(* a counted loop  for (n; n--;) { x = f(); }  -- every successful f consumes input, fuel = remaining bytes + 1 *)
Fixpoint m_many (f : ast -> out (Z * ast)) (fuel : nat) (n : Z) (s : ast) : out (list Z * ast) :=
  if n =? 0 then Ok ([], s) else
  match fuel with
  | O => Fuel
  | S fu => '(a, s1) <- f s ;; '(l, s2) <- m_many f fu (n - 1) s1 ;; Ok (a :: l, s2)
  end.
Definition fuel_of (s : ast) : nat := S (length (rest s)).

(* if (neg) { p *= -1; --neg; }  applied to the literals in reading order *)
Fixpoint apply_neg (neg : Z) (l : list Z) : list Z :=
  match l with
  | [] => []
  | a :: r => if 0 <? neg then (- a) :: apply_neg (neg - 1) r else a :: apply_neg 0 r
  end.

(* void matchBody(RuleBuilder&) *)
Definition m_body (s : ast) : out (list Z * ast) :=
  '(len, s1) <- m_pos sm_umax s ;;
  '(neg, s2) <- m_pos sm_umax s1 ;;
  _ <- m_require (negb sm_neg_check_body || (neg <=? len)) s2 ;;
  '(atoms, s3) <- m_many m_atom (fuel_of s2) len s2 ;;
  Ok (apply_neg neg atoms, s3).

(* void matchSum(RuleBuilder&, bool weights): returns (bound, weight literals) *)
Definition m_weight (s : ast) : out (Z * ast) :=
  '(w, s1) <- m_pos sm_weight_max s ;; Ok (wrap32s w, s1).

Definition m_sum (weights : bool) (s : ast) : out (Z * list (Z * Z) * ast) :=
  '(a, s1) <- m_pos sm_umax s ;;
  '(b, s2) <- m_pos sm_umax s1 ;;
  '(c, s3) <- m_pos sm_umax s2 ;;
  let '(bnd, len, neg) := if weights then (a, b, c) else (c, a, b) in
  _ <- m_require (bnd <=? sm_bound_max) s3 ;;
  _ <- m_require (negb sm_neg_check_sum || (neg <=? len)) s3 ;;
  '(atoms, s4) <- m_many m_atom (fuel_of s3) len s3 ;;
  let lits := apply_neg neg atoms in
  if weights then
    '(ws, s5) <- m_many m_weight (fuel_of s4) len s4 ;;
    Ok (wrap32s bnd, combine lits ws, s5)
  else Ok (wrap32s bnd, map (fun l => (l, 1)) lits, s4).

(* one iteration of the switch in readRules (rt <> 0): the call delivered (if any), the next minPrio *)
Definition read_rule (o : opts) (prio : Z) (rt : Z) (s : ast) : out (list call * Z * ast) :=
  if (rt =? Sm_Choice) || (rt =? Sm_Disjunctive) then
    '(n, s1) <- m_atom s ;;
    '(hs, s2) <- m_many m_atom (fuel_of s1) n s1 ;;
    '(b, s3) <- m_body s2 ;;
    Ok ([CRule (if rt =? Sm_Choice then Head_t_Choice else Head_t_Disjunctive) hs b], prio, s3)
  else if rt =? Sm_Basic then
    '(h, s1) <- m_atom s ;;
    '(b, s2) <- m_body s1 ;;
    Ok ([CRule Head_t_Disjunctive [h] b], prio, s2)
  else if (rt =? Sm_Cardinality) || (rt =? Sm_Weight) then
    '(h, s1) <- m_atom s ;;
    '(bnd, wl, s2) <- m_sum (rt =? Sm_Weight) s1 ;;
    Ok ([CWRule Head_t_Disjunctive [h] bnd wl], prio, s2)
  else if rt =? Sm_Optimize then
    '(_, wl, s1) <- m_sum true s ;;
    Ok ([CMin prio wl], prio + 1, s1)
  else if rt =? Sm_ClaspIncrement then
    if claspExt o then
      '(z, s1) <- m_pos sm_umax s ;;
      _ <- m_require (z =? 0) s1 ;;
      Ok ([], prio, s1)
    else Err (aline s)
  else if (rt =? Sm_ClaspAssignExt) || (rt =? Sm_ClaspReleaseExt) then
    if claspExt o then
      '(a, s1) <- m_atom s ;;
      if rt =? Sm_ClaspAssignExt then
        '(v, s2) <- m_pos sm_extval_max s1 ;;
        Ok ([CExternal a (Z.lxor v sm_extval_xor - sm_extval_sub)], prio, s2)
      else Ok ([CExternal a Value_t_Release], prio, s1)
    else Err (aline s)
  else Err (aline s).

(* results that carry the calls delivered so far *)
Definition cres (A : Type) := (list call * out A)%type.

Fixpoint read_rules (fuel : nat) (o : opts) (prio : Z) (s : ast) : cres ast :=
  match fuel with
  | O => ([], Fuel)
  | S fu =>
      match m_pos sm_rt_max s with
      | Ok (rt, s1) =>
          if rt =? 0 then ([], Ok s1) else
          match read_rule o prio rt s1 with
          | Ok (cs, prio', s2) => let '(cs2, r) := read_rules fu o prio' s2 in (cs ++ cs2, r)
          | Err l => ([], Err l)
          | Fuel => ([], Fuel)
          end
      | Err l => ([], Err l)
      | Fuel => ([], Fuel)
      end
  end.

(* for (char c; (c = stream()->get()) != '\n';) { require(c != 0); name += c; } *)
Fixpoint read_name (fuel : nat) (s : ast) : out (list Z * ast) :=
  match fuel with
  | O => Fuel
  | S fu =>
      let '(c, s1) := a_get s in
      if c =? 10 then Ok ([], s1)
      else if c =? 0 then Err (aline s1)
      else '(n, s2) <- read_name fu s1 ;; Ok (c :: n, s2)
  end.

(* char BufferedStream::get(): "if (char c = peek()) { ... } return 0;"  -- a NUL byte (like the end of the input) is
   reported as 0 and NOT extracted *)
Definition m_get (s : ast) : Z * ast := if a_peek s =? 0 then (0, s) else a_get s.

Fixpoint read_symbols (fuel : nat) (s : ast) : cres ast :=
  match fuel with
  | O => ([], Fuel)
  | S fu =>
      match m_pos sm_sym_max s with
      | Ok (v, s1) =>
          let atom := wrap32s v in
          if atom =? 0 then ([], Ok s1) else
          let s2 := snd (m_get s1) in
          match read_name (fuel_of s2) s2 with
          | Ok (name, s3) => let '(cs, r) := read_symbols fu s3 in (COutput name [atom] :: cs, r)
          | Err l => ([], Err l)
          | Fuel => ([], Fuel)
          end
      | Err l => ([], Err l)
      | Fuel => ([], Fuel)
      end
  end.

(* the loop of readCompute *)
Fixpoint read_comp_atoms (fuel : nat) (val : bool) (s : ast) : cres ast :=
  match fuel with
  | O => ([], Fuel)
  | S fu =>
      match m_pos sm_comp_max s with
      | Ok (v, s1) =>
          let x := wrap32s v in
          if x =? 0 then ([], Ok s1) else
          let '(cs, r) := read_comp_atoms fu val s1 in
          (CRule Head_t_Disjunctive [] [if val then - x else x] :: cs, r)
      | Err l => ([], Err l)
      | Fuel => ([], Fuel)
      end
  end.

(* require(match(comp) && stream()->get() == '\n', ...) *)
Definition read_compute (key : list Z) (val : bool) (s : ast) : cres ast :=
  let s0 := a_skipws s in
  match a_match_tok key s0 with
  | (true, s1) =>
      let '(c, s2) := a_get s1 in
      if c =? 10 then read_comp_atoms (fuel_of s2) val s2 else ([], Err (aline s2))
  | (false, s1) => ([], Err (aline s1))
  end.

Fixpoint read_ext_atoms (fuel : nat) (s : ast) : cres ast :=
  match fuel with
  | O => ([], Fuel)
  | S fu =>
      match m_pos sm_ext_max s with
      | Ok (a, s1) =>
          if a =? 0 then ([], Ok s1) else
          let '(cs, r) := read_ext_atoms fu s1 in (CExternal a Value_t_Free :: cs, r)
      | Err l => ([], Err l)
      | Fuel => ([], Fuel)
      end
  end.

Definition cbind {A B} (m : cres A) (f : A -> cres B) : cres B :=
  match m with
  | (c1, Ok a) => let '(c2, r) := f a in (c1 ++ c2, r)
  | (c1, Err l) => (c1, Err l)
  | (c1, Fuel) => (c1, Fuel)
  end.

Definition read_extra (s : ast) : cres ast :=
  let s0 := a_skipws s in
  let '(m, s1) := a_match_tok sm_kw_ext s0 in
  cbind (if m then read_ext_atoms (fuel_of s1) s1 else ([], Ok s1)) (fun s2 =>
  match m_pos sm_models_max s2 with
  | Ok (_, s3) => ([], Ok s3)
  | Err l => ([], Err l)
  | Fuel => ([], Fuel)
  end).

(* bool doParse() *)
Definition do_parse (o : opts) (s : ast) : cres ast :=
  cbind ([CBegin], Ok s) (fun s =>
  cbind (read_rules (fuel_of s) o 0 s) (fun s1 =>
  cbind (read_symbols (fuel_of s1) s1) (fun s2 =>
  cbind (read_compute sm_kw_bplus true s2) (fun s3 =>
  cbind (read_compute sm_kw_bminus false s3) (fun s4 =>
  cbind (read_extra s4) (fun s5 => ([CEnd], Ok s5))))))).

(* bool ProgramReader::parse(Complete) *)
Fixpoint parse_steps (fuel : nat) (o : opts) (inc : bool) (s : ast) : cres unit :=
  match fuel with
  | O => ([], Fuel)
  | S fu =>
      cbind (do_parse o s) (fun s1 =>
      let s2 := a_skipws s1 in
      let more := negb (a_end s2) in
      if more && negb inc then ([], Err (aline s2))
      else if more then parse_steps fu o inc s2 else ([], Ok tt))
  end.

(* readProgram: accept (doAttach) then parse *)
Definition read_smodels (o : opts) (input : list Z) : cres unit :=
  let s := a_init input in
  let n := a_peek s in
  let inc := n =? 57 in
  if is_digit n && (negb inc || claspExt o) then
    cbind ([CInit inc], Ok s) (fun s => parse_steps (fuel_of s) o inc s)
  else ([], Err (aline s)).

(* ================= the reader with a configured atom limit: ProgramReader::setMaxVar(vm) =================
   ProgramReader::matchAtom(err) is  Potassco::matchAtom( *stream(), varMax_, err)  - the MEMBER passes the reader's varMax_, the free
   function's default would be atomMax.  SmodelsInput reads with the member (hence against varMax_): the head atoms, the head COUNT of a
   choice / disjunctive rule (matchAtom("positive head size expected")), the atoms of normal bodies (matchBody) and of cardinality /
   weight / optimize bodies (matchSum), the atom of the clasp-extension rules 91 / 92.  Symbol-table atoms, compute-statement atoms and
   the atoms of the E section are read with matchPos(atomMax, ...) and do NOT depend on varMax_.
   The functions above are the instance vm = sm_varMax (the constructor's default; equal BY CONVERSION, V.C07.ProofsLex.read_smodels_default);
   C04 / C05 / C08 state their theorems about that instance.  Domain: vm <= atomMax (lit() converts a body atom to int32 without a test;
   the model has no wrap there, run_case answers [-3] for larger values and the harness does not call setMaxVar with them). *)
Section MaxVar.
Variable vm : Z.

Definition m_atom_v (s : ast) : out (Z * ast) :=
  match a_match_int false s with
  | (Some x, s') => if (atomMin <=? x) && (x <=? vm) then Ok (x, s') else Err (aline s')
  | (None, s') => Err (aline s')
  end.

Definition m_body_v (s : ast) : out (list Z * ast) :=
  '(len, s1) <- m_pos sm_umax s ;;
  '(neg, s2) <- m_pos sm_umax s1 ;;
  _ <- m_require (negb sm_neg_check_body || (neg <=? len)) s2 ;;
  '(atoms, s3) <- m_many m_atom_v (fuel_of s2) len s2 ;;
  Ok (apply_neg neg atoms, s3).

Definition m_sum_v (weights : bool) (s : ast) : out (Z * list (Z * Z) * ast) :=
  '(a, s1) <- m_pos sm_umax s ;;
  '(b, s2) <- m_pos sm_umax s1 ;;
  '(c, s3) <- m_pos sm_umax s2 ;;
  let '(bnd, len, neg) := if weights then (a, b, c) else (c, a, b) in
  _ <- m_require (bnd <=? sm_bound_max) s3 ;;
  _ <- m_require (negb sm_neg_check_sum || (neg <=? len)) s3 ;;
  '(atoms, s4) <- m_many m_atom_v (fuel_of s3) len s3 ;;
  let lits := apply_neg neg atoms in
  if weights then
    '(ws, s5) <- m_many m_weight (fuel_of s4) len s4 ;;
    Ok (wrap32s bnd, combine lits ws, s5)
  else Ok (wrap32s bnd, map (fun l => (l, 1)) lits, s4).

Definition read_rule_v (o : opts) (prio : Z) (rt : Z) (s : ast) : out (list call * Z * ast) :=
  if (rt =? Sm_Choice) || (rt =? Sm_Disjunctive) then
    '(n, s1) <- m_atom_v s ;;
    '(hs, s2) <- m_many m_atom_v (fuel_of s1) n s1 ;;
    '(b, s3) <- m_body_v s2 ;;
    Ok ([CRule (if rt =? Sm_Choice then Head_t_Choice else Head_t_Disjunctive) hs b], prio, s3)
  else if rt =? Sm_Basic then
    '(h, s1) <- m_atom_v s ;;
    '(b, s2) <- m_body_v s1 ;;
    Ok ([CRule Head_t_Disjunctive [h] b], prio, s2)
  else if (rt =? Sm_Cardinality) || (rt =? Sm_Weight) then
    '(h, s1) <- m_atom_v s ;;
    '(bnd, wl, s2) <- m_sum_v (rt =? Sm_Weight) s1 ;;
    Ok ([CWRule Head_t_Disjunctive [h] bnd wl], prio, s2)
  else if rt =? Sm_Optimize then
    '(_, wl, s1) <- m_sum_v true s ;;
    Ok ([CMin prio wl], prio + 1, s1)
  else if rt =? Sm_ClaspIncrement then
    if claspExt o then
      '(z, s1) <- m_pos sm_umax s ;;
      _ <- m_require (z =? 0) s1 ;;
      Ok ([], prio, s1)
    else Err (aline s)
  else if (rt =? Sm_ClaspAssignExt) || (rt =? Sm_ClaspReleaseExt) then
    if claspExt o then
      '(a, s1) <- m_atom_v s ;;
      if rt =? Sm_ClaspAssignExt then
        '(v, s2) <- m_pos sm_extval_max s1 ;;
        Ok ([CExternal a (Z.lxor v sm_extval_xor - sm_extval_sub)], prio, s2)
      else Ok ([CExternal a Value_t_Release], prio, s1)
    else Err (aline s)
  else Err (aline s).

Fixpoint read_rules_v (fuel : nat) (o : opts) (prio : Z) (s : ast) : cres ast :=
  match fuel with
  | O => ([], Fuel)
  | S fu =>
      match m_pos sm_rt_max s with
      | Ok (rt, s1) =>
          if rt =? 0 then ([], Ok s1) else
          match read_rule_v o prio rt s1 with
          | Ok (cs, prio', s2) => let '(cs2, r) := read_rules_v fu o prio' s2 in (cs ++ cs2, r)
          | Err l => ([], Err l)
          | Fuel => ([], Fuel)
          end
      | Err l => ([], Err l)
      | Fuel => ([], Fuel)
      end
  end.

Definition do_parse_v (o : opts) (s : ast) : cres ast :=
  cbind ([CBegin], Ok s) (fun s =>
  cbind (read_rules_v (fuel_of s) o 0 s) (fun s1 =>
  cbind (read_symbols (fuel_of s1) s1) (fun s2 =>
  cbind (read_compute sm_kw_bplus true s2) (fun s3 =>
  cbind (read_compute sm_kw_bminus false s3) (fun s4 =>
  cbind (read_extra s4) (fun s5 => ([CEnd], Ok s5))))))).

Fixpoint parse_steps_v (fuel : nat) (o : opts) (inc : bool) (s : ast) : cres unit :=
  match fuel with
  | O => ([], Fuel)
  | S fu =>
      cbind (do_parse_v o s) (fun s1 =>
      let s2 := a_skipws s1 in
      let more := negb (a_end s2) in
      if more && negb inc then ([], Err (aline s2))
      else if more then parse_steps_v fu o inc s2 else ([], Ok tt))
  end.

Definition read_smodels_v (o : opts) (input : list Z) : cres unit :=
  let s := a_init input in
  let n := a_peek s in
  let inc := n =? 57 in
  if is_digit n && (negb inc || claspExt o) then
    cbind ([CInit inc], Ok s) (fun s => parse_steps_v (fuel_of s) o inc s)
  else ([], Err (aline s)).
End MaxVar.

(* ---- case decoding:  [N; opts; len; bytes...; mv?]  (N = BUF_SIZE of the variant, irrelevant for the abstract stream)
   mv (optional, behind the text): 0 / absent = setMaxVar is not called (varMax_ = sm_varMax); k in 1..atomMax = setMaxVar(k);
   -1 = setMaxVar(0) (every atom the member matchAtom reads is refused); anything else is outside the model's domain ([-3]). ---- *)
Definition encode_result (r : cres unit) : list Z :=
  let '(cs, o) := r in
  enc_calls cs ++ match o with Ok _ => [1; 0; 0] | Err l => [0; l; 1] | Fuel => [-1; 0; 0] end.

Definition decode_maxvar (mv : Z) : option Z :=
  if mv =? 0 then Some sm_varMax
  else if mv =? -1 then Some 0
  else if (1 <=? mv) && (mv <=? atomMax) then Some mv else None.

Definition run_case (c : list Z) : list Z :=
  match c with
  | _ :: ob :: len :: r =>
      if negb ((ob / 2) mod 4 =? 0) then [-3] else
      match decode_maxvar (hd 0 (skipn (Z.to_nat len) r)) with
      | Some vm => encode_result (read_smodels_v vm (mkopts (Z.odd ob) (negb ((ob / 8) mod 2 =? 0))) (firstn (Z.to_nat len) r))
      | None => [-3]
      end
  | _ => []
  end.
