(* C07 - corollaries of soundness (ProofsGSound.g_sound) and completeness (ProofsGComplete2.g_complete) for the general
   description SpecG.v: exact characterisation of the accepted byte strings, well-definedness of the denotation,
   rejection of everything else, the narrower layout of Spec.v as a special case, NUL-free texts. *)
Require Import V.Lib.Base V.Lib.Calls V.Lib.Dec V.C09.Spec V.Gen.Consts V.Gen.Consts_C07.
Require Import V.C07.Model V.C07.Spec V.C07.SpecG V.C07.ProofsLex V.C07.ProofsGram V.C07.ProofsTop V.C07.ProofsContract.
Require Import V.C07.ProofsGLex V.C07.ProofsGSound V.C07.ProofsGComplete V.C07.ProofsGComplete2.
Local Open Scope Z_scope.

Definition describes (o : opts) (p : gprog) (t : list Z) : Prop :=
  glayout_ok p = true /\ gin_range (claspExt o) p = true /\ t = grender p.

Lemma g_exact (o : opts) (t : list Z) :
  (exists cs, read_smodels o t = (cs, Ok tt)) <-> (exists p, describes o p t).
Proof.
  split.
  - intros [cs H]. destruct (g_sound o t cs H) as (p & Hl & Hr & Et & _). exists p. repeat split; assumption.
  - intros (p & Hl & Hr & ->). exists (gdenote p). now apply g_complete.
Qed.

(* accepted => the calls are the denotation of SOME description of the text, and of EVERY description of it *)
Lemma g_denotes (o : opts) (t : list Z) (cs : list call) : read_smodels o t = (cs, Ok tt) ->
  (exists p, describes o p t /\ cs = gdenote p) /\ (forall p, describes o p t -> cs = gdenote p).
Proof.
  intros H. split.
  - destruct (g_sound o t cs H) as (p & Hl & Hr & Et & Ec). exists p. repeat split; assumption.
  - intros p (Hl & Hr & Et). subst t. rewrite (g_complete o p Hl Hr) in H. congruence.
Qed.

(* two descriptions of the same text denote the same calls *)
Lemma g_denote_unique (o : opts) p1 p2 : describes o p1 (grender p2) -> describes o p2 (grender p2) -> gdenote p1 = gdenote p2.
Proof.
  intros (L1 & R1 & E1) (L2 & R2 & _). pose proof (g_complete o p1 L1 R1) as H1. pose proof (g_complete o p2 L2 R2) as H2.
  rewrite <- E1 in H1. rewrite H1 in H2. congruence.
Qed.

(* everything else is refused with an error (never accepted, never out of fuel) *)
Lemma g_rejects (o : opts) (t : list Z) : ~ (exists p, describes o p t) -> exists cs ln, read_smodels o t = (cs, Err ln).
Proof.
  intros Hn. pose proof (no_fuel_exhaustion o t) as Hf. destruct (read_smodels o t) as [cs [[]|ln|]] eqn:E.
  - exfalso. apply Hn. apply (g_exact o t). exists cs. exact E.
  - eauto.
  - exfalso. apply Hf. reflexivity.
Qed.

(* the layout of Spec.v (what the writers produce) is a special case of the general description *)
Lemma g_embeds (o : opts) (p : lprog) : layout_ok p = true -> in_range (claspExt o) p = true ->
  exists q, describes o q (render p) /\ gdenote q = denote p.
Proof.
  intros Hl Hr. pose proof (complete o p Hl Hr) as H. destruct (g_sound o _ _ H) as (q & Lq & Rq & Eq & Dq).
  exists q. repeat split; try assumption. symmetry. exact Dq.
Qed.

(* NUL-free texts (the domain on which C09 ties the abstract stream to BufferedStream): only whitespace behind the last step *)
Lemma nul_free_app a b : nul_free (a ++ b) -> nul_free a /\ nul_free b.
Proof. unfold nul_free. apply Forall_app. Qed.
Lemma tail_ws l : nul_free l -> tail_ok l = true -> ws_ok l = true.
Proof.
  unfold tail_ok. induction l as [|c r IH]; intros Hn H; [reflexivity|]. inversion Hn as [|? ? Hc Hr]; subst.
  cbn [drop_ws] in H. unfold ws_ok. cbn [forallb]. destruct (is_ws c) eqn:Ec.
  - apply IH; assumption.
  - cbn [hd] in H. apply Z.eqb_eq in H. contradiction.
Qed.
Lemma g_tail_nul_free (p : gprog) : glayout_ok p = true -> nul_free (grender p) -> ws_ok (gp_tail p) = true.
Proof.
  unfold glayout_ok, grender. intros H Hn. bsplit. apply nul_free_app in Hn. destruct Hn as [_ Hn]. now apply tail_ws.
Qed.

(* ================= the same for a reader with a configured atom limit vm (ProgramReader::setMaxVar(vm), vm <= atomMax) =================
   "in range" then includes: every atom of a rule and every head count is <= vm (SpecG.gin_range_v). *)
Section MaxVar.
Variable vm : Z.
Hypothesis Hvm : vm <= atomMax.
Let Hvm64 : vm <= INT64_MAX := Z.le_trans _ _ _ Hvm atomMax_le_int64.

Definition describes_v (o : opts) (p : gprog) (t : list Z) : Prop :=
  glayout_ok p = true /\ gin_range_v vm (claspExt o) p = true /\ t = grender p.

Lemma g_exact_v (o : opts) (t : list Z) :
  (exists cs, read_smodels_v vm o t = (cs, Ok tt)) <-> (exists p, describes_v o p t).
Proof.
  split.
  - intros [cs H]. destruct (g_sound_v vm o t cs H) as (p & Hl & Hr & Et & _). exists p. repeat split; assumption.
  - intros (p & Hl & Hr & ->). exists (gdenote p). now apply g_complete_v.
Qed.

Lemma g_denotes_v (o : opts) (t : list Z) (cs : list call) : read_smodels_v vm o t = (cs, Ok tt) ->
  (exists p, describes_v o p t /\ cs = gdenote p) /\ (forall p, describes_v o p t -> cs = gdenote p).
Proof.
  intros H. split.
  - destruct (g_sound_v vm o t cs H) as (p & Hl & Hr & Et & Ec). exists p. repeat split; assumption.
  - intros p (Hl & Hr & Et). subst t. rewrite (g_complete_v vm Hvm64 o p Hl Hr) in H. congruence.
Qed.

Lemma g_rejects_v (o : opts) (t : list Z) : ~ (exists p, describes_v o p t) -> exists cs ln, read_smodels_v vm o t = (cs, Err ln).
Proof.
  intros Hn. pose proof (no_fuel_exhaustion_v vm Hvm o t) as Hf. destruct (read_smodels_v vm o t) as [cs [[]|ln|]] eqn:E.
  - exfalso. apply Hn. apply (g_exact_v o t). exists cs. exact E.
  - eauto.
  - exfalso. apply Hf. reflexivity.
Qed.

Lemma g_embeds_v (o : opts) (p : lprog) : layout_ok p = true -> in_range_v vm (claspExt o) p = true ->
  exists q, describes_v o q (render p) /\ gdenote q = denote p.
Proof.
  intros Hl Hr. pose proof (complete_v vm Hvm64 o p Hl Hr) as H. destruct (g_sound_v vm o _ _ H) as (q & Lq & Rq & Eq & Dq).
  exists q. repeat split; try assumption. symmetry. exact Dq.
Qed.

(* lowering the limit only removes texts: what a reader with limit vm accepts, the reader without a configured limit accepts with
   the same calls (the limit never changes what an accepted text denotes) *)
Lemma gratom_mono n : gratom_in vm n = true -> gratom_in sm_varMax n = true.
Proof. unfold gratom_in, sm_varMax. unfold atomMax in Hvm. intros H. apply andb_prop in H. destruct H as [H1 H2]. apply Z.leb_le in H2. rewrite H1. apply Z.leb_le. lia. Qed.
Lemma forallb_mono {A} (f g : A -> bool) l : (forall a, f a = true -> g a = true) -> forallb f l = true -> forallb g l = true.
Proof. intros H. rewrite !forallb_forall. intros Hf a Ha. apply H, Hf, Ha. Qed.
Lemma gbody_mono b : gbody_in_v vm b = true -> gbody_in_v sm_varMax b = true.
Proof.
  unfold gbody_in_v. intros H. apply andb_prop in H. destruct H as [H1 H2]. rewrite H1. cbn [andb].
  exact (forallb_mono _ _ _ gratom_mono H2).
Qed.
Lemma grule_mono e r : grule_in_v vm e r = true -> grule_in_v sm_varMax e r = true.
Proof.
  destruct r; cbn [grule_in_v]; intros H;
    repeat match goal with Hx : _ && _ = true |- _ => apply andb_prop in Hx; destruct Hx end;
    repeat match goal with
           | Hx : gratom_in vm _ = true |- _ => apply gratom_mono in Hx; rewrite Hx
           | Hx : gbody_in_v vm _ = true |- _ => apply gbody_mono in Hx; rewrite Hx
           | Hx : forallb (gratom_in vm) _ = true |- _ => apply (forallb_mono _ _ _ gratom_mono) in Hx; rewrite Hx
           | Hx : ?x = true |- _ => rewrite Hx
           end; reflexivity.
Qed.
Lemma gin_range_mono e p : gin_range_v vm e p = true -> gin_range e p = true.
Proof.
  unfold gin_range, gin_range_v. intros H. apply andb_prop in H. destruct H as [H H3]. apply andb_prop in H. destruct H as [H1 H2].
  rewrite H2, H3, !andb_true_r. revert H1. apply forallb_mono. intros s Hs. unfold gstep_in_v in *.
  repeat match goal with Hx : _ && _ = true |- _ => apply andb_prop in Hx; destruct Hx end.
  repeat match goal with Hx : ?x = true |- context [?x] => rewrite Hx end. rewrite !andb_true_r.
  match goal with Hx : forallb (grule_in_v vm e) _ = true |- _ => revert Hx end. apply forallb_mono. apply grule_mono.
Qed.
Lemma g_limit_only_removes (o : opts) (t : list Z) (cs : list call) :
  read_smodels_v vm o t = (cs, Ok tt) -> read_smodels o t = (cs, Ok tt).
Proof.
  intros H. destruct (g_sound_v vm o t cs H) as (p & Hl & Hr & -> & ->).
  apply g_complete; [exact Hl | apply gin_range_mono; exact Hr].
Qed.
End MaxVar.
