(* C07 - steps and the whole program *)
Require Import V.Lib.Base V.Lib.Calls V.Lib.Dec V.C09.Spec V.Gen.Consts V.Gen.Consts_C07 V.C07.Model V.C07.Spec V.C07.ProofsLex V.C07.ProofsGram.
Local Open Scope Z_scope.

Definition set_tw (w : list Z) (rl : lrule) : lrule :=
  match rl with
  | RBasic _ h b => RBasic w h b
  | RMulti c _ nw hs b => RMulti c w nw hs b
  | RCard _ h b bnd => RCard w h b bnd
  | RWeight _ h bnd b wts => RWeight w h bnd b wts
  | RMin _ bnd b wts => RMin w bnd b wts
  | RInc _ z => RInc w z
  | RAssign _ a v => RAssign w a v
  | RRelease _ a => RRelease w a
  | ROther t => ROther (w, snd t)
  end.
Definition set_fw (w : list Z) (s : lstep) : lstep :=
  match s_rules s with
  | [] => mkstep [] w (s_syms s) (s_send s) (s_bpw s) (s_bplus s) (s_bpend s) (s_bmw s) (s_bminus s) (s_bmend s) (s_ext s) (s_models s)
  | rl :: t => mkstep (set_tw w rl :: t) (s_rend s) (s_syms s) (s_send s) (s_bpw s) (s_bplus s) (s_bpend s) (s_bmw s) (s_bminus s) (s_bmend s) (s_ext s) (s_models s)
  end.
Definition step_fw (s : lstep) : list Z := match s_rules s with [] => s_rend s | rl :: _ => rule_tw rl end.
Definition step_body (s : lstep) : list Z := r_step (set_fw [] s).

Lemma set_tw_props w rl : rule_type (set_tw w rl) = rule_type rl /\ rule_fields (set_tw w rl) = rule_fields rl /\
  rule_ok (set_tw w rl) = rule_ok rl /\ rule_tw (set_tw w rl) = w /\
  (forall e, rule_in e (set_tw w rl) = rule_in e rl) /\ (forall p, d_rule p (set_tw w rl) = d_rule p rl).
Proof. destruct rl; cbn; repeat split; reflexivity. Qed.

Lemma r_step_split s : r_step s = step_fw s ++ step_body s.
Proof.
  unfold step_body, step_fw, set_fw, r_step. destruct s as [rules rend syms send bpw bp bpend bmw bm bmend ext models]. cbn [s_rules s_rend s_syms s_send s_bpw s_bplus s_bpend s_bmw s_bminus s_bmend s_ext s_models].
  destruct rules as [|rl t]; cbn [flat_map s_rules s_rend s_syms s_send s_bpw s_bplus s_bpend s_bmw s_bminus s_bmend s_ext s_models app].
  - unfold r_zero. cbn [app]. rewrite <- app_assoc. reflexivity.
  - unfold r_rule. destruct (set_tw_props [] rl) as (E1 & E2 & _ & E4 & _). rewrite E1, E2, E4. cbn [app]. rewrite <- !app_assoc. reflexivity.
Qed.

Lemma set_fw_ok lead s : step_ok lead s = true -> step_ok false (set_fw [] s) = true.
Proof.
  unfold step_ok, set_fw. destruct s as [rules rend syms send bpw bp bpend bmw bm bmend ext models]. cbn [s_rules s_rend s_syms s_send s_bpw s_bplus s_bpend s_bmw s_bminus s_bmend s_ext s_models].
  intros H. destruct rules as [|rl t]; cbn [s_rules s_rend s_syms s_send s_bpw s_bplus s_bpend s_bmw s_bminus s_bmend s_ext s_models rules_ok isnil negb orb front_ok andb] in *.
  - bsplit. repeat match goal with Hx : ?x = true |- context [?x] => rewrite Hx end; reflexivity.
  - destruct (set_tw_props [] rl) as (_ & _ & E3 & E4 & _). rewrite E3, E4. cbn [front_ok andb].
    bsplit. rewrite ?orb_true_r in *. cbn [front_ok] in *. repeat match goal with Hx : ?x = true |- context [?x] => rewrite Hx end; reflexivity.
Qed.

Lemma step_fw_sep s : step_ok true s = true -> sep_ok (step_fw s) = true.
Proof.
  unfold step_ok, step_fw. intros H. bsplit. destruct (s_rules s) as [|rl t].
  - cbn [orb front_ok] in *. assumption.
  - match goal with Hx : rules_ok true (rl :: t) = true |- _ => cbn [rules_ok front_ok] in Hx end. bsplit. assumption.
Qed.

Lemma step_body_hd s x : step_ok false (set_fw [] s) = true ->
  exists d y, step_body s ++ x = d :: y /\ is_digit d = true.
Proof.
  unfold step_body, set_fw, r_step, step_ok. destruct (s_rules s) as [|rl t]; cbn [s_rules s_rend flat_map app]; intros H.
  - unfold r_zero. cbn [app]. eexists 48, _. split; reflexivity.
  - bsplit. match goal with Hx : rules_ok false _ = true |- _ => cbn [rules_ok] in Hx end. bsplit.
    unfold r_rule. destruct (set_tw_props [] rl) as (E1 & E2 & E3 & E4 & _). rewrite E1, E4. cbn [app].
    match goal with Hx : rule_ok (set_tw [] rl) = true |- _ => rewrite E3 in Hx; pose proof (rule_type_nonneg rl Hx) as Hty end.
    pose proof (print_nat_hd_digit (rule_type rl) ltac:(lia)) as Hd. pose proof (print_nat_nonempty (rule_type rl) ltac:(lia)) as Hne.
    destruct (print_nat (rule_type rl)) as [|d ds]; [congruence|]. cbn [hd] in Hd. rewrite <- !app_assoc. cbn [app].
    eexists d, _. split; [reflexivity | exact Hd].
Qed.

(* ================= generic in the reader's atom limit vm (ProgramReader::setMaxVar); the statements without a limit
   (vm = sm_varMax = atomMax: set_fw_sem, reader_spec, complete, rejects, denotes, never_fuel, ...) follow behind the section ================= *)
Section MaxVar.
Variable vm : Z.
Hypothesis Hvm : vm <= INT64_MAX.
Local Notation rule_in := (rule_in_v vm).
Local Notation step_in := (step_in_v vm).
Local Notation in_range := (in_range_v vm).
Local Notation parse_steps := (parse_steps_v vm).
Local Notation read_smodels := (read_smodels_v vm).

Lemma set_tw_in_v w rl e : rule_in e (set_tw w rl) = rule_in e rl.
Proof. destruct rl; reflexivity. Qed.

Lemma set_fw_sem_v w s e : step_in e (set_fw w s) = step_in e s /\ d_step (set_fw w s) = d_step s.
Proof.
  unfold step_in_v, d_step, set_fw. destruct s as [rules rend syms send bpw bp bpend bmw bm bmend ext models]. cbn [s_rules s_rend s_syms s_send s_bpw s_bplus s_bpend s_bmw s_bminus s_bmend s_ext s_models].
  destruct rules as [|rl t]; cbn [s_rules s_rend s_syms s_send s_bpw s_bplus s_bpend s_bmw s_bminus s_bmend s_ext s_models]; [split; reflexivity|].
  destruct (set_tw_props w rl) as (_ & _ & _ & _ & _ & E6). cbn [forallb d_rules]. rewrite set_tw_in_v, E6. split; reflexivity.
Qed.

Definition uspec (b : bool) (m : cres unit) (cs : list call) : Prop :=
  if b then m = (cs, Ok tt) else exists cs' ln, m = (cs', Err ln).

Lemma steps_spec_v (o : opts) (inc : bool) tail : ws_ok tail = true ->
  forall n l lead fuel ln, length l = S n -> (n < fuel)%nat -> steps_ok lead l = true ->
  uspec (forallb (step_in (claspExt o)) l && ((length l <=? 1)%nat || inc))
        (parse_steps fuel o inc (amk (flat_map r_step l ++ tail) ln)) (flat_map d_step l).
Proof.
  intros Htail. induction n as [|n IH]; intros l lead fuel ln Hlen Hfu Hok;
    (destruct fuel as [|fu]; [lia|]); destruct l as [|s l]; try discriminate; cbn [steps_ok] in Hok; apply andb_prop in Hok; destruct Hok as [Hs Hl].
  - destruct l; [|discriminate]. cbn [flat_map app forallb length Nat.leb orb parse_steps_v]. rewrite !app_nil_r, !andb_true_r.
    assert (Hd : delim tail). { destruct tail as [|c t]; [exact I|]. cbn in Htail. bsplit. cbn. now apply ws_not_digit. }
    pose proof (step_v_spec vm Hvm o lead s tail ln Hs Hd) as Hp.
    destruct (step_in (claspExt o) s).
    + destruct Hp as [ln1 E]. rewrite E. cbn [cbind]. unfold a_skipws. cbn [rest aline].
      destruct (skipws_app (length tail) tail [] ln1 (le_n _) Htail I) as [ln2 E2]. rewrite app_nil_r in E2. rewrite E2.
      cbn. rewrite app_nil_r. reflexivity.
    + destruct Hp as (cs' & ln1 & E). rewrite E. cbn [cbind]. eexists _, ln1. reflexivity.
  - destruct l as [|s2 l]; [discriminate|]. cbn [steps_ok] in Hl. apply andb_prop in Hl. destruct Hl as [Hs2 Hl].
    cbn [flat_map forallb parse_steps_v]. rewrite <- !app_assoc. rewrite (r_step_split s2), <- !app_assoc.
    pose proof (step_fw_sep s2 Hs2) as Hsep. pose proof (set_fw_ok true s2 Hs2) as Hok2.
    pose proof (step_v_spec vm Hvm o lead s (step_fw s2 ++ step_body s2 ++ flat_map r_step l ++ tail) ln Hs ltac:(now apply delim_sep)) as Hp.
    change (length (s :: s2 :: l) <=? 1)%nat with false. cbn [orb].
    destruct (step_in (claspExt o) s); cbn [andb].
    + destruct Hp as [ln1 E]. rewrite E. cbn [cbind]. unfold a_skipws. cbn [rest aline].
      destruct (step_body_hd s2 (flat_map r_step l ++ tail) Hok2) as (d & y & Ey & Hd).
      destruct (skipws_app (length (step_fw s2)) (step_fw s2) (step_body s2 ++ flat_map r_step l ++ tail) ln1 (le_n _) (sep_ok_ws _ Hsep)) as [ln2 E2].
      { rewrite Ey. now apply digit_not_ws. }
      rewrite E2. unfold a_end, a_peek. cbn [rest]. rewrite Ey.
      assert (Hd0 : (d =? 0) = false) by (unfold is_digit in Hd; lia). rewrite Hd0. cbn [negb andb].
      destruct inc; cbn [negb].
      * rewrite <- Ey.
        specialize (IH (set_fw [] s2 :: l) false fu ln2 ltac:(cbn in *; lia) ltac:(lia) ltac:(cbn [steps_ok]; rewrite Hok2, Hl; reflexivity)).
        cbn [flat_map forallb] in IH. fold (step_body s2) in IH. rewrite <- app_assoc in IH.
        destruct (set_fw_sem_v [] s2 (claspExt o)) as [E5 E6]. rewrite E5, E6, orb_true_r, andb_true_r in IH. rewrite andb_true_r.
        destruct (step_in (claspExt o) s2 && forallb (step_in (claspExt o)) l).
        -- rewrite IH. reflexivity.
        -- destruct IH as (cs' & ln3 & E3). rewrite E3. eexists _, ln3. reflexivity.
      * rewrite andb_false_r. eexists _, ln2. reflexivity.
    + destruct Hp as (cs' & ln1 & E). rewrite E. cbn [cbind]. eexists _, ln1. reflexivity.
Qed.

(* ---- the whole text ---- *)
Lemma step_fw_nil s : step_ok false s = true -> step_fw s = [].
Proof.
  unfold step_ok, step_fw. intros H. bsplit. destruct (s_rules s) as [|rl t].
  - cbn [isnil negb orb front_ok] in *. destruct (s_rend s); [reflexivity | congruence].
  - match goal with Hx : rules_ok false (rl :: t) = true |- _ => cbn [rules_ok front_ok] in Hx end. bsplit.
    destruct (rule_tw rl); [reflexivity | congruence].
Qed.

Lemma r_step_len s : (1 <= length (r_step s))%nat.
Proof. unfold r_step, r_zero. rewrite !app_length. cbn [length]. lia. Qed.

Lemma first9_v s x : step_ok false s = true -> hd 0 (r_step s ++ x) = 57 -> step_in false s = false.
Proof.
  intros Hok. pose proof (step_fw_nil s Hok) as Hfw. unfold step_ok in Hok. bsplit.
  unfold step_fw in Hfw. unfold r_step, step_in_v. destruct (s_rules s) as [|rl t].
  - subst. cbn [flat_map app]. match goal with Hx : s_rend s = [] |- _ => rewrite Hx end. cbn. discriminate.
  - cbn [flat_map forallb]. unfold r_rule. rewrite Hfw. cbn [app]. rewrite <- !app_assoc.
    destruct rl as [tw h b|ch tw nw hs b|tw h b bnd|tw h bnd b wts|tw bnd b wts|tw z|tw a v|tw a|t0]; cbn [rule_type rule_in_v andb]; try reflexivity;
      try (destruct ch); intros Hx; vm_compute in Hx; discriminate.
Qed.

Theorem reader_spec_v (o : opts) p : layout_ok p = true ->
  uspec (in_range (claspExt o) p) (read_smodels o (render p)) (denote p).
Proof.
  unfold layout_ok. intros H. bsplit. destruct (p_steps p) as [|s l] eqn:Esteps; [discriminate|].
  match goal with Hx : steps_ok false (s :: l) = true |- _ => pose proof Hx as Hsteps; cbn [steps_ok] in Hx; apply andb_prop in Hx; destruct Hx as [Hs Hl] end.
  pose proof (set_fw_ok false s Hs) as Hok2.
  assert (Er : render p = step_body s ++ flat_map r_step l ++ p_tail p).
  { unfold render. rewrite Esteps. cbn [flat_map]. rewrite (r_step_split s), (step_fw_nil s Hs), <- app_assoc. reflexivity. }
  destruct (step_body_hd s (flat_map r_step l ++ p_tail p) Hok2) as (d & y & Ey & Hd).
  unfold read_smodels_v, a_init, a_peek. cbn [rest].
  assert (Einc : incremental p = (d =? 57)). { unfold incremental, first_byte. rewrite Er, Ey. reflexivity. }
  assert (Efull : render p = flat_map r_step (s :: l) ++ p_tail p). { unfold render. now rewrite Esteps. }
  rewrite Er, Ey, Hd. cbn [andb]. rewrite <- Ey, <- Er, Efull.
  unfold in_range_v, denote. rewrite Esteps, Einc.
  destruct (negb (d =? 57) || claspExt o) eqn:Eprobe.
  - pose proof (steps_spec_v o (d =? 57) (p_tail p) ltac:(assumption) (length l) (s :: l) false
                  (fuel_of (amk (flat_map r_step (s :: l) ++ p_tail p) 1)) 1 eq_refl) as Hp.
    assert (Hfu : (length l < fuel_of (amk (flat_map r_step (s :: l) ++ p_tail p) 1))%nat).
    { unfold fuel_of. cbn [rest]. rewrite app_length.
      pose proof (len_flat r_step (s :: l) (fun a _ => r_step_len a)). cbn [length] in *. lia. }
    specialize (Hp Hfu Hsteps).
    assert (Eb : forallb (step_in (claspExt o)) (s :: l) && ((length (s :: l) <=? 1)%nat || (d =? 57)) =
                 forallb (step_in (claspExt o)) (s :: l) && ((length (s :: l) <=? 1)%nat || (claspExt o && (d =? 57)))).
    { destruct (d =? 57), (claspExt o); try reflexivity. discriminate. }
    rewrite <- Eb. cbn [cbind].
    destruct (forallb (step_in (claspExt o)) (s :: l) && ((length (s :: l) <=? 1)%nat || (d =? 57))).
    + rewrite Hp. reflexivity.
    + destruct Hp as (cs' & ln & E). rewrite E. eexists _, ln. reflexivity.
  - apply orb_false_elim in Eprobe. destruct Eprobe as [E9 Eext]. apply negb_false_iff in E9. apply Z.eqb_eq in E9. subst d.
    rewrite Eext.
    assert (Hf : step_in false s = false).
    { apply (first9_v s (flat_map r_step l ++ p_tail p) Hs). rewrite (r_step_split s), (step_fw_nil s Hs). cbn [app]. rewrite Ey. reflexivity. }
    cbn [forallb]. rewrite Hf. cbn [andb]. eexists _, 1. reflexivity.
Qed.

(* ---- corollaries ---- *)
Lemma complete_v (o : opts) p : layout_ok p = true -> in_range (claspExt o) p = true ->
  read_smodels o (render p) = (denote p, Ok tt).
Proof. intros H Hin. pose proof (reader_spec_v o p H) as Hs. rewrite Hin in Hs. exact Hs. Qed.

Lemma rejects_v (o : opts) p : layout_ok p = true -> in_range (claspExt o) p = false ->
  exists cs ln, read_smodels o (render p) = (cs, Err ln).
Proof. intros H Hin. pose proof (reader_spec_v o p H) as Hs. rewrite Hin in Hs. exact Hs. Qed.

Lemma denotes_v (o : opts) p cs : layout_ok p = true -> read_smodels o (render p) = (cs, Ok tt) ->
  in_range (claspExt o) p = true /\ cs = denote p.
Proof.
  intros H E. pose proof (reader_spec_v o p H) as Hs. destruct (in_range (claspExt o) p).
  - rewrite Hs in E. inversion E. split; reflexivity.
  - destruct Hs as (cs' & ln & E2). rewrite E2 in E. discriminate.
Qed.

Lemma never_fuel_v (o : opts) p cs : layout_ok p = true -> read_smodels o (render p) <> (cs, Fuel).
Proof.
  intros H E. pose proof (reader_spec_v o p H) as Hs. destruct (in_range (claspExt o) p).
  - rewrite Hs in E. discriminate.
  - destruct Hs as (cs' & ln & E2). rewrite E2 in E. discriminate.
Qed.

Lemma in_range_rule_false_v ext p s rl : In s (p_steps p) -> In rl (s_rules s) -> rule_in ext rl = false -> in_range ext p = false.
Proof.
  intros Hs Hr Hf. unfold in_range_v.
  assert (E : forallb (step_in ext) (p_steps p) = false).
  { apply not_true_is_false. intros Ht. rewrite forallb_forall in Ht. specialize (Ht s Hs). unfold step_in_v in Ht. bsplit.
    match goal with Hx : forallb (rule_in ext) (s_rules s) = true |- _ => rewrite forallb_forall in Hx; specialize (Hx rl Hr) end. congruence. }
  rewrite E. reflexivity.
Qed.

Lemma in_range_step_false_v ext p s : In s (p_steps p) -> step_in ext s = false -> in_range ext p = false.
Proof.
  intros Hs Hf. unfold in_range_v.
  assert (E : forallb (step_in ext) (p_steps p) = false).
  { apply not_true_is_false. intros Ht. rewrite forallb_forall in Ht. specialize (Ht s Hs). congruence. }
  rewrite E. reflexivity.
Qed.

End MaxVar.

(* ---- the instance without a limit: vm = sm_varMax = atomMax (by conversion) ---- *)
Lemma set_fw_sem w s e : step_in e (set_fw w s) = step_in e s /\ d_step (set_fw w s) = d_step s.
Proof. exact (set_fw_sem_v sm_varMax w s e). Qed.
Theorem reader_spec (o : opts) p : layout_ok p = true ->
  uspec (in_range (claspExt o) p) (read_smodels o (render p)) (denote p).
Proof. exact (reader_spec_v sm_varMax atomMax_le_int64 o p). Qed.
Lemma complete (o : opts) p : layout_ok p = true -> in_range (claspExt o) p = true ->
  read_smodels o (render p) = (denote p, Ok tt).
Proof. exact (complete_v sm_varMax atomMax_le_int64 o p). Qed.
Lemma rejects (o : opts) p : layout_ok p = true -> in_range (claspExt o) p = false ->
  exists cs ln, read_smodels o (render p) = (cs, Err ln).
Proof. exact (rejects_v sm_varMax atomMax_le_int64 o p). Qed.
Lemma denotes (o : opts) p cs : layout_ok p = true -> read_smodels o (render p) = (cs, Ok tt) ->
  in_range (claspExt o) p = true /\ cs = denote p.
Proof. exact (denotes_v sm_varMax atomMax_le_int64 o p cs). Qed.
Lemma never_fuel (o : opts) p cs : layout_ok p = true -> read_smodels o (render p) <> (cs, Fuel).
Proof. exact (never_fuel_v sm_varMax atomMax_le_int64 o p cs). Qed.
Lemma in_range_rule_false ext p s rl : In s (p_steps p) -> In rl (s_rules s) -> rule_in ext rl = false -> in_range ext p = false.
Proof. exact (in_range_rule_false_v sm_varMax ext p s rl). Qed.
Lemma in_range_step_false ext p s : In s (p_steps p) -> step_in ext s = false -> in_range ext p = false.
Proof. exact (in_range_step_false_v sm_varMax ext p s). Qed.

Lemma forallb_false_in {A} (f : A -> bool) l a : In a l -> f a = false -> forallb f l = false.
Proof. intros Hin Hf. apply not_true_is_false. intros Ht. rewrite forallb_forall in Ht. specialize (Ht a Hin). congruence. Qed.
