(* C07: the case decoder V.C07.Run.run_case agrees with V.C07.Model.run_case on every case without a conversion option, and on a case
   with convertHeuristic (option value 4) whose text has no `_heuristic(` it is the Model's answer for the same case WITHOUT the option. *)
Require Import ZArith List Bool Lia.
Require Import V.Lib.Base V.C07.Model V.C07.Run.
Import ListNotations.
Local Open Scope Z_scope.

Lemma run_plain : forall n ob len r, (ob / 2) mod 4 = 0 ->
  V.C07.Run.run_case (n :: ob :: len :: r) = V.C07.Model.run_case (n :: ob :: len :: r).
Proof.
  intros n ob len r H.
  assert (H2 : (ob / 2) mod 2 = 0) by (revert H; generalize (ob / 2); intros q H; Z.div_mod_to_equations; lia).
  assert (H4 : (ob / 4) mod 2 = 0).
  { replace (ob / 4) with (ob / 2 / 2) by (rewrite Z.div_div by lia; reflexivity).
    revert H; generalize (ob / 2); intros q H; Z.div_mod_to_equations; lia. }
  unfold V.C07.Run.run_case, V.C07.Model.run_case.
  rewrite H, H2, H4. cbn [Z.eqb negb andb]. reflexivity.
Qed.

Lemma run_heu_ignored : forall n ob len r,
  (ob / 2) mod 2 = 0 -> (ob / 4) mod 2 = 1 -> has_sub heu_pred (firstn (Z.to_nat len) r) = false ->
  V.C07.Run.run_case (n :: ob :: len :: r) = V.C07.Model.run_case (n :: (ob - 4) :: len :: r).
Proof.
  intros n ob len r H2 H4 Hs.
  assert (E4 : ob / 4 = ob / 2 / 2) by (rewrite Z.div_div by lia; reflexivity).
  assert (E8 : ob / 8 = ob / 2 / 2 / 2) by (rewrite !Z.div_div by lia; reflexivity).
  assert (F2 : (ob - 4) / 2 = ob / 2 - 2) by (replace (ob - 4) with (ob + (-2) * 2) by lia; rewrite Z.div_add by lia; lia).
  assert (F8 : (ob - 4) / 8 = (ob / 2 - 2) / 2 / 2) by (rewrite <- F2; rewrite !Z.div_div by lia; reflexivity).
  assert (G : ((ob - 4) / 2) mod 4 = 0).
  { rewrite F2. rewrite E4 in H4. revert H2 H4; generalize (ob / 2); intros q H2 H4; Z.div_mod_to_equations; lia. }
  assert (G8 : ((ob - 4) / 8) mod 2 = (ob / 8) mod 2).
  { rewrite F8, E8. rewrite E4 in H4. revert H2 H4; generalize (ob / 2); intros q H2 H4.
    assert (q = 4 * (q / 2 / 2) + 2) by (Z.div_mod_to_equations; lia).
    assert ((q - 2) / 2 / 2 = q / 2 / 2) by (Z.div_mod_to_equations; lia). congruence. }
  assert (O : Z.odd (ob - 4) = Z.odd ob) by (rewrite Z.odd_sub; cbn; apply xorb_false_r).
  unfold V.C07.Run.run_case, V.C07.Model.run_case.
  rewrite H2, H4, Hs, G, G8, O. cbn [Z.eqb negb andb]. reflexivity.
Qed.
