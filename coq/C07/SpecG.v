(* C07 - the GENERAL declarative description of smodels texts (definitions only).

   Spec.v describes the texts a writer produces (plain decimal numbers, whitespace separators).  The reader accepts more:
   an optional '+' (or "-0"), leading zeros, numbers separated by a sign only ("3+4"), any byte but a digit / NUL as the
   separator behind a symbol-table atom (also LF, CR, CRLF), the keyword E directly followed by a number, a NUL byte
   followed by arbitrary bytes behind the last step.  This file describes exactly that language:

   - a number token [gnum] is  whitespace (bytes 9..32), an optional sign, a non-empty digit string; it DENOTES the decimal
     value of the digit string ([nval], unbounded); '-' is only allowed when that value is 0;
   - digit strings are maximal: the byte following a number token is not a digit ([nd]).  Well-formedness predicates take
     the text FOLLOWING the item as a second argument ([k]) to express this (and the two CR/LF look-ahead conditions);
   - a line break [term_ok] is LF, CRLF, or a CR that is not followed by LF;
   - a rule is a sequence of number tokens ([rule_toks]) whose counts agree with the list lengths and whose first token
     denotes the rule type ([grule_shape]);
   - a symbol-table line is  atom, separator, name (no NUL/LF/CR), line break;
   - "B+" / "B-" are preceded by whitespace and followed directly by a line break; "E" is optional;
   - [grender] is the text, [glayout_ok] the shape, [gin_range] the magnitudes (same limits as Spec.in_range),
     [gdenote] the calls.                                                                                     *)
Require Import V.Lib.Base V.Lib.Calls V.Lib.Dec V.Gen.Consts V.Gen.Consts_C07 V.C07.Model V.C07.Spec.
Local Open Scope Z_scope.

Record gnum := mkgnum { n_ws : list Z; n_sg : list Z; n_ds : list Z }.
Definition nval (n : gnum) : Z := value (n_ds n).
Definition r_gnum (n : gnum) : list Z := n_ws n ++ n_sg n ++ n_ds n.
Definition r_gnums (l : list gnum) : list Z := flat_map r_gnum l.
Definition gvals (l : list gnum) : list Z := map nval l.

(* the next byte is not a digit *)
Definition nd (k : list Z) : bool := negb (is_digit (hd 0 k)).
Definition sg_ok (n : gnum) : bool :=
  match n_sg n with
  | [] => true
  | [c] => (c =? 43) || ((c =? 45) && (nval n =? 0))
  | _ => false
  end.
Definition digits_ok (ds : list Z) : bool := forallb is_digit ds && negb (isnil ds).
Definition gnum_ok (n : gnum) (k : list Z) : bool := ws_ok (n_ws n) && sg_ok n && digits_ok (n_ds n) && nd k.

(* a sequence of items, each judged with the text that follows it *)
Section Seq.
  Context {A : Type} (r : A -> list Z) (ok : A -> list Z -> bool).
  Fixpoint seq_ok (l : list A) (k : list Z) : bool :=
    match l with
    | [] => true
    | x :: l' => ok x (flat_map r l' ++ k) && seq_ok l' k
    end.
End Seq.
Definition gnums_ok (l : list gnum) (k : list Z) : bool := seq_ok r_gnum gnum_ok l k.

(* line break: LF | CRLF | CR not followed by LF *)
Definition term_ok (t k : list Z) : bool :=
  match t with
  | [c] => (c =? 10) || ((c =? 13) && negb (hd 0 k =? 10))
  | [c1; c2] => (c1 =? 13) && (c2 =? 10)
  | _ => false
  end.
(* the separator behind a symbol-table atom: what one get() consumes, neither a digit nor NUL *)
Definition gsep_ok (t k : list Z) : bool :=
  match t with
  | [c] => negb (is_digit c) && negb (c =? 0) && negb ((c =? 13) && (hd 0 k =? 10))
  | [c1; c2] => (c1 =? 13) && (c2 =? 10)
  | _ => false
  end.

(* ---------------- rules ---------------- *)
Record gbody := mkgbody { gb_len : gnum; gb_neg : gnum; gb_atoms : list gnum }.

Inductive grule :=
| GBasic (t h : gnum) (b : gbody)
| GMulti (t n : gnum) (hs : list gnum) (b : gbody)          (* choice (3) or disjunctive (8) *)
| GCard (t h : gnum) (b : gbody) (bnd : gnum)               (* text: h len neg bnd atoms *)
| GWeight (t h bnd : gnum) (b : gbody) (wts : list gnum)    (* text: h bnd len neg atoms weights *)
| GMin (t bnd : gnum) (b : gbody) (wts : list gnum)         (* text: 0 len neg atoms weights *)
| GInc (t z : gnum)
| GAssign (t a v : gnum)
| GRelease (t a : gnum).

Definition rule_toks (r : grule) : list gnum :=
  match r with
  | GBasic t h b => t :: h :: gb_len b :: gb_neg b :: gb_atoms b
  | GMulti t n hs b => t :: n :: hs ++ gb_len b :: gb_neg b :: gb_atoms b
  | GCard t h b bnd => t :: h :: gb_len b :: gb_neg b :: bnd :: gb_atoms b
  | GWeight t h bnd b wts => t :: h :: bnd :: gb_len b :: gb_neg b :: gb_atoms b ++ wts
  | GMin t bnd b wts => t :: bnd :: gb_len b :: gb_neg b :: gb_atoms b ++ wts
  | GInc t z => [t; z]
  | GAssign t a v => [t; a; v]
  | GRelease t a => [t; a]
  end.
Definition len_is (n : gnum) (l : list gnum) : bool := nval n =? Z.of_nat (length l).
Definition gbody_shape (b : gbody) : bool := len_is (gb_len b) (gb_atoms b).
Definition grule_shape (r : grule) : bool :=
  match r with
  | GBasic t _ b => (nval t =? Sm_Basic) && gbody_shape b
  | GMulti t n hs b => ((nval t =? Sm_Choice) || (nval t =? Sm_Disjunctive)) && len_is n hs && gbody_shape b
  | GCard t _ b _ => (nval t =? Sm_Cardinality) && gbody_shape b
  | GWeight t _ _ b wts => (nval t =? Sm_Weight) && gbody_shape b && len_is (gb_len b) wts
  | GMin t _ b wts => (nval t =? Sm_Optimize) && gbody_shape b && len_is (gb_len b) wts
  | GInc t _ => nval t =? Sm_ClaspIncrement
  | GAssign t _ _ => nval t =? Sm_ClaspAssignExt
  | GRelease t _ => nval t =? Sm_ClaspReleaseExt
  end.

(* ---------------- symbol table ---------------- *)
Record gsym := mkgsym { gy_atom : gnum; gy_sep : list Z; gy_name : list Z; gy_term : list Z }.
Definition r_gsym (y : gsym) : list Z := r_gnum (gy_atom y) ++ gy_sep y ++ gy_name y ++ gy_term y.
Definition gsym_ok (y : gsym) (k : list Z) : bool :=
  gnum_ok (gy_atom y) (gy_sep y ++ gy_name y ++ gy_term y ++ k) &&
  gsep_ok (gy_sep y) (gy_name y ++ gy_term y ++ k) && name_ok (gy_name y) && term_ok (gy_term y) k.
Definition r_gsyms (l : list gsym) : list Z := flat_map r_gsym l.
Definition gsyms_ok (l : list gsym) (k : list Z) : bool := seq_ok r_gsym gsym_ok l k.

(* ---------------- steps ---------------- *)
Record gstep := mkgstep {
  g_rules : list grule; g_rend : gnum;
  g_syms : list gsym; g_send : gnum;
  g_bpw : list Z; g_bpnl : list Z; g_bplus : list gnum; g_bpend : gnum;
  g_bmw : list Z; g_bmnl : list Z; g_bminus : list gnum; g_bmend : gnum;
  g_ext : option (list Z * list gnum * gnum);
  g_models : gnum }.

(* keyword section:  ws keyword linebreak atoms... 0 *)
Definition r_comp (w kw nlt : list Z) (l : list gnum) (e : gnum) : list Z := w ++ kw ++ nlt ++ r_gnums (l ++ [e]).
Definition comp_ok (w nlt : list Z) (l : list gnum) (e : gnum) (k : list Z) : bool :=
  ws_ok w && term_ok nlt (r_gnums (l ++ [e]) ++ k) && gnums_ok (l ++ [e]) k && (nval e =? 0).
Definition r_gext (e : option (list Z * list gnum * gnum)) : list Z :=
  match e with
  | Some (w, l, z) => w ++ sm_kw_ext ++ r_gnums (l ++ [z])
  | None => []
  end.
Definition gext_ok (e : option (list Z * list gnum * gnum)) (k : list Z) : bool :=
  match e with
  | Some (w, l, z) => ws_ok w && gnums_ok (l ++ [z]) k && (nval z =? 0)
  | None => true
  end.

Definition step_toks (s : gstep) : list gnum := flat_map rule_toks (g_rules s) ++ [g_rend s].
Definition r_sec_models (s : gstep) : list Z := r_gnum (g_models s).
Definition r_sec_ext (s : gstep) : list Z := r_gext (g_ext s) ++ r_sec_models s.
Definition r_sec_bm (s : gstep) : list Z := r_comp (g_bmw s) sm_kw_bminus (g_bmnl s) (g_bminus s) (g_bmend s) ++ r_sec_ext s.
Definition r_sec_bp (s : gstep) : list Z := r_comp (g_bpw s) sm_kw_bplus (g_bpnl s) (g_bplus s) (g_bpend s) ++ r_sec_bm s.
Definition r_sec_syms (s : gstep) : list Z := r_gsyms (g_syms s) ++ r_gnum (g_send s) ++ r_sec_bp s.
Definition r_gstep (s : gstep) : list Z := r_gnums (step_toks s) ++ r_sec_syms s.

Definition gstep_ok (s : gstep) (k : list Z) : bool :=
  gnums_ok (step_toks s) (r_sec_syms s ++ k) && forallb grule_shape (g_rules s) && (nval (g_rend s) =? 0) &&
  gsyms_ok (g_syms s) (r_gnum (g_send s) ++ r_sec_bp s ++ k) && gnum_ok (g_send s) (r_sec_bp s ++ k) && (nval (g_send s) =? 0) &&
  comp_ok (g_bpw s) (g_bpnl s) (g_bplus s) (g_bpend s) (r_sec_bm s ++ k) &&
  comp_ok (g_bmw s) (g_bmnl s) (g_bminus s) (g_bmend s) (r_sec_ext s ++ k) &&
  gext_ok (g_ext s) (r_sec_models s ++ k) && gnum_ok (g_models s) k.

Record gprog := mkgprog { gp_steps : list gstep; gp_tail : list Z }.
Definition grender (p : gprog) : list Z := flat_map r_gstep (gp_steps p) ++ gp_tail p.

(* behind the last step: whitespace, then nothing or a NUL byte (and then anything) *)
Fixpoint drop_ws (l : list Z) : list Z :=
  match l with
  | c :: r => if is_ws c then drop_ws r else l
  | [] => []
  end.
Definition tail_ok (t : list Z) : bool := hd 0 (drop_ws t) =? 0.

Definition glayout_ok (p : gprog) : bool :=
  seq_ok r_gstep gstep_ok (gp_steps p) (gp_tail p) && negb (isnil (gp_steps p)) && tail_ok (gp_tail p) &&
  is_digit (hd 0 (grender p)).                               (* format probe: the text starts with a digit *)

(* ---------------- range conditions (the limits of Spec.in_range on the denoted values) ---------------- *)
Definition gatom_in (n : gnum) : bool := (1 <=? nval n) && (nval n <=? atomMax).
Definition gweight_in (n : gnum) : bool := nval n <=? INT_MAX.
Definition gcount_in (n : gnum) : bool := nval n <=? UINT_MAX.
(* an atom of a RULE (head, body of any rule type, atom of 91 / 92) and the head count of a choice / disjunctive rule are read with the
   reader's member matchAtom: 1 .. vm, vm = the limit set with ProgramReader::setMaxVar (default sm_varMax = atomMax); symbol-table,
   compute and E-section atoms are read with matchPos(atomMax): gatom_in whatever vm is *)
Definition gratom_in (vm : Z) (n : gnum) : bool := (1 <=? nval n) && (nval n <=? vm).
Definition gbody_in_v (vm : Z) (b : gbody) : bool :=
  gcount_in (gb_len b) && gcount_in (gb_neg b) && (nval (gb_neg b) <=? nval (gb_len b)) && forallb (gratom_in vm) (gb_atoms b).
Definition grule_in_v (vm : Z) (ext : bool) (r : grule) : bool :=
  match r with
  | GBasic _ h b => gratom_in vm h && gbody_in_v vm b
  | GMulti _ n hs b => gratom_in vm n && forallb (gratom_in vm) hs && gbody_in_v vm b
  | GCard _ h b bnd => gratom_in vm h && gbody_in_v vm b && gweight_in bnd
  | GWeight _ h bnd b wts => gratom_in vm h && gweight_in bnd && gbody_in_v vm b && forallb gweight_in wts
  | GMin _ bnd b wts => gweight_in bnd && gbody_in_v vm b && forallb gweight_in wts
  | GInc _ z => ext && (nval z =? 0)
  | GAssign _ a v => ext && gratom_in vm a && (nval v <=? 2)
  | GRelease _ a => ext && gratom_in vm a
  end.
Definition gext_in (e : option (list Z * list gnum * gnum)) : bool :=
  match e with Some (_, l, _) => forallb gatom_in l | None => true end.
Definition gstep_in_v (vm : Z) (ext : bool) (s : gstep) : bool :=
  forallb (grule_in_v vm ext) (g_rules s) && forallb (fun y => gatom_in (gy_atom y)) (g_syms s) &&
  forallb gatom_in (g_bplus s) && forallb gatom_in (g_bminus s) && gext_in (g_ext s) && gcount_in (g_models s).
(* a text whose first byte is '9' is an incremental program: only with the clasp extension; only such a text may have
   more than one step *)
Definition gincremental (p : gprog) : bool := hd 0 (grender p) =? 57.
Definition gin_range_v (vm : Z) (ext : bool) (p : gprog) : bool :=
  forallb (gstep_in_v vm ext) (gp_steps p) && (negb (gincremental p) || ext) &&
  ((length (gp_steps p) <=? 1)%nat || gincremental p).
(* without a configured limit: vm = sm_varMax (= atomMax) *)
Definition gbody_in : gbody -> bool := gbody_in_v sm_varMax.
Definition grule_in : bool -> grule -> bool := grule_in_v sm_varMax.
Definition gstep_in : bool -> gstep -> bool := gstep_in_v sm_varMax.
Definition gin_range : bool -> gprog -> bool := gin_range_v sm_varMax.

(* ---------------- denotation ---------------- *)
Definition d_gbody (b : gbody) : list Z :=
  let n := Z.to_nat (nval (gb_neg b)) in
  map Z.opp (firstn n (gvals (gb_atoms b))) ++ skipn n (gvals (gb_atoms b)).
Definition d_extval (v : Z) : Z := if v =? 0 then Value_t_False else if v =? 1 then Value_t_True else Value_t_Free.
Definition d_grule (prio : Z) (r : grule) : list call * Z :=
  match r with
  | GBasic _ h b => ([CRule Head_t_Disjunctive [nval h] (d_gbody b)], prio)
  | GMulti t _ hs b => ([CRule (if nval t =? Sm_Choice then Head_t_Choice else Head_t_Disjunctive) (gvals hs) (d_gbody b)], prio)
  | GCard _ h b bnd => ([CWRule Head_t_Disjunctive [nval h] (nval bnd) (map (fun l => (l, 1)) (d_gbody b))], prio)
  | GWeight _ h bnd b wts => ([CWRule Head_t_Disjunctive [nval h] (nval bnd) (combine (d_gbody b) (gvals wts))], prio)
  | GMin _ _ b wts => ([CMin prio (combine (d_gbody b) (gvals wts))], prio + 1)
  | GInc _ _ => ([], prio)
  | GAssign _ a v => ([CExternal (nval a) (d_extval (nval v))], prio)
  | GRelease _ a => ([CExternal (nval a) Value_t_Release], prio)
  end.
Fixpoint d_grules (prio : Z) (l : list grule) : list call :=
  match l with
  | [] => []
  | r :: l' => fst (d_grule prio r) ++ d_grules (snd (d_grule prio r)) l'
  end.
Definition d_gext (e : option (list Z * list gnum * gnum)) : list call :=
  match e with Some (_, l, _) => map (fun a => CExternal (nval a) Value_t_Free) l | None => [] end.
Definition d_gstep (s : gstep) : list call :=
  [CBegin] ++ d_grules 0 (g_rules s) ++
  map (fun y => COutput (gy_name y) [nval (gy_atom y)]) (g_syms s) ++
  map (fun a => CRule Head_t_Disjunctive [] [- nval a]) (g_bplus s) ++
  map (fun a => CRule Head_t_Disjunctive [] [nval a]) (g_bminus s) ++
  d_gext (g_ext s) ++ [CEnd].
Definition gdenote (p : gprog) : list call := CInit (gincremental p) :: flat_map d_gstep (gp_steps p).
