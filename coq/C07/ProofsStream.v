(* C07 / C04 support - effect of the abstract stream operations (V.C09.Spec) on ARBITRARY byte lists: the line counter never
   decreases, line + remaining line terminators never increases, nothing is un-read, and a successful number / a non-NUL
   get() consumes at least one byte.  (Same measures as C03/ProofsInv.v; repeated here so that C07 does not depend on the
   aspif development.) *)
Require Import V.Lib.Base V.C09.Spec.
Local Open Scope Z_scope.

(* number of line terminators of a byte list: LF, CR, CRLF *)
Fixpoint nl (l : list Z) : Z :=
  match l with
  | [] => 0
  | c :: r => if c =? 10 then 1 + nl r
              else if c =? 13 then match r with 10 :: _ => nl r | _ => 1 + nl r end
              else nl r
  end.
Definition lines (t : list Z) : Z := 1 + nl t.
Definition pot (s : ast) : Z := aline s + nl (rest s).

Lemma match10x {A} (l : list Z) (f : list Z -> A) (d : A) :
  (match l with 10 :: r' => f r' | _ => d end) = match l with x :: r' => if x =? 10 then f r' else d | [] => d end.
Proof.
  destruct l as [|x r']; [reflexivity|]. destruct (Z.eqb_spec x 10) as [->|n]; [reflexivity|].
  destruct x as [|p|p]; try reflexivity.
  repeat (try reflexivity; destruct p as [p|p|]); try reflexivity. exfalso. apply n. reflexivity.
Qed.

Lemma nl_unfold c r : nl (c :: r) = if c =? 10 then 1 + nl r else if c =? 13 then
   match r with x :: _ => if x =? 10 then nl r else 1 + nl r | [] => 1 + nl r end else nl r.
Proof. cbn [nl]. rewrite (match10x r (fun _ => nl r) (1 + nl r)). reflexivity. Qed.

Lemma nl_nonneg l : 0 <= nl l.
Proof.
  induction l as [|c r IH]; [cbn [nl]; lia|]. rewrite nl_unfold. destruct (c =? 10); [lia|]. destruct (c =? 13); [|lia].
  destruct r as [|c2 r2]; [lia|]. destruct (c2 =? 10); lia.
Qed.
Lemma nl_cons c r : nl r <= nl (c :: r) <= 1 + nl r.
Proof.
  rewrite nl_unfold. destruct (c =? 10); [lia|]. destruct (c =? 13); [|lia].
  destruct r as [|c2 r2]; [lia|]. destruct (c2 =? 10); lia.
Qed.
Lemma nl_skipn k : forall l, nl (skipn k l) <= nl l.
Proof. induction k as [|k IH]; intros l; [cbn; lia|]. destruct l as [|c r]; [cbn; lia|]. cbn [skipn]. pose proof (nl_cons c r). specialize (IH r). lia. Qed.

(* the effect of one stream operation *)
Definition step_ok (s s' : ast) : Prop :=
  aline s <= aline s' /\ pot s' <= pot s /\ (length (rest s') <= length (rest s))%nat.
Lemma step_ok_refl s : step_ok s s. Proof. unfold step_ok. lia. Qed.
Lemma step_ok_trans a b c : step_ok a b -> step_ok b c -> step_ok a c. Proof. unfold step_ok. lia. Qed.
(* an error reported at the current line of a later position lies within the bounds of the earlier one *)
Lemma here_ok s s' : step_ok s s' -> aline s <= aline s' <= pot s.
Proof. unfold step_ok, pot. pose proof (nl_nonneg (rest s')). lia. Qed.
Lemma err_chain a b ln : step_ok a b -> aline b <= ln <= pot b -> aline a <= ln <= pot a.
Proof. unfold step_ok. lia. Qed.

Lemma skipws_l_ok n : forall l ln, (length l <= n)%nat ->
  ln <= aline (a_skipws_l l ln) /\ aline (a_skipws_l l ln) + nl (rest (a_skipws_l l ln)) <= ln + nl l
  /\ (length (rest (a_skipws_l l ln)) <= length l)%nat.
Proof.
  induction n as [|n IH]; intros l ln Hl.
  - destruct l; [cbn; lia | cbn in Hl; lia].
  - destruct l as [|c r]; [cbn; lia|]. cbn [a_skipws_l]. destruct (is_ws c); [|cbn [aline rest]; lia].
    rewrite nl_unfold. destruct (Z.eqb_spec c 13) as [->|N13].
    + change (13 =? 10) with false. cbv iota. rewrite match10x. destruct r as [|c2 r2].
      * cbn. lia.
      * destruct (Z.eqb_spec c2 10) as [->|N10].
        -- destruct (IH r2 (ln + 1) ltac:(cbn [length] in *; lia)) as (A & B & C). rewrite (nl_unfold 10 r2). change (10 =? 10) with true. cbv iota. cbn [length]. lia.
        -- destruct (IH (c2 :: r2) (ln + 1) ltac:(cbn [length] in *; lia)) as (A & B & C). cbn [length] in *. lia.
    + destruct (IH r (if c =? 10 then ln + 1 else ln) ltac:(cbn [length] in *; lia)) as (A & B & C).
      cbn [length]. destruct (c =? 10); lia.
Qed.
Lemma skipws_ok s : step_ok s (a_skipws s).
Proof. unfold step_ok, pot, a_skipws. pose proof (skipws_l_ok (length (rest s)) (rest s) (aline s) (le_n _)). lia. Qed.

Lemma digits_suffix l : forall res good, let '(_, _, l2) := a_digits l res good in nl l2 <= nl l /\ (length l2 <= length l)%nat.
Proof.
  induction l as [|c r IH]; intros res good; cbn [a_digits]; [lia|].
  destruct (is_digit c); [|lia].
  pose proof (nl_cons c r).
  destruct (good && (res <=? (INT64_MAX - to_digit c) / 10)).
  - specialize (IH (res * 10 + to_digit c) true). destruct (a_digits r (res * 10 + to_digit c) true) as [[? ?] l2]. cbn [length]. lia.
  - specialize (IH res false). destruct (a_digits r res false) as [[? ?] l2]. cbn [length]. lia.
Qed.

Lemma match_int_ok s : let '(o, s') := a_match_int false s in
  step_ok s s' /\ (o <> None -> (length (rest s') < length (rest s))%nat).
Proof.
  unfold a_match_int. pose proof (skipws_ok s) as H0. set (s0 := a_skipws s) in *.
  assert (Htl : nl (tl (rest s0)) <= nl (rest s0) /\ (length (tl (rest s0)) <= length (rest s0))%nat).
  { destruct (rest s0) as [|c r]; [cbn; lia|]. pose proof (nl_cons c r). cbn [tl length]. lia. }
  set (l1 := if (a_peek s0 =? 43) || (a_peek s0 =? 45) then tl (rest s0) else rest s0).
  assert (Hl1 : nl l1 <= nl (rest s0) /\ (length l1 <= length (rest s0))%nat) by (unfold l1; destruct ((a_peek s0 =? 43) || (a_peek s0 =? 45)); lia).
  destruct l1 as [|c r].
  - split; [|congruence]. unfold step_ok, pot in *. cbn [aline rest nl length]. pose proof (nl_nonneg (rest s0)). lia.
  - destruct (is_digit c).
    + pose proof (digits_suffix r (to_digit c) true) as Hd. destruct (a_digits r (to_digit c) true) as [[res good] l2].
      pose proof (nl_cons c r). unfold step_ok, pot in *. cbn [aline rest length] in *. split; [lia|]. intros _. lia.
    + split; [|congruence]. unfold step_ok, pot in *. cbn [aline rest]. lia.
Qed.

Lemma get_ok s : step_ok s (snd (a_get s)) /\ (fst (a_get s) <> 0 -> (length (rest (snd (a_get s))) < length (rest s))%nat).
Proof.
  unfold a_get, step_ok, pot. destruct (rest s) as [|c r] eqn:E; [cbn [fst snd]; rewrite E; split; [lia | congruence]|].
  rewrite nl_unfold. destruct (Z.eqb_spec c 13) as [->|N13].
  - change (13 =? 10) with false. cbv iota. rewrite match10x. destruct r as [|c2 r2].
    + cbn [fst snd aline rest nl length]. split; [lia | intros _; lia].
    + destruct (Z.eqb_spec c2 10) as [->|N10]; cbn [fst snd aline rest length]; [rewrite (nl_unfold 10 r2); change (10 =? 10) with true; cbv iota|]; (split; [lia | intros _; lia]).
  - destruct (c =? 10); cbn [fst snd aline rest length]; (split; [lia | intros _; lia]).
Qed.

Lemma match_tok_ok w s : step_ok s (snd (a_match_tok w s)).
Proof.
  unfold a_match_tok. destruct (list_eqb (firstn (length w) (rest s)) w); [|apply step_ok_refl].
  unfold step_ok, pot. cbn [snd aline rest]. pose proof (nl_skipn (length w) (rest s)). rewrite skipn_length. lia.
Qed.
