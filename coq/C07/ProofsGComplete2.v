(* C07 - COMPLETENESS for the general description (SpecG.v), part 2: symbol table, compute statements, externals, steps, program.
   (part 1, ProofsGComplete.v: counted lists, bodies, rules, the rule block) *)
Require Import V.Lib.Base V.Lib.Calls V.Lib.Dec V.C09.Spec V.Gen.Consts V.Gen.Consts_C07.
Require Import V.C07.Model V.C07.Spec V.C07.SpecG V.C07.ProofsLex V.C07.ProofsStream V.C07.ProofsGram V.C07.ProofsGLex V.C07.ProofsGSound.
Require Import V.C07.ProofsGComplete.
Require Import ZifyBool.
Local Open Scope Z_scope.
Ltac Zify.zify_post_hook ::= Z.div_mod_to_equations.

Definition cyields (m : cres ast) (cs : list call) (r : list Z) : Prop := exists ln, m = (cs, Ok (amk r ln)).

(* ---------------- get() ---------------- *)
Lemma get_term t k ln : term_ok t k = true -> exists ln', a_get (amk (t ++ k) ln) = (10, amk k ln').
Proof.
  destruct t as [|c [|c2 [|c3 t]]]; cbn [term_ok]; try discriminate; intros H.
  - unfold a_get. cbn [rest app aline]. destruct (Z.eqb_spec c 13) as [->|N13].
    + rewrite match10x. destruct k as [|d k]; [eexists; reflexivity|]. cbn [hd] in H.
      destruct (Z.eqb_spec d 10); [cbn in H; discriminate | eexists; reflexivity].
    + destruct (Z.eqb_spec c 10); [eexists; reflexivity | exfalso; lia].
  - assert (c = 13 /\ c2 = 10) as [-> ->] by lia. unfold a_get. cbn. eexists. reflexivity.
Qed.

Lemma get_sep t k ln : gsep_ok t k = true -> exists ln', snd (m_get (amk (t ++ k) ln)) = amk k ln'.
Proof.
  destruct t as [|c [|c2 [|c3 t]]]; cbn [gsep_ok]; try discriminate; intros H.
  - unfold m_get, a_peek. cbn [rest app]. replace (c =? 0) with false by lia.
    unfold a_get. cbn [rest app aline]. destruct (Z.eqb_spec c 13) as [->|N13].
    + rewrite match10x. destruct k as [|d k]; [eexists; reflexivity|]. cbn [hd] in H.
      destruct (Z.eqb_spec d 10); [exfalso; cbn in H; lia | eexists; reflexivity].
    + destruct (Z.eqb_spec c 10); eexists; reflexivity.
  - assert (c = 13 /\ c2 = 10) as [-> ->] by lia. unfold m_get, a_peek, a_get. cbn. eexists. reflexivity.
Qed.

(* ---------------- names and the symbol table ---------------- *)
Lemma read_name_fwd : forall name t k ln fuel, name_ok name = true -> term_ok t k = true -> (length name < fuel)%nat ->
  exists ln', read_name fuel (amk (name ++ t ++ k) ln) = Ok (name, amk k ln').
Proof.
  induction name as [|c name IH]; intros t k ln fuel Hn Ht Hf; (destruct fuel as [|fu]; [cbn in Hf; lia|]); cbn [read_name app].
  - destruct (get_term t k ln Ht) as [ln' E]. rewrite E. change (10 =? 10) with true. cbv iota. eexists. reflexivity.
  - unfold name_ok in Hn. cbn [forallb] in Hn. apply andb_prop in Hn. destruct Hn as [Hc Hn].
    destruct (a_get_plain c (name ++ t ++ k) ln ltac:(lia)) as [ln1 E]. rewrite E.
    replace (c =? 10) with false by lia. replace (c =? 0) with false by lia.
    destruct (IH t k ln1 fu Hn Ht ltac:(cbn in Hf; lia)) as [ln2 E2]. rewrite E2. cbn [bind]. eexists. reflexivity.
Qed.

Lemma r_gsym_len y k : gsym_ok y k = true -> (1 <= length (r_gsym y))%nat.
Proof.
  unfold gsym_ok, r_gsym. intros H. bsplit. rewrite app_length.
  pose proof (r_gnum_len _ _ ltac:(eassumption)). lia.
Qed.
Lemma r_gsyms_len l : forall k, gsyms_ok l k = true -> (length l <= length (r_gsyms l))%nat.
Proof.
  induction l as [|y l IH]; intros k H; [cbn; lia|]. rewrite gsyms_ok_cons in H. bsplit. rewrite r_gsyms_cons, app_length. cbn [length].
  pose proof (r_gsym_len _ _ ltac:(eassumption)). specialize (IH k ltac:(assumption)). lia.
Qed.

Lemma read_symbols_fwd : forall syms send k ln fuel, gsyms_ok syms (r_gnum send ++ k) = true -> gnum_ok send k = true -> nval send = 0 ->
  forallb (fun y => gatom_in (gy_atom y)) syms = true -> (length syms < fuel)%nat ->
  cyields (read_symbols fuel (amk (r_gsyms syms ++ r_gnum send ++ k) ln)) (d_syms syms) k.
Proof.
  induction syms as [|y syms IH]; intros send k ln fuel Hs He Ve Hin Hf; (destruct fuel as [|fu]; [cbn in Hf; lia|]); cbn [read_symbols].
  - cbn [r_gsyms flat_map app d_syms map].
    destruct (m_pos_fwd sm_sym_max send k ln ltac:(unfold sm_sym_max, INT64_MAX; lia) He ltac:(rewrite Ve; unfold sm_sym_max; lia)) as [ln1 E].
    rewrite E, Ve. cbv zeta. change (wrap32s 0 =? 0) with true. cbv iota. eexists. reflexivity.
  - rewrite gsyms_ok_cons in Hs. cbn [forallb] in Hin. bsplit.
    match goal with Hx : gsym_ok y _ = true |- _ => rename Hx into Hy end.
    match goal with Hx : gatom_in (gy_atom y) = true |- _ => rename Hx into Ha end.
    unfold gsym_ok in Hy. bsplit.
    rewrite r_gsyms_cons. unfold r_gsym. rewrite <- !app_assoc.
    set (K := r_gsyms syms ++ r_gnum send ++ k) in *.
    assert (Hr : 1 <= nval (gy_atom y) <= atomMax) by (unfold gatom_in in Ha; lia).
    destruct (m_pos_fwd sm_sym_max (gy_atom y) (gy_sep y ++ gy_name y ++ gy_term y ++ K) ln
                ltac:(unfold sm_sym_max, INT64_MAX; lia) ltac:(assumption) ltac:(rewrite sym_max_eq; lia)) as [ln1 E].
    rewrite E. cbv zeta. rewrite wrap32s_id by (unfold INT_MAX, atomMax in *; lia).
    replace (nval (gy_atom y) =? 0) with false by lia.
    destruct (get_sep (gy_sep y) (gy_name y ++ gy_term y ++ K) ln1 ltac:(assumption)) as [ln2 E2]. rewrite E2.
    destruct (read_name_fwd (gy_name y) (gy_term y) K ln2 (fuel_of (amk (gy_name y ++ gy_term y ++ K) ln2)) ltac:(assumption) ltac:(assumption))
      as [ln3 E3].
    { unfold fuel_of. cbn [rest]. rewrite app_length. lia. }
    rewrite E3.
    destruct (IH send k ln3 fu ltac:(assumption) He Ve ltac:(assumption) ltac:(cbn in Hf; lia)) as [ln4 E4].
    unfold K. rewrite E4. eexists. reflexivity.
Qed.

(* ---------------- lists ended by 0 ---------------- *)
Lemma comp_atoms_fwd val : forall l e k ln fuel, gnums_ok (l ++ [e]) k = true -> nval e = 0 -> forallb gatom_in l = true -> (length l < fuel)%nat ->
  cyields (read_comp_atoms fuel val (amk (r_gnums (l ++ [e]) ++ k) ln)) (d_comp val l) k.
Proof.
  induction l as [|n l IH]; intros e k ln fuel Hs Ve Hin Hf; (destruct fuel as [|fu]; [cbn in Hf; lia|]); cbn [read_comp_atoms app].
  - cbn [app] in Hs. rewrite gnums_ok_cons in Hs. bsplit. change (r_gnums [] ++ k) with k in *.
    change (r_gnums [e]) with (r_gnum e ++ []). rewrite app_nil_r.
    destruct (m_pos_fwd sm_comp_max e k ln ltac:(unfold sm_comp_max, INT64_MAX; lia) ltac:(assumption) ltac:(rewrite Ve; unfold sm_comp_max; lia)) as [ln1 E].
    rewrite E, Ve. cbv zeta. change (wrap32s 0 =? 0) with true. cbv iota. eexists. reflexivity.
  - cbn [app] in Hs. rewrite gnums_ok_cons in Hs. cbn [forallb] in Hin. bsplit.
    match goal with Hx : gatom_in n = true |- _ => rename Hx into Ha end.
    assert (Hr : 1 <= nval n <= atomMax) by (unfold gatom_in in Ha; lia).
    change (r_gnums (n :: l ++ [e])) with (r_gnum n ++ r_gnums (l ++ [e])). rewrite <- app_assoc.
    destruct (m_pos_fwd sm_comp_max n (r_gnums (l ++ [e]) ++ k) ln ltac:(unfold sm_comp_max, INT64_MAX; lia) ltac:(assumption) ltac:(rewrite comp_max_eq; lia)) as [ln1 E].
    rewrite E. cbv zeta. rewrite wrap32s_id by (unfold INT_MAX, atomMax in *; lia).
    replace (nval n =? 0) with false by lia.
    destruct (IH e k ln1 fu ltac:(assumption) Ve ltac:(assumption) ltac:(cbn in Hf; lia)) as [ln2 E2]. rewrite E2.
    cbn [d_comp map]. eexists. reflexivity.
Qed.

Lemma ext_atoms_fwd : forall l e k ln fuel, gnums_ok (l ++ [e]) k = true -> nval e = 0 -> forallb gatom_in l = true -> (length l < fuel)%nat ->
  cyields (read_ext_atoms fuel (amk (r_gnums (l ++ [e]) ++ k) ln)) (d_exts l) k.
Proof.
  induction l as [|n l IH]; intros e k ln fuel Hs Ve Hin Hf; (destruct fuel as [|fu]; [cbn in Hf; lia|]); cbn [read_ext_atoms app].
  - cbn [app] in Hs. rewrite gnums_ok_cons in Hs. bsplit. change (r_gnums [] ++ k) with k in *.
    change (r_gnums [e]) with (r_gnum e ++ []). rewrite app_nil_r.
    destruct (m_pos_fwd sm_ext_max e k ln ltac:(unfold sm_ext_max, INT64_MAX; lia) ltac:(assumption) ltac:(rewrite Ve; unfold sm_ext_max; lia)) as [ln1 E].
    rewrite E, Ve. change (0 =? 0) with true. cbv iota. eexists. reflexivity.
  - cbn [app] in Hs. rewrite gnums_ok_cons in Hs. cbn [forallb] in Hin. bsplit.
    match goal with Hx : gatom_in n = true |- _ => rename Hx into Ha end.
    assert (Hr : 1 <= nval n <= atomMax) by (unfold gatom_in in Ha; lia).
    change (r_gnums (n :: l ++ [e])) with (r_gnum n ++ r_gnums (l ++ [e])). rewrite <- app_assoc.
    destruct (m_pos_fwd sm_ext_max n (r_gnums (l ++ [e]) ++ k) ln ltac:(unfold sm_ext_max, INT64_MAX; lia) ltac:(assumption) ltac:(rewrite ext_max_eq; lia)) as [ln1 E].
    rewrite E. replace (nval n =? 0) with false by lia.
    destruct (IH e k ln1 fu ltac:(assumption) Ve ltac:(assumption) ltac:(cbn in Hf; lia)) as [ln2 E2]. rewrite E2.
    cbn [d_exts map]. eexists. reflexivity.
Qed.

Lemma fuel_list l e k ln : gnums_ok (l ++ [e]) k = true -> (length l < fuel_of (amk (r_gnums (l ++ [e]) ++ k) ln))%nat.
Proof.
  intros H. unfold fuel_of. cbn [rest]. rewrite app_length. pose proof (r_gnums_len _ _ H) as L. rewrite app_length in L. cbn [length] in L. lia.
Qed.

(* ---------------- keywords ---------------- *)
Lemma firstn_app_exact {A} (a b : list A) : firstn (length a) (a ++ b) = a.
Proof. induction a as [|x a IH]; [reflexivity|]. cbn. now rewrite IH. Qed.
Lemma skipn_app_exact {A} (a b : list A) : skipn (length a) (a ++ b) = b.
Proof. induction a as [|x a IH]; [reflexivity|]. cbn. exact IH. Qed.
Lemma match_tok_fwd key x ln : a_match_tok key (amk (key ++ x) ln) = (true, amk x ln).
Proof.
  unfold a_match_tok. cbn [rest aline]. rewrite firstn_app_exact, skipn_app_exact.
  rewrite (proj2 (list_eqb_eq key key) eq_refl). reflexivity.
Qed.
Lemma skip_to w x ln : ws_ok w = true -> (match x with [] => True | c :: _ => is_ws c = false end) ->
  exists ln', a_skipws (amk (w ++ x) ln) = amk x ln'.
Proof. intros Hw Hx. unfold a_skipws. cbn [rest aline]. exact (skipws_app (length w) w x ln (le_n _) Hw Hx). Qed.

Lemma read_compute_fwd key val w nlt l e k ln : (match key with c :: _ => is_ws c = false | [] => False end) ->
  comp_ok w nlt l e k = true -> forallb gatom_in l = true ->
  cyields (read_compute key val (amk (r_comp w key nlt l e ++ k) ln)) (d_comp val l) k.
Proof.
  intros Hk H Hin. unfold comp_ok in H. bsplit.
  match goal with Hx : (nval e =? 0) = true |- _ => apply Z.eqb_eq in Hx; rename Hx into Ve end.
  unfold read_compute, r_comp. rewrite <- !app_assoc.
  destruct (skip_to w (key ++ nlt ++ r_gnums (l ++ [e]) ++ k) ln ltac:(assumption)) as [ln1 E1].
  { destruct key as [|c key]; [contradiction|]. exact Hk. }
  rewrite E1, match_tok_fwd.
  destruct (get_term nlt (r_gnums (l ++ [e]) ++ k) ln1 ltac:(assumption)) as [ln2 E2]. rewrite E2.
  change (10 =? 10) with true. cbv iota.
  apply comp_atoms_fwd; try assumption. now apply fuel_list.
Qed.

Lemma list_eqb_neq a b : a <> b -> list_eqb a b = false.
Proof. intros H. destruct (list_eqb a b) eqn:E; [|reflexivity]. apply list_eqb_eq in E. contradiction. Qed.

(* the token without its whitespace *)
Definition stripws (n : gnum) : gnum := mkgnum [] (n_sg n) (n_ds n).
Lemma stripws_ok n k : gnum_ok n k = true -> gnum_ok (stripws n) k = true.
Proof.
  unfold gnum_ok, sg_ok, stripws, nval. cbn [n_ws n_sg n_ds]. change (ws_ok []) with true.
  destruct (ws_ok (n_ws n)); cbn [andb]; [exact id | discriminate].
Qed.
Lemma hd_tok n k : gnum_ok n k = true ->
  exists c x, n_sg n ++ n_ds n ++ k = c :: x /\ is_ws c = false /\ c <> 0 /\ c <> 69.
Proof.
  unfold gnum_ok, sg_ok, digits_ok. intros H. bsplit. destruct (n_sg n) as [|c [|c2 s]]; [| |discriminate].
  - destruct (n_ds n) as [|d ds]; [discriminate|]. exists d, (ds ++ k). cbn [app forallb] in *. bsplit.
    split; [reflexivity|]. unfold is_ws, is_digit in *. lia.
  - exists c, (n_ds n ++ k). split; [reflexivity|]. unfold is_ws. lia.
Qed.

Lemma read_extra_fwd e m k ln : gext_ok e (r_gnum m ++ k) = true -> gnum_ok m k = true -> gext_in e = true -> gcount_in m = true ->
  cyields (read_extra (amk (r_gext e ++ r_gnum m ++ k) ln)) (d_gext e) k.
Proof.
  intros He Hm Hie Hc. unfold read_extra.
  assert (Hmax : nval m <= sm_models_max) by (exact (gcount_le m Hc)).
  destruct e as [[[w l] z]|]; cbn [r_gext gext_ok gext_in d_gext] in *.
  - bsplit. match goal with Hx : (nval z =? 0) = true |- _ => apply Z.eqb_eq in Hx; rename Hx into Vz end.
    rewrite <- !app_assoc.
    destruct (skip_to w (sm_kw_ext ++ r_gnums (l ++ [z]) ++ r_gnum m ++ k) ln ltac:(assumption)) as [ln1 E1]; [reflexivity|].
    rewrite E1, match_tok_fwd.
    destruct (ext_atoms_fwd l z (r_gnum m ++ k) ln1 (fuel_of (amk (r_gnums (l ++ [z]) ++ r_gnum m ++ k) ln1)) ltac:(assumption) Vz Hie
                ltac:(now apply fuel_list)) as [ln2 E2].
    rewrite E2. unfold cbind.
    destruct (m_pos_fwd sm_models_max m k ln2 ltac:(unfold sm_models_max, INT64_MAX; lia) Hm Hmax) as [ln3 E3]. rewrite E3.
    rewrite app_nil_r. exists ln3. reflexivity.
  - cbn [app]. unfold r_gnum. destruct (hd_tok m k Hm) as (c & x & Ex & Hws & _ & N69).
    destruct (skip_to (n_ws m) (n_sg m ++ n_ds m ++ k) ln) as [ln1 E1].
    { unfold gnum_ok in Hm. bsplit. assumption. }
    { rewrite Ex. exact Hws. }
    rewrite <- !app_assoc, E1.
    assert (Et : a_match_tok sm_kw_ext (amk (n_sg m ++ n_ds m ++ k) ln1) = (false, amk (n_sg m ++ n_ds m ++ k) ln1)).
    { unfold a_match_tok. cbn [rest]. rewrite Ex. unfold sm_kw_ext. cbn [length firstn]. rewrite list_eqb_neq; [reflexivity|]. intros X. inversion X. contradiction. }
    rewrite Et. unfold cbind.
    replace (n_sg m ++ n_ds m ++ k) with (r_gnum (stripws m) ++ k)
      by (unfold r_gnum, stripws; cbn [n_ws n_sg n_ds app]; rewrite <- app_assoc; reflexivity).
    destruct (m_pos_fwd sm_models_max (stripws m) k ln1 ltac:(unfold sm_models_max, INT64_MAX; lia) (stripws_ok _ _ Hm) Hmax) as [ln3 E3].
    rewrite E3. exists ln3. reflexivity.
Qed.

(* ---------------- one step ---------------- *)
Lemma skipws_l_nonws l ln : is_ws (hd 0 l) = false -> a_skipws_l l ln = amk l ln.
Proof. destruct l as [|c l]; [reflexivity|]. cbn [hd a_skipws_l]. intros ->. reflexivity. Qed.
Lemma skipws_idem s : a_skipws (a_skipws s) = a_skipws s.
Proof.
  destruct (skipws_inv s) as (w & _ & _ & Hh). unfold a_skipws at 1. rewrite skipws_l_nonws by exact Hh.
  destruct (a_skipws s); reflexivity.
Qed.
Lemma m_pos_skip max s : m_pos max (a_skipws s) = m_pos max s.
Proof. unfold m_pos, a_match_int. rewrite skipws_idem. reflexivity. Qed.
(* ================= generic in the reader's atom limit vm (ProgramReader::setMaxVar); g_complete (vm = sm_varMax) behind the section ================= *)
Section MaxVar.
Variable vm : Z.
Hypothesis Hvm : vm <= INT64_MAX.
Local Notation read_rules := (read_rules_v vm).
Local Notation do_parse := (do_parse_v vm).
Local Notation parse_steps := (parse_steps_v vm).
Local Notation read_smodels := (read_smodels_v vm).
Local Notation gstep_in := (gstep_in_v vm).
Local Notation gin_range := (gin_range_v vm).
Local Notation read_rules_fwd_gen := (V.C07.ProofsGComplete.read_rules_fwd_gen vm Hvm).

Lemma read_rules_skip fu o prio s : read_rules (S fu) o prio (a_skipws s) = read_rules (S fu) o prio s.
Proof. cbn [read_rules_v]. rewrite m_pos_skip. reflexivity. Qed.

Lemma rules_toks_len rules : (length rules <= length (flat_map rule_toks rules))%nat.
Proof.
  induction rules as [|r rules IH]; [cbn; lia|]. cbn [flat_map length]. rewrite app_length.
  assert (1 <= length (rule_toks r))%nat by (destruct r; cbn; lia). lia.
Qed.
(* the first token of a non-empty token list, with its whitespace skipped *)
Lemma drop_toks toks k : toks <> [] -> gnums_ok toks k = true ->
  (length toks <= length (drop_ws (r_gnums toks ++ k)))%nat /\
  is_ws (hd 0 (drop_ws (r_gnums toks ++ k))) = false /\ hd 0 (drop_ws (r_gnums toks ++ k)) <> 0.
Proof.
  destruct toks as [|t toks]; [congruence|]. intros _ H. rewrite gnums_ok_cons in H. bsplit.
  match goal with Hx : gnum_ok t _ = true |- _ => rename Hx into Ht end.
  change (r_gnums (t :: toks)) with (r_gnum t ++ r_gnums toks). unfold r_gnum. rewrite <- !app_assoc.
  destruct (hd_tok t _ Ht) as (c & x & Ex & Hws & N0 & _).
  rewrite drop_ws_app by (unfold gnum_ok in Ht; bsplit; assumption).
  rewrite drop_ws_nonws by (rewrite Ex; exact Hws).
  split; [|rewrite Ex; cbn [hd]; auto].
  rewrite !app_length. pose proof (r_gnums_len toks k ltac:(assumption)).
  unfold gnum_ok, digits_ok in Ht. bsplit. destruct (n_ds t); [discriminate|]. cbn [length]. lia.
Qed.

Lemma cy_bind (m : cres ast) (f : ast -> cres ast) cs1 r1 cs2 r2 :
  cyields m cs1 r1 -> (forall ln, cyields (f (amk r1 ln)) cs2 r2) -> cyields (cbind m f) (cs1 ++ cs2) r2.
Proof. intros [ln E] H. rewrite E. unfold cbind. destruct (H ln) as [ln2 E2]. rewrite E2. eexists. reflexivity. Qed.

Lemma step_toks_ne st : step_toks st <> [].
Proof. unfold step_toks. destruct (flat_map rule_toks (g_rules st)); discriminate. Qed.

Lemma do_parse_fwd o st k ln : gstep_ok st k = true -> gstep_in (claspExt o) st = true ->
  cyields (do_parse o (a_skipws (amk (r_gstep st ++ k) ln))) (d_gstep st) k.
Proof.
  intros Hok Hin. unfold gstep_ok in Hok. unfold gstep_in_v in Hin. bsplit.
  repeat match goal with Hx : (_ =? 0) = true |- _ => apply Z.eqb_eq in Hx end.
  unfold do_parse_v. unfold cbind at 1.
  assert (C : cyields (cbind (read_rules (fuel_of (a_skipws (amk (r_gstep st ++ k) ln))) o 0 (a_skipws (amk (r_gstep st ++ k) ln)))
      (fun s1 => cbind (read_symbols (fuel_of s1) s1) (fun s2 => cbind (read_compute sm_kw_bplus true s2) (fun s3 =>
       cbind (read_compute sm_kw_bminus false s3) (fun s4 => cbind (read_extra s4) (fun s5 => ([CEnd], Ok s5)))))))
      (d_grules 0 (g_rules st) ++ d_syms (g_syms st) ++ d_comp true (g_bplus st) ++ d_comp false (g_bminus st) ++ d_gext (g_ext st) ++ [CEnd]) k).
  { eapply cy_bind.
    - unfold fuel_of at 1. rewrite read_rules_skip. unfold r_gstep. rewrite <- app_assoc.
      apply read_rules_fwd_gen; try assumption.
      rewrite rest_skipws. cbn [rest].
      pose proof (drop_toks (step_toks st) (r_sec_syms st ++ k) (step_toks_ne st) ltac:(assumption)) as (L & _).
      pose proof (rules_toks_len (g_rules st)) as L2. unfold step_toks in L at 1. rewrite app_length in L. cbn [length] in L.
      unfold step_toks in *. lia.
    - intros ln1. unfold r_sec_syms. rewrite <- !app_assoc. eapply cy_bind.
      + apply read_symbols_fwd; try assumption.
        unfold fuel_of. cbn [rest]. rewrite app_length. pose proof (r_gsyms_len _ _ ltac:(eassumption)). lia.
      + intros ln2. unfold r_sec_bp. rewrite <- !app_assoc. eapply cy_bind.
        * apply read_compute_fwd; [reflexivity | assumption | assumption].
        * intros ln3. unfold r_sec_bm. rewrite <- !app_assoc. eapply cy_bind.
          -- apply read_compute_fwd; [reflexivity | assumption | assumption].
          -- intros ln4. unfold r_sec_ext, r_sec_models. rewrite <- !app_assoc.
             rewrite <- (app_nil_r (d_gext (g_ext st) ++ [CEnd])). rewrite <- app_assoc. eapply cy_bind.
             ++ apply read_extra_fwd; assumption.
             ++ intros ln5. cbn [app]. eexists. reflexivity. }
  destruct C as [ln' E]. rewrite E. eexists. reflexivity.
Qed.

(* ---------------- the steps of a program ---------------- *)
Lemma r_gstep_len st k : gstep_ok st k = true -> (1 <= length (r_gstep st))%nat.
Proof.
  unfold gstep_ok. intros H. bsplit. unfold r_gstep. rewrite app_length.
  pose proof (r_gnums_len (step_toks st) _ ltac:(eassumption)) as L.
  assert (1 <= length (step_toks st))%nat by (unfold step_toks; rewrite app_length; cbn [length]; lia). lia.
Qed.
Lemma steps_len steps : forall tail, seq_ok r_gstep gstep_ok steps tail = true -> (length steps <= length (flat_map r_gstep steps))%nat.
Proof.
  induction steps as [|st steps IH]; intros tail H; [cbn; lia|]. cbn [seq_ok] in H. bsplit. cbn [flat_map length]. rewrite app_length.
  pose proof (r_gstep_len _ _ ltac:(eassumption)). specialize (IH tail ltac:(assumption)). lia.
Qed.

Lemma step_hd st k : gstep_ok st k = true -> hd 0 (drop_ws (r_gstep st ++ k)) <> 0.
Proof.
  unfold gstep_ok. intros H. bsplit. unfold r_gstep. rewrite <- app_assoc.
  apply (drop_toks (step_toks st) (r_sec_syms st ++ k) (step_toks_ne st)). assumption.
Qed.

Lemma parse_steps_fwd o inc : forall steps tail fuel ln, seq_ok r_gstep gstep_ok steps tail = true -> steps <> [] ->
  tail_ok tail = true -> forallb (gstep_in (claspExt o)) steps = true -> ((length steps <=? 1)%nat || inc = true) ->
  (length steps <= fuel)%nat ->
  parse_steps fuel o inc (a_skipws (amk (flat_map r_gstep steps ++ tail) ln)) = (flat_map d_gstep steps, Ok tt).
Proof.
  induction steps as [|st steps IH]; intros tail fuel ln Hs Hne Ht Hin Hinc Hf; [congruence|].
  destruct fuel as [|fu]; [cbn in Hf; lia|]. cbn [seq_ok] in Hs. cbn [forallb] in Hin. bsplit.
  cbn [parse_steps_v flat_map]. rewrite <- app_assoc.
  destruct (do_parse_fwd o st (flat_map r_gstep steps ++ tail) ln ltac:(assumption) ltac:(assumption)) as [ln1 E].
  rewrite E. unfold cbind. cbv zeta. unfold a_end. rewrite peek_hd, rest_skipws. cbn [rest].
  destruct steps as [|st2 steps].
  - cbn [flat_map app]. unfold tail_ok in Ht. rewrite Ht. cbn [negb andb]. reflexivity.
  - match goal with Hx : seq_ok r_gstep gstep_ok (st2 :: steps) tail = true |- _ => rename Hx into Hs2 end.
    assert (Hh : hd 0 (drop_ws (flat_map r_gstep (st2 :: steps) ++ tail)) <> 0).
    { pose proof Hs2 as Hx. cbn [seq_ok] in Hx. apply andb_prop in Hx. destruct Hx as [Hx _].
      cbn [flat_map]. rewrite <- app_assoc. now apply step_hd. }
    apply Z.eqb_neq in Hh. rewrite Hh. cbn [negb andb].
    cbn [length] in Hinc. destruct inc; [|discriminate]. cbn [negb].
    rewrite (IH tail fu ln1); try assumption; try discriminate; try reflexivity.
    all: cbn [length] in *; lia.
Qed.

(* ---------------- the reader ---------------- *)
Lemma g_complete_v (o : opts) (p : gprog) :
  glayout_ok p = true -> gin_range (claspExt o) p = true -> read_smodels o (grender p) = (gdenote p, Ok tt).
Proof.
  unfold glayout_ok, gin_range_v, gincremental, gdenote. intros Hl Hr. bsplit.
  match goal with Hx : is_digit (hd 0 (grender p)) = true |- _ => rename Hx into Hd end.
  unfold read_smodels_v. rewrite peek_hd. unfold a_init. cbn [rest]. rewrite Hd. cbn [andb].
  match goal with Hx : negb (hd 0 (grender p) =? 57) || claspExt o = true |- _ => rewrite Hx end.
  unfold cbind.
  assert (Esk : a_skipws (amk (grender p) 1) = amk (grender p) 1).
  { unfold a_skipws. cbn [rest aline]. apply skipws_l_nonws. now apply digit_not_ws. }
  rewrite <- Esk at 2. unfold grender at 3.
  rewrite (parse_steps_fwd o (hd 0 (grender p) =? 57) (gp_steps p) (gp_tail p)); try assumption; try reflexivity.
  - destruct (gp_steps p); [discriminate | congruence].
  - unfold fuel_of. cbn [rest]. unfold grender. rewrite app_length.
    pose proof (steps_len _ _ ltac:(eassumption)). lia.
Qed.
End MaxVar.

Lemma g_complete (o : opts) (p : gprog) :
  glayout_ok p = true -> gin_range (claspExt o) p = true -> read_smodels o (grender p) = (gdenote p, Ok tt).
Proof. exact (g_complete_v sm_varMax atomMax_le_int64 o p). Qed.
