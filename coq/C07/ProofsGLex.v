(* C07 - the general description (SpecG.v): lexical lemmas in both directions.
   INVERSION: what a successful stream primitive / matchPos / matchAtom has consumed, for an ARBITRARY byte list.
   FORWARD  : what they do on the text of a number token.                                                        *)
Require Import V.Lib.Base V.Lib.Calls V.Lib.Dec V.C09.Spec V.Gen.Consts V.Gen.Consts_C07.
Require Import V.C07.Model V.C07.Spec V.C07.SpecG V.C07.ProofsLex V.C07.ProofsStream V.C07.ProofsGram.
Require Import ZifyBool.
Local Open Scope Z_scope.
Ltac Zify.zify_post_hook ::= Z.div_mod_to_equations.

(* ---------------- generic ---------------- *)
Lemma seq_ok_app {A} (r : A -> list Z) ok (l1 l2 : list A) k :
  seq_ok r ok (l1 ++ l2) k = seq_ok r ok l1 (flat_map r l2 ++ k) && seq_ok r ok l2 k.
Proof.
  induction l1 as [|x l1 IH]; [reflexivity|]. cbn [app seq_ok]. rewrite IH, flat_map_app, <- app_assoc, andb_assoc. reflexivity.
Qed.

Lemma all_digits_b l : forallb is_digit l = true <-> all_digits l.
Proof. unfold all_digits. rewrite forallb_forall, Forall_forall. reflexivity. Qed.

Lemma nd_delim k : nd k = true <-> delim k.
Proof.
  unfold nd, delim. destruct k as [|c k]; cbn [hd].
  - split; [trivial | reflexivity].
  - rewrite negb_true_iff. reflexivity.
Qed.
Lemma nd_cons c k : nd (c :: k) = negb (is_digit c). Proof. reflexivity. Qed.
Lemma nd_ws w k : ws_ok w = true -> w <> [] -> nd (w ++ k) = true.
Proof.
  destruct w as [|c w]; [congruence|]. intros H _. cbn in H. apply andb_prop in H. destruct H as [H _].
  cbn [app]. rewrite nd_cons, (ws_not_digit c H). reflexivity.
Qed.

Lemma ws_ok_app a b : ws_ok (a ++ b) = ws_ok a && ws_ok b.
Proof. unfold ws_ok. apply forallb_app. Qed.

Lemma peek_hd s : a_peek s = hd 0 (rest s).
Proof. unfold a_peek. destruct (rest s); reflexivity. Qed.

(* ---------------- number tokens ---------------- *)
Lemma nval_nonneg n : digits_ok (n_ds n) = true -> 0 <= nval n.
Proof.
  unfold digits_ok, nval, value. intros H. apply andb_prop in H. destruct H as [H _].
  apply value_acc_nonneg; [lia | now apply all_digits_b].
Qed.

Definition addws (w : list Z) (n : gnum) : gnum := mkgnum (w ++ n_ws n) (n_sg n) (n_ds n).
Lemma addws_render w n : r_gnum (addws w n) = w ++ r_gnum n.
Proof. unfold r_gnum, addws. cbn. now rewrite <- app_assoc. Qed.
Lemma addws_val w n : nval (addws w n) = nval n. Proof. reflexivity. Qed.
Lemma addws_ok w n k : ws_ok w = true -> gnum_ok n k = true -> gnum_ok (addws w n) k = true.
Proof.
  unfold gnum_ok, sg_ok, addws, nval. cbn [n_ws n_sg n_ds]. intros Hw H. rewrite ws_ok_app, Hw. exact H.
Qed.

(* ---------------- whitespace ---------------- *)
Lemma skipws_l_inv n : forall l ln, (length l <= n)%nat ->
  exists w, l = w ++ rest (a_skipws_l l ln) /\ ws_ok w = true /\ is_ws (hd 0 (rest (a_skipws_l l ln))) = false.
Proof.
  induction n as [|n IH]; intros l ln Hl.
  - destruct l; [|cbn in Hl; lia]. exists []. cbn. auto.
  - destruct l as [|c r]; [exists []; cbn; auto|]. cbn [a_skipws_l]. destruct (is_ws c) eqn:Ec.
    + destruct (Z.eqb_spec c 13) as [->|N13].
      * rewrite match10x. destruct r as [|c2 r2].
        -- exists [13]. cbn. auto.
        -- destruct (Z.eqb_spec c2 10) as [->|N10].
           ++ destruct (IH r2 (ln + 1) ltac:(cbn [length] in *; lia)) as (w & E & Hw & Hh).
              exists (13 :: 10 :: w). cbn [app]. rewrite <- E. unfold ws_ok in *. cbn [forallb]. rewrite Hw. auto.
           ++ destruct (IH (c2 :: r2) (ln + 1) ltac:(cbn [length] in *; lia)) as (w & E & Hw & Hh).
              exists (13 :: w). cbn [app]. rewrite <- E. unfold ws_ok in *. cbn [forallb]. rewrite Hw. auto.
      * destruct (IH r (if c =? 10 then ln + 1 else ln) ltac:(cbn [length] in *; lia)) as (w & E & Hw & Hh).
        exists (c :: w). cbn [app]. rewrite <- E. unfold ws_ok in *. cbn [forallb]. rewrite Hw, Ec. auto.
    + exists []. cbn [app rest hd]. rewrite Ec. auto.
Qed.
Lemma skipws_inv s : exists w, rest s = w ++ rest (a_skipws s) /\ ws_ok w = true /\ is_ws (hd 0 (rest (a_skipws s))) = false.
Proof. unfold a_skipws. apply (skipws_l_inv (length (rest s))). lia. Qed.

Lemma drop_ws_skip n : forall l ln, (length l <= n)%nat -> rest (a_skipws_l l ln) = drop_ws l.
Proof.
  induction n as [|n IH]; intros l ln Hl.
  - destruct l; [reflexivity | cbn in Hl; lia].
  - destruct l as [|c r]; [reflexivity|]. cbn [a_skipws_l drop_ws]. destruct (is_ws c) eqn:Ec; [|reflexivity].
    destruct (Z.eqb_spec c 13) as [->|N13].
    + rewrite match10x. destruct r as [|c2 r2]; [reflexivity|].
      destruct (Z.eqb_spec c2 10) as [->|N10].
      * rewrite IH by (cbn [length] in *; lia). cbn [drop_ws]. reflexivity.
      * apply IH. cbn [length] in *. lia.
    + apply IH. cbn [length] in *. lia.
Qed.
Lemma rest_skipws s : rest (a_skipws s) = drop_ws (rest s).
Proof. unfold a_skipws. apply (drop_ws_skip (length (rest s))). lia. Qed.
Lemma drop_ws_app w k : ws_ok w = true -> drop_ws (w ++ k) = drop_ws k.
Proof.
  induction w as [|c w IH]; [reflexivity|]. cbn [ws_ok forallb app drop_ws]. intros H. apply andb_prop in H. destruct H as [Hc Hw].
  rewrite Hc. now apply IH.
Qed.
Lemma drop_ws_nonws k : is_ws (hd 0 k) = false -> drop_ws k = k.
Proof. destruct k as [|c k]; [reflexivity|]. cbn [hd drop_ws]. intros ->. reflexivity. Qed.

(* ---------------- digits ---------------- *)
Lemma digits_inv : forall l acc v l2, a_digits l acc true = (v, true, l2) ->
  exists ds, l = ds ++ l2 /\ forallb is_digit ds = true /\ nd l2 = true /\ v = value_acc acc ds.
Proof.
  induction l as [|c r IH]; intros acc v l2 H; cbn [a_digits] in H.
  - inversion H; subst. exists []. auto.
  - destruct (is_digit c) eqn:Ec.
    + cbn [andb] in H. destruct (acc <=? (INT64_MAX - to_digit c) / 10).
      * destruct (IH _ _ _ H) as (ds & E & Hd & Hn & Hv). exists (c :: ds). cbn [app forallb value_acc]. rewrite Ec, <- E. auto.
      * destruct (a_digits_bad r acc) as [v' E']. rewrite E' in H. discriminate.
    + inversion H; subst. exists []. cbn [app forallb value_acc]. rewrite nd_cons, Ec. auto.
Qed.

(* ---------------- match(int64_t&) ---------------- *)
Lemma match_int_inv s z s' : a_match_int false s = (Some z, s') ->
  exists n, rest s = r_gnum n ++ rest s' /\ ws_ok (n_ws n) = true /\ digits_ok (n_ds n) = true /\ nd (rest s') = true /\
            ((n_sg n = [] /\ z = nval n) \/ (n_sg n = [43] /\ z = nval n) \/ (n_sg n = [45] /\ z = - nval n)).
Proof.
  unfold a_match_int. destruct (skipws_inv s) as (w & Ew & Hw & _). set (s0 := a_skipws s) in *.
  rewrite peek_hd. destruct (rest s0) as [|c0 r0] eqn:E0.
  - cbn [hd]. change ((0 =? 43) || (0 =? 45)) with false. cbv iota. discriminate.
  - cbn [hd tl]. destruct ((c0 =? 43) || (c0 =? 45)) eqn:Esg.
    + destruct r0 as [|c r]; [discriminate|]. destruct (is_digit c) eqn:Ec; [|discriminate].
      destruct (a_digits r (to_digit c) true) as [[res good] l2] eqn:Ed. destruct good; [|discriminate].
      intros H. inversion H; subst z s'. clear H. cbn [rest].
      destruct (digits_inv _ _ _ _ Ed) as (ds & E & Hd & Hn & Hv).
      exists (mkgnum w [c0] (c :: ds)). unfold r_gnum, nval, value, digits_ok. cbn [n_ws n_sg n_ds app forallb value_acc isnil negb].
      rewrite Ew, E, Ec, Hd. replace (0 * 10 + to_digit c) with (to_digit c) by lia. rewrite <- Hv.
      split; [rewrite <- app_assoc; reflexivity|]. repeat (split; [solve [auto]|]).
      destruct (Z.eqb_spec c0 45) as [->|N45]; [right; right; auto|].
      destruct (Z.eqb_spec c0 43) as [->|N43]; [right; left; auto | discriminate].
    + destruct (is_digit c0) eqn:Ec; [|discriminate].
      destruct (a_digits r0 (to_digit c0) true) as [[res good] l2] eqn:Ed. destruct good; [|discriminate].
      intros H. inversion H; subst z s'. clear H. cbn [rest].
      destruct (digits_inv _ _ _ _ Ed) as (ds & E & Hd & Hn & Hv).
      exists (mkgnum w [] (c0 :: ds)). unfold r_gnum, nval, value, digits_ok. cbn [n_ws n_sg n_ds app forallb value_acc isnil negb].
      rewrite Ew, E, Ec, Hd. replace (0 * 10 + to_digit c0) with (to_digit c0) by lia. rewrite <- Hv.
      split; [rewrite <- app_assoc; reflexivity|]. repeat (split; [solve [auto]|]). left. split; [reflexivity|].
      apply orb_false_elim in Esg. destruct Esg as [_ E45]. rewrite E45. reflexivity.
Qed.

(* one number token between two positions of the text *)
Definition tok (n : gnum) (a b : list Z) : Prop := a = r_gnum n ++ b /\ gnum_ok n b = true.
Definition toks (l : list gnum) (a b : list Z) : Prop := a = r_gnums l ++ b /\ gnums_ok l b = true.

Lemma toks_nil a : toks [] a a. Proof. split; reflexivity. Qed.
Lemma toks_cons n l a b c : tok n a b -> toks l b c -> toks (n :: l) a c.
Proof.
  intros [E1 H1] [E2 H2]. split.
  - unfold r_gnums in *. cbn [flat_map]. rewrite <- app_assoc, <- E2. exact E1.
  - unfold gnums_ok, r_gnums in *. cbn [seq_ok]. rewrite <- E2, H1, H2. reflexivity.
Qed.
Lemma toks_app l1 l2 a b c : toks l1 a b -> toks l2 b c -> toks (l1 ++ l2) a c.
Proof.
  intros [E1 H1] [E2 H2]. split.
  - unfold r_gnums in *. rewrite flat_map_app, <- app_assoc, <- E2. exact E1.
  - unfold gnums_ok, r_gnums in *. rewrite seq_ok_app, <- E2, H1, H2. reflexivity.
Qed.
Lemma toks_one n a b : tok n a b -> toks [n] a b.
Proof. intros H. eapply toks_cons; [exact H | apply toks_nil]. Qed.
Lemma tok_addws w n a b : ws_ok w = true -> tok n a b -> tok (addws w n) (w ++ a) b.
Proof. intros Hw [E H]. split; [rewrite addws_render, <- app_assoc, <- E; reflexivity | now apply addws_ok]. Qed.

Lemma m_pos_inv max s v s' : m_pos max s = Ok (v, s') ->
  exists n, tok n (rest s) (rest s') /\ nval n = v /\ 0 <= v <= max.
Proof.
  unfold m_pos. destruct (a_match_int false s) as [[z|] s1] eqn:E; [|discriminate].
  destruct ((0 <=? z) && (z <=? max)) eqn:Er; [|discriminate]. intros H. inversion H; subst. clear H.
  destruct (match_int_inv _ _ _ E) as (n & Et & Hw & Hd & Hn & Hs). pose proof (nval_nonneg n Hd) as H0.
  exists n. unfold tok, gnum_ok, sg_ok. rewrite Hw, Hd, Hn.
  destruct Hs as [[-> ->] | [[-> ->] | [-> ->]]].
  - repeat split; auto; lia.
  - repeat split; auto; lia.
  - assert (nval n = 0) by lia. replace (nval n =? 0) with true by lia. repeat split; auto; lia.
Qed.

(* the reader's matchAtom with the configured limit vm (ProgramReader::setMaxVar; default sm_varMax) *)
Lemma m_atom_inv vm s v s' : m_atom_v vm s = Ok (v, s') ->
  exists n, tok n (rest s) (rest s') /\ nval n = v /\ gratom_in vm n = true.
Proof.
  unfold m_atom_v. destruct (a_match_int false s) as [[z|] s1] eqn:E; [|discriminate].
  destruct ((atomMin <=? z) && (z <=? vm)) eqn:Er; [|discriminate]. intros H. inversion H; subst. clear H.
  change atomMin with 1 in Er.
  destruct (match_int_inv _ _ _ E) as (n & Et & Hw & Hd & Hn & Hs). pose proof (nval_nonneg n Hd) as H0.
  exists n. unfold tok, gnum_ok, sg_ok, gratom_in. rewrite Hw, Hd, Hn.
  destruct Hs as [[-> ->] | [[-> ->] | [-> ->]]].
  - repeat split; auto.
  - repeat split; auto.
  - exfalso. lia.
Qed.

(* ---------------- FORWARD ---------------- *)
Lemma hd_nonws_tok n k : sg_ok n = true -> digits_ok (n_ds n) = true ->
  match n_sg n ++ n_ds n ++ k with [] => True | c :: _ => is_ws c = false end.
Proof.
  unfold sg_ok, digits_ok. intros Hs Hd. apply andb_prop in Hd. destruct Hd as [Hd Hne].
  destruct (n_sg n) as [|c [|c2 l]]; [| |discriminate].
  - cbn [app]. destruct (n_ds n) as [|d ds]; [discriminate|]. cbn in *. apply andb_prop in Hd. apply digit_not_ws. tauto.
  - cbn [app]. unfold is_ws. lia.
Qed.

Lemma match_int_fwd n k ln : gnum_ok n k = true -> nval n <= INT64_MAX ->
  exists ln', a_match_int false (amk (r_gnum n ++ k) ln) = (Some (nval n), amk k ln').
Proof.
  unfold gnum_ok. intros H Hmax. bsplit.
  match goal with H : ws_ok _ = true |- _ => rename H into Hw end.
  match goal with H : sg_ok _ = true |- _ => rename H into Hs end.
  match goal with H : digits_ok _ = true |- _ => rename H into Hd end.
  match goal with H : nd _ = true |- _ => rename H into Hn end.
  unfold r_gnum. rewrite <- !app_assoc.
  destruct (skipws_app (length (n_ws n)) (n_ws n) (n_sg n ++ n_ds n ++ k) ln (le_n _) Hw (hd_nonws_tok n k Hs Hd)) as [ln' Es].
  exists ln'. unfold a_match_int, a_skipws. cbn [rest aline]. rewrite Es. cbn [rest aline]. rewrite peek_hd. cbn [rest].
  apply nd_delim in Hn.
  pose proof Hd as Hd'. unfold digits_ok in Hd'. apply andb_prop in Hd'. destruct Hd' as [Hall Hne].
  destruct (n_ds n) as [|d ds] eqn:Eds; [discriminate|]. cbn [forallb] in Hall. apply andb_prop in Hall. destruct Hall as [Hd1 Hd2].
  apply all_digits_b in Hd2.
  assert (Hdig : 0 <= to_digit d <= 9) by (unfold is_digit, to_digit in *; lia).
  assert (Hv : nval n = value_acc (to_digit d) ds).
  { unfold nval, value. rewrite Eds. cbn [value_acc]. reflexivity. }
  destruct (a_digits_spec ds k (to_digit d) Hd2 Hn ltac:(unfold INT64_MAX; lia)) as (x & g & E & Hok & _).
  rewrite <- Hv in Hok. destruct (Hok Hmax) as [-> ->].
  unfold sg_ok in Hs. destruct (n_sg n) as [|c [|c2 l]] eqn:Esg; [| |discriminate].
  - cbn [app hd tl].
    assert (Hsd : (d =? 43) || (d =? 45) = false) by (unfold is_digit in Hd1; lia). rewrite Hsd, Hd1, E.
    assert (Hm : (d =? 45) = false) by (unfold is_digit in Hd1; lia). rewrite Hm. reflexivity.
  - cbn [app hd tl].
    assert (Hsd : (c =? 43) || (c =? 45) = true) by lia. rewrite Hsd, Hd1, E.
    destruct (Z.eqb_spec c 45) as [->|N45]; [|reflexivity].
    assert (nval n = 0) by lia. do 3 f_equal. lia.
Qed.

(* results up to the line counter (ProofsLex.yields) *)
Lemma yields_bind {A B} (m : out (A * ast)) (f : A * ast -> out (B * ast)) v1 r1 v2 r2 :
  yields m v1 r1 -> (forall ln, yields (f (v1, amk r1 ln)) v2 r2) -> yields (bind m f) v2 r2.
Proof. intros [ln E] H. rewrite E. cbn [bind]. apply H. Qed.
Lemma yields_ret {A} (v : A) r ln : yields (Ok (v, amk r ln)) v r.
Proof. exists ln. reflexivity. Qed.

Lemma m_pos_fwd max n k ln : max <= INT64_MAX -> gnum_ok n k = true -> nval n <= max ->
  yields (m_pos max (amk (r_gnum n ++ k) ln)) (nval n) k.
Proof.
  intros Hmax Hok Hle. unfold m_pos.
  destruct (match_int_fwd n k ln Hok ltac:(lia)) as [ln' E]. rewrite E.
  assert (H0 : 0 <= nval n).
  { apply nval_nonneg. unfold gnum_ok in Hok. bsplit. assumption. }
  replace ((0 <=? nval n) && (nval n <=? max)) with true by lia. exists ln'. reflexivity.
Qed.

Lemma m_atom_fwd vm n k ln : vm <= INT64_MAX -> gnum_ok n k = true -> gratom_in vm n = true ->
  yields (m_atom_v vm (amk (r_gnum n ++ k) ln)) (nval n) k.
Proof.
  intros Hvm Hok Hin. unfold m_atom_v. unfold gratom_in in Hin.
  destruct (match_int_fwd n k ln Hok ltac:(lia)) as [ln' E]. rewrite E.
  change atomMin with 1. rewrite Hin. exists ln'. reflexivity.
Qed.

(* every number token takes at least one byte *)
Lemma r_gnum_len n k : gnum_ok n k = true -> (1 <= length (r_gnum n))%nat.
Proof.
  unfold gnum_ok, digits_ok. intros H. bsplit. unfold r_gnum. rewrite !app_length.
  destruct (n_ds n); [discriminate|]. cbn [length]. lia.
Qed.
Lemma r_gnums_len l : forall k, gnums_ok l k = true -> (length l <= length (r_gnums l))%nat.
Proof.
  induction l as [|n l IH]; intros k H; [cbn; lia|]. unfold gnums_ok in H. cbn [seq_ok] in H. bsplit.
  unfold r_gnums. cbn [flat_map length]. rewrite app_length.
  pose proof (r_gnum_len _ _ ltac:(eassumption)). specialize (IH k ltac:(assumption)). unfold r_gnums in IH. lia.
Qed.
