(* C07 - SOUNDNESS for arbitrary byte lists: whatever the reader model accepts is the text of a well-formed, in-range
   program of the general description (SpecG.v) and the delivered calls are its denotation.
   Inversion lemmas: per stream primitive (ProofsGLex.v), per field, per counted list, per rule, per section, per step. *)
Require Import V.Lib.Base V.Lib.Calls V.Lib.Dec V.C09.Spec V.Gen.Consts V.Gen.Consts_C07.
Require Import V.C07.Model V.C07.Spec V.C07.SpecG V.C07.ProofsLex V.C07.ProofsStream V.C07.ProofsGram V.C07.ProofsGLex.
Require Import ZifyBool.
Local Open Scope Z_scope.
Ltac Zify.zify_post_hook ::= Z.div_mod_to_equations.

Lemma bind_ok {A B} (m : out A) (f : A -> out B) b : bind m f = Ok b -> exists a, m = Ok a /\ f a = Ok b.
Proof. destruct m; cbn; intros H; [eauto | discriminate | discriminate]. Qed.
Ltac binv H := let a := fresh "a" in let E := fresh "E" in apply bind_ok in H; destruct H as (a & E & H).
Lemma require_ok c s u : m_require c s = Ok u -> c = true.
Proof. unfold m_require. destruct c; [reflexivity | discriminate]. Qed.

(* ---------------- counted lists ---------------- *)
Lemma many_inv (f : ast -> out (Z * ast)) (rng : gnum -> bool) :
  (forall s v s', f s = Ok (v, s') -> exists n, tok n (rest s) (rest s') /\ nval n = v /\ rng n = true) ->
  forall fuel cnt s vs s', m_many f fuel cnt s = Ok (vs, s') -> 0 <= cnt ->
  exists l, toks l (rest s) (rest s') /\ Z.of_nat (length l) = cnt /\ vs = gvals l /\ forallb rng l = true.
Proof.
  intros Hf. induction fuel as [|fu IH]; intros cnt s vs s' H Hc; cbn [m_many] in H.
  - destruct (Z.eqb_spec cnt 0) as [->|N]; [|discriminate]. inversion H; subst. exists []. repeat split.
  - destruct (Z.eqb_spec cnt 0) as [->|N].
    + inversion H; subst. exists []. repeat split.
    + binv H. destruct a as [v s1]. binv H. destruct a as [l0 s2]. inversion H; subst. clear H.
      destruct (Hf _ _ _ E) as (n & Ht & Hv & Hr).
      destruct (IH _ _ _ _ E0 ltac:(lia)) as (l & Hl & Hlen & Hvs & Hrs).
      exists (n :: l). split; [eapply toks_cons; eassumption|]. cbn [length gvals map forallb]. rewrite Hv, Hr, Hrs, Hvs.
      repeat split. lia.
Qed.

(* ================= generic in the reader's atom limit vm (ProgramReader::setMaxVar): NO hypothesis on vm is needed for soundness;
   g_sound (vm = sm_varMax, the reader without a configured limit) follows behind the section ================= *)
Section MaxVar.
Variable vm : Z.
Local Notation m_atom := (m_atom_v vm).
Local Notation m_body := (m_body_v vm).
Local Notation m_sum := (m_sum_v vm).
Local Notation read_rule := (read_rule_v vm).
Local Notation read_rules := (read_rules_v vm).
Local Notation do_parse := (do_parse_v vm).
Local Notation parse_steps := (parse_steps_v vm).
Local Notation read_smodels := (read_smodels_v vm).
Local Notation gbody_in := (gbody_in_v vm).
Local Notation grule_in := (grule_in_v vm).
Local Notation gstep_in := (gstep_in_v vm).
Local Notation gin_range := (gin_range_v vm).
Local Notation m_atom_inv := (V.C07.ProofsGLex.m_atom_inv vm).

Lemma atoms_inv fuel cnt s vs s' : m_many m_atom fuel cnt s = Ok (vs, s') -> 0 <= cnt ->
  exists l, toks l (rest s) (rest s') /\ Z.of_nat (length l) = cnt /\ vs = gvals l /\ forallb (gratom_in vm) l = true.
Proof. apply many_inv. apply m_atom_inv. Qed.

Lemma m_weight_inv s v s' : m_weight s = Ok (v, s') ->
  exists n, tok n (rest s) (rest s') /\ nval n = v /\ gweight_in n = true.
Proof.
  unfold m_weight. intros H. binv H. destruct a as [w s1]. inversion H; subst. clear H.
  destruct (m_pos_inv _ _ _ _ E) as (n & Ht & Hv & Hr). rewrite weight_max_eq in Hr.
  exists n. split; [exact Ht|]. rewrite wrap32s_id by lia. unfold gweight_in. split; [exact Hv | lia].
Qed.
Lemma weights_inv fuel cnt s vs s' : m_many m_weight fuel cnt s = Ok (vs, s') -> 0 <= cnt ->
  exists l, toks l (rest s) (rest s') /\ Z.of_nat (length l) = cnt /\ vs = gvals l /\ forallb gweight_in l = true.
Proof. apply many_inv. apply m_weight_inv. Qed.

Lemma count_inv s v s' : m_pos sm_umax s = Ok (v, s') ->
  exists n, tok n (rest s) (rest s') /\ nval n = v /\ gcount_in n = true /\ 0 <= v.
Proof.
  intros H. destruct (m_pos_inv _ _ _ _ H) as (n & Ht & Hv & Hr). exists n. unfold gcount_in. change sm_umax with UINT_MAX in Hr.
  unfold UINT_MAX in *. split; [exact Ht|]. split; [exact Hv|]. split; lia.
Qed.

(* ---------------- bodies ---------------- *)
Lemma d_gbody_eq b : 0 <= nval (gb_neg b) -> d_gbody b = apply_neg (nval (gb_neg b)) (gvals (gb_atoms b)).
Proof. intros H. unfold d_gbody. now rewrite apply_neg_spec. Qed.

Lemma m_body_inv s lits s' : m_body s = Ok (lits, s') ->
  exists b, toks (gb_len b :: gb_neg b :: gb_atoms b) (rest s) (rest s') /\ gbody_shape b = true /\ gbody_in b = true /\
            lits = d_gbody b.
Proof.
  unfold m_body_v. intros H. binv H. destruct a as [len s1]. binv H. destruct a as [neg s2]. binv H. binv H. destruct a0 as [atoms s3].
  inversion H; subst. clear H.
  destruct (count_inv _ _ _ E) as (nl & Tl & Vl & Rl & Pl). destruct (count_inv _ _ _ E0) as (nn & Tn & Vn & Rn & Pn).
  apply require_ok in E1. rewrite neg_check_body_eq in E1. cbn [negb orb] in E1.
  destruct (atoms_inv _ _ _ _ _ E2 Pl) as (l & Tl2 & Hlen & Hvs & Hrs).
  exists (mkgbody nl nn l). cbn [gb_len gb_neg gb_atoms]. split; [|split; [|split]].
  - eapply toks_cons; [eassumption|]. eapply toks_cons; eassumption.
  - unfold gbody_shape, len_is. cbn [gb_len gb_atoms]. lia.
  - unfold gbody_in_v. cbn [gb_len gb_neg gb_atoms]. rewrite Rl, Rn, Hrs, Vl, Vn, E1. reflexivity.
  - rewrite d_gbody_eq by (cbn [gb_neg]; lia). cbn [gb_neg gb_atoms]. rewrite Vn, Hvs. reflexivity.
Qed.

Lemma m_sum_c_inv s bnd wl s' : m_sum false s = Ok (bnd, wl, s') ->
  exists b bn, toks (gb_len b :: gb_neg b :: bn :: gb_atoms b) (rest s) (rest s') /\ gbody_shape b = true /\ gbody_in b = true /\
               gweight_in bn = true /\ bnd = nval bn /\ wl = map (fun l => (l, 1)) (d_gbody b).
Proof.
  unfold m_sum_v. intros H. binv H. destruct a as [len s1]. binv H. destruct a as [neg s2]. binv H. destruct a as [bd s3].
  cbv iota beta in H. binv H. binv H. binv H. destruct a1 as [atoms s4]. inversion H; subst. clear H.
  destruct (count_inv _ _ _ E) as (nl & Tl & Vl & Rl & Pl). destruct (count_inv _ _ _ E0) as (nn & Tn & Vn & Rn & Pn).
  destruct (count_inv _ _ _ E1) as (nb & Tb & Vb & Rb & Pb).
  apply require_ok in E2. apply require_ok in E3. rewrite neg_check_sum_eq in E3. cbn [negb orb] in E3. rewrite bound_max_eq in E2.
  destruct (atoms_inv _ _ _ _ _ E4 Pl) as (l & Tl2 & Hlen & Hvs & Hrs).
  exists (mkgbody nl nn l), nb. cbn [gb_len gb_neg gb_atoms]. split; [|split; [|split; [|split; [|split]]]].
  - eapply toks_cons; [eassumption|]. eapply toks_cons; [eassumption|]. eapply toks_cons; eassumption.
  - unfold gbody_shape, len_is. cbn [gb_len gb_atoms]. lia.
  - unfold gbody_in_v. cbn [gb_len gb_neg gb_atoms]. rewrite Rl, Rn, Hrs, Vl, Vn, E3. reflexivity.
  - unfold gweight_in. lia.
  - rewrite wrap32s_id by lia. lia.
  - rewrite d_gbody_eq by (cbn [gb_neg]; lia). cbn [gb_neg gb_atoms]. rewrite Vn, Hvs. reflexivity.
Qed.

Lemma m_sum_w_inv s bnd wl s' : m_sum true s = Ok (bnd, wl, s') ->
  exists bn b wts, toks (bn :: gb_len b :: gb_neg b :: gb_atoms b ++ wts) (rest s) (rest s') /\ gbody_shape b = true /\
               len_is (gb_len b) wts = true /\ gbody_in b = true /\ gweight_in bn = true /\ forallb gweight_in wts = true /\
               bnd = nval bn /\ wl = combine (d_gbody b) (gvals wts).
Proof.
  unfold m_sum_v. intros H. binv H. destruct a as [bd s1]. binv H. destruct a as [len s2]. binv H. destruct a as [neg s3].
  cbv iota beta in H. binv H. binv H. binv H. destruct a1 as [atoms s4]. binv H. destruct a1 as [ws s5]. inversion H; subst. clear H.
  destruct (count_inv _ _ _ E) as (nb & Tb & Vb & Rb & Pb). destruct (count_inv _ _ _ E0) as (nl & Tl & Vl & Rl & Pl).
  destruct (count_inv _ _ _ E1) as (nn & Tn & Vn & Rn & Pn).
  apply require_ok in E2. apply require_ok in E3. rewrite neg_check_sum_eq in E3. cbn [negb orb] in E3. rewrite bound_max_eq in E2.
  destruct (atoms_inv _ _ _ _ _ E4 Pl) as (l & Tl2 & Hlen & Hvs & Hrs).
  destruct (weights_inv _ _ _ _ _ E5 Pl) as (wl & Tw & Hwlen & Hws & Hwr).
  exists nb, (mkgbody nl nn l), wl. cbn [gb_len gb_neg gb_atoms]. split; [|split; [|split; [|split; [|split; [|split; [|split]]]]]].
  - eapply toks_cons; [eassumption|]. eapply toks_cons; [eassumption|]. eapply toks_cons; [eassumption|]. eapply toks_app; eassumption.
  - unfold gbody_shape, len_is. cbn [gb_len gb_atoms]. lia.
  - unfold len_is. lia.
  - unfold gbody_in_v. cbn [gb_len gb_neg gb_atoms]. rewrite Rl, Rn, Hrs, Vl, Vn, E3. reflexivity.
  - unfold gweight_in. lia.
  - exact Hwr.
  - rewrite wrap32s_id by lia. lia.
  - rewrite d_gbody_eq by (cbn [gb_neg]; lia). cbn [gb_neg gb_atoms]. rewrite Vn, Hvs, Hws. reflexivity.
Qed.

(* ---------------- one rule ---------------- *)
Lemma extval_eq v : 0 <= v <= sm_extval_max -> Z.lxor v sm_extval_xor - sm_extval_sub = d_extval v.
Proof.
  change sm_extval_max with 2. intros H. assert (Hc : v = 0 \/ v = 1 \/ v = 2) by lia.
  destruct Hc as [-> | [-> | ->]]; reflexivity.
Qed.

Lemma read_rule_inv o prio t s cs prio' s' : read_rule o prio (nval t) s = Ok (cs, prio', s') ->
  exists r l, rule_toks r = t :: l /\ toks l (rest s) (rest s') /\ grule_shape r = true /\
              grule_in (claspExt o) r = true /\ d_grule prio r = (cs, prio').
Proof.
  unfold read_rule_v. intros H.
  destruct ((nval t =? Sm_Choice) || (nval t =? Sm_Disjunctive)) eqn:Em.
  { binv H. destruct a as [n s1]. binv H. destruct a as [hs s2]. binv H. destruct a as [b s3]. inversion H; subst. clear H.
    destruct (m_atom_inv _ _ _ E) as (nn & Tn & Vn & Rn).
    assert (Pn : 0 <= n) by (unfold gratom_in in Rn; lia).
    destruct (atoms_inv _ _ _ _ _ E0 Pn) as (lh & Th & Hlen & Hvs & Hrs).
    destruct (m_body_inv _ _ _ E1) as (bd & Tb & Sb & Ib & Db).
    exists (GMulti t nn lh bd), (nn :: lh ++ gb_len bd :: gb_neg bd :: gb_atoms bd). cbn [rule_toks grule_shape grule_in_v d_grule].
    split; [reflexivity|]. split; [eapply toks_cons; [eassumption|]; eapply toks_app; eassumption|].
    unfold len_is. rewrite Em, Sb, Rn, Hrs, Ib, Hvs, Db. split; [|split; reflexivity]. cbn [andb]. rewrite andb_true_r. lia. }
  destruct (nval t =? Sm_Basic) eqn:Eb.
  { binv H. destruct a as [h s1]. binv H. destruct a as [b s2]. inversion H; subst. clear H.
    destruct (m_atom_inv _ _ _ E) as (nh & Tn & Vn & Rn).
    destruct (m_body_inv _ _ _ E0) as (bd & Tb & Sb & Ib & Db).
    exists (GBasic t nh bd), (nh :: gb_len bd :: gb_neg bd :: gb_atoms bd). cbn [rule_toks grule_shape grule_in_v d_grule].
    split; [reflexivity|]. split; [eapply toks_cons; eassumption|].
    rewrite Eb, Sb, Rn, Ib, Vn, Db. repeat split. }
  destruct (nval t =? Sm_Weight) eqn:Ew.
  { rewrite orb_true_r in H. binv H. destruct a as [h s1]. binv H. destruct a as [[bnd wl] s2]. inversion H; subst. clear H.
    destruct (m_atom_inv _ _ _ E) as (nh & Tn & Vn & Rn).
    destruct (m_sum_w_inv _ _ _ _ E0) as (bn & bd & wts & Tb & Sb & Lw & Ib & Wb & Ww & Vb & Vw).
    exists (GWeight t nh bn bd wts), (nh :: bn :: gb_len bd :: gb_neg bd :: gb_atoms bd ++ wts). cbn [rule_toks grule_shape grule_in_v d_grule].
    split; [reflexivity|]. split; [eapply toks_cons; eassumption|].
    rewrite Ew, Sb, Lw, Rn, Wb, Ib, Ww, Vn, Vb, Vw. repeat split. }
  rewrite orb_false_r in H.
  destruct (nval t =? Sm_Cardinality) eqn:Ec.
  { binv H. destruct a as [h s1]. binv H. destruct a as [[bnd wl] s2]. inversion H; subst. clear H.
    destruct (m_atom_inv _ _ _ E) as (nh & Tn & Vn & Rn).
    destruct (m_sum_c_inv _ _ _ _ E0) as (bd & bn & Tb & Sb & Ib & Wb & Vb & Vw).
    exists (GCard t nh bd bn), (nh :: gb_len bd :: gb_neg bd :: bn :: gb_atoms bd). cbn [rule_toks grule_shape grule_in_v d_grule].
    split; [reflexivity|]. split; [eapply toks_cons; eassumption|].
    rewrite Ec, Sb, Rn, Wb, Ib, Vn, Vb, Vw. repeat split. }
  destruct (nval t =? Sm_Optimize) eqn:Eo.
  { binv H. destruct a as [[bnd wl] s1]. inversion H; subst. clear H.
    destruct (m_sum_w_inv _ _ _ _ E) as (bn & bd & wts & Tb & Sb & Lw & Ib & Wb & Ww & Vb & Vw).
    exists (GMin t bn bd wts), (bn :: gb_len bd :: gb_neg bd :: gb_atoms bd ++ wts). cbn [rule_toks grule_shape grule_in_v d_grule].
    split; [reflexivity|]. split; [exact Tb|].
    rewrite Eo, Sb, Lw, Wb, Ib, Ww, Vw. repeat split. }
  destruct (nval t =? Sm_ClaspIncrement) eqn:Ei.
  { destruct (claspExt o); [|discriminate]. binv H. destruct a as [z s1]. binv H. inversion H; subst. clear H.
    destruct (count_inv _ _ _ E) as (nz & Tz & Vz & Rz & Pz). apply require_ok in E0.
    exists (GInc t nz), [nz]. cbn [rule_toks grule_shape grule_in_v d_grule].
    split; [reflexivity|]. split; [apply toks_one; exact Tz|]. rewrite Ei, Vz, E0. repeat split. }
  destruct (nval t =? Sm_ClaspAssignExt) eqn:Ea.
  { cbn [orb] in H. destruct (claspExt o); [|discriminate]. binv H. destruct a as [a s1]. binv H. destruct a0 as [v s2]. inversion H; subst. clear H.
    destruct (m_atom_inv _ _ _ E) as (na & Tn & Vn & Rn).
    destruct (m_pos_inv _ _ _ _ E0) as (nv & Tv & Vv & Rv).
    exists (GAssign t na nv), [na; nv]. cbn [rule_toks grule_shape grule_in_v d_grule].
    split; [reflexivity|]. split; [eapply toks_cons; [eassumption|]; apply toks_one; exact Tv|].
    rewrite Ea, Rn, Vn, Vv, (extval_eq v Rv). change sm_extval_max with 2 in Rv. repeat split. cbn [andb]. lia. }
  cbn [orb] in H. destruct (nval t =? Sm_ClaspReleaseExt) eqn:Er; [|discriminate].
  destruct (claspExt o); [|discriminate]. binv H. destruct a as [a s1]. inversion H; subst. clear H.
  destruct (m_atom_inv _ _ _ E) as (na & Tn & Vn & Rn).
  exists (GRelease t na), [na]. cbn [rule_toks grule_shape grule_in_v d_grule].
  split; [reflexivity|]. split; [apply toks_one; exact Tn|]. rewrite Er, Rn, Vn. repeat split.
Qed.

(* ---------------- the rule block ---------------- *)
Lemma read_rules_inv o : forall fuel prio s cs s' w, read_rules fuel o prio s = (cs, Ok s') -> ws_ok w = true ->
  exists rules rend, toks (flat_map rule_toks rules ++ [rend]) (w ++ rest s) (rest s') /\
     forallb grule_shape rules = true /\ nval rend = 0 /\ forallb (grule_in (claspExt o)) rules = true /\ cs = d_grules prio rules.
Proof.
  induction fuel as [|fu IH]; intros prio s cs s' w H Hw; cbn [read_rules_v] in H; [discriminate|].
  destruct (m_pos sm_rt_max s) as [[rt s1]| |] eqn:E; try discriminate.
  destruct (m_pos_inv _ _ _ _ E) as (n & Tn & Vn & Rn). apply (tok_addws w) in Tn; [|exact Hw].
  destruct (Z.eqb_spec rt 0) as [->|N0].
  - inversion H; subst. exists [], (addws w n). cbn [flat_map app forallb d_grules].
    split; [apply toks_one; exact Tn|]. repeat split. exact Vn.
  - destruct (read_rule o prio rt s1) as [[[cs1 prio1] s2]| |] eqn:Er; try discriminate.
    destruct (read_rules fu o prio1 s2) as [cs2 r2] eqn:Err. inversion H; subst. clear H.
    destruct (IH _ _ _ _ [] Err eq_refl) as (rules & rend & Tr & Sr & Vr & Ir & Dr). cbn [app] in Tr.
    destruct (read_rule_inv o prio (addws w n) s1 cs1 prio1 s2 Er) as (r & l & Et & Tl & Shr & Inr & Dru).
    exists (r :: rules), rend. cbn [flat_map forallb d_grules]. rewrite Et, Shr, Inr, Dru, Sr, Ir. cbn [fst snd].
    split. 2: { rewrite Dr. repeat split. assumption. }
    rewrite <- app_assoc. cbn [app]. eapply toks_cons; [exact Tn|]. eapply toks_app; eassumption.
Qed.

(* ---------------- get(), names, the symbol table ---------------- *)
Lemma get_inv s c s' : a_get s = (c, s') ->
  (rest s = [] /\ c = 0 /\ s' = s) \/
  (c = 10 /\ exists t, rest s = t ++ rest s' /\ term_ok t (rest s') = true) \/
  (c <> 10 /\ c <> 13 /\ rest s = c :: rest s').
Proof.
  unfold a_get. destruct (rest s) as [|c0 r] eqn:E; intros H.
  - inversion H; subst. left. auto.
  - right. destruct (Z.eqb_spec c0 13) as [->|N13].
    + left. rewrite match10x in H. destruct r as [|c2 r2].
      * inversion H; subst. split; [reflexivity|]. exists [13]. cbn. auto.
      * destruct (Z.eqb_spec c2 10) as [->|N10]; inversion H; subst; (split; [reflexivity|]); cbn [rest].
        -- exists [13; 10]. cbn. auto.
        -- exists [13]. cbn [app term_ok hd]. split; [reflexivity|]. lia.
    + destruct (Z.eqb_spec c0 10) as [->|N10]; inversion H; subst; cbn [rest].
      * left. split; [reflexivity|]. exists [10]. cbn. auto.
      * right. auto.
Qed.

Lemma read_name_inv : forall fuel s name s', read_name fuel s = Ok (name, s') ->
  exists t, rest s = name ++ t ++ rest s' /\ name_ok name = true /\ term_ok t (rest s') = true.
Proof.
  induction fuel as [|fu IH]; intros s name s' H; cbn [read_name] in H; [discriminate|].
  destruct (a_get s) as [c s1] eqn:Eg. destruct (Z.eqb_spec c 10) as [->|N10].
  - inversion H; subst. destruct (get_inv _ _ _ Eg) as [(_ & X & _) | [(_ & t & Et & Ht) | (X & _)]]; [discriminate | | congruence].
    exists t. cbn [app]. auto.
  - destruct (Z.eqb_spec c 0) as [->|N0]; [discriminate|]. binv H. destruct a as [n s2]. inversion H; subst. clear H.
    destruct (IH _ _ _ E) as (t & Et & Hn & Ht).
    destruct (get_inv _ _ _ Eg) as [(_ & X & _) | [(X & _) | (_ & N13 & Ec)]]; [congruence | congruence|].
    exists t. cbn [app]. rewrite Ec, Et. split; [reflexivity|]. split; [|exact Ht].
    unfold name_ok in *. cbn [forallb]. rewrite Hn. lia.
Qed.

Lemma read_name_nul fuel s x : (a_peek s =? 0) = true -> read_name fuel s = Ok x -> False.
Proof.
  destruct fuel as [|fu]; cbn [read_name]; [discriminate|]. unfold a_get, a_peek. destruct (rest s) as [|c r]; intros Hp.
  - cbn. discriminate.
  - apply Z.eqb_eq in Hp. subst c. cbn. discriminate.
Qed.

Lemma term_sep t k : term_ok t k = true -> gsep_ok t k = true.
Proof.
  destruct t as [|c [|c2 [|c3 t]]]; cbn [term_ok gsep_ok]; try discriminate; [|auto]. unfold is_digit. lia.
Qed.

Lemma gsyms_ok_cons y l k : gsyms_ok (y :: l) k = gsym_ok y (r_gsyms l ++ k) && gsyms_ok l k.
Proof. reflexivity. Qed.
Lemma r_gsyms_cons y l : r_gsyms (y :: l) = r_gsym y ++ r_gsyms l.
Proof. reflexivity. Qed.
Lemma gnums_ok_cons n l k : gnums_ok (n :: l) k = gnum_ok n (r_gnums l ++ k) && gnums_ok l k.
Proof. reflexivity. Qed.

Definition d_syms (l : list gsym) : list call := map (fun y => COutput (gy_name y) [nval (gy_atom y)]) l.

Lemma read_symbols_inv : forall fuel s cs s', read_symbols fuel s = (cs, Ok s') ->
  exists syms send, rest s = r_gsyms syms ++ r_gnum send ++ rest s' /\ gsyms_ok syms (r_gnum send ++ rest s') = true /\
     gnum_ok send (rest s') = true /\ nval send = 0 /\ forallb (fun y => gatom_in (gy_atom y)) syms = true /\ cs = d_syms syms.
Proof.
  induction fuel as [|fu IH]; intros s cs s' H; cbn [read_symbols] in H; [discriminate|].
  destruct (m_pos sm_sym_max s) as [[v s1]| |] eqn:E; try discriminate.
  destruct (m_pos_inv _ _ _ _ E) as (n & [En Hn] & Vn & Rn). rewrite sym_max_eq in Rn.
  cbv zeta in H. rewrite wrap32s_id in H by (unfold INT_MAX, atomMax in *; lia).
  destruct (Z.eqb_spec v 0) as [->|N0].
  - inversion H; subst. exists [], n. cbn [r_gsyms flat_map app forallb d_syms map]. unfold gsyms_ok. cbn [seq_ok]. repeat split; auto.
  - unfold m_get in H. destruct (a_peek s1 =? 0) eqn:Epk.
    { exfalso. cbn [snd] in H. destruct (read_name (fuel_of s1) s1) as [[name s3]| |] eqn:Ename; try discriminate.
      exact (read_name_nul _ _ _ Epk Ename). }
    destruct (a_get s1) as [c s2] eqn:Eg. cbn [snd] in H.
    destruct (read_name (fuel_of s2) s2) as [[name s3]| |] eqn:Ename; try discriminate.
    destruct (read_symbols fu s3) as [cs3 r3] eqn:Er. inversion H; subst. clear H.
    destruct (IH _ _ _ Er) as (syms & send & Es & Hs & Hse & Vse & Is & Ds).
    destruct (read_name_inv _ _ _ _ Ename) as (t & Et & Hname & Ht).
    assert (Hsep : exists sep, rest s1 = sep ++ rest s2 /\ gsep_ok sep (rest s2) = true).
    { destruct (get_inv _ _ _ Eg) as [(Enil & _ & _) | [(_ & sp & Esp & Hsp) | (N10 & N13 & Ec)]].
      - exfalso. rewrite peek_hd, Enil in Epk. discriminate.
      - exists sp. split; [exact Esp | now apply term_sep].
      - exists [c]. split; [exact Ec|]. cbn [gsep_ok]. unfold gnum_ok in Hn. bsplit.
        rewrite peek_hd, Ec in Epk. cbn [hd] in Epk.
        match goal with Hx : nd (rest s1) = true |- _ => rewrite Ec, nd_cons in Hx; rewrite Hx end. lia. }
    destruct Hsep as (sep & Esep & Hsep).
    exists (mkgsym n sep name t :: syms), send. rewrite gsyms_ok_cons, r_gsyms_cons. cbn [forallb d_syms map].
    rewrite <- app_assoc, <- Es. unfold gsym_ok, r_gsym. cbn [gy_atom gy_sep gy_name gy_term].
    rewrite <- !app_assoc, <- Et, <- Esep. rewrite Hn, Hsep, Hname, Ht, Hs.
    repeat split; try assumption.
    + rewrite Is. unfold gatom_in, atomMax in *. lia.
    + rewrite Ds. reflexivity.
Qed.

(* ---------------- compute statements, externals, number of models ---------------- *)
Lemma match_tok_inv w s s' : a_match_tok w s = (true, s') -> rest s = w ++ rest s'.
Proof.
  unfold a_match_tok. destruct (list_eqb (firstn (length w) (rest s)) w) eqn:E; intros H; inversion H; subst. cbn [rest].
  apply list_eqb_eq in E. rewrite <- (firstn_skipn (length w) (rest s)) at 1. rewrite E. reflexivity.
Qed.
Lemma match_tok_false w s s' : a_match_tok w s = (false, s') -> s' = s.
Proof. unfold a_match_tok. destruct (list_eqb (firstn (length w) (rest s)) w); intros H; inversion H; reflexivity. Qed.

Definition d_comp (val : bool) (l : list gnum) : list call :=
  map (fun a => CRule Head_t_Disjunctive [] [if val then - nval a else nval a]) l.

Lemma comp_atoms_inv val : forall fuel s cs s', read_comp_atoms fuel val s = (cs, Ok s') ->
  exists l e, toks (l ++ [e]) (rest s) (rest s') /\ nval e = 0 /\ forallb gatom_in l = true /\ cs = d_comp val l.
Proof.
  induction fuel as [|fu IH]; intros s cs s' H; cbn [read_comp_atoms] in H; [discriminate|].
  destruct (m_pos sm_comp_max s) as [[v s1]| |] eqn:E; try discriminate.
  destruct (m_pos_inv _ _ _ _ E) as (n & Tn & Vn & Rn). rewrite comp_max_eq in Rn.
  cbv zeta in H. rewrite wrap32s_id in H by (unfold INT_MAX, atomMax in *; lia).
  destruct (Z.eqb_spec v 0) as [->|N0].
  - inversion H; subst. exists [], n. cbn [app forallb d_comp map]. split; [apply toks_one; exact Tn|]. auto.
  - destruct (read_comp_atoms fu val s1) as [cs1 r1] eqn:Er. inversion H; subst. clear H.
    destruct (IH _ _ _ Er) as (l & e & Tl & Ve & Il & Dl).
    exists (n :: l), e. cbn [app forallb d_comp map]. split; [eapply toks_cons; eassumption|]. split; [exact Ve|].
    rewrite Il, Dl. split; [|reflexivity]. unfold gatom_in, atomMax in *. lia.
Qed.

Lemma read_compute_inv key val s cs s' : read_compute key val s = (cs, Ok s') ->
  exists w nlt l e, rest s = r_comp w key nlt l e ++ rest s' /\ comp_ok w nlt l e (rest s') = true /\
                    forallb gatom_in l = true /\ cs = d_comp val l.
Proof.
  unfold read_compute. destruct (skipws_inv s) as (w & Ew & Hw & _).
  destruct (a_match_tok key (a_skipws s)) as [[|] s1] eqn:Em; [|discriminate].
  apply match_tok_inv in Em. destruct (a_get s1) as [c s2] eqn:Eg. destruct (Z.eqb_spec c 10) as [->|N10]; [|discriminate].
  intros H. destruct (comp_atoms_inv _ _ _ _ _ H) as (l & e & [El Hl] & Ve & Il & Dl).
  destruct (get_inv _ _ _ Eg) as [(_ & X & _) | [(_ & t & Et & Ht) | (X & _)]]; [discriminate | | congruence].
  exists w, t, l, e. unfold r_comp, comp_ok. rewrite <- !app_assoc, <- El, <- Et, <- Em, <- Ew, Hw, Ht, Hl, Ve. auto.
Qed.

Definition d_exts (l : list gnum) : list call := map (fun a => CExternal (nval a) Value_t_Free) l.
Lemma ext_atoms_inv : forall fuel s cs s', read_ext_atoms fuel s = (cs, Ok s') ->
  exists l e, toks (l ++ [e]) (rest s) (rest s') /\ nval e = 0 /\ forallb gatom_in l = true /\ cs = d_exts l.
Proof.
  induction fuel as [|fu IH]; intros s cs s' H; cbn [read_ext_atoms] in H; [discriminate|].
  destruct (m_pos sm_ext_max s) as [[v s1]| |] eqn:E; try discriminate.
  destruct (m_pos_inv _ _ _ _ E) as (n & Tn & Vn & Rn). rewrite ext_max_eq in Rn.
  destruct (Z.eqb_spec v 0) as [->|N0].
  - inversion H; subst. exists [], n. cbn [app forallb d_exts map]. split; [apply toks_one; exact Tn|]. auto.
  - destruct (read_ext_atoms fu s1) as [cs1 r1] eqn:Er. inversion H; subst. clear H.
    destruct (IH _ _ _ Er) as (l & e & Tl & Ve & Il & Dl).
    exists (n :: l), e. cbn [app forallb d_exts map]. split; [eapply toks_cons; eassumption|]. split; [exact Ve|].
    rewrite Il, Dl. split; [|reflexivity]. unfold gatom_in, atomMax in *. lia.
Qed.

Lemma cbind_ok {A B} (m : cres A) (f : A -> cres B) cs b : cbind m f = (cs, Ok b) ->
  exists c1 a c2, m = (c1, Ok a) /\ f a = (c2, Ok b) /\ cs = c1 ++ c2.
Proof.
  unfold cbind. destruct m as [c1 [a| |]]; try discriminate. destruct (f a) as [c2 r] eqn:E. intros H. inversion H; subst.
  exists c1, a, c2. auto.
Qed.

Lemma read_extra_inv s cs s' : read_extra s = (cs, Ok s') ->
  exists e m, rest s = r_gext e ++ r_gnum m ++ rest s' /\ gext_ok e (r_gnum m ++ rest s') = true /\ gnum_ok m (rest s') = true /\
              gext_in e = true /\ gcount_in m = true /\ cs = d_gext e.
Proof.
  unfold read_extra. destruct (skipws_inv s) as (w & Ew & Hw & _).
  destruct (a_match_tok sm_kw_ext (a_skipws s)) as [mt s1] eqn:Em. intros H.
  apply cbind_ok in H. destruct H as (c1 & s2 & c2 & H1 & H2 & ->).
  destruct (m_pos sm_models_max s2) as [[v s3]| |] eqn:Emod; try discriminate. inversion H2; subst. clear H2.
  destruct (m_pos_inv _ _ _ _ Emod) as (m & Tm & Vm & Rm).
  assert (Cm : gcount_in m = true) by (unfold gcount_in, UINT_MAX; change sm_models_max with 4294967295 in Rm; lia).
  rewrite app_nil_r. destruct mt.
  - apply match_tok_inv in Em. destruct (ext_atoms_inv _ _ _ _ H1) as (l & e & [El Hl] & Ve & Il & Dl).
    destruct Tm as [Emm Hm].
    exists (Some (w, l, e)), m. cbn [r_gext gext_ok gext_in d_gext]. rewrite <- !app_assoc, <- Emm, <- El, <- Em, <- Ew, Hw, Hl, Ve.
    repeat split; auto.
  - apply match_tok_false in Em. subst s1. inversion H1; subst. clear H1.
    apply (tok_addws w) in Tm; [|exact Hw]. destruct Tm as [Emm Hm]. rewrite <- Ew in Emm.
    exists None, (addws w m). cbn [r_gext gext_ok gext_in d_gext app]. repeat split; auto.
Qed.

(* ---------------- one step ---------------- *)
Lemma do_parse_inv o s cs s' w : do_parse o s = (cs, Ok s') -> ws_ok w = true ->
  exists st, w ++ rest s = r_gstep st ++ rest s' /\ gstep_ok st (rest s') = true /\ gstep_in (claspExt o) st = true /\ cs = d_gstep st.
Proof.
  unfold do_parse_v. intros H Hw.
  apply cbind_ok in H. destruct H as (c0 & s0 & c0' & H0 & H & ->). inversion H0; subst. clear H0.
  apply cbind_ok in H. destruct H as (c1 & s1 & c1' & H1 & H & ->).
  apply cbind_ok in H. destruct H as (c2 & s2 & c2' & H2 & H & ->).
  apply cbind_ok in H. destruct H as (c3 & s3 & c3' & H3 & H & ->).
  apply cbind_ok in H. destruct H as (c4 & s4 & c4' & H4 & H & ->).
  apply cbind_ok in H. destruct H as (c5 & s5 & c5' & H5 & H & ->). inversion H; subst. clear H.
  destruct (read_rules_inv _ _ _ _ _ _ w H1 Hw) as (rules & rend & [E1 T1] & Sh1 & V1 & I1 & D1).
  destruct (read_symbols_inv _ _ _ _ H2) as (syms & send & E2 & T2 & T2' & V2 & I2 & D2).
  destruct (read_compute_inv _ _ _ _ _ H3) as (bpw & bpnl & bp & bpe & E3 & T3 & I3 & D3).
  destruct (read_compute_inv _ _ _ _ _ H4) as (bmw & bmnl & bm & bme & E4 & T4 & I4 & D4).
  destruct (read_extra_inv _ _ _ H5) as (e & m & E5 & T5 & T5' & I5 & I5' & D5).
  set (st := mkgstep rules rend syms send bpw bpnl bp bpe bmw bmnl bm bme e m).
  assert (K5 : rest s4 = r_sec_ext st ++ rest s') by (unfold r_sec_ext, r_sec_models, st; cbn [g_ext g_models]; rewrite <- app_assoc; exact E5).
  assert (K4 : rest s3 = r_sec_bm st ++ rest s').
  { unfold r_sec_bm. rewrite <- app_assoc, <- K5. exact E4. }
  assert (K3 : rest s2 = r_sec_bp st ++ rest s').
  { unfold r_sec_bp. rewrite <- app_assoc, <- K4. exact E3. }
  assert (K2 : rest s1 = r_sec_syms st ++ rest s').
  { unfold r_sec_syms. rewrite <- !app_assoc, <- K3. exact E2. }
  exists st. split; [|split; [|split]].
  - unfold r_gstep. rewrite <- app_assoc, <- K2. exact E1.
  - unfold gstep_ok. rewrite <- K2, <- K3, <- K4, <- K5. unfold r_sec_models, step_toks, st.
    cbn [g_rules g_rend g_syms g_send g_bpw g_bpnl g_bplus g_bpend g_bmw g_bmnl g_bminus g_bmend g_ext g_models].
    rewrite T1, Sh1, V1, T2, T2', V2, T3, T4, T5, T5'. reflexivity.
  - unfold gstep_in_v, st.
    cbn [g_rules g_rend g_syms g_send g_bpw g_bpnl g_bplus g_bpend g_bmw g_bmnl g_bminus g_bmend g_ext g_models].
    rewrite I1, I2, I3, I4, I5, I5'. reflexivity.
  - unfold d_gstep, st.
    cbn [g_rules g_rend g_syms g_send g_bpw g_bpnl g_bplus g_bpend g_bmw g_bmnl g_bminus g_bmend g_ext g_models].
    rewrite D1, D2, D3, D4, D5. reflexivity.
Qed.

(* ---------------- the steps of a program ---------------- *)
Lemma parse_steps_inv o inc : forall fuel s cs w, parse_steps fuel o inc s = (cs, Ok tt) -> ws_ok w = true ->
  exists steps tail, w ++ rest s = flat_map r_gstep steps ++ tail /\ seq_ok r_gstep gstep_ok steps tail = true /\
     steps <> [] /\ tail_ok tail = true /\ forallb (gstep_in (claspExt o)) steps = true /\
     ((length steps <=? 1)%nat || inc = true) /\ cs = flat_map d_gstep steps.
Proof.
  induction fuel as [|fu IH]; intros s cs w H Hw; cbn [parse_steps_v] in H; [discriminate|].
  apply cbind_ok in H. destruct H as (c1 & s1 & c2 & H1 & H & ->).
  destruct (do_parse_inv _ _ _ _ _ H1 Hw) as (st & Est & Hst & Ist & Dst).
  cbv zeta in H. destruct (a_end (a_skipws s1)) eqn:Eend; cbn [negb andb] in H.
  - inversion H; subst. clear H. exists [st], (rest s1). cbn [flat_map seq_ok forallb length]. rewrite !app_nil_r. cbn [app].
    rewrite Hst, Ist. split; [exact Est|]. repeat split; try discriminate.
    unfold tail_ok. rewrite <- rest_skipws, <- peek_hd. exact Eend.
  - destruct inc; cbn [negb] in H; [|discriminate].
    destruct (skipws_inv s1) as (w1 & Ew1 & Hw1 & _).
    destruct (IH _ _ _ H Hw1) as (steps & tail & Es & Hs & Hne & Ht & Is & _ & Ds).
    exists (st :: steps), tail. cbn [flat_map seq_ok forallb]. rewrite <- app_assoc, <- Es, <- Ew1, Hst, Ist, Hs, Is, Ds.
    split; [exact Est|]. rewrite orb_true_r. repeat split; try discriminate; [exact Ht | rewrite Dst; reflexivity].
Qed.

(* ---------------- the reader ---------------- *)
Lemma g_sound_v (o : opts) (t : list Z) (cs : list call) : read_smodels o t = (cs, Ok tt) ->
  exists p, glayout_ok p = true /\ gin_range (claspExt o) p = true /\ t = grender p /\ cs = gdenote p.
Proof.
  unfold read_smodels_v. rewrite peek_hd. unfold a_init. cbn [rest].
  destruct (is_digit (hd 0 t) && (negb (hd 0 t =? 57) || claspExt o)) eqn:Ep; [|discriminate].
  apply andb_prop in Ep. destruct Ep as [Hd Hinc].
  unfold cbind. destruct (parse_steps (fuel_of (amk t 1)) o (hd 0 t =? 57) (amk t 1)) as [c2 r] eqn:E.
  intros H. inversion H; subst. clear H.
  destruct (parse_steps_inv _ _ _ _ _ [] E eq_refl) as (steps & tail & Es & Hs & Hne & Ht & Is & Hl & Ds).
  cbn [app rest] in Es. exists (mkgprog steps tail).
  unfold glayout_ok, gin_range_v, gdenote, gincremental, grender. cbn [gp_steps gp_tail]. rewrite <- Es, Hs, Ht, Hd, Is, Hinc, Hl, Ds.
  destruct steps; [congruence|]. repeat split.
Qed.
End MaxVar.

Lemma g_sound (o : opts) (t : list Z) (cs : list call) : read_smodels o t = (cs, Ok tt) ->
  exists p, glayout_ok p = true /\ gin_range (claspExt o) p = true /\ t = grender p /\ cs = gdenote p.
Proof. exact (g_sound_v sm_varMax o t cs). Qed.
