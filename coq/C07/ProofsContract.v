(* C07 / C04 support - what read_smodels delivers for EVERY byte list (no well-formedness hypothesis, NUL bytes allowed):
   the delivered call sequence respects the consumer contract of V.Lib.Contract whether the input is accepted or not, an
   accepted input leaves no step open, no loop of the model runs out of fuel (every iteration consumes input - the
   termination argument of the real loops), and a reported error line lies inside the text.
   One invariant (reader_shape) gives all four. *)
Require Import V.Lib.Base V.Lib.Calls V.Lib.Contract V.C09.Spec V.Gen.Consts V.Gen.Consts_C07 V.C07.Model V.C07.ProofsStream.
Require Import ZifyBool.
Local Open Scope Z_scope.

(* ================= functions that deliver nothing (type out) ================= *)
(* started at s: a result inside the range Q at a later position, or an error line between the line of s and the last
   line of the text - never Fuel *)
Definition good {A} (Q : A -> Prop) (s : ast) (r : out (A * ast)) : Prop :=
  match r with
  | Ok p => Q (fst p) /\ step_ok s (snd p)
  | Err ln => aline s <= ln <= pot s
  | Fuel => False
  end.

Lemma good_bind {A B} (P : A -> Prop) (Q : B -> Prop) s (m : out (A * ast)) (f : A * ast -> out (B * ast)) :
  good P s m -> (forall a s1, P a -> step_ok s s1 -> good Q s1 (f (a, s1))) -> good Q s (bind m f).
Proof.
  intros Hm Hf. destruct m as [[a s1]|ln|]; cbn [bind good fst snd] in *; [|exact Hm|exact Hm].
  destruct Hm as [Pa H1]. specialize (Hf a s1 Pa H1). destruct (f (a, s1)) as [[b s2]|ln|]; cbn [good fst snd] in *.
  - destruct Hf as [Qb H2]. split; [exact Qb | eapply step_ok_trans; eassumption].
  - eapply err_chain; eassumption.
  - exact Hf.
Qed.
Lemma good_ret {A} (Q : A -> Prop) s a s' : Q a -> step_ok s s' -> good Q s (Ok (a, s')).
Proof. intros Ha Hs. split; assumption. Qed.
Lemma good_err {A} (Q : A -> Prop) s : good Q s (Err (aline s)).
Proof. cbn [good]. apply here_ok, step_ok_refl. Qed.
Lemma good_require {B} (Q : B -> Prop) s c (k : unit -> out (B * ast)) :
  (c = true -> good Q s (k tt)) -> good Q s (bind (m_require c s) k).
Proof. intros H. unfold m_require. destruct c; cbn [bind]; [apply H; reflexivity | apply good_err]. Qed.
Lemma good_weaken {A} (Q Q' : A -> Prop) s r : good Q s r -> (forall a, Q a -> Q' a) -> good Q' s r.
Proof. intros H Hq. destruct r as [[a s']|ln|]; cbn [good fst snd] in *; [destruct H; split; auto | exact H | exact H]. Qed.

Definition shorter (s' s : ast) : Prop := (length (rest s') < length (rest s))%nat.

(* ---- numbers ---- *)
Lemma good_pos max s : good (fun x => 0 <= x <= max) s (m_pos max s).
Proof.
  unfold m_pos. pose proof (match_int_ok s) as H. destruct (a_match_int false s) as [[x|] s']; destruct H as [H _].
  - destruct ((0 <=? x) && (x <=? max)) eqn:E; cbn [good fst snd]; [split; [lia | exact H] | apply here_ok; exact H].
  - cbn [good]. apply here_ok. exact H.
Qed.
Lemma pos_strict max s x s' : m_pos max s = Ok (x, s') -> shorter s' s.
Proof.
  unfold m_pos. pose proof (match_int_ok s) as H. destruct (a_match_int false s) as [[v|] s1]; [|discriminate].
  destruct H as [_ H]. destruct ((0 <=? v) && (v <=? max)); [|discriminate]. intros E. injection E as _ <-. apply H. congruence.
Qed.
(* ================= generic in the reader's atom limit vm <= atomMax (ProgramReader::setMaxVar); the statements without a limit
   (vm = sm_varMax = atomMax), which C04 uses, follow behind the section ================= *)
Section MaxVar.
Variable vm : Z.
Hypothesis Hvm : vm <= atomMax.
Local Notation m_atom := (m_atom_v vm).
Local Notation m_body := (m_body_v vm).
Local Notation m_sum := (m_sum_v vm).
Local Notation read_rule := (read_rule_v vm).
Local Notation read_rules := (read_rules_v vm).
Local Notation do_parse := (do_parse_v vm).
Local Notation parse_steps := (parse_steps_v vm).
Local Notation read_smodels := (read_smodels_v vm).

Lemma good_atom s : good (fun x => atom_ok x = true) s (m_atom s).
Proof.
  unfold m_atom_v. pose proof (match_int_ok s) as H. destruct (a_match_int false s) as [[x|] s']; destruct H as [H _].
  - destruct ((atomMin <=? x) && (x <=? vm)) eqn:E; cbn [good fst snd]; [|apply here_ok; exact H].
    split; [|exact H]. unfold atom_ok, ATOM_MAX, atomMin in *. unfold atomMax in Hvm. lia.
  - cbn [good]. apply here_ok. exact H.
Qed.
Lemma atom_strict s x s' : m_atom s = Ok (x, s') -> shorter s' s.
Proof.
  unfold m_atom_v. pose proof (match_int_ok s) as H. destruct (a_match_int false s) as [[v|] s1]; [|discriminate].
  destruct H as [_ H]. destruct ((atomMin <=? v) && (v <=? vm)); [|discriminate]. intros E. injection E as _ <-. apply H. congruence.
Qed.

Lemma wrap32s_small w : 0 <= w <= 2147483647 -> wrap32s w = w.
Proof. intros H. unfold wrap32s. rewrite Z.mod_small by lia. lia. Qed.
Lemma wrap32s_int z : int_ok (wrap32s z) = true.
Proof. unfold wrap32s, int_ok. pose proof (Z.mod_pos_bound (z + 2147483648) 4294967296 ltac:(lia)). lia. Qed.

Definition weight_ok (w : Z) : Prop := 0 <= w /\ int_ok w = true.
Lemma good_weight s : good weight_ok s (m_weight s).
Proof.
  unfold m_weight. eapply good_bind; [apply good_pos|]. intros w s1 Hw H1. cbv beta iota.
  apply good_ret; [|apply step_ok_refl]. unfold sm_weight_max in Hw. rewrite wrap32s_small by lia. unfold weight_ok, int_ok. lia.
Qed.
Lemma weight_strict s x s' : m_weight s = Ok (x, s') -> shorter s' s.
Proof.
  unfold m_weight. destruct (m_pos sm_weight_max s) as [[w s1]|ln|] eqn:E; cbn [bind]; intros H; inversion H; subst.
  eapply pos_strict; eassumption.
Qed.

(* ---- the counted loop: fuel = remaining bytes + 1 is enough because every element consumes ---- *)
Lemma good_many (Q : Z -> Prop) f : (forall s, good Q s (f s)) -> (forall s a s', f s = Ok (a, s') -> shorter s' s) ->
  forall fuel n s, (length (rest s) < fuel)%nat -> good (Forall Q) s (m_many f fuel n s).
Proof.
  intros Hf Hs. induction fuel as [|fu IH]; intros n s Hl; [lia|]. cbn [m_many].
  destruct (n =? 0); [apply good_ret; [constructor | apply step_ok_refl]|].
  pose proof (Hf s) as H1. pose proof (Hs s) as H2. destruct (f s) as [[a s1]|ln|]; cbn [bind good fst snd] in *; [|exact H1|exact H1].
  destruct H1 as [Qa H1]. specialize (H2 a s1 eq_refl). unfold shorter in H2.
  specialize (IH (n - 1) s1 ltac:(lia)). destruct (m_many f fu (n - 1) s1) as [[l s2]|ln|]; cbn [bind good fst snd] in *.
  - destruct IH as [Ql H3]. split; [constructor; assumption | eapply step_ok_trans; eassumption].
  - eapply err_chain; eassumption.
  - exact IH.
Qed.
Lemma good_atoms n s : good (Forall (fun x => atom_ok x = true)) s (m_many m_atom (fuel_of s) n s).
Proof. apply good_many; [exact good_atom | exact atom_strict | unfold fuel_of; lia]. Qed.
Lemma good_weights n s : good (Forall weight_ok) s (m_many m_weight (fuel_of s) n s).
Proof. apply good_many; [exact good_weight | exact weight_strict | unfold fuel_of; lia]. Qed.

Lemma forall_forallb {X} (f : X -> bool) l : Forall (fun x => f x = true) l -> forallb f l = true.
Proof. intros H. apply forallb_forall. apply Forall_forall. exact H. Qed.

Lemma atom_lit a : atom_ok a = true -> lit_ok a = true /\ lit_ok (- a) = true.
Proof. unfold lit_ok, atom_ok, ATOM_MAX. intros H. rewrite Z.abs_opp. rewrite Z.abs_eq by lia. lia. Qed.
Lemma apply_neg_lits l : Forall (fun x => atom_ok x = true) l -> forall neg, Forall (fun x => lit_ok x = true) (apply_neg neg l).
Proof.
  induction 1 as [|a l Ha Hl IH]; intros neg; cbn [apply_neg]; [constructor|]. destruct (atom_lit a Ha) as [P N].
  destruct (0 <? neg); constructor; auto.
Qed.

(* ---- bodies ---- *)
Lemma good_body s : good (fun b => forallb lit_ok b = true) s (m_body s).
Proof.
  unfold m_body_v.
  eapply good_bind; [apply good_pos|]. intros len s1 _ H1. cbv beta iota.
  eapply good_bind; [apply good_pos|]. intros neg s2 _ H2. cbv beta iota.
  apply good_require. intros _.
  eapply good_bind; [apply good_atoms|]. intros atoms s3 Hat H3. cbv beta iota.
  apply good_ret; [|apply step_ok_refl]. apply forall_forallb. apply apply_neg_lits. exact Hat.
Qed.

Lemma combine_wlits lits : Forall (fun x => lit_ok x = true) lits -> forall ws, Forall weight_ok ws ->
  forallb (wlit_ok true) (combine lits ws) = true.
Proof.
  induction 1 as [|a l Ha Hl IH]; intros ws Hws; [reflexivity|]. destruct Hws as [|w ws [W1 W2] Hws]; [reflexivity|].
  cbn [combine forallb]. rewrite (IH ws Hws). unfold wlit_ok. cbn [fst snd]. rewrite Ha, W2. lia.
Qed.
Lemma ones_wlits lits : Forall (fun x => lit_ok x = true) lits -> forallb (wlit_ok true) (map (fun l => (l, 1)) lits) = true.
Proof.
  induction 1 as [|a l Ha Hl IH]; [reflexivity|]. cbn [map forallb]. rewrite IH. unfold wlit_ok. cbn [fst snd]. rewrite Ha. reflexivity.
Qed.

Definition sum_ok (r : Z * list (Z * Z)) : Prop := int_ok (fst r) = true /\ forallb (wlit_ok true) (snd r) = true.
Lemma good_sum weights s : good sum_ok s (m_sum weights s).
Proof.
  unfold m_sum_v.
  eapply good_bind; [apply good_pos|]. intros a s1 _ H1. cbv beta iota.
  eapply good_bind; [apply good_pos|]. intros b s2 _ H2. cbv beta iota.
  eapply good_bind; [apply good_pos|]. intros c s3 _ H3. cbv beta iota.
  destruct weights; cbv beta iota.
  - apply good_require. intros _. apply good_require. intros _.
    eapply good_bind; [apply good_atoms|]. intros atoms s4 Hat H4. cbv beta iota.
    eapply good_bind; [apply good_weights|]. intros ws s5 Hws H5. cbv beta iota.
    apply good_ret; [|apply step_ok_refl]. split; cbn [fst snd]; [apply wrap32s_int|].
    apply combine_wlits; [apply apply_neg_lits; exact Hat | exact Hws].
  - apply good_require. intros _. apply good_require. intros _.
    eapply good_bind; [apply good_atoms|]. intros atoms s4 Hat H4. cbv beta iota.
    apply good_ret; [|apply step_ok_refl]. split; cbn [fst snd]; [apply wrap32s_int|].
    apply ones_wlits. apply apply_neg_lits. exact Hat.
Qed.

(* ================= the delivered calls ================= *)
(* call_ok with the one clause that is not unconditional made explicit: the priority handed to minimize() is the number of
   optimize statements read so far in this step (SmodelsInput::readRules: minPrio++), bounded here by B *)
Definition call_okB (B : Z) (c : call) : bool :=
  match c with
  | CMin p l => (0 <=? p) && (p <=? B) && forallb (wlit_ok false) l
  | _ => call_ok c
  end.
Definition is_directive (c : call) : bool := match c with CInit _ | CBegin | CEnd => false | _ => true end.
Definition dirB (B : Z) (c : call) : Prop := is_directive c = true /\ call_okB B c = true.

Lemma call_okB_ok B c : B <= 2147483647 -> call_okB B c = true -> call_ok c = true.
Proof. intros HB. destruct c; cbn [call_okB call_ok]; try (intros H; exact H). unfold int_ok. lia. Qed.
Lemma wlit_true_false l : forallb (wlit_ok true) l = true -> forallb (wlit_ok false) l = true.
Proof.
  intros H. rewrite forallb_forall in *. intros x Hx. specialize (H x Hx). unfold wlit_ok in *. lia.
Qed.

(* one statement of the rule block: only directives, all in range; the optimize counter grows by at most one *)
Definition rule_ok (B prio : Z) (r : list call * Z) : Prop := Forall (dirB B) (fst r) /\ prio <= snd r <= prio + 1.

Lemma read_rule_ok B o prio rt s : 0 <= prio <= B -> good (rule_ok B prio) s (read_rule o prio rt s).
Proof.
  intros Hp. unfold read_rule_v.
  destruct ((rt =? Sm_Choice) || (rt =? Sm_Disjunctive)).
  { eapply good_bind; [apply good_atom|]. intros n s1 _ H1. cbv beta iota.
    eapply good_bind; [apply good_atoms|]. intros hs s2 Hhs H2. cbv beta iota.
    eapply good_bind; [apply good_body|]. intros b s3 Hb H3. cbv beta iota.
    apply good_ret; [|apply step_ok_refl]. split; cbn [fst snd]; [|lia]. constructor; [|constructor].
    split; [reflexivity|]. cbn [call_okB call_ok]. rewrite (forall_forallb _ _ Hhs), Hb.
    destruct (rt =? Sm_Choice); reflexivity. }
  destruct (rt =? Sm_Basic).
  { eapply good_bind; [apply good_atom|]. intros h s1 Hh H1. cbv beta iota.
    eapply good_bind; [apply good_body|]. intros b s2 Hb H2. cbv beta iota.
    apply good_ret; [|apply step_ok_refl]. split; cbn [fst snd]; [|lia]. constructor; [|constructor].
    split; [reflexivity|]. cbn [call_okB call_ok forallb]. rewrite Hh, Hb. reflexivity. }
  destruct ((rt =? Sm_Cardinality) || (rt =? Sm_Weight)).
  { eapply good_bind; [apply good_atom|]. intros h s1 Hh H1. cbv beta iota.
    eapply good_bind; [apply good_sum|]. intros [bnd wl] s2 [Hb Hw] H2. cbv beta iota. cbn [fst snd] in Hb, Hw.
    apply good_ret; [|apply step_ok_refl]. split; cbn [fst snd]; [|lia]. constructor; [|constructor].
    split; [reflexivity|]. cbn [call_okB call_ok forallb]. rewrite Hh, Hb, Hw. reflexivity. }
  destruct (rt =? Sm_Optimize).
  { eapply good_bind; [apply good_sum|]. intros [bnd wl] s1 [Hb Hw] H1. cbv beta iota. cbn [fst snd] in Hb, Hw.
    apply good_ret; [|apply step_ok_refl]. split; cbn [fst snd]; [|lia]. constructor; [|constructor].
    split; [reflexivity|]. cbn [call_okB]. rewrite (wlit_true_false _ Hw). lia. }
  destruct (rt =? Sm_ClaspIncrement).
  { destruct (claspExt o); [|apply good_err].
    eapply good_bind; [apply good_pos|]. intros z s1 _ H1. cbv beta iota.
    apply good_require. intros _. apply good_ret; [|apply step_ok_refl]. split; cbn [fst snd]; [constructor | lia]. }
  destruct ((rt =? Sm_ClaspAssignExt) || (rt =? Sm_ClaspReleaseExt)); [|apply good_err].
  destruct (claspExt o); [|apply good_err].
  eapply good_bind; [apply good_atom|]. intros a s1 Ha H1. cbv beta iota.
  destruct (rt =? Sm_ClaspAssignExt).
  - eapply good_bind; [apply good_pos|]. intros v s2 Hv H2. cbv beta iota.
    apply good_ret; [|apply step_ok_refl]. split; cbn [fst snd]; [|lia]. constructor; [|constructor].
    split; [reflexivity|]. cbn [call_okB call_ok]. rewrite Ha.
    assert (Hv3 : v = 0 \/ v = 1 \/ v = 2) by (unfold sm_extval_max in Hv; lia).
    destruct Hv3 as [-> | [-> | ->]]; reflexivity.
  - apply good_ret; [|apply step_ok_refl]. split; cbn [fst snd]; [|lia]. constructor; [|constructor].
    split; [reflexivity|]. cbn [call_okB call_ok]. rewrite Ha. reflexivity.
Qed.

(* ---- the protocol automaton over concatenations ---- *)
Lemma protocol_app a : forall st b, protocol_ok st (a ++ b) = protocol_ok st a && protocol_ok (final_state st a) b.
Proof.
  induction a as [|c a IH]; intros st b; [reflexivity|].
  destruct c; cbn [app protocol_ok final_state]; rewrite IH; try (now rewrite andb_assoc).
  all: destruct (st =? 2) eqn:E; [apply Z.eqb_eq in E; subst st; reflexivity | reflexivity].
Qed.
Lemma final_app a : forall st b, final_state st (a ++ b) = final_state (final_state st a) b.
Proof. induction a as [|c a IH]; intros st b; [reflexivity|]. destruct c; cbn [app final_state]; apply IH. Qed.

Lemma dirs_seg B cs : Forall (dirB B) cs -> protocol_ok 2 cs = true /\ forallb (call_okB B) cs = true /\ final_state 2 cs = 2.
Proof.
  induction 1 as [|c cs [Hd Hc] Hcs (IH1 & IH2 & IH3)]; [repeat split|].
  cbn [forallb]. rewrite Hc, IH2. destruct c; try discriminate Hd; cbn [protocol_ok final_state]; rewrite IH1, IH3; repeat split.
Qed.

(* results that carry calls: started in protocol state k at position s, the calls delivered are in order and in range, and
   the outcome is an Ok whose (final protocol state, value) satisfies post, or an error line inside the text; never Fuel *)
Definition cgood {A} (B k : Z) (s : ast) (post : Z -> A -> Prop) (r : cres A) : Prop :=
  match snd r with
  | Ok a => protocol_ok k (fst r) = true /\ forallb (call_okB B) (fst r) = true /\ post (final_state k (fst r)) a
  | Err ln => protocol_ok k (fst r) = true /\ forallb (call_okB B) (fst r) = true /\ aline s <= ln <= pot s
  | Fuel => False
  end.

Lemma cgood_weaken {A} B k s (Q Q' : Z -> A -> Prop) r : cgood B k s Q r -> (forall j a, Q j a -> Q' j a) -> cgood B k s Q' r.
Proof.
  intros H Hq. unfold cgood in *. destruct (snd r); [|exact H|exact H]. destruct H as (H1 & H2 & H3). auto.
Qed.
Lemma cgood_prefix {A} B k s s1 (Q : Z -> A -> Prop) cs (r : cres A) :
  protocol_ok k cs = true -> forallb (call_okB B) cs = true -> step_ok s s1 ->
  cgood B (final_state k cs) s1 Q r -> cgood B k s Q (let '(c2, o) := r in (cs ++ c2, o)).
Proof.
  intros P1 F1 H1 Hr. destruct r as [c2 o]. unfold cgood in *. cbn [fst snd] in *.
  rewrite protocol_app, forallb_app, final_app, P1, F1. cbn [andb]. destruct o as [a|ln|]; [exact Hr | | exact Hr].
  destruct Hr as (A1 & A2 & A3). split; [exact A1|]. split; [exact A2|]. eapply err_chain; eassumption.
Qed.
Lemma cgood_later {A} B k s s1 (Q : Z -> A -> Prop) (r : cres A) : step_ok s s1 -> cgood B k s1 Q r -> cgood B k s Q r.
Proof.
  intros H1 Hr. unfold cgood in *. destruct (snd r); [exact Hr | | exact Hr].
  destruct Hr as (A1 & A2 & A3). split; [exact A1|]. split; [exact A2|]. eapply err_chain; eassumption.
Qed.
Lemma cgood_bind {A C} B k s (P : Z -> A -> Prop) (Q : Z -> C -> Prop) (m : cres A) (f : A -> cres C) :
  cgood B k s P m ->
  (forall k1 a, P k1 a -> exists s1, step_ok s s1 /\ cgood B k1 s1 Q (f a)) ->
  cgood B k s Q (cbind m f).
Proof.
  intros Hm Hf. destruct m as [c1 [a|ln|]]; unfold cbind; [|exact Hm|exact Hm].
  unfold cgood in Hm. cbn [fst snd] in Hm. destruct Hm as (P1 & F1 & Pa). destruct (Hf _ a Pa) as (s1 & H1 & Hc).
  eapply cgood_prefix; eassumption.
Qed.
Lemma cgood_err {A} B k s (Q : Z -> A -> Prop) : cgood B k s Q ([], Err (aline s)).
Proof. unfold cgood. cbn [fst snd protocol_ok forallb]. repeat split; apply here_ok, step_ok_refl. Qed.
Lemma cgood_ok {A} B k s (Q : Z -> A -> Prop) a : Q k a -> cgood B k s Q ([], Ok a).
Proof. intros H. unfold cgood. cbn [fst snd protocol_ok forallb final_state]. repeat split. exact H. Qed.
(* lifting a call-free result *)
Lemma cgood_of_err {A} B k s (Q : Z -> A -> Prop) ln : aline s <= ln <= pot s -> cgood B k s Q ([], Err ln).
Proof. intros H. unfold cgood. cbn [fst snd protocol_ok forallb]. repeat split; apply H. Qed.

(* ---- readRules ---- *)
Definition at2 (s : ast) : Z -> ast -> Prop := fun k s' => k = 2 /\ step_ok s s'.
Definition at2s (s : ast) : Z -> ast -> Prop := fun k s' => k = 2 /\ step_ok s s' /\ shorter s' s.

Lemma read_rules_ok B o : forall fuel prio s, (length (rest s) < fuel)%nat -> 0 <= prio -> prio + Z.of_nat (length (rest s)) <= B ->
  cgood B 2 s (at2s s) (read_rules fuel o prio s).
Proof.
  induction fuel as [|fu IH]; intros prio s Hl Hp HB; [lia|]. cbn [read_rules_v].
  pose proof (good_pos sm_rt_max s) as G. pose proof (pos_strict sm_rt_max s) as S1.
  destruct (m_pos sm_rt_max s) as [[rt s1]|ln|]; cbn [good fst snd] in G; [|apply cgood_of_err; exact G|contradiction].
  destruct G as [_ H1]. specialize (S1 rt s1 eq_refl). unfold shorter in S1.
  destruct (rt =? 0); [apply cgood_ok; split; [reflexivity | split; [exact H1 | exact S1]]|].
  pose proof (read_rule_ok B o prio rt s1 ltac:(lia)) as G.
  destruct (read_rule o prio rt s1) as [[[cs prio'] s2]|ln|]; cbn [good fst snd] in G;
    [|apply cgood_of_err; eapply err_chain; eassumption|contradiction].
  destruct G as [[Hcs Hpr] H2]. cbn [fst snd] in Hcs, Hpr. destruct (dirs_seg B cs Hcs) as (D1 & D2 & D3).
  assert (H12 : step_ok s s2) by (eapply step_ok_trans; eassumption).
  apply (cgood_prefix B 2 s s2 (at2s s) cs); [exact D1 | exact D2 | exact H12|]. rewrite D3.
  assert (L2 : (length (rest s2) <= length (rest s1))%nat) by apply H2.
  eapply cgood_weaken; [apply (IH prio' s2); lia|].
  intros j a (-> & Ha & Sa). unfold at2s, shorter in *. split; [reflexivity|]. split; [eapply step_ok_trans; eassumption | lia].
Qed.

(* ---- readSymbols ---- *)
Lemma read_name_ok : forall fuel s, (length (rest s) < fuel)%nat -> good (fun _ => True) s (read_name fuel s).
Proof.
  induction fuel as [|fu IH]; intros s Hl; [lia|]. cbn [read_name].
  pose proof (get_ok s) as G. destruct (a_get s) as [c s1]. cbn [fst snd] in G. destruct G as [H1 S1].
  destruct (Z.eqb_spec c 10); [apply good_ret; [exact I | exact H1]|].
  destruct (Z.eqb_spec c 0) as [E0|N0]; [cbn [good]; apply here_ok; exact H1|].
  specialize (S1 N0). specialize (IH s1 ltac:(lia)).
  destruct (read_name fu s1) as [[nm s2]|ln|]; cbn [bind good fst snd] in *.
  - split; [exact I | eapply step_ok_trans; [exact H1 | apply IH]].
  - eapply err_chain; eassumption.
  - exact IH.
Qed.

Lemma sym_lit v : 0 <= v <= sm_sym_max -> (wrap32s v =? 0) = false -> lit_ok (wrap32s v) = true.
Proof.
  unfold sm_sym_max. intros Hv. rewrite wrap32s_small by lia. intros Hz. unfold lit_ok, atom_ok, ATOM_MAX. rewrite Z.abs_eq by lia. lia.
Qed.

Lemma read_symbols_ok B : forall fuel s, (length (rest s) < fuel)%nat -> cgood B 2 s (at2 s) (read_symbols fuel s).
Proof.
  induction fuel as [|fu IH]; intros s Hl; [lia|]. cbn [read_symbols].
  pose proof (good_pos sm_sym_max s) as G. pose proof (pos_strict sm_sym_max s) as S1.
  destruct (m_pos sm_sym_max s) as [[v s1]|ln|]; cbn [good fst snd] in G; [|apply cgood_of_err; exact G|contradiction].
  destruct G as [Hv H1]. specialize (S1 v s1 eq_refl). unfold shorter in S1.
  destruct (wrap32s v =? 0) eqn:Ez; [apply cgood_ok; split; [reflexivity | exact H1]|].
  assert (H2 : step_ok s1 (snd (m_get s1))) by (unfold m_get; destruct (a_peek s1 =? 0); [apply step_ok_refl | apply (proj1 (get_ok s1))]).
  set (s2 := snd (m_get s1)) in *.
  pose proof (read_name_ok (fuel_of s2) s2 ltac:(unfold fuel_of; lia)) as G.
  assert (H02 : step_ok s s2) by (eapply step_ok_trans; eassumption).
  destruct (read_name (fuel_of s2) s2) as [[nm s3]|ln|]; cbn [good fst snd] in G;
    [|apply cgood_of_err; eapply err_chain; eassumption|contradiction].
  destruct G as [_ H3]. assert (H03 : step_ok s s3) by (eapply step_ok_trans; eassumption).
  assert (L : (length (rest s3) < fu)%nat) by (unfold step_ok in *; lia).
  apply (cgood_prefix B 2 s s3 (at2 s) [COutput nm [wrap32s v]]); [reflexivity | | exact H03 |].
  - cbn [forallb call_okB call_ok]. rewrite (sym_lit v Hv Ez). reflexivity.
  - cbn [final_state]. eapply cgood_weaken; [apply (IH s3 L)|]. intros j a (-> & Ha). split; [reflexivity | eapply step_ok_trans; eassumption].
Qed.

(* ---- readCompute ---- *)
Lemma comp_lit v (val : bool) : 0 <= v <= sm_comp_max -> (wrap32s v =? 0) = false ->
  lit_ok (if val then - wrap32s v else wrap32s v) = true.
Proof.
  unfold sm_comp_max. intros Hv. rewrite wrap32s_small by lia. intros Hz. unfold lit_ok, atom_ok, ATOM_MAX.
  destruct val; [rewrite Z.abs_opp|]; rewrite Z.abs_eq by lia; lia.
Qed.

Lemma read_comp_atoms_ok B val : forall fuel s, (length (rest s) < fuel)%nat -> cgood B 2 s (at2 s) (read_comp_atoms fuel val s).
Proof.
  induction fuel as [|fu IH]; intros s Hl; [lia|]. cbn [read_comp_atoms].
  pose proof (good_pos sm_comp_max s) as G. pose proof (pos_strict sm_comp_max s) as S1.
  destruct (m_pos sm_comp_max s) as [[v s1]|ln|]; cbn [good fst snd] in G; [|apply cgood_of_err; exact G|contradiction].
  destruct G as [Hv H1]. specialize (S1 v s1 eq_refl). unfold shorter in S1.
  destruct (wrap32s v =? 0) eqn:Ez; [apply cgood_ok; split; [reflexivity | exact H1]|].
  apply (cgood_prefix B 2 s s1 (at2 s) [CRule Head_t_Disjunctive [] [if val then - wrap32s v else wrap32s v]]); [reflexivity | | exact H1 |].
  - cbn [forallb call_okB call_ok]. rewrite (comp_lit v val Hv Ez). reflexivity.
  - cbn [final_state]. eapply cgood_weaken; [apply (IH s1); lia|]. intros j a (-> & Ha). split; [reflexivity | eapply step_ok_trans; eassumption].
Qed.

Lemma read_compute_ok B key val s : cgood B 2 s (at2 s) (read_compute key val s).
Proof.
  unfold read_compute. pose proof (skipws_ok s) as H0. set (s0 := a_skipws s) in *.
  pose proof (match_tok_ok key s0) as H1. destruct (a_match_tok key s0) as [m s1]. cbn [snd] in H1.
  assert (H01 : step_ok s s1) by (eapply step_ok_trans; eassumption).
  destruct m; [|apply cgood_of_err; apply here_ok; exact H01].
  destruct (get_ok s1) as [H2 _]. destruct (a_get s1) as [c s2]. cbn [snd] in H2.
  assert (H02 : step_ok s s2) by (eapply step_ok_trans; eassumption).
  destruct (c =? 10); [|apply cgood_of_err; apply here_ok; exact H02].
  apply (cgood_later B 2 s s2); [exact H02|]. eapply cgood_weaken; [apply read_comp_atoms_ok; unfold fuel_of; lia|].
  intros j a (-> & Ha). split; [reflexivity | eapply step_ok_trans; eassumption].
Qed.

(* ---- readExtra ---- *)
Lemma read_ext_atoms_ok B : forall fuel s, (length (rest s) < fuel)%nat -> cgood B 2 s (at2 s) (read_ext_atoms fuel s).
Proof.
  induction fuel as [|fu IH]; intros s Hl; [lia|]. cbn [read_ext_atoms].
  pose proof (good_pos sm_ext_max s) as G. pose proof (pos_strict sm_ext_max s) as S1.
  destruct (m_pos sm_ext_max s) as [[a s1]|ln|]; cbn [good fst snd] in G; [|apply cgood_of_err; exact G|contradiction].
  destruct G as [Hv H1]. specialize (S1 a s1 eq_refl). unfold shorter in S1.
  destruct (a =? 0) eqn:Ez; [apply cgood_ok; split; [reflexivity | exact H1]|].
  apply (cgood_prefix B 2 s s1 (at2 s) [CExternal a Value_t_Free]); [reflexivity | | exact H1 |].
  - cbn [forallb call_okB call_ok]. unfold atom_ok, ATOM_MAX, Value_t_Free, sm_ext_max in *. lia.
  - cbn [final_state]. eapply cgood_weaken; [apply (IH s1); lia|]. intros j x (-> & Ha). split; [reflexivity | eapply step_ok_trans; eassumption].
Qed.

Lemma read_extra_ok B s : cgood B 2 s (at2 s) (read_extra s).
Proof.
  unfold read_extra. pose proof (skipws_ok s) as H0. set (s0 := a_skipws s) in *.
  pose proof (match_tok_ok sm_kw_ext s0) as H1. destruct (a_match_tok sm_kw_ext s0) as [m s1]. cbn [snd] in H1.
  assert (H01 : step_ok s s1) by (eapply step_ok_trans; eassumption).
  eapply (cgood_bind B 2 s (at2 s)).
  - destruct m.
    + apply (cgood_later B 2 s s1); [exact H01|]. eapply cgood_weaken; [apply read_ext_atoms_ok; unfold fuel_of; lia|]. intros j a (-> & Ha). split; [reflexivity | eapply step_ok_trans; eassumption].
    + apply cgood_ok. split; [reflexivity | exact H01].
  - intros k1 s2 (-> & H2). exists s2. split; [exact H2|].
    pose proof (good_pos sm_models_max s2) as G. destruct (m_pos sm_models_max s2) as [[n s3]|ln|]; cbn [good fst snd] in G;
      [|apply cgood_of_err; exact G|contradiction].
    destruct G as [_ H3]. apply cgood_ok. split; [reflexivity | eapply step_ok_trans; eassumption].
Qed.

(* ---- doParse: one step, which consumes at least the terminator of the rule block ---- *)
Definition at1s (s : ast) : Z -> ast -> Prop := fun k s' => k = 1 /\ step_ok s s' /\ shorter s' s.

Lemma do_parse_ok B o s : Z.of_nat (length (rest s)) <= B -> cgood B 1 s (at1s s) (do_parse o s).
Proof.
  intros HB. unfold do_parse_v.
  eapply (cgood_bind B 1 s (fun k a => k = 2 /\ a = s)); [unfold cgood; cbn; repeat split|].
  intros k0 s0 (-> & ->). exists s. split; [apply step_ok_refl|].
  eapply cgood_bind; [apply read_rules_ok; [unfold fuel_of; lia | lia | lia]|].
  intros k1 s1 (-> & H1 & S1). exists s1. split; [exact H1|].
  eapply cgood_bind; [apply read_symbols_ok; unfold fuel_of; lia|].
  intros k2 s2 (-> & H2). exists s2. split; [exact H2|]. assert (H02 : step_ok s s2) by (eapply step_ok_trans; eassumption).
  eapply cgood_bind; [apply read_compute_ok|].
  intros k3 s3 (-> & H3). exists s3. split; [exact H3|]. assert (H03 : step_ok s s3) by (eapply step_ok_trans; eassumption).
  eapply cgood_bind; [apply read_compute_ok|].
  intros k4 s4 (-> & H4). exists s4. split; [exact H4|]. assert (H04 : step_ok s s4) by (eapply step_ok_trans; eassumption).
  eapply cgood_bind; [apply read_extra_ok|].
  intros k5 s5 (-> & H5). exists s5. split; [exact H5|]. assert (H05 : step_ok s s5) by (eapply step_ok_trans; eassumption).
  unfold cgood. cbn [fst snd protocol_ok forallb call_okB call_ok final_state]. split; [reflexivity|]. split; [reflexivity|].
  split; [reflexivity|]. split; [exact H05|]. unfold shorter, step_ok in *. lia.
Qed.

(* ---- ProgramReader::parse(Complete) ---- *)
Lemma parse_steps_ok B o inc : forall fuel s, (length (rest s) < fuel)%nat -> Z.of_nat (length (rest s)) <= B ->
  cgood B 1 s (fun k (_ : unit) => k = 1) (parse_steps fuel o inc s).
Proof.
  induction fuel as [|fu IH]; intros s Hl HB; [lia|]. cbn [parse_steps_v].
  eapply cgood_bind; [apply do_parse_ok; exact HB|].
  intros k1 s1 (-> & H1 & S1). pose proof (skipws_ok s1) as H2. set (s2 := a_skipws s1) in *.
  exists s2. split; [eapply step_ok_trans; eassumption|]. unfold shorter in S1.
  assert (L2 : (length (rest s2) <= length (rest s1))%nat) by apply H2.
  destruct (negb (a_end s2)); destruct inc; cbn [andb negb].
  - apply IH; lia.
  - apply cgood_err.
  - apply cgood_ok. reflexivity.
  - apply cgood_ok. reflexivity.
Qed.

(* ================= the whole reader, for every byte list ================= *)
Theorem reader_shape_v o t : cgood (Z.of_nat (length t)) 0 (a_init t) (fun k (_ : unit) => k = 1) (read_smodels o t).
Proof.
  unfold read_smodels_v. set (s := a_init t).
  destruct (is_digit (a_peek s) && (negb (a_peek s =? 57) || claspExt o)); [|apply cgood_err].
  eapply (cgood_bind _ 0 s (fun k a => k = 1 /\ a = s)); [unfold cgood; cbn; repeat split|].
  intros k0 s0 (-> & ->). exists s. split; [apply step_ok_refl|].
  apply parse_steps_ok; [unfold fuel_of; lia | unfold s, a_init; cbn [rest]; lia].
Qed.

(* (a) the delivered calls: order and ranges, unconditionally; the priority of a minimize is the number of optimize
   statements read before it in the step, hence at most the length of the input *)
Theorem delivered_ok_v o t :
  protocol_ok 0 (fst (read_smodels o t)) = true /\ forallb (call_okB (Z.of_nat (length t))) (fst (read_smodels o t)) = true.
Proof.
  pose proof (reader_shape_v o t) as H. unfold cgood in H. destruct (snd (read_smodels o t)); [| |contradiction]; destruct H as (H1 & H2 & _); auto.
Qed.

Theorem reader_contract_v o t : Z.of_nat (length t) < 2 ^ 31 -> contract_ok (fst (read_smodels o t)) = true.
Proof.
  intros Hlen. destruct (delivered_ok_v o t) as [H1 H2]. unfold contract_ok. rewrite H1. cbn [andb].
  rewrite forallb_forall in *. intros c Hc. apply (call_okB_ok (Z.of_nat (length t))); [lia | apply H2; exact Hc].
Qed.

(* (b) an accepted input leaves no step open *)
Theorem reader_steps_closed_v o t u : snd (read_smodels o t) = Ok u -> steps_closed (fst (read_smodels o t)) = true.
Proof.
  intros E. pose proof (reader_shape_v o t) as H. unfold cgood in H. rewrite E in H. destruct H as (_ & _ & H).
  unfold steps_closed. rewrite H. reflexivity.
Qed.

(* (c) no loop of the model runs out of fuel *)
Theorem no_fuel_exhaustion_v o t : snd (read_smodels o t) <> Fuel.
Proof. intros E. pose proof (reader_shape_v o t) as H. unfold cgood in H. rewrite E in H. exact H. Qed.

(* a reported line lies inside the text *)
Theorem line_bound_v o t ln : snd (read_smodels o t) = Err ln -> 1 <= ln <= lines t.
Proof.
  intros E. pose proof (reader_shape_v o t) as H. unfold cgood in H. rewrite E in H. destruct H as (_ & _ & H).
  unfold pot, lines, a_init in *. cbn [aline rest] in H. exact H.
Qed.

(* the same without the auxiliary predicate: every clause of call_ok holds unconditionally, except that the priority of a
   minimize is only known to lie in 0 .. |t| *)
Theorem delivered_calls_v o t :
  protocol_ok 0 (fst (read_smodels o t)) = true /\
  (forall c, In c (fst (read_smodels o t)) ->
     match c with
     | CMin p l => 0 <= p <= Z.of_nat (length t) /\ forallb (wlit_ok false) l = true
     | _ => call_ok c = true
     end).
Proof.
  destruct (delivered_ok_v o t) as [H1 H2]. split; [exact H1|]. intros c Hc. rewrite forallb_forall in H2. specialize (H2 c Hc).
  destruct c; cbn [call_okB] in H2; try exact H2. split; lia.
Qed.
End MaxVar.

(* ---- the instance without a limit (vm = sm_varMax = atomMax), by conversion ---- *)
Lemma varMax_le_atomMax : sm_varMax <= atomMax. Proof. unfold sm_varMax, atomMax. lia. Qed.
Theorem reader_shape o t : cgood (Z.of_nat (length t)) 0 (a_init t) (fun k (_ : unit) => k = 1) (read_smodels o t).
Proof. exact (reader_shape_v sm_varMax varMax_le_atomMax o t). Qed.
Theorem delivered_ok o t :
  protocol_ok 0 (fst (read_smodels o t)) = true /\ forallb (call_okB (Z.of_nat (length t))) (fst (read_smodels o t)) = true.
Proof. exact (delivered_ok_v sm_varMax varMax_le_atomMax o t). Qed.
Theorem reader_contract o t : Z.of_nat (length t) < 2 ^ 31 -> contract_ok (fst (read_smodels o t)) = true.
Proof. exact (reader_contract_v sm_varMax varMax_le_atomMax o t). Qed.
Theorem reader_steps_closed o t u : snd (read_smodels o t) = Ok u -> steps_closed (fst (read_smodels o t)) = true.
Proof. exact (reader_steps_closed_v sm_varMax varMax_le_atomMax o t u). Qed.
Theorem no_fuel_exhaustion o t : snd (read_smodels o t) <> Fuel.
Proof. exact (no_fuel_exhaustion_v sm_varMax varMax_le_atomMax o t). Qed.
Theorem line_bound o t ln : snd (read_smodels o t) = Err ln -> 1 <= ln <= lines t.
Proof. exact (line_bound_v sm_varMax varMax_le_atomMax o t ln). Qed.
Theorem delivered_calls o t :
  protocol_ok 0 (fst (read_smodels o t)) = true /\
  (forall c, In c (fst (read_smodels o t)) ->
     match c with
     | CMin p l => 0 <= p <= Z.of_nat (length t) /\ forallb (wlit_ok false) l = true
     | _ => call_ok c = true
     end).
Proof. exact (delivered_calls_v sm_varMax varMax_le_atomMax o t). Qed.
