(* C07 - declarative side: laid-out smodels programs, their text, range conditions, denotation.

   A laid-out program fixes, for every token of the smodels layout, the whitespace in front of it and the
   NUMBER it denotes (an unbounded Z).  [render] is the text, [in_range] says that every number fits the
   field it stands in, [denote] is the list of AbstractProgram calls the text stands for.
   Counts that determine the shape of the text (number of literals, number of head atoms) are derived
   from the lists; the number of NEGATIVE literals is a free field (so "neg <= len" is a range condition).

   Layout conventions (what "well-formed" means here, cf. notes/C07.md):
   - a token is preceded by whitespace bytes (9..32; LF, CR, CRLF all allowed); the whitespace is non-empty
     where the previous token is a number; the very first token of the text has none (format probe);
   - a symbol-table line is  atom, one separator byte, the name (no LF/CR/NUL), and a line break that is the
     first byte of the next token's whitespace;  "B+" / "B-" are followed directly by a line break likewise;
   - numbers are written in plain decimal (print_nat).                                                *)
Require Import V.Lib.Base V.Lib.Calls V.Lib.Dec V.Gen.Consts V.Gen.Consts_C07 V.C07.Model.
Local Open Scope Z_scope.

Definition num := (list Z * Z)%type.          (* whitespace in front, denoted value *)
Definition r_num (n : num) : list Z := fst n ++ print_nat (snd n).
Definition r_nums (l : list num) : list Z := flat_map r_num l.
Definition r_cnt (w : list Z) (k : nat) : list Z := w ++ print_nat (Z.of_nat k).
Definition vals (l : list num) : list Z := map snd l.

Record lbody := mkbody { b_lws : list Z; b_neg : num; b_atoms : list num }.

Inductive lrule :=
| RBasic (tw : list Z) (h : num) (b : lbody)
| RMulti (choice : bool) (tw nw : list Z) (hs : list num) (b : lbody)
| RCard (tw : list Z) (h : num) (b : lbody) (bnd : num)
| RWeight (tw : list Z) (h bnd : num) (b : lbody) (wts : list num)
| RMin (tw : list Z) (bnd : num) (b : lbody) (wts : list num)
| RInc (tw : list Z) (z : num)
| RAssign (tw : list Z) (a v : num)
| RRelease (tw : list Z) (a : num)
| ROther (t : num).

Record lsym := mksym { y_atom : num; y_sep : Z; y_name : list Z }.

Record lstep := mkstep {
  s_rules : list lrule; s_rend : list Z;
  s_syms : list lsym; s_send : list Z;
  s_bpw : list Z; s_bplus : list num; s_bpend : list Z;
  s_bmw : list Z; s_bminus : list num; s_bmend : list Z;
  s_ext : option (list Z * list num * list Z);
  s_models : num }.

Record lprog := mkprog { p_steps : list lstep; p_tail : list Z }.

(* ---------------- text ---------------- *)
Definition r_counts (b : lbody) : list Z := r_cnt (b_lws b) (length (b_atoms b)) ++ r_num (b_neg b).

Definition rule_tw (r : lrule) : list Z :=
  match r with
  | RBasic tw _ _ | RMulti _ tw _ _ _ | RCard tw _ _ _ | RWeight tw _ _ _ _ | RMin tw _ _ _
  | RInc tw _ | RAssign tw _ _ | RRelease tw _ => tw
  | ROther t => fst t
  end.
Definition rule_type (r : lrule) : Z :=
  match r with
  | RBasic _ _ _ => Sm_Basic
  | RMulti c _ _ _ _ => if c then Sm_Choice else Sm_Disjunctive
  | RCard _ _ _ _ => Sm_Cardinality
  | RWeight _ _ _ _ _ => Sm_Weight
  | RMin _ _ _ _ => Sm_Optimize
  | RInc _ _ => Sm_ClaspIncrement
  | RAssign _ _ _ => Sm_ClaspAssignExt
  | RRelease _ _ => Sm_ClaspReleaseExt
  | ROther t => snd t
  end.
Definition rule_fields (r : lrule) : list Z :=
  match r with
  | RBasic _ h b => r_num h ++ r_counts b ++ r_nums (b_atoms b)
  | RMulti _ _ nw hs b => r_cnt nw (length hs) ++ r_nums hs ++ r_counts b ++ r_nums (b_atoms b)
  | RCard _ h b bnd => r_num h ++ r_counts b ++ r_num bnd ++ r_nums (b_atoms b)
  | RWeight _ h bnd b wts => r_num h ++ r_num bnd ++ r_counts b ++ r_nums (b_atoms b) ++ r_nums wts
  | RMin _ bnd b wts => r_num bnd ++ r_counts b ++ r_nums (b_atoms b) ++ r_nums wts
  | RInc _ z => r_num z
  | RAssign _ a v => r_num a ++ r_num v
  | RRelease _ a => r_num a
  | ROther _ => []
  end.
Definition r_rule (r : lrule) : list Z := rule_tw r ++ print_nat (rule_type r) ++ rule_fields r.
Definition r_zero (w : list Z) : list Z := w ++ [48].
Definition r_sym (y : lsym) : list Z := r_num (y_atom y) ++ y_sep y :: y_name y.
Definition r_ext (e : option (list Z * list num * list Z)) : list Z :=
  match e with
  | Some (w, l, z) => w ++ sm_kw_ext ++ r_nums l ++ r_zero z
  | None => []
  end.
Definition r_step (s : lstep) : list Z :=
  flat_map r_rule (s_rules s) ++ r_zero (s_rend s) ++
  flat_map r_sym (s_syms s) ++ r_zero (s_send s) ++
  s_bpw s ++ sm_kw_bplus ++ r_nums (s_bplus s) ++ r_zero (s_bpend s) ++
  s_bmw s ++ sm_kw_bminus ++ r_nums (s_bminus s) ++ r_zero (s_bmend s) ++
  r_ext (s_ext s) ++ r_num (s_models s).
Definition render (p : lprog) : list Z := flat_map r_step (p_steps p) ++ p_tail p.

(* ---------------- layout well-formedness (shape of the text, independent of the magnitudes) ---------------- *)
Definition is_nl (c : Z) : bool := (c =? 10) || (c =? 13).
Definition ws_ok (w : list Z) : bool := forallb is_ws w.
Definition sep_ok (w : list Z) : bool := ws_ok w && match w with [] => false | _ => true end.
Definition nl_ok (w : list Z) : bool := ws_ok w && match w with c :: _ => is_nl c | [] => false end.
(* lead = false: the very first token of the text (no whitespace at all) *)
Definition front_ok (lead : bool) (w : list Z) : bool := if lead then sep_ok w else match w with [] => true | _ => false end.
Definition num_ok (n : num) : bool := sep_ok (fst n) && (0 <=? snd n).
Definition pnum_ok (n : num) : bool := num_ok n && (1 <=? snd n).   (* a position where 0 would be the terminator *)
Definition body_ok (b : lbody) : bool := sep_ok (b_lws b) && num_ok (b_neg b) && forallb num_ok (b_atoms b).
Definition known_type (t : Z) : bool :=
  existsb (Z.eqb t) [Sm_Basic; Sm_Cardinality; Sm_Choice; Sm_Weight; Sm_Optimize; Sm_Disjunctive;
                     Sm_ClaspIncrement; Sm_ClaspAssignExt; Sm_ClaspReleaseExt].
Definition rule_ok (r : lrule) : bool :=
  match r with
  | RBasic _ h b => num_ok h && body_ok b
  | RMulti _ _ nw hs b => sep_ok nw && forallb num_ok hs && body_ok b
  | RCard _ h b bnd => num_ok h && body_ok b && num_ok bnd
  | RWeight _ h bnd b wts => num_ok h && num_ok bnd && body_ok b && forallb num_ok wts && (length wts =? length (b_atoms b))%nat
  | RMin _ bnd b wts => num_ok bnd && body_ok b && forallb num_ok wts && (length wts =? length (b_atoms b))%nat
  | RInc _ z => num_ok z
  | RAssign _ a v => num_ok a && num_ok v
  | RRelease _ a => num_ok a
  | ROther t => (1 <=? snd t) && negb (known_type (snd t))
  end.
Fixpoint rules_ok (lead : bool) (l : list lrule) : bool :=
  match l with
  | [] => true
  | r :: l' => front_ok lead (rule_tw r) && rule_ok r && rules_ok true l'
  end.
Definition name_ok (n : list Z) : bool := forallb (fun c => negb ((c =? 0) || (c =? 10) || (c =? 13))) n.
(* afternl: the previous token ended with a name (the whitespace in front must start with a line break) *)
Fixpoint syms_ok (afternl : bool) (l : list lsym) : bool :=
  match l with
  | [] => true
  | y :: l' => (if afternl then nl_ok (fst (y_atom y)) else sep_ok (fst (y_atom y))) && (1 <=? snd (y_atom y))
               && negb ((y_sep y =? 0) || (y_sep y =? 13) || is_digit (y_sep y)) && name_ok (y_name y) && syms_ok true l'
  end.
(* a keyword followed by numbers and a terminating 0: the first token after the keyword starts with a line break *)
Fixpoint atoms_ok (afternl : bool) (l : list num) : bool :=
  match l with
  | [] => true
  | a :: l' => (if afternl then nl_ok (fst a) else sep_ok (fst a)) && (1 <=? snd a) && atoms_ok false l'
  end.
Definition end_ok (afternl : bool) (w : list Z) : bool := if afternl then nl_ok w else sep_ok w.
Definition isnil {A} (l : list A) : bool := match l with [] => true | _ => false end.
Definition ext_ok (e : option (list Z * list num * list Z)) : bool :=
  match e with
  | Some (w, l, z) => ws_ok w && atoms_ok false l && sep_ok z
  | None => true
  end.
Definition step_ok (lead : bool) (s : lstep) : bool :=
  rules_ok lead (s_rules s) && front_ok (lead || negb (isnil (s_rules s))) (s_rend s) &&
  syms_ok false (s_syms s) && end_ok (negb (isnil (s_syms s))) (s_send s) &&
  ws_ok (s_bpw s) && atoms_ok true (s_bplus s) && end_ok (isnil (s_bplus s)) (s_bpend s) &&
  ws_ok (s_bmw s) && atoms_ok true (s_bminus s) && end_ok (isnil (s_bminus s)) (s_bmend s) &&
  ext_ok (s_ext s) && num_ok (s_models s).
Fixpoint steps_ok (lead : bool) (l : list lstep) : bool :=
  match l with
  | [] => true
  | s :: l' => step_ok lead s && steps_ok true l'
  end.
Definition layout_ok (p : lprog) : bool :=
  steps_ok false (p_steps p) && negb (isnil (p_steps p)) && ws_ok (p_tail p).

(* ---------------- range conditions ---------------- *)
Definition INT_MAX : Z := 2147483647.
Definition UINT_MAX : Z := 4294967295.
Definition atom_in (n : num) : bool := (1 <=? snd n) && (snd n <=? atomMax).
Definition weight_in (n : num) : bool := snd n <=? INT_MAX.
Definition count_in (k : Z) : bool := k <=? UINT_MAX.
Definition body_in (b : lbody) : bool :=
  count_in (Z.of_nat (length (b_atoms b))) && count_in (snd (b_neg b)) && (snd (b_neg b) <=? Z.of_nat (length (b_atoms b))).
Definition rule_in (ext : bool) (r : lrule) : bool :=
  match r with
  | RBasic _ h b => atom_in h && body_in b && forallb atom_in (b_atoms b)
  | RMulti _ _ _ hs b => (1 <=? Z.of_nat (length hs)) && (Z.of_nat (length hs) <=? atomMax) && forallb atom_in hs
                         && body_in b && forallb atom_in (b_atoms b)
  | RCard _ h b bnd => atom_in h && body_in b && count_in (snd bnd) && weight_in bnd && forallb atom_in (b_atoms b)
  | RWeight _ h bnd b wts => atom_in h && count_in (snd bnd) && body_in b && weight_in bnd && forallb atom_in (b_atoms b) && forallb weight_in wts
  | RMin _ bnd b wts => count_in (snd bnd) && body_in b && weight_in bnd && forallb atom_in (b_atoms b) && forallb weight_in wts
  | RInc _ z => ext && count_in (snd z) && (snd z =? 0)
  | RAssign _ a v => ext && atom_in a && (snd v <=? 2)
  | RRelease _ a => ext && atom_in a
  | ROther _ => false
  end.
Definition ext_in (e : option (list Z * list num * list Z)) : bool :=
  match e with Some (_, l, _) => forallb atom_in l | None => true end.
Definition step_in (ext : bool) (s : lstep) : bool :=
  forallb (rule_in ext) (s_rules s) && forallb (fun y => atom_in (y_atom y)) (s_syms s) &&
  forallb atom_in (s_bplus s) && forallb atom_in (s_bminus s) && ext_in (s_ext s) && count_in (snd (s_models s)).
(* the reader takes the program for an incremental one when its first byte is '9' *)
Definition first_byte (p : lprog) : Z := hd 0 (render p).
Definition incremental (p : lprog) : bool := first_byte p =? 57.
Definition in_range (ext : bool) (p : lprog) : bool :=
  forallb (step_in ext) (p_steps p) && ((length (p_steps p) <=? 1)%nat || (ext && incremental p)).

(* ---------------- range conditions relative to the reader's atom limit vm (ProgramReader::setMaxVar) ----------------
   The atoms of RULES (heads, bodies of every rule type, the atom of the clasp-extension rules 91 / 92) and - because the reader
   reads it with the same call - the head COUNT of a choice / disjunctive rule are bounded by vm; symbol-table, compute-statement
   and E-section atoms are bounded by atomMax whatever vm is (cf. Model.v, Section MaxVar).  [in_range] above is the instance
   vm = sm_varMax = atomMax, by conversion (ProofsLex.in_range_default). *)
Definition ratom_in (vm : Z) (n : num) : bool := (1 <=? snd n) && (snd n <=? vm).
Definition rule_in_v (vm : Z) (ext : bool) (r : lrule) : bool :=
  match r with
  | RBasic _ h b => ratom_in vm h && body_in b && forallb (ratom_in vm) (b_atoms b)
  | RMulti _ _ _ hs b => (1 <=? Z.of_nat (length hs)) && (Z.of_nat (length hs) <=? vm) && forallb (ratom_in vm) hs
                         && body_in b && forallb (ratom_in vm) (b_atoms b)
  | RCard _ h b bnd => ratom_in vm h && body_in b && count_in (snd bnd) && weight_in bnd && forallb (ratom_in vm) (b_atoms b)
  | RWeight _ h bnd b wts => ratom_in vm h && count_in (snd bnd) && body_in b && weight_in bnd && forallb (ratom_in vm) (b_atoms b) && forallb weight_in wts
  | RMin _ bnd b wts => count_in (snd bnd) && body_in b && weight_in bnd && forallb (ratom_in vm) (b_atoms b) && forallb weight_in wts
  | RInc _ z => ext && count_in (snd z) && (snd z =? 0)
  | RAssign _ a v => ext && ratom_in vm a && (snd v <=? 2)
  | RRelease _ a => ext && ratom_in vm a
  | ROther _ => false
  end.
Definition step_in_v (vm : Z) (ext : bool) (s : lstep) : bool :=
  forallb (rule_in_v vm ext) (s_rules s) && forallb (fun y => atom_in (y_atom y)) (s_syms s) &&
  forallb atom_in (s_bplus s) && forallb atom_in (s_bminus s) && ext_in (s_ext s) && count_in (snd (s_models s)).
Definition in_range_v (vm : Z) (ext : bool) (p : lprog) : bool :=
  forallb (step_in_v vm ext) (p_steps p) && ((length (p_steps p) <=? 1)%nat || (ext && incremental p)).

(* ---------------- denotation ---------------- *)
Definition d_body (b : lbody) : list Z :=
  let n := Z.to_nat (snd (b_neg b)) in
  map Z.opp (firstn n (vals (b_atoms b))) ++ skipn n (vals (b_atoms b)).
(* prio = number of optimize statements seen so far *)
Definition d_rule (prio : Z) (r : lrule) : list call * Z :=
  match r with
  | RBasic _ h b => ([CRule Head_t_Disjunctive [snd h] (d_body b)], prio)
  | RMulti c _ _ hs b => ([CRule (if c then Head_t_Choice else Head_t_Disjunctive) (vals hs) (d_body b)], prio)
  | RCard _ h b bnd => ([CWRule Head_t_Disjunctive [snd h] (snd bnd) (map (fun l => (l, 1)) (d_body b))], prio)
  | RWeight _ h bnd b wts => ([CWRule Head_t_Disjunctive [snd h] (snd bnd) (combine (d_body b) (vals wts))], prio)
  | RMin _ _ b wts => ([CMin prio (combine (d_body b) (vals wts))], prio + 1)
  | RInc _ _ => ([], prio)
  | RAssign _ a v => ([CExternal (snd a) (if snd v =? 0 then Value_t_False else if snd v =? 1 then Value_t_True else Value_t_Free)], prio)
  | RRelease _ a => ([CExternal (snd a) Value_t_Release], prio)
  | ROther _ => ([], prio)
  end.
Fixpoint d_rules (prio : Z) (l : list lrule) : list call :=
  match l with
  | [] => []
  | r :: l' => fst (d_rule prio r) ++ d_rules (snd (d_rule prio r)) l'
  end.
Definition d_ext (e : option (list Z * list num * list Z)) : list call :=
  match e with Some (_, l, _) => map (fun a => CExternal (snd a) Value_t_Free) l | None => [] end.
Definition d_step (s : lstep) : list call :=
  [CBegin] ++ d_rules 0 (s_rules s) ++
  map (fun y => COutput (y_name y) [snd (y_atom y)]) (s_syms s) ++
  map (fun a => CRule Head_t_Disjunctive [] [- snd a]) (s_bplus s) ++
  map (fun a => CRule Head_t_Disjunctive [] [snd a]) (s_bminus s) ++
  d_ext (s_ext s) ++ [CEnd].
Definition denote (p : lprog) : list call := CInit (incremental p) :: flat_map d_step (p_steps p).
