(* C07: the case decoder of the correspondence run (definitions only).  V.C07.Model.run_case refuses every case that asks for a
   conversion of special predicates ([-3]: that is C08).  This decoder ADMITS the reader option convertHeuristic (option bit 2 = value 4)
   for texts that contain no `_heuristic(` anywhere:

     convertHeuristic is INVISIBLE when no name is a heuristic predicate.

   With the option SmodelsInput::readSymbols hands every symbol to its private name table (SymTab::add - it exists only with this option and
   is shared by all steps of an incremental program), which inserts the name (first binding wins for LOOKUP) and ALWAYS forwards the symbol
   with output() unless it is a converted and filtered predicate; matchDomHeuPred is tried on every name and only succeeds on names that
   start with `_heuristic(`.  So for such texts the reader delivers exactly what it delivers without the option - also for a name used by
   two atoms and for a symbol line that is repeated in the same table or in the table of a later step: the model IGNORES the bit.
   (The harness applies the same textual test; a text with the substring stays outside the domain, as does convertEdges.) *)
Require Import ZArith List Bool.
Require Import V.Lib.Base V.C07.Model.
Import ListNotations.
Local Open Scope Z_scope.

Fixpoint is_prefix (p t : list Z) : bool :=
  match p, t with
  | [], _ => true
  | x :: p', y :: t' => (x =? y) && is_prefix p' t'
  | _ :: _, [] => false
  end.

Fixpoint has_sub (p t : list Z) {struct t} : bool :=
  match t with
  | [] => is_prefix p []
  | _ :: t' => is_prefix p t || has_sub p t'
  end.

(* "_heuristic(" *)
Definition heu_pred : list Z := [95; 104; 101; 117; 114; 105; 115; 116; 105; 99; 40].

Definition run_case (c : list Z) : list Z :=
  match c with
  | _ :: ob :: len :: r =>
      let text := firstn (Z.to_nat len) r in
      if negb ((ob / 2) mod 2 =? 0) then [-3]                                         (* convertEdges: C08 *)
      else if negb ((ob / 4) mod 2 =? 0) && has_sub heu_pred text then [-3] else       (* a heuristic predicate may be converted: C08 *)
      match decode_maxvar (hd 0 (skipn (Z.to_nat len) r)) with
      | Some vm => encode_result (read_smodels_v vm (mkopts (Z.odd ob) (negb ((ob / 8) mod 2 =? 0))) text)
      | None => [-3]
      end
  | _ => []
  end.
