(* C07 - lexical lemmas: what matchPos / matchAtom do on  <whitespace><decimal number><delimiter...> *)
Require Import V.Lib.Base V.Lib.Calls V.Lib.Dec V.C09.Spec V.Gen.Consts V.Gen.Consts_C07 V.C07.Model V.C07.Spec.
Require Import ZifyBool.
Local Open Scope Z_scope.
Ltac Zify.zify_post_hook ::= Z.div_mod_to_equations.

(* the rest of the input does not continue a digit run *)
Definition delim (r : list Z) : Prop := match r with [] => True | c :: _ => is_digit c = false end.

Lemma ws_not_digit c : is_ws c = true -> is_digit c = false.
Proof. unfold is_ws, is_digit. lia. Qed.
Lemma digit_not_ws c : is_digit c = true -> is_ws c = false.
Proof. unfold is_ws, is_digit. lia. Qed.

Lemma sep_ok_ws w : sep_ok w = true -> ws_ok w = true.
Proof. unfold sep_ok. intros H. apply andb_prop in H. tauto. Qed.
Lemma nl_ok_ws w : nl_ok w = true -> ws_ok w = true.
Proof. unfold nl_ok. intros H. apply andb_prop in H. tauto. Qed.
Lemma nl_ok_sep w : nl_ok w = true -> sep_ok w = true.
Proof. unfold nl_ok, sep_ok. intros H. apply andb_prop in H. destruct H as [H1 H2]. rewrite H1. destruct w; [discriminate | reflexivity]. Qed.
Lemma front_ok_ws lead w : front_ok lead w = true -> ws_ok w = true.
Proof. destruct lead; cbn; [apply sep_ok_ws|]. destruct w; [reflexivity | discriminate]. Qed.

Lemma delim_sep w x : sep_ok w = true -> delim (w ++ x).
Proof.
  unfold sep_ok, ws_ok. intros H. apply andb_prop in H. destruct H as [H1 H2].
  destruct w as [|c w]; [discriminate|]. cbn in *. apply andb_prop in H1. apply ws_not_digit. tauto.
Qed.
Lemma delim_cons c x : is_digit c = false -> delim (c :: x).
Proof. intros H. exact H. Qed.

(* ---- skipping whitespace ---- *)
Lemma match10 {A} (r : list Z) (f : list Z -> A) (g : A) :
  (match r with 10 :: r' => f r' | _ => g end) = if (hd 0 r =? 10) then f (tl r) else g.
Proof.
  destruct r as [|c r]; [reflexivity|]. cbn [hd tl].
  destruct (Z.eqb_spec c 10) as [->|Hne]; [reflexivity|].
  destruct c as [|p|p]; try reflexivity.
  do 4 (destruct p as [p|p|]; try reflexivity). congruence.
Qed.

Lemma skipws_app : forall n w l ln, (length w <= n)%nat -> ws_ok w = true ->
  (match l with [] => True | c :: _ => is_ws c = false end) ->
  exists ln', a_skipws_l (w ++ l) ln = amk l ln'.
Proof.
  induction n as [|n IH]; intros w l ln Hn Hw Hl.
  - destruct w; [|cbn in Hn; lia]. cbn. destruct l as [|c l]; cbn; [eauto|]. rewrite Hl. eauto.
  - destruct w as [|c w].
    + cbn. destruct l as [|c l]; cbn; [eauto|]. rewrite Hl. eauto.
    + cbn in Hw. apply andb_prop in Hw. destruct Hw as [Hc Hw]. cbn [app a_skipws_l]. rewrite Hc.
      destruct (c =? 13) eqn:E13.
      * rewrite match10.
        destruct w as [|d w].
        -- cbn [app]. destruct l as [|e l]; [cbn; eauto|]. cbn [hd tl].
           destruct (Z.eqb_spec e 10) as [->|Hne]; [cbn in Hl; discriminate|].
           cbn. rewrite Hl. eauto.
        -- cbn [app hd tl]. cbn in Hw. apply andb_prop in Hw. destruct Hw as [Hd Hw].
           destruct (Z.eqb_spec d 10) as [->|Hne].
           ++ apply IH; [cbn in Hn; lia | exact Hw | exact Hl].
           ++ apply (IH (d :: w) l); [cbn in *; lia | cbn; rewrite Hd, Hw; reflexivity | exact Hl].
      * apply IH; [cbn in Hn; lia | exact Hw | exact Hl].
Qed.

(* ---- the digit loop ---- *)
Lemma a_digits_bad : forall l res, exists v, a_digits l res false = (v, false, snd (a_digits l res false)).
Proof.
  induction l as [|c l IH]; intros res; cbn [a_digits]; [cbn [snd]; eauto|].
  destruct (is_digit c); [|cbn [snd]; eauto]. cbn [andb]. apply IH.
Qed.

Lemma a_digits_nodigit r acc g : delim r -> a_digits r acc g = (acc, g, r).
Proof. destruct r as [|c r]; intros H; cbn [a_digits]; [reflexivity|]. cbn in H. rewrite H. reflexivity. Qed.

Lemma a_digits_spec : forall ds r acc, all_digits ds -> delim r -> 0 <= acc <= INT64_MAX ->
  exists v g, a_digits (ds ++ r) acc true = (v, g, r) /\
              (value_acc acc ds <= INT64_MAX -> g = true /\ v = value_acc acc ds) /\
              (INT64_MAX < value_acc acc ds -> g = false).
Proof.
  induction ds as [|d ds IH]; intros r acc Hd Hr Hacc.
  - cbn [app value_acc]. exists acc, true. rewrite (a_digits_nodigit r acc true Hr).
    repeat split; lia.
  - inversion Hd as [|? ? Hd1 Hd2]; subst. cbn [app a_digits value_acc]. rewrite Hd1.
    assert (Hdig : 0 <= to_digit d <= 9) by (unfold is_digit, to_digit in *; lia).
    cbn [andb]. destruct (Z.leb_spec acc ((INT64_MAX - to_digit d) / 10)) as [Hle|Hgt].
    + assert (acc * 10 + to_digit d <= INT64_MAX).
      { unfold INT64_MAX in *. lia. }
      apply IH; [assumption | assumption | lia].
    + assert (Hov : INT64_MAX < acc * 10 + to_digit d).
      { unfold INT64_MAX in *. lia. }
      pose proof (value_acc_mono (acc * 10 + to_digit d) ds ltac:(lia) Hd2) as Hm.
      assert (Hsnd : forall a, snd (a_digits (ds ++ r) a false) = r).
      { clear - Hd2 Hr. induction ds as [|e ds IHd]; intros a.
        - cbn [app]. rewrite (a_digits_nodigit r a false Hr). reflexivity.
        - inversion Hd2; subst. cbn [app a_digits]. rewrite H1. cbn [andb]. apply IHd. assumption. }
      destruct (a_digits_bad (ds ++ r) acc) as [v Ev]. rewrite Hsnd in Ev.
      exists v, false. split; [exact Ev|]. split; intros; [lia | reflexivity].
Qed.

(* ---- match(int64_t&) on  ws ++ decimal(v) ++ r ---- *)
Lemma hd_ws_false_of_digits v r : 0 <= v ->
  match print_nat v ++ r with [] => True | c :: _ => is_ws c = false end.
Proof.
  intros Hv. pose proof (print_nat_hd_digit v Hv) as H. pose proof (print_nat_nonempty v Hv) as Hne.
  destruct (print_nat v) as [|d ds]; [congruence|]. cbn in *. apply digit_not_ws. exact H.
Qed.

Lemma match_int_spec w v r ln : ws_ok w = true -> 0 <= v -> delim r ->
  exists ln', a_match_int false (amk (w ++ print_nat v ++ r) ln) =
              (if v <=? INT64_MAX then Some v else None, amk r ln').
Proof.
  intros Hw Hv Hr.
  destruct (skipws_app (length w) w (print_nat v ++ r) ln (le_n _) Hw (hd_ws_false_of_digits v r Hv)) as [ln' Es].
  exists ln'. unfold a_match_int, a_skipws. cbn [rest aline]. rewrite Es. cbn [rest aline].
  pose proof (print_nat_spec v Hv) as (Hd & Hne & Hval & _).
  destruct (print_nat v) as [|d ds] eqn:Ep; [congruence|].
  inversion Hd as [|? ? Hd1 Hd2]; subst.
  unfold a_peek. cbn [rest app].
  assert (Hs : (d =? 43) || (d =? 45) = false) by (unfold is_digit in Hd1; lia).
  rewrite Hs. rewrite Hd1.
  assert (Hdig : 0 <= to_digit d <= 9) by (unfold is_digit, to_digit in *; lia).
  destruct (a_digits_spec ds r (to_digit d) Hd2 Hr ltac:(unfold INT64_MAX; lia)) as (x & g & E & Hok & Hbad).
  rewrite E.
  assert (Hv' : value_acc (to_digit d) ds = v).
  { specialize (Hval 0). cbn [value_acc] in Hval. replace (0 * 10 + to_digit d) with (to_digit d) in Hval by lia. rewrite Hval. lia. }
  rewrite Hv' in *.
  assert (Hm : (d =? 45) = false) by (unfold is_digit in Hd1; lia). rewrite Hm.
  destruct (Z.leb_spec v INT64_MAX) as [Hle|Hgt].
  - destruct (Hok Hle) as [-> ->]. reflexivity.
  - rewrite (Hbad Hgt). reflexivity.
Qed.

(* ---- results up to the (existentially quantified) line counter ---- *)
Definition yields {A} (m : out (A * ast)) (v : A) (r : list Z) : Prop := exists ln, m = Ok (v, amk r ln).
Definition fails {A} (m : out A) : Prop := exists ln, m = Err ln.
Definition spec2 {A} (b : bool) (m : out (A * ast)) (v : A) (r : list Z) : Prop := if b then yields m v r else fails m.

Lemma spec2_bind {A B} (b1 b2 : bool) (m : out (A * ast)) (f : A * ast -> out (B * ast)) v1 r1 v2 r2 :
  spec2 b1 m v1 r1 -> (b1 = true -> forall ln, spec2 b2 (f (v1, amk r1 ln)) v2 r2) -> spec2 (b1 && b2) (bind m f) v2 r2.
Proof.
  destruct b1; cbn; intros H1 H2.
  - destruct H1 as [ln E]. rewrite E. cbn. apply H2. reflexivity.
  - destruct H1 as [ln E]. rewrite E. cbn. exists ln. reflexivity.
Qed.
Lemma spec2_ret {A} (v : A) r ln : spec2 true (Ok (v, amk r ln)) v r.
Proof. exists ln. reflexivity. Qed.
Lemma spec2_eq {A} b b' (m : out (A * ast)) v r : b = b' -> spec2 b m v r -> spec2 b' m v r.
Proof. intros ->. exact id. Qed.

Lemma m_pos_spec max n r ln : max <= INT64_MAX -> ws_ok (fst n) = true -> 0 <= snd n -> delim r ->
  spec2 (snd n <=? max) (m_pos max (amk (r_num n ++ r) ln)) (snd n) r.
Proof.
  intros Hmax Hw Hv Hr. unfold r_num, m_pos. rewrite <- app_assoc.
  destruct (match_int_spec (fst n) (snd n) r ln Hw Hv Hr) as [ln' E]. rewrite E.
  destruct (Z.leb_spec (snd n) max) as [Hle|Hgt]; cbn.
  - destruct (Z.leb_spec (snd n) INT64_MAX); [|lia].
    assert (H0 : (0 <=? snd n) && (snd n <=? max) = true) by lia. rewrite H0. exists ln'. reflexivity.
  - destruct (snd n <=? INT64_MAX); [|exists ln'; reflexivity].
    assert (H0 : (0 <=? snd n) && (snd n <=? max) = false) by lia. rewrite H0. exists ln'. reflexivity.
Qed.

(* the reader with a configured atom limit vm (setMaxVar): matchAtom accepts exactly 1..vm *)
Lemma m_atom_v_spec vm n r ln : vm <= INT64_MAX -> ws_ok (fst n) = true -> 0 <= snd n -> delim r ->
  spec2 (ratom_in vm n) (m_atom_v vm (amk (r_num n ++ r) ln)) (snd n) r.
Proof.
  intros Hvm Hw Hv Hr. unfold r_num, m_atom_v, ratom_in. rewrite <- app_assoc.
  destruct (match_int_spec (fst n) (snd n) r ln Hw Hv Hr) as [ln' E]. rewrite E.
  change atomMin with 1.
  destruct ((1 <=? snd n) && (snd n <=? vm)) eqn:Hin; cbn.
  - destruct (Z.leb_spec (snd n) INT64_MAX); [|lia].
    rewrite Hin. exists ln'. reflexivity.
  - destruct (snd n <=? INT64_MAX); [|exists ln'; reflexivity].
    rewrite Hin. exists ln'. reflexivity.
Qed.

Lemma atomMax_le_int64 : atomMax <= INT64_MAX. Proof. unfold atomMax, INT64_MAX. lia. Qed.

(* the functions / range conditions without a limit are the instance vm = sm_varMax (the constructor's default), BY CONVERSION *)
Lemma m_atom_default : m_atom = m_atom_v sm_varMax. Proof. reflexivity. Qed.
Lemma m_body_default : m_body = m_body_v sm_varMax. Proof. reflexivity. Qed.
Lemma m_sum_default : m_sum = m_sum_v sm_varMax. Proof. reflexivity. Qed.
Lemma read_rule_default : read_rule = read_rule_v sm_varMax. Proof. reflexivity. Qed.
Lemma read_rules_default : read_rules = read_rules_v sm_varMax. Proof. reflexivity. Qed.
Lemma do_parse_default : do_parse = do_parse_v sm_varMax. Proof. reflexivity. Qed.
Lemma parse_steps_default : parse_steps = parse_steps_v sm_varMax. Proof. reflexivity. Qed.
Lemma read_smodels_default : read_smodels = read_smodels_v sm_varMax. Proof. reflexivity. Qed.
Lemma atom_in_default : atom_in = ratom_in sm_varMax. Proof. reflexivity. Qed.
Lemma rule_in_default : rule_in = rule_in_v sm_varMax. Proof. reflexivity. Qed.
Lemma step_in_default : step_in = step_in_v sm_varMax. Proof. reflexivity. Qed.
Lemma in_range_default : in_range = in_range_v sm_varMax. Proof. reflexivity. Qed.

Lemma m_atom_spec n r ln : ws_ok (fst n) = true -> 0 <= snd n -> delim r ->
  spec2 (atom_in n) (m_atom (amk (r_num n ++ r) ln)) (snd n) r.
Proof. exact (m_atom_v_spec sm_varMax n r ln atomMax_le_int64). Qed.
