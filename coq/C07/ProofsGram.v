(* C07 - grammar level: the reader model on the text of a laid-out program *)
Require Import V.Lib.Base V.Lib.Calls V.Lib.Dec V.C09.Spec V.Gen.Consts V.Gen.Consts_C07 V.C07.Model V.C07.Spec V.C07.ProofsLex.
Require Import ZifyBool.
Local Open Scope Z_scope.
Ltac Zify.zify_post_hook ::= Z.div_mod_to_equations.

Ltac bsplit := repeat match goal with H : _ && _ = true |- _ => apply andb_prop in H; destruct H end.

Lemma num_ok_inv n : num_ok n = true -> sep_ok (fst n) = true /\ ws_ok (fst n) = true /\ 0 <= snd n.
Proof. unfold num_ok. intros H. bsplit. repeat split; [assumption | now apply sep_ok_ws | lia]. Qed.

Lemma delim_num n x : num_ok n = true -> delim (r_num n ++ x).
Proof. intros H. destruct (num_ok_inv n H) as (Hs & _ & _). unfold r_num. rewrite <- app_assoc. now apply delim_sep. Qed.

Lemma delim_nums l r : forallb num_ok l = true -> delim r -> delim (r_nums l ++ r).
Proof.
  destruct l as [|a l]; intros H Hr; [exact Hr|]. cbn in H. bsplit.
  unfold r_nums. cbn [flat_map]. rewrite <- app_assoc. now apply delim_num.
Qed.

Lemma spec2_require {A} (c b : bool) s (k : unit -> out (A * ast)) v r :
  (c = true -> spec2 b (k tt) v r) -> spec2 (c && b) (bind (m_require c s) k) v r.
Proof. destruct c; cbn; intros H; [now apply H | eexists; reflexivity]. Qed.

Lemma m_pos_spec' max w v r ln : max <= INT64_MAX -> ws_ok w = true -> 0 <= v -> delim r ->
  spec2 (v <=? max) (m_pos max (amk (w ++ print_nat v ++ r) ln)) v r.
Proof. intros. rewrite app_assoc. apply (m_pos_spec max (w, v)); assumption. Qed.

Lemma umax_le : sm_umax <= INT64_MAX. Proof. unfold sm_umax, INT64_MAX. lia. Qed.

(* ---- counted loops ---- *)
Lemma m_many_spec (f : ast -> out (Z * ast)) (ok : num -> bool) (g : Z -> Z) :
  (forall n r ln, num_ok n = true -> delim r -> spec2 (ok n) (f (amk (r_num n ++ r) ln)) (g (snd n)) r) ->
  forall l fuel r ln, (length l <= fuel)%nat -> forallb num_ok l = true -> delim r ->
  spec2 (forallb ok l) (m_many f fuel (Z.of_nat (length l)) (amk (r_nums l ++ r) ln)) (map g (vals l)) r.
Proof.
  intros Hf. induction l as [|a l IH]; intros fuel r ln Hfu Hl Hr.
  - cbn [length forallb vals map r_nums flat_map app]. destruct fuel; cbn [m_many]; change (Z.of_nat 0 =? 0) with true; cbv iota; apply spec2_ret.
  - destruct fuel as [|fu]; [cbn in Hfu; lia|]. cbn in Hl. bsplit.
    cbn [length forallb vals map]. cbn [m_many].
    destruct (Z.eqb_spec (Z.of_nat (S (length l))) 0) as [E|_]; [lia|].
    unfold r_nums. cbn [flat_map]. rewrite <- app_assoc. fold (r_nums l).
    eapply spec2_eq; cycle 1.
    + eapply spec2_bind; [apply Hf; [assumption | now apply delim_nums]|].
      intros _ ln1. cbv beta iota.
      replace (Z.of_nat (S (length l)) - 1) with (Z.of_nat (length l)) by lia.
      eapply spec2_bind; [apply IH; [cbn in Hfu; lia | assumption | assumption]|].
      intros _ ln2. cbv beta iota. apply spec2_ret.
    + rewrite andb_true_r. reflexivity.
Qed.

Lemma atoms_spec l fuel r ln : (length l <= fuel)%nat -> forallb num_ok l = true -> delim r ->
  spec2 (forallb atom_in l) (m_many m_atom fuel (Z.of_nat (length l)) (amk (r_nums l ++ r) ln)) (vals l) r.
Proof.
  intros. rewrite <- (map_id (vals l)). apply (m_many_spec m_atom atom_in (fun x => x)); try assumption.
  intros n r0 ln0 Hn Hr0. destruct (num_ok_inv n Hn) as (_ & Hw & Hv). now apply m_atom_spec.
Qed.

Lemma wrap32s_id v : 0 <= v <= INT_MAX -> wrap32s v = v.
Proof. unfold wrap32s, INT_MAX. intros. lia. Qed.

Lemma weight_max_eq : sm_weight_max = INT_MAX. Proof. reflexivity. Qed.
Lemma bound_max_eq : sm_bound_max = INT_MAX. Proof. reflexivity. Qed.
Lemma sym_max_eq : sm_sym_max = atomMax. Proof. reflexivity. Qed.
Lemma comp_max_eq : sm_comp_max = atomMax. Proof. reflexivity. Qed.
Lemma ext_max_eq : sm_ext_max = atomMax. Proof. reflexivity. Qed.
Lemma neg_check_body_eq : sm_neg_check_body = true. Proof. reflexivity. Qed.
Lemma neg_check_sum_eq : sm_neg_check_sum = true. Proof. reflexivity. Qed.

Lemma m_weight_spec n r ln : num_ok n = true -> delim r ->
  spec2 (weight_in n) (m_weight (amk (r_num n ++ r) ln)) (snd n) r.
Proof.
  intros Hn Hr. destruct (num_ok_inv n Hn) as (_ & Hw & Hv). unfold m_weight, weight_in.
  rewrite <- (andb_true_r (snd n <=? INT_MAX)).
  eapply spec2_bind.
  - rewrite weight_max_eq. apply m_pos_spec; try assumption. unfold INT_MAX, INT64_MAX. lia.
  - intros Hle ln1. cbv beta iota. rewrite wrap32s_id by lia. apply spec2_ret.
Qed.

Lemma weights_spec l fuel r ln : (length l <= fuel)%nat -> forallb num_ok l = true -> delim r ->
  spec2 (forallb weight_in l) (m_many m_weight fuel (Z.of_nat (length l)) (amk (r_nums l ++ r) ln)) (vals l) r.
Proof.
  intros. rewrite <- (map_id (vals l)). apply (m_many_spec m_weight weight_in (fun x => x)); try assumption.
  intros. now apply m_weight_spec.
Qed.

(* every rendered number takes at least one byte, so the remaining bytes are enough fuel *)
Lemma len_nums l : forallb num_ok l = true -> (length l <= length (r_nums l))%nat.
Proof.
  induction l as [|a l IH]; intros H; [cbn; lia|]. cbn in H. bsplit.
  unfold r_nums in *. cbn [flat_map length]. rewrite app_length. specialize (IH ltac:(assumption)).
  destruct (num_ok_inv a ltac:(assumption)) as (Hs & _ & _). unfold r_num at 1. rewrite app_length.
  unfold sep_ok in Hs. bsplit. destruct (fst a); [discriminate|]. cbn [length]. lia.
Qed.
Lemma fuel_nums l r ln : forallb num_ok l = true -> (length l <= fuel_of (amk (r_nums l ++ r) ln))%nat.
Proof. intros H. unfold fuel_of. cbn [rest]. rewrite app_length. pose proof (len_nums l H). lia. Qed.

(* ---- bodies ---- *)
Lemma apply_neg_zero l : apply_neg 0 l = l.
Proof. induction l as [|a l IH]; cbn [apply_neg]; [reflexivity|]. change (0 <? 0) with false. cbv iota. now rewrite IH. Qed.
Lemma apply_neg_spec : forall l neg, 0 <= neg ->
  apply_neg neg l = map Z.opp (firstn (Z.to_nat neg) l) ++ skipn (Z.to_nat neg) l.
Proof.
  induction l as [|a l IH]; intros neg Hn.
  - cbn [apply_neg]. rewrite firstn_nil, skipn_nil. reflexivity.
  - cbn [apply_neg]. destruct (Z.ltb_spec 0 neg) as [Hp|Hz].
    + replace (Z.to_nat neg) with (S (Z.to_nat (neg - 1))) by lia. cbn [firstn skipn map app].
      rewrite IH by lia. reflexivity.
    + replace neg with 0 by lia. cbn [Z.to_nat firstn skipn map app]. now rewrite apply_neg_zero.
Qed.
Lemma d_body_eq b : 0 <= snd (b_neg b) -> d_body b = apply_neg (snd (b_neg b)) (vals (b_atoms b)).
Proof. intros H. unfold d_body. now rewrite apply_neg_spec. Qed.

Lemma body_ok_inv b : body_ok b = true ->
  sep_ok (b_lws b) = true /\ num_ok (b_neg b) = true /\ forallb num_ok (b_atoms b) = true.
Proof. unfold body_ok. intros H. bsplit. auto. Qed.

Lemma m_body_spec b r ln : body_ok b = true -> delim r ->
  spec2 (body_in b && forallb atom_in (b_atoms b))
        (m_body (amk (r_counts b ++ r_nums (b_atoms b) ++ r) ln)) (d_body b) r.
Proof.
  intros Hb Hr. destruct (body_ok_inv b Hb) as (Hl & Hn & Ha).
  destruct (num_ok_inv _ Hn) as (_ & Hnw & Hnv).
  rewrite d_body_eq by assumption.
  unfold m_body, r_counts, r_cnt, body_in, count_in. rewrite <- !app_assoc.
  eapply spec2_eq; cycle 1.
  - eapply spec2_bind.
    { apply m_pos_spec'; [apply umax_le | now apply sep_ok_ws | lia | now apply delim_num]. }
    intros _ ln1. cbv beta iota.
    eapply spec2_bind.
    { apply m_pos_spec; [apply umax_le | assumption | assumption | now apply delim_nums]. }
    intros _ ln2. cbv beta iota.
    apply spec2_require. intros _.
    eapply spec2_bind.
    { apply atoms_spec; [apply fuel_nums; assumption | assumption | assumption]. }
    intros _ ln3. cbv beta iota. apply spec2_ret.
  - rewrite neg_check_body_eq. cbn [negb orb]. change sm_umax with UINT_MAX. rewrite andb_true_r, !andb_assoc. reflexivity.
Qed.

(* ---- sums ---- *)
Require Import Btauto.

Lemma m_sum_w_spec bnd b wts r ln :
  num_ok bnd = true -> body_ok b = true -> forallb num_ok wts = true -> length wts = length (b_atoms b) -> delim r ->
  spec2 (count_in (snd bnd) && body_in b && weight_in bnd && forallb atom_in (b_atoms b) && forallb weight_in wts)
        (m_sum true (amk (r_num bnd ++ r_counts b ++ r_nums (b_atoms b) ++ r_nums wts ++ r) ln))
        (snd bnd, combine (d_body b) (vals wts)) r.
Proof.
  intros Hbn Hb Hw Hlen Hr. destruct (body_ok_inv b Hb) as (Hl & Hn & Ha).
  destruct (num_ok_inv _ Hn) as (_ & Hnw & Hnv). destruct (num_ok_inv _ Hbn) as (_ & Hbw & Hbv).
  rewrite d_body_eq by assumption.
  unfold m_sum, r_counts, r_cnt, body_in, count_in. rewrite <- !app_assoc.
  eapply spec2_eq; cycle 1.
  - eapply spec2_bind.
    { apply m_pos_spec; [apply umax_le | assumption | assumption | now apply delim_sep]. }
    intros _ ln1. cbv beta iota.
    eapply spec2_bind.
    { apply m_pos_spec'; [apply umax_le | now apply sep_ok_ws | lia | now apply delim_num]. }
    intros _ ln2. cbv beta iota.
    eapply spec2_bind.
    { apply m_pos_spec; [apply umax_le | assumption | assumption | apply delim_nums; [assumption|apply delim_nums; assumption]]. }
    intros _ ln3. cbv beta iota.
    apply spec2_require. intros Hbl. apply spec2_require. intros _.
    eapply spec2_bind.
    { apply atoms_spec; [apply fuel_nums; assumption | assumption | now apply delim_nums]. }
    intros _ ln4. cbv beta iota.
    eapply spec2_bind.
    { rewrite <- Hlen. apply weights_spec; [apply fuel_nums; assumption | assumption | assumption]. }
    intros _ ln5. cbv beta iota.
    rewrite bound_max_eq in Hbl. rewrite wrap32s_id by lia. apply spec2_ret.
  - rewrite neg_check_sum_eq, bound_max_eq. cbn [negb orb]. change sm_umax with UINT_MAX. change (weight_in bnd) with (snd bnd <=? INT_MAX). btauto.
Qed.

Lemma m_sum_c_spec bnd b r ln :
  num_ok bnd = true -> body_ok b = true -> delim r ->
  spec2 (body_in b && count_in (snd bnd) && weight_in bnd && forallb atom_in (b_atoms b))
        (m_sum false (amk (r_counts b ++ r_num bnd ++ r_nums (b_atoms b) ++ r) ln))
        (snd bnd, map (fun l => (l, 1)) (d_body b)) r.
Proof.
  intros Hbn Hb Hr. destruct (body_ok_inv b Hb) as (Hl & Hn & Ha).
  destruct (num_ok_inv _ Hn) as (_ & Hnw & Hnv). destruct (num_ok_inv _ Hbn) as (_ & Hbw & Hbv).
  rewrite d_body_eq by assumption.
  unfold m_sum, r_counts, r_cnt, body_in, count_in. rewrite <- !app_assoc.
  eapply spec2_eq; cycle 1.
  - eapply spec2_bind.
    { apply m_pos_spec'; [apply umax_le | now apply sep_ok_ws | lia | now apply delim_num]. }
    intros _ ln1. cbv beta iota.
    eapply spec2_bind.
    { apply m_pos_spec; [apply umax_le | assumption | assumption | now apply delim_num]. }
    intros _ ln2. cbv beta iota.
    eapply spec2_bind.
    { apply m_pos_spec; [apply umax_le | assumption | assumption | now apply delim_nums]. }
    intros _ ln3. cbv beta iota.
    apply spec2_require. intros Hbl. apply spec2_require. intros _.
    eapply spec2_bind.
    { apply atoms_spec; [apply fuel_nums; assumption | assumption | assumption]. }
    intros _ ln4. cbv beta iota.
    rewrite bound_max_eq in Hbl. rewrite wrap32s_id by lia. apply spec2_ret.
  - rewrite neg_check_sum_eq, bound_max_eq. cbn [negb orb]. change sm_umax with UINT_MAX. change (weight_in bnd) with (snd bnd <=? INT_MAX). btauto.
Qed.
