(* C07 - grammar level: the reader model on the text of a laid-out program *)
Require Import V.Lib.Base V.Lib.Calls V.Lib.Dec V.C09.Spec V.Gen.Consts V.Gen.Consts_C07 V.C07.Model V.C07.Spec V.C07.ProofsLex.
Require Import ZifyBool.
Local Open Scope Z_scope.
Ltac Zify.zify_post_hook ::= Z.div_mod_to_equations.

Ltac bsplit := repeat match goal with H : _ && _ = true |- _ => apply andb_prop in H; destruct H end.

Lemma num_ok_inv n : num_ok n = true -> sep_ok (fst n) = true /\ ws_ok (fst n) = true /\ 0 <= snd n.
Proof. unfold num_ok. intros H. bsplit. repeat split; [assumption | now apply sep_ok_ws | lia]. Qed.

Lemma delim_num n x : num_ok n = true -> delim (r_num n ++ x).
Proof. intros H. destruct (num_ok_inv n H) as (Hs & _ & _). unfold r_num. rewrite <- app_assoc. now apply delim_sep. Qed.

Lemma delim_nums l r : forallb num_ok l = true -> delim r -> delim (r_nums l ++ r).
Proof.
  destruct l as [|a l]; intros H Hr; [exact Hr|]. cbn in H. bsplit.
  unfold r_nums. cbn [flat_map]. rewrite <- app_assoc. now apply delim_num.
Qed.

Lemma spec2_require {A} (c b : bool) s (k : unit -> out (A * ast)) v r :
  (c = true -> spec2 b (k tt) v r) -> spec2 (c && b) (bind (m_require c s) k) v r.
Proof. destruct c; cbn; intros H; [now apply H | eexists; reflexivity]. Qed.

Lemma m_pos_spec' max w v r ln : max <= INT64_MAX -> ws_ok w = true -> 0 <= v -> delim r ->
  spec2 (v <=? max) (m_pos max (amk (w ++ print_nat v ++ r) ln)) v r.
Proof. intros. rewrite app_assoc. apply (m_pos_spec max (w, v)); assumption. Qed.

Ltac bt_term t :=
  match t with
  | true => fail 1
  | false => fail 1
  | andb ?a ?b => first [bt_term a | bt_term b]
  | orb ?a ?b => first [bt_term a | bt_term b]
  | negb ?a => bt_term a
  | _ => destruct t
  end.
Ltac bt_step := match goal with |- ?l = ?r => first [bt_term l | bt_term r] end; cbn [andb orb negb].
Ltac btaut := repeat bt_step; reflexivity.

Ltac rt_reduce :=
  cbn [Z.eqb Pos.eqb orb Sm_Basic Sm_Choice Sm_Disjunctive Sm_Cardinality Sm_Weight Sm_Optimize
       Sm_ClaspIncrement Sm_ClaspAssignExt Sm_ClaspReleaseExt rule_type]; cbv iota.

(* ================= rules: generic in the reader's atom limit vm (ProgramReader::setMaxVar); the statements without a limit that C05
   uses (read_rule_spec, read_rules_spec) are the instance vm = sm_varMax, re-stated behind the section ================= *)
Section MaxVar.
Variable vm : Z.
Hypothesis Hvm : vm <= INT64_MAX.
Local Notation m_atom := (m_atom_v vm).
Local Notation m_body := (m_body_v vm).
Local Notation m_sum := (m_sum_v vm).
Local Notation read_rule := (read_rule_v vm).
Local Notation read_rules := (read_rules_v vm).
Local Notation atom_in := (ratom_in vm).
Local Notation rule_in := (rule_in_v vm).
Lemma m_atom_vspec n r ln : ws_ok (fst n) = true -> 0 <= snd n -> delim r ->
  spec2 (atom_in n) (m_atom (amk (r_num n ++ r) ln)) (snd n) r.
Proof. exact (m_atom_v_spec vm n r ln Hvm). Qed.

Lemma m_atom_vspec' w v r ln : ws_ok w = true -> 0 <= v -> delim r ->
  spec2 (atom_in (w, v)) (m_atom (amk (w ++ print_nat v ++ r) ln)) v r.
Proof. intros. rewrite app_assoc. apply (m_atom_vspec (w, v)); assumption. Qed.

Lemma umax_le : sm_umax <= INT64_MAX. Proof. unfold sm_umax, INT64_MAX. lia. Qed.

(* ---- counted loops ---- *)
Lemma m_many_spec (f : ast -> out (Z * ast)) (ok : num -> bool) (g : Z -> Z) :
  (forall n r ln, num_ok n = true -> delim r -> spec2 (ok n) (f (amk (r_num n ++ r) ln)) (g (snd n)) r) ->
  forall l fuel r ln, (length l <= fuel)%nat -> forallb num_ok l = true -> delim r ->
  spec2 (forallb ok l) (m_many f fuel (Z.of_nat (length l)) (amk (r_nums l ++ r) ln)) (map g (vals l)) r.
Proof.
  intros Hf. induction l as [|a l IH]; intros fuel r ln Hfu Hl Hr.
  - cbn [length forallb vals map r_nums flat_map app]. destruct fuel; cbn [m_many]; change (Z.of_nat 0 =? 0) with true; cbv iota; apply spec2_ret.
  - destruct fuel as [|fu]; [cbn in Hfu; lia|]. cbn in Hl. bsplit.
    cbn [length forallb vals map]. cbn [m_many].
    destruct (Z.eqb_spec (Z.of_nat (S (length l))) 0) as [E|_]; [lia|].
    unfold r_nums. cbn [flat_map]. rewrite <- app_assoc. fold (r_nums l).
    eapply spec2_eq; cycle 1.
    + eapply spec2_bind; [apply Hf; [assumption | now apply delim_nums]|].
      intros _ ln1. cbv beta iota.
      replace (Z.of_nat (S (length l)) - 1) with (Z.of_nat (length l)) by lia.
      eapply spec2_bind; [apply IH; [cbn in Hfu; lia | assumption | assumption]|].
      intros _ ln2. cbv beta iota. apply spec2_ret.
    + rewrite andb_true_r. reflexivity.
Qed.

Lemma atoms_spec l fuel r ln : (length l <= fuel)%nat -> forallb num_ok l = true -> delim r ->
  spec2 (forallb atom_in l) (m_many m_atom fuel (Z.of_nat (length l)) (amk (r_nums l ++ r) ln)) (vals l) r.
Proof.
  intros. rewrite <- (map_id (vals l)). apply (m_many_spec m_atom atom_in (fun x => x)); try assumption.
  intros n r0 ln0 Hn Hr0. destruct (num_ok_inv n Hn) as (_ & Hw & Hv). now apply m_atom_vspec.
Qed.

Lemma wrap32s_id v : 0 <= v <= INT_MAX -> wrap32s v = v.
Proof. unfold wrap32s, INT_MAX. intros. lia. Qed.

Lemma weight_max_eq : sm_weight_max = INT_MAX. Proof. reflexivity. Qed.
Lemma bound_max_eq : sm_bound_max = INT_MAX. Proof. reflexivity. Qed.
Lemma sym_max_eq : sm_sym_max = atomMax. Proof. reflexivity. Qed.
Lemma comp_max_eq : sm_comp_max = atomMax. Proof. reflexivity. Qed.
Lemma ext_max_eq : sm_ext_max = atomMax. Proof. reflexivity. Qed.
Lemma neg_check_body_eq : sm_neg_check_body = true. Proof. reflexivity. Qed.
Lemma neg_check_sum_eq : sm_neg_check_sum = true. Proof. reflexivity. Qed.

Lemma m_weight_spec n r ln : num_ok n = true -> delim r ->
  spec2 (weight_in n) (m_weight (amk (r_num n ++ r) ln)) (snd n) r.
Proof.
  intros Hn Hr. destruct (num_ok_inv n Hn) as (_ & Hw & Hv). unfold m_weight, weight_in.
  rewrite <- (andb_true_r (snd n <=? INT_MAX)).
  eapply spec2_bind.
  - rewrite weight_max_eq. apply m_pos_spec; try assumption. unfold INT_MAX, INT64_MAX. lia.
  - intros Hle ln1. cbv beta iota. rewrite wrap32s_id by lia. apply spec2_ret.
Qed.

Lemma weights_spec l fuel r ln : (length l <= fuel)%nat -> forallb num_ok l = true -> delim r ->
  spec2 (forallb weight_in l) (m_many m_weight fuel (Z.of_nat (length l)) (amk (r_nums l ++ r) ln)) (vals l) r.
Proof.
  intros. rewrite <- (map_id (vals l)). apply (m_many_spec m_weight weight_in (fun x => x)); try assumption.
  intros. now apply m_weight_spec.
Qed.

(* every rendered number takes at least one byte, so the remaining bytes are enough fuel *)
Lemma len_nums l : forallb num_ok l = true -> (length l <= length (r_nums l))%nat.
Proof.
  induction l as [|a l IH]; intros H; [cbn; lia|]. cbn in H. bsplit.
  unfold r_nums in *. cbn [flat_map length]. rewrite app_length. specialize (IH ltac:(assumption)).
  destruct (num_ok_inv a ltac:(assumption)) as (Hs & _ & _). unfold r_num at 1. rewrite app_length.
  unfold sep_ok in Hs. bsplit. destruct (fst a); [discriminate|]. cbn [length]. lia.
Qed.
Lemma fuel_nums l r ln : forallb num_ok l = true -> (length l <= fuel_of (amk (r_nums l ++ r) ln))%nat.
Proof. intros H. unfold fuel_of. cbn [rest]. rewrite app_length. pose proof (len_nums l H). lia. Qed.

(* ---- bodies ---- *)
Lemma apply_neg_zero l : apply_neg 0 l = l.
Proof. induction l as [|a l IH]; cbn [apply_neg]; [reflexivity|]. change (0 <? 0) with false. cbv iota. now rewrite IH. Qed.
Lemma apply_neg_spec : forall l neg, 0 <= neg ->
  apply_neg neg l = map Z.opp (firstn (Z.to_nat neg) l) ++ skipn (Z.to_nat neg) l.
Proof.
  induction l as [|a l IH]; intros neg Hn.
  - cbn [apply_neg]. rewrite firstn_nil, skipn_nil. reflexivity.
  - cbn [apply_neg]. destruct (Z.ltb_spec 0 neg) as [Hp|Hz].
    + replace (Z.to_nat neg) with (S (Z.to_nat (neg - 1))) by lia. cbn [firstn skipn map app].
      rewrite IH by lia. reflexivity.
    + replace neg with 0 by lia. cbn [Z.to_nat firstn skipn map app]. now rewrite apply_neg_zero.
Qed.
Lemma d_body_eq b : 0 <= snd (b_neg b) -> d_body b = apply_neg (snd (b_neg b)) (vals (b_atoms b)).
Proof. intros H. unfold d_body. now rewrite apply_neg_spec. Qed.

Lemma body_ok_inv b : body_ok b = true ->
  sep_ok (b_lws b) = true /\ num_ok (b_neg b) = true /\ forallb num_ok (b_atoms b) = true.
Proof. unfold body_ok. intros H. bsplit. auto. Qed.

Lemma m_body_spec b r ln : body_ok b = true -> delim r ->
  spec2 (body_in b && forallb atom_in (b_atoms b))
        (m_body (amk (r_counts b ++ r_nums (b_atoms b) ++ r) ln)) (d_body b) r.
Proof.
  intros Hb Hr. destruct (body_ok_inv b Hb) as (Hl & Hn & Ha).
  destruct (num_ok_inv _ Hn) as (_ & Hnw & Hnv).
  rewrite d_body_eq by assumption.
  unfold m_body_v, r_counts, r_cnt, body_in, count_in. rewrite <- !app_assoc.
  eapply spec2_eq; cycle 1.
  - eapply spec2_bind.
    { apply m_pos_spec'; [apply umax_le | now apply sep_ok_ws | lia | now apply delim_num]. }
    intros _ ln1. cbv beta iota.
    eapply spec2_bind.
    { apply m_pos_spec; [apply umax_le | assumption | assumption | now apply delim_nums]. }
    intros _ ln2. cbv beta iota.
    apply spec2_require. intros _.
    eapply spec2_bind.
    { apply atoms_spec; [apply fuel_nums; assumption | assumption | assumption]. }
    intros _ ln3. cbv beta iota. apply spec2_ret.
  - rewrite neg_check_body_eq. cbn [negb orb]. change sm_umax with UINT_MAX. rewrite andb_true_r, !andb_assoc. reflexivity.
Qed.

(* ---- sums ---- *)
Lemma m_sum_w_spec bnd b wts r ln :
  num_ok bnd = true -> body_ok b = true -> forallb num_ok wts = true -> length wts = length (b_atoms b) -> delim r ->
  spec2 (count_in (snd bnd) && body_in b && weight_in bnd && forallb atom_in (b_atoms b) && forallb weight_in wts)
        (m_sum true (amk (r_num bnd ++ r_counts b ++ r_nums (b_atoms b) ++ r_nums wts ++ r) ln))
        (snd bnd, combine (d_body b) (vals wts)) r.
Proof.
  intros Hbn Hb Hw Hlen Hr. destruct (body_ok_inv b Hb) as (Hl & Hn & Ha).
  destruct (num_ok_inv _ Hn) as (_ & Hnw & Hnv). destruct (num_ok_inv _ Hbn) as (_ & Hbw & Hbv).
  rewrite d_body_eq by assumption.
  unfold m_sum_v, r_counts, r_cnt, body_in, count_in. rewrite <- !app_assoc.
  eapply spec2_eq; cycle 1.
  - eapply spec2_bind.
    { apply m_pos_spec; [apply umax_le | assumption | assumption | now apply delim_sep]. }
    intros _ ln1. cbv beta iota.
    eapply spec2_bind.
    { apply m_pos_spec'; [apply umax_le | now apply sep_ok_ws | lia | now apply delim_num]. }
    intros _ ln2. cbv beta iota.
    eapply spec2_bind.
    { apply m_pos_spec; [apply umax_le | assumption | assumption | apply delim_nums; [assumption|apply delim_nums; assumption]]. }
    intros _ ln3. cbv beta iota.
    apply spec2_require. intros Hbl. apply spec2_require. intros _.
    eapply spec2_bind.
    { apply atoms_spec; [apply fuel_nums; assumption | assumption | now apply delim_nums]. }
    intros _ ln4. cbv beta iota.
    eapply spec2_bind.
    { rewrite <- Hlen. apply weights_spec; [apply fuel_nums; assumption | assumption | assumption]. }
    intros _ ln5. cbv beta iota.
    rewrite bound_max_eq in Hbl. rewrite wrap32s_id by lia. apply spec2_ret.
  - rewrite neg_check_sum_eq, bound_max_eq. cbn [negb orb]. change sm_umax with UINT_MAX. change (weight_in bnd) with (snd bnd <=? INT_MAX). btaut.
Qed.

Lemma m_sum_c_spec bnd b r ln :
  num_ok bnd = true -> body_ok b = true -> delim r ->
  spec2 (body_in b && count_in (snd bnd) && weight_in bnd && forallb atom_in (b_atoms b))
        (m_sum false (amk (r_counts b ++ r_num bnd ++ r_nums (b_atoms b) ++ r) ln))
        (snd bnd, map (fun l => (l, 1)) (d_body b)) r.
Proof.
  intros Hbn Hb Hr. destruct (body_ok_inv b Hb) as (Hl & Hn & Ha).
  destruct (num_ok_inv _ Hn) as (_ & Hnw & Hnv). destruct (num_ok_inv _ Hbn) as (_ & Hbw & Hbv).
  rewrite d_body_eq by assumption.
  unfold m_sum_v, r_counts, r_cnt, body_in, count_in. rewrite <- !app_assoc.
  eapply spec2_eq; cycle 1.
  - eapply spec2_bind.
    { apply m_pos_spec'; [apply umax_le | now apply sep_ok_ws | lia | now apply delim_num]. }
    intros _ ln1. cbv beta iota.
    eapply spec2_bind.
    { apply m_pos_spec; [apply umax_le | assumption | assumption | now apply delim_num]. }
    intros _ ln2. cbv beta iota.
    eapply spec2_bind.
    { apply m_pos_spec; [apply umax_le | assumption | assumption | now apply delim_nums]. }
    intros _ ln3. cbv beta iota.
    apply spec2_require. intros Hbl. apply spec2_require. intros _.
    eapply spec2_bind.
    { apply atoms_spec; [apply fuel_nums; assumption | assumption | assumption]. }
    intros _ ln4. cbv beta iota.
    rewrite bound_max_eq in Hbl. rewrite wrap32s_id by lia. apply spec2_ret.
  - rewrite neg_check_sum_eq, bound_max_eq. cbn [negb orb]. change sm_umax with UINT_MAX. change (weight_in bnd) with (snd bnd <=? INT_MAX). btaut.
Qed.

(* ---- one rule ---- *)
Lemma known_type_false t : known_type t = false ->
  (t =? Sm_Choice) = false /\ (t =? Sm_Disjunctive) = false /\ (t =? Sm_Basic) = false /\ (t =? Sm_Cardinality) = false /\
  (t =? Sm_Weight) = false /\ (t =? Sm_Optimize) = false /\ (t =? Sm_ClaspIncrement) = false /\
  (t =? Sm_ClaspAssignExt) = false /\ (t =? Sm_ClaspReleaseExt) = false.
Proof.
  unfold known_type. cbn [existsb]. intros H. repeat (apply orb_false_elim in H; destruct H as [? H]). repeat split; assumption.
Qed.

Lemma read_rule_v_spec (o : opts) rl prio r ln : rule_ok rl = true -> delim r ->
  spec2 (rule_in (claspExt o) rl) (read_rule o prio (rule_type rl) (amk (rule_fields rl ++ r) ln)) (d_rule prio rl) r.
Proof.
  intros Hok Hr. destruct rl as [tw h b|ch tw nw hs b|tw h b bnd|tw h bnd b wts|tw bnd b wts|tw z|tw a v|tw a|t];
    cbn [rule_ok rule_fields rule_in_v d_rule] in *.
  - (* basic *)
    bsplit. destruct (num_ok_inv h ltac:(assumption)) as (_ & Hw & Hv). destruct (body_ok_inv b ltac:(assumption)) as (Hl & Hn & Ha).
    unfold read_rule_v. rt_reduce. rewrite <- !app_assoc.
    eapply spec2_eq; cycle 1.
    + eapply spec2_bind. { apply m_atom_vspec; [assumption | assumption | unfold r_counts, r_cnt; rewrite <- !app_assoc; now apply delim_sep]. }
      intros _ ln1. cbv beta iota.
      eapply spec2_bind. { apply m_body_spec; assumption. }
      intros _ ln2. cbv beta iota. apply spec2_ret.
    + btaut.
  - (* choice / disjunctive *)
    bsplit. destruct (body_ok_inv b ltac:(assumption)) as (Hl & Hn & Ha).
    assert (E : read_rule o prio (rule_type (RMulti ch tw nw hs b)) = fun s =>
      '(n, s1) <- m_atom s ;; '(hs, s2) <- m_many m_atom (fuel_of s1) n s1 ;; '(b, s3) <- m_body s2 ;;
      Ok ([CRule (if ch then Head_t_Choice else Head_t_Disjunctive) hs b], prio, s3)).
    { destruct ch; reflexivity. }
    rewrite E. clear E. unfold r_cnt. rewrite <- !app_assoc.
    eapply spec2_eq; cycle 1.
    + eapply spec2_bind.
      { apply (m_atom_vspec' nw (Z.of_nat (length hs))); [now apply sep_ok_ws | lia |].
        apply delim_nums; [assumption|]. unfold r_counts, r_cnt. rewrite <- !app_assoc. now apply delim_sep. }
      intros _ ln1. cbv beta iota. cbn [snd].
      eapply spec2_bind. { apply atoms_spec; [apply fuel_nums; assumption | assumption |]. unfold r_counts, r_cnt. rewrite <- !app_assoc. now apply delim_sep. }
      intros _ ln2. cbv beta iota.
      eapply spec2_bind. { apply m_body_spec; assumption. }
      intros _ ln3. cbv beta iota. apply spec2_ret.
    + unfold ratom_in at 1. cbn [snd]. btaut.
  - (* cardinality *)
    bsplit. destruct (num_ok_inv h ltac:(assumption)) as (_ & Hw & Hv). destruct (body_ok_inv b ltac:(assumption)) as (Hl & Hn & Ha).
    unfold read_rule_v. rt_reduce. rewrite <- !app_assoc.
    eapply spec2_eq; cycle 1.
    + eapply spec2_bind. { apply m_atom_vspec; [assumption | assumption | unfold r_counts, r_cnt; rewrite <- !app_assoc; now apply delim_sep]. }
      intros _ ln1. cbv beta iota.
      eapply spec2_bind. { apply m_sum_c_spec; assumption. }
      intros _ ln2. cbv beta iota. apply spec2_ret.
    + btaut.
  - (* weight *)
    bsplit. destruct (num_ok_inv h ltac:(assumption)) as (_ & Hw & Hv).
    unfold read_rule_v. rt_reduce. rewrite <- !app_assoc.
    eapply spec2_eq; cycle 1.
    + eapply spec2_bind. { apply m_atom_vspec; [assumption | assumption | now apply delim_num]. }
      intros _ ln1. cbv beta iota.
      eapply spec2_bind. { apply m_sum_w_spec; try assumption. now apply Nat.eqb_eq. }
      intros _ ln2. cbv beta iota. apply spec2_ret.
    + btaut.
  - (* optimize *)
    bsplit. unfold read_rule_v. rt_reduce. rewrite <- !app_assoc.
    eapply spec2_eq; cycle 1.
    + eapply spec2_bind. { apply m_sum_w_spec; try assumption. now apply Nat.eqb_eq. }
      intros _ ln2. cbv beta iota. apply spec2_ret.
    + btaut.
  - (* 90 *)
    destruct (num_ok_inv z Hok) as (_ & Hw & Hv).
    unfold read_rule_v. rt_reduce. destruct (claspExt o); cbn [andb]; [|eexists; reflexivity].
    eapply spec2_eq; cycle 1.
    + eapply spec2_bind. { apply m_pos_spec; [apply umax_le | assumption | assumption | assumption]. }
      intros _ ln1. cbv beta iota. apply spec2_require. intros _. apply spec2_ret.
    + unfold count_in. change sm_umax with UINT_MAX. btaut.
  - (* 91 *)
    bsplit. destruct (num_ok_inv a ltac:(assumption)) as (_ & Hw & Hv). destruct (num_ok_inv v ltac:(assumption)) as (_ & Hw2 & Hv2).
    unfold read_rule_v. rt_reduce. rewrite <- !app_assoc. destruct (claspExt o); cbn [andb]; [|eexists; reflexivity].
    eapply spec2_bind. { apply m_atom_vspec; [assumption | assumption | now apply delim_num]. }
    intros _ ln1. cbv beta iota.
    rewrite <- (andb_true_r (snd v <=? 2)).
    eapply spec2_bind. { apply (m_pos_spec sm_extval_max); [unfold sm_extval_max, INT64_MAX; lia | assumption | assumption | assumption]. }
    intros Hle ln2. cbv beta iota.
    assert (Ev : Z.lxor (snd v) sm_extval_xor - sm_extval_sub =
                 (if snd v =? 0 then Value_t_False else if snd v =? 1 then Value_t_True else Value_t_Free)).
    { change sm_extval_max with 2 in Hle. assert (Hc : snd v = 0 \/ snd v = 1 \/ snd v = 2) by lia.
      destruct Hc as [-> | [-> | ->]]; reflexivity. }
    rewrite Ev. apply spec2_ret.
  - (* 92 *)
    destruct (num_ok_inv a Hok) as (_ & Hw & Hv).
    unfold read_rule_v. rt_reduce. destruct (claspExt o); cbn [andb]; [|eexists; reflexivity].
    rewrite <- (andb_true_r (atom_in a)).
    eapply spec2_bind. { apply m_atom_vspec; assumption. }
    intros _ ln1. cbv beta iota. apply spec2_ret.
  - (* unknown type *)
    bsplit. apply negb_true_iff in H0. destruct (known_type_false _ H0) as (E1 & E2 & E3 & E4 & E5 & E6 & E7 & E8 & E9).
    unfold read_rule_v. cbn [rule_type]. rewrite E1, E2, E3, E4, E5, E6, E7, E8, E9. cbn [orb]. eexists. reflexivity.
Qed.

(* ---- results that carry calls ---- *)
Definition cspec (b : bool) (m : cres ast) (cs : list call) (r : list Z) : Prop :=
  if b then exists ln, m = (cs, Ok (amk r ln)) else exists cs' ln, m = (cs', Err ln).

Lemma hd_nonws_digits v x : 0 <= v -> match print_nat v ++ x with [] => True | c :: _ => is_ws c = false end.
Proof. apply hd_ws_false_of_digits. Qed.

Lemma print_nat_len v : 0 <= v -> (1 <= length (print_nat v))%nat.
Proof. intros H. pose proof (print_nat_nonempty v H). destruct (print_nat v); [congruence | cbn; lia]. Qed.

Lemma rule_type_nonneg rl : rule_ok rl = true -> 1 <= rule_type rl.
Proof.
  destruct rl as [tw h b|ch tw nw hs b|tw h b bnd|tw h bnd b wts|tw bnd b wts|tw z|tw a v|tw a|t]; cbn [rule_type rule_ok]; intros H;
    try destruct ch; try (vm_compute; discriminate).
  bsplit. lia.
Qed.

Lemma delim_fields rl x : rule_ok rl = true -> delim x -> delim (rule_fields rl ++ x).
Proof.
  intros H Hx. destruct rl; cbn [rule_fields rule_ok] in *; bsplit; rewrite <- ?app_assoc;
    try (apply delim_num; assumption); try assumption.
  unfold r_cnt. rewrite <- app_assoc. now apply delim_sep.
Qed.

Lemma len_rules l : (length l <= length (flat_map r_rule l))%nat.
Proof.
  induction l as [|rl l IH]; [cbn; lia|]. cbn [flat_map length]. rewrite app_length. unfold r_rule at 1.
  rewrite !app_length.
Abort.

Lemma read_rules_v_spec (o : opts) : forall l lead fuel prio w r ln,
  (length l < fuel)%nat -> rules_ok lead l = true -> front_ok (lead || negb (isnil l)) w = true -> delim r ->
  cspec (forallb (rule_in (claspExt o)) l)
        (read_rules fuel o prio (amk (flat_map r_rule l ++ r_zero w ++ r) ln)) (d_rules prio l) r.
Proof.
  induction l as [|rl l IH]; intros lead fuel prio w r ln Hfu Hok Hw Hr.
  - destruct fuel as [|fu]; [cbn in Hfu; lia|]. cbn [flat_map app forallb d_rules read_rules_v]. unfold r_zero. rewrite <- app_assoc.
    assert (Hp : spec2 (0 <=? sm_rt_max) (m_pos sm_rt_max (amk (w ++ print_nat 0 ++ r) ln)) 0 r).
    { apply m_pos_spec'; [unfold sm_rt_max, INT64_MAX; lia | now apply front_ok_ws in Hw | lia | assumption]. }
    change (print_nat 0) with [48] in Hp. cbn [app] in Hp. cbn [app]. destruct Hp as [ln1 E]. rewrite E.
    change (0 =? 0) with true. cbv iota. exists ln1. reflexivity.
  - destruct fuel as [|fu]; [cbn in Hfu; lia|]. cbn [rules_ok] in Hok. bsplit.
    cbn [flat_map forallb d_rules read_rules_v]. unfold r_rule at 1. rewrite <- !app_assoc.
    assert (Hnext : delim (flat_map r_rule l ++ r_zero w ++ r)).
    { destruct l as [|r2 l2].
      - cbn [flat_map app]. unfold r_zero. rewrite <- app_assoc. apply delim_sep.
        cbn [isnil negb] in Hw. rewrite orb_true_r in Hw. exact Hw.
      - cbn [flat_map]. unfold r_rule at 1. rewrite <- !app_assoc. apply delim_sep.
        match goal with Hx : rules_ok true (r2 :: l2) = true |- _ => cbn [rules_ok front_ok] in Hx end. bsplit. assumption. }
    pose proof (rule_type_nonneg rl ltac:(assumption)) as Hty.
    assert (Hp : spec2 (rule_type rl <=? sm_rt_max)
               (m_pos sm_rt_max (amk (rule_tw rl ++ print_nat (rule_type rl) ++ rule_fields rl ++ flat_map r_rule l ++ r_zero w ++ r) ln))
               (rule_type rl) (rule_fields rl ++ flat_map r_rule l ++ r_zero w ++ r)).
    { apply m_pos_spec'; [unfold sm_rt_max, INT64_MAX; lia | eapply front_ok_ws; eassumption | lia | now apply delim_fields]. }
    destruct (rule_type rl <=? sm_rt_max) eqn:Ert.
    + destruct Hp as [ln1 E]. rewrite E. destruct (Z.eqb_spec (rule_type rl) 0) as [E0|_]; [lia|].
      pose proof (read_rule_v_spec o rl prio (flat_map r_rule l ++ r_zero w ++ r) ln1 ltac:(assumption) Hnext) as Hrule.
      destruct (rule_in (claspExt o) rl) eqn:Ein; cbn [andb].
      * destruct Hrule as [ln2 E2]. rewrite E2.
        specialize (IH true fu (snd (d_rule prio rl)) w r ln2 ltac:(cbn in Hfu; lia) ltac:(assumption)
                       ltac:(cbn [orb]; cbn [isnil negb orb] in Hw; rewrite orb_true_r in Hw; exact Hw) Hr).
        destruct (d_rule prio rl) as [cs prio']. cbn [fst snd] in *.
        destruct (forallb (rule_in (claspExt o)) l).
        -- destruct IH as [ln3 E3]. rewrite E3. exists ln3. reflexivity.
        -- destruct IH as (cs' & ln3 & E3). rewrite E3. eexists _, ln3. reflexivity.
      * destruct Hrule as [ln2 E2]. rewrite E2. eexists _, ln2. reflexivity.
    + (* a known or unknown type above the limit of matchPos cannot be in range *)
      destruct Hp as [ln1 E]. rewrite E.
      assert (rule_in (claspExt o) rl = false).
      { destruct rl; cbn [rule_type rule_in_v] in *; try destruct choice; try reflexivity; vm_compute in Ert; discriminate. }
      rewrite H2. cbn [andb]. eexists _, ln1. reflexivity.
Qed.

End MaxVar.

(* the instance without a limit (vm = sm_varMax = atomMax), in the vocabulary of Spec.in_range - by conversion *)
Lemma read_rule_spec (o : opts) rl prio r ln : rule_ok rl = true -> delim r ->
  spec2 (rule_in (claspExt o) rl) (read_rule o prio (rule_type rl) (amk (rule_fields rl ++ r) ln)) (d_rule prio rl) r.
Proof. exact (read_rule_v_spec sm_varMax atomMax_le_int64 o rl prio r ln). Qed.
Lemma read_rules_spec (o : opts) : forall l lead fuel prio w r ln,
  (length l < fuel)%nat -> rules_ok lead l = true -> front_ok (lead || negb (isnil l)) w = true -> delim r ->
  cspec (forallb (rule_in (claspExt o)) l)
        (read_rules fuel o prio (amk (flat_map r_rule l ++ r_zero w ++ r) ln)) (d_rules prio l) r.
Proof. exact (read_rules_v_spec sm_varMax atomMax_le_int64 o). Qed.

(* ---- line breaks that belong to the next token's whitespace ---- *)
Definition nonws_hd (x : list Z) : Prop := match x with [] => True | c :: _ => is_ws c = false end.

Lemma a_get_plain c r ln : c <> 13 -> exists ln', a_get (amk (c :: r) ln) = (c, amk r ln').
Proof.
  intros H. unfold a_get. cbn [rest aline]. destruct (Z.eqb_spec c 13); [contradiction|].
  destruct (Z.eqb_spec c 10) as [->|_]; eauto.
Qed.

Lemma nl_strip w x ln : nl_ok w = true -> nonws_hd x ->
  exists w' ln', ws_ok w' = true /\ a_get (amk (w ++ x) ln) = (10, amk (w' ++ x) ln').
Proof.
  unfold nl_ok. intros H Hx. bsplit. destruct w as [|c w0]; [discriminate|]. cbn in H. bsplit.
  match goal with Hx : is_nl c = true |- _ => unfold is_nl in Hx; apply orb_prop in Hx; destruct Hx as [E|E]; apply Z.eqb_eq in E; subst c end.
  - exists w0, (ln + 1). split; [assumption|]. reflexivity.
  - unfold a_get. cbn [rest aline app]. change (13 =? 13) with true. cbv iota. rewrite match10.
    destruct w0 as [|d w1].
    + cbn [app]. destruct x as [|e x]; cbn [hd tl].
      * exists [], (ln + 1). split; reflexivity.
      * destruct (Z.eqb_spec e 10) as [->|_]; [cbn in Hx; discriminate|]. exists [], (ln + 1). split; reflexivity.
    + cbn [app hd tl]. match goal with Hx : forallb is_ws (d :: w1) = true |- _ => rename Hx into Hdw end.
      destruct (Z.eqb_spec d 10) as [->|_].
      * exists w1, (ln + 1). split; [cbn in Hdw; bsplit; assumption | reflexivity].
      * exists (d :: w1), (ln + 1). split; [exact Hdw | reflexivity].
Qed.

Lemma read_name_spec : forall n fuel w x ln, (length n < fuel)%nat -> name_ok n = true -> nl_ok w = true -> nonws_hd x ->
  exists w' ln', ws_ok w' = true /\ read_name fuel (amk (n ++ w ++ x) ln) = Ok (n, amk (w' ++ x) ln').
Proof.
  induction n as [|c n IH]; intros fuel w x ln Hfu Hn Hw Hx; (destruct fuel as [|fu]; [cbn in Hfu; lia|]).
  - cbn [app read_name]. destruct (nl_strip w x ln Hw Hx) as (w' & ln' & Hw' & E). rewrite E.
    change (10 =? 10) with true. cbv iota. eauto.
  - cbn [name_ok forallb] in Hn. apply andb_prop in Hn. destruct Hn as [Hc Hn].
    apply negb_true_iff in Hc. apply orb_false_elim in Hc. destruct Hc as [Hc H13].
    apply orb_false_elim in Hc. destruct Hc as [Hc0 H10].
    cbn [app read_name]. destruct (a_get_plain c (n ++ w ++ x) ln ltac:(lia)) as [ln1 E]. rewrite E.
    rewrite H10, Hc0. destruct (IH fu w x ln1 ltac:(cbn in Hfu; lia) ltac:(assumption) Hw Hx) as (w' & ln' & Hw' & E2).
    rewrite E2. cbn [bind]. eauto.
Qed.

(* ---- symbol table ---- *)
Definition sfw (l : list lsym) (w : list Z) : list Z := match l with [] => w | y :: _ => fst (y_atom y) end.
Definition sbody (l : list lsym) (w : list Z) : list Z :=
  match l with
  | [] => [48]
  | y :: l' => print_nat (snd (y_atom y)) ++ y_sep y :: y_name y ++ flat_map r_sym l' ++ r_zero w
  end.
Fixpoint syms_in_ok (l : list lsym) (w : list Z) : bool :=
  match l with
  | [] => true
  | y :: l' => (1 <=? snd (y_atom y)) && negb ((y_sep y =? 0) || (y_sep y =? 13) || is_digit (y_sep y)) && name_ok (y_name y)
               && nl_ok (sfw l' w) && syms_in_ok l' w
  end.
Lemma syms_text l w : flat_map r_sym l ++ r_zero w = sfw l w ++ sbody l w.
Proof.
  destruct l as [|y l]; [reflexivity|]. cbn [flat_map sfw sbody]. unfold r_sym at 1, r_num. rewrite <- !app_assoc. reflexivity.
Qed.
Lemma syms_ok_in a l w : syms_ok a l = true -> end_ok (negb (isnil l)) w = true ->
  syms_in_ok l w = true /\ (if a then nl_ok (sfw l w) else sep_ok (sfw l w)) = true \/ (l = [] /\ syms_in_ok l w = true).
Proof.
  revert a. induction l as [|y l IH]; intros a H Hw; [right; split; reflexivity|].
  left. cbn [syms_ok] in H. bsplit. cbn [syms_in_ok sfw]. cbn [isnil negb] in Hw.
  assert (Hn : nl_ok (sfw l w) = true /\ syms_in_ok l w = true).
  { destruct l as [|y2 l2].
    - cbn [sfw syms_in_ok]. split; [exact Hw | reflexivity].
    - destruct (IH true ltac:(assumption) Hw) as [[Hi Hf]|[C _]]; [|discriminate]. split; assumption. }
  destruct Hn as [Hn1 Hn2]. rewrite H3, H2, H1, Hn1, Hn2. split; [reflexivity | assumption].
Qed.

Lemma read_symbols_spec : forall l fuel w0 w r ln, (length l < fuel)%nat ->
  ws_ok w0 = true -> syms_in_ok l w = true -> delim r ->
  cspec (forallb (fun y => atom_in (y_atom y)) l)
        (read_symbols fuel (amk (w0 ++ sbody l w ++ r) ln))
        (map (fun y => COutput (y_name y) [snd (y_atom y)]) l) r.
Proof.
  induction l as [|y l IH]; intros fuel w0 w r ln Hfu Hw0 Hin Hr; (destruct fuel as [|fu]; [cbn in Hfu; lia|]).
  - cbn [sbody forallb map read_symbols].
    assert (Hp : spec2 (0 <=? sm_sym_max) (m_pos sm_sym_max (amk (w0 ++ print_nat 0 ++ r) ln)) 0 r).
    { apply m_pos_spec'; [unfold sm_sym_max, INT64_MAX; lia | assumption | lia | assumption]. }
    change (print_nat 0) with [48] in Hp. destruct Hp as [ln1 E]. rewrite E.
    change (wrap32s 0 =? 0) with true. cbv iota. exists ln1. reflexivity.
  - cbn [syms_in_ok] in Hin. bsplit. cbn [sbody forallb map read_symbols]. rewrite <- !app_assoc.
    assert (Hv : 1 <= snd (y_atom y)) by lia.
    apply negb_true_iff in H3. apply orb_false_elim in H3. destruct H3 as [H3 Hsd].
    apply orb_false_elim in H3. destruct H3 as [Hs0 Hs13].
    assert (Hp : spec2 (snd (y_atom y) <=? sm_sym_max)
                   (m_pos sm_sym_max (amk (w0 ++ print_nat (snd (y_atom y)) ++ (y_sep y :: y_name y ++ flat_map r_sym l ++ r_zero w) ++ r) ln))
                   (snd (y_atom y)) ((y_sep y :: y_name y ++ flat_map r_sym l ++ r_zero w) ++ r)).
    { apply m_pos_spec'; [unfold sm_sym_max, INT64_MAX; lia | assumption | lia |]. cbn [app]. apply delim_cons. exact Hsd. }
    cbn [app] in Hp. cbn [app]. rewrite sym_max_eq in *. unfold atom_in at 1.
    assert (E1 : (1 <=? snd (y_atom y)) = true) by lia. rewrite E1. cbn [andb].
    destruct (snd (y_atom y) <=? atomMax) eqn:Emax; cbn [andb].
    + destruct Hp as [ln1 E]. rewrite E.
      rewrite wrap32s_id by (unfold INT_MAX; unfold atomMax in Emax; lia).
      destruct (Z.eqb_spec (snd (y_atom y)) 0); [lia|].
      rewrite <- !app_assoc.
      unfold m_get, a_peek. cbn [rest app]. replace (y_sep y =? 0) with false by lia.
      destruct (a_get_plain (y_sep y) (y_name y ++ flat_map r_sym l ++ r_zero w ++ r) ln1 ltac:(lia)) as [ln2 E2].
      rewrite E2. cbn [snd].
      rewrite (app_assoc (flat_map r_sym l)), syms_text, <- app_assoc.
      destruct (read_name_spec (y_name y) (fuel_of (amk (y_name y ++ sfw l w ++ sbody l w ++ r) ln2)) (sfw l w) (sbody l w ++ r) ln2)
        as (w' & ln3 & Hw' & E3); try assumption.
      { unfold fuel_of. cbn [rest]. rewrite app_length. lia. }
      { destruct l as [|y2 l2]; cbn [sbody app]; [reflexivity|]. cbn [syms_in_ok] in H0. bsplit.
        rewrite <- app_assoc. apply hd_nonws_digits. lia. }
      rewrite E3.
      specialize (IH fu w' w r ln3 ltac:(cbn in Hfu; lia) Hw' ltac:(assumption) Hr).
      destruct (forallb (fun y0 => atom_in (y_atom y0)) l).
      * destruct IH as [ln4 E4]. rewrite E4. exists ln4. reflexivity.
      * destruct IH as (cs' & ln4 & E4). rewrite E4. eexists _, ln4. reflexivity.
    + destruct Hp as [ln1 E]. rewrite E. eexists _, ln1. reflexivity.
Qed.

(* ---- zero-terminated atom lists (compute statement, external section) ---- *)
Definition nfw (l : list num) (w : list Z) : list Z := match l with [] => w | a :: _ => fst a end.
Definition nbody (l : list num) (w : list Z) : list Z :=
  match l with
  | [] => [48]
  | a :: l' => print_nat (snd a) ++ r_nums l' ++ r_zero w
  end.
Fixpoint nums_in_ok (l : list num) (w : list Z) : bool :=
  match l with
  | [] => true
  | a :: l' => (1 <=? snd a) && sep_ok (nfw l' w) && nums_in_ok l' w
  end.
Lemma nums_text l w : r_nums l ++ r_zero w = nfw l w ++ nbody l w.
Proof.
  destruct l as [|a l]; [reflexivity|]. unfold r_nums. cbn [flat_map nfw nbody]. unfold r_num at 1. rewrite <- !app_assoc. reflexivity.
Qed.
Lemma atoms_ok_in a l w : atoms_ok a l = true -> end_ok (a && isnil l) w = true ->
  nums_in_ok l w = true /\ (if a then nl_ok (nfw l w) else sep_ok (nfw l w)) = true.
Proof.
  revert a. induction l as [|x l IH]; intros a H Hw.
  - cbn [nums_in_ok nfw]. cbn [isnil] in Hw. rewrite andb_true_r in Hw. split; [reflexivity|]. destruct a; exact Hw.
  - cbn [atoms_ok] in H. apply andb_prop in H. destruct H as [H Hl]. apply andb_prop in H. destruct H as [Hfa Hva].
    cbn [nums_in_ok nfw]. cbn [isnil] in Hw. rewrite andb_false_r in Hw.
    destruct (IH false Hl Hw) as [Hi Hf]. cbn iota in Hf. rewrite Hva, Hi, Hf. split; [reflexivity | exact Hfa].
Qed.

Lemma nbody_nonws l w r : nums_in_ok l w = true -> nonws_hd (nbody l w ++ r).
Proof.
  destruct l as [|a l]; cbn [nbody app]; [reflexivity|]. cbn [nums_in_ok]. intros H. bsplit.
  rewrite <- app_assoc. apply hd_nonws_digits. lia.
Qed.

Lemma tlist_spec (rd : nat -> ast -> cres ast) (max : Z) (mk : Z -> call) :
  max = atomMax ->
  (forall fu s, rd (S fu) s =
     match m_pos max s with
     | Ok (v, s1) => if v =? 0 then ([], Ok s1) else let '(cs, r) := rd fu s1 in (mk v :: cs, r)
     | Err l => ([], Err l)
     | Fuel => ([], Fuel)
     end) ->
  forall l fuel w0 w r ln, (length l < fuel)%nat -> ws_ok w0 = true -> nums_in_ok l w = true -> delim r ->
  cspec (forallb atom_in l) (rd fuel (amk (w0 ++ nbody l w ++ r) ln)) (map (fun a => mk (snd a)) l) r.
Proof.
  intros -> Hrd. induction l as [|a l IH]; intros fuel w0 w r ln Hfu Hw0 Hin Hr; (destruct fuel as [|fu]; [cbn in Hfu; lia|]); rewrite Hrd.
  - cbn [nbody forallb map].
    assert (Hp : spec2 (0 <=? atomMax) (m_pos atomMax (amk (w0 ++ print_nat 0 ++ r) ln)) 0 r).
    { apply m_pos_spec'; [unfold atomMax, INT64_MAX; lia | assumption | lia | assumption]. }
    change (print_nat 0) with [48] in Hp. destruct Hp as [ln1 E]. rewrite E.
    change (0 =? 0) with true. cbv iota. exists ln1. reflexivity.
  - cbn [nums_in_ok] in Hin. bsplit. cbn [nbody forallb map]. rewrite <- !app_assoc.
    assert (Hp : spec2 (snd a <=? atomMax) (m_pos atomMax (amk (w0 ++ print_nat (snd a) ++ r_nums l ++ r_zero w ++ r) ln))
                   (snd a) (r_nums l ++ r_zero w ++ r)).
    { apply m_pos_spec'; [unfold atomMax, INT64_MAX; lia | assumption | lia |].
      rewrite app_assoc, nums_text, <- app_assoc. now apply delim_sep. }
    unfold atom_in at 1. assert (E1 : (1 <=? snd a) = true) by lia. rewrite E1. cbn [andb].
    destruct (snd a <=? atomMax) eqn:Emax; cbn [andb].
    + destruct Hp as [ln1 E]. rewrite E. destruct (Z.eqb_spec (snd a) 0); [lia|].
      rewrite (app_assoc (r_nums l)), nums_text, <- app_assoc.
      specialize (IH fu (nfw l w) w r ln1 ltac:(cbn in Hfu; lia) ltac:(now apply sep_ok_ws) ltac:(assumption) Hr).
      destruct (forallb atom_in l).
      * destruct IH as [ln2 E2]. rewrite E2. exists ln2. reflexivity.
      * destruct IH as (cs' & ln2 & E2). rewrite E2. eexists _, ln2. reflexivity.
    + destruct Hp as [ln1 E]. rewrite E. eexists _, ln1. reflexivity.
Qed.

Lemma comp_atoms_spec val l fuel w0 w r ln : (length l < fuel)%nat -> ws_ok w0 = true -> nums_in_ok l w = true -> delim r ->
  cspec (forallb atom_in l) (read_comp_atoms fuel val (amk (w0 ++ nbody l w ++ r) ln))
        (map (fun a => CRule Head_t_Disjunctive [] [if val then - snd a else snd a]) l) r.
Proof.
  apply (tlist_spec (fun fu s => read_comp_atoms fu val s) sm_comp_max (fun v => CRule Head_t_Disjunctive [] [if val then - v else v]) comp_max_eq).
  intros fu s. cbn [read_comp_atoms]. rewrite comp_max_eq.
  destruct (m_pos atomMax s) as [[v s1]| |] eqn:E; try reflexivity.
  assert (Hv : 0 <= v <= atomMax).
  { unfold m_pos in E. destruct (a_match_int false s) as [[x|] s']; [|discriminate].
    destruct ((0 <=? x) && (x <=? atomMax)) eqn:Eb; [|discriminate]. inversion E; subst. lia. }
  rewrite wrap32s_id by (unfold INT_MAX; unfold atomMax in Hv; lia). reflexivity.
Qed.

Lemma ext_atoms_spec l fuel w0 w r ln : (length l < fuel)%nat -> ws_ok w0 = true -> nums_in_ok l w = true -> delim r ->
  cspec (forallb atom_in l) (read_ext_atoms fuel (amk (w0 ++ nbody l w ++ r) ln))
        (map (fun a => CExternal (snd a) Value_t_Free) l) r.
Proof.
  apply (tlist_spec read_ext_atoms sm_ext_max (fun v => CExternal v Value_t_Free) ext_max_eq).
  intros fu s. reflexivity.
Qed.

Lemma len_nums_lt l w0 w r ln : nums_in_ok l w = true -> (length l < fuel_of (amk (w0 ++ nbody l w ++ r) ln))%nat.
Proof.
  intros H. unfold fuel_of. cbn [rest]. rewrite !app_length.
  assert (length l <= length (nbody l w))%nat; [|lia].
  revert H. clear. revert w. induction l as [|a l IH]; intros w H; [cbn; lia|].
  cbn [nums_in_ok] in H. bsplit. cbn [nbody length]. rewrite !app_length.
  pose proof (print_nat_len (snd a) ltac:(lia)). specialize (IH w ltac:(assumption)).
  assert (length (nbody l w) <= length (r_nums l ++ r_zero w))%nat.
  { rewrite nums_text, app_length. lia. }
  rewrite app_length in H3. lia.
Qed.

(* ---- keyword sections ---- *)
Lemma skip_kw w k x ln : ws_ok w = true -> (match k with c :: _ => is_ws c = false | [] => False end) ->
  exists ln', a_match_tok k (a_skipws (amk (w ++ k ++ x) ln)) = (true, amk x ln').
Proof.
  intros Hw Hk. unfold a_skipws. cbn [rest aline].
  destruct (skipws_app (length w) w (k ++ x) ln (le_n _) Hw) as [ln' E].
  { destruct k; [contradiction|]. exact Hk. }
  rewrite E. exists ln'. unfold a_match_tok. cbn [rest aline].
  rewrite firstn_app, Nat.sub_diag, firstn_all. cbn [firstn]. rewrite app_nil_r.
  assert (Hl : list_eqb k k = true) by (apply list_eqb_eq; reflexivity). rewrite Hl.
  rewrite skipn_app, Nat.sub_diag, skipn_all. reflexivity.
Qed.

Lemma read_compute_spec key val w l wend r ln :
  (match key with c :: _ => is_ws c = false | [] => False end) ->
  ws_ok w = true -> atoms_ok true l = true -> end_ok (isnil l) wend = true -> delim r ->
  cspec (forallb atom_in l) (read_compute key val (amk (w ++ key ++ r_nums l ++ r_zero wend ++ r) ln))
        (map (fun a => CRule Head_t_Disjunctive [] [if val then - snd a else snd a]) l) r.
Proof.
  intros Hk Hw Hl He Hr. unfold read_compute.
  destruct (skip_kw w key (r_nums l ++ r_zero wend ++ r) ln Hw Hk) as [ln1 E]. rewrite E.
  destruct (atoms_ok_in true l wend Hl ltac:(exact He)) as [Hin Hf]. cbn iota in Hf.
  rewrite app_assoc, nums_text, <- app_assoc.
  destruct (nl_strip (nfw l wend) (nbody l wend ++ r) ln1 Hf (nbody_nonws l wend r Hin)) as (w' & ln2 & Hw' & E2).
  rewrite E2. change (10 =? 10) with true. cbv iota.
  apply comp_atoms_spec; try assumption. now apply len_nums_lt.
Qed.

(* ---- external section and number of models ---- *)
Lemma cspec_bind (b1 b2 : bool) (m : cres ast) (f : ast -> cres ast) cs1 r1 cs2 r2 :
  cspec b1 m cs1 r1 -> (b1 = true -> forall ln, cspec b2 (f (amk r1 ln)) cs2 r2) -> cspec (b1 && b2) (cbind m f) (cs1 ++ cs2) r2.
Proof.
  destruct b1; cbn [andb]; intros H1 H2.
  - destruct H1 as [ln E]. rewrite E. cbn [cbind]. specialize (H2 eq_refl ln). destruct b2.
    + destruct H2 as [ln2 E2]. rewrite E2. exists ln2. reflexivity.
    + destruct H2 as (cs' & ln2 & E2). rewrite E2. eexists _, ln2. reflexivity.
  - destruct H1 as (cs' & ln & E). rewrite E. cbn [cbind]. eexists _, ln. reflexivity.
Qed.

Lemma cspec_eq b b' m cs cs' r : b = b' -> cs = cs' -> cspec b m cs r -> cspec b' m cs' r.
Proof. intros -> ->. exact id. Qed.

Lemma cspec_ret cs r ln : cspec true (cs, Ok (amk r ln)) cs r.
Proof. exists ln. reflexivity. Qed.

Lemma models_spec n r ln : ws_ok (fst n) = true -> 0 <= snd n -> delim r ->
  cspec (count_in (snd n))
    (match m_pos sm_models_max (amk (r_num n ++ r) ln) with Ok (_, s3) => ([], Ok s3) | Err l => ([], Err l) | Fuel => ([], Fuel) end) [] r.
Proof.
  intros Hw Hv Hr. pose proof (m_pos_spec sm_models_max n r ln ltac:(unfold sm_models_max, INT64_MAX; lia) Hw Hv Hr) as Hp.
  unfold count_in. change sm_models_max with UINT_MAX in *. destruct (snd n <=? UINT_MAX).
  - destruct Hp as [ln1 E]. rewrite E. exists ln1. reflexivity.
  - destruct Hp as [ln1 E]. rewrite E. eexists _, ln1. reflexivity.
Qed.

Lemma read_extra_spec e n r ln : ext_ok e = true -> num_ok n = true -> delim r ->
  cspec (ext_in e && count_in (snd n)) (read_extra (amk (r_ext e ++ r_num n ++ r) ln)) (d_ext e) r.
Proof.
  intros He Hn Hr. destruct (num_ok_inv n Hn) as (Hs & Hw & Hv). unfold read_extra.
  destruct e as [[[w l] z]|]; cbn [r_ext ext_ok ext_in d_ext] in *.
  - bsplit. rewrite <- !app_assoc.
    destruct (skip_kw w sm_kw_ext (r_nums l ++ r_zero z ++ r_num n ++ r) ln ltac:(assumption) ltac:(reflexivity)) as [ln1 E].
    rewrite E. destruct (atoms_ok_in false l z ltac:(assumption) ltac:(cbn [andb]; assumption)) as [Hin Hf]. cbn iota in Hf.
    rewrite <- (app_nil_r (map _ l)).
    eapply cspec_bind.
    + rewrite app_assoc, nums_text, <- app_assoc. apply ext_atoms_spec; [now apply len_nums_lt | now apply sep_ok_ws | assumption | now apply delim_num].
    + intros _ ln2. now apply models_spec.
  - cbn [app andb]. unfold a_skipws. cbn [rest aline]. unfold r_num. rewrite <- app_assoc.
    destruct (skipws_app (length (fst n)) (fst n) (print_nat (snd n) ++ r) ln (le_n _) Hw (hd_nonws_digits _ _ Hv)) as [ln1 E].
    rewrite E. unfold a_match_tok. cbn [rest aline].
    pose proof (print_nat_hd_digit (snd n) Hv) as Hd. pose proof (print_nat_nonempty (snd n) Hv) as Hne.
    destruct (print_nat (snd n)) as [|d ds] eqn:Ep; [congruence|]. cbn [hd] in Hd.
    change (length sm_kw_ext) with 1%nat. cbn [app firstn list_eqb sm_kw_ext].
    assert (Hd69 : (d =? 69) = false) by (unfold is_digit in Hd; lia). rewrite Hd69. cbn [andb cbind].
    pose proof (models_spec ([], snd n) r ln1 eq_refl Hv Hr) as Hm. unfold r_num in Hm. cbn [fst snd app] in Hm. rewrite Ep in Hm. cbn [app] in Hm.
    destruct (count_in (snd n)).
    + destruct Hm as [ln2 E2]. destruct (m_pos sm_models_max _) as [[v s3]| |]; inversion E2; subst. exists ln2. reflexivity.
    + destruct Hm as (cs' & ln2 & E2). destruct (m_pos sm_models_max _) as [[v s3]| |]; inversion E2; subst. eexists _, ln2. reflexivity.
Qed.

(* ---- one step ---- *)
Lemma delim_kw w k x : ws_ok w = true -> is_digit k = false -> delim (w ++ k :: x).
Proof.
  intros Hw Hk. destruct w as [|c w]; [exact Hk|]. cbn in Hw. bsplit. cbn. now apply ws_not_digit.
Qed.

Lemma len_flat {A} (f : A -> list Z) l : (forall a, In a l -> (1 <= length (f a))%nat) -> (length l <= length (flat_map f l))%nat.
Proof.
  induction l as [|a l IH]; intros H; [cbn; lia|]. cbn [flat_map length]. rewrite app_length.
  specialize (H a (or_introl eq_refl)) as Ha. specialize (IH (fun b Hb => H b (or_intror Hb))). lia.
Qed.

Lemma rules_ok_all lead l : rules_ok lead l = true -> forall rl, In rl l -> rule_ok rl = true.
Proof.
  revert lead. induction l as [|a l IH]; intros lead H rl Hin; [destruct Hin|]. cbn [rules_ok] in H. bsplit.
  destruct Hin as [->|Hin]; [assumption | eapply IH; eassumption].
Qed.

Lemma syms_front l w : syms_ok false l = true -> end_ok (negb (isnil l)) w = true ->
  syms_in_ok l w = true /\ sep_ok (sfw l w) = true.
Proof.
  intros H Hw. destruct l as [|y l].
  - cbn in *. split; [reflexivity | assumption].
  - destruct (syms_ok_in false (y :: l) w H Hw) as [[Hi Hf]|[C _]]; [|discriminate]. split; assumption.
Qed.

Lemma step_v_spec vm (Hvm : vm <= INT64_MAX) (o : opts) lead s r ln : step_ok lead s = true -> delim r ->
  cspec (step_in_v vm (claspExt o) s) (do_parse_v vm o (amk (r_step s ++ r) ln)) (d_step s) r.
Proof.
  unfold step_ok. intros H Hr. bsplit. unfold do_parse_v, r_step, step_in_v, d_step. rewrite <- !app_assoc.
  destruct (syms_front _ _ ltac:(eassumption) ltac:(eassumption)) as [Hsin Hsf].
  assert (HB : forall k x, is_digit (hd 0 (k ++ x)) = false -> forall w, ws_ok w = true -> delim (w ++ k ++ x)).
  { intros k x Hk w Hw. destruct (k ++ x) as [|c y]; [rewrite app_nil_r; destruct w as [|c w]; [exact I|cbn in Hw; bsplit; cbn; now apply ws_not_digit]|]. now apply delim_kw. }
  assert (Hd4 : delim (r_ext (s_ext s) ++ r_num (s_models s) ++ r)).
  { destruct (s_ext s) as [[[w l] z]|]; cbn [r_ext ext_ok] in *.
    - bsplit. rewrite <- !app_assoc. apply HB; [reflexivity | assumption].
    - cbn [app]. now apply delim_num. }
  set (R3 := s_bmw s ++ sm_kw_bminus ++ r_nums (s_bminus s) ++ r_zero (s_bmend s) ++ r_ext (s_ext s) ++ r_num (s_models s) ++ r) in *.
  set (R2 := s_bpw s ++ sm_kw_bplus ++ r_nums (s_bplus s) ++ r_zero (s_bpend s) ++ R3) in *.
  assert (Hd3 : delim R3) by (apply HB; [reflexivity | assumption]).
  assert (Hd2 : delim R2) by (apply HB; [reflexivity | assumption]).
  eapply cspec_eq; cycle 2.
  - eapply cspec_bind. { apply cspec_ret. }
    intros _ ln0.
    eapply cspec_bind.
    { apply (read_rules_v_spec vm Hvm o (s_rules s) lead _ 0 (s_rend s) (flat_map r_sym (s_syms s) ++ r_zero (s_send s) ++ R2) ln0).
      - unfold fuel_of. cbn [rest]. rewrite app_length.
        pose proof (len_flat r_rule (s_rules s)) as Hl.
        assert (length (s_rules s) <= length (flat_map r_rule (s_rules s)))%nat; [|lia].
        apply Hl. intros a Ha. unfold r_rule. rewrite !app_length.
        pose proof (print_nat_len (rule_type a) ltac:(pose proof (rule_type_nonneg a (rules_ok_all _ _ ltac:(eassumption) a Ha)); lia)). lia.
      - assumption.
      - assumption.
      - rewrite app_assoc, syms_text, <- app_assoc. now apply delim_sep. }
    intros _ ln1.
    eapply cspec_bind.
    { rewrite app_assoc, syms_text, <- app_assoc. apply read_symbols_spec; try assumption; [|now apply sep_ok_ws].
      unfold fuel_of. cbn [rest]. rewrite !app_length.
      assert (length (s_syms s) <= length (sfw (s_syms s) (s_send s)) + length (sbody (s_syms s) (s_send s)))%nat; [|lia].
      rewrite <- app_length, <- syms_text, app_length.
      pose proof (len_flat r_sym (s_syms s)) as Hl.
      assert (length (s_syms s) <= length (flat_map r_sym (s_syms s)))%nat; [|lia].
      apply Hl. intros a _. unfold r_sym. rewrite app_length. cbn [length]. lia. }
    intros _ ln2.
    eapply cspec_bind.
    { unfold R2. apply read_compute_spec; try assumption. reflexivity. }
    intros _ ln3.
    eapply cspec_bind.
    { unfold R3. apply read_compute_spec; try assumption. reflexivity. }
    intros _ ln4.
    eapply cspec_bind.
    { apply read_extra_spec; assumption. }
    intros _ ln5. apply cspec_ret.
  - cbn [andb]. btaut.
  - reflexivity.
Qed.

Lemma step_spec (o : opts) lead s r ln : step_ok lead s = true -> delim r ->
  cspec (step_in (claspExt o) s) (do_parse o (amk (r_step s ++ r) ln)) (d_step s) r.
Proof. exact (step_v_spec sm_varMax atomMax_le_int64 o lead s r ln). Qed.
