(* C07 - the general description (SpecG.v): COMPLETENESS.  Every text that SpecG describes (glayout_ok) with magnitudes in
   range (gin_range) is accepted by the reader model, which delivers exactly the denoted calls (gdenote).            *)
Require Import V.Lib.Base V.Lib.Calls V.Lib.Dec V.C09.Spec V.Gen.Consts V.Gen.Consts_C07.
Require Import V.C07.Model V.C07.Spec V.C07.SpecG V.C07.ProofsLex V.C07.ProofsStream V.C07.ProofsGram V.C07.ProofsGLex.
Require Import ZifyBool. Local Open Scope Z_scope. Ltac Zify.zify_post_hook ::= Z.div_mod_to_equations.

(* ---------------- token lists ---------------- *)
Lemma gnums_ok_cons n l k : gnums_ok (n :: l) k = gnum_ok n (r_gnums l ++ k) && gnums_ok l k.
Proof. reflexivity. Qed.
Lemma gnums_ok_app l1 l2 k : gnums_ok (l1 ++ l2) k = gnums_ok l1 (r_gnums l2 ++ k) && gnums_ok l2 k.
Proof. apply seq_ok_app. Qed.
Lemma r_gnums_cons n l : r_gnums (n :: l) = r_gnum n ++ r_gnums l.
Proof. reflexivity. Qed.
Lemma r_gnums_app l1 l2 : r_gnums (l1 ++ l2) = r_gnums l1 ++ r_gnums l2.
Proof. apply flat_map_app. Qed.
Lemma r_gnums_nil : r_gnums [] = [].
Proof. reflexivity. Qed.

Lemma gnum_ok_nonneg n k : gnum_ok n k = true -> 0 <= nval n.
Proof. unfold gnum_ok. intros H. bsplit. now apply nval_nonneg. Qed.

Lemma fuel_tok l k ln : gnums_ok l k = true -> (length l <= fuel_of (amk (r_gnums l ++ k) ln))%nat.
Proof. intros H. unfold fuel_of. cbn [rest]. rewrite app_length. pose proof (r_gnums_len l k H). lia. Qed.

Ltac norm_toks := rewrite ?r_gnums_cons, ?r_gnums_app, ?r_gnums_nil, ?app_nil_r, ?app_nil_l, <- ?app_assoc in *.
(* range facts as propositions (unfolding the boolean range predicates inside hypotheses makes Qed very slow) *)
Lemma gweight_le n : gweight_in n = true -> nval n <= 2147483647.
Proof. intros H. apply Z.leb_le in H. exact H. Qed.
Lemma gcount_le n : gcount_in n = true -> nval n <= 4294967295.
Proof. intros H. apply Z.leb_le in H. exact H. Qed.
Lemma gatom_le n : gatom_in n = true -> 1 <= nval n <= 2147483647.
Proof. intros H. apply andb_prop in H. destruct H as [H1 H2]. apply Z.leb_le in H1, H2. split; [exact H1 | exact H2]. Qed.
Lemma gratom_le vm n : gratom_in vm n = true -> 1 <= nval n <= vm.
Proof. intros H. apply andb_prop in H. destruct H as [H1 H2]. apply Z.leb_le in H1, H2. split; [exact H1 | exact H2]. Qed.
Ltac rng := repeat match goal with
  | H : gratom_in ?v ?n = true |- _ => apply gratom_le in H
  | H : gweight_in ?n = true |- _ => apply gweight_le in H
  | H : gcount_in ?n = true |- _ => apply gcount_le in H
  | H : gatom_in ?n = true |- _ => apply gatom_le in H end;
  unfold UINT_MAX, INT_MAX, atomMax, sm_umax, sm_weight_max, sm_bound_max,
  sm_rt_max, sm_extval_max, sm_sym_max, sm_comp_max, sm_ext_max, sm_models_max, INT64_MAX; lia.

(* ---------------- counted loops ---------------- *)
Lemma many_fwd (f : ast -> out (Z * ast)) (rng : gnum -> bool) (g : Z -> Z) :
  (forall n k ln, gnum_ok n k = true -> rng n = true -> yields (f (amk (r_gnum n ++ k) ln)) (g (nval n)) k) ->
  forall l fuel k ln, (length l <= fuel)%nat -> gnums_ok l k = true -> forallb rng l = true ->
  yields (m_many f fuel (Z.of_nat (length l)) (amk (r_gnums l ++ k) ln)) (map g (gvals l)) k.
Proof.
  intros Hf. induction l as [|a l IH]; intros fuel k ln Hfu Hok Hr.
  - cbn [length r_gnums flat_map app gvals map]. destruct fuel; cbn [m_many]; change (Z.of_nat 0 =? 0) with true; cbv iota; apply yields_ret.
  - destruct fuel as [|fu]; [cbn in Hfu; lia|]. rewrite gnums_ok_cons in Hok. cbn [forallb] in Hr. bsplit.
    cbn [length gvals map]. cbn [m_many]. destruct (Z.eqb_spec (Z.of_nat (S (length l))) 0) as [E|_]; [lia|].
    rewrite r_gnums_cons, <- app_assoc.
    eapply yields_bind; [apply Hf; assumption|]. intros ln1. cbv beta iota.
    replace (Z.of_nat (S (length l)) - 1) with (Z.of_nat (length l)) by lia.
    eapply yields_bind; [apply IH; [cbn in Hfu; lia | assumption | assumption]|].
    intros ln2. cbv beta iota. apply yields_ret.
Qed.

(* ================= generic in the reader's atom limit vm (ProgramReader::setMaxVar) ================= *)
Section MaxVar.
Variable vm : Z.
Hypothesis Hvm : vm <= INT64_MAX.
Local Notation m_atom := (m_atom_v vm).
Local Notation m_body := (m_body_v vm).
Local Notation m_sum := (m_sum_v vm).
Local Notation read_rule := (read_rule_v vm).
Local Notation read_rules := (read_rules_v vm).
Local Notation gbody_in := (gbody_in_v vm).
Local Notation grule_in := (grule_in_v vm).
Local Notation m_atom_fwd := (fun n k ln => V.C07.ProofsGLex.m_atom_fwd vm n k ln Hvm).

Lemma atoms_fwd l fuel k ln : (length l <= fuel)%nat -> gnums_ok l k = true -> forallb (gratom_in vm) l = true ->
  yields (m_many m_atom fuel (Z.of_nat (length l)) (amk (r_gnums l ++ k) ln)) (gvals l) k.
Proof.
  intros. rewrite <- (map_id (gvals l)). apply (many_fwd m_atom (gratom_in vm) (fun x => x)); try assumption.
  intros n0 k0 ln0 Hx Hy. apply m_atom_fwd; assumption.
Qed.

Lemma m_weight_fwd n k ln : gnum_ok n k = true -> gweight_in n = true ->
  yields (m_weight (amk (r_gnum n ++ k) ln)) (nval n) k.
Proof.
  intros Hok Hin. pose proof (gnum_ok_nonneg n k Hok) as H0. unfold m_weight.
  eapply yields_bind.
  - apply m_pos_fwd; [rng | assumption | rng].
  - intros ln1. cbv beta iota. rewrite wrap32s_id by (rng). apply yields_ret.
Qed.

Lemma weights_fwd l fuel k ln : (length l <= fuel)%nat -> gnums_ok l k = true -> forallb gweight_in l = true ->
  yields (m_many m_weight fuel (Z.of_nat (length l)) (amk (r_gnums l ++ k) ln)) (gvals l) k.
Proof.
  intros. rewrite <- (map_id (gvals l)). apply (many_fwd m_weight gweight_in (fun x => x)); try assumption.
  intros n0 k0 ln0 Hx Hy. apply m_weight_fwd; assumption.
Qed.

(* ---------------- bodies ---------------- *)
Lemma d_gbody_eq b : 0 <= nval (gb_neg b) -> d_gbody b = apply_neg (nval (gb_neg b)) (gvals (gb_atoms b)).
Proof. intros H. unfold d_gbody. now rewrite apply_neg_spec. Qed.

Lemma m_body_fwd b k ln : gbody_shape b = true -> gbody_in b = true ->
  gnums_ok (gb_len b :: gb_neg b :: gb_atoms b) k = true ->
  yields (m_body (amk (r_gnums (gb_len b :: gb_neg b :: gb_atoms b) ++ k) ln)) (d_gbody b) k.
Proof.
  unfold gbody_shape, len_is, gbody_in_v. intros Hs Hin Hok. rewrite !gnums_ok_cons in Hok. bsplit. norm_toks.
  apply Z.eqb_eq in Hs.
  assert (Hn0 : 0 <= nval (gb_neg b)) by (eapply gnum_ok_nonneg; eassumption).
  rewrite d_gbody_eq by assumption. unfold m_body_v.
  eapply yields_bind. { apply m_pos_fwd; [apply umax_le | assumption | rng]. }
  intros ln1. cbv beta iota.
  eapply yields_bind. { apply m_pos_fwd; [apply umax_le | assumption | rng]. }
  intros ln2. cbv beta iota.
  rewrite neg_check_body_eq. cbn [negb orb].
  replace (nval (gb_neg b) <=? nval (gb_len b)) with true by lia. cbn [m_require bind].
  rewrite Hs.
  eapply yields_bind. { apply atoms_fwd; [apply fuel_tok; assumption | assumption | assumption]. }
  intros ln3. cbv beta iota. apply yields_ret.
Qed.

(* ---------------- sums ---------------- *)
Lemma m_sum_c_fwd b bnd k ln : gbody_shape b = true -> gbody_in b = true -> gweight_in bnd = true ->
  gnums_ok (gb_len b :: gb_neg b :: bnd :: gb_atoms b) k = true ->
  yields (m_sum false (amk (r_gnums (gb_len b :: gb_neg b :: bnd :: gb_atoms b) ++ k) ln))
         (nval bnd, map (fun l => (l, 1)) (d_gbody b)) k.
Proof.
  unfold gbody_shape, len_is, gbody_in_v. intros Hs Hin Hw Hok. rewrite !gnums_ok_cons in Hok. bsplit. norm_toks.
  apply Z.eqb_eq in Hs.
  assert (Hn0 : 0 <= nval (gb_neg b)) by (eapply gnum_ok_nonneg; eassumption).
  assert (Hb0 : 0 <= nval bnd) by (eapply gnum_ok_nonneg; eassumption).
  rewrite d_gbody_eq by assumption. unfold m_sum_v.
  eapply yields_bind. { apply m_pos_fwd; [apply umax_le | assumption | rng]. }
  intros ln1. cbv beta iota.
  eapply yields_bind. { apply m_pos_fwd; [apply umax_le | assumption | rng]. }
  intros ln2. cbv beta iota.
  eapply yields_bind. { apply m_pos_fwd; [apply umax_le | assumption | rng]. }
  intros ln3. cbv beta iota.
  rewrite neg_check_sum_eq. cbn [negb orb].
  assert (Hbm : (nval bnd <=? sm_bound_max) = true) by (apply Z.leb_le; rng). rewrite Hbm.
  replace (nval (gb_neg b) <=? nval (gb_len b)) with true by lia. cbn [m_require bind].
  rewrite Hs.
  eapply yields_bind. { apply atoms_fwd; [apply fuel_tok; assumption | assumption | assumption]. }
  intros ln4. cbv beta iota zeta. rewrite wrap32s_id by rng. apply yields_ret.
Qed.

Lemma m_sum_w_fwd b bnd wts k ln : gbody_shape b = true -> len_is (gb_len b) wts = true -> gbody_in b = true ->
  gweight_in bnd = true -> forallb gweight_in wts = true ->
  gnums_ok (bnd :: gb_len b :: gb_neg b :: gb_atoms b ++ wts) k = true ->
  yields (m_sum true (amk (r_gnums (bnd :: gb_len b :: gb_neg b :: gb_atoms b ++ wts) ++ k) ln))
         (nval bnd, combine (d_gbody b) (gvals wts)) k.
Proof.
  unfold gbody_shape, len_is, gbody_in_v. intros Hs Hlw Hin Hw Hws Hok. rewrite !gnums_ok_cons, gnums_ok_app in Hok. bsplit. norm_toks.
  apply Z.eqb_eq in Hs. apply Z.eqb_eq in Hlw.
  assert (Hn0 : 0 <= nval (gb_neg b)) by (eapply gnum_ok_nonneg; eassumption).
  assert (Hb0 : 0 <= nval bnd) by (eapply gnum_ok_nonneg; eassumption).
  rewrite d_gbody_eq by assumption. unfold m_sum_v.
  eapply yields_bind. { apply m_pos_fwd; [apply umax_le | assumption | rng]. }
  intros ln1. cbv beta iota.
  eapply yields_bind. { apply m_pos_fwd; [apply umax_le | assumption | rng]. }
  intros ln2. cbv beta iota.
  eapply yields_bind. { apply m_pos_fwd; [apply umax_le | assumption | rng]. }
  intros ln3. cbv beta iota.
  rewrite neg_check_sum_eq. cbn [negb orb].
  assert (Hbm : (nval bnd <=? sm_bound_max) = true) by (apply Z.leb_le; rng). rewrite Hbm.
  replace (nval (gb_neg b) <=? nval (gb_len b)) with true by lia. cbn [m_require bind].
  rewrite Hs.
  eapply yields_bind. { apply atoms_fwd; [apply fuel_tok; assumption | assumption | assumption]. }
  intros ln4. cbv beta iota zeta.
  rewrite <- Hs, Hlw.
  eapply yields_bind. { apply weights_fwd; [apply fuel_tok; assumption | assumption | assumption]. }
  intros ln5. cbv beta iota. rewrite wrap32s_id by rng. apply yields_ret.
Qed.

(* ---------------- one rule ---------------- *)
Lemma rule_toks_cons r : exists t l, rule_toks r = t :: l.
Proof. destruct r; cbn [rule_toks]; eauto. Qed.

Lemma rule_type_val r t l : grule_shape r = true -> rule_toks r = t :: l -> 1 <= nval t <= 92.
Proof.
  intros Hs Et. destruct r; cbn [rule_toks grule_shape] in *; injection Et as <- <-; bsplit;
    unfold Sm_Basic, Sm_Choice, Sm_Disjunctive, Sm_Cardinality, Sm_Weight, Sm_Optimize,
           Sm_ClaspIncrement, Sm_ClaspAssignExt, Sm_ClaspReleaseExt in *; lia.
Qed.

Ltac type_eq t0 :=
  match goal with H : (nval t0 =? _) = true |- _ => apply Z.eqb_eq in H; rewrite H; clear H end.

Lemma read_rule_fwd (o : opts) prio r t l k ln : grule_shape r = true -> grule_in (claspExt o) r = true ->
  rule_toks r = t :: l -> gnums_ok l k = true ->
  yields (read_rule o prio (nval t) (amk (r_gnums l ++ k) ln)) (d_grule prio r) k.
Proof.
  intros Hs Hin Et Hok.
  destruct r as [t0 h b|t0 n hs b|t0 h b bnd|t0 h bnd b wts|t0 bnd b wts|t0 z|t0 a v|t0 a];
    cbn [rule_toks grule_shape grule_in_v d_grule] in *; injection Et as <- <-.
  - (* basic *)
    bsplit. type_eq t0. unfold read_rule_v. rt_reduce.
    rewrite gnums_ok_cons in Hok. bsplit. rewrite r_gnums_cons, <- app_assoc.
    eapply yields_bind. { apply m_atom_fwd; assumption. }
    intros ln1. cbv beta iota.
    eapply yields_bind. { apply m_body_fwd; assumption. }
    intros ln2. cbv beta iota. apply yields_ret.
  - (* choice / disjunctive *)
    bsplit. unfold len_is in *.
    match goal with H : (nval n =? _) = true |- _ => apply Z.eqb_eq in H; rename H into Hn end.
    rewrite gnums_ok_cons, gnums_ok_app in Hok. bsplit. rewrite r_gnums_cons. rewrite ?r_gnums_app, <- ?app_assoc in *.
    assert (E : read_rule o prio (nval t0) = fun s =>
      '(n, s1) <- m_atom s ;; '(hs, s2) <- m_many m_atom (fuel_of s1) n s1 ;; '(b, s3) <- m_body s2 ;;
      Ok ([CRule (if nval t0 =? Sm_Choice then Head_t_Choice else Head_t_Disjunctive) hs b], prio, s3)).
    { match goal with H : (_ || _) = true |- _ => apply orb_prop in H; destruct H as [H|H]; apply Z.eqb_eq in H; rewrite H end; reflexivity. }
    rewrite E. clear E.
    eapply yields_bind. { apply m_atom_fwd; assumption. }
    intros ln1. cbv beta iota. rewrite Hn.
    eapply yields_bind. { apply atoms_fwd; [apply fuel_tok; assumption | assumption | assumption]. }
    intros ln2. cbv beta iota.
    eapply yields_bind. { apply m_body_fwd; assumption. }
    intros ln3. cbv beta iota. apply yields_ret.
  - (* cardinality *)
    bsplit. type_eq t0. unfold read_rule_v. rt_reduce.
    rewrite gnums_ok_cons in Hok. bsplit. rewrite r_gnums_cons, <- app_assoc.
    eapply yields_bind. { apply m_atom_fwd; assumption. }
    intros ln1. cbv beta iota.
    eapply yields_bind. { apply m_sum_c_fwd; assumption. }
    intros ln2. cbv beta iota. apply yields_ret.
  - (* weight *)
    bsplit. type_eq t0. unfold read_rule_v. rt_reduce.
    rewrite gnums_ok_cons in Hok. bsplit. rewrite r_gnums_cons, <- app_assoc.
    eapply yields_bind. { apply m_atom_fwd; assumption. }
    intros ln1. cbv beta iota.
    eapply yields_bind. { apply m_sum_w_fwd; assumption. }
    intros ln2. cbv beta iota. apply yields_ret.
  - (* optimize *)
    bsplit. type_eq t0. unfold read_rule_v. rt_reduce.
    eapply yields_bind. { apply m_sum_w_fwd; assumption. }
    intros ln2. cbv beta iota. apply yields_ret.
  - (* 90 *)
    bsplit. type_eq t0. unfold read_rule_v. rt_reduce.
    match goal with H : claspExt o = true |- _ => rewrite H end.
    rewrite gnums_ok_cons in Hok. bsplit. norm_toks.
    eapply yields_bind. { apply m_pos_fwd; [apply umax_le | assumption | rng]. }
    intros ln1. cbv beta iota.
    match goal with H : (nval z =? 0) = true |- _ => rewrite H end. cbn [m_require bind]. apply yields_ret.
  - (* 91 *)
    bsplit. type_eq t0. unfold read_rule_v. rt_reduce.
    match goal with H : claspExt o = true |- _ => rewrite H end.
    rewrite !gnums_ok_cons in Hok. bsplit. norm_toks.
    eapply yields_bind. { apply m_atom_fwd; assumption. }
    intros ln1. cbv beta iota.
    assert (Hv0 : 0 <= nval v) by (eapply gnum_ok_nonneg; eassumption).
    eapply yields_bind. { apply (m_pos_fwd sm_extval_max); [unfold sm_extval_max, INT64_MAX; lia | assumption | unfold sm_extval_max; lia]. }
    intros ln2. cbv beta iota.
    assert (Ev : Z.lxor (nval v) sm_extval_xor - sm_extval_sub = d_extval (nval v)).
    { assert (Hc : nval v = 0 \/ nval v = 1 \/ nval v = 2) by lia.
      destruct Hc as [-> | [-> | ->]]; reflexivity. }
    rewrite Ev. apply yields_ret.
  - (* 92 *)
    bsplit. type_eq t0. unfold read_rule_v. rt_reduce.
    match goal with H : claspExt o = true |- _ => rewrite H end.
    rewrite gnums_ok_cons in Hok. bsplit. norm_toks.
    eapply yields_bind. { apply m_atom_fwd; assumption. }
    intros ln1. cbv beta iota. apply yields_ret.
Qed.

(* ---------------- the rule section ---------------- *)
Lemma toks_nonempty rules rend : exists t0 l, flat_map rule_toks rules ++ [rend] = t0 :: l.
Proof.
  destruct rules as [|r rules]; [cbn; eauto|]. destruct (rule_toks_cons r) as (t & l & E).
  cbn [flat_map]. rewrite E, <- app_assoc. cbn [app]. eauto.
Qed.

Lemma len_rule_toks rules : (length rules <= length (flat_map rule_toks rules))%nat.
Proof.
  induction rules as [|r rules IH]; [cbn; lia|]. destruct (rule_toks_cons r) as (t & l & E).
  cbn [flat_map length]. rewrite app_length, E. cbn [length]. lia.
Qed.

(* general in the fuel and in the FIRST token (parse_steps continues behind the whitespace of the next step's first token):
   t0' stands where the first token t0 of the section is expected and denotes the same number *)
Lemma read_rules_fwd_hd (o : opts) : forall (rules : list grule) (rend : gnum) (prio : Z) (k : list Z) (ln : Z) (fuel : nat) t0 l t0',
  (length rules < fuel)%nat -> flat_map rule_toks rules ++ [rend] = t0 :: l -> nval t0' = nval t0 ->
  gnums_ok (t0' :: l) k = true -> forallb grule_shape rules = true -> nval rend = 0 ->
  forallb (grule_in (claspExt o)) rules = true ->
  exists ln', read_rules fuel o prio (amk (r_gnums (t0' :: l) ++ k) ln) = (d_grules prio rules, Ok (amk k ln')).
Proof.
  induction rules as [|r rules IH]; intros rend prio k ln fuel t0 l t0' Hfu E Hv Hok Hsh Hend Hin;
    (destruct fuel as [|fu]; [cbn in Hfu; lia|]).
  - cbn [flat_map app] in E. injection E as <- <-. cbn [d_grules read_rules_v].
    rewrite gnums_ok_cons in Hok. bsplit. norm_toks.
    destruct (m_pos_fwd sm_rt_max t0' k ln ltac:(unfold sm_rt_max, INT64_MAX; lia) ltac:(assumption) ltac:(unfold sm_rt_max; lia)) as [ln1 E1].
    rewrite E1, Hv, Hend. change (0 =? 0) with true. cbv iota. exists ln1. reflexivity.
  - destruct (rule_toks_cons r) as (t & lr & Er). cbn [flat_map] in E. rewrite Er, <- app_assoc in E. cbn [app] in E.
    injection E as <- <-. cbn [forallb] in Hsh, Hin. bsplit.
    destruct (toks_nonempty rules rend) as (t1 & l1 & E1). rewrite E1 in *.
    rewrite gnums_ok_cons, gnums_ok_app in Hok. bsplit.
    pose proof (rule_type_val r t lr ltac:(assumption) Er) as Hty.
    cbn [d_grules read_rules_v]. rewrite r_gnums_cons. rewrite ?r_gnums_app, <- ?app_assoc in *.
    destruct (m_pos_fwd sm_rt_max t0' (r_gnums lr ++ r_gnums (t1 :: l1) ++ k) ln
                ltac:(unfold sm_rt_max, INT64_MAX; lia) ltac:(assumption) ltac:(unfold sm_rt_max; lia)) as [ln1 E2].
    rewrite E2. destruct (Z.eqb_spec (nval t0') 0) as [E0|_]; [lia|]. rewrite Hv.
    destruct (read_rule_fwd o prio r t lr (r_gnums (t1 :: l1) ++ k) ln1 ltac:(assumption) ltac:(assumption) Er ltac:(assumption)) as [ln2 E3].
    rewrite E3. destruct (d_grule prio r) as [cs prio'] eqn:Ed. cbn [fst snd].
    destruct (IH rend prio' k ln2 fu t1 l1 t1 ltac:(cbn in Hfu; lia) E1 eq_refl ltac:(assumption) ltac:(assumption) Hend ltac:(assumption)) as [ln3 E4].
    rewrite E4. exists ln3. reflexivity.
Qed.

Lemma read_rules_fwd_gen (o : opts) : forall (rules : list grule) (rend : gnum) (prio : Z) (k : list Z) (ln : Z) (fuel : nat),
  (length rules < fuel)%nat ->
  gnums_ok (flat_map rule_toks rules ++ [rend]) k = true -> forallb grule_shape rules = true -> nval rend = 0 ->
  forallb (grule_in (claspExt o)) rules = true ->
  exists ln', read_rules fuel o prio (amk (r_gnums (flat_map rule_toks rules ++ [rend]) ++ k) ln) = (d_grules prio rules, Ok (amk k ln')).
Proof.
  intros rules rend prio k ln fuel Hfu Hok Hsh Hend Hin.
  destruct (toks_nonempty rules rend) as (t0 & l & E). rewrite E in *.
  exact (read_rules_fwd_hd o rules rend prio k ln fuel t0 l t0 Hfu E eq_refl Hok Hsh Hend Hin).
Qed.

Lemma read_rules_fwd (o : opts) (rules : list grule) (rend : gnum) (prio : Z) (k : list Z) (ln : Z) :
  gnums_ok (flat_map rule_toks rules ++ [rend]) k = true -> forallb grule_shape rules = true -> nval rend = 0 ->
  forallb (grule_in (claspExt o)) rules = true ->
  exists ln', read_rules (fuel_of (amk (r_gnums (flat_map rule_toks rules ++ [rend]) ++ k) ln)) o prio
                         (amk (r_gnums (flat_map rule_toks rules ++ [rend]) ++ k) ln) = (d_grules prio rules, Ok (amk k ln')).
Proof.
  intros Hok Hsh Hend Hin. apply read_rules_fwd_gen; try assumption.
  pose proof (fuel_tok _ k ln Hok) as Hf. rewrite app_length in Hf. cbn [length] in Hf.
  pose proof (len_rule_toks rules). lia.
Qed.
End MaxVar.
