Require Import V.Lib.Base V.C05.Model.
Local Open Scope Z_scope.
Example c05_smoke : run_case [4096; 0; 0] = [0; 1; 0; 1; 1].
Proof. vm_compute. reflexivity. Qed.
Print Assumptions c05_smoke.
