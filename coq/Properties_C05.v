(* C05 - smodels writer and reader are inverses on the smodels-expressible fragment.
   Model: V.C05.Model (SmodelsOutput, one sm_step per AbstractProgram call) composed with the C07 reader model.
   PROVED here: exactly the documented cases are refused (c05_refuses); the normal form of a body is a permutation of
   the body (c05_perm); the leading-'9' probe ambiguity is a refutation witness (c05_probe_refuted).
   c05_roundtrip_partial: the line written for a basic rule  rule(Disjunctive,[a],body)  (any body, any sign order) is read back by
   the reader's rule dispatcher as the same rule with the body in negative-first order.
   MISSING from the full c05_roundtrip (sm_write p = Ok t /\ read_smodels ext t = Ok (sm_norm p)): choice / disjunctive heads, the false
   atom, cardinality / weight rules, minimize, externals, the symbol table, the compute statement, steps, and the composition of the
   lines into sections - these are covered by the differential correspondence (model = implementation on every generated program,
   including the bytes written) and by the independent python normaliser only.  The reader half rests on C07's lemmas. *)
Require Import V.Lib.Base V.Lib.Calls V.Lib.Dec V.C09.Spec V.Gen.Consts V.Gen.Consts_C07 V.C07.Model V.C07.ProofsLex V.C05.Model V.C05.Proofs V.C05.ProofsRT.
Require Import Permutation.
Local Open Scope Z_scope.

(* a call is refused (exception, nothing written) exactly in the documented cases; everything else is written *)
Theorem c05_refuses : forall (s : wstate) (c : call), refused s c = true <-> sm_step s c = WErr.
Proof. exact refuses_iff. Qed.
Print Assumptions c05_refuses.

(* negative-first reordering keeps the multiset of literals / (literal, weight) pairs *)
Theorem c05_perm : forall b : list Z, Permutation (norm_body b) b.
Proof. exact norm_body_perm. Qed.
Print Assumptions c05_perm.
Theorem c05_perm_weighted : forall b : list (Z * Z), Permutation (norm_wbody b) b.
Proof. exact norm_wbody_perm. Qed.
Print Assumptions c05_perm_weighted.

Theorem c05_roundtrip_partial : forall (o : opts) (s : wstate) a b prio r ln,
  w_sec s = 0 -> atom_rng a = true -> forallb lit_rng b = true -> Z.of_nat (length b) <= 4294967295 -> delim r ->
  exists t ln', sm_step s (CRule Head_t_Disjunctive [a] b) = WOk s (print_nat Sm_Basic ++ t ++ eol) /\
                read_rule o prio Sm_Basic (amk (t ++ r) ln) = Ok ([CRule Head_t_Disjunctive [a] (norm_body b)], prio, amk r ln').
Proof.
  intros o s a b prio r ln Hsec Ha Hb Hlen Hr.
  destruct (rt_basic o a b prio r ln Ha Hb Hlen Hr) as [ln' E].
  exists (w_head Head_t_Disjunctive [a] ++ w_body b), ln'. split.
  - cbn [sm_step]. unfold w_rule. rewrite Hsec. cbn [Z.eqb negb]. rewrite <- app_assoc. reflexivity.
  - rewrite <- app_assoc. exact E.
Qed.
Print Assumptions c05_roundtrip_partial.
Example c05_roundtrip_partial_nonvacuous : atom_rng 2147483647 = true /\ forallb lit_rng [2; -3; 2147483647; -2147483647] = true.
Proof. split; reflexivity. Qed.

(* KNOWN FINDING (judgement call, not repaired): a non-incremental extended program whose first line is an external
   directive comes back with initProgram(true) - every other call is identical *)
Definition probe_prog : list call := [CInit false; CBegin; CExternal 3 Value_t_True; CRule 0 [1] []; CEnd].
Theorem c05_probe_refuted : exists p, hd CBegin p = CInit false /\
  fst (read_smodels (mkopts true false) (fst (sm_run (w_init true 0) p))) = CInit true :: tl p.
Proof. exists probe_prog. split; vm_compute; reflexivity. Qed.
Print Assumptions c05_probe_refuted.

(* non-vacuity / smoke: a program of the fragment with a false atom, a weight rule with weight 0, a minimize statement with a
   negative weight and a compute statement is written and read back as its normal form *)
Example c05_ex_roundtrip :
  let p := [CInit false; CBegin; CRule 0 [] [2; -3; 4]; CWRule 0 [1] 2 [(2, 0); (-3, 5)]; CMin 7 [(1, -2); (-2, 3)];
            COutput [97; 32; 98] [1]; CAssume [1; -2]; CEnd] in
  sm_run (w_init false 7) p = (fst (sm_run (w_init false 7) p), true) /\
  read_smodels (mkopts false false) (fst (sm_run (w_init false 7) p)) =
    ([CInit false; CBegin; CRule 0 [7] [-3; 2; 4]; CWRule 0 [1] 2 [(-3, 5); (2, 0)]; CMin 0 [(-1, 2); (-2, 3)];
      COutput [97; 32; 98] [1]; CRule 0 [] [-1]; CRule 0 [] [2]; CRule 0 [] [7]; CEnd], Ok tt).
Proof. split; vm_compute; reflexivity. Qed.
Example c05_ex_refused : refused (w_init false 0) (CRule 0 [] [1]) = true /\ refused (w_init false 0) (CExternal 1 0) = true
  /\ refused (w_init true 0) (CExternal 1 0) = false.
Proof. repeat split. Qed.
