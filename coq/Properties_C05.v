(* C05 - smodels writer and reader are inverses on the smodels-expressible fragment.
   Model: V.C05.Model (SmodelsOutput, one sm_step per AbstractProgram call) composed with the C07 reader model (V.C07.Model).
   Declarative side: V.C05.Spec (refused, in_fragment, sm_norm, the layout the writer uses).

   PROVED here (all closed under the global context):
   * c05_roundtrip (FULL): every call sequence p of the fragment (in_fragment ext f p = true: init; then per step  begin, (rules | weight rules |
     minimize | externals)*, output*, [assume], end; all values in range; any number of steps iff incremental + extensions; any false atom f) is
     written completely and the text is read back (claspExt = ext, any filter flag) as exactly sm_norm f p: bodies stably partitioned
     negative-first, minimize priorities renumbered in write order with negative weights returned as |w| on the complementary literal,
     empty heads -> false atom, compute statement (and the false atom, if used) returned as integrity constraints, symbol table / externals /
     step structure identical.  c05_roundtrip_steps is the same over structured programs (no parser), c05_fragment_complete says the parser
     behind in_fragment / sm_norm accepts every structured program, c05_parse_sound that it only splits.
   * (1) per line: c05_rt_line (any call of the rule section) and its instances c05_rt_basic / _choice / _disjunctive / _false_atom /
     _cardinality / _weight / _false_atom_sum / _minimize / _external: the line written is read back by the reader's rule dispatcher as the normal form.
   * (2) per section (whole-program corollaries): c05_rt_symbols, c05_rt_compute, c05_rt_compute_false, c05_rt_steps, c05_rt_step_marker, c05_ext_off.
   * c05_refuses (refused <-> WErr), c05_perm(_weighted), c05_probe_refuted (the one shape excluded from in_fragment: KNOWN finding probe-leading-9).
   The reader half rests on C07's completeness theorem (V.C07.ProofsTop.complete = c07_complete): the writer's text is shown to be the
   rendering of a laid-out program (C07/Spec.v) that is layout_ok, in_range and denotes sm_norm p.
   * a caller that CATCHES a refusal and continues with the same writer (sm_run_c; refused = c05_refuses): c05_refused_state (what a refused
     call leaves behind, exactly: nothing written; the state record is untouched except initProgram's inc_, which no later call can observe),
     c05_refused_no_trace (the state after a refused call is indistinguishable from the state before), c05_continue_accepted (EVERY history: the
     text is the text of the accepted calls alone, from every indistinguishable state), c05_continue_roundtrip (... and is read back as their
     normal form).  The former exception (fHead_ set by a refused weight rule with empty head) was a defect, repaired in /repo 82b5ba2.
   * ONE writer object used for several programs (initProgram on a writer in ANY state): c05_init_any_state, c05_begin_forgets,
     c05_second_program_like_fresh (same statuses, exactly the text a new writer with the same extensions flag / false atom appends),
     c05_second_program_roundtrip, c05_history_then_program (any first history, then a program of the fragment: read back as its normal form).
   NOT covered by the theorem (outside the property's quantifier, see notes/C05.md): names containing LF/CR/NUL, negative rule-body weights,
   minimize/external after symbols, |minimize weight| = 2^31, values outside the C types. *)
Require Import V.Lib.Base V.Lib.Calls V.Lib.Dec V.C09.Spec V.Gen.Consts V.Gen.Consts_C07 V.C07.Model V.C07.ProofsLex.
Require Import V.C05.Model V.C05.Spec V.C05.Proofs V.C05.ProofsRT V.C05.ProofsLines V.C05.ProofsComp V.C05.XCheck V.C05.ProofsCont V.C05.ProofsReuse.
Require Import Permutation.
Local Open Scope Z_scope.

(* a call is refused (exception, nothing written) exactly in the documented cases; everything else is written *)
Theorem c05_refuses : forall (s : wstate) (c : call), refused s c = true <-> sm_step s c = WErr.
Proof. exact refuses_iff. Qed.
Print Assumptions c05_refuses.

(* negative-first reordering keeps the multiset of literals / (literal, weight) pairs *)
Theorem c05_perm : forall b : list Z, Permutation (norm_body b) b.
Proof. exact norm_body_perm. Qed.
Print Assumptions c05_perm.
Theorem c05_perm_weighted : forall b : list (Z * Z), Permutation (norm_wbody b) b.
Proof. exact norm_wbody_perm. Qed.
Print Assumptions c05_perm_weighted.

(* ================= (3) the round trip ================= *)
Theorem c05_roundtrip : forall (ext flt : bool) (f : Z) (p : list call), in_fragment ext f p = true ->
  exists t, sm_run (w_init ext f) p = (t, true) /\ sm_write ext f p = Some t /\
            read_smodels (mkopts ext flt) t = (sm_norm f p, Ok tt).
Proof. exact roundtrip. Qed.
Print Assumptions c05_roundtrip.

(* the same with the normal form computed in ONE pass over the raw call sequence (sm_norm_fold: no parser involved) *)
Theorem c05_roundtrip_fold : forall (ext flt : bool) (f : Z) (p : list call), in_fragment ext f p = true ->
  exists t, sm_run (w_init ext f) p = (t, true) /\ read_smodels (mkopts ext flt) t = (sm_norm_fold f p, Ok tt).
Proof. exact roundtrip_fold. Qed.
Print Assumptions c05_roundtrip_fold.
Theorem c05_norm_fold : forall ext f p, in_fragment ext f p = true -> sm_norm_fold f p = sm_norm f p.
Proof. exact norm_fold_eq. Qed.
Print Assumptions c05_norm_fold.

(* the same over structured programs: flat_prog inc sts = init(inc); for each step: begin; rules; symbols; [assume]; end *)
Theorem c05_roundtrip_steps : forall (ext flt : bool) (f : Z) (inc : bool) (sts : list sstep), frag_steps ext f inc sts = true ->
  sm_run (w_init ext f) (flat_prog inc sts) = (prog_text ext inc f sts, true) /\
  read_smodels (mkopts ext flt) (prog_text ext inc f sts) = (CInit inc :: flat_map (norm_step f) sts, Ok tt).
Proof. exact roundtrip_steps. Qed.
Print Assumptions c05_roundtrip_steps.

(* the parser behind in_fragment / sm_norm only splits the sequence, and accepts every structured program of the fragment *)
Theorem c05_parse_sound : forall p inc sts, parse p = Some (inc, sts) -> p = flat_prog inc sts.
Proof. exact parse_sound. Qed.
Print Assumptions c05_parse_sound.
Theorem c05_fragment_complete : forall ext f inc sts, frag_steps ext f inc sts = true ->
  in_fragment ext f (flat_prog inc sts) = true /\ sm_norm f (flat_prog inc sts) = CInit inc :: flat_map (norm_step f) sts.
Proof. exact fragment_complete. Qed.
Print Assumptions c05_fragment_complete.

(* non-vacuity: multi-directive programs inside the fragment, and their normal forms *)
Definition ex_prog : list call :=
  [CInit false; CBegin; CRule 0 [] [2; -3; 4]; CRule 1 [5; 6] [7; -8]; CRule 0 [1; 2; 3] []; CRule 1 [] [1];
   CWRule 0 [1] 2 [(2, 0); (-3, 5)]; CWRule 0 [] 1 [(2, 1); (-3, 1)]; CMin 7 [(1, -2); (-2, 3)]; CMin 3 [];
   COutput [97; 32; 98] [1]; COutput [] [2147483647]; CAssume [1; -2]; CEnd].
Example c05_ex_in_fragment : in_fragment false 7 ex_prog = true /\
  sm_norm 7 ex_prog =
    [CInit false; CBegin; CRule 0 [7] [-3; 2; 4]; CRule 1 [5; 6] [-8; 7]; CRule 0 [1; 2; 3] [];
     CWRule 0 [1] 2 [(-3, 5); (2, 0)]; CWRule 0 [7] 1 [(-3, 1); (2, 1)]; CMin 0 [(-1, 2); (-2, 3)]; CMin 1 [];
     COutput [97; 32; 98] [1]; COutput [] [2147483647]; CRule 0 [] [-1]; CRule 0 [] [2]; CRule 0 [] [7]; CEnd].
Proof. split; vm_compute; reflexivity. Qed.
Definition ex_inc : list call :=
  [CInit true; CBegin; CExternal 3 Value_t_True; CRule 0 [1] [-3]; CExternal 4 Value_t_Free; COutput [120] [1]; CEnd;
   CBegin; CExternal 3 Value_t_Release; CExternal 4 Value_t_False; CRule 1 [2] [1]; CMin 0 [(2, 1)]; CAssume [-2]; CEnd; CBegin; CEnd].
Example c05_ex_in_fragment_inc : in_fragment true 0 ex_inc = true /\ in_fragment false 0 ex_inc = false /\
  sm_norm 0 ex_inc =
    [CInit true; CBegin; CExternal 3 Value_t_True; CRule 0 [1] [-3]; CExternal 4 Value_t_Free; COutput [120] [1]; CEnd;
     CBegin; CExternal 3 Value_t_Release; CExternal 4 Value_t_False; CRule 1 [2] [1]; CMin 0 [(2, 1)]; CRule 0 [] [2]; CEnd; CBegin; CEnd].
Proof. repeat split; vm_compute; reflexivity. Qed.

(* the Coq definitions in_fragment / sm_norm agree with the plugin's independent python classifier / normaliser (props/C05.py classify, norm -
   the oracle that judges the implementation) on a fixed generated sample (coq/C05/XCheck.v, regenerate with props/c05_xcheck_gen.py) *)
Example c05_spec_matches_oracle : forallb xchk xrows = true /\ length xrows = 160%nat.
Proof. exact xcheck_ok. Qed.

(* ================= (1) per line ================= *)
(* any call c of the rule section (rule, weight rule, minimize, external) inside the fragment: the line written is the rule type, then fields t,
   then LF; the reader's dispatcher on the fields returns the normal form of c and the next minimize priority *)
Theorem c05_rt_line : forall (o : opts) (f : Z) (s : wstate) (c : call) (rl : V.C07.Spec.lrule) (prio : Z) (r : list Z) (ln : Z),
  w_sec s = 0 -> w_false s = f -> w_ext s = claspExt o -> frag_rule (claspExt o) f c = true -> lay_rule f c = [rl] -> delim r ->
  exists t ln', sm_step s c = WOk (if empty_head c then set_fhead s else s) (print_nat (V.C07.Spec.rule_type rl) ++ t ++ eol) /\
                read_rule o prio (V.C07.Spec.rule_type rl) (amk (t ++ r) ln) = Ok (norm_rule f prio c, amk r ln').
Proof. exact rt_line. Qed.
Print Assumptions c05_rt_line.

(* basic rule (type 1) *)
Theorem c05_rt_basic : forall (o : opts) (s : wstate) a b prio r ln,
  w_sec s = 0 -> atom_rng a = true -> forallb lit_rng b = true -> Z.of_nat (length b) <= 4294967295 -> delim r ->
  exists t ln', sm_step s (CRule Head_t_Disjunctive [a] b) = WOk s (print_nat Sm_Basic ++ t ++ eol) /\
                read_rule o prio Sm_Basic (amk (t ++ r) ln) = Ok ([CRule Head_t_Disjunctive [a] (norm_body b)], prio, amk r ln').
Proof. exact rt_basic_line. Qed.
Print Assumptions c05_rt_basic.
Example c05_rt_basic_nonvacuous : atom_rng 2147483647 = true /\ forallb lit_rng [2; -3; 2147483647; -2147483647] = true.
Proof. split; reflexivity. Qed.

(* choice rule (type 3), any non-empty head *)
Theorem c05_rt_choice : forall (o : opts) s h b prio r ln, w_sec s = 0 -> w_ext s = claspExt o -> h <> [] ->
  frag_rule (claspExt o) (w_false s) (CRule Head_t_Choice h b) = true -> delim r ->
  exists t ln', sm_step s (CRule Head_t_Choice h b) = WOk s (print_nat Sm_Choice ++ t ++ eol) /\
                read_rule o prio Sm_Choice (amk (t ++ r) ln) = Ok ([CRule Head_t_Choice h (norm_body b)], prio, amk r ln').
Proof. exact rt_choice. Qed.
Print Assumptions c05_rt_choice.
(* disjunctive rule (type 8), two or more head atoms *)
Theorem c05_rt_disjunctive : forall (o : opts) s a a2 h b prio r ln, w_sec s = 0 -> w_ext s = claspExt o ->
  frag_rule (claspExt o) (w_false s) (CRule Head_t_Disjunctive (a :: a2 :: h) b) = true -> delim r ->
  exists t ln', sm_step s (CRule Head_t_Disjunctive (a :: a2 :: h) b) = WOk s (print_nat Sm_Disjunctive ++ t ++ eol) /\
                read_rule o prio Sm_Disjunctive (amk (t ++ r) ln) = Ok ([CRule Head_t_Disjunctive (a :: a2 :: h) (norm_body b)], prio, amk r ln').
Proof. exact rt_disjunctive. Qed.
Print Assumptions c05_rt_disjunctive.
(* integrity constraint: written with the false atom as head; the writer remembers that the false atom is used (for the compute statement) *)
Theorem c05_rt_false_atom : forall (o : opts) s b prio r ln, w_sec s = 0 -> w_ext s = claspExt o ->
  frag_rule (claspExt o) (w_false s) (CRule Head_t_Disjunctive [] b) = true -> delim r ->
  exists t ln', sm_step s (CRule Head_t_Disjunctive [] b) = WOk (set_fhead s) (print_nat Sm_Basic ++ t ++ eol) /\
                read_rule o prio Sm_Basic (amk (t ++ r) ln) = Ok ([CRule Head_t_Disjunctive [w_false s] (norm_body b)], prio, amk r ln').
Proof. exact rt_false_atom. Qed.
Print Assumptions c05_rt_false_atom.
(* cardinality rule (type 2): all weights 1; the bound follows the counts *)
Theorem c05_rt_cardinality : forall (o : opts) s a bnd b prio r ln, w_sec s = 0 -> w_ext s = claspExt o -> is_card b = true ->
  frag_rule (claspExt o) (w_false s) (CWRule Head_t_Disjunctive [a] bnd b) = true -> delim r ->
  exists t ln', sm_step s (CWRule Head_t_Disjunctive [a] bnd b) = WOk s (print_nat Sm_Cardinality ++ t ++ eol) /\
                read_rule o prio Sm_Cardinality (amk (t ++ r) ln) = Ok ([CWRule Head_t_Disjunctive [a] bnd (norm_wbody b)], prio, amk r ln').
Proof. exact rt_cardinality. Qed.
Print Assumptions c05_rt_cardinality.
(* weight rule (type 5): some weight differs from 1 (weight 0 included); the bound comes first *)
Theorem c05_rt_weight : forall (o : opts) s a bnd b prio r ln, w_sec s = 0 -> w_ext s = claspExt o -> is_card b = false ->
  frag_rule (claspExt o) (w_false s) (CWRule Head_t_Disjunctive [a] bnd b) = true -> delim r ->
  exists t ln', sm_step s (CWRule Head_t_Disjunctive [a] bnd b) = WOk s (print_nat Sm_Weight ++ t ++ eol) /\
                read_rule o prio Sm_Weight (amk (t ++ r) ln) = Ok ([CWRule Head_t_Disjunctive [a] bnd (norm_wbody b)], prio, amk r ln').
Proof. exact rt_weight. Qed.
Print Assumptions c05_rt_weight.
Example c05_rt_weight_nonvacuous : frag_rule false 0 (CWRule 0 [1] 2147483647 [(2, 0); (-3, 2147483647); (4, 1)]) = true /\
  is_card [(2, 0); (-3, 2147483647); (4, 1)] = false /\ frag_rule false 0 (CWRule 0 [1] 0 [(2, 1); (-3, 1)]) = true /\ is_card [(2, 1); (-3, 1)] = true.
Proof. repeat split; reflexivity. Qed.
(* a sum rule with an empty head *)
Theorem c05_rt_false_atom_sum : forall (o : opts) s bnd b prio r ln, w_sec s = 0 -> w_ext s = claspExt o ->
  frag_rule (claspExt o) (w_false s) (CWRule Head_t_Disjunctive [] bnd b) = true -> delim r ->
  exists t ln', sm_step s (CWRule Head_t_Disjunctive [] bnd b) = WOk (set_fhead s) (print_nat (if is_card b then Sm_Cardinality else Sm_Weight) ++ t ++ eol) /\
                read_rule o prio (if is_card b then Sm_Cardinality else Sm_Weight) (amk (t ++ r) ln)
                = Ok ([CWRule Head_t_Disjunctive [w_false s] bnd (norm_wbody b)], prio, amk r ln').
Proof. exact rt_false_atom_sum. Qed.
Print Assumptions c05_rt_false_atom_sum.
(* minimize (type 6): bound 0; (l, w) with w < 0 comes back as (-l, -w); priority = number of minimize lines read before *)
Theorem c05_rt_minimize : forall (o : opts) s p l prio r ln, w_sec s = 0 -> w_ext s = claspExt o ->
  frag_rule (claspExt o) (w_false s) (CMin p l) = true -> delim r ->
  exists t ln', sm_step s (CMin p l) = WOk s (print_nat Sm_Optimize ++ t ++ eol) /\
                read_rule o prio Sm_Optimize (amk (t ++ r) ln) = Ok ([CMin prio (norm_min l)], prio + 1, amk r ln').
Proof. exact rt_minimize. Qed.
Print Assumptions c05_rt_minimize.
Example c05_rt_minimize_nonvacuous : frag_rule false 0 (CMin 5 [(1, -2147483647); (-2, 0); (3, 4)]) = true /\
  norm_min [(1, -2147483647); (-2, 0); (3, 4)] = [(-1, 2147483647); (-2, 0); (3, 4)].
Proof. split; reflexivity. Qed.
(* externals (types 91 / 92): value coding (v xor 3) - 1 *)
Theorem c05_rt_external : forall (o : opts) s a v prio r ln, w_sec s = 0 -> w_ext s = claspExt o ->
  frag_rule (claspExt o) (w_false s) (CExternal a v) = true -> delim r ->
  exists t ln', sm_step s (CExternal a v) = WOk s (print_nat (if v =? Value_t_Release then Sm_ClaspReleaseExt else Sm_ClaspAssignExt) ++ t ++ eol) /\
                read_rule o prio (if v =? Value_t_Release then Sm_ClaspReleaseExt else Sm_ClaspAssignExt) (amk (t ++ r) ln)
                = Ok ([CExternal a v], prio, amk r ln').
Proof. exact rt_external. Qed.
Print Assumptions c05_rt_external.

(* ================= (2) per section ================= *)
(* symbol table: entries for single atoms with names free of LF / CR / NUL (any other bytes, also empty names) come back identically *)
Theorem c05_rt_symbols : forall (ext flt : bool) f syms, forallb frag_sym syms = true ->
  exists t, sm_run (w_init ext f) ([CInit false; CBegin] ++ syms ++ [CEnd]) = (t, true) /\
            read_smodels (mkopts ext flt) t = ([CInit false; CBegin] ++ syms ++ [CEnd], Ok tt).
Proof. exact rt_symbols. Qed.
Print Assumptions c05_rt_symbols.
(* compute statement: assume(l) comes back as integrity constraints, B+ first then B- *)
Theorem c05_rt_compute : forall (ext flt : bool) f lits, forallb lit_rng lits = true ->
  exists t, sm_run (w_init ext f) [CInit false; CBegin; CAssume lits; CEnd] = (t, true) /\
            read_smodels (mkopts ext flt) t = ([CInit false; CBegin] ++ norm_assume lits ++ [CEnd], Ok tt).
Proof. exact rt_compute. Qed.
Print Assumptions c05_rt_compute.
(* ... and when an integrity constraint was written, the false atom is listed in B- and comes back as  :- f *)
Theorem c05_rt_compute_false : forall (ext flt : bool) f b lits,
  atom_rng f = true -> forallb lit_rng b = true -> len_ok b = true -> forallb lit_rng lits = true ->
  exists t, sm_run (w_init ext f) [CInit false; CBegin; CRule Head_t_Disjunctive [] b; CAssume lits; CEnd] = (t, true) /\
            read_smodels (mkopts ext flt) t =
              ([CInit false; CBegin; CRule Head_t_Disjunctive [f] (norm_body b)] ++ norm_assume lits ++ [CRule Head_t_Disjunctive [] [f]; CEnd], Ok tt).
Proof. exact rt_compute_false. Qed.
Print Assumptions c05_rt_compute_false.
(* step structure with the extensions: any number of steps, the text starts with '9' ("90 0") *)
Theorem c05_rt_steps : forall (flt : bool) f sts, forallb (frag_step true f) sts = true -> sts <> [] ->
  exists t, sm_run (w_init true f) (flat_prog true sts) = (t, true) /\ hd 0 t = 57 /\
            read_smodels (mkopts true flt) t = (CInit true :: flat_map (norm_step f) sts, Ok tt).
Proof. exact rt_steps. Qed.
Print Assumptions c05_rt_steps.
Theorem c05_rt_step_marker : forall (o : opts) s prio r ln, w_ext s = true -> w_inc s = true -> claspExt o = true -> delim r ->
  exists s1 t ln', sm_step s CBegin = WOk s1 (print_nat Sm_ClaspIncrement ++ t ++ eol) /\ w_sec s1 = 0 /\ w_fhead s1 = false /\
                   read_rule o prio Sm_ClaspIncrement (amk (t ++ r) ln) = Ok ([], prio, amk r ln').
Proof. exact rt_step_marker. Qed.
Print Assumptions c05_rt_step_marker.
(* extensions off: externals and incremental programs are refused, begin writes no step marker *)
Theorem c05_ext_off : forall s, w_ext s = false ->
  (forall a v, sm_step s (CExternal a v) = WErr) /\ sm_step s (CInit true) = WErr /\ (exists s1, sm_step s CBegin = WOk s1 []).
Proof. exact ext_off. Qed.
Print Assumptions c05_ext_off.

(* KNOWN FINDING (judgement call, not repaired): a non-incremental extended program whose first line is an external
   directive comes back with initProgram(true) - every other call is identical.  This shape is excluded from in_fragment (first_ext). *)
(* GENERAL form of the finding: with the probe shape admitted (frag_steps_probe = frag_steps without the first_ext exclusion) the program is still
   written completely and every call comes back as the normal form - the ONLY deviation is the incremental flag of init, which is true exactly when
   the program is incremental or (probe) its first written line is an external directive *)
Theorem c05_roundtrip_probe : forall (ext flt : bool) (f : Z) (inc : bool) (sts : list sstep), frag_steps_probe ext f inc sts = true ->
  sm_run (w_init ext f) (flat_prog inc sts) = (prog_text ext inc f sts, true) /\
  read_smodels (mkopts ext flt) (prog_text ext inc f sts) = (CInit (inc || probe inc sts) :: flat_map (norm_step f) sts, Ok tt).
Proof. exact roundtrip_steps_probe. Qed.
Print Assumptions c05_roundtrip_probe.
Definition probe_prog : list call := [CInit false; CBegin; CExternal 3 Value_t_True; CRule 0 [1] []; CEnd].
Theorem c05_probe_refuted : exists p, hd CBegin p = CInit false /\ in_fragment true 0 p = false /\
  fst (read_smodels (mkopts true false) (fst (sm_run (w_init true 0) p))) = CInit true :: tl p.
Proof. exists probe_prog. repeat split; vm_compute; reflexivity. Qed.
Print Assumptions c05_probe_refuted.

(* smoke: writer + reader computed on a program of the fragment *)
Example c05_ex_roundtrip :
  let p := [CInit false; CBegin; CRule 0 [] [2; -3; 4]; CWRule 0 [1] 2 [(2, 0); (-3, 5)]; CMin 7 [(1, -2); (-2, 3)];
            COutput [97; 32; 98] [1]; CAssume [1; -2]; CEnd] in
  sm_run (w_init false 7) p = (fst (sm_run (w_init false 7) p), true) /\
  read_smodels (mkopts false false) (fst (sm_run (w_init false 7) p)) =
    ([CInit false; CBegin; CRule 0 [7] [-3; 2; 4]; CWRule 0 [1] 2 [(-3, 5); (2, 0)]; CMin 0 [(-1, 2); (-2, 3)];
      COutput [97; 32; 98] [1]; CRule 0 [] [-1]; CRule 0 [] [2]; CRule 0 [] [7]; CEnd], Ok tt).
Proof. split; vm_compute; reflexivity. Qed.
Example c05_ex_refused : refused (w_init false 0) (CRule 0 [] [1]) = true /\ refused (w_init false 0) (CExternal 1 0) = true
  /\ refused (w_init true 0) (CExternal 1 0) = false.
Proof. repeat split. Qed.

(* ================= a caller that catches a refusal and continues with the same writer ================= *)
(* A call is REFUSED in state s iff refused s c = true (c05_refuses: init(true) without extensions; rule with sec_ <> 0, integrity constraint without
   false atom; weight rule additionally with choice / disjunctive head or negative bound; output after compute or with a condition that is not one
   positive literal; external without extensions; second compute statement; project / heuristic / edge / theory).  sm_run_c is the history of a
   caller that catches each refusal: text written + one accepted flag per call; the flag of a call is exactly negb (refused ..) in the state it meets. *)
Theorem c05_continue_flags : forall cs s t fl, sm_run_c s cs = (t, fl) ->
  length fl = length cs /\ match cs, fl with c :: _, b :: _ => b = negb (refused s c) | [], [] => True | _, _ => False end.
Proof. intros cs s t fl H. split; [exact (run_c_length cs s t fl H) | exact (run_c_flags cs s t fl H)]. Qed.
Print Assumptions c05_continue_flags.

(* what a refused call leaves behind, EXACTLY (it writes nothing: sm_run_c adds no byte for it): the whole state record is unchanged unless the
   call is initProgram(b) with b <> inc_ (inc_ = b precedes the REQUIRE; code as it is) - and with the extensions on, where inc_ is read, never *)
Theorem c05_refused_state : forall s c, sm_step s c = WErr ->
  (sm_refused_state s c = s <-> inc_leak s c = false) /\ (w_ext s = true -> sm_refused_state s c = s).
Proof. intros s c H. split; [now apply refused_state_exact | now apply refused_state_ext]. Qed.
Print Assumptions c05_refused_state.
(* no refused call - of any kind, in any state - leaves a trace: the state after it is indistinguishable from the state before (obs_eq: all members
   equal, inc_ only where ext_ is on: inc_ is read only as ext_ && inc_), and indistinguishable states take the same steps with the same text *)
Theorem c05_refused_no_trace : forall s c, sm_step s c = WErr -> obs_eq (sm_refused_state s c) s.
Proof. exact refused_obs_eq. Qed.
Print Assumptions c05_refused_no_trace.
Theorem c05_obs_eq_step : forall s s' c, obs_eq s s' ->
  match sm_step s c, sm_step s' c with
  | WOk a t, WOk b t' => t = t' /\ obs_eq a b
  | WErr, WErr => True
  | _, _ => False
  end.
Proof. exact step_obs_eq. Qed.
Print Assumptions c05_obs_eq_step.

(* ALL histories: the text written by the caller who catches and continues is the text of the accepted calls alone (which are all accepted
   again), started from any indistinguishable state *)
Theorem c05_continue_accepted : forall cs s s' t fl, obs_eq s s' -> sm_run_c s cs = (t, fl) -> sm_run s' (keep cs fl) = (t, true).
Proof. exact cont_accepted. Qed.
Print Assumptions c05_continue_accepted.
(* property level: if the accepted calls form a program of the fragment, the text is read back as their normal form - a refused call leaves no trace *)
Theorem c05_continue_roundtrip : forall (ext flt : bool) (f : Z) (cs : list call) (t : list Z) (fl : list bool),
  sm_run_c (w_init ext f) cs = (t, fl) -> in_fragment ext f (keep cs fl) = true ->
  read_smodels (mkopts ext flt) t = (sm_norm f (keep cs fl), Ok tt).
Proof. exact cont_roundtrip. Qed.
Print Assumptions c05_continue_roundtrip.

(* non-vacuity: a history with six refused calls (project; negative bound; general output as FIRST output of the step; heuristic; weight rule with
   choice head; weight rule with EMPTY head and negative bound - the shape of the repaired defect 82b5ba2: before the repair it left fHead_ set and
   the compute statement listed the false atom 7) followed by minimize / external / rules / outputs / compute: the accepted calls are a program of
   the fragment, the text is that of the accepted calls and comes back as their normal form (no ':- 7') *)
Definition ex_cont : list call :=
  [CInit false; CBegin; CRule 0 [1] [2; -3]; CProject [1]; CWRule 0 [1] (-1) [(2, 1)]; COutput [120] [1; 2]; CMin 0 [(1, 2)]; CExternal 3 Value_t_True;
   CHeuristic 1 0 1 1 []; CWRule 1 [4] 1 [(2, 1)]; CWRule 0 [] (-1) [(2, 1)]; CRule 1 [4; 5] []; COutput [97] [1]; COutput [98] [-1]; COutput [99] [4];
   CAssume [1]; CEnd].
Definition ex_cont_flags : list bool :=
  [true; true; true; false; false; false; true; true; false; false; false; true; true; false; true; true; true].
Example c05_ex_continue :
  snd (sm_run_c (w_init true 7) ex_cont) = ex_cont_flags /\
  in_fragment true 7 (keep ex_cont ex_cont_flags) = true /\
  keep ex_cont ex_cont_flags = [CInit false; CBegin; CRule 0 [1] [2; -3]; CMin 0 [(1, 2)]; CExternal 3 Value_t_True; CRule 1 [4; 5] [];
                                COutput [97] [1]; COutput [99] [4]; CAssume [1]; CEnd] /\
  read_smodels (mkopts true false) (fst (sm_run_c (w_init true 7) ex_cont)) = (sm_norm 7 (keep ex_cont ex_cont_flags), Ok tt) /\
  sm_norm 7 (keep ex_cont ex_cont_flags) = [CInit false; CBegin; CRule 0 [1] [-3; 2]; CMin 0 [(1, 2)]; CExternal 3 Value_t_True; CRule 1 [4; 5] [];
                                            COutput [97] [1]; COutput [99] [4]; CRule 0 [] [-1]; CEnd].
Proof. repeat split; vm_compute; reflexivity. Qed.
(* the one member a refused call can change: refused init(true) without extensions stores inc_ = true - a different record, an indistinguishable state *)
Example c05_ex_obs_eq : obs_eq (sm_refused_state (w_init false 0) (CInit true)) (w_init false 0) /\ sm_refused_state (w_init false 0) (CInit true) <> w_init false 0.
Proof. split; [apply refused_obs_eq; reflexivity | vm_compute; discriminate]. Qed.

(* ================= one writer object, several programs (writer reuse) ================= *)
(* SmodelsOutput::initProgram(b) assigns inc_ = b whatever it was; beginStep assigns sec_ = 0 and fHead_ = false; false_ and ext_ are constructor
   arguments.  fresh_of s = the NEW writer with the constructor arguments of s.  sm_step returns the bytes a call APPENDS, so every statement below
   is "behind the bytes already written".
   initProgram(inc) on a writer in ANY state s - after a complete incremental program, a program abandoned anywhere, refused calls - and on any
   writer s' with the same constructor arguments (in particular the new one): same status, nothing written, and the resulting states (the
   caught refusal included) agree on false_, ext_, inc_; only sec_ / fHead_ are still those s had (they belong to a step) *)
Theorem c05_init_any_state : forall s s' inc, ctor_eq s s' ->
  match sm_step s (CInit inc), sm_step s' (CInit inc) with
  | WOk a t, WOk b t' => t = [] /\ t' = [] /\ prog_eq a b /\ w_sec a = w_sec s /\ w_fhead a = w_fhead s
  | WErr, WErr => prog_eq (sm_refused_state s (CInit inc)) (sm_refused_state s' (CInit inc))
  | _, _ => False
  end.
Proof. exact init_prog_eq. Qed.
Print Assumptions c05_init_any_state.
(* ... and beginStep removes that rest: EQUAL bytes and EQUAL state records *)
Theorem c05_begin_forgets : forall s s', prog_eq s s' -> sm_step s CBegin = sm_step s' CBegin.
Proof. exact begin_eq. Qed.
Print Assumptions c05_begin_forgets.
(* the second program: initProgram (followed by further initProgram calls, e.g. a refused initProgram(true) the caller catches and corrects),
   beginStep, then ANY calls cs (any number of steps, refused calls, calls outside the fragment): on a writer in ANY state s they get the
   same statuses and append exactly the text they get from a new writer - for the caller that stops at the first refusal (sm_run: text,
   all-accepted flag) and for the caller that catches and continues (sm_run_c: text, one accepted flag per call) *)
Theorem c05_second_program_like_fresh : forall s inc ins cs, forallb is_init ins = true ->
  sm_run s (CInit inc :: ins ++ CBegin :: cs) = sm_run (fresh_of s) (CInit inc :: ins ++ CBegin :: cs) /\
  sm_run_c s (CInit inc :: ins ++ CBegin :: cs) = sm_run_c (fresh_of s) (CInit inc :: ins ++ CBegin :: cs).
Proof. exact second_program_like_fresh. Qed.
Print Assumptions c05_second_program_like_fresh.
(* property level: a program of the fragment handed to a writer in ANY state is written completely, with the text of a new writer, and is read
   back as its normal form *)
Theorem c05_second_program_roundtrip : forall s flt p, in_fragment (w_ext s) (w_false s) p = true ->
  exists t, sm_run s p = (t, true) /\ sm_run (fresh_of s) p = (t, true) /\
            read_smodels (mkopts (w_ext s) flt) t = (sm_norm (w_false s) p, Ok tt).
Proof. exact second_program_roundtrip. Qed.
Print Assumptions c05_second_program_roundtrip.
(* the same as a history: ANY calls cs1 on a new writer (a caller that catches refusals; complete programs, abandoned ones, nonsense), then a
   program p of the fragment: all calls of p are accepted, the text appended for p is the text t2 of p on a new writer and is read back as sm_norm f p *)
Theorem c05_history_then_program : forall ext f flt cs1 p, in_fragment ext f p = true ->
  exists t2, sm_run_c (w_init ext f) (cs1 ++ p) =
               (fst (sm_run_c (w_init ext f) cs1) ++ t2, snd (sm_run_c (w_init ext f) cs1) ++ repeat true (length p)) /\
             sm_run (w_init ext f) p = (t2, true) /\
             read_smodels (mkopts ext flt) t2 = (sm_norm f p, Ok tt).
Proof. exact history_then_program. Qed.
Print Assumptions c05_history_then_program.

(* non-vacuity: an incremental program (extensions on, false atom 7) abandoned behind its compute statement with the false atom used leaves
   inc_ = true, sec_ = 2, fHead_ = true; initProgram(false) keeps sec_ / fHead_ (code as it is), beginStep clears them; the ordinary program that
   follows is in the fragment and gets the text of a new writer: no "90 0" line (the line seeded change C05-r9 leaves in), no 7 under B- *)
Definition ex_reuse_first : list call :=
  [CInit true; CBegin; CRule 0 [] [1]; CEnd; CBegin; CRule 0 [] [2]; COutput [97] [1]; CAssume [1; -2]; COutput [98] [2]].
Definition ex_reuse_second : list call := [CInit false; CBegin; CRule 0 [1] [2; -3]; COutput [97] [1]; CEnd].
Example c05_ex_reuse :
  let s := sm_state_c (w_init true 7) ex_reuse_first in
  s = mkw 7 true 2 true true /\
  snd (sm_run_c (w_init true 7) ex_reuse_first) = [true; true; true; true; true; true; true; true; false] /\
  sm_step s (CInit false) = WOk (mkw 7 true 2 false true) [] /\
  in_fragment (w_ext s) (w_false s) ex_reuse_second = true /\
  sm_run s ex_reuse_second = sm_run (w_init true 7) ex_reuse_second /\
  fst (sm_run s ex_reuse_second) =
    [49;32;49;32;50;32;49;32;51;32;50;10; 48;10; 49;32;97;10; 48;10; 66;43;10; 48;10; 66;45;10; 48;10; 49;10].
Proof. cbv zeta. repeat split; vm_compute; reflexivity. Qed.
(* the boundary of the statement: beginStep is what clears sec_ / fHead_.  A rule handed over between initProgram and beginStep (outside the
   AbstractProgram protocol) still meets the section of the earlier program: refused here, written by a new writer *)
Example c05_ex_reuse_needs_begin_step :
  let s := sm_state_c (w_init true 7) ex_reuse_first in
  sm_run s [CInit false; CRule 0 [1] []] = ([], false) /\ snd (sm_run (fresh_of s) [CInit false; CRule 0 [1] []]) = true.
Proof. cbv zeta. split; vm_compute; reflexivity. Qed.
