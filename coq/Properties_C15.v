Require Import V.Lib.Base V.C15.Model.
Local Open Scope Z_scope.
Example c15_smoke : run_case [1; 2; 0; 0; 0; 1; 0; 1; 0; 1; 53] = [0; 0; 1; 0; 1; 1; 5].
Proof. vm_compute. reflexivity. Qed.
Print Assumptions c15_smoke.
