(* C15 - option values are assigned with first-source-wins precedence and defaults last.
   All theorems hold for EVERY option set (odesc), every per-option parser / store / leftover-of-a-refused-string
   function, every parsed set, exclude set and source.  Vocabulary (coq/C15/Spec.v):
     clean c          : the value is not in state value_fixed (true initially; re-established by every assign: c15_recorded)
     skipped p e o    : pairs for o are ignored - o is not composing and (excluded or already recorded as parsed)
     src_ok p e src   : no non-ignored non-composing option occurs twice, no non-ignored pair is refused by its parser
     dup_at / bad_at  : src = pre ++ (o,v) :: post, pre is fine, (o,v) is the first duplicate / first refused pair
     accepted o src   : parser results of the occurrences of o in src, in order (parser applied to the implicit
                        value where the string is empty and the option has an implicit value)                       *)
Require Import V.Lib.Base V.Gen.Consts_C15 V.C15.Model V.C15.Spec V.C15.Proofs V.C15.Proofs2 V.C15.Proofs3 V.C15.Proofs4 V.C15.Proofs5 V.C15.Proofs6.
Local Open Scope Z_scope.

(* no exception  <->  the source has neither a duplicate nor a refused pair *)
Theorem c15_no_error :
  forall (val var : Type) (odesc : nat -> opt) (parser : nat -> str -> option val)
         (store : nat -> val -> var -> var) (fail_write : nat -> str -> var -> var)
         (parsed : list nat) (excl : option (list nat)) (cs : nat -> @cell val var) (src : list (nat * str)),
    (forall o, clean val var (cs o)) ->
    (err_of val var (assign_source val var odesc parser store fail_write parsed excl cs src) = None
     <-> src_ok val odesc parser parsed excl src).
Proof. exact no_error_iff. Qed.
Print Assumptions c15_no_error.

(* ValueError(multiple_occurrences, o, v)  <->  (o,v) is the first bad pair and it is a second occurrence of a
   non-composing, not ignored option within this source *)
Theorem c15_duplicate :
  forall (val var : Type) (odesc : nat -> opt) (parser : nat -> str -> option val)
         (store : nat -> val -> var -> var) (fail_write : nat -> str -> var -> var)
         (parsed : list nat) (excl : option (list nat)) (cs : nat -> @cell val var) (src : list (nat * str)),
    (forall o, clean val var (cs o)) ->
    forall o v,
      err_of val var (assign_source val var odesc parser store fail_write parsed excl cs src) = Some (mkErr ERR_MULTIPLE o v)
      <-> exists pre, dup_at val odesc parser parsed excl src pre o v.
Proof. exact duplicate_iff. Qed.
Print Assumptions c15_duplicate.

(* ValueError(invalid_value, o, v)  <->  (o,v) is the first bad pair and the parser of o refuses v; the error names option and value *)
Theorem c15_invalid :
  forall (val var : Type) (odesc : nat -> opt) (parser : nat -> str -> option val)
         (store : nat -> val -> var -> var) (fail_write : nat -> str -> var -> var)
         (parsed : list nat) (excl : option (list nat)) (cs : nat -> @cell val var) (src : list (nat * str)),
    (forall o, clean val var (cs o)) ->
    forall o v,
      err_of val var (assign_source val var odesc parser store fail_write parsed excl cs src) = Some (mkErr ERR_INVALID_VALUE o v)
      <-> exists pre, bad_at val odesc parser parsed excl src pre o v.
Proof. exact invalid_iff. Qed.
Print Assumptions c15_invalid.

(* one fine source: ignored options are untouched; every other mentioned option is recorded as parsed, is back in
   state unassigned, has received exactly the parser results of its occurrences in order, and its variable was
   written with these values in order; the destructor's assertion holds (no fault) *)
Theorem c15_source_values :
  forall (val var : Type) (odesc : nat -> opt) (parser : nat -> str -> option val)
         (store : nat -> val -> var -> var) (fail_write : nat -> str -> var -> var)
         (parsed : list nat) (excl : option (list nat)) (cs : nat -> @cell val var) (src : list (nat * str)),
    (forall o, clean val var (cs o)) -> src_ok val odesc parser parsed excl src ->
    exists p' cs', assign_source val var odesc parser store fail_write parsed excl cs src = (None, p', cs', false) /\
                   after_source val var odesc parser store parsed excl cs src p' cs'.
Proof. exact source_ok. Qed.
Print Assumptions c15_source_values.

(* the exception path: after a duplicate the state is exactly the state after assigning the pairs before it ... *)
Theorem c15_error_keeps_prefix_dup :
  forall (val var : Type) (odesc : nat -> opt) (parser : nat -> str -> option val)
         (store : nat -> val -> var -> var) (fail_write : nat -> str -> var -> var)
         (parsed : list nat) (excl : option (list nat)) (cs : nat -> @cell val var) (src pre : list (nat * str)) (o : nat) (v : str),
    (forall j, clean val var (cs j)) -> dup_at val odesc parser parsed excl src pre o v ->
    exists p' cs', assign_source val var odesc parser store fail_write parsed excl cs pre = (None, p', cs', false) /\
                   assign_source val var odesc parser store fail_write parsed excl cs src = (Some (mkErr ERR_MULTIPLE o v), p', cs', false).
Proof. exact source_dup. Qed.
Print Assumptions c15_error_keeps_prefix_dup.

(* ... and after a refused value as well, except that the refused string may have written to o's variable
   (never to its state or to its accepted values) *)
Theorem c15_error_keeps_prefix_bad :
  forall (val var : Type) (odesc : nat -> opt) (parser : nat -> str -> option val)
         (store : nat -> val -> var -> var) (fail_write : nat -> str -> var -> var)
         (parsed : list nat) (excl : option (list nat)) (cs : nat -> @cell val var) (src pre : list (nat * str)) (o : nat) (v : str),
    (forall j, clean val var (cs j)) -> bad_at val odesc parser parsed excl src pre o v ->
    exists p' cs0 cs', assign_source val var odesc parser store fail_write parsed excl cs pre = (None, p', cs0, false) /\
                       assign_source val var odesc parser store fail_write parsed excl cs src = (Some (mkErr ERR_INVALID_VALUE o v), p', cs', false) /\
                       (forall j, j <> o -> cs' j = cs0 j) /\
                       c_state (cs' o) = c_state (cs0 o) /\ c_vals (cs' o) = c_vals (cs0 o) /\
                       c_var (cs' o) = fail_write o (eff odesc o v) (c_var (cs0 o)).
Proof. exact source_bad. Qed.
Print Assumptions c15_error_keeps_prefix_bad.

(* after EVERY assign, successful or not: no value is left in state fixed, the guard's assertion holds, `parsed`
   grew by exactly the options that received a value, these are in state unassigned, all others kept their state *)
Theorem c15_recorded :
  forall (val var : Type) (odesc : nat -> opt) (parser : nat -> str -> option val)
         (store : nat -> val -> var -> var) (fail_write : nat -> str -> var -> var)
         (parsed : list nat) (excl : option (list nat)) (cs : nat -> @cell val var) (src : list (nat * str)),
    (forall o, clean val var (cs o)) ->
    exists e p' cs', assign_source val var odesc parser store fail_write parsed excl cs src = (e, p', cs', false) /\
      (forall o, clean val var (cs' o)) /\
      (forall o, mem o p' = true <-> (mem o parsed = true \/ c_vals (cs' o) <> c_vals (cs o))) /\
      (forall o, c_vals (cs' o) <> c_vals (cs o) -> c_state (cs' o) = VALUE_UNASSIGNED) /\
      (forall o, c_vals (cs' o) = c_vals (cs o) -> c_state (cs' o) = c_state (cs o)) /\
      (forall o, exists l, c_vals (cs' o) = c_vals (cs o) ++ l).
Proof. exact recorded_always. Qed.
Print Assumptions c15_recorded.

(* histories of sources that all assign without error: a non-composing option that is not yet recorded gets the
   parser result of its SINGLE occurrence in the FIRST source that mentions it without excluding it; later
   sources, excluded names and already recorded options are ignored *)
Theorem c15_first_wins :
  forall (val var : Type) (odesc : nat -> opt) (parser : nat -> str -> option val)
         (store : nat -> val -> var -> var) (fail_write : nat -> str -> var -> var)
         (h : list (option (list nat) * list (nat * str))) (parsed : list nat) (cs : nat -> @cell val var)
         (es : list (option err)) (p' : list nat) (cs' : nat -> @cell val var) (f : bool),
    (forall o, clean val var (cs o)) ->
    run_sources val var odesc parser store fail_write parsed cs h = (es, p', cs', f) -> all_none es ->
    f = false /\ (forall o, clean val var (cs' o)) /\
    forall o, comp odesc o = false ->
      match (if mem o parsed then None else first_src o h) with
      | None => cs' o = cs o /\ mem o p' = mem o parsed
      | Some (_, src) =>
          mem o p' = true /\ c_state (cs' o) = VALUE_UNASSIGNED /\
          exists v x, In (o, v) src /\ count_occ Nat.eq_dec (map fst src) o = 1%nat /\ parser o (eff odesc o v) = Some x /\
                      c_vals (cs' o) = c_vals (cs o) ++ [x] /\ c_var (cs' o) = store o x (c_var (cs o))
      end.
Proof. exact first_wins. Qed.
Print Assumptions c15_first_wins.

(* composing options receive all their values, in order, across all sources (exclude sets and `parsed` do not matter) *)
Theorem c15_composing :
  forall (val var : Type) (odesc : nat -> opt) (parser : nat -> str -> option val)
         (store : nat -> val -> var -> var) (fail_write : nat -> str -> var -> var)
         (h : list (option (list nat) * list (nat * str))) (parsed : list nat) (cs : nat -> @cell val var)
         (es : list (option err)) (p' : list nat) (cs' : nat -> @cell val var) (f : bool),
    (forall o, clean val var (cs o)) ->
    run_sources val var odesc parser store fail_write parsed cs h = (es, p', cs', f) -> all_none es ->
    forall o, comp odesc o = true ->
      c_vals (cs' o) = c_vals (cs o) ++ flat_map (fun s => accepted val odesc parser o (snd s)) h /\
      c_var (cs' o) = store_all val var store o (flat_map (fun s => accepted val odesc parser o (snd s)) h) (c_var (cs o)) /\
      mem o p' = mem o parsed || existsb (fun s => mentions o (snd s)) h.
Proof. exact composing_all. Qed.
Print Assumptions c15_composing.

(* defaults over the options 0..n-1 in context order: if every needed default is accepted, exactly the options that are
   not recorded as parsed, have a default and are not defaulted yet receive parser(default) and go to state defaulted;
   all other options are untouched *)
Theorem c15_defaults :
  forall (val var : Type) (odesc : nat -> opt) (parser : nat -> str -> option val)
         (store : nat -> val -> var -> var) (fail_write : nat -> str -> var -> var)
         (n : nat) (parsed : list nat) (cs : nat -> @cell val var),
    defaults_valid val var odesc parser parsed cs (seq 0 n) ->
    exists cs', assign_defaults val var odesc parser store fail_write parsed cs (seq 0 n) = (None, cs') /\
      forall o, (In o (seq 0 n) -> forall d, needs_default val var odesc parsed cs o d ->
                   exists x, parser o (eff odesc o d) = Some x /\
                             cs' o = mkCell VALUE_DEFAULTED (c_vals (cs o) ++ [x]) (store o x (c_var (cs o)))) /\
                ((~ In o (seq 0 n) \/ forall d, ~ needs_default val var odesc parsed cs o d) -> cs' o = cs o).
Proof.
  intros val var odesc parser store fail_write n parsed cs H.
  exact (defaults_ok val var odesc parser store fail_write (seq 0 n) parsed cs (seq_NoDup n 0) H).
Qed.
Print Assumptions c15_defaults.

(* otherwise: ValueError(invalid_default) names the FIRST needed default that is refused and its string; the options
   before it received their defaults, the options behind it are untouched *)
Theorem c15_defaults_invalid :
  forall (val var : Type) (odesc : nat -> opt) (parser : nat -> str -> option val)
         (store : nat -> val -> var -> var) (fail_write : nat -> str -> var -> var)
         (n : nat) (parsed : list nat) (cs : nat -> @cell val var),
    ~ defaults_valid val var odesc parser parsed cs (seq 0 n) ->
    exists pre o d post cs0 cs',
      seq 0 n = pre ++ o :: post /\ defaults_valid val var odesc parser parsed cs pre /\
      needs_default val var odesc parsed cs o d /\ parser o (eff odesc o d) = None /\
      assign_defaults val var odesc parser store fail_write parsed cs pre = (None, cs0) /\
      after_defaults val var odesc parser store parsed cs cs0 pre /\
      assign_defaults val var odesc parser store fail_write parsed cs (seq 0 n) = (Some (mkErr ERR_INVALID_DEFAULT o d), cs') /\
      (forall j, j <> o -> cs' j = cs0 j) /\
      c_state (cs' o) = c_state (cs o) /\ c_vals (cs' o) = c_vals (cs o) /\
      c_var (cs' o) = fail_write o (eff odesc o d) (c_var (cs o)).
Proof.
  intros val var odesc parser store fail_write n parsed cs Hnv.
  destruct (defaults_dichotomy val var odesc parser parsed cs (seq 0 n)) as [H | (pre & o & d & post & Heq & Hv & Hn & Hp)]; [contradiction|].
  destruct (defaults_err val var odesc parser store fail_write (seq 0 n) pre o d post parsed cs (seq_NoDup n 0) Heq Hv Hn Hp)
    as (cs0 & cs' & H1 & H2 & H3 & H4 & H5 & H6 & H7).
  exists pre, o, d, post, cs0, cs'.
  split; [exact Heq|]. split; [exact Hv|]. split; [exact Hn|]. split; [exact Hp|]. split; [exact H1|]. split; [exact H2|].
  split; [exact H3|]. split; [exact H4|]. split; [exact H5|]. split; [exact H6 | exact H7].
Qed.
Print Assumptions c15_defaults_invalid.

(* ---- the parsed set may hold names that are NOT options of the context (ParsedOptions::add(name); one ParsedOptions object shared by
   two contexts that read the same command line).  assignDefaults asks ONE question per option of the context - "is this option's own
   name in the set?" - so such names, and with them the SIZE of the set, are irrelevant (in particular a set that holds exactly as
   many names as the context has options does NOT mean that every option was given).  Options are the indices 0..n-1; every other
   index is a foreign name.  Together with c15_defaults / c15_defaults_invalid (which already quantify over EVERY list `parsed`): each
   option whose own name is not in the set and that has a default receives it (state defaulted), options in the set are untouched, and
   an invalid default is reported exactly for an unmentioned option. ---- *)
Theorem c15_defaults_own_names_only :
  forall (val var : Type) (odesc : nat -> opt) (parser : nat -> str -> option val)
         (store : nat -> val -> var -> var) (fail_write : nat -> str -> var -> var)
         (n : nat) (parsed parsed' : list nat) (cs : nat -> @cell val var),
    (forall o, (o < n)%nat -> mem o parsed = mem o parsed') ->
    assign_defaults val var odesc parser store fail_write parsed cs (seq 0 n) =
    assign_defaults val var odesc parser store fail_write parsed' cs (seq 0 n).
Proof.
  intros val var odesc parser store fail_write n parsed parsed' cs H.
  apply defaults_membership_only. intros o Ho. apply in_seq in Ho. apply H. lia.
Qed.
Print Assumptions c15_defaults_own_names_only.

(* any number of foreign names, added in front of (= anywhere in) the set, changes neither the cells nor the reported error *)
Theorem c15_defaults_foreign_names :
  forall (val var : Type) (odesc : nat -> opt) (parser : nat -> str -> option val)
         (store : nat -> val -> var -> var) (fail_write : nat -> str -> var -> var)
         (n : nat) (extra parsed : list nat) (cs : nat -> @cell val var),
    (forall j, In j extra -> (n <= j)%nat) ->
    (assign_defaults val var odesc parser store fail_write (extra ++ parsed) cs (seq 0 n) =
     assign_defaults val var odesc parser store fail_write parsed cs (seq 0 n)) /\
    (assign_defaults val var odesc parser store fail_write parsed cs (seq 0 n) =
     assign_defaults val var odesc parser store fail_write (filter (fun j => (j <? n)%nat) parsed) cs (seq 0 n)).
Proof.
  intros val var odesc parser store fail_write n extra parsed cs H. split.
  - exact (defaults_add_foreign val var odesc parser store fail_write n extra parsed cs H).
  - exact (defaults_ignore_foreign val var odesc parser store fail_write n parsed cs).
Qed.
Print Assumptions c15_defaults_foreign_names.

(* assignDefaults reports an error exactly when the default of an UNMENTIONED option (own name not in the set, default present, not
   defaulted yet) is refused by the option's parser - whatever else the set holds *)
Theorem c15_defaults_reported_iff :
  forall (val var : Type) (odesc : nat -> opt) (parser : nat -> str -> option val)
         (store : nat -> val -> var -> var) (fail_write : nat -> str -> var -> var)
         (n : nat) (parsed : list nat) (cs : nat -> @cell val var),
    fst (assign_defaults val var odesc parser store fail_write parsed cs (seq 0 n)) = None <->
    (forall o d, In o (seq 0 n) -> needs_default val var odesc parsed cs o d -> parser o (eff odesc o d) <> None).
Proof. exact defaults_error_iff. Qed.
Print Assumptions c15_defaults_reported_iff.

(* an empty value string for an option with an implicit value stores the parser's result for the implicit value *)
Theorem c15_implicit :
  forall (val var : Type) (odesc : nat -> opt) (parser : nat -> str -> option val)
         (store : nat -> val -> var -> var) (fail_write : nat -> str -> var -> var)
         (o : nat) (i : str) (x : val) (parsed : list nat) (excl : option (list nat)) (cs : nat -> @cell val var),
    (forall j, clean val var (cs j)) -> skipped odesc parsed excl o = false ->
    o_impl (odesc o) = Some i -> parser o i = Some x ->
    exists p' cs', assign_source val var odesc parser store fail_write parsed excl cs [(o, [])] = (None, p', cs', false) /\
                   mem o p' = true /\ c_state (cs' o) = VALUE_UNASSIGNED /\ c_vals (cs' o) = c_vals (cs o) ++ [x] /\
                   c_var (cs' o) = store o x (c_var (cs o)) /\ forall j, j <> o -> cs' j = cs j.
Proof. exact implicit_used. Qed.
Print Assumptions c15_implicit.

(* ---------------- non-vacuity: the hypotheses are satisfiable by non-trivial states (concrete harness instance) ---------------- *)
Definition ex_opts : list copt :=
  [mkC 2 (mkOpt false None (Some [49; 48]));            (* o0 : int, default "10" *)
   mkC 4 (mkOpt true None None);                          (* o1 : vector<int>, composing *)
   mkC 0 (mkOpt false (Some [49]) None);                  (* o2 : flag *)
   mkC 2 (mkOpt false None (Some [120]))].                (* o3 : int, default "x" (invalid) *)
Definition ex_init : nat -> ccell := fun o => mkCell VALUE_UNASSIGNED [] (k_init (kind_of ex_opts o)).
Definition ex_run := run_sources (list Z) (list Z) (desc_of ex_opts) (c_parser ex_opts) (c_store ex_opts) (c_fail ex_opts).
Definition ex_hist : list (option (list nat) * list (nat * str)) :=
  [(None, [(1%nat, [49]); (2%nat, []); (1%nat, [50; 44; 51])]);                  (* o1=1 o2 o1=2,3 *)
   (Some [2%nat], [(0%nat, [55]); (2%nat, [48]); (1%nat, [52])]);                (* o0=7 o2=0(excluded) o1=4 *)
   (None, [(0%nat, [56]); (2%nat, [48])])].                                      (* o0=8 o2=0 (both already parsed) *)

Example c15_ex_clean : forall o, clean (list Z) (list Z) (ex_init o).
Proof. intros o. left. reflexivity. Qed.

Example c15_ex_history :
  let '(es, p, cs, f) := ex_run [] ex_init ex_hist in
  es = [None; None; None] /\ f = false /\
  c_vals (cs 0%nat) = [[7]] /\ c_vals (cs 1%nat) = [[1]; [2; 3]; [4]] /\ c_var (cs 1%nat) = [1; 2; 3; 4] /\ c_vals (cs 2%nat) = [[1]] /\
  map (fun o => mem o p) [0; 1; 2; 3]%nat = [true; true; true; false].
Proof. vm_compute. repeat split; reflexivity. Qed.

Example c15_ex_all_none : all_none (fst (fst (fst (ex_run [] ex_init ex_hist)))).
Proof. vm_compute. repeat constructor. Qed.

(* a source with a duplicate and one with a refused value, each behind a non-trivial prefix *)
Example c15_ex_dup :
  err_of _ _ (assign_source _ _ (desc_of ex_opts) (c_parser ex_opts) (c_store ex_opts) (c_fail ex_opts) [] None ex_init
                [(1%nat, [49]); (0%nat, [53]); (0%nat, [54])]) = Some (mkErr ERR_MULTIPLE 0%nat [54]).
Proof. vm_compute. reflexivity. Qed.
Example c15_ex_bad :
  err_of _ _ (assign_source _ _ (desc_of ex_opts) (c_parser ex_opts) (c_store ex_opts) (c_fail ex_opts) [] None ex_init
                [(1%nat, [49]); (0%nat, [53; 120])]) = Some (mkErr ERR_INVALID_VALUE 0%nat [53; 120]).
Proof. vm_compute. reflexivity. Qed.
Example c15_ex_src_ok :
  src_ok (list Z) (desc_of ex_opts) (c_parser ex_opts) [] None [(1%nat, [49]); (2%nat, []); (1%nat, [50; 44; 51])].
Proof.
  apply (c15_no_error _ _ (desc_of ex_opts) (c_parser ex_opts) (c_store ex_opts) (c_fail ex_opts) [] None ex_init _ c15_ex_clean).
  vm_compute. reflexivity.
Qed.
(* defaults: the invalid default "x" of o3 is reported, o0 received its default 10 before *)
Example c15_ex_defaults :
  let '(e, cs) := assign_defaults _ _ (desc_of ex_opts) (c_parser ex_opts) (c_store ex_opts) (c_fail ex_opts) [1%nat] ex_init (seq 0 4) in
  e = Some (mkErr ERR_INVALID_DEFAULT 3%nat [120]) /\ cs 0%nat = mkCell VALUE_DEFAULTED [[10]] [10].
Proof. vm_compute. split; reflexivity. Qed.
Example c15_ex_defaults_valid :
  defaults_valid _ _ (desc_of ex_opts) (c_parser ex_opts) [] ex_init (seq 0 3).
Proof.
  intros o d Hin (_ & Hd & _). simpl in Hin.
  destruct Hin as [<-|[<-|[<-|[]]]]; vm_compute in Hd; inversion Hd; subst; vm_compute; discriminate.
Qed.

(* foreign names: o0 : int default "10", o1 : std::string default "auto"; the set holds the two foreign names 9 and 10 - exactly as many
   names as the context has options, none of them an option: both options receive their default; with o0's own name in the set as well
   (three names) o0 is untouched; the run of the harness case `parsed.add("o9","o10") -> defaults` shows size 2 and both states defaulted *)
Definition ex_opts2 : list copt := [mkC 2 (mkOpt false None (Some [49; 48])); mkC 3 (mkOpt false None (Some [97; 117; 116; 111]))].
Definition ex_init2 : nat -> ccell := fun o => mkCell VALUE_UNASSIGNED [] (k_init (kind_of ex_opts2 o)).
Example c15_ex_foreign_equal_size :
  length [9%nat; 10%nat] = length ex_opts2 /\
  (let '(e, cs) := assign_defaults _ _ (desc_of ex_opts2) (c_parser ex_opts2) (c_store ex_opts2) (c_fail ex_opts2) [9%nat; 10%nat] ex_init2 (seq 0 2) in
   e = None /\ cs 0%nat = mkCell VALUE_DEFAULTED [[10]] [10] /\ cs 1%nat = mkCell VALUE_DEFAULTED [[97; 117; 116; 111]] [97; 117; 116; 111]) /\
  (let '(e, cs) := assign_defaults _ _ (desc_of ex_opts2) (c_parser ex_opts2) (c_store ex_opts2) (c_fail ex_opts2) [9%nat; 0%nat; 10%nat] ex_init2 (seq 0 2) in
   e = None /\ cs 0%nat = ex_init2 0%nat /\ c_state (cs 1%nat) = VALUE_DEFAULTED) /\
  run_case [2; 2; 0; 0; 1; 2; 49; 48; 3; 0; 0; 1; 4; 97; 117; 116; 111; 4; 2; 9; 10; 2] =
    [0; 0; 2; VALUE_DEFAULTED; 0; 1; 10; VALUE_DEFAULTED; 0; 4; 97; 117; 116; 111].
Proof. vm_compute. repeat split; reflexivity. Qed.
(* an invalid default ("1x" for an int) of an unmentioned option is reported although the set holds as many names as there are options *)
Example c15_ex_foreign_invalid_default :
  fst (assign_defaults _ _ (desc_of [mkC 2 (mkOpt false None (Some [49; 120]))]) (c_parser [mkC 2 (mkOpt false None (Some [49; 120]))])
         (c_store [mkC 2 (mkOpt false None (Some [49; 120]))]) (c_fail [mkC 2 (mkOpt false None (Some [49; 120]))]) [5%nat]
         (fun o => mkCell VALUE_UNASSIGNED [] (k_init 2)) (seq 0 1)) = Some (mkErr ERR_INVALID_DEFAULT 0%nat [49; 120]).
Proof. vm_compute. reflexivity. Qed.

(* ---------------- several RUNS over the same targets ----------------
   An application may build its option set anew for every run (fresh OptionGroup / OptionContext, fresh storeTo(x) / store<T>(map) /
   flag(map) / notify(..) values) and keep what the values are bound to: the variables, ONE ValueMap for the results.  Model: run_once =
   fresh_cells (every option back in state unassigned with nothing parsed, variable := newrun o variable), then the sources
   (run_sources from an empty parsed set), then assignDefaults; run_runs = run_once after run_once over the same store.
   Spec.after_run n cs h p cs2 (all options o, composing or not):
     o received a value from the sources of THIS run (run_mentioned)  <->  it is recorded in p; then it is back in state unassigned, its
       accepted values are exactly run_values o h (the parser result of the single occurrence in the winning source; for a composing
       option all results of all sources in order), at least one, and its variable = store of THESE values, in order, applied to the
       re-built variable (newrun o (what the earlier runs left));
     otherwise, if o is an option of the context with a default: the parser accepted the default, state defaulted, variable = store of
       THAT value applied to the re-built variable; otherwise (no default / foreign name) the variable is what the earlier runs left. *)
Theorem c15_run_values :
  forall (val var : Type) (odesc : nat -> opt) (parser : nat -> str -> option val)
         (store : nat -> val -> var -> var) (fail_write : nat -> str -> var -> var) (newrun : nat -> var -> var)
         (n : nat) (cs : nat -> @cell val var) (h : list (option (list nat) * list (nat * str)))
         (es : list (option err)) (e : option err) (p : list nat) (cs2 : nat -> @cell val var) (f : bool),
    run_once val var odesc parser store fail_write newrun (seq 0 n) cs h = (es, e, p, cs2, f) -> all_none es -> e = None ->
    f = false /\ after_run val var odesc parser store newrun n cs h p cs2.
Proof. exact run_once_ok. Qed.
Print Assumptions c15_run_values.

(* after EVERY run k of a sequence of runs: its result is run_once over the store the runs 0..k-1 left, and (if the run raised no
   error) that store is related to the run's own sources and defaults by after_run - whatever the earlier runs did *)
Theorem c15_runs :
  forall (val var : Type) (odesc : nat -> opt) (parser : nat -> str -> option val)
         (store : nat -> val -> var -> var) (fail_write : nat -> str -> var -> var) (newrun : nat -> var -> var)
         (n : nat) (cs : nat -> @cell val var) (hs : list (list (option (list nat) * list (nat * str)))) (k : nat)
         (h : list (option (list nat) * list (nat * str))),
    nth_error hs k = Some h ->
    let before := snd (run_runs val var odesc parser store fail_write newrun (seq 0 n) cs (firstn k hs)) in
    let '(es, e, p, cs2, f) := run_once val var odesc parser store fail_write newrun (seq 0 n) before h in
    nth_error (fst (run_runs val var odesc parser store fail_write newrun (seq 0 n) cs hs)) k = Some (es, e, p, f) /\
    snd (run_runs val var odesc parser store fail_write newrun (seq 0 n) cs (firstn (S k) hs)) = cs2 /\
    (all_none es -> e = None -> f = false /\ after_run val var odesc parser store newrun n before h p cs2).
Proof.
  intros val var odesc parser store fail_write newrun n cs hs k h Hk.
  pose proof (run_runs_nth val var odesc parser store fail_write newrun (seq 0 n) cs hs k h Hk) as H. cbv zeta in H |- *.
  destruct (run_once val var odesc parser store fail_write newrun (seq 0 n)
              (snd (run_runs val var odesc parser store fail_write newrun (seq 0 n) cs (firstn k hs))) h)
    as [[[[es e] p] cs2] f] eqn:Eo.
  destruct H as [H1 H2]. split; [exact H1|]. split; [exact H2|].
  intros Hn He. exact (run_once_ok val var odesc parser store fail_write newrun n _ h es e p cs2 f Eo Hn He).
Qed.
Print Assumptions c15_runs.

(* a target that an accepted value REPLACES once the option was re-built (store o x (newrun o v) does not depend on v: every typed
   scalar, and every mapped value - ValueMap::add replaces the entry by the object the fresh value parsed) holds, after a run in
   which it received a value (from a source or its default), exactly what the SAME run leaves over ANY other store: nothing of
   what earlier runs left in the variable / the map survives *)
Theorem c15_run_independent_of_earlier_runs :
  forall (val var : Type) (odesc : nat -> opt) (parser : nat -> str -> option val)
         (store : nat -> val -> var -> var) (fail_write : nat -> str -> var -> var) (newrun : nat -> var -> var)
         (n : nat) (cs cs' : nat -> @cell val var) (h : list (option (list nat) * list (nat * str)))
         (es : list (option err)) (e : option err) (p : list nat) (cs2 : nat -> @cell val var) (f : bool)
         (es' : list (option err)) (e' : option err) (p' : list nat) (cs2' : nat -> @cell val var) (f' : bool),
    run_once val var odesc parser store fail_write newrun (seq 0 n) cs h = (es, e, p, cs2, f) -> all_none es -> e = None ->
    run_once val var odesc parser store fail_write newrun (seq 0 n) cs' h = (es', e', p', cs2', f') -> all_none es' -> e' = None ->
    forall o, overwrites val var store newrun o -> run_received odesc n o h = true -> cs2 o = cs2' o.
Proof. exact run_independent. Qed.
Print Assumptions c15_run_independent_of_earlier_runs.

(* the harness instance: every kind except the appending ones (4 = storeTo(std::vector<int>), 6 = the logging notifier) is replaced,
   in particular every mapped kind 5 / 7 / 8 / 9 whatever the map held before; 4 and 6 append to what the earlier runs left *)
Example c15_ex_overwrites :
  (forall k, In k [0; 1; 2; 3; 5; 7; 8; 9] -> forall x v v', k_store k x (k_newrun k v) = k_store k x (k_newrun k v')) /\
  k_store 4 [5] (k_newrun 4 [1; 2]) = [1; 2; 5] /\ k_store 6 [98] (k_newrun 6 [1; 97]) = [1; 97; 1; 98] /\
  k_view 9 (k_store 9 [9] (k_newrun 9 [1; 1; 2])) = [9] /\ k_view 9 (k_store 9 [9] [1; 1; 2]) = [1; 2; 9].
Proof.
  split.
  - intros k Hin x v v'. simpl in Hin.
    destruct Hin as [<-|[<-|[<-|[<-|[<-|[<-|[<-|[<-|[]]]]]]]]]; try reflexivity; destruct v, v'; reflexivity.
  - vm_compute. repeat split; reflexivity.
Qed.

(* three runs over one ValueMap (o0 = store<int>(map) default "1", o1 = store<vector<int>>(map) composing, o2 = storeTo(string), o3 =
   storeTo(int) default "5"):   run 1: [o0=3 o1=1 o1=2] [o0=4 o2=first o3=8]   run 2: [o1=9] [o0=7 o2=second o1=10]   run 3: [o3=2].
   All hypotheses of c15_runs hold (no error in any run); after run 2 the map holds 7 and [9,10] (not 3 / [1,2,9,10]), o3 is back at
   its default; after run 3 o0 holds its default 1, o1 and o2 keep what run 2 left *)
Definition ex_opts3 : list copt :=
  [mkC 5 (mkOpt false None (Some [49])); mkC 9 (mkOpt true None None); mkC 3 (mkOpt false None None); mkC 2 (mkOpt false None (Some [53]))].
Definition ex_init3 : nat -> ccell := fun o => mkCell VALUE_UNASSIGNED [] (k_init (kind_of ex_opts3 o)).
Definition ex_runs3 : list (list (option (list nat) * list (nat * str))) :=
  [ [(None, [(0%nat, [51]); (1%nat, [49]); (1%nat, [50])]); (None, [(0%nat, [52]); (2%nat, [102; 105; 114; 115; 116]); (3%nat, [56])])];
    [(None, [(1%nat, [57])]); (None, [(0%nat, [55]); (2%nat, [115; 101; 99; 111; 110; 100]); (1%nat, [49; 48])])];
    [(None, [(3%nat, [50])])] ].
Definition ex_many3 := run_runs (list Z) (list Z) (desc_of ex_opts3) (c_parser ex_opts3) (c_store ex_opts3) (c_fail ex_opts3) (c_newrun ex_opts3) (seq 0 4) ex_init3.
Example c15_ex_runs :
  Forall (fun r => all_none (fst (fst (fst r))) /\ snd (fst (fst r)) = None /\ snd r = false) (fst (ex_many3 ex_runs3)) /\
  length (fst (ex_many3 ex_runs3)) = 3%nat /\
  map (fun o => k_view (kind_of ex_opts3 o) (c_var (snd (ex_many3 (firstn 1 ex_runs3)) o))) [0; 1; 2; 3]%nat
    = [[3]; [1; 2]; [102; 105; 114; 115; 116]; [8]] /\
  map (fun o => k_view (kind_of ex_opts3 o) (c_var (snd (ex_many3 (firstn 2 ex_runs3)) o))) [0; 1; 2; 3]%nat
    = [[7]; [9; 10]; [115; 101; 99; 111; 110; 100]; [5]] /\
  map (fun o => k_view (kind_of ex_opts3 o) (c_var (snd (ex_many3 ex_runs3) o))) [0; 1; 2; 3]%nat
    = [[1]; [9; 10]; [115; 101; 99; 111; 110; 100]; [2]] /\
  map (fun o => c_state (snd (ex_many3 ex_runs3) o)) [0; 1; 2; 3]%nat = [VALUE_DEFAULTED; VALUE_UNASSIGNED; VALUE_UNASSIGNED; VALUE_UNASSIGNED].
Proof.
  vm_compute. split; [|repeat split; reflexivity].
  repeat constructor.
Qed.

(* the same through run_case (what the harness prints): [o0 = store<int>(map)] assign(o0='3') -> NEW RUN -> assign(o0='7'): the map holds 7;
   [o0 = store<int>(map) default '1'] assign(o0='3') -> NEW RUN -> defaults: the map holds the default 1, state defaulted;
   [o0 = store<vector<int>>(map) composing] assign(o0='1', o0='2') -> NEW RUN -> assign(o0='9'): the map holds [9] *)
Example c15_ex_runs_case :
  run_case [1; 5; 0; 0; 0; 1; 0; 1; 0; 1; 51; 6; 1; 0; 1; 0; 1; 55] = [0; 0; 1; 0; 1; 1; 3; 0; 0; 1; 0; 1; 1; 7] /\
  run_case [1; 5; 0; 0; 1; 1; 49; 1; 0; 1; 0; 1; 51; 6; 2] = [0; 0; 1; 0; 1; 1; 3; 0; 0; 0; VALUE_DEFAULTED; 0; 1; 1] /\
  run_case [1; 9; 1; 0; 0; 1; 0; 2; 0; 1; 49; 0; 1; 50; 6; 1; 0; 1; 0; 1; 57] = [0; 0; 1; 0; 1; 2; 1; 2; 0; 0; 1; 0; 1; 1; 9].
Proof. vm_compute. repeat split; reflexivity. Qed.

(* ---------------- typed NOTIFIED values: the notification function's answer selects OWNERSHIP, not validity ----------------
   notify<T>(obj, fn, parser) / flag(obj, fn, action) / store<T>(map): NotifiedValue<T>::doParse lets the option's PARSER fill an object (a
   newly created one, or - once an object was kept - that object, in place), calls fn with it iff the parser accepted the string, and
   returns the PARSER's verdict.  fn's return value only says who owns a newly created object: true = the notified context keeps it,
   false = the context copied what it needs and the library deletes it.  Model: the option's variable is the notified context's view,
   Model.nstate (n_log = every delivered object in order, n_held = the object the context owns, n_loc = the value parses in place, n_made /
   n_freed / n_cfreed = objects created / deleted by the library / deleted by the context), store = n_store answer, fail_write = n_fail,
   and the parser of the assignment model is the option's typed parser - [answer] occurs in n_store only.
   All theorems: every option set, typed parser, object model (create / apply / dirt), answer function (it may depend on the option,
   on everything delivered so far and on the delivered object), history of sources WITH OR WITHOUT errors, parsed set, exclude sets. *)

(* Two notification functions - e.g. one that keeps every object and one that declines every object - over the same option set and the
   same history of sources followed by assignDefaults: the same error (or none) for every source, the same names recorded as parsed, the
   same value states and the same accepted parser results for every option after the sources and after the defaults (with c15_first_wins /
   c15_composing / c15_defaults, which hold for ANY store: the same winning occurrence, the same defaults applied), the same error of
   assignDefaults, and the same NUMBER of notifications per option.  Acceptance, recording, first-source-wins and default application are
   independent of the function's answer. *)
Theorem c15_notifier_answer_selects_ownership_only :
  forall (val obj : Type) (odesc : nat -> opt) (parser : nat -> str -> option val)
         (create : nat -> obj) (apply : nat -> val -> obj -> obj) (dirt : nat -> str -> obj -> obj)
         (answer1 answer2 : nat -> list obj -> obj -> bool)
         (h : list (option (list nat) * list (nat * str))) (n : nat) (parsed : list nat)
         (cs1 cs2 : nat -> @cell val (nstate obj))
         (es1 : list (option err)) (p1 : list nat) (c1 : nat -> @cell val (nstate obj)) (f1 : bool) (e1 : option err) (d1 : nat -> @cell val (nstate obj))
         (es2 : list (option err)) (p2 : list nat) (c2 : nat -> @cell val (nstate obj)) (f2 : bool) (e2 : option err) (d2 : nat -> @cell val (nstate obj)),
    agree val (nstate obj) (nstate obj) cs1 cs2 ->
    run_sources val (nstate obj) odesc parser (n_store val obj create apply answer1) (n_fail obj dirt) parsed cs1 h = (es1, p1, c1, f1) ->
    assign_defaults val (nstate obj) odesc parser (n_store val obj create apply answer1) (n_fail obj dirt) p1 c1 (seq 0 n) = (e1, d1) ->
    run_sources val (nstate obj) odesc parser (n_store val obj create apply answer2) (n_fail obj dirt) parsed cs2 h = (es2, p2, c2, f2) ->
    assign_defaults val (nstate obj) odesc parser (n_store val obj create apply answer2) (n_fail obj dirt) p2 c2 (seq 0 n) = (e2, d2) ->
    es1 = es2 /\ p1 = p2 /\ f1 = f2 /\ agree val (nstate obj) (nstate obj) c1 c2 /\
    e1 = e2 /\ agree val (nstate obj) (nstate obj) d1 d2 /\
    (forall o, length (n_log (c_var (d1 o))) + length (n_log (c_var (cs2 o))) =
               length (n_log (c_var (d2 o))) + length (n_log (c_var (cs1 o))))%nat.
Proof.
  intros val obj odesc parser create apply dirt answer1 answer2 h n parsed cs1 cs2 es1 p1 c1 f1 e1 d1 es2 p2 c2 f2 e2 d2.
  exact (answer_indep val obj odesc parser create apply dirt answer1 answer2 h (seq 0 n) parsed cs1 cs2 es1 p1 c1 f1 e1 d1 es2 p2 c2 f2 e2 d2).
Qed.
Print Assumptions c15_notifier_answer_selects_ownership_only.

(* The notification function is called exactly once per accepted occurrence, in order, with the object the accepted string was parsed
   into: across ANY history of sources followed by assignDefaults (errors allowed anywhere) the accepted parser results of every option
   grew by some list xs and the log of delivered objects by a list obs with  Forall2 (fun x ob => exists pv, ob = apply o x pv) xs obs
   (same length, same order; a refused string is never delivered).  Which xs: c15_recorded / c15_first_wins / c15_composing / c15_defaults. *)
Theorem c15_notifier_called_once_per_accepted_value :
  forall (val obj : Type) (odesc : nat -> opt) (parser : nat -> str -> option val)
         (create : nat -> obj) (apply : nat -> val -> obj -> obj) (dirt : nat -> str -> obj -> obj)
         (answer : nat -> list obj -> obj -> bool)
         (h : list (option (list nat) * list (nat * str))) (n : nat) (parsed : list nat) (cs : nat -> @cell val (nstate obj))
         (es : list (option err)) (p : list nat) (c1 : nat -> @cell val (nstate obj)) (f : bool) (e : option err) (d : nat -> @cell val (nstate obj)),
    run_sources val (nstate obj) odesc parser (n_store val obj create apply answer) (n_fail obj dirt) parsed cs h = (es, p, c1, f) ->
    assign_defaults val (nstate obj) odesc parser (n_store val obj create apply answer) (n_fail obj dirt) p c1 (seq 0 n) = (e, d) ->
    forall o, exists xs obs,
      c_vals (d o) = c_vals (cs o) ++ xs /\ n_log (c_var (d o)) = n_log (c_var (cs o)) ++ obs /\
      Forall2 (fun x ob => exists pv, ob = apply o x pv) xs obs.
Proof.
  intros val obj odesc parser create apply dirt answer h n parsed cs es p c1 f e d Hr Hd o.
  exact (proj1 (notified_history val obj odesc parser create apply dirt answer h parsed cs es p c1 f (seq 0 n) e d Hr Hd o)).
Qed.
Print Assumptions c15_notifier_called_once_per_accepted_value.

(* Objects: (1) for ANY answer function the bookkeeping stays balanced - every object the library created for the option was deleted
   exactly once (by the library: declined, or its string was refused; by the context: replaced by a newer object) or is the ONE object
   the context owns, and a value that parses in place has handed its object over;
   (2) a function that always declines, starting from a context that owns nothing: every accepted result x was delivered as a NEW object
   holding exactly x (apply o x (create o)), the context still owns nothing, the value still has no location, and made - freed did not
   change: each declined object (and each object of a refused string) was deleted by the library, exactly once. *)
Theorem c15_notified_objects_accounted :
  forall (val obj : Type) (odesc : nat -> opt) (parser : nat -> str -> option val)
         (create : nat -> obj) (apply : nat -> val -> obj -> obj) (dirt : nat -> str -> obj -> obj)
         (answer : nat -> list obj -> obj -> bool)
         (h : list (option (list nat) * list (nat * str))) (n : nat) (parsed : list nat) (cs : nat -> @cell val (nstate obj))
         (es : list (option err)) (p : list nat) (c1 : nat -> @cell val (nstate obj)) (f : bool) (e : option err) (d : nat -> @cell val (nstate obj)),
    run_sources val (nstate obj) odesc parser (n_store val obj create apply answer) (n_fail obj dirt) parsed cs h = (es, p, c1, f) ->
    assign_defaults val (nstate obj) odesc parser (n_store val obj create apply answer) (n_fail obj dirt) p c1 (seq 0 n) = (e, d) ->
    forall o,
      (accounted obj (c_var (cs o)) -> accounted obj (c_var (d o))) /\
      ((forall l ob, answer o l ob = false) -> owns_nothing obj (c_var (cs o)) ->
       exists xs, c_vals (d o) = c_vals (cs o) ++ xs /\
                  n_log (c_var (d o)) = n_log (c_var (cs o)) ++ map (fun x => apply o x (create o)) xs /\
                  owns_nothing obj (c_var (d o)) /\
                  n_made (c_var (d o)) - n_freed (c_var (d o)) = n_made (c_var (cs o)) - n_freed (c_var (cs o)) /\
                  n_cfreed (c_var (d o)) = n_cfreed (c_var (cs o))).
Proof.
  intros val obj odesc parser create apply dirt answer h n parsed cs es p c1 f e d Hr Hd o.
  exact (proj2 (notified_history val obj odesc parser create apply dirt answer h parsed cs es p c1 f (seq 0 n) e d Hr Hd o)).
Qed.
Print Assumptions c15_notified_objects_accounted.

(* The contrast, for ONE occurrence (o, v) that is not ignored.
   TYPED notifier: if the option's parser accepts the (effective) string, the source is assigned without error, o is recorded as parsed,
   back in state unassigned, received exactly that parser result, and the function was called once with it - WHATEVER it answers. *)
Theorem c15_declined_value_is_accepted :
  forall (val obj : Type) (odesc : nat -> opt) (parser : nat -> str -> option val)
         (create : nat -> obj) (apply : nat -> val -> obj -> obj) (dirt : nat -> str -> obj -> obj)
         (answer : nat -> list obj -> obj -> bool)
         (parsed : list nat) (excl : option (list nat)) (cs : nat -> @cell val (nstate obj)) (o : nat) (v : str) (x : val),
    (forall j, clean val (nstate obj) (cs j)) -> skipped odesc parsed excl o = false -> parser o (eff odesc o v) = Some x ->
    exists p' cs' pv,
      assign_source val (nstate obj) odesc parser (n_store val obj create apply answer) (n_fail obj dirt) parsed excl cs [(o, v)] = (None, p', cs', false) /\
      mem o p' = true /\ c_state (cs' o) = VALUE_UNASSIGNED /\ c_vals (cs' o) = c_vals (cs o) ++ [x] /\
      n_log (c_var (cs' o)) = n_log (c_var (cs o)) ++ [apply o x pv] /\ (forall j, j <> o -> cs' j = cs j).
Proof. exact notified_accepts. Qed.
Print Assumptions c15_declined_value_is_accepted.

(* UNTYPED custom value (notify(obj, fn) with fn(obj, name, const std::string&); CustomValue::doParse = fn's answer; parser =
   Model.custom_parser cb): here the callback's answer IS the validity - true: no error and o is recorded; false:
   ValueError(invalid_value, o, v), nothing recorded, nothing received. *)
Theorem c15_custom_answer_is_validity :
  forall (var : Type) (odesc : nat -> opt) (cb : nat -> str -> bool)
         (store : nat -> str -> var -> var) (fail_write : nat -> str -> var -> var)
         (parsed : list nat) (excl : option (list nat)) (cs : nat -> @cell str var) (o : nat) (v : str),
    (forall j, clean str var (cs j)) -> skipped odesc parsed excl o = false ->
    let r := assign_source str var odesc (custom_parser cb) store fail_write parsed excl cs [(o, v)] in
    (cb o (eff odesc o v) = true -> err_of str var r = None /\ mem o (snd (fst (fst r))) = true) /\
    (cb o (eff odesc o v) = false ->
     err_of str var r = Some (mkErr ERR_INVALID_VALUE o v) /\ snd (fst (fst r)) = parsed /\ c_vals (snd (fst r) o) = c_vals (cs o)).
Proof. exact custom_answer_is_validity. Qed.
Print Assumptions c15_custom_answer_is_validity.

(* non-vacuity.  o0 = notify<int> with default "1", o1 = std::string with default "anon" (the harness' kinds 10 / 14 over the int parser):
   sources [o0=3] then [o0=7 o1=bob], then assignDefaults - with a function that declines every object and with one that keeps every
   object.  All hypotheses hold (initial cells agree, are clean, accounted, own nothing); both runs: no error, both options recorded,
   o0 received exactly [3] (first source wins, default not applied), ONE notification with [3]; declining: 1 object made, 1 deleted by
   the library, nothing held; keeping: 1 made, none deleted, the context holds [3]. *)
Definition ex_nopts : list copt := [mkC 10 (mkOpt false None (Some [49])); mkC 3 (mkOpt false None (Some [97; 110; 111; 110]))].
Definition ex_ninit : nat -> @cell (list Z) (nstate (list Z)) := fun _ => mkCell VALUE_UNASSIGNED [] (mkN false None [] 0 0 0).
Definition ex_nhist : list (option (list nat) * list (nat * str)) :=
  [(None, [(0%nat, [51])]); (None, [(0%nat, [55]); (1%nat, [98; 111; 98])])].
Definition ex_nrun (ans : bool) :=
  let S := n_store (list Z) (list Z) (fun o => k_create (kind_of ex_nopts o)) (fun o => k_store0 (k_base (kind_of ex_nopts o))) (fun _ _ _ => ans) in
  let F := n_fail (list Z) (fun o => k_fail0 (k_base (kind_of ex_nopts o))) in
  let '(es, p, c1, f) := run_sources (list Z) _ (desc_of ex_nopts) (c_parser ex_nopts) S F [] ex_ninit ex_nhist in
  let '(e, d) := assign_defaults (list Z) _ (desc_of ex_nopts) (c_parser ex_nopts) S F p c1 (seq 0 2) in
  (es, e, map (fun o => mem o p) [0; 1]%nat, c_state (d 0%nat), c_vals (d 0%nat), c_var (d 0%nat)).
Example c15_ex_notifier_answers :
  agree (list Z) _ _ ex_ninit ex_ninit /\ (forall j, clean (list Z) _ (ex_ninit j)) /\
  (forall j, accounted (list Z) (c_var (ex_ninit j)) /\ owns_nothing (list Z) (c_var (ex_ninit j))) /\
  ex_nrun false = ([None; None], None, [true; true], VALUE_UNASSIGNED, [[3]], mkN false None [[3]] 1 1 0) /\
  ex_nrun true = ([None; None], None, [true; true], VALUE_UNASSIGNED, [[3]], mkN true (Some [3]) [[3]] 1 0 0).
Proof.
  split; [intros o; split; reflexivity|]. split; [intros j; left; reflexivity|].
  split; [intros j; repeat split; try reflexivity; discriminate|].
  vm_compute. split; reflexivity.
Qed.

(* the same through run_case (what the harness prints; var = made libFreed ctxFreed held clen content.. log..):
   [o0 = notify<int> DECLINES, default '1'] assign(o0='3') -> assign(o0='7') -> defaults: after every step no error, 1 name recorded, state
   unassigned, 1 object made and deleted by the library, log = [3];   the same option with a function that KEEPS: the context holds [3];
   [o0 = notify<vector<int>> declines, composing] assign(o0='1,2', o0='9'): two new objects [1,2] and [9];  keeping: [1,2] then [1,2,9] in place;
   the untyped custom notifier (kind 6) next to a declining int: [o0=5 o1='!x']: o1's answer false IS an error (invalid_value o1 '!x') *)
Example c15_ex_notifier_cases :
  run_case [1; 10; 0; 0; 1; 1; 49; 1; 0; 1; 0; 1; 51; 1; 0; 1; 0; 1; 55; 2] =
    [0; 0; 1; 0; 1; 7; 1; 1; 0; 0; 0; 1; 3;  0; 0; 1; 0; 1; 7; 1; 1; 0; 0; 0; 1; 3;  0; 0; 1; 0; 1; 7; 1; 1; 0; 0; 0; 1; 3] /\
  run_case [1; 14; 0; 0; 1; 1; 49; 1; 0; 1; 0; 1; 51; 1; 0; 1; 0; 1; 55; 2] =
    [0; 0; 1; 0; 1; 8; 1; 0; 0; 1; 1; 3; 1; 3;  0; 0; 1; 0; 1; 8; 1; 0; 0; 1; 1; 3; 1; 3;  0; 0; 1; 0; 1; 8; 1; 0; 0; 1; 1; 3; 1; 3] /\
  run_case [1; 13; 1; 0; 0; 1; 0; 2; 0; 3; 49; 44; 50; 0; 1; 57] = [0; 0; 1; 0; 1; 10; 2; 2; 0; 0; 0; 2; 1; 2; 1; 9] /\
  run_case [1; 17; 1; 0; 0; 1; 0; 2; 0; 3; 49; 44; 50; 0; 1; 57] = [0; 0; 1; 0; 1; 15; 1; 0; 0; 1; 3; 1; 2; 9; 2; 1; 2; 3; 1; 2; 9] /\
  run_case [2; 10; 0; 0; 1; 1; 57; 6; 0; 0; 0; 1; 0; 2; 0; 1; 53; 1; 2; 33; 120] =
    [1 + ERR_INVALID_VALUE; 1; 2; 33; 120; 0; 1; 0; 1; 7; 1; 1; 0; 0; 0; 1; 5; 0; 0; 0].
Proof. vm_compute. repeat split; reflexivity. Qed.

(* ---- sources filled BY NAME: ParsedValues::add(const std::string& name, const std::string& value) = tryFind(name.c_str(), find_name) ----
   [key_of id k]: k is a key under which the context's index holds option id - its long name, or "-a" for its alias character a.
   A by-name pair (key, v) of a source over a context of n options denotes the pair (id, v) of the FIRST option (declaration order; the keys
   of a context are pairwise different, so: of THE option) one of whose keys EQUALS the key read as a C string; if the key equals no key of
   the context - a strict prefix of a name (unambiguous or not), an extension of a name, the bare alias character, an unknown or empty key -
   the pair denotes nothing: it vanishes from the source (nothing is thrown, no option counts as mentioned). *)
Theorem c15_by_name_exact_only :
  forall (n : nat) (key v : str),
    match resolve n key with
    | Some id => denote_pair n (inr (key, v)) = [(id, v)] /\ (id < n)%nat /\ key_of id (cstr key) /\
                 (forall j, (j < id)%nat -> ~ key_of j (cstr key))
    | None => denote_pair n (inr (key, v)) = [] /\ forall id, (id < n)%nat -> ~ key_of id (cstr key)
    end.
Proof. exact by_name_exact_only. Qed.
Print Assumptions c15_by_name_exact_only.

Theorem c15_by_name_key_denotes :
  forall (n : nat) (key v : str) (id : nat),
    (id < n)%nat -> key_of id (cstr key) -> (forall j, (j < id)%nat -> ~ key_of j (cstr key)) ->
    denote_pair n (inr (key, v)) = [(id, v)].
Proof. exact by_name_key_denotes. Qed.
Print Assumptions c15_by_name_key_denotes.

(* the source is decoded pair by pair, so a by-name pair whose key is no key of the context can be deleted from the source: every theorem
   above about [assign_source .. src] then speaks about the source WITHOUT that pair *)
Theorem c15_by_name_other_keys_vanish :
  forall (n : nat) (a b : list npair) (key v : str),
    (forall id, (id < n)%nat -> ~ key_of id (cstr key)) ->
    denote_src n (a ++ inr (key, v) :: b) = denote_src n (a ++ b).
Proof. intros n a b key v. apply denote_src_drop. Qed.
Print Assumptions c15_by_name_other_keys_vanish.

(* non-vacuity.  The names of the harness (limit/-l, level, length, lim/-m, o4, o5, ..): the first 64 names are pairwise different and no name
   is an alias key; in a context of 5 options "lim" is option 3 (an exact name although a prefix of "limit"), "o4" option 4, "o5" nothing,
   "lim\0x" is read as "lim", "-m" is the alias key of option 3, the bare "m" is nothing.
   Through run_case: [limit:int level:int length:vector<int>+composing lim:int]
     by-name source (lim=1 limi=2 le=3 len=4 limitx=5 l=6 ''=7 -l=8 length=9): no error, 3 names recorded: limit=8 (through its alias key),
       length=[9], lim=1; level untouched (-777) and NOT recorded - the strict prefixes (unique: limi, len; ambiguous: le, l), the extension and
       the empty key vanished;
     then (by name limit=5; by pointer level=6; by name len=7): limit keeps 8 (first source wins), level=6, length still [9]. *)
Example c15_ex_by_name :
  forallb (fun i => forallb (fun j => Bool.eqb (is_key i (opt_name j)) (Nat.eqb i j)) (seq 0 64)) (seq 0 64) = true /\
  map (resolve 5) [[108;105;109]; [111;52]; [111;53]; [108;105;109;0;120]; [45; 109]; [109]] =
    [Some 3%nat; Some 4%nat; None; Some 3%nat; Some 3%nat; None] /\
  run_case [4; 2; 0; 0; 0; 2; 0; 0; 0; 4; 1; 0; 0; 2; 0; 0; 0; 7; 0; 9; 1; 3;
        108; 105; 109; 1; 49; 1; 4; 108; 105; 109; 105; 1; 50; 1; 2; 108;
        101; 1; 51; 1; 3; 108; 101; 110; 1; 52; 1; 6; 108; 105; 109; 105;
        116; 120; 1; 53; 1; 1; 108; 1; 54; 1; 0; 1; 55; 1; 2; 45; 108; 1; 56;
        1; 6; 108; 101; 110; 103; 116; 104; 1; 57; 7; 0; 3; 1; 5; 108; 105;
        109; 105; 116; 1; 53; 0; 1; 1; 54; 1; 3; 108; 101; 110; 1; 55] =
    [0; 0; 3; 0; 1; 1; 8; 0; 0; 1; -777; 0; 1; 1; 9; 0; 1; 1; 1;
     0; 0; 4; 0; 1; 1; 8; 0; 1; 1; 6; 0; 1; 1; 9; 0; 1; 1; 1].
Proof. vm_compute. repeat split; reflexivity. Qed.
