(* C17 - String builder content equals the appended text and never leaves its buffer.
   Model: V.C17.Model (cells of the 64-byte union / caller array / std::string), abstract builder: V.C17.Spec.
   Kinds: 0 StringBuilder(), 1 StringBuilder(std::string&), 2 (buf, cap, Fixed), 3 (buf, cap, Dynamic).
   ok_op only demands what decode_ops guarantees: run lengths / resize targets >= 0, numbers are 64-bit patterns. *)
Require Import V.Lib.Base V.Lib.Dec V.Gen.Consts_C17 V.C17.Model V.C17.Spec V.C17.ProofsProps V.C17.ProofsRun V.C17.ProofsDecode.
Local Open Scope Z_scope.

(* All operation sequences, all four kinds, every capacity >= 0 (0 and 1 included): after the constructor and after
   every operation the record (exception, size(), the bytes c_str()[0..size), c_str()[size], maxSize(), errno==ERANGE,
   "no store outside a region") of the cell-level model equals the record of the abstract builder, i.e.
   reported text = abstract text, size = its length, the terminator is 0, nothing faulted. *)
Theorem c17_refines : forall k cap ini ops, 0 <= k <= 3 -> 0 <= cap -> Forall ok_op ops ->
  run k cap ini ops = arun k cap ini ops.
Proof. exact run_refines. Qed.
Print Assumptions c17_refines.

(* The same for run_case, the function the correspondence check executes on every generated case: for EVERY list of
   integers with a kind in 0..3 and a capacity >= 0 (decode_xops only produces operations that satisfy ok_xop); cases may
   contain appends from the builder's own text (op 9, see c17_refines_self below). *)
Theorem c17_refines_cases : forall k cap r, 0 <= k <= 3 -> 0 <= cap ->
  run_case (k :: cap :: r) = arun_case (k :: cap :: r).
Proof. exact run_case_refines. Qed.
Print Assumptions c17_refines_cases.

(* the same, state by state *)
Theorem c17_reported : forall k cap ini ops, 0 <= k <= 3 -> 0 <= cap -> Forall ok_op ops ->
  let s := reach k cap ini ops in
  let a := areach k cap ini ops in
  fault s = false /\ c_text s = atext a /\ c_size s = len (atext a) /\ c_term s = 0 /\ max_size s = amax a.
Proof. exact reported. Qed.
Print Assumptions c17_reported.

(* size() == strlen(c_str()) whenever no NUL byte is part of the text *)
Theorem c17_size_is_strlen : forall k cap ini ops, 0 <= k <= 3 -> 0 <= cap -> Forall ok_op ops ->
  let s := reach k cap ini ops in
  nul_free (c_text s) -> len (cut0 (c_text s ++ [c_term s])) = c_size s.
Proof. exact strlen_is_size. Qed.
Print Assumptions c17_size_is_strlen.

(* Fixed array: in every reachable state, every append-like operation (bytes, C string, run, number, format)
   raises nothing, stores nothing outside [buf, buf+cap) (no Fault: every store of the model is range-checked),
   keeps the longest prefix that fits and sets errno = ERANGE iff something was cut. *)
Theorem c17_fixed : forall cap ini ops o, 0 <= cap -> Forall ok_op ops -> ok_op o -> is_append o = true ->
  let s := reach 2 cap ini ops in
  let room := limit_of cap - c_size s in
  fault s = false /\ 0 <= room /\ fst (step s o) = 0 /\ fault (snd (step s o)) = false /\
  c_text (snd (step s o)) = c_text s ++ zfirstn room (piece o) /\
  (erange (snd (step s o)) = true <-> room < len (piece o)) /\
  c_size (snd (step s o)) <= limit_of cap.
Proof. exact fixed_step. Qed.
Print Assumptions c17_fixed.

(* ... and no operation sequence at all (resize and clear included) makes a fixed-array builder fault *)
Theorem c17_fixed_never_faults : forall cap ini ops, 0 <= cap -> Forall ok_op ops -> fault (reach 2 cap ini ops) = false.
Proof. exact fixed_never_faults. Qed.
Print Assumptions c17_fixed_never_faults.

Theorem c17_fixed_history : forall cap ini ops, 0 <= cap -> Forall ok_op ops -> forallb is_append ops = true ->
  c_text (reach 2 cap ini ops) = zfirstn (limit_of cap) (pieces ops).
Proof. exact fixed_history. Qed.
Print Assumptions c17_fixed_history.

(* The other three kinds never lose a byte and never report ERANGE. *)
Theorem c17_never_truncates : forall k cap ini ops o, k = 0 \/ k = 1 \/ k = 3 -> 0 <= cap -> Forall ok_op ops -> ok_op o ->
  is_append o = true ->
  let s := reach k cap ini ops in
  fst (step s o) = 0 /\ fault (snd (step s o)) = false /\
  c_text (snd (step s o)) = c_text s ++ piece o /\ erange (snd (step s o)) = false /\
  max_size (snd (step s o)) = -1.
Proof. exact unbounded_step. Qed.
Print Assumptions c17_never_truncates.

(* reported text = concatenation of everything appended, after the initial content of a caller's string *)
Theorem c17_concatenation : forall k cap ini ops, k = 0 \/ k = 1 \/ k = 3 -> 0 <= cap -> Forall ok_op ops ->
  forallb is_append ops = true ->
  c_text (reach k cap ini ops) = (if k =? 1 then ini else []) ++ pieces ops.
Proof. exact concatenation. Qed.
Print Assumptions c17_concatenation.

(* a number's piece is its decimal representation (independent definition V.Lib.Dec.print_nat) *)
Theorem c17_number_text : forall u p, 0 <= u < two64 ->
  num_text u p = Some (if p then print_nat u else 45 :: print_nat ((two64 - u) mod two64)).
Proof. exact ProofsNum.num_text_piece. Qed.
Print Assumptions c17_number_text.

(* ---- appends whose SOURCE is the builder's own current text (aliasing) ----
   sb.append(sb.c_str() + off, n), sb.append(sb.toSpan().first + off, n), sb.append(sb.c_str() + off): Model.xop /
   Model.resolve give them VALUE semantics - the appended bytes are the slice of the text the builder reports when the
   call is made.  Histories over xop (plain operations and self-appends mixed) refine the abstract builder ... *)
Theorem c17_refines_self : forall k cap ini xs, 0 <= k <= 3 -> 0 <= cap -> Forall ok_xop xs ->
  run_x k cap ini xs = arun_x k cap ini xs.
Proof. exact run_x_refines. Qed.
Print Assumptions c17_refines_self.

(* ... and reach nothing new: every such history has the records and the final state of a history of plain operations,
   so every theorem above about `reach k cap ini ops` speaks about the states reached with self-appends as well. *)
Theorem c17_self_histories : forall k cap ini xs, Forall ok_xop xs ->
  exists ops, Forall ok_op ops /\ run_x k cap ini xs = run k cap ini ops /\ reach_x k cap ini xs = reach k cap ini ops.
Proof. exact self_histories. Qed.
Print Assumptions c17_self_histories.

(* Self-append of the slice [off, off+n) of the current text, in EVERY reachable state of EVERY builder kind (inline,
   caller's std::string, fixed array, spilling array, before and after a spill), for all off and n (clamped to the text;
   inside the text the slice has exactly n bytes): no exception, no Fault, the text becomes text ++ slice - on a fixed array
   text ++ the longest prefix of the slice that fits, with ERANGE iff something was cut - and the result is
   indistinguishable (exception, text, size, errno flag, Fault) from ANY foreign append-like operation (bytes, C string,
   run, number, format) that contributes the same bytes: exactly the truncation rules of c17_fixed / c17_never_truncates. *)
Theorem c17_self_append : forall k cap ini ops off n, 0 <= k <= 3 -> 0 <= cap -> Forall ok_op ops ->
  let s := reach k cap ini ops in
  let d := slice (c_text s) off n in
  let s' := snd (step s (resolve s (XSelf off n))) in
  let room := limit_of cap - c_size s in
  (0 <= off -> 0 <= n -> off + n <= c_size s -> len d = n) /\
  fst (step s (resolve s (XSelf off n))) = 0 /\ fault s' = false /\
  c_text s' = c_text s ++ (if k =? 2 then zfirstn room d else d) /\
  (erange s' = true <-> k = 2 /\ room < len d) /\
  (k = 2 -> 0 <= room /\ c_size s' <= limit_of cap) /\
  (k <> 2 -> max_size s' = -1) /\
  (forall o, ok_op o -> is_append o = true -> piece o = d ->
     let t := snd (step s o) in
     fst (step s o) = 0 /\ c_text t = c_text s' /\ c_size t = c_size s' /\ erange t = erange s' /\ fault t = false).
Proof.
  intros k cap ini ops off n Hk Hc Hok. cbv zeta. split.
  - intros H1 H2 H3. apply len_slice; try assumption.
    destruct (reported k cap ini ops Hk Hc Hok) as (_ & V2 & V3 & _). rewrite V2, <- V3. exact H3.
  - exact (self_append k cap ini ops (XSelf off n) Hk Hc Hok I).
Qed.
Print Assumptions c17_self_append.

(* the C-string flavour sb.append(sb.c_str() + off): the piece is the text from off up to its first NUL byte *)
Theorem c17_self_append_cstr : forall k cap ini ops off, 0 <= k <= 3 -> 0 <= cap -> Forall ok_op ops ->
  let s := reach k cap ini ops in
  let d := cut0 (suffix (c_text s) off) in
  let s' := snd (step s (resolve s (XSelfC off))) in
  let room := limit_of cap - c_size s in
  fst (step s (resolve s (XSelfC off))) = 0 /\ fault s' = false /\
  c_text s' = c_text s ++ (if k =? 2 then zfirstn room d else d) /\
  (erange s' = true <-> k = 2 /\ room < len d) /\
  (k = 2 -> 0 <= room /\ c_size s' <= limit_of cap) /\
  (k <> 2 -> max_size s' = -1) /\
  (forall o, ok_op o -> is_append o = true -> piece o = d ->
     let t := snd (step s o) in
     fst (step s o) = 0 /\ c_text t = c_text s' /\ c_size t = c_size s' /\ erange t = erange s' /\ fault t = false).
Proof. intros k cap ini ops off Hk Hc Hok. exact (self_append k cap ini ops (XSelfC off) Hk Hc Hok I). Qed.
Print Assumptions c17_self_append_cstr.

(* ---- non-vacuity and boundaries (computed) ---- *)
Definition az (n : Z) : list Z := zrepeat 97 n.
Definition ops_ok_b (ops : list op) : bool :=
  forallb (fun o => match o with
                    | OFill n _ | OResize n _ => 0 <=? n
                    | ONum u _ => (0 <=? u) && (u <? two64)
                    | _ => true end) ops.
Definition last_state k cap ini ops := let s := reach k cap ini ops in (c_size s, c_term s, tag s, b2z (erange s), b2z (fault s)).

(* the hypotheses are satisfiable by a history that uses every operation *)
Example c17_hyps_nontrivial :
  let ops := [OBytes [97;98]; OCstr [99;0;100]; OFill 3 120; ONum 18446744073709551604 false;
              OFormat [37 - 1] (Some [55;33]); OResize 4 35; OClear; OFill 18446744073709551615 121] in
  Forall ok_op ops /\ c_text (reach 2 8 [] ops) = zrepeat 121 7 /\ fault (reach 2 8 [] ops) = false.
Proof. cbv zeta. split; [repeat constructor; cbn; try lia; try discriminate | split; vm_compute; reflexivity]. Qed.

(* inline buffer: 62 / 63 / 64 characters; at 63 the terminator IS the tag byte (tag = 0), at 64 the builder spills *)
Example c17_boundary_sbo_62 : last_state 0 0 [] [OBytes (az 62)] = (62, 0, 1, 0, 0).
Proof. vm_compute. reflexivity. Qed.
Example c17_boundary_sbo_63 : last_state 0 0 [] [OBytes (az 63)] = (63, 0, 0, 0, 0).
Proof. vm_compute. reflexivity. Qed.
Example c17_boundary_sbo_64 : last_state 0 0 [] [OBytes (az 64)] = (64, 0, 65, 0, 0).
Proof. vm_compute. reflexivity. Qed.
(* formatted append whose expansion equals the free space exactly (n == free): the second pass writes the
   terminator onto the tag byte, which is 0 at that moment *)
Example c17_boundary_sbo_format_exact : last_state 0 0 [] [OBytes (az 60); OFormat [] (Some [98;98;98])] = (63, 0, 0, 0, 0).
Proof. vm_compute. reflexivity. Qed.
Example c17_boundary_sbo_format_62 : last_state 0 0 [] [OBytes (az 60); OFormat [] (Some [98;98])] = (62, 0, 1, 0, 0).
Proof. vm_compute. reflexivity. Qed.
Example c17_boundary_sbo_format_64 : last_state 0 0 [] [OBytes (az 60); OFormat [] (Some [98;98;98;98])] = (64, 0, 65, 0, 0).
Proof. vm_compute. reflexivity. Qed.
Example c17_boundary_sbo_full_format : last_state 0 0 [] [OBytes (az 63); OFormat [] (Some [98])] = (64, 0, 65, 0, 0).
Proof. vm_compute. reflexivity. Qed.
(* caller's array of 8 cells: pieces of cap-2 / cap-1 / cap / cap+1 characters, plain and formatted *)
Example c17_boundary_fixed_plain :
  map (fun n => last_state 2 8 [] [OBytes (az n)]) [6; 7; 8; 9] = [(6, 0, 128, 0, 0); (7, 0, 128, 0, 0); (7, 0, 128, 1, 0); (7, 0, 128, 1, 0)].
Proof. vm_compute. reflexivity. Qed.
Example c17_boundary_fixed_format :
  map (fun n => last_state 2 8 [] [OFormat [120] (Some (az n))]) [5; 6; 7; 8] = [(6, 0, 128, 0, 0); (7, 0, 128, 0, 0); (7, 0, 128, 1, 0); (7, 0, 128, 1, 0)].
Proof. vm_compute. reflexivity. Qed.
Example c17_boundary_spill :
  map (fun n => last_state 3 8 [] [OFormat [120] (Some (az n))]) [5; 6; 7; 8] = [(6, 0, 129, 0, 0); (7, 0, 129, 0, 0); (8, 0, 65, 0, 0); (9, 0, 65, 0, 0)].
Proof. vm_compute. reflexivity. Qed.
(* capacities 0 and 1 hold nothing; every append is cut *)
Example c17_boundary_cap_0_1 :
  map (fun cap => last_state 2 cap [] [OBytes [97]; OFormat [] (Some [98])]) [0; 1; 2] = [(0, 0, 128, 1, 0); (0, 0, 128, 1, 0); (1, 0, 128, 1, 0)].
Proof. vm_compute. reflexivity. Qed.
(* run of SIZE_MAX characters on a fixed array (the repaired overflow) *)
Example c17_boundary_huge_run : last_state 2 8 [] [OBytes [97;98]; OFill 18446744073709551615 120] = (7, 0, 128, 1, 0).
Proof. vm_compute. reflexivity. Qed.
Print Assumptions c17_boundary_sbo_format_exact.

(* self-appends at the representation boundaries: an inline builder holding 32 chars appends its whole text (64 > 63: it
   spills while the source is its own inline buffer); 31 chars stay inline (62); a caller's std::string of 15 / 16 chars
   doubles; a spilling array of 8 cells with 5 chars spills; a fixed array of 8 cells keeps "abcde" ++ "ab" with ERANGE *)
Definition self_state k cap ini xs := let s := reach_x k cap ini xs in (c_text s, c_term s, tag s, b2z (erange s), b2z (fault s)).
Example c17_self_sbo_spill : self_state 0 0 [] [XOp (OBytes (az 31 ++ [98])); XSelf 0 32] = (az 31 ++ [98] ++ az 31 ++ [98], 0, 65, 0, 0).
Proof. vm_compute. reflexivity. Qed.
Example c17_self_sbo_inline : self_state 0 0 [] [XOp (OBytes (az 30 ++ [98])); XSelf 0 31] = (az 30 ++ [98] ++ az 30 ++ [98], 0, 1, 0, 0).
Proof. vm_compute. reflexivity. Qed.
Example c17_self_string :
  map (fun n => self_state 1 0 (az n ++ [98]) [XSelfC 0; XSelf 1 2]) [14; 15] =
  [(az 14 ++ [98] ++ az 14 ++ [98] ++ [97; 97], 0, 64, 0, 0); (az 15 ++ [98] ++ az 15 ++ [98] ++ [97; 97], 0, 64, 0, 0)].
Proof. vm_compute. reflexivity. Qed.
Example c17_self_spilling_array : self_state 3 8 [] [XOp (OBytes [97;98;99;100;101]); XSelf 1 3] = ([97;98;99;100;101;98;99;100], 0, 65, 0, 0).
Proof. vm_compute. reflexivity. Qed.
Example c17_self_fixed_cut : self_state 2 8 [] [XOp (OBytes [97;98;99;100;101]); XSelf 0 5; XSelfC 2] = ([97;98;99;100;101;97;98], 0, 128, 1, 0).
Proof. vm_compute. reflexivity. Qed.
(* the hypotheses of c17_self_append are met by a state in the middle of a history, with a proper slice *)
Example c17_self_hyps_nontrivial :
  let ops := [OBytes [97;98;99]; OFormat [120] (Some [55]); OFill 2 46] in
  Forall ok_op ops /\ c_text (reach 3 4 [] ops) = [97;98;99;120;55;46;46] /\ slice (c_text (reach 3 4 [] ops)) 2 4 = [99;120;55;46] /\
  c_text (snd (step (reach 3 4 [] ops) (resolve (reach 3 4 [] ops) (XSelf 2 4)))) = [97;98;99;120;55;46;46;99;120;55;46].
Proof. cbv zeta. split; [repeat constructor; cbn; lia | repeat split; vm_compute; reflexivity]. Qed.

(* offsets / lengths outside the text are clamped to it (the harness clamps in the same way before it forms the pointer) *)
Example c17_self_clamped : self_state 1 0 [97;98] [XSelf (-1) 1099511627776; XSelf 5 2; XSelfC 2; XSelf 1 (-3)] = ([97;98;97;98;97;98], 0, 64, 0, 0).
Proof. vm_compute. reflexivity. Qed.

(* append(double) (op 10 of the case format): the model has no floating point, the case carries the "%g" text of the value
   and the operation IS the formatted piece with an empty literal prefix - so every theorem above covers it (decode1 yields an
   OFormat / OBytes, which satisfy ok_op).  "-1.23457e+100" (13 characters, the longest "%g" text): decoded as a formatted
   piece; kept whole inline and by arrays of >= 14 cells, cut with ERANGE by a fixed array of 13 cells, spilled by a dynamic one *)
Definition g13 : list Z := [45;49;46;50;51;52;53;55;101;43;49;48;48].
Example c17_double_decodes :
  decode1 ([10; 0; -3119143121221894680; 13] ++ g13 ++ [8]) = Some (OFormat [] (Some g13), [8]) /\
  decode1 ([10; 2; -3119143121221894680; 13] ++ g13 ++ [8]) = Some (OBytes g13, [8]).
Proof. split; vm_compute; reflexivity. Qed.
Example c17_double_13_chars :
  map (fun kc => let s := reach (fst kc) (snd kc) [] [OFormat [] (Some g13)] in (c_text s, b2z (erange s), b2z (fault s)))
      [(0, 0); (2, 14); (2, 13); (3, 13)] =
  [(g13, 0, 0); (g13, 0, 0); (firstn 12 g13, 1, 0); (g13, 0, 0)].
Proof. vm_compute. reflexivity. Qed.
