Require Import ExtrOcamlBasic.
Require Import V.C16.Model.
Extraction "model.ml" run_case.
