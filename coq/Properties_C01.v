(* C01 - aspif writer and reader are inverses.  Statements only; proofs in C01/ProofsRoundtrip.v (which builds on
   C03/ProofsProg.v: the writer's text is the canonical rendering of the program). *)
Require Import V.Lib.Base V.Lib.Calls V.C01.Read V.C01.Write V.C01.Wf V.C01.ProofsRoundtrip V.C01.ProofsReread.
Local Open Scope Z_scope.

(* Every program inside the documented ranges (any number of steps and directives, every directive kind incl. theory,
   empty lists, ids up to 2^32-1, strings of arbitrary bytes incl. blanks, newlines, digits) is read back as itself,
   except that weight-0 literals are dropped from weighted bodies and minimize statements.  No size bound. *)
Theorem c01_roundtrip : forall p, wf_trace p -> (forall c, In c p -> wf_call c = true) ->
  read_all (write_prog p) = (norm p, Ok).
Proof. intros p Ht Hc. apply c01_roundtrip_lemma; [exact Ht | apply forallb_forall; exact Hc]. Qed.
Print Assumptions c01_roundtrip.

(* step-by-step reading (parse(Incremental) while more()) and reading in one go give the same calls and the same error, for EVERY text *)
Theorem c01_modes : forall t, read_incr t = read_all t.
Proof. exact c01_modes_lemma. Qed.
Print Assumptions c01_modes.

Theorem c01_roundtrip_incremental : forall p, wf_trace p -> (forall c, In c p -> wf_call c = true) ->
  read_incr (write_prog p) = (norm p, Ok).
Proof. intros. rewrite c01_modes. apply c01_roundtrip; assumption. Qed.
Print Assumptions c01_roundtrip_incremental.

(* "for every aspif text the reader accepts, writing what was read and reading it again reproduces the identical call sequence" *)
Theorem c01_reread : forall t cs, read_all t = (cs, Ok) -> read_all (write_prog cs) = (cs, Ok).
Proof. exact c01_reread_lemma. Qed.
Print Assumptions c01_reread.

(* non-vacuity: a two-step program with every directive kind, boundary values, a weight-0 literal, an id >= 2^31 *)
Definition sample : list call :=
  flatten true [[CRule 1 [1; 2147483647] [-2147483647; 3]; CWRule 0 [] (-2147483648) [(1, 0); (2, 2147483647)];
                 CMin (-1) [(5, -2147483648); (6, 0)]; CProject []; COutput [97; 32; 10; 48; 13] [1]; CExternal 7 3;
                 CAssume [-1]; CHeuristic 2147483647 5 (-7) 2147483647 []; CEdge 0 2147483647 [2];
                 CTNum 4294967295 (-3); CTSym 2147483648 []; CTComp 0 (-3) [4294967295; 0]; CTElem 1 [] [1];
                 CTAtom 0 4000000000 [1]; CTAtomG 9 1 [] 4294967295 2147483648];
                []].
Example sample_wf : wf_trace sample /\ (forall c, In c sample -> wf_call c = true).
Proof.
  split.
  - eexists; eexists. split; [reflexivity | vm_compute; reflexivity].
  - apply forallb_forall. vm_compute. reflexivity.
Qed.
Example sample_norm_differs : norm sample <> sample.
Proof. vm_compute. discriminate. Qed.
Example sample_roundtrip : read_all (write_prog sample) = (norm sample, Ok).
Proof. apply c01_roundtrip; apply sample_wf. Qed.
Example reread_nonvacuous : exists t cs, read_all t = (cs, Ok) /\ t <> write_prog cs.
Proof.
  (* "asp 1 0 0\n1 0 1 +01 0 0\n0" : a laid-out text that is not the writer's own output *)
  exists [97;115;112;32;49;32;48;32;48;10;49;32;48;32;49;32;43;48;49;32;48;32;48;10;48]. eexists. split; [vm_compute; reflexivity | vm_compute; discriminate].
Qed.
