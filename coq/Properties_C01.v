Require Import V.Lib.Base V.Lib.Calls V.C01.Read V.C01.Write.
Local Open Scope Z_scope.
Example c01_smoke : read_all (write_prog [CInit false; CBegin; CEnd]) = ([CInit false; CBegin; CEnd], Ok).
Proof. vm_compute. reflexivity. Qed.
Print Assumptions c01_smoke.
