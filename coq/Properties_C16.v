(* C16 - string <-> value conversion round-trips and rejects what does not fit.
   Statements only; proofs are in C16/Proofs*.v.  Model: C16/Model.v (strtoll/strtoull modelled per ISO C,
   everything else mirrors src/string_convert.cpp / potassco/string_convert.h after the repairs 0a62145, da09cdd, 1681dd2).
   Types: 0 bool, 1 char, 2 int, 3 unsigned, 4 long, 5 unsigned long, 6 long long, 7 unsigned long long, 8.. enums (LP64). *)
Require Import V.Lib.Base V.Lib.Dec V.Gen.Consts_C16.
Require Import V.C16.Model V.C16.Spec V.C16.ProofsBasic V.C16.ProofsRT V.C16.ProofsAcc V.C16.ProofsEnum V.C16.ProofsComp.
Require Import V.C16.ProofsCompElems V.C16.ProofsCompAcc V.C16.ProofsAppend V.C16.ProofsEnumGen V.C16.ProofsStream.
Local Open Scope Z_scope.

(* ================= (1) round trip, ALL values of every integer type ================= *)
(* xconvert reads back exactly v from what xconvert(std::string&, v) printed and stops right behind it - for every v of the
   type (the largest unsigned values are printed as "umax"), for clean and stale errno (e), alone (rest = []) or followed
   by any character that is neither letter nor digit (separator, bracket, white space). *)
Theorem c16_roundtrip_int : forall ty v e rest,
  2 <= ty <= 7 -> ty_min ty <= v <= ty_max ty -> nonalnum rest ->
  exists e', parse_scalar ty e (print_scalar ty v ++ rest) = mkp true v (length (print_scalar ty v)) e'.
Proof. exact roundtrip_int. Qed.
Print Assumptions c16_roundtrip_int.

(* string_cast(toString(v)) = v for every value of bool, the six integer types, and every char except NUL *)
Theorem c16_roundtrip_string_cast : forall ty v e,
  ((2 <= ty <= 7 /\ ty_min ty <= v <= ty_max ty) \/ (ty = 0 /\ (v = 0 \/ v = 1))) \/ (ty = 1 /\ 1 <= v <= 255) ->
  cast_scalar ty e (cut0 (print_scalar ty v)) = Some v.
Proof. exact cast_roundtrip. Qed.
Print Assumptions c16_roundtrip_string_cast.

Theorem c16_roundtrip_bool : forall v e rest, v = 0 \/ v = 1 ->
  parse_scalar 0 e (print_scalar 0 v ++ rest) = mkp true v (length (print_scalar 0 v)) e.
Proof. exact roundtrip_bool. Qed.
Print Assumptions c16_roundtrip_bool.

Theorem c16_roundtrip_char : forall c e rest, 0 <= c <= 255 -> nonalnum rest ->
  parse_scalar 1 e (print_scalar 1 c ++ rest) = mkp true c 1 e.
Proof. exact roundtrip_char. Qed.
Print Assumptions c16_roundtrip_char.

(* KNOWN FINDING char-nul-no-roundtrip: toString('\0') is the one-byte string "\0"; as a C string it is empty *)
Theorem c16_roundtrip_char_nul_refuted : exists c, 0 <= c <= 255 /\ cast_scalar 1 false (cut0 (print_scalar 1 c)) = None.
Proof. exists 0. split; [lia | vm_compute; reflexivity]. Qed.
Print Assumptions c16_roundtrip_char_nul_refuted.

(* what is printed for signed values is the canonical decimal numeral of v *)
Theorem c16_print_signed_canonical : forall v, - 2 ^ 63 <= v < 2 ^ 63 ->
  exists ds, print_signed v = (if v <? 0 then [45] else []) ++ ds /\ all_digits ds /\ ds <> [] /\ value ds = Z.abs v /\
             (hd 0 ds = 48 -> ds = [48]).
Proof. exact print_signed_canonical. Qed.
Print Assumptions c16_print_signed_canonical.

(* ================= (2) accepts-only ================= *)
(* If xconvert accepts (token count != 0) then: the end position is inside the string and something was consumed, the value
   is within the limits of the type, and the consumed text is a documented keyword for that value or a numeral (Spec.v:
   0x/0X hexadecimal, leading-0 octal, else white space / sign / decimal digits; digit runs of ANY length, value in Z)
   denoting exactly the returned value. *)
Theorem c16_accepts_only : forall ty e s, 2 <= ty <= 7 -> p_ok (parse_scalar ty e s) = true ->
  let r := parse_scalar ty e s in
  (0 < p_len r <= length s)%nat /\ ty_min ty <= p_val r <= ty_max ty /\
  (keyword ty (firstn (p_len r) s) (p_val r) \/ numeral (firstn (p_len r) s) (p_val r)).
Proof. exact accepts_only. Qed.
Print Assumptions c16_accepts_only.

(* whole-string conversion succeeds iff xconvert accepts and no character is left *)
Theorem c16_whole_string : forall ty e s v,
  cast_scalar ty e s = Some v <->
  (p_ok (parse_scalar ty e s) = true /\ p_val (parse_scalar ty e s) = v /\ p_len (parse_scalar ty e s) = length s).
Proof. exact whole_string. Qed.
Print Assumptions c16_whole_string.

Theorem c16_whole_string_fails_with_rest : forall ty e s, p_ok (parse_scalar ty e s) = true ->
  (cast_scalar ty e s = None <-> (p_len (parse_scalar ty e s) < length s)%nat \/ (length s < p_len (parse_scalar ty e s))%nat).
Proof. exact cast_fails_with_rest. Qed.
Print Assumptions c16_whole_string_fails_with_rest.

(* ================= (3) enumerations: finite sweep over the generated classes ================= *)
(* For every class the translator found (the library's Head_t Body_t Value_t Heuristic_t Directive_t Theory_t Tuple_t Clause_t Statistics_t
   and the six enumerations harness/h_c16.cpp declares with the public macros: Level_t Sparse_t Neg_t Off_t Unord_t One_t)
   and every (key, value) that find_kv reads out of the stringified macro arguments: the value prints as a key of that value - as this
   key unless another enumerator has the same value (Unord_t: T = R = 2 prints as "R"); the key, the key followed by ",x" and the
   decimal numeral of the value read back as the value (clean and stale errno); isValid holds. *)
Theorem c16_enum_roundtrip : forall t k v e, In t enum_classes -> In (k, v) (ec_entries (ec_of t)) ->
  In (print_enum (ec_of t) v, v) (ec_entries (ec_of t)) /\
  ((forall k', In (k', v) (ec_entries (ec_of t)) -> k' = k) -> print_enum (ec_of t) v = k) /\
  parse_enum (ec_of t) e k = mkp true v (length k) e /\
  parse_enum (ec_of t) e (k ++ [def_sep; 120]) = mkp true v (length k) e /\
  parse_enum (ec_of t) e (print_signed v) = mkp true v (length (print_signed v)) e /\
  ec_valid (ec_of t) v = true.
Proof. exact enum_roundtrip. Qed.
Print Assumptions c16_enum_roundtrip.

(* bound of the sweep: eMin - 8 <= v < eMax + 8 *)
Theorem c16_enum_rejects_non_constants : forall t v, In t enum_classes ->
  ec_min (ec_of t) - 8 <= v < ec_max (ec_of t) + 8 -> ec_valid (ec_of t) v = false ->
  p_ok (parse_enum (ec_of t) false (print_signed v)) = false /\ print_enum (ec_of t) v = [].
Proof. exact enum_rejects_neighbours. Qed.
Print Assumptions c16_enum_rejects_non_constants.

(* for EVERY string: what EnumClass::convert accepts is a key of the class or a numeral / int keyword whose value is a constant *)
Theorem c16_enum_accepts_only : forall ec e x, p_ok (parse_enum ec e x) = true ->
  let r := parse_enum ec e x in
  (0 < p_len r <= length x)%nat /\
  exists k, In (k, p_val r) (ec_entries ec) /\
    (firstn (p_len r) x = k \/ keyword_signed int_min int_max (firstn (p_len r) x) (p_val r) \/ numeral (firstn (p_len r) x) (p_val r)).
Proof. exact parse_enum_sound. Qed.
Print Assumptions c16_enum_accepts_only.

(* ================= (4) pairs and lists ================= *)
(* element types: the six integer types and bool (elem_ok); char and enum elements: section (5) *)
Theorem c16_pair_roundtrip : forall ta tb a b, elem_ok ta a -> elem_ok tb b ->
  cast_pair ta tb false (cut0 (print_pair ta tb a b)) = Some (a, b).
Proof. exact pair_roundtrip_elems. Qed.
Print Assumptions c16_pair_roundtrip.

Theorem c16_list_roundtrip : forall ty l, l <> [] -> Forall (elem_ok ty) l ->
  cast_list ty false (cut0 (print_list ty l)) = (true, l).
Proof. exact list_roundtrip_elems. Qed.
Print Assumptions c16_list_roundtrip.

(* generic form: any element type whose values read back in front of a separator *)
Theorem c16_list_roundtrip_generic : forall ty l, l <> [] -> Forall (rt_ok ty) l -> Forall (good_print ty) l ->
  cast_list ty false (cut0 (print_list ty l)) = (true, l).
Proof. exact list_roundtrip. Qed.
Print Assumptions c16_list_roundtrip_generic.

(* the fuel of the sequence loop is never exhausted *)
Theorem c16_list_fuel : forall ty e x, snd (parse_list ty e x) = false.
Proof. exact parse_list_no_fault. Qed.
Print Assumptions c16_list_fuel.

(* KNOWN FINDING empty-list-no-roundtrip *)
Theorem c16_list_roundtrip_empty_refuted : exists ty, elem_ok ty 0 /\ fst (cast_list ty false (cut0 (print_list ty []))) = false.
Proof. exists 2. split; [left; split; [unfold int_ty; lia | vm_compute; split; discriminate] | vm_compute; reflexivity]. Qed.
Print Assumptions c16_list_roundtrip_empty_refuted.

(* KNOWN FINDING pair-open-paren-char: pair<char,int>('(', 5) *)
Theorem c16_pair_roundtrip_char_paren_refuted : exists a b, cast_pair 1 2 false (cut0 (print_pair 1 2 a b)) <> Some (a, b).
Proof. exists 40, 5. vm_compute. discriminate. Qed.
Print Assumptions c16_pair_roundtrip_char_paren_refuted.

(* KNOWN FINDING list-open-bracket-char: vector<char>{'['} *)
Theorem c16_list_roundtrip_char_bracket_refuted : exists l, l <> [] /\ cast_list 1 false (cut0 (print_list 1 l)) <> (true, l).
Proof. exists [91]. split; [discriminate | vm_compute; discriminate]. Qed.
Print Assumptions c16_list_roundtrip_char_bracket_refuted.

(* ================= (5) pairs and lists over ALL element types ================= *)
(* elem_ok_all ty v: the six integer types (every value), bool, char 1..255, every constant of the nine enumerations
   (enum_const ty v: ty is the code of a generated class and EnumClass::isValid(v)).
   Exclusions, exactly those of the known findings: char NUL (not in elem_ok_all), the char '(' as FIRST component of a
   pair, the char '[' as FIRST element of a list.  ',' ')' ']' '\' and '(' / '[' in any other position are covered. *)
Theorem c16_enum_roundtrip_string_cast : forall ty v e, enum_const ty v -> cast_scalar ty e (cut0 (print_scalar ty v)) = Some v.
Proof. exact cast_roundtrip_enum. Qed.
Print Assumptions c16_enum_roundtrip_string_cast.

Theorem c16_pair_roundtrip_all : forall ta tb a b, elem_ok_all ta a -> elem_ok_all tb b -> ~ (ta = 1 /\ a = pair_open) ->
  cast_pair ta tb false (cut0 (print_pair ta tb a b)) = Some (a, b).
Proof. exact pair_roundtrip_all. Qed.
Print Assumptions c16_pair_roundtrip_all.

Theorem c16_list_roundtrip_all : forall ty l, l <> [] -> Forall (elem_ok_all ty) l -> ~ (ty = 1 /\ hd 0 l = seq_open) ->
  cast_list ty false (cut0 (print_list ty l)) = (true, l).
Proof. exact list_roundtrip_all. Qed.
Print Assumptions c16_list_roundtrip_all.

(* generic forms: the printed forms are non-empty C strings that read back in front of ',' or the end; only the FIRST printed
   character of the pair / list must not be the opening bracket *)
Theorem c16_pair_roundtrip_generic : forall ta tb a b, rt_ok ta a -> rt_ok tb b ->
  cstr (print_scalar ta a) -> cstr (print_scalar tb b) -> hd 0 (print_scalar ta a) <> pair_open ->
  cast_pair ta tb false (cut0 (print_pair ta tb a b)) = Some (a, b).
Proof. exact pair_roundtrip_sharp. Qed.
Print Assumptions c16_pair_roundtrip_generic.

Theorem c16_list_roundtrip_generic_sharp : forall ty l, l <> [] -> Forall (rt_ok ty) l -> Forall (cstr_el ty) l ->
  hd 0 (print_scalar ty (hd 0 l)) <> seq_open ->
  cast_list ty false (cut0 (print_list ty l)) = (true, l).
Proof. exact list_roundtrip_sharp. Qed.
Print Assumptions c16_list_roundtrip_generic_sharp.

(* the three exclusions are necessary - not for one witness only (the ..._refuted theorems above) but for EVERY value of
   that shape: KNOWN FINDINGS pair-open-paren-char, list-open-bracket-char, char-nul-no-roundtrip *)
Theorem c16_pair_char_paren_never : forall tb b, cstr_el tb b ->
  cast_pair 1 tb false (cut0 (print_pair 1 tb pair_open b)) <> Some (pair_open, b).
Proof. exact pair_char_paren_never. Qed.
Print Assumptions c16_pair_char_paren_never.

Theorem c16_list_char_bracket_never : forall l, l <> [] -> Forall (fun v => 1 <= v <= 255) l -> hd 0 l = seq_open ->
  snd (cast_list 1 false (cut0 (print_list 1 l))) <> l.
Proof. exact list_char_bracket_never. Qed.
Print Assumptions c16_list_char_bracket_never.

Theorem c16_list_char_nul_never : forall l, Forall (fun c => 0 <= c <= 255) l -> In 0 l ->
  snd (cast_list 1 false (cut0 (print_list 1 l))) <> l.
Proof. exact list_char_nul_never. Qed.
Print Assumptions c16_list_char_nul_never.

(* ================= (6) accepts-only for every scalar type, pairs and lists ================= *)
(* denotes ty txt v (C16/ProofsCompAcc.v): txt is non-empty and
     bool: txt is a word of the table with value v;   char: txt = [v] or backslash + escape letter for v;
     integer types: v within the limits of the type and txt a documented keyword for v or a numeral denoting exactly v;
     enums: v is a constant of the class and txt is its key, or a numeral / imax / imin with value v.
   For EVERY string x (no hypothesis on x): *)
Theorem c16_scalar_accepts_only : forall ty e x, p_ok (parse_scalar ty e x) = true ->
  (0 < p_len (parse_scalar ty e x) <= length x)%nat /\
  denotes ty (firstn (p_len (parse_scalar ty e x)) x) (p_val (parse_scalar ty e x)).
Proof. exact scalar_sound. Qed.
Print Assumptions c16_scalar_accepts_only.

(* xconvert(pair): token count 0 leaves the target untouched and reports position 0; otherwise the input decomposes into
   optional parentheses, the text of the first component, and either  ',' + text of the second + ')' (count 2, end position
   right behind) or nothing / a swallowed ',' before ')' (count 1: second component untouched, the WHOLE string consumed);
   each delivered component is the denotation of its own text; the end position is inside the string. *)
Theorem c16_pair_accepts_only : forall ta tb ia ib e x sum a b k, parse_pair ta tb ia ib e x = (sum, a, b, k) ->
  (k <= length x)%nat /\
  ((sum = 0 /\ a = ia /\ b = ib /\ k = O) \/
   exists op cl ta_txt, brackets op cl /\ denotes ta ta_txt a /\
     ((sum = 2 /\ exists tb_txt rest, denotes tb tb_txt b /\ x = op ++ ta_txt ++ [def_sep] ++ tb_txt ++ cl ++ rest /\
                                      k = length (op ++ ta_txt ++ [def_sep] ++ tb_txt ++ cl)) \/
      (sum = 1 /\ b = ib /\ k = length x /\
         (x = op ++ ta_txt ++ cl \/ (op = [pair_open] /\ x = op ++ ta_txt ++ [def_sep] ++ cl))))).
Proof. exact pair_sound. Qed.
Print Assumptions c16_pair_accepts_only.

(* convert_seq / xconvert(vector): whatever is delivered, the input decomposes into an optional '[', the element texts joined
   by ',', possibly one swallowed ',' (only if something follows), and the rest; every delivered element is the denotation of
   its own text; the end position is right behind the texts (behind ']' if bracketed) or 0 if the bracket is not closed. *)
Theorem c16_list_accepts_only : forall ty e x els k f, parse_list ty e x = (els, k, f) ->
  (k <= length x)%nat /\ exists txts tsep, Forall2 (denotes ty) txts els /\
  (tsep = [] \/ (tsep = [def_sep] /\ txts <> [])) /\
  ((exists rest, x = join def_sep txts ++ tsep ++ rest /\ (tsep = [] \/ rest <> []) /\ head_is seq_open x = false /\
                 k = length (join def_sep txts ++ tsep)) \/
   (exists rest, x = [seq_open] ++ join def_sep txts ++ tsep ++ [seq_close] ++ rest /\
                 k = length ([seq_open] ++ join def_sep txts ++ tsep ++ [seq_close])) \/
   (exists rest, x = [seq_open] ++ join def_sep txts ++ tsep ++ rest /\ head_is seq_close rest = false /\ k = O)).
Proof. exact list_sound. Qed.
Print Assumptions c16_list_accepts_only.

(* whole-string conversion (string_cast): the string IS the bracketed / unbracketed sequence of element texts *)
Theorem c16_pair_whole_string_shape : forall ta tb e x a b, cast_pair ta tb e x = Some (a, b) ->
  exists op cl ta_txt, brackets op cl /\ denotes ta ta_txt a /\
    ((exists tb_txt, denotes tb tb_txt b /\ x = op ++ ta_txt ++ [def_sep] ++ tb_txt ++ cl) \/
     (b = init_val tb /\ (x = op ++ ta_txt ++ cl \/ x = [pair_open] ++ ta_txt ++ [def_sep] ++ [pair_close]))).
Proof. exact cast_pair_sound. Qed.
Print Assumptions c16_pair_whole_string_shape.

Theorem c16_list_whole_string_shape : forall ty e x els, cast_list ty e x = (true, els) ->
  els <> [] /\ exists txts, Forall2 (denotes ty) txts els /\
    (x = join def_sep txts \/
     exists tsep, (tsep = [] \/ tsep = [def_sep]) /\ x = [seq_open] ++ join def_sep txts ++ tsep ++ [seq_close]).
Proof. exact cast_list_sound. Qed.
Print Assumptions c16_list_whole_string_shape.

(* range: on a string of bytes 1..255 every delivered element lies in the range of its type
   (bool 0/1, char 0..255, integer limits, enum: isValid) *)
Theorem c16_denotes_in_range : forall ty txt v, Forall is_byte txt -> denotes ty txt v -> in_range ty v.
Proof. exact denotes_in_range. Qed.
Print Assumptions c16_denotes_in_range.

Theorem c16_pair_elems_in_range : forall ta tb ia ib e x sum a b k, Forall is_byte x -> parse_pair ta tb ia ib e x = (sum, a, b, k) ->
  (1 <= sum -> in_range ta a) /\ (2 <= sum -> in_range tb b) /\ (sum = 0 \/ sum = 1 \/ sum = 2).
Proof. exact pair_elems_in_range. Qed.
Print Assumptions c16_pair_elems_in_range.

Theorem c16_list_elems_in_range : forall ty e x els k f, Forall is_byte x -> parse_list ty e x = (els, k, f) -> Forall (in_range ty) els.
Proof. exact list_elems_in_range. Qed.
Print Assumptions c16_list_elems_in_range.

(* ================= non-vacuity ================= *)
Example nv_ranges : (ty_min 2 = -2147483648 /\ ty_max 2 = 2147483647) /\ (ty_min 3 = 0 /\ ty_max 3 = 4294967295) /\
  (ty_min 4 = -9223372036854775808 /\ ty_max 5 = 18446744073709551615) /\ (ty_min 6 = ty_min 4 /\ ty_max 7 = ty_max 5).
Proof. vm_compute. repeat split. Qed.
Example nv_extremes_print :
  print_scalar 3 4294967295 = [117; 109; 97; 120] /\ print_scalar 7 18446744073709551615 = [117; 109; 97; 120] /\
  print_scalar 2 (-2147483648) = [45; 50; 49; 52; 55; 52; 56; 51; 54; 52; 56] /\
  cast_scalar 6 true (print_scalar 6 9223372036854775807) = Some 9223372036854775807 /\
  cast_scalar 6 true (print_scalar 6 (-9223372036854775808)) = Some (-9223372036854775808).
Proof. vm_compute. repeat split. Qed.
(* "0x7fffffff", " -12", "017", "imax", "-1" (unsigned) are accepted with the denoted value ... *)
Example nv_accepts :
  cast_scalar 2 false [48; 120; 55; 102; 102; 102; 102; 102; 102; 102] = Some 2147483647 /\
  cast_scalar 2 false [32; 45; 49; 50] = Some (-12) /\ cast_scalar 3 false [48; 49; 55] = Some 15 /\
  cast_scalar 4 false [105; 109; 97; 120] = Some 9223372036854775807 /\ cast_scalar 3 false [45; 49] = Some 4294967295.
Proof. vm_compute. repeat split. Qed.
(* ... "2147483648" (int), "4294967296" (unsigned), " -5" (unsigned long long), 40 nines (every type), "12x" (whole string) are not *)
Example nv_rejects :
  cast_scalar 2 false [50; 49; 52; 55; 52; 56; 51; 54; 52; 56] = None /\
  cast_scalar 3 false [52; 50; 57; 52; 57; 54; 55; 50; 57; 54] = None /\
  cast_scalar 7 false [32; 45; 53] = None /\
  forallb (fun ty => negb (p_ok (parse_scalar ty false (repeat 57 40)))) [2; 3; 4; 5; 6; 7] = true /\
  cast_scalar 2 false [49; 50; 120] = None /\ p_len (parse_scalar 2 false [49; 50; 120]) = 2%nat.
Proof. vm_compute. repeat split. Qed.
Example nv_numeral : numeral [48; 120; 49; 48] 16 /\ numeral [48; 49; 55] 15 /\ numeral [32; 45; 49; 50] (-12).
Proof.
  split; [|split].
  - refine (num_hex 120 [49; 48] _ _ _); [now left | discriminate | repeat constructor].
  - refine (num_oct 49 [55] _ _); [reflexivity | repeat constructor].
  - refine (num_dec [32] [45] [49; 50] (-1) _ _ _ _ _);
      [repeat constructor | right; right; now split | discriminate | repeat constructor | cbn; intros H; discriminate H].
Qed.
Example nv_elem_ok : elem_ok 2 (-2147483648) /\ elem_ok 7 18446744073709551615 /\ elem_ok 0 1 /\
  cast_pair 2 7 false (print_pair 2 7 (-5) 18446744073709551615) = Some (-5, 18446744073709551615) /\
  cast_list 3 false (print_list 3 [1; 4294967295; 0]) = (true, [1; 4294967295; 0]).
Proof.
  split; [left; split; [unfold int_ty; lia | vm_compute; split; discriminate]|].
  split; [left; split; [unfold int_ty; lia | vm_compute; split; discriminate]|].
  split; [right; auto|]. vm_compute. split; reflexivity.
Qed.
Example nv_enum_classes : length enum_classes = 15%nat /\
  map (fun t => length (ec_entries (ec_of t))) enum_classes = [2; 3; 4; 6; 11; 7; 3; 4; 4; 3; 4; 3; 3; 5; 1]%nat.
Proof. vm_compute. split; reflexivity. Qed.
(* char / enum elements: Heuristic_t::Init (type 11, value 3) and Tuple_t::Bracket (14, -3) are constants; a pair of a char and
   an enum constant, a list of chars with ',' '[' ')' and backslash in non-first positions, a list of enum constants *)
Example nv_elem_ok_all : enum_const 11 3 /\ enum_const 14 (-3) /\ elem_ok_all 1 44 /\
  print_pair 1 11 97 3 = [97; 44; 73; 110; 105; 116] /\
  cast_pair 1 11 false (print_pair 1 11 97 3) = Some (97, 3) /\
  cast_pair 14 1 false (print_pair 14 1 (-3) 40) = Some (-3, 40) /\
  cast_list 1 false (print_list 1 [97; 91; 44; 41; 92; 116]) = (true, [97; 91; 44; 41; 92; 116]) /\
  cast_list 10 false (print_list 10 [0; 3; 1]) = (true, [0; 3; 1]).
Proof.
  split; [split; [lia | eexists; split; [vm_compute; reflexivity | vm_compute; reflexivity]]|].
  split; [split; [lia | eexists; split; [vm_compute; reflexivity | vm_compute; reflexivity]]|].
  split; [right; left; lia|]. vm_compute. repeat split.
Qed.
(* NUL inside a pair: pair<int,char>(5, 0) prints as "5,\0" and does not read back; pair<char,int>(0, 5) neither *)
Example nv_pair_nul : cast_pair 2 1 false (cut0 (print_pair 2 1 5 0)) = None /\ cast_pair 1 2 false (cut0 (print_pair 1 2 0 5)) = None.
Proof. vm_compute. split; reflexivity. Qed.
(* accepted composites: "[1,0x10,imax]" as vector<int>, "(on,-1)" as pair<bool,unsigned>, lenient "(1,)" (one token), and the
   hypotheses of the shape theorems are satisfiable; "[1,2" delivers two elements but reports position 0 *)
Example nv_composite_accepts :
  cast_list 2 false [91; 49; 44; 48; 120; 49; 48; 44; 105; 109; 97; 120; 93] = (true, [1; 16; 2147483647]) /\
  cast_pair 0 3 false [40; 111; 110; 44; 45; 49; 41] = Some (1, 4294967295) /\
  parse_pair 2 2 7 8 false [40; 49; 44; 41] = (1, 1, 8, 4%nat) /\
  parse_list 2 false [91; 49; 44; 50] = ([1; 2], O, false) /\
  denotes 2 [48; 120; 49; 48] 16 /\ denotes 0 [111; 110] 1 /\ denotes 1 [92; 116] 9.
Proof.
  split; [vm_compute; reflexivity|]. split; [vm_compute; reflexivity|]. split; [vm_compute; reflexivity|].
  split; [vm_compute; reflexivity|].
  split; [split; [discriminate|]; right; right; left; split; [lia|]; split; [vm_compute; split; discriminate|]; right;
          refine (num_hex 120 [49; 48] _ _ _); [now left | discriminate | repeat constructor]|].
  split; [split; [discriminate|]; left; split; [reflexivity|]; exists 2%nat, true, 2%nat; split; [cbn; tauto | reflexivity]|].
  split; [discriminate|]. right; left. split; [reflexivity|]. right. exists 116. split; reflexivity.
Qed.
Example c16_smoke : run_case [0; 2; 0; 3; 32; 45; 53] = [1; -5; 3; 0; 1; -5].
Proof. vm_compute. reflexivity. Qed.

(* ================= (7) lists written into NON-EMPTY accumulators ================= *)
(* xconvert(std::string& accu, IT begin, IT end, char sep) (Model.v append_seq: a separator in front of every element but the first of THIS call)
   appends exactly the rendering of the list - for EVERY accumulator content, every separator, every element type and list (also the empty list and
   elements that print as ""): nothing depends on what accu already holds.  xconvert(std::string&, const std::vector<T>&) is the instance sep = ','. *)
Theorem c16_list_append : forall ty sep accu l, xconv_range ty sep accu l = accu ++ join sep (map (print_scalar ty) l).
Proof. exact range_spec. Qed.
Print Assumptions c16_list_append.
Theorem c16_list_append_default : forall ty accu l, xconv_list ty accu l = accu ++ print_list ty l.
Proof. exact list_spec. Qed.
Print Assumptions c16_list_append_default.

(* ... and the appended part reads back as the list, whatever the accumulator holds and whatever errno state the reader starts in
   (same exclusions as c16_list_roundtrip_all: empty list, char NUL, char '[' as first element) *)
Theorem c16_list_append_roundtrip : forall ty accu l e, l <> [] -> Forall (elem_ok_all ty) l -> ~ (ty = 1 /\ hd 0 l = seq_open) ->
  cast_list ty e (cut0 (skipn (length accu) (xconv_list ty accu l))) = (true, l).
Proof. exact append_roundtrip_all. Qed.
Print Assumptions c16_list_append_roundtrip.
Theorem c16_list_append_roundtrip_generic : forall ty accu l e, l <> [] -> Forall (rt_ok ty) l -> Forall (cstr_el ty) l ->
  hd 0 (print_scalar ty (hd 0 l)) <> seq_open ->
  cast_list ty e (cut0 (skipn (length accu) (xconv_list ty accu l))) = (true, l).
Proof. exact append_roundtrip. Qed.
Print Assumptions c16_list_append_roundtrip_generic.

(* toString(a, list) = text(a) "," text(list): a NUL-free C string; xconvert reads a from its start and stops at the ',', and string_cast of
   what follows the ',' (in the errno state the first conversion left) returns the list.  toString(a, b, list) likewise, component by component. *)
Theorem c16_tostring2_roundtrip : forall ta a ty l, elem_ok_all ta a -> l <> [] -> Forall (elem_ok_all ty) l -> ~ (ty = 1 /\ hd 0 l = seq_open) ->
  let s := tostring2 ta a ty l in
  s = print_scalar ta a ++ comma :: print_list ty l /\ cut0 s = s /\
  exists e1, parse_scalar ta false s = mkp true a (length (print_scalar ta a)) e1 /\
             skipn (length (print_scalar ta a)) s = comma :: print_list ty l /\
             cast_list ty e1 (print_list ty l) = (true, l).
Proof. exact tostring2_roundtrip_all. Qed.
Print Assumptions c16_tostring2_roundtrip.
Theorem c16_tostring3_roundtrip : forall ta a tb b ty l, elem_ok_all ta a -> elem_ok_all tb b ->
  l <> [] -> Forall (elem_ok_all ty) l -> ~ (ty = 1 /\ hd 0 l = seq_open) ->
  let s := tostring3 ta a tb b ty l in
  let s2 := print_scalar tb b ++ comma :: print_list ty l in
  s = print_scalar ta a ++ comma :: s2 /\ cut0 s = s /\
  exists e1 e2, parse_scalar ta false s = mkp true a (length (print_scalar ta a)) e1 /\
                parse_scalar tb e1 s2 = mkp true b (length (print_scalar tb b)) e2 /\
                cast_list ty e2 (print_list ty l) = (true, l).
Proof. exact tostring3_roundtrip_all. Qed.
Print Assumptions c16_tostring3_roundtrip.

(* the reader with an explicit separator (harness op 8 2) is, for the default separator, the reader of all theorems above *)
Theorem c16_parse_list_default_sep : forall ty e x, parse_list_s def_sep ty e x = parse_list ty e x.
Proof. exact parse_list_s_def. Qed.
Print Assumptions c16_parse_list_default_sep.

(* non-vacuity: toString(3, vector<int>{1,2}) = "3,1,2"; vector<Value_t>{Free,True} appended to "x;" gives "x;Free,True"; the same list with
   separator ';' appended to a bracket; an empty list and a one-element list appended to a non-empty accumulator; the hypotheses hold *)
Example nv_append :
  tostring2 2 3 2 [1; 2] = [51; 44; 49; 44; 50] /\
  tostring3 0 1 7 18446744073709551615 2 [-1] = [116; 114; 117; 101; 44; 117; 109; 97; 120; 44; 45; 49] /\
  xconv_list 10 [120; 59] [0; 1] = [120; 59; 70; 114; 101; 101; 44; 84; 114; 117; 101] /\
  xconv_range 2 59 [91] [7; 8; 9] = [91; 55; 59; 56; 59; 57] /\
  xconv_list 2 [120] [] = [120] /\ xconv_list 2 [120] [5] = [120; 53] /\
  cast_list 2 true (cut0 (skipn 2 (xconv_list 2 [120; 44] [1; 2]))) = (true, [1; 2]).
Proof.
  split; [vm_compute; reflexivity|]. split; [vm_compute; reflexivity|]. split; [vm_compute; reflexivity|].
  split; [vm_compute; reflexivity|]. split; [vm_compute; reflexivity|]. split; [vm_compute; reflexivity|]. vm_compute; reflexivity.
Qed.
Example nv_append_hyps : elem_ok_all 2 3 /\ Forall (elem_ok_all 2) [1; 2] /\ ~ (2 = 1 /\ hd 0 [1; 2] = seq_open) /\ [1; 2] <> [].
Proof.
  assert (E : forall v, -5 <= v <= 5 -> elem_ok_all 2 v).
  { intros v Hv. left. left. split; [unfold int_ty; lia|]. change (ty_min 2) with c_INT_MIN. change (ty_max 2) with c_INT_MAX.
    unfold c_INT_MIN, c_INT_MAX. lia. }
  split; [apply E; lia|]. split; [constructor; [apply E; lia|]; constructor; [apply E; lia | constructor]|]. split; [intros [H _]; discriminate H | discriminate].
Qed.

(* ================= (8) enumerations: EVERY descriptor (rep, min, max), not only the generated classes ================= *)
(* An EnumClass is (stringified macro arguments, min, max): min is the fixed 0 of POTASSCO_ENUM_CONSTANTS or the caller's minVal of
   POTASSCO_ENUM_CONSTANTS_T - it need NOT be a constant (Low = 1, Mid = 2, High = 3 has min 0) - and max is the last enumerator.
   is_const ec v: some enumerator that find_kv reads out of rep has the value v. *)
(* EnumClass::isValid(v) = within the bounds AND in the table - the bounds alone make nothing valid *)
Theorem c16_enum_valid_iff : forall ec v, ec_valid ec v = true <-> (ec_min ec <= v <= ec_max ec /\ is_const ec v).
Proof. exact ec_valid_iff. Qed.
Print Assumptions c16_enum_valid_iff.

(* Numbers.  For EVERY descriptor and EVERY string x that xconvert(const char*, int&) accepts (c16_accepts_only: its consumed text is
   a numeral or imax / imin denoting exactly n = p_val (parse_signed ..), in any base, with any sign / white space / zero padding):
   the enumeration accepts x iff n lies within [min, max] and is a constant; then it delivers exactly n with the same end position
   and errno; otherwise it consumes nothing (it does NOT fall back to the key look-up). *)
Theorem c16_enum_number_accepted_iff : forall ec e x, p_ok (parse_signed e x int_min int_max) = true ->
  let n := parse_signed e x int_min int_max in
  (p_ok (parse_enum ec e x) = true <-> (ec_min ec <= p_val n <= ec_max ec /\ is_const ec (p_val n))) /\
  (p_ok (parse_enum ec e x) = true -> parse_enum ec e x = n) /\
  (p_ok (parse_enum ec e x) = false -> parse_enum ec e x = pfail (p_err n)).
Proof. exact enum_number_iff. Qed.
Print Assumptions c16_enum_number_accepted_iff.

(* Well-formed descriptors (ec_wf): every key is a name (non-empty; does not start with white space, sign, digit, nor with imax / imin),
   keys pairwise different, every constant within [min, max], the bounds are ints - what C++ and the macros guarantee when min <= every
   enumerator <= the last one.  For these: a number is accepted iff it is a constant ... *)
Theorem c16_enum_number_accepted_iff_wf : forall ec e x, ec_wf ec -> p_ok (parse_signed e x int_min int_max) = true ->
  (p_ok (parse_enum ec e x) = true <-> is_const ec (p_val (parse_signed e x int_min int_max))).
Proof. exact enum_number_iff_wf. Qed.
Print Assumptions c16_enum_number_accepted_iff_wf.

(* ... and EVERY constant round-trips: it is written as a key of that value; this key - alone (whole string), or in front of ' ' ',' '='
   (prefix conversion, element of a pair / list) - reads back as v with the end position right behind it and errno untouched; so does
   the decimal numeral of v, alone or in front of any byte that is no letter or digit; isValid(v) holds.  Both errno states. *)
Theorem c16_enum_roundtrip_every_descriptor : forall ec v e, ec_wf ec -> is_const ec v ->
  In (print_enum ec v, v) (ec_entries ec) /\
  (forall rest, key_end rest -> parse_enum ec e (print_enum ec v ++ rest) = mkp true v (length (print_enum ec v)) e) /\
  (forall rest, nonalnum rest -> exists e', parse_enum ec e (print_signed v ++ rest) = mkp true v (length (print_signed v)) e') /\
  ec_valid ec v = true.
Proof. exact enum_roundtrip_gen. Qed.
Print Assumptions c16_enum_roundtrip_every_descriptor.

(* all fifteen generated classes (the library's nine and the harness's six) are well-formed *)
Theorem c16_enum_classes_wf : forall t, In t enum_classes -> ec_wf (ec_of t).
Proof. exact classes_wf. Qed.
Print Assumptions c16_enum_classes_wf.

(* non-vacuity.  Level_t (code 17: "Low = 1, Mid = 2, High = 3", min 0, max 3): 0 lies within the bounds and is no constant - it is
   not valid, is rejected in every spelling ("0" "00" "0x0" "+0" " 0"), as a prefix ("0,Mid": nothing consumed), inside a pair
   ("0,5" as pair<Level_t,int>) and inside lists ("Low,0", "0"); it is written as ""; the constants come back. *)
Example nv_enum_min_not_constant :
  find_enum 17 enum_classes = Some (mkec rep_Level_t 0 3) /\
  ec_valid (mkec rep_Level_t 0 3) 0 = false /\ ~ is_const (mkec rep_Level_t 0 3) 0 /\ is_const (mkec rep_Level_t 0 3) 1 /\
  forallb (fun x => negb (p_ok (parse_scalar 17 false x))) [[48]; [48; 48]; [48; 120; 48]; [43; 48]; [32; 48]; [48; 44; 77; 105; 100]] = true /\
  parse_scalar 17 false [48; 44; 77; 105; 100] = pfail false /\
  cast_pair 17 2 false [48; 44; 53] = None /\ cast_pair 2 17 false [53; 44; 48] = None /\
  fst (cast_list 17 false [76; 111; 119; 44; 48]) = false /\ cast_list 17 false [48] = (false, []) /\
  print_scalar 17 0 = [] /\ print_scalar 17 1 = [76; 111; 119] /\
  cast_scalar 17 false [49] = Some 1 /\ cast_scalar 17 true [48; 120; 51] = Some 3 /\
  cast_pair 17 2 false [77; 105; 100; 44; 53] = Some (2, 5) /\ cast_list 17 false [76; 111; 119; 44; 51] = (true, [1; 3]).
Proof.
  split; [vm_compute; reflexivity|]. split; [vm_compute; reflexivity|].
  split; [intros H; assert (E : ec_valid (mkec rep_Level_t 0 3) 0 = true) by (apply ec_valid_iff; split; [cbn; lia | exact H]); vm_compute in E; discriminate E|].
  split; [exists [76; 111; 119]; vm_compute; left; reflexivity|].
  vm_compute. repeat split.
Qed.
(* the other shapes: holes (Sparse_t 18: 4 5 6 and 0 1), negative and positive minVal that is no constant (Neg_t 19: -5; Off_t 20: 2),
   constants not in increasing order with an alias (Unord_t 21), a single constant (One_t 22) *)
Example nv_enum_shapes :
  map (fun v => ec_valid (mkec rep_Sparse_t 0 8) v) [0; 1; 2; 3; 4; 5; 6; 7; 8; 9] = [false; false; true; true; false; false; false; true; true; false] /\
  map (fun v => ec_valid (mkec rep_Neg_t (-5) 2) v) [-6; -5; -4; -3; -2; -1; 0; 1; 2; 3] = [false; false; false; true; false; true; false; false; true; false] /\
  map (fun v => ec_valid (mkec rep_Off_t 2 8) v) [1; 2; 3; 4; 5; 6; 7; 8; 9] = [false; false; false; true; true; false; false; true; false] /\
  map (fun v => ec_valid (mkec rep_Unord_t 0 9) v) [0; 1; 2; 3; 4; 5; 6; 7; 8; 9; 10] = [false; false; true; true; false; true; false; false; false; true; false] /\
  map (fun v => ec_valid (mkec rep_One_t 0 4) v) [-1; 0; 3; 4; 5] = [false; false; false; true; false] /\
  print_scalar 21 2 = [82] /\ cast_scalar 21 false [84] = Some 2 /\ cast_scalar 19 false [45; 48; 51] = Some (-3) /\ cast_scalar 19 false [45; 53] = None.
Proof. vm_compute. repeat split. Qed.
(* a descriptor that is none of the generated classes satisfies ec_wf: "Lo = 3, Mid, Hi = 7" with min 1, max 7 (constants 3 4 7) *)
Example nv_enum_descriptor :
  let ec := mkec [76; 111; 32; 61; 32; 51; 44; 32; 77; 105; 100; 44; 32; 72; 105; 32; 61; 32; 55] 1 7 in
  ec_wf ec /\ is_const ec 4 /\ ec_entries ec = [([76; 111], 3); ([77; 105; 100], 4); ([72; 105], 7)] /\
  print_enum ec 4 = [77; 105; 100] /\ ec_valid ec 1 = false /\ ec_valid ec 5 = false.
Proof.
  cbn zeta. split; [apply ec_wfb_ok; vm_compute; reflexivity|]. split; [exists [77; 105; 100]; vm_compute; right; left; reflexivity|].
  vm_compute. repeat split.
Qed.
(* the hypotheses of ec_wf are needed: an enumerator whose name starts with imax is not read back ("imaxLevel = 1");
   a constant above max is not accepted as a number ("Hi = 9, Lo = 1": max = the LAST enumerator = 1) *)
Example nv_enum_wf_needed :
  (let ec := mkec [105; 109; 97; 120; 76; 32; 61; 32; 49] 0 1 in
   print_enum ec 1 = [105; 109; 97; 120; 76] /\ p_ok (parse_enum ec false [105; 109; 97; 120; 76]) = false) /\
  (let ec := mkec [72; 105; 32; 61; 32; 57; 44; 32; 76; 111; 32; 61; 32; 49] 0 1 in
   ec_entries ec = [([72; 105], 9); ([76; 111], 1)] /\ p_ok (parse_enum ec false [57]) = false /\ parse_enum ec false [72; 105] = mkp true 9 2 false).
Proof. vm_compute. repeat split. Qed.

(* ================= stream-parsed types: the fall back template xconvert(const char*, T&, const char**, double) =================
   Types without a typed overload (30 signed char, 31 unsigned char, 32 short, 33 unsigned short in harness op 9) are read through a
   std::istream over the string; operator>> is modelled (C16/Model.v, parse_stream) and compared with the real one by the
   correspondence run.  For EVERY string: the reported end position lies inside the string, an accepted text consumed at least one
   character, errno is untouched. *)
Theorem c16_stream_end_inside : forall ty e x,
  (p_len (parse_stream ty e x) <= length x)%nat /\
  (p_ok (parse_stream ty e x) = true -> (1 <= p_len (parse_stream ty e x))%nat) /\
  p_err (parse_stream ty e x) = e.
Proof. intros ty e x. destruct (stream_inside ty e x) as [H1 H2]. split; [exact H1|]. split; [exact H2|]. apply stream_errno. Qed.
Print Assumptions c16_stream_end_inside.

(* short / unsigned short: an accepted decimal text yields a value within the range of the type *)
Theorem c16_stream_short_in_range : forall e x,
  (p_ok (parse_stream 32 e x) = true -> c_SHRT_MIN <= p_val (parse_stream 32 e x) <= c_SHRT_MAX) /\
  (p_ok (parse_stream 33 e x) = true -> 0 <= p_val (parse_stream 33 e x) <= c_USHRT_MAX).
Proof.
  intros e x. split; intros H.
  - apply (stream_num_range true c_SHRT_MIN c_SHRT_MAX e x); [vm_compute; split; discriminate | discriminate | exact H].
  - apply (stream_num_range false 0 c_USHRT_MAX e x); [vm_compute; split; discriminate | reflexivity | exact H].
Qed.
Print Assumptions c16_stream_short_in_range.

(* FINDING (reported, not decided): the 8-bit integer types are read as ONE CHARACTER behind the white space, whatever it is - the
   value is the character code, not the number the text denotes ("7" gives 55, "77" gives 55 and leaves "7") *)
Theorem c16_stream_8bit_is_a_character : forall sgn e x c r,
  drop_while is_space x = c :: r ->
  parse_stream_char sgn e x =
  mkp true (if sgn && (c >? c_SCHAR_MAX) then c - (c_UCHAR_MAX + 1) else c) (S (length (take_while is_space x))) e.
Proof. exact stream_char_value. Qed.
Print Assumptions c16_stream_8bit_is_a_character.
Theorem c16_stream_8bit_number_refuted : exists x, parse_scalar 2 false x = mkp true 7 1 false /\ parse_stream 31 false x = mkp true 55 1 false.
Proof. exists [55]. vm_compute. split; reflexivity. Qed.
Print Assumptions c16_stream_8bit_number_refuted.

(* the pair / sequence templates of the stream section are the ones the typed element types go through *)
Theorem c16_pair_template_instance : forall ta tb ia ib e x,
  parse_pair ta tb ia ib e x = parse_pair_g (parse_scalar ta) (parse_scalar tb) ia ib e x.
Proof. exact pair_template_instance. Qed.
Print Assumptions c16_pair_template_instance.
Theorem c16_seq_template_instance : forall ty fuel maxlen e n acc,
  (length acc + fuel <= maxlen)%nat ->
  seq_loop_g (parse_scalar ty) def_sep fuel maxlen e n acc = seq_loop fuel ty e n acc.
Proof. exact seq_template_instance. Qed.
Print Assumptions c16_seq_template_instance.

(* non-vacuity: the token is the last character(s) of the string / of a pair / of a list; white space; range ends; no base prefix *)
Example nv_stream :
  parse_stream 30 false [55] = mkp true 55 1 false /\ parse_stream 30 true [32; 200; 44] = mkp true (-56) 2 true /\
  parse_stream 31 false [] = pfail false /\ parse_stream 31 false [32] = pfail false /\
  parse_stream 32 false [45; 51; 50; 55; 54; 56] = mkp true (-32768) 6 false /\ p_ok (parse_stream 32 false [51; 50; 55; 54; 56]) = false /\
  parse_stream 33 false [45; 49] = mkp true 65535 2 false /\ p_ok (parse_stream 33 false [54; 53; 53; 51; 54]) = false /\
  parse_stream 32 false [48; 49; 48] = mkp true 10 3 false /\ parse_stream 32 false [48; 120; 49; 48] = mkp true 0 1 false /\
  parse_pair_g (parse_any 30) (parse_any 30) 0 0 false [97; 44; 98] = (2, 97, 98, 3%nat) /\
  parse_pair_g (parse_any 2) (parse_any 31) 0 0 false [49; 50; 44; 122] = (2, 12, 122, 4%nat) /\
  parse_seq_g (parse_any 31) 3 false [120; 44; 121; 44; 122] = ([120; 121; 122], 5%nat, false) /\
  parse_seq_g (parse_any 31) 2 false [120; 44; 121; 44; 122] = ([120; 121], 4%nat, false) /\
  parse_seq_g (parse_any 32) 9 false [91; 49; 44; 50; 93] = ([1; 2], 5%nat, false).
Proof. vm_compute. repeat split. Qed.
