Require Import V.Lib.Base V.C16.Model.
Local Open Scope Z_scope.
Example c16_smoke : run_case [0; 2; 0; 3; 32; 45; 53] = [1; -5; 3; 0; 1; -5].
Proof. vm_compute. reflexivity. Qed.
Print Assumptions c16_smoke.
