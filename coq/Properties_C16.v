(* C16 - string <-> value conversion round-trips and rejects what does not fit.
   Statements only; proofs are in C16/Proofs*.v.  Model: C16/Model.v (strtoll/strtoull modelled per ISO C,
   everything else mirrors src/string_convert.cpp / potassco/string_convert.h after the repairs 9fa71a8, 57fedb9, bbf7497).
   Types: 0 bool, 1 char, 2 int, 3 unsigned, 4 long, 5 unsigned long, 6 long long, 7 unsigned long long, 8.. enums (LP64). *)
Require Import V.Lib.Base V.Lib.Dec V.Gen.Consts_C16.
Require Import V.C16.Model V.C16.Spec V.C16.ProofsBasic V.C16.ProofsRT V.C16.ProofsAcc V.C16.ProofsEnum V.C16.ProofsComp.
Local Open Scope Z_scope.

(* ================= (1) round trip, ALL values of every integer type ================= *)
(* xconvert reads back exactly v from what xconvert(std::string&, v) printed and stops right behind it - for every v of the
   type (the largest unsigned values are printed as "umax"), for clean and stale errno (e), alone (rest = []) or followed
   by any character that is neither letter nor digit (separator, bracket, white space). *)
Theorem c16_roundtrip_int : forall ty v e rest,
  2 <= ty <= 7 -> ty_min ty <= v <= ty_max ty -> nonalnum rest ->
  exists e', parse_scalar ty e (print_scalar ty v ++ rest) = mkp true v (length (print_scalar ty v)) e'.
Proof. exact roundtrip_int. Qed.
Print Assumptions c16_roundtrip_int.

(* string_cast(toString(v)) = v for every value of bool, the six integer types, and every char except NUL *)
Theorem c16_roundtrip_string_cast : forall ty v e,
  ((2 <= ty <= 7 /\ ty_min ty <= v <= ty_max ty) \/ (ty = 0 /\ (v = 0 \/ v = 1))) \/ (ty = 1 /\ 1 <= v <= 255) ->
  cast_scalar ty e (cut0 (print_scalar ty v)) = Some v.
Proof. exact cast_roundtrip. Qed.
Print Assumptions c16_roundtrip_string_cast.

Theorem c16_roundtrip_bool : forall v e rest, v = 0 \/ v = 1 ->
  parse_scalar 0 e (print_scalar 0 v ++ rest) = mkp true v (length (print_scalar 0 v)) e.
Proof. exact roundtrip_bool. Qed.
Print Assumptions c16_roundtrip_bool.

Theorem c16_roundtrip_char : forall c e rest, 0 <= c <= 255 -> nonalnum rest ->
  parse_scalar 1 e (print_scalar 1 c ++ rest) = mkp true c 1 e.
Proof. exact roundtrip_char. Qed.
Print Assumptions c16_roundtrip_char.

(* KNOWN FINDING char-nul-no-roundtrip: toString('\0') is the one-byte string "\0"; as a C string it is empty *)
Theorem c16_roundtrip_char_nul_refuted : exists c, 0 <= c <= 255 /\ cast_scalar 1 false (cut0 (print_scalar 1 c)) = None.
Proof. exists 0. split; [lia | vm_compute; reflexivity]. Qed.
Print Assumptions c16_roundtrip_char_nul_refuted.

(* what is printed for signed values is the canonical decimal numeral of v *)
Theorem c16_print_signed_canonical : forall v, - 2 ^ 63 <= v < 2 ^ 63 ->
  exists ds, print_signed v = (if v <? 0 then [45] else []) ++ ds /\ all_digits ds /\ ds <> [] /\ value ds = Z.abs v /\
             (hd 0 ds = 48 -> ds = [48]).
Proof. exact print_signed_canonical. Qed.
Print Assumptions c16_print_signed_canonical.

(* ================= (2) accepts-only ================= *)
(* If xconvert accepts (token count != 0) then: the end position is inside the string and something was consumed, the value
   is within the limits of the type, and the consumed text is a documented keyword for that value or a numeral (Spec.v:
   0x/0X hexadecimal, leading-0 octal, else white space / sign / decimal digits; digit runs of ANY length, value in Z)
   denoting exactly the returned value. *)
Theorem c16_accepts_only : forall ty e s, 2 <= ty <= 7 -> p_ok (parse_scalar ty e s) = true ->
  let r := parse_scalar ty e s in
  (0 < p_len r <= length s)%nat /\ ty_min ty <= p_val r <= ty_max ty /\
  (keyword ty (firstn (p_len r) s) (p_val r) \/ numeral (firstn (p_len r) s) (p_val r)).
Proof. exact accepts_only. Qed.
Print Assumptions c16_accepts_only.

(* whole-string conversion succeeds iff xconvert accepts and no character is left *)
Theorem c16_whole_string : forall ty e s v,
  cast_scalar ty e s = Some v <->
  (p_ok (parse_scalar ty e s) = true /\ p_val (parse_scalar ty e s) = v /\ p_len (parse_scalar ty e s) = length s).
Proof. exact whole_string. Qed.
Print Assumptions c16_whole_string.

Theorem c16_whole_string_fails_with_rest : forall ty e s, p_ok (parse_scalar ty e s) = true ->
  (cast_scalar ty e s = None <-> (p_len (parse_scalar ty e s) < length s)%nat \/ (length s < p_len (parse_scalar ty e s))%nat).
Proof. exact cast_fails_with_rest. Qed.
Print Assumptions c16_whole_string_fails_with_rest.

(* ================= (3) enumerations: finite sweep over the generated classes ================= *)
(* For every class the translator found (Head_t Body_t Value_t Heuristic_t Directive_t Theory_t Tuple_t Clause_t Statistics_t)
   and every (key, value) that find_kv reads out of the stringified macro arguments: the value prints as its key; the key,
   the key followed by ",x" and the decimal numeral of the value read back as the value (clean and stale errno); isValid holds. *)
Theorem c16_enum_roundtrip : forall t k v e, In t enum_classes -> In (k, v) (ec_entries (ec_of t)) ->
  print_enum (ec_of t) v = k /\
  parse_enum (ec_of t) e k = mkp true v (length k) e /\
  parse_enum (ec_of t) e (k ++ [def_sep; 120]) = mkp true v (length k) e /\
  parse_enum (ec_of t) e (print_signed v) = mkp true v (length (print_signed v)) e /\
  ec_valid (ec_of t) v = true.
Proof. exact enum_roundtrip. Qed.
Print Assumptions c16_enum_roundtrip.

(* bound of the sweep: eMin - 8 <= v < eMax + 8 *)
Theorem c16_enum_rejects_non_constants : forall t v, In t enum_classes ->
  ec_min (ec_of t) - 8 <= v < ec_max (ec_of t) + 8 -> ec_valid (ec_of t) v = false ->
  p_ok (parse_enum (ec_of t) false (print_signed v)) = false /\ print_enum (ec_of t) v = [].
Proof. exact enum_rejects_neighbours. Qed.
Print Assumptions c16_enum_rejects_non_constants.

(* for EVERY string: what EnumClass::convert accepts is a key of the class or a numeral / int keyword whose value is a constant *)
Theorem c16_enum_accepts_only : forall ec e x, p_ok (parse_enum ec e x) = true ->
  let r := parse_enum ec e x in
  (0 < p_len r <= length x)%nat /\
  exists k, In (k, p_val r) (ec_entries ec) /\
    (firstn (p_len r) x = k \/ keyword_signed int_min int_max (firstn (p_len r) x) (p_val r) \/ numeral (firstn (p_len r) x) (p_val r)).
Proof. exact parse_enum_sound. Qed.
Print Assumptions c16_enum_accepts_only.

(* ================= (4) pairs and lists ================= *)
(* element types: the six integer types and bool (elem_ok); char and enum elements are exercised by the correspondence run only *)
Theorem c16_pair_roundtrip : forall ta tb a b, elem_ok ta a -> elem_ok tb b ->
  cast_pair ta tb false (cut0 (print_pair ta tb a b)) = Some (a, b).
Proof. exact pair_roundtrip_elems. Qed.
Print Assumptions c16_pair_roundtrip.

Theorem c16_list_roundtrip : forall ty l, l <> [] -> Forall (elem_ok ty) l ->
  cast_list ty false (cut0 (print_list ty l)) = (true, l).
Proof. exact list_roundtrip_elems. Qed.
Print Assumptions c16_list_roundtrip.

(* generic form: any element type whose values read back in front of a separator *)
Theorem c16_list_roundtrip_generic : forall ty l, l <> [] -> Forall (rt_ok ty) l -> Forall (good_print ty) l ->
  cast_list ty false (cut0 (print_list ty l)) = (true, l).
Proof. exact list_roundtrip. Qed.
Print Assumptions c16_list_roundtrip_generic.

(* the fuel of the sequence loop is never exhausted *)
Theorem c16_list_fuel : forall ty e x, snd (parse_list ty e x) = false.
Proof. exact parse_list_no_fault. Qed.
Print Assumptions c16_list_fuel.

(* KNOWN FINDING empty-list-no-roundtrip *)
Theorem c16_list_roundtrip_empty_refuted : exists ty, elem_ok ty 0 /\ fst (cast_list ty false (cut0 (print_list ty []))) = false.
Proof. exists 2. split; [left; split; [unfold int_ty; lia | vm_compute; split; discriminate] | vm_compute; reflexivity]. Qed.
Print Assumptions c16_list_roundtrip_empty_refuted.

(* KNOWN FINDING pair-open-paren-char: pair<char,int>('(', 5) *)
Theorem c16_pair_roundtrip_char_paren_refuted : exists a b, cast_pair 1 2 false (cut0 (print_pair 1 2 a b)) <> Some (a, b).
Proof. exists 40, 5. vm_compute. discriminate. Qed.
Print Assumptions c16_pair_roundtrip_char_paren_refuted.

(* KNOWN FINDING list-open-bracket-char: vector<char>{'['} *)
Theorem c16_list_roundtrip_char_bracket_refuted : exists l, l <> [] /\ cast_list 1 false (cut0 (print_list 1 l)) <> (true, l).
Proof. exists [91]. split; [discriminate | vm_compute; discriminate]. Qed.
Print Assumptions c16_list_roundtrip_char_bracket_refuted.

(* ================= non-vacuity ================= *)
Example nv_ranges : (ty_min 2 = -2147483648 /\ ty_max 2 = 2147483647) /\ (ty_min 3 = 0 /\ ty_max 3 = 4294967295) /\
  (ty_min 4 = -9223372036854775808 /\ ty_max 5 = 18446744073709551615) /\ (ty_min 6 = ty_min 4 /\ ty_max 7 = ty_max 5).
Proof. vm_compute. repeat split. Qed.
Example nv_extremes_print :
  print_scalar 3 4294967295 = [117; 109; 97; 120] /\ print_scalar 7 18446744073709551615 = [117; 109; 97; 120] /\
  print_scalar 2 (-2147483648) = [45; 50; 49; 52; 55; 52; 56; 51; 54; 52; 56] /\
  cast_scalar 6 true (print_scalar 6 9223372036854775807) = Some 9223372036854775807 /\
  cast_scalar 6 true (print_scalar 6 (-9223372036854775808)) = Some (-9223372036854775808).
Proof. vm_compute. repeat split. Qed.
(* "0x7fffffff", " -12", "017", "imax", "-1" (unsigned) are accepted with the denoted value ... *)
Example nv_accepts :
  cast_scalar 2 false [48; 120; 55; 102; 102; 102; 102; 102; 102; 102] = Some 2147483647 /\
  cast_scalar 2 false [32; 45; 49; 50] = Some (-12) /\ cast_scalar 3 false [48; 49; 55] = Some 15 /\
  cast_scalar 4 false [105; 109; 97; 120] = Some 9223372036854775807 /\ cast_scalar 3 false [45; 49] = Some 4294967295.
Proof. vm_compute. repeat split. Qed.
(* ... "2147483648" (int), "4294967296" (unsigned), " -5" (unsigned long long), 40 nines (every type), "12x" (whole string) are not *)
Example nv_rejects :
  cast_scalar 2 false [50; 49; 52; 55; 52; 56; 51; 54; 52; 56] = None /\
  cast_scalar 3 false [52; 50; 57; 52; 57; 54; 55; 50; 57; 54] = None /\
  cast_scalar 7 false [32; 45; 53] = None /\
  forallb (fun ty => negb (p_ok (parse_scalar ty false (repeat 57 40)))) [2; 3; 4; 5; 6; 7] = true /\
  cast_scalar 2 false [49; 50; 120] = None /\ p_len (parse_scalar 2 false [49; 50; 120]) = 2%nat.
Proof. vm_compute. repeat split. Qed.
Example nv_numeral : numeral [48; 120; 49; 48] 16 /\ numeral [48; 49; 55] 15 /\ numeral [32; 45; 49; 50] (-12).
Proof.
  split; [|split].
  - refine (num_hex 120 [49; 48] _ _ _); [now left | discriminate | repeat constructor].
  - refine (num_oct 49 [55] _ _); [reflexivity | repeat constructor].
  - refine (num_dec [32] [45] [49; 50] (-1) _ _ _ _ _);
      [repeat constructor | right; right; now split | discriminate | repeat constructor | cbn; intros H; discriminate H].
Qed.
Example nv_elem_ok : elem_ok 2 (-2147483648) /\ elem_ok 7 18446744073709551615 /\ elem_ok 0 1 /\
  cast_pair 2 7 false (print_pair 2 7 (-5) 18446744073709551615) = Some (-5, 18446744073709551615) /\
  cast_list 3 false (print_list 3 [1; 4294967295; 0]) = (true, [1; 4294967295; 0]).
Proof.
  split; [left; split; [unfold int_ty; lia | vm_compute; split; discriminate]|].
  split; [left; split; [unfold int_ty; lia | vm_compute; split; discriminate]|].
  split; [right; auto|]. vm_compute. split; reflexivity.
Qed.
Example nv_enum_classes : length enum_classes = 9%nat /\
  map (fun t => length (ec_entries (ec_of t))) enum_classes = [2; 3; 4; 6; 11; 7; 3; 4; 4]%nat.
Proof. vm_compute. split; reflexivity. Qed.
Example c16_smoke : run_case [0; 2; 0; 3; 32; 45; 53] = [1; -5; 3; 0; 1; -5].
Proof. vm_compute. reflexivity. Qed.
