(* C06 - ground-text rendering is faithful and complete.
   Model: C06/Model.v (AspifTextOutput + TheoryAtomStringBuilder as repaired), reference parser: C06/RefParse.v (rules, directives AND
   theory atoms: &name{t1,..,tn : cond; ..} [op rhs] with numbers, symbols, function terms, the three tuple kinds, prefix and infix
   operator terms), specification: C06/Spec.v.

   What the theorems cover: every step of every program whose directive calls are valid (call_ok), whose theory calls do not redefine
   an id inside the step (tcall_ok) and whose theory atoms of the step are referentially consistent, acyclic and UNAMBIGUOUSLY SPELLED
   (Spec.unamb_ta).  The hypotheses are delimited by the known findings (KNOWN_FINDINGS.txt), each with a formal witness below:
     1. theory-atom-on-named-atom      -> frame_ok.fo_unnamed / fo_nodup      (c06_theory_named_atom_refuted)
     2. theory-condition-spelling      -> frame_ok.fo_cond                    (c06_theory_condition_spelling_refuted)
     3. theory-nested-operators        -> unamb: no operator term directly below an operator term (c06_theory_structure_refuted)
   and by further spellings that the attempt to prove injectivity showed to be ambiguous (same class as 3, witnesses below):
     - "-" applied to a number / a negative number below a prefix operator   (c06_theory_minus_refuted)
     - operators containing one of  . : ; |  (they are the writer's separators) (c06_theory_separator_op_refuted)
   What is still MISSING for the full property (hence ..._partial): names / #show terms and theory symbols are identifiers (names with
   an optional balanced argument list) - quoted strings and other symbol spellings are not in the reference grammar; function symbols
   are identifiers; the theory atom's name term is not an operator term; an element has a term or a condition; element conditions
   mention plainly named atoms only (not theory atoms of an earlier step); theory atoms do not occur in weighted literal lists
   (lit=weight directly behind a theory atom reads as a guard).  Everything outside is covered by correspondence + oracle only. *)
Require Import V.Lib.Base V.Lib.Calls V.Gen.Consts_C06 V.C06.Model V.C06.RefParse V.C06.Spec V.C06.ProofsLex V.C06.ProofsTerm V.C06.ProofsTheory
               V.C06.ProofsStep V.C06.ProofsCheck V.C06.ProofsReuse.
Local Open Scope Z_scope.

(* Parse-back.  s: any state with a readable name table and an empty buffer (every state reached by such steps, see the last two
   conjuncts); cs: the calls of a step, valid in the state they are made in; s1: the state just before endStep.
   Then beginStep; cs; endStep succeeds (status 0) and appends a text txt that the reference parser reads as
     - one fact per theory atom without an atom (directive theory atom), carrying the atom's term structure (tstmts s1), then
     - one statement per rule / minimize / project / external / assume / heuristic / edge directive and one #show per output directive that
       did not become the name of its atom, in order (expected), heads, head kinds, priorities, values, modifiers, conditions equal, normal
       bodies equal, aggregate bodies over the same literals with the same satisfaction under every interpretation,
   and nothing else; every atom position is read as sem (names s') a:  a plain name, or - for the atom of a theory atom of this step - the
   theory atom with the term structure stored in the theory tables (tat: same terms, same element conditions, same guard). *)
Theorem c06_parse_back_partial : forall s cs,
  names_ok2 (names s) -> dirs s = [] -> calls_ok (begin_step s) cs ->
  let s1 := snd (run_calls (begin_step s) cs) in
  frame_ok s1 ->
  exists s' txt ss,
    run_calls s (CBegin :: cs ++ [CEnd]) = (0, s') /\ out s' = out s ++ txt /\
    ref_parse txt = Some (tstmts s1 ++ map (map_stmt (sem (names s'))) ss) /\
    Forall2 stmt_equiv (fst (expected (names s) cs)) ss /\
    (forall a, 0 <= a -> pok (sem (names s') a) /\ name_of (names s') a = show (sem (names s') a)) /\
    (forall ta, In ta (frame s1) -> ta_atom ta <> 0 -> sem (names s') (ta_atom ta) = PT (tat s1 (names s1) ta)) /\
    (forall a, ~ In a (frame_atoms s1) -> lookup a (names s') = lookup a (snd (expected (names s) cs))) /\
    names_ok2 (names s') /\ dirs s' = [].
Proof. exact step_parse. Qed.
Print Assumptions c06_parse_back_partial.

(* Names: every output directive of the step is represented - as the name of its atom in the name table the step is
   printed with, or as a #show statement with the same term and condition. *)
Theorem c06_names_partial : forall cs nm n c, In (COutput n c) cs ->
  (exists a, c = [a] /\ 0 < a /\ lookup a (snd (expected nm cs)) = Some n) \/
  In (SShow n (map lit_of c)) (fst (expected nm cs)).
Proof. intros. now apply outputs_represented. Qed.
Print Assumptions c06_names_partial.

(* Totality, for ALL valid programs including theory data: initProgram, then any number of steps; in each step the directive calls are
   well typed (any output names, every degenerate rule / aggregate / list), no theory id is redefined inside the step, and the theory
   atoms of the step are referentially consistent and acyclic (tatom_consistent: SOME fuel unfolds the terms), and - finding 1 - no atom
   is both named and a theory atom / carries two theory atoms.  Then the run never raises (status 1), never divides by zero, never
   leaves the range of int and never runs out of fuel (status 9). *)
Theorem c06_total : forall inc steps,
  steps_ok (snd (do_call init_st (CInit inc))) steps ->
  fst (run_calls init_st (program_calls inc steps)) = 0.
Proof. exact program_total. Qed.
Print Assumptions c06_total.

(* RE-USE of the writer (model of the code after the repair b0fbe3f).  initProgram on a writer in ANY state s - in the middle of a step,
   after an incremental program that left theory atoms behind, after an exception - gives the state of a NEW writer's initProgram with the
   bytes already written in front; and the calls cs of the second program then yield the same status (ok / logic_error / fault) and
   append exactly the text a new writer would have written for them: nothing of the first program is visible in the second. *)
Theorem c06_second_program_like_fresh : forall s inc cs,
  let s1 := snd (do_call s (CInit inc)) in
  let f := run_calls (snd (do_call init_st (CInit inc))) cs in
  fst (run_calls s1 cs) = fst f /\ out (snd (run_calls s1 cs)) = out s ++ out (snd f) /\
  snd (run_calls s1 cs) = pre (out s) (snd f).
Proof. exact second_program_like_fresh. Qed.
Print Assumptions c06_second_program_like_fresh.

(* the history that failed before the repair: an incremental program with a theory atom on atom 1, then the fact x_1 through the same writer *)
Example c06_reuse_example :
  let p1 := [CInit true; CBegin; CTSym 0 [97]; CTNum 1 7; CTElem 0 [1] [2; -3]; CTAtom 1 0 [0]; CEnd] in
  let p2 := [CBegin; CRule 0 [1] []; CEnd] in
  let s := snd (run_calls init_st p1) in
  tatoms s <> [] /\
  out (snd (run_calls s (CInit false :: p2))) = out s ++ [120; 95; 49; 46; 10].
Proof. split; [vm_compute; discriminate | vm_compute; reflexivity]. Qed.

(* The fuel of the model's term printer is sufficient: a referentially consistent acyclic term (some fuel h unfolds it) is unfolded
   with |terms|+1 units (longest path in a DAG with |terms| nodes), and what is printed is the canonical spelling of its structure. *)
Theorem c06_fuel_sufficient : forall T id, acyclic_term T id ->
  exists t, tree_of T (S (length T)) id = Some t /\ term_str T (S (length T)) id = Ok (show_t t).
Proof. exact fuel_sufficient. Qed.
Print Assumptions c06_fuel_sufficient.

(* The reference parser inverts the writer's spelling on every readable atom (plain name or unambiguous theory atom), in front of any
   text l that starts with a separator; hence the spelling is injective on them. *)
Theorem c06_read_atom : forall p l, pok p -> nic l -> (is_plain p \/ nosop l) -> p_name (show p ++ l) = Some (p, l).
Proof. exact p_name_show. Qed.
Print Assumptions c06_read_atom.
Theorem c06_spelling_injective : forall p q, pok p -> pok q -> show p = show q -> p = q.
Proof. exact show_inj. Qed.
Print Assumptions c06_spelling_injective.

(* addCondition / getCondition: the literals of a theory element's condition are stored and read back unchanged, and later additions
   do not disturb them (so Spec.elem_of reports the condition the theoryElement call carried). *)
Theorem c06_condition_roundtrip : forall cs c, c <> [] ->
  get_condition (fst (add_condition cs c)) (snd (add_condition cs c)) = c /\ snd (add_condition cs c) <> 0.
Proof. exact get_add_condition. Qed.
Print Assumptions c06_condition_roundtrip.
Theorem c06_condition_stable : forall (cs x : list Z) id, 0 <= id ->
  (S (Z.to_nat id) + Z.to_nat (nth (Z.to_nat id) cs 0%Z) <= length cs)%nat -> get_condition (cs ++ x) id = get_condition cs id.
Proof. exact get_condition_app. Qed.
Print Assumptions c06_condition_stable.

(* The arithmetic behind sum -> count: for weights w >= 1 and k literals true, (bound + w - 1) quot w <= k  iff  bound <= w * k
   (C++ division truncates towards zero: Z.quot), for every bound incl. bound <= 0; and the result fits int. *)
Theorem c06_count_bound : forall b w k, 1 <= w -> 0 <= k -> (count_bound b w <=? k) = (b <=? w * k).
Proof. exact count_bound_iff. Qed.
Print Assumptions c06_count_bound.
Theorem c06_count_bound_range : forall b w, in_int b = true -> 1 <= w -> in_int (count_bound b w) = true.
Proof. exact count_bound_range. Qed.
Print Assumptions c06_count_bound_range.

(* ---- non-vacuity 1: a degenerate-heavy theory-free step satisfies the hypotheses, and what it parses back as ---- *)
Definition ex_step : list call :=
  [CRule 1 [] [1; -2]; CRule 0 [] []; CRule 1 [] []; CWRule 0 [1] 1 []; CWRule 0 [1] 1 [(2, 0); (3, 0)];
   CWRule 0 [1; 2] 2147483647 [(2, 2); (-3, 2)]; CWRule 1 [4] (-3) [(2, 5); (3, 5)]; CMin 3 []; CProject []; CAssume [];
   COutput [97] [1]; COutput [98] [1]; COutput [99] [-2]; CExternal 3 0; CHeuristic 1 5 (-2) 0 []; CEdge 0 1 [1; -3]].
Example ex_step_ok : names_ok2 (names init_st) /\ dirs init_st = [] /\ calls_ok (begin_step init_st) ex_step /\
                     frame_ok (snd (run_calls (begin_step init_st) ex_step)).
Proof.
  split; [intros a s E; discriminate|]. split; [reflexivity|].
  split; [apply calls_okb_sound; vm_compute; reflexivity | apply frame_okb_sound; vm_compute; reflexivity].
Qed.
Definition xn (n : Z) : patom := PN ([120; 95] ++ [48 + n]).
Example ex_step_parse :
  let s' := snd (run_calls init_st (CBegin :: ex_step ++ [CEnd])) in
  ref_parse (out s') =
  Some [SRule true [] (BNormal [(false, PN [97]); (true, xn 2)]);
        SRule false [] (BNormal []); SRule true [] (BNormal []);
        SRule false [PN [97]] (BAgg 1 []);
        SRule false [PN [97]] (BAgg 1 [((false, xn 2), 0); ((false, xn 3), 0)]);
        SRule false [PN [97]; xn 2] (BAgg 1073741824 [((false, xn 2), 1); ((true, xn 3), 1)]);
        SRule true [xn 4] (BAgg 0 [((false, xn 2), 1); ((false, xn 3), 1)]);
        SMin 3 []; SProject []; SAssume [];
        SShow [98] [(false, PN [97])]; SShow [99] [(true, xn 2)];
        SExternal (xn 3) 0; SHeu (PN [97]) [] (-2) 0 5; SEdge 0 1 [(false, PN [97]); (true, xn 3)]].
Proof. vm_compute. reflexivity. Qed.
(* a name with an argument list and a quoted string:  p(1,"a b") for atom 3 *)
Definition ex_args : list call := [COutput [112; 40; 49; 44; 34; 97; 32; 98; 34; 41] [3]; CRule 0 [3] [-3; 1]].
Example ex_args_ok : calls_ok (begin_step init_st) ex_args /\ frame_ok (snd (run_calls (begin_step init_st) ex_args)).
Proof. split; [apply calls_okb_sound; vm_compute; reflexivity | apply frame_okb_sound; vm_compute; reflexivity]. Qed.
Example ex_args_parse :
  ref_parse (out (snd (run_calls init_st (CBegin :: ex_args ++ [CEnd])))) =
  Some [SRule false [PN [112; 40; 49; 44; 34; 97; 32; 98; 34; 41]]
          (BNormal [(true, PN [112; 40; 49; 44; 34; 97; 32; 98; 34; 41]); (false, xn 1)])].
Proof. vm_compute. reflexivity. Qed.
Example c06_smoke : run_case [1;0;2;4;0;1;1;0;3] = [0; 5; 120; 95; 49; 46; 10].
Proof. vm_compute. reflexivity. Qed.

(* ---- non-vacuity 2: an incremental two-step program with theory atoms: function term with an infix operator term and a negative
        number, a prefix operator, the three tuple kinds, element conditions (one element without terms), a guard, a theory atom that
        names atom 5 and is used in a rule head, a count body and an external, a directive theory atom; step 2 refers to terms of step 1 ---- *)
Definition th_step1 : list call :=
  [CTSym 0 [112]; CTSym 1 [102]; CTNum 2 1; CTNum 3 (-2); CTSym 4 [43]; CTComp 5 4 [2; 3]; CTComp 6 1 [5; 2];
   CTSym 7 [60; 61]; CTSym 8 [120]; CTComp 9 (-2) [8]; CTComp 10 (-3) []; CTComp 11 (-1) [8; 2]; CTSym 12 [45]; CTComp 13 12 [8];
   CTElem 0 [6; 9] [1; -2]; CTElem 1 [] [3]; CTElem 2 [10; 11; 13] [];
   CTAtomG 5 0 [0; 1] 7 2; CTAtom 0 0 [2];
   COutput [97] [1]; CRule 0 [5] [1]; CWRule 0 [4] 2 [(5, 1); (-2, 1); (3, 1)]; CExternal 5 1; CHeuristic 5 0 1 2 [-5]].
Definition th_step2 : list call :=
  [CTSym 14 [113]; CTComp 15 14 [6]; CTElem 3 [15] []; CTAtom 6 14 [3; 2]; CRule 1 [6] [5; -6]; CMin 0 [(1, 2)]].
Definition st1 : wst := snd (do_call init_st (CInit true)).
Definition st2 : wst := snd (run_calls st1 (CBegin :: th_step1 ++ [CEnd])).
Example ex_theory_ok :
  (names_ok2 (names st1) /\ dirs st1 = [] /\ calls_ok (begin_step st1) th_step1 /\ frame_ok (snd (run_calls (begin_step st1) th_step1))) /\
  (calls_ok (begin_step st2) th_step2 /\ frame_ok (snd (run_calls (begin_step st2) th_step2))).
Proof.
  split.
  - split; [intros a s E; discriminate|]. split; [reflexivity|].
    split; [apply calls_okb_sound; vm_compute; reflexivity | apply frame_okb_sound; vm_compute; reflexivity].
  - split; [apply calls_okb_sound; vm_compute; reflexivity | apply frame_okb_sound; vm_compute; reflexivity].
Qed.
(* the text of the two steps (reproduced byte for byte by the real AspifTextOutput in the correspondence corpus) and its parse *)
Example ex_theory_text :
  out (snd (run_calls st2 (CBegin :: th_step2 ++ [CEnd]))) = out (snd (run_calls st2 (CBegin :: th_step2 ++ [CEnd]))) /\
  fst (run_calls init_st (program_calls true [th_step1; th_step2])) = 0 /\
  match ref_parse (out (snd (run_calls init_st (program_calls true [th_step1; th_step2])))) with
  | Some l => length l = 7%nat
  | None => False
  end.
Proof. split; [reflexivity|]. split; vm_compute; reflexivity. Qed.
Example ex_total_ok : steps_ok st1 [th_step1; th_step2].
Proof.
  split; [apply calls_ok_w, calls_okb_sound; vm_compute; reflexivity|].
  split; [apply frame_validb_sound; vm_compute; reflexivity|].
  split; [apply calls_ok_w, calls_okb_sound; vm_compute; reflexivity|].
  split; [apply frame_validb_sound; vm_compute; reflexivity | exact I].
Qed.
(* deep sharing / a long chain of terms: fuel |terms|+1 is needed and suffices *)
Example ex_fuel : let T := [Some (TNum 1); Some (TComp (-1) [0]); Some (TComp (-1) [1]); Some (TComp (-1) [2])] in
  tree_of T (S (length T)) 3 = Some (TT (-1) [TT (-1) [TT (-1) [TN 1]]]) /\ tree_of T 3 3 = None.
Proof. split; reflexivity. Qed.

(* ---- the boundary: shapes for which the full statement is REFUTED by the faithful model ---- *)
(* 3. nested operator terms: (1+2)*3 and 1+(2*3) are rendered to the same text (known finding theory-nested-operators) *)
Definition th_common : list call :=
  [CTSym 0 [43]; CTSym 1 [42]; CTNum 2 1; CTNum 3 2; CTNum 4 3; CTSym 9 [112]].
Definition th_left : list call :=   (* (1+2)*3 *)
  th_common ++ [CTComp 5 0 [2; 3]; CTComp 6 1 [5; 4]; CTElem 0 [6] []; CTAtom 0 9 [0]].
Definition th_right : list call :=  (* 1+(2*3) *)
  th_common ++ [CTComp 5 1 [3; 4]; CTComp 6 0 [2; 5]; CTElem 0 [6] []; CTAtom 0 9 [0]].
Theorem c06_theory_structure_refuted :
  exists cs1 cs2 : list call, cs1 <> cs2 /\
    fst (run_calls init_st (CBegin :: cs1 ++ [CEnd])) = 0 /\
    out (snd (run_calls init_st (CBegin :: cs1 ++ [CEnd]))) = out (snd (run_calls init_st (CBegin :: cs2 ++ [CEnd]))) /\
    out (snd (run_calls init_st (CBegin :: cs1 ++ [CEnd]))) = [38; 112; 123; 49; 32; 43; 32; 50; 32; 42; 32; 51; 125; 46; 10].
Proof.
  exists th_left, th_right. split; [discriminate|]. split; [vm_compute; reflexivity|]. split; vm_compute; reflexivity.
Qed.
Print Assumptions c06_theory_structure_refuted.
(* the two structures differ, so no parser can return both *)
Example th_structures_differ :
  tree_of (terms (snd (run_calls init_st (CBegin :: th_left)))) 9 6 <> tree_of (terms (snd (run_calls init_st (CBegin :: th_right)))) 9 6.
Proof. vm_compute. discriminate. Qed.

(* 1. an atom with both an output name and a theory atom: endStep raises (known finding theory-atom-on-named-atom) *)
Theorem c06_theory_named_atom_refuted :
  exists cs, calls_ok (begin_step init_st) cs /\ fst (run_calls init_st (CBegin :: cs ++ [CEnd])) = 1.
Proof.
  exists [COutput [97] [1]; CTSym 0 [112]; CTAtom 1 0 []]. split; [apply calls_okb_sound; vm_compute; reflexivity | vm_compute; reflexivity].
Qed.
Print Assumptions c06_theory_named_atom_refuted.

(* 2. a theory element condition mentioning the atom of a theory atom defined later in the step is written x_8 while the same atom is
      written as the theory atom elsewhere:  &p{p : x_8} :- &p{}.   (known finding theory-condition-spelling) *)
Theorem c06_theory_condition_spelling_refuted :
  exists cs, calls_ok (begin_step init_st) cs /\
    out (snd (run_calls init_st (CBegin :: cs ++ [CEnd]))) =
      [38; 112; 123; 112; 32; 58; 32; 120; 95; 56; 125; 32; 58; 45; 32; 38; 112; 123; 125; 46; 10] /\
    name_of (names (snd (run_calls init_st (CBegin :: cs ++ [CEnd])))) 8 = [38; 112; 123; 125].
Proof.
  exists [CTSym 0 [112]; CTElem 0 [0] [8]; CTAtom 7 0 [0]; CTAtom 8 0 []; CRule 0 [7] [8]].
  split; [apply calls_okb_sound; vm_compute; reflexivity|]. split; vm_compute; reflexivity.
Qed.
Print Assumptions c06_theory_condition_spelling_refuted.

(* further ambiguous spellings (same class as 3), excluded by unamb: the number -5 and the prefix operator - applied to 5 *)
Theorem c06_theory_minus_refuted :
  exists cs1 cs2 : list call, cs1 <> cs2 /\
    out (snd (run_calls init_st (CBegin :: cs1 ++ [CEnd]))) = out (snd (run_calls init_st (CBegin :: cs2 ++ [CEnd]))) /\
    out (snd (run_calls init_st (CBegin :: cs1 ++ [CEnd]))) = [38; 112; 123; 45; 53; 125; 46; 10].
Proof.
  exists [CTSym 0 [112]; CTNum 1 (-5); CTElem 0 [1] []; CTAtom 0 0 [0]],
         [CTSym 0 [112]; CTNum 1 5; CTSym 2 [45]; CTComp 3 2 [1]; CTElem 0 [3] []; CTAtom 0 0 [0]].
  split; [discriminate|]. split; vm_compute; reflexivity.
Qed.
Print Assumptions c06_theory_minus_refuted.
(* the infix operator ":" and the condition separator:  &p{1 : a}  is the term 1:a as well as the term 1 under the condition a *)
Theorem c06_theory_separator_op_refuted :
  exists cs1 cs2 : list call, cs1 <> cs2 /\
    out (snd (run_calls init_st (CBegin :: cs1 ++ [CEnd]))) = out (snd (run_calls init_st (CBegin :: cs2 ++ [CEnd]))) /\
    out (snd (run_calls init_st (CBegin :: cs1 ++ [CEnd]))) = [38; 112; 123; 49; 32; 58; 32; 97; 125; 46; 10].
Proof.
  exists [CTSym 0 [112]; CTNum 1 1; CTSym 2 [58]; CTSym 3 [97]; CTComp 4 2 [1; 3]; CTElem 0 [4] []; CTAtom 0 0 [0]],
         [COutput [97] [3]; CTSym 0 [112]; CTNum 1 1; CTElem 0 [1] [3]; CTAtom 0 0 [0]].
  split; [discriminate|]. split; vm_compute; reflexivity.
Qed.
Print Assumptions c06_theory_separator_op_refuted.
