(* C06 - ground-text rendering is faithful and complete.
   The theorems are stated for THEORY-FREE steps whose names / #show terms are ground atoms: an identifier
   ([a-z_][A-Za-z0-9_]*, not "not") optionally followed by a balanced argument list such as p(1,"a b",f(x)) - RefParse.good_nameb -
   and are therefore named ..._partial: theory atoms (visitTheories, TheoryAtomStringBuilder) are part of the model
   (C06/Model.v), of the correspondence check and of the python oracle, but not of the reference parser / these proofs.
   Model: C06/Model.v (AspifTextOutput as repaired), reference parser: C06/RefParse.v, specification: C06/Spec.v. *)
Require Import V.Lib.Base V.Lib.Calls V.C06.Model V.C06.RefParse V.C06.Spec V.C06.ProofsStep.
Local Open Scope Z_scope.

(* Parse-back: for every state reached by a theory-free program (good names, empty buffer) and every list cs of valid
   directive calls, rendering the step beginStep; cs; endStep succeeds (status 0), appends a text txt to the stream, and
   the reference parser reads txt back as exactly one statement per rule / minimize / project / external / assume /
   heuristic / edge directive and one #show per output directive that did not become the name of its atom, in order;
   atoms are spelled by the final name table; heads, head kinds, priorities, values, modifiers and conditions are equal;
   a normal body is equal, an aggregate body has the same literals and the same satisfaction condition under every
   interpretation X (an equal-weight sum may come back as the count with the bound ceil(bound/w)).  Nothing else is
   emitted.  The invariants hold again afterwards, so the statement applies to every step of a program. *)
Theorem c06_parse_back_partial : forall s cs,
  Forall call_ok cs -> names_ok (names s) -> dirs s = [] -> tatoms s = [] ->
  exists s' txt ss,
    run_calls s (CBegin :: cs ++ [CEnd]) = (0, s') /\ out s' = out s ++ txt /\
    names s' = snd (expected (names s) cs) /\
    ref_parse txt = Some (map (map_stmt (name_of (names s'))) ss) /\
    Forall2 stmt_equiv (fst (expected (names s) cs)) ss /\
    names_ok (names s') /\ dirs s' = [] /\ tatoms s' = [].
Proof. exact step_parse. Qed.
Print Assumptions c06_parse_back_partial.

(* Names: every output directive of the step is represented - as the name of its atom in the name table the step is
   printed with (names s' above = snd (expected ..)), or as a #show statement with the same term and condition. *)
Theorem c06_names_partial : forall cs nm n c, In (COutput n c) cs ->
  (exists a, c = [a] /\ 0 < a /\ lookup a (snd (expected nm cs)) = Some n) \/
  In (SShow n (map lit_of c)) (fst (expected nm cs)).
Proof. intros. now apply outputs_represented. Qed.
Print Assumptions c06_names_partial.

(* Totality: rendering a whole theory-free program (initProgram, then any number of steps of valid directive calls,
   including every degenerate one: empty heads, bodies, aggregates, lists, weights 0, bounds <= 0 or > sum or INT_MAX)
   never raises (status 1), never divides by zero and never leaves the range of int (status 9). *)
Theorem c06_total_partial : forall inc steps, Forall (Forall call_ok) steps ->
  fst (run_calls init_st (program_calls inc steps)) = 0.
Proof. exact program_total. Qed.
Print Assumptions c06_total_partial.

(* The arithmetic behind sum -> count: for weights w >= 1 and k literals true, (bound + w - 1) quot w <= k  iff  bound <= w * k
   (C++ division truncates towards zero: Z.quot), for every bound incl. bound <= 0; and the result fits int. *)
Theorem c06_count_bound : forall b w k, 1 <= w -> 0 <= k -> (count_bound b w <=? k) = (b <=? w * k).
Proof. exact count_bound_iff. Qed.
Print Assumptions c06_count_bound.
Theorem c06_count_bound_range : forall b w, in_int b = true -> 1 <= w -> in_int (count_bound b w) = true.
Proof. exact count_bound_range. Qed.
Print Assumptions c06_count_bound_range.

(* ---- non-vacuity: a degenerate-heavy step satisfies the hypotheses, and what it renders to / parses back as ---- *)
Definition ex_step : list call :=
  [CRule 1 [] [1; -2]; CRule 0 [] []; CRule 1 [] []; CWRule 0 [1] 1 []; CWRule 0 [1] 1 [(2, 0); (3, 0)];
   CWRule 0 [1; 2] 2147483647 [(2, 2); (-3, 2)]; CWRule 1 [4] (-3) [(2, 5); (3, 5)]; CMin 3 []; CProject []; CAssume [];
   COutput [97] [1]; COutput [98] [1]; COutput [99] [-2]; CExternal 3 0; CHeuristic 1 5 (-2) 0 []; CEdge 0 1 [1; -3]].
Example ex_step_ok : Forall call_ok ex_step.
Proof. repeat constructor; try (cbn; lia); try discriminate. Qed.
Example ex_step_parse :
  let s' := snd (run_calls init_st (CBegin :: ex_step ++ [CEnd])) in
  ref_parse (out s') =
  Some [SRule true [] (BNormal [(false, [97]); (true, [120; 95; 50])]);
        SRule false [] (BNormal []); SRule true [] (BNormal []);
        SRule false [[97]] (BAgg 1 []);
        SRule false [[97]] (BAgg 1 [((false, [120; 95; 50]), 0); ((false, [120; 95; 51]), 0)]);
        SRule false [[97]; [120; 95; 50]] (BAgg 1073741824 [((false, [120; 95; 50]), 1); ((true, [120; 95; 51]), 1)]);
        SRule true [[120; 95; 52]] (BAgg 0 [((false, [120; 95; 50]), 1); ((false, [120; 95; 51]), 1)]);
        SMin 3 []; SProject []; SAssume [];
        SShow [98] [(false, [97])]; SShow [99] [(true, [120; 95; 50])];
        SExternal [120; 95; 51] 0; SHeu [97] [] (-2) 0 5; SEdge 0 1 [(false, [97]); (true, [120; 95; 51])]].
Proof. vm_compute. reflexivity. Qed.
(* a name with an argument list and a quoted string:  p(1,"a b") for atom 3 *)
Definition ex_args : list call := [COutput [112; 40; 49; 44; 34; 97; 32; 98; 34; 41] [3]; CRule 0 [3] [-3; 1]].
Example ex_args_ok : Forall call_ok ex_args.
Proof. repeat constructor; try (cbn; lia); try reflexivity. Qed.
Example ex_args_parse :
  ref_parse (out (snd (run_calls init_st (CBegin :: ex_args ++ [CEnd])))) =
  Some [SRule false [[112; 40; 49; 44; 34; 97; 32; 98; 34; 41]]
          (BNormal [(true, [112; 40; 49; 44; 34; 97; 32; 98; 34; 41]); (false, [120; 95; 49])])].
Proof. vm_compute. reflexivity. Qed.
Example c06_smoke : run_case [1;0;2;4;0;1;1;0;3] = [0; 5; 120; 95; 49; 46; 10].
Proof. vm_compute. reflexivity. Qed.

(* ---- why the theorems stop at theory-free programs: for theory atoms the full statement ("theory atoms with the same
        term structure" can be read back) is REFUTED by the faithful model - two different term structures,
        (1+2)*3 and 1+(2*3), are rendered to the same text (known finding theory-nested-operators) ---- *)
Definition th_common : list call :=
  [CTSym 0 [43]; CTSym 1 [42]; CTNum 2 1; CTNum 3 2; CTNum 4 3; CTSym 9 [112]].
Definition th_left : list call :=   (* (1+2)*3 *)
  th_common ++ [CTComp 5 0 [2; 3]; CTComp 6 1 [5; 4]; CTElem 0 [6] []; CTAtom 0 9 [0]].
Definition th_right : list call :=  (* 1+(2*3) *)
  th_common ++ [CTComp 5 1 [3; 4]; CTComp 6 0 [2; 5]; CTElem 0 [6] []; CTAtom 0 9 [0]].
Theorem c06_theory_structure_refuted :
  exists cs1 cs2 : list call, cs1 <> cs2 /\
    fst (run_calls init_st (CBegin :: cs1 ++ [CEnd])) = 0 /\
    out (snd (run_calls init_st (CBegin :: cs1 ++ [CEnd]))) = out (snd (run_calls init_st (CBegin :: cs2 ++ [CEnd]))) /\
    out (snd (run_calls init_st (CBegin :: cs1 ++ [CEnd]))) = [38; 112; 123; 49; 32; 43; 32; 50; 32; 42; 32; 51; 125; 46; 10].
Proof.
  exists th_left, th_right. split; [discriminate|]. split; [vm_compute; reflexivity|]. split; vm_compute; reflexivity.
Qed.
Print Assumptions c06_theory_structure_refuted.
