Require Import V.Lib.Base V.Lib.Calls V.C06.Model.
Local Open Scope Z_scope.
Example c06_smoke : run_case [1;0;2;4;0;1;1;0;3] = [0; 5; 120; 95; 49; 46; 10].
Proof. vm_compute. reflexivity. Qed.
Print Assumptions c06_smoke.
