Require Import ExtrOcamlBasic.
Require Import V.C09.Model.
Extraction "model.ml" run_case.
