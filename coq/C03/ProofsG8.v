(* C03 - truncation / extension, continued: the directive loop, the header, whole texts.
     g_prefix     the calls of an accepted text are a prefix of the calls delivered for any extension that does not
                  continue its last digit run
     g_truncated  from an accepted single-shot (non-incremental) text nothing but trailing white space can be cut off:
                  every other proper prefix (not cutting between two digits) is rejected                              *)
Require Import V.Lib.Base V.Lib.Calls V.Lib.Dec V.C09.Spec V.Gen.Consts V.Gen.Consts_C01 V.C01.Read V.C01.ProofsPrim
  V.C03.Grammar V.C03.ProofsG1 V.C03.ProofsG2 V.C03.ProofsG3 V.C03.ProofsG4 V.C03.ProofsG5 V.C03.ProofsG7.
Require V.C03.ProofsInv.
Require Import ZifyBool.
Local Open Scope Z_scope.

(* ---------------------------------------------------------------- the directive loop *)
Lemma dirs_nonempty fuel s cs s' : dirs fuel s = (cs, ROk tt s') -> rest s <> [].
Proof.
  intros H. destruct (dirs_inv _ _ _ _ H) as (ds & endl & Er & _). rewrite Er.
  destruct ds as [|d ds]; cbn [flat_map app]; [apply gnum_nonempty|].
  unfold gdir_r. repeat rewrite <- app_assoc. apply gnum_nonempty.
Qed.

Lemma dirs_ext q fuel : forall s cs s', dirs fuel s = (cs, ROk tt s') -> (rest s' <> [] \/ stops q = true) ->
  forall fuel', (length fuel <= length fuel')%nat -> dirs fuel' (xt s q) = (cs, ROk tt (xt s' q)).
Proof.
  induction fuel as [|x f IH]; intros s cs s' H Hq fuel' Hf; [discriminate H|].
  destruct fuel' as [|x' f']; [cbn in Hf; lia|].
  cbn [dirs] in *. destruct (m_pos enum_Directive_t_max s) as [rt s1|] eqn:Ec; [|discriminate H].
  unfold m_pos in *.
  destruct (Z.eqb_spec rt 0) as [->|Nz].
  - injection H as <- <-. rewrite (range_ext_strong _ _ _ _ _ q Ec Hq). reflexivity.
  - destruct (directive rt s1) as [oc s2|] eqn:Ed; [|discriminate H].
    destruct (dirs f s2) as [cs2 r] eqn:Er. injection H as <- ->.
    pose proof (dirs_nonempty _ _ _ _ Er) as Hne2.
    destruct (ext_directive rt _ _ _ Ed) as [L2 X2].
    rewrite (range_ext_strong _ _ _ _ _ q Ec (or_introl (len_nonempty _ _ L2 Hne2))).
    assert (Ez : (rt =? 0) = false) by lia. rewrite Ez.
    rewrite (X2 Hne2 q). rewrite (IH _ _ _ Er Hq f' ltac:(cbn [length] in Hf; lia)). reflexivity.
Qed.

(* ---------------------------------------------------------------- the header *)
Lemma match_tok_ext w s s' q : a_match_tok w s = (true, s') -> a_match_tok w (xt s q) = (true, xt s' q).
Proof.
  unfold a_match_tok. destruct (list_eqb (firstn (length w) (rest s)) w) eqn:E; [|discriminate]. intros H. injection H as <-.
  apply list_eqb_eq in E.
  assert (Hk : (length w <= length (rest s))%nat).
  { rewrite <- E at 1. rewrite firstn_length. lia. }
  unfold xt. cbn [rest aline]. rewrite firstn_app_le by exact Hk. rewrite skipn_app_le by exact Hk. rewrite E.
  assert (E2 : list_eqb w w = true) by (apply list_eqb_eq; reflexivity). rewrite E2. reflexivity.
Qed.

Lemma skip_blanks_ext q fuel : forall s fuel', (length (rest s) <= length fuel)%nat -> (length (rest s ++ q) <= length fuel')%nat ->
  rest (skip_blanks_f fuel s) <> [] -> skip_blanks_f fuel' (xt s q) = xt (skip_blanks_f fuel s) q.
Proof.
  induction fuel as [|x f IH]; intros s fuel' Hl Hl' Hne.
  - cbn [skip_blanks_f] in Hne. destruct (rest s); [congruence | cbn in Hl; lia].
  - cbn [skip_blanks_f] in Hne |- *. destruct (a_match_tok [32] s) as [b s1] eqn:Em.
    destruct (match_tok_inv _ _ _ _ Em) as [[-> Er]|[-> ->]].
    + destruct fuel' as [|x' f']; [rewrite Er in Hl'; cbn in Hl'; lia|].
      cbn [skip_blanks_f]. rewrite (match_tok_ext _ _ _ q Em).
      rewrite Er in Hl, Hl'. cbn [app length] in Hl, Hl'. apply IH; [lia | cbn [rest xt]; lia | exact Hne].
    + destruct (rest s) as [|c r] eqn:Ers; [congruence|].
      destruct fuel' as [|x' f']; [cbn in Hl'; lia|]. cbn [skip_blanks_f].
      unfold a_match_tok in Em |- *. unfold xt at 1 2. cbn [rest aline]. rewrite Ers in *. cbn [app length firstn list_eqb] in *.
      destruct (c =? 32); [cbn [andb] in Em; discriminate Em | reflexivity].
Qed.

Lemma header_ext p q c inc s : read_header (a_init p) = (c, ROk (Some inc) s) -> rest s <> [] ->
  read_header (a_init (p ++ q)) = (c, ROk (Some inc) (xt s q)).
Proof.
  intros H Hne. change (a_init (p ++ q)) with (xt (a_init p) q). unfold read_header in *.
  set (s0 := a_skipws (a_init p)) in *.
  destruct (a_match_tok tok_asp s0) as [b s1] eqn:Easp.
  destruct (match_tok_inv _ _ _ _ Easp) as [[-> Er0]|[-> ->]]; [|discriminate H]. cbn [negb] in H.
  destruct (m_pos UINT_MAX s1) as [major s2|] eqn:Emaj; [|discriminate H].
  destruct (negb (major =? ASPIF_MAJOR)) eqn:Ema; [discriminate H|].
  destruct (m_pos UINT_MAX s2) as [minor s3|] eqn:Emin; [|discriminate H].
  destruct (negb (minor =? ASPIF_MINOR)) eqn:Emi; [discriminate H|].
  destruct (m_pos UINT_MAX s3) as [rev s4|] eqn:Erev; [|discriminate H].
  set (s5 := skip_blanks_f (rest s4) s4) in *.
  destruct (a_match_tok tok_incremental s5) as [ib s6] eqn:Einc.
  destruct (a_get s6) as [cg s7] eqn:Eget.
  destruct (Z.eqb_spec cg 10) as [->|]; [|discriminate H]. injection H as <- <- <-.
  (* every intermediate state still has input left *)
  assert (H6 : rest s6 <> []).
  { pose proof (V.C03.ProofsInv.get_ok s6) as G. rewrite Eget in G. unfold V.C03.ProofsInv.step_ok in G. cbn [snd] in G.
    apply (len_nonempty (rest s7)); [lia | exact Hne]. }
  assert (H5 : rest s5 <> []).
  { pose proof (V.C03.ProofsInv.match_tok_ok tok_incremental s5) as G. rewrite Einc in G. unfold V.C03.ProofsInv.step_ok in G. cbn [snd] in G.
    apply (len_nonempty (rest s6)); [lia | exact H6]. }
  destruct (skip_blanks_inv (rest s4) s4) as (k & Ek). fold s5 in Ek.
  assert (H4 : rest s4 <> []). { rewrite Ek. intros C. apply app_eq_nil in C. tauto. }
  unfold m_pos in *.
  destruct (ext_range _ _ _ _ _ Erev) as [L4 _]. pose proof (len_nonempty _ _ L4 H4) as H3.
  destruct (ext_range _ _ _ _ _ Emin) as [L3 _]. pose proof (len_nonempty _ _ L3 H3) as H2.
  destruct (ext_range _ _ _ _ _ Emaj) as [L2 _]. pose proof (len_nonempty _ _ L2 H2) as H1.
  assert (H0 : rest s0 <> []). { rewrite Er0. discriminate. }
  rewrite (skipws_ext (a_init p) q H0). fold s0.
  rewrite (match_tok_ext _ _ _ q Easp). cbn [negb].
  rewrite (range_ext_strong _ _ _ _ _ q Emaj (or_introl H2)), Ema.
  rewrite (range_ext_strong _ _ _ _ _ q Emin (or_introl H3)), Emi.
  rewrite (range_ext_strong _ _ _ _ _ q Erev (or_introl H4)).
  cbn [rest xt]. rewrite (skip_blanks_ext q (rest s4) s4 (rest s4 ++ q) (le_n _) ltac:(cbn [rest xt]; lia) H5). fold s5.
  assert (Einc' : a_match_tok tok_incremental (xt s5 q) = (ib, xt s6 q)).
  { destruct (match_tok_inv _ _ _ _ Einc) as [[-> Er]|[-> ->]]; [apply match_tok_ext; exact Einc|].
    (* not "incremental": the line end follows, so the first byte is LF or CR *)
    destruct (rest s5) as [|c5 r5] eqn:Er5; [congruence|].
    assert (Hc5 : c5 = 10 \/ c5 = 13).
    { unfold a_get in Eget. rewrite Er5 in Eget. destruct (Z.eqb_spec c5 13); [auto|]. destruct (Z.eqb_spec c5 10); [auto|].
      injection Eget as Eg _. lia. }
    unfold a_match_tok, xt. cbn [rest aline]. rewrite Er5.
    cbn [app length tok_incremental V.Gen.Consts_C01.rd_tok_incremental firstn list_eqb].
    assert (E : (c5 =? 105) = false) by lia. rewrite E. cbn [andb]. reflexivity. }
  rewrite Einc'. pose proof (get_ext s6 q) as Hg. rewrite Eget in Hg. cbn [fst snd] in Hg. rewrite (Hg Hne). reflexivity.
Qed.

(* ---------------------------------------------------------------- more() *)
Lemma more_ext s q : fst (more s) = true -> more (xt s q) = (true, xt (snd (more s)) q).
Proof.
  unfold more. cbn [fst snd]. intros H.
  assert (Hne : rest (a_skipws s) <> []).
  { intros C. unfold a_end, a_peek in H. rewrite C in H. discriminate H. }
  rewrite (skipws_ext s q Hne). f_equal.
  unfold a_end, a_peek, xt in *. cbn [rest]. destruct (rest (a_skipws s)); [congruence | exact H].
Qed.
Lemma trail_app l q : gtrail_ok l = true -> ~ In 0 l -> gtrail_ok (l ++ q) = gtrail_ok q.
Proof.
  unfold gtrail_ok. induction l as [|c r IH]; intros Ht Hn0; [reflexivity|].
  cbn [app drop_ws] in *. destruct (is_ws c) eqn:Hc.
  - apply IH; [exact Ht | intros C; apply Hn0; right; exact C].
  - exfalso. apply Hn0. left. lia.
Qed.
Lemma more_false_xt s q : fst (more s) = false -> ~ In 0 (rest s) -> gtrail_ok (rest s ++ q) = gtrail_ok q.
Proof.
  rewrite more_trail. intros H Hn0. apply trail_app; [|exact Hn0]. destruct (gtrail_ok (rest s)); [reflexivity | discriminate H].
Qed.

(* ---------------------------------------------------------------- where a text may be cut *)
Lemma last_app_ne {X} (a b : list X) d : b <> [] -> last (a ++ b) d = last b d.
Proof.
  intros Hb. induction a as [|x a IH]; [reflexivity|]. cbn [app]. destruct (a ++ b) eqn:E.
  - apply app_eq_nil in E. destruct E; congruence.
  - change (last (x :: x0 :: l) d) with (last (x0 :: l) d). exact IH.
Qed.
Lemma ends_digit_app a b : b <> [] -> ends_digit (a ++ b) = ends_digit b.
Proof. intros H. unfold ends_digit. rewrite last_app_ne by exact H. reflexivity. Qed.
Lemma all_digits_last l : all_digits l -> l <> [] -> is_digit (last l 0) = true.
Proof.
  induction l as [|c r IH]; intros Hd Hne; [congruence|]. inversion Hd as [|? ? Hc Hr]; subst.
  destruct r as [|c2 r2]; [exact Hc|]. change (last (c :: c2 :: r2) 0) with (last (c2 :: r2) 0). apply IH; [exact Hr | discriminate].
Qed.
Lemma ends_digit_gnum l v : ends_digit (gnum l v) = true.
Proof.
  unfold gnum. pose proof (print_nat_nonempty (Z.abs v) (Z.abs_nonneg v)) as Hne.
  rewrite !ends_digit_app by (first [exact Hne | intros C; repeat (apply app_eq_nil in C; destruct C as [_ C]); congruence]).
  apply all_digits_last; [apply print_nat_digits; apply Z.abs_nonneg | exact Hne].
Qed.
Definition cut_ok (l q : list Z) : Prop := stops q = true \/ ends_digit l = false.
Lemma cut_ok_suffix x l q : l <> [] -> cut_ok (x ++ l) q -> cut_ok l q.
Proof. intros Hne [H|H]; [left; exact H | right]. rewrite ends_digit_app in H by exact Hne. exact H. Qed.

(* the terminating token of a step: either something follows it, or the appended bytes do not continue it *)
Lemma last_tok_ok q fuel s cd s1 : dirs fuel s = (cd, ROk tt s1) -> cut_ok (rest s) q -> rest s1 <> [] \/ stops q = true.
Proof.
  intros Ed [H|H]; [right; exact H|]. left. intros C.
  destruct (dirs_inv _ _ _ _ Ed) as (ds & endl & Er & _). rewrite C, app_nil_r in Er.
  rewrite Er in H. rewrite ends_digit_app in H by (apply (gnum_nonempty endl 0 []) || (rewrite <- (app_nil_r (gnum endl 0)); apply gnum_nonempty)).
  rewrite ends_digit_gnum in H. discriminate H.
Qed.

(* ---------------------------------------------------------------- whole texts *)
(* whatever happens after the steps of the accepted text, its calls come first *)
Lemma steps_prefix q fuel : forall inc s cs, parse_complete fuel inc s = (cs, Ok) -> cut_ok (rest s) q ->
  forall fuel', (length fuel <= length fuel')%nat ->
  exists cs2 o, parse_complete fuel' inc (xt s q) = (cs ++ cs2, o).
Proof.
  induction fuel as [|x f IH]; intros inc s cs H Hq fuel' Hf; [discriminate H|].
  destruct fuel' as [|x' f']; [cbn in Hf; lia|].
  cbn [parse_complete] in *. unfold parse_round, read_step in *.
  destruct (dirs (0 :: rest s) s) as [cd [[] s1|]] eqn:Ed; [|discriminate H].
  destruct (more (a_skipws s1)) as [m s3] eqn:Em.
  destruct (m && negb inc) eqn:Hmi; [discriminate H|].
  destruct (more s3) as [m2 s4] eqn:Em2.
  assert (Hs3 : s3 = a_skipws s1).
  { pose proof (more_snd (a_skipws s1)) as Hx. rewrite Em in Hx. cbn [snd] in Hx. rewrite Hx. apply skipws_idem. }
  assert (Hm2 : m2 = m).
  { pose proof (more_trail s3) as Hx. rewrite Em2 in Hx. cbn [fst] in Hx.
    pose proof (more_trail (a_skipws s1)) as Hy. rewrite Em in Hy. cbn [fst] in Hy. rewrite Hx, Hy, Hs3. rewrite !skipws_rest, !gtrail_drop. reflexivity. }
  subst m2.
  destruct m.
  - (* another step follows in the accepted text: nothing changes up to it *)
    destruct (parse_complete f inc s4) as [cs' o] eqn:Ep. injection H as <- ->.
    assert (Hne1 : rest s1 <> []).
    { intros C. pose proof (more_trail (a_skipws s1)) as Hy. rewrite Em in Hy. cbn [fst] in Hy. rewrite skipws_rest, gtrail_drop, C in Hy. discriminate Hy. }
    rewrite (dirs_ext q _ _ _ _ Ed (or_introl Hne1) (0 :: rest (xt s q)) ltac:(cbn [length rest xt]; rewrite app_length; lia)).
    assert (Hm1 : fst (more s1) = true).
    { rewrite more_trail. pose proof (more_trail (a_skipws s1)) as Hy. rewrite Em in Hy. cbn [fst] in Hy. rewrite skipws_rest, gtrail_drop in Hy. symmetry. exact Hy. }
    assert (Esk : a_skipws (xt s1 q) = xt (a_skipws s1) q).
    { pose proof (more_ext s1 q Hm1) as Hx. unfold more in Hx. injection Hx as _ Hx. exact Hx. }
    rewrite Esk.
    assert (Hma : fst (more (a_skipws s1)) = true) by (rewrite Em; reflexivity).
    rewrite (more_ext _ q Hma), Em. cbn [snd]. rewrite Hmi.
    assert (Hmb : fst (more s3) = true) by (rewrite Em2; reflexivity).
    rewrite (more_ext _ q Hmb), Em2. cbn [snd].
    assert (Hq4 : cut_ok (rest s4) q).
    { assert (Es4 : s4 = a_skipws s1).
      { pose proof (more_snd s3) as Hx. rewrite Em2 in Hx. cbn [snd] in Hx. rewrite Hx, Hs3. apply skipws_idem. }
      assert (Hne4 : rest s4 <> []).
      { intros C. pose proof (more_trail s3) as Hx. rewrite Em2 in Hx. cbn [fst] in Hx. rewrite Hs3, <- Es4, C in Hx. discriminate Hx. }
      destruct (dirs_inv _ _ _ _ Ed) as (ds & endl & Er & _). destruct (skipws_inv s1) as (ws & Ews & _). rewrite <- Es4 in Ews.
      rewrite Er, Ews in Hq. repeat rewrite app_assoc in Hq. eapply cut_ok_suffix; [exact Hne4 | exact Hq]. }
    destruct (IH _ _ _ Ep Hq4 f' ltac:(cbn [length] in Hf; lia)) as (cs2 & o2 & E2). rewrite E2.
    exists cs2, o2. f_equal. apply app_assoc.
  - (* the last step of the accepted text *)
    injection H as <-.
    rewrite (dirs_ext q _ _ _ _ Ed (last_tok_ok q _ _ _ _ Ed Hq) (0 :: rest (xt s q)) ltac:(cbn [length rest xt]; rewrite app_length; lia)).
    destruct (more (a_skipws (xt s1 q))) as [ma sa] eqn:Ea.
    destruct (ma && negb inc); [exists [], (Err (aline sa)); rewrite app_nil_r; reflexivity|].
    destruct (more sa) as [mb sb].
    destruct mb; [|exists [], Ok; rewrite app_nil_r; reflexivity].
    destruct (parse_complete f' inc sb) as [cs3 o3]. exists cs3, o3. reflexivity.
Qed.

Theorem g_prefix p q cs : read_all p = (cs, Ok) -> cut_in_number p q = false ->
  exists cs2 o, read_all (p ++ q) = (cs ++ cs2, o).
Proof.
  unfold read_all, read_with. intros H Hq.
  destruct (read_header (a_init p)) as [ch [[inc|] s|]] eqn:Eh; try discriminate H.
  destruct (parse_complete (0 :: rest s) inc s) as [cs' o] eqn:Ep. injection H as <- ->.
  assert (Hne : rest s <> []).
  { cbn [parse_complete] in Ep. unfold parse_round, read_step in Ep.
    destruct (dirs (0 :: rest s) s) as [cd [[] s1|]] eqn:Ed.
    - eapply dirs_nonempty. exact Ed.
    - discriminate Ep. }
  rewrite (header_ext p q _ _ _ Eh Hne).
  assert (Hq' : cut_ok (rest s) q).
  { destruct (header_inv _ _ _ _ Eh) as (h & Et & _). apply (cut_ok_suffix (ghdr_r h)); [exact Hne|]. rewrite <- Et.
    unfold cut_in_number in Hq. unfold cut_ok. destruct (stops q); [left; reflexivity | right]. rewrite andb_true_r in Hq. exact Hq. }
  destruct (steps_prefix q _ _ _ _ Ep Hq' (0 :: rest (xt s q)) ltac:(cbn [length rest xt]; rewrite app_length; lia)) as (cs2 & o2 & E2).
  rewrite E2. exists cs2, o2. rewrite app_assoc. reflexivity.
Qed.

(* appending anything but white space to an accepted single-shot text makes it rejected *)
Theorem g_no_extension p q cs : read_all p = (cs, Ok) -> hd CBegin cs = CInit false ->
  cut_in_number p q = false -> ~ In 0 p -> gtrail_ok q = false ->
  exists cs' ln, read_all (p ++ q) = (cs', Err ln).
Proof.
  unfold read_all, read_with. intros H Hinc Hq Hn0 Htq.
  destruct (read_header (a_init p)) as [ch [[inc|] s|]] eqn:Eh; try discriminate H.
  destruct (parse_complete (0 :: rest s) inc s) as [cs' o] eqn:Ep. injection H as <- ->.
  destruct (header_inv _ _ _ _ Eh) as (h & Et & _ & _ & _ & ->). cbn [app hd] in Hinc. injection Hinc as ->.
  cbn [parse_complete] in Ep. unfold parse_round, read_step in Ep.
  destruct (dirs (0 :: rest s) s) as [cd [[] s1|]] eqn:Ed; [|discriminate Ep].
  pose proof (dirs_nonempty _ _ _ _ Ed) as Hne.
  rewrite (header_ext p q _ _ _ Eh Hne).
  assert (Hq' : cut_ok (rest s) q).
  { apply (cut_ok_suffix (ghdr_r h)); [exact Hne|]. rewrite <- Et.
    unfold cut_in_number in Hq. unfold cut_ok. destruct (stops q); [left; reflexivity | right]. rewrite andb_true_r in Hq. exact Hq. }
  destruct (more (a_skipws s1)) as [m s3] eqn:Em. rewrite andb_true_r in Ep.
  destruct m; [discriminate Ep|].
  assert (Hm1 : fst (more s1) = false).
  { rewrite more_trail. pose proof (more_trail (a_skipws s1)) as Hy. rewrite Em in Hy. cbn [fst] in Hy. rewrite skipws_rest, gtrail_drop in Hy. symmetry. exact Hy. }
  assert (Hn1 : ~ In 0 (rest s1)).
  { destruct (dirs_inv _ _ _ _ Ed) as (ds & endl & Er & _). intros C. apply Hn0. rewrite Et, Er. repeat (apply in_or_app; right). exact C. }
  pose proof (more_false_xt s1 q Hm1 Hn1) as Htr. rewrite Htq in Htr.
  cbn [parse_complete]. unfold parse_round, read_step.
  rewrite (dirs_ext q _ _ _ _ Ed (last_tok_ok q _ _ _ _ Ed Hq') (0 :: rest (xt s q)) ltac:(cbn [length rest xt]; rewrite app_length; lia)).
  destruct (more (a_skipws (xt s1 q))) as [ma sa] eqn:Ea.
  assert (Hma : ma = true).
  { pose proof (more_trail (a_skipws (xt s1 q))) as Hy. rewrite Ea in Hy. cbn [fst] in Hy. rewrite skipws_rest, gtrail_drop in Hy.
    cbn [rest xt] in Hy. rewrite Htr in Hy. exact Hy. }
  rewrite Hma. cbn [negb andb]. eexists; eexists; reflexivity.
Qed.

(* TRUNCATION: a proper prefix of an accepted single-shot text is rejected, unless only trailing white space was cut off
   (gtrail_ok q) or the cut falls between two digits (cut_in_number p q) *)
Theorem g_truncated p q cs : read_all (p ++ q) = (cs, Ok) -> hd CBegin cs = CInit false ->
  cut_in_number p q = false -> ~ In 0 p -> gtrail_ok q = false ->
  exists cs' ln, read_all p = (cs', Err ln).
Proof.
  intros H Hinc Hq Hn0 Htq. destruct (read_all p) as [cs' [|ln]] eqn:Ep; [|eauto].
  exfalso. destruct (g_prefix p q cs' Ep Hq) as (cs2 & o & E2). rewrite H in E2. injection E2 as Ec Eo.
  assert (Hinc' : hd CBegin cs' = CInit false).
  { destruct (g_sound _ _ Ep) as (a & _ & _ & _ & Eca). rewrite Eca in *. unfold gcalls in *. cbn [app hd] in *. rewrite Ec in Hinc. exact Hinc. }
  destruct (g_no_extension p q cs' Ep Hinc' Hq Hn0 Htq) as (cs3 & ln & E3). rewrite H in E3. discriminate E3.
Qed.

(* ---------------------------------------------------------------- texts without NUL bytes *)
(* (the stream abstraction is faithful to the C++ on NUL-free input only; there the leniency "anything after a NUL" disappears) *)
Lemma trail_ws tr : gtrail_ok tr = true -> ~ In 0 tr -> forallb is_ws tr = true.
Proof.
  unfold gtrail_ok. induction tr as [|c r IH]; intros H Hn0; [reflexivity|]. cbn [drop_ws forallb] in *.
  destruct (is_ws c) eqn:Hc; [apply IH; [exact H | intros C; apply Hn0; right; exact C]|].
  exfalso. apply Hn0. left. lia.
Qed.
Lemma ws_trail tr : forallb is_ws tr = true -> gtrail_ok tr = true.
Proof.
  unfold gtrail_ok. induction tr as [|c r IH]; intros H; [reflexivity|]. cbn [forallb drop_ws] in *.
  apply andb_true_iff in H. destruct H as [Hc H]. rewrite Hc. apply IH. exact H.
Qed.

Theorem g_exact_text t : ~ In 0 t ->
  ((exists cs, read_all t = (cs, Ok)) <->
   (exists a, gwf a = true /\ gin_range a = true /\ forallb is_ws (gp_trail a) = true /\ t = grender a)).
Proof.
  intros Hn0. split.
  - intros (cs & H). destruct (g_sound t cs H) as (a & H1 & H2 & H3 & _). exists a. repeat split; try assumption.
    unfold gwf in H1. apply andb_true_iff in H1. destruct H1 as [_ H1]. apply andb_true_iff in H1. destruct H1 as [_ Htr].
    apply trail_ws; [exact Htr|]. intros C. apply Hn0. rewrite H3. unfold grender. repeat (apply in_or_app; right). exact C.
  - intros (a & H1 & H2 & _ & ->). exists (gcalls a). apply g_complete; assumption.
Qed.

(* the same in terms of the description: cut a single-shot rendering anywhere - inside the header, a directive, a count, a
   string, before or inside the terminating 0 - (but not between two digits, and more than trailing white space): the
   remaining text is rejected, hence is not itself the rendering of any in-range program *)
Theorem g_truncated_render a p q : gwf a = true -> gin_range a = true -> gh_inc (gp_hdr a) = false ->
  grender a = p ++ q -> ~ In 0 p -> cut_in_number p q = false -> gtrail_ok q = false ->
  (exists cs ln, read_all p = (cs, Err ln)) /\ ~ (exists a', gwf a' = true /\ gin_range a' = true /\ p = grender a').
Proof.
  intros Hw Hr Hinc Et Hn0 Hc Hq. pose proof (g_complete a Hw Hr) as Ha. rewrite Et in Ha.
  assert (Hhd : hd CBegin (gcalls a) = CInit false) by (unfold gcalls; cbn [hd]; rewrite Hinc; reflexivity).
  destruct (g_truncated p q _ Ha Hhd Hc Hn0 Hq) as (cs & ln & E). split; [eauto|].
  intros (a' & H1 & H2 & ->). rewrite (g_complete a' H1 H2) in E. discriminate E.
Qed.
